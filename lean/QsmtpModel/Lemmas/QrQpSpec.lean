/-
Helper lemmas for C07 (stage A): the buffer-free description `QpRun` of recode_qp() and the proof
that whatever it produces decodes (un-dot, quoted-printable) to the CRLF-normalised input
(`qpRun_decode`).
-/
import QsmtpModel.Lemmas.QpDecode
import QsmtpModel.Lemmas.QrQp

set_option linter.unusedSimpArgs false
set_option linter.unusedVariables false

namespace QsmtpModel.QrData
open QsmtpModel QsmtpModel.Mime QsmtpModel.Spec

/-! ### buffer-free description of recode_qp() -/

def wsEnc (c : Byte) : List Byte := if c = TAB then [EQ, 48, 57] else [EQ, 50, 48]
def isBlank (c : Byte) : Prop := c = TAB ∨ c = SP
instance (c : Byte) : Decidable (isBlank c) := by unfold isBlank; exact inferInstance
def needsEnc (c : Byte) : Prop := sbyte c < 32 ∨ c = EQ ∨ sbyte c > 126

/-- `QpRun rest llen F w`: with `rest` still to be encoded, `llen` characters on the current
encoded line and `F` sent (or staged) so far, recode_qp() may end up having sent `w`. The only
freedom is whether a blank before a soft line break is re-encoded (it is not when the staging buffer
has just been flushed).  A byte is only added to a line that has at most `recodeQpSoft` characters. -/
inductive QpRun : List Byte → Nat → List Byte → List Byte → Prop
  | done (llen F) : QpRun [] llen F F
  | crlf (rest llen F w) : QpRun rest 0 (F ++ [CR, LF]) w → QpRun (CR :: LF :: rest) llen F w
  | cr (rest llen F w) : rest.head? ≠ some LF → QpRun rest 0 (F ++ [CR, LF]) w → QpRun (CR :: rest) llen F w
  | lf (rest llen F w) : QpRun rest 0 (F ++ [CR, LF]) w → QpRun (LF :: rest) llen F w
  | soft (c rest llen F w) : c ≠ CR → c ≠ LF → QpRun (c :: rest) 0 (F ++ [EQ, CR, LF]) w → QpRun (c :: rest) llen F w
  | softTake (c d rest llen F' ws w) : isBlank ws → qpPlain c = true →
      QpRun (d :: rest) 0 (F' ++ [ws, c] ++ [EQ, CR, LF]) w → QpRun (c :: d :: rest) llen (F' ++ [ws]) w
  | softTakeLast (c llen F' ws w) : isBlank ws → qpPlain c = true →
      QpRun [] llen (F' ++ [ws, c]) w → QpRun [c] llen (F' ++ [ws]) w
  | softFix (c rest llen F' ws w) : isBlank ws → c ≠ CR → c ≠ LF →
      QpRun (c :: rest) 0 (F' ++ wsEnc ws ++ [EQ, CR, LF]) w → QpRun (c :: rest) llen (F' ++ [ws]) w
  | dot (rest F w) : QpRun rest 1 (F ++ [DOT, DOT]) w → QpRun (DOT :: rest) 0 F w
  | wsEnd (c llen F w) : llen ≤ Gen.recodeQpSoft → isBlank c → QpRun [] (llen + 3) (F ++ wsEnc c) w → QpRun [c] llen F w
  | wsCrLf (c rest llen F w) : llen ≤ Gen.recodeQpSoft → isBlank c → QpRun rest 0 (F ++ wsEnc c ++ [CR, LF]) w → QpRun (c :: CR :: LF :: rest) llen F w
  | wsCr (c rest llen F w) : llen ≤ Gen.recodeQpSoft → isBlank c → rest.head? ≠ some LF → QpRun rest 0 (F ++ wsEnc c ++ [CR, LF]) w → QpRun (c :: CR :: rest) llen F w
  | wsLf (c rest llen F w) : llen ≤ Gen.recodeQpSoft → isBlank c → QpRun rest 0 (F ++ wsEnc c ++ [CR, LF]) w → QpRun (c :: LF :: rest) llen F w
  | ws (c d rest llen F w) : llen ≤ Gen.recodeQpSoft → isBlank c → d ≠ CR → d ≠ LF → QpRun (d :: rest) (llen + 1) (F ++ [c]) w → QpRun (c :: d :: rest) llen F w
  | enc (c rest llen F w) : llen ≤ Gen.recodeQpSoft → c ≠ CR → c ≠ LF → ¬ isBlank c → needsEnc c → QpRun rest (llen + 3) (F ++ qpEnc c) w → QpRun (c :: rest) llen F w
  | plain (c rest llen F w) : llen ≤ Gen.recodeQpSoft → c ≠ CR → c ≠ LF → ¬ isBlank c → ¬ needsEnc c → ¬ (llen = 0 ∧ c = DOT) →
      QpRun rest (llen + 1) (F ++ [c]) w → QpRun (c :: rest) llen F w

/-! ### normalizeEol, step by step -/

theorem normalizeEol_crlf (rest : List Byte) : normalizeEol (CR :: LF :: rest) = CR :: LF :: normalizeEol rest := by
  rw [normalizeEol]; simp

theorem normalizeEol_lf (rest : List Byte) : normalizeEol (LF :: rest) = CR :: LF :: normalizeEol rest := by
  cases rest with
  | nil => simp [normalizeEol]
  | cons d r => rw [normalizeEol]; simp [lf_ne_cr]

theorem normalizeEol_cr (rest : List Byte) (h : rest.head? ≠ some LF) :
    normalizeEol (CR :: rest) = CR :: LF :: normalizeEol rest := by
  cases rest with
  | nil => simp [normalizeEol]
  | cons d r =>
    have : d ≠ LF := by simpa using h
    rw [normalizeEol]; simp [this]

theorem normalizeEol_ne (c : Byte) (rest : List Byte) (h1 : c ≠ CR) (h2 : c ≠ LF) :
    normalizeEol (c :: rest) = c :: normalizeEol rest := by
  cases rest with
  | nil => simp [normalizeEol, h1, h2]
  | cons d r => rw [normalizeEol]; simp [h1, h2]

/-! ### the pending blank -/

/-- a blank at the very end of what has been sent: it may still be re-encoded -/
def pendOf (F : List Byte) : Option Byte :=
  match F.getLast? with
  | some c => if isBlank c then some c else none
  | none => none

/-- what has been sent, without the pending blank -/
def settled (F : List Byte) : List Byte := if (pendOf F).isSome then F.dropLast else F

theorem settled_append_pend (F : List Byte) : settled F ++ (pendOf F).toList = F := by
  unfold settled pendOf
  cases h : F.getLast? with
  | none => simp
  | some c =>
    by_cases hb : isBlank c
    · simp only [hb, if_true, Option.isSome_some, Option.toList_some]
      obtain ⟨ys, rfl⟩ := List.getLast?_eq_some_iff.mp h
      simp
    · simp [hb]

theorem pend_snoc_blank (F' : List Byte) (ws : Byte) (h : isBlank ws) :
    settled (F' ++ [ws]) = F' ∧ pendOf (F' ++ [ws]) = some ws := by
  have hp : pendOf (F' ++ [ws]) = some ws := by simp [pendOf, h]
  exact ⟨by simp [settled, hp], hp⟩

theorem pend_snoc_nonblank (X : List Byte) (c : Byte) (h : ¬ isBlank c) :
    settled (X ++ [c]) = X ++ [c] ∧ pendOf (X ++ [c]) = none := by
  have hp : pendOf (X ++ [c]) = none := by simp [pendOf, h]
  exact ⟨by simp [settled, hp], hp⟩

theorem pend_append_nonblank (F x : List Byte) (c : Byte) (h : ¬ isBlank c) :
    settled (F ++ (x ++ [c])) = F ++ (x ++ [c]) ∧ pendOf (F ++ (x ++ [c])) = none := by
  rw [← List.append_assoc]; exact pend_snoc_nonblank _ _ h


/-! ### decoding what `QpRun` produces -/

theorem blank_facts (c : Byte) (h : isBlank c) : isLit c ∧ c ≠ DOT ∧ c ≠ 61 ∧ c ≠ CR ∧ c ≠ LF := by
  rcases h with rfl | rfl <;> decide

theorem bolAfter_snoc (b : Bool) (S : List Byte) (c : Byte) : bolAfter b (S ++ [c]) = decide (c = LF) := by
  simp [bolAfter]

theorem wireDec_blank (bol : Bool) (ws : Byte) (x : List Byte) (h : isBlank ws) :
    wireDec bol (ws :: x) = (wireDec false x).map (ws :: ·) := by
  obtain ⟨h1, h2, h3, h4, h5⟩ := blank_facts ws h
  rw [wireDec_cons]; simp [h1, h2, h3, h4]

theorem pendOf_blank (F : List Byte) (ws : Byte) (h : pendOf F = some ws) : isBlank ws := by
  unfold pendOf at h
  split at h
  · split at h
    · simp at h; subst h; assumption
    · simp at h
  · simp at h

/-- decoding what follows `F`, given that the settled part of `F` decodes -/
theorem wireDec_after (F x a : List Byte) (h : wireDec true (settled F) = some a) :
    wireDec true (F ++ x) = (wireDec (bolAfter true F) x).map ((a ++ (pendOf F).toList) ++ ·) := by
  have hF := settled_append_pend F
  cases hp : pendOf F with
  | none =>
    have hs : settled F = F := by simp [settled, hp]
    rw [hs] at h
    rw [wireDec_append true F x a h]; simp
  | some ws =>
    have hb := pendOf_blank F ws hp
    obtain ⟨h1, h2, h3, h4, h5⟩ := blank_facts ws hb
    rw [hp] at hF
    simp only [Option.toList_some] at hF ⊢
    have e : F ++ x = settled F ++ (ws :: x) := by
      conv => lhs; rw [← hF]
      simp
    rw [e, wireDec_append true _ _ a h, wireDec_blank _ _ _ hb]
    have : bolAfter true F = false := by
      conv => lhs; rw [← hF]
      rw [bolAfter_snoc]; simp [h5]
    rw [this]
    cases wireDec false x <;> simp


theorem hexOf_unhex : ∀ n : Fin 16, unhexUpper (hexOf n.val) = some n.val := by decide

theorem wireDec_qpEnc (bol : Bool) (c : Byte) : wireDec bol (qpEnc c) = some [c] := by
  have hlt1 : c.toNat / 16 < 16 := by have := UInt8.toNat_lt c; omega
  have hlt2 : c.toNat % 16 < 16 := Nat.mod_lt _ (by decide)
  have h1 := hexOf_unhex ⟨c.toNat / 16, hlt1⟩
  have h2 := hexOf_unhex ⟨c.toNat % 16, hlt2⟩
  simp only at h1 h2
  obtain ⟨_, n1, _⟩ := unhex_ne _ _ h1
  unfold qpEnc
  rw [show EQ = (61 : Byte) from rfl, wireDec_cons]
  have e1 : ¬ (bol = true ∧ (61 : Byte) = DOT) := fun h => eq_ne.1 h.2
  simp only [e1, if_false, if_true, n1, false_and, h1, h2]
  simp only [wireDec, Option.map_some]
  have : c.toNat / 16 * 16 + c.toNat % 16 = c.toNat := by omega
  rw [this]; simp

theorem wireDec_wsEnc : ∀ (bol : Bool) (ws : Byte), isBlank ws → wireDec bol (wsEnc ws) = some [ws] := by
  intro bol ws h
  rcases h with rfl | rfl <;> cases bol <;> decide

theorem wireDec_crlf (bol : Bool) : wireDec bol [CR, LF] = some [CR, LF] := by cases bol <;> decide
theorem wireDec_soft (bol : Bool) : wireDec bol [EQ, CR, LF] = some [] := by cases bol <;> decide
theorem wireDec_dotdot : wireDec true [DOT, DOT] = some [DOT] := by decide

theorem wireDec_lit (bol : Bool) (c : Byte) (h1 : isLit c) (h2 : c ≠ 61) (h3 : c ≠ CR) (h4 : ¬ (bol = true ∧ c = DOT)) :
    wireDec bol [c] = some [c] := by
  rw [wireDec_cons]; simp [h1, h2, h3, h4, wireDec]

/-- concatenation of two pieces that decode on their own -/
theorem wireDec_two (bol : Bool) (x y dx dy : List Byte) (hx : wireDec bol x = some dx)
    (hy : wireDec (bolAfter bol x) y = some dy) : wireDec bol (x ++ y) = some (dx ++ dy) := by
  rw [wireDec_append bol x y dx hx, hy]; rfl

theorem plain_isLit (c : Byte) (h1 : ¬ needsEnc c) : isLit c ∧ c ≠ 61 := by
  unfold needsEnc at h1
  simp only [not_or] at h1
  obtain ⟨a, b, d⟩ := h1
  unfold sbyte at a d
  have := UInt8.toNat_lt c
  refine ⟨Or.inr ?_, b⟩
  split at a <;> split at d <;> omega

theorem qpPlain_isLit (c : Byte) (h : qpPlain c = true) : isLit c ∧ c ≠ 61 ∧ c ≠ CR ∧ c ≠ LF := by
  unfold qpPlain at h
  simp only [Bool.and_eq_true, decide_eq_true_eq, bne_iff_ne, ne_eq] at h
  obtain ⟨⟨a, b⟩, d⟩ := h
  unfold sbyte at a b
  have := UInt8.toNat_lt c
  have hn : 32 < c.toNat ∧ c.toNat < 127 := by split at a <;> split at b <;> omega
  refine ⟨Or.inr ⟨by omega, by omega⟩, d, ?_, ?_⟩ <;> (intro e; subst e; revert hn; decide)


theorem bolAfter_append_ne_nil (b : Bool) (F x : List Byte) (h : x ≠ []) : bolAfter b (F ++ x) = bolAfter b x := by
  unfold bolAfter
  rw [List.getLast?_append]
  cases hx : x.getLast? with
  | none => exact absurd (List.getLast?_eq_none_iff.mp hx) h
  | some c => simp

/-- one step of the decode invariant: `F` is extended by a piece `x` that ends in a non-blank `e`
and decodes to `dx` -/
theorem step_decode (F x' dx a : List Byte) (e : Byte) (he : ¬ isBlank e)
    (h : wireDec true (settled F) = some a)
    (hx : wireDec (bolAfter true F) (x' ++ [e]) = some dx) :
    wireDec true (settled (F ++ (x' ++ [e]))) = some (a ++ (pendOf F).toList ++ dx)
    ∧ pendOf (F ++ (x' ++ [e])) = none
    ∧ bolAfter true (F ++ (x' ++ [e])) = decide (e = LF) := by
  obtain ⟨s1, s2⟩ := pend_append_nonblank F x' e he
  refine ⟨?_, s2, ?_⟩
  · rw [s1, wireDec_after F _ a h, hx]; rfl
  · rw [bolAfter_append_ne_nil _ _ _ (by simp), bolAfter_snoc]

theorem qpRun_decode {rest : List Byte} {llen : Nat} {F w : List Byte} (run : QpRun rest llen F w) :
    ∀ a, wireDec true (settled F) = some a → (llen = 0 ↔ bolAfter true F = true) →
      wireDec true w = some (a ++ (pendOf F).toList ++ normalizeEol rest) := by
  induction run with
  | done llen F =>
    intro a h _
    have := wireDec_after F [] a h
    simp only [List.append_nil, wireDec, Option.map_some] at this
    simpa [normalizeEol] using this
  | crlf rest llen F w _ ih =>
    intro a h _
    obtain ⟨d1, d2, d3⟩ := step_decode F [CR] [CR, LF] a LF (by decide) h (wireDec_crlf _)
    simp only [List.cons_append, List.nil_append, List.singleton_append, decide_true, decide_false] at d1 d2 d3
    have := ih _ d1 (by simp [d3])
    rw [this, d2, normalizeEol_crlf]; simp
  | cr rest llen F w hne _ ih =>
    intro a h _
    obtain ⟨d1, d2, d3⟩ := step_decode F [CR] [CR, LF] a LF (by decide) h (wireDec_crlf _)
    simp only [List.cons_append, List.nil_append, List.singleton_append, decide_true, decide_false] at d1 d2 d3
    have := ih _ d1 (by simp [d3])
    rw [this, d2, normalizeEol_cr _ hne]; simp
  | lf rest llen F w _ ih =>
    intro a h _
    obtain ⟨d1, d2, d3⟩ := step_decode F [CR] [CR, LF] a LF (by decide) h (wireDec_crlf _)
    simp only [List.cons_append, List.nil_append, List.singleton_append, decide_true, decide_false] at d1 d2 d3
    have := ih _ d1 (by simp [d3])
    rw [this, d2, normalizeEol_lf]; simp
  | soft c rest llen F w h1 h2 _ ih =>
    intro a h _
    obtain ⟨d1, d2, d3⟩ := step_decode F [EQ, CR] [] a LF (by decide) h (wireDec_soft _)
    simp only [List.cons_append, List.nil_append, List.singleton_append, decide_true, decide_false] at d1 d2 d3
    have := ih _ d1 (by simp [d3])
    rw [this, d2]; simp
  | softTake c d rest llen F' ws w hb hp _ ih =>
    intro a h _
    obtain ⟨p1, p2⟩ := pend_snoc_blank F' ws hb
    rw [p1] at h
    obtain ⟨l1, l2, l3, l4⟩ := qpPlain_isLit c hp
    have hdec : wireDec true (F' ++ [ws, c] ++ [EQ, CR, LF]) = some (a ++ [ws, c]) := by
      have e : [ws, c] ++ [EQ, CR, LF] = ws :: ([c] ++ [EQ, CR, LF]) := rfl
      rw [List.append_assoc, wireDec_append true F' _ a h, e, wireDec_blank _ _ _ hb]
      have : wireDec false ([c] ++ [EQ, CR, LF]) = some ([c] ++ []) :=
        wireDec_two false [c] _ [c] [] (wireDec_lit false c l1 l2 l3 (by simp)) (wireDec_soft _)
      simp only [List.cons_append, List.nil_append, List.append_nil] at this
      simp [this]
    have hs : settled (F' ++ [ws, c] ++ [EQ, CR, LF]) = F' ++ [ws, c] ++ [EQ, CR, LF]
        ∧ pendOf (F' ++ [ws, c] ++ [EQ, CR, LF]) = none := by
      have := pend_append_nonblank (F' ++ [ws, c]) [EQ, CR] LF (by decide)
      simpa using this
    have hbol : bolAfter true (F' ++ [ws, c] ++ [EQ, CR, LF]) = true := by
      rw [bolAfter_append_ne_nil _ _ _ (by simp)]; decide
    have := ih (a ++ [ws, c]) (by rw [hs.1]; exact hdec) ⟨fun _ => hbol, fun _ => rfl⟩
    rw [this, hs.2, p2, normalizeEol_ne c _ l3 l4]; simp
  | softTakeLast c llen F' ws w hb hp _ ih =>
    intro a h _
    obtain ⟨p1, p2⟩ := pend_snoc_blank F' ws hb
    rw [p1] at h
    obtain ⟨l1, l2, l3, l4⟩ := qpPlain_isLit c hp
    have hnb : ¬ isBlank c := by
      intro hc; have := blank_facts c hc
      unfold qpPlain sbyte at hp
      rcases hc with rfl | rfl <;> revert hp <;> decide
    have hdec : wireDec true (F' ++ [ws, c]) = some (a ++ [ws, c]) := by
      rw [wireDec_append true F' _ a h, wireDec_blank _ _ _ hb, wireDec_lit false c l1 l2 l3 (by simp)]
      simp
    have hs := pend_append_nonblank F' [ws] c hnb
    simp only [List.cons_append, List.nil_append] at hs
    have hbol : bolAfter true (F' ++ [ws, c]) = false := by
      rw [bolAfter_append_ne_nil _ _ _ (by simp)]; simp [bolAfter, l4]
    -- `llen` is not reset here; but nothing follows
    cases ‹QpRun [] llen (F' ++ [ws, c]) w› with
    | done =>
      rw [p2, normalizeEol_ne c _ l3 l4]
      simpa [normalizeEol] using hdec
  | softFix c rest llen F' ws w hb h1 h2 _ ih =>
    intro a h _
    obtain ⟨p1, p2⟩ := pend_snoc_blank F' ws hb
    rw [p1] at h
    have hdec : wireDec true (F' ++ wsEnc ws ++ [EQ, CR, LF]) = some (a ++ [ws]) := by
      rw [List.append_assoc, wireDec_append true F' _ a h,
        wireDec_two _ (wsEnc ws) [EQ, CR, LF] [ws] [] (wireDec_wsEnc _ ws hb) (wireDec_soft _)]
      simp
    have hs : settled (F' ++ wsEnc ws ++ [EQ, CR, LF]) = F' ++ wsEnc ws ++ [EQ, CR, LF]
        ∧ pendOf (F' ++ wsEnc ws ++ [EQ, CR, LF]) = none := by
      have := pend_append_nonblank (F' ++ wsEnc ws) [EQ, CR] LF (by decide)
      simpa using this
    have hbol : bolAfter true (F' ++ wsEnc ws ++ [EQ, CR, LF]) = true := by
      rw [bolAfter_append_ne_nil _ _ _ (by simp)]; decide
    have := ih (a ++ [ws]) (by rw [hs.1]; exact hdec) ⟨fun _ => hbol, fun _ => rfl⟩
    rw [this, hs.2, p2]; simp
  | dot rest F w _ ih =>
    intro a h hb
    have hbt : bolAfter true F = true := hb.mp rfl
    obtain ⟨d1, d2, d3⟩ := step_decode F [DOT] [DOT] a DOT (by decide) h (by rw [hbt]; exact wireDec_dotdot)
    simp only [List.cons_append, List.nil_append, List.singleton_append, decide_true, decide_false] at d1 d2 d3
    have := ih _ d1 (by simp [d3]; decide)
    rw [this, d2, normalizeEol_ne DOT _ (by decide) (by decide)]; simp
  | wsEnd c llen F w _hl hb _ ih =>
    intro a h _
    obtain ⟨x', e, hx, he, hel⟩ : ∃ x' e, wsEnc c = x' ++ [e] ∧ ¬ isBlank e ∧ e ≠ LF := by
      rcases hb with rfl | rfl
      · exact ⟨[EQ, 48], 57, by decide, by decide, by decide⟩
      · exact ⟨[EQ, 50], 48, by decide, by decide, by decide⟩
    obtain ⟨d1, d2, d3⟩ := step_decode F x' [c] a e he h (by rw [← hx]; exact wireDec_wsEnc _ c hb)
    rw [← hx] at d1 d2 d3
    have := ih _ d1 (by simp [d3, hel])
    obtain ⟨_, _, _, c3, c4⟩ := blank_facts c hb
    rw [this, d2, normalizeEol_ne c _ c3 c4]; simp [normalizeEol]
  | wsCrLf c rest llen F w _hl hb _ ih =>
    intro a h _
    obtain ⟨_, _, _, c3, c4⟩ := blank_facts c hb
    have hd : wireDec (bolAfter true F) (wsEnc c ++ [CR] ++ [LF]) = some ([c] ++ [CR, LF]) := by
      rw [List.append_assoc]
      exact wireDec_two _ _ _ _ _ (wireDec_wsEnc _ c hb) (wireDec_crlf _)
    obtain ⟨d1, d2, d3⟩ := step_decode F (wsEnc c ++ [CR]) _ a LF (by decide) h hd
    simp only [List.append_assoc, List.cons_append, List.nil_append, decide_true] at d1 d2 d3
    have := ih _ (by simpa using d1) (by simp [d3])
    rw [this]
    have e2 : pendOf (F ++ wsEnc c ++ [CR, LF]) = none := by simpa using d2
    rw [e2, normalizeEol_ne c _ c3 c4, normalizeEol_crlf]; simp
  | wsCr c rest llen F w _hl hb hne _ ih =>
    intro a h _
    obtain ⟨_, _, _, c3, c4⟩ := blank_facts c hb
    have hd : wireDec (bolAfter true F) (wsEnc c ++ [CR] ++ [LF]) = some ([c] ++ [CR, LF]) := by
      rw [List.append_assoc]
      exact wireDec_two _ _ _ _ _ (wireDec_wsEnc _ c hb) (wireDec_crlf _)
    obtain ⟨d1, d2, d3⟩ := step_decode F (wsEnc c ++ [CR]) _ a LF (by decide) h hd
    simp only [List.append_assoc, List.cons_append, List.nil_append, decide_true] at d1 d2 d3
    have := ih _ (by simpa using d1) (by simp [d3])
    rw [this]
    have e2 : pendOf (F ++ wsEnc c ++ [CR, LF]) = none := by simpa using d2
    rw [e2, normalizeEol_ne c _ c3 c4, normalizeEol_cr _ hne]; simp
  | wsLf c rest llen F w _hl hb _ ih =>
    intro a h _
    obtain ⟨_, _, _, c3, c4⟩ := blank_facts c hb
    have hd : wireDec (bolAfter true F) (wsEnc c ++ [CR] ++ [LF]) = some ([c] ++ [CR, LF]) := by
      rw [List.append_assoc]
      exact wireDec_two _ _ _ _ _ (wireDec_wsEnc _ c hb) (wireDec_crlf _)
    obtain ⟨d1, d2, d3⟩ := step_decode F (wsEnc c ++ [CR]) _ a LF (by decide) h hd
    simp only [List.append_assoc, List.cons_append, List.nil_append, decide_true] at d1 d2 d3
    have := ih _ (by simpa using d1) (by simp [d3])
    rw [this]
    have e2 : pendOf (F ++ wsEnc c ++ [CR, LF]) = none := by simpa using d2
    rw [e2, normalizeEol_ne c _ c3 c4, normalizeEol_lf]; simp
  | ws c d rest llen F w _hl hb h1 h2 _ ih =>
    intro a h _
    obtain ⟨_, _, _, c3, c4⟩ := blank_facts c hb
    obtain ⟨p1, p2⟩ := pend_snoc_blank F c hb
    have hF : wireDec true F = some (a ++ (pendOf F).toList) := by
      have := wireDec_after F [] a h
      simpa [wireDec] using this
    have := ih _ (by rw [p1]; exact hF) (by rw [bolAfter_snoc]; simp [c4])
    rw [this, p2, normalizeEol_ne c _ c3 c4]; simp
  | enc c rest llen F w _hl h1 h2 h3 h4 _ ih =>
    intro a h _
    have hlt : c.toNat % 16 < 16 := Nat.mod_lt _ (by decide)
    have hnb : ∀ n : Fin 16, ¬ isBlank (hexOf n.val) ∧ hexOf n.val ≠ LF := by decide
    obtain ⟨he, hel⟩ := hnb ⟨c.toNat % 16, hlt⟩
    simp only at he hel
    have hq : qpEnc c = [EQ, hexOf (c.toNat / 16)] ++ [hexOf (c.toNat % 16)] := rfl
    obtain ⟨d1, d2, d3⟩ := step_decode F [EQ, hexOf (c.toNat / 16)] [c] a _ he h (by rw [← hq]; exact wireDec_qpEnc _ c)
    rw [← hq] at d1 d2 d3
    have := ih _ d1 (by simp [d3, hel])
    rw [this, d2, normalizeEol_ne c _ h1 h2]; simp
  | plain c rest llen F w _hl h1 h2 h3 h4 h5 _ ih =>
    intro a h hb
    obtain ⟨l1, l2⟩ := plain_isLit c h4
    have hnd : ¬ (bolAfter true F = true ∧ c = DOT) := fun hh => h5 ⟨hb.mpr hh.1, hh.2⟩
    obtain ⟨d1, d2, d3⟩ := step_decode F [] [c] a c h3 h (wireDec_lit _ c l1 l2 h1 hnd)
    simp only [List.nil_append] at d1 d2 d3
    have := ih _ d1 (by simp [d3, h2])
    rw [this, d2, normalizeEol_ne c _ h1 h2]; simp

end QsmtpModel.QrData
