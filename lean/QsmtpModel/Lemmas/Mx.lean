/-
Helper lemmas about QsmtpModel.Mx (sortmx, filter_my_ips, tryconn, connect_mx).
-/
import QsmtpModel.Mx

namespace QsmtpModel.Mx
open QsmtpModel

/-! ### sortmx -/

/-- `a` may stand in front of `b`: lower preference value, or the same and not (IPv4-only before
an entry with IPv6) -/
def Before (a b : Entry) : Prop :=
  a.prio < b.prio ∨ (a.prio = b.prio ∧ (headV4 a = true → headV4 b = true))

theorem staysBefore_iff (x n : Entry) : staysBefore x n = true ↔ Before x n := by
  unfold staysBefore Before
  cases hx : headV4 x <;> cases hn : headV4 n <;> simp <;> omega

theorem before_total {x n : Entry} (h : ¬ Before x n) : Before n x := by
  unfold Before at *
  cases hx : headV4 x <;> cases hn : headV4 n <;> simp_all <;> omega

theorem before_of_not {x n y : Entry} (h : ¬ Before x n) (hxy : Before x y) : Before n y := by
  unfold Before at *
  cases hx : headV4 x <;> cases hn : headV4 n <;> cases hy : headV4 y <;> simp_all <;> omega

theorem before_trans {a b c : Entry} (h1 : Before a b) (h2 : Before b c) : Before a c := by
  unfold Before at *
  cases ha : headV4 a <;> cases hb : headV4 b <;> cases hc : headV4 c <;> simp_all <;> omega

theorem insertMx_perm (n : Entry) (l : List Entry) : (insertMx n l).Perm (n :: l) := by
  induction l with
  | nil => simp [insertMx]
  | cons x xs ih =>
    simp only [insertMx]
    split
    · exact (List.Perm.cons x ih).trans (List.Perm.swap n x xs)
    · exact List.Perm.refl _

theorem insertMx_sorted (n : Entry) (l : List Entry) (h : l.Pairwise Before) :
    (insertMx n l).Pairwise Before := by
  induction l with
  | nil => simp [insertMx]
  | cons x xs ih =>
    rw [List.pairwise_cons] at h
    simp only [insertMx]
    split
    · rename_i hs
      rw [List.pairwise_cons]
      refine ⟨?_, ih h.2⟩
      intro y hy
      have := (insertMx_perm n xs).mem_iff.mp hy
      rcases List.mem_cons.mp this with rfl | hy'
      · exact (staysBefore_iff x y).mp hs
      · exact h.1 y hy'
    · rename_i hs
      have hnb : ¬ Before x n := fun hb => hs ((staysBefore_iff x n).mpr hb)
      rw [List.pairwise_cons]
      refine ⟨?_, List.pairwise_cons.mpr h⟩
      intro y hy
      rcases List.mem_cons.mp hy with rfl | hy'
      · exact before_total hnb
      · exact before_of_not hnb (h.1 y hy')

theorem sortLoop_perm (res rest : List Entry) : (sortLoop res rest).Perm (res ++ rest) := by
  induction rest generalizing res with
  | nil => simp [sortLoop]
  | cons n rest ih =>
    simp only [sortLoop]
    refine (ih (insertMx n res)).trans ?_
    have h1 : (insertMx n res ++ rest).Perm ((n :: res) ++ rest) := List.Perm.append_right rest (insertMx_perm n res)
    refine h1.trans ?_
    simp only [List.cons_append]
    exact List.perm_middle.symm

theorem sortLoop_sorted (res rest : List Entry) (h : res.Pairwise Before) :
    (sortLoop res rest).Pairwise Before := by
  induction rest generalizing res with
  | nil => simpa [sortLoop]
  | cons n rest ih => exact ih _ (insertMx_sorted n res h)

theorem innerSort_perm (as : List Addr) : (innerSort as).Perm as := by
  unfold innerSort
  have := List.filter_append_perm (fun a => !isV4 a) as
  simpa using this

theorem innerSort_split (as : List Addr) :
    ∃ l6 l4, innerSort as = l6 ++ l4 ∧ (∀ a ∈ l6, isV4 a = false) ∧ (∀ a ∈ l4, isV4 a = true) := by
  refine ⟨as.filter (fun a => !isV4 a), as.filter isV4, rfl, ?_, ?_⟩
  · intro a ha; simpa using (List.mem_filter.mp ha).2
  · intro a ha; exact (List.mem_filter.mp ha).2

/-- after the inner sort the first address is IPv4 exactly when the entry has no IPv6 address -/
theorem headV4_sortEntry (e : Entry) (hne : e.addrs ≠ []) :
    headV4 (sortEntry e) = true ↔ ∀ a ∈ e.addrs, isV4 a = true := by
  unfold headV4 sortEntry innerSort
  simp only
  cases h6 : e.addrs.filter (fun a => !isV4 a) with
  | nil =>
    have hall : ∀ a ∈ e.addrs, isV4 a = true := by
      intro a ha
      have : a ∉ e.addrs.filter (fun a => !isV4 a) := by rw [h6]; simp
      simp [List.mem_filter, ha] at this
      exact this
    have h4 : e.addrs.filter isV4 = e.addrs := List.filter_eq_self.mpr hall
    rw [List.nil_append, h4]
    cases hh : e.addrs with
    | nil => exact absurd hh hne
    | cons a as => simp only [hh] at hall ⊢; exact ⟨fun _ => hall, fun h => h a (by simp)⟩
  | cons b bs =>
    have hb : b ∈ e.addrs.filter (fun a => !isV4 a) := by rw [h6]; simp
    have hb' := List.mem_filter.mp hb
    simp only [List.cons_append]
    constructor
    · intro h; simp [h] at hb'
    · intro h; have := h b hb'.1; simp [this] at hb'

/-! ### filter_my_ips -/

theorem scanAddrs_eq_filter (i : Iface) (as : List Addr) :
    scanAddrs i as = as.filter (fun a => !ifMatch i a) := by
  induction h : as.length using Nat.strongRecOn generalizing as with
  | _ n ih =>
    rw [scanAddrs]
    split
    · rename_i hnone
      have : ∀ a ∈ as, ifMatch i a = false := by
        intro a ha
        have := List.findIdx?_eq_none_iff.mp hnone a ha
        simpa using this
      symm
      apply List.filter_eq_self.mpr
      intro a ha; simp [this a ha]
    · rename_i s hsome
      have hs := List.findIdx?_eq_some_iff_getElem.mp hsome
      obtain ⟨hlt, hm, hbefore⟩ := hs
      split
      · rename_i h1
        -- a single address that matches
        match as, h1, hlt, hm with
        | [a], _, hlt, hm =>
          have : s = 0 := by simp at hlt; omega
          subst this
          simp at hm
          simp [hm]
      · rename_i h1
        have hlen : (as.eraseIdx s).length < n := by
          rw [List.length_eraseIdx]; simp [hlt]; omega
        rw [ih _ hlen _ rfl]
        -- filtering after erasing a matching element = filtering
        have hsplit : as = as.take s ++ as[s] :: as.drop (s + 1) := by
          rw [List.getElem_cons_drop, List.take_append_drop]
        have herase : as.eraseIdx s = as.take s ++ as.drop (s + 1) := List.eraseIdx_eq_take_drop_succ as s
        rw [herase]
        have hdrop : List.filter (fun a => !ifMatch i a) (as[s] :: as.drop (s + 1))
            = List.filter (fun a => !ifMatch i a) (as.drop (s + 1)) := by
          rw [List.filter_cons]; simp [hm]
        calc List.filter (fun a => !ifMatch i a) (as.take s ++ as.drop (s + 1))
            = List.filter (fun a => !ifMatch i a) (as.take s) ++ List.filter (fun a => !ifMatch i a) (as[s] :: as.drop (s + 1)) := by
              rw [List.filter_append, hdrop]
          _ = List.filter (fun a => !ifMatch i a) (as.take s ++ as[s] :: as.drop (s + 1)) := (List.filter_append ..).symm
          _ = List.filter (fun a => !ifMatch i a) as := by rw [← hsplit]

theorem mem_scanAddrs {i : Iface} {as : List Addr} {a : Addr} :
    a ∈ scanAddrs i as ↔ a ∈ as ∧ ifMatch i a = false := by
  rw [scanAddrs_eq_filter, List.mem_filter]; simp

theorem specEntry_nil (e : Entry) : specEntry [] e = some e := by
  unfold specEntry isLocal
  cases e with
  | mk p as n =>
    cases as with
    | nil => simp
    | cons a as => simp

theorem scan_then_spec (i : Iface) (is : List Iface) (e : Entry) :
    (scanEntry i e).bind (specEntry is) = specEntry (i :: is) e := by
  have hr : e.addrs.filter (fun a => !isLocal (i :: is) a)
      = (scanAddrs i e.addrs).filter (fun a => !isLocal is a) := by
    rw [scanAddrs_eq_filter, List.filter_filter]
    congr 1
    funext a
    simp [isLocal, List.any_cons, Bool.and_comm]
  unfold scanEntry specEntry
  simp only [hr]
  by_cases h1 : (scanAddrs i e.addrs).isEmpty = true ∧ e.addrs.isEmpty = false
  · have h1' : scanAddrs i e.addrs = [] := by simpa using h1.1
    simp [h1.1, h1.2, h1']
  · by_cases he : e.addrs = []
    · have : scanAddrs i [] = [] := by rw [scanAddrs_eq_filter]; rfl
      simp [he, this]
    · have hne : scanAddrs i e.addrs ≠ [] := by
        intro h; apply h1; simp [h, he]
      simp [he, hne]

theorem filterOne_spec (l : List Entry) (i : Iface) (is : List Iface) :
    (filterOne l i).filterMap (specEntry is) = l.filterMap (specEntry (i :: is)) := by
  unfold filterOne
  rw [List.filterMap_filterMap]
  congr 1
  funext e
  exact scan_then_spec i is e

/-- filter_my_ips() removes exactly the local addresses -/
theorem filterMyIps_eq_spec (ifs : Option (List Iface)) (l : List Entry) :
    filterMyIps ifs l = filterSpec ifs l := by
  cases ifs with
  | none => rfl
  | some is =>
    simp only [filterMyIps, filterSpec]
    induction is generalizing l with
    | nil =>
      simp only [List.foldl_nil]
      induction l with
      | nil => rfl
      | cons e l ih => rw [List.filterMap_cons, specEntry_nil]; simp [← ih]
    | cons i is ih =>
      rw [List.foldl_cons, ih, filterOne_spec]

theorem mem_filterSpec {is : List Iface} {l : List Entry} {e : Entry} (h : e ∈ filterSpec (some is) l) :
    ∃ e0 ∈ l, e.addrs = e0.addrs.filter (fun a => !isLocal is a) ∧ e.prio = e0.prio ∧ e.name = e0.name := by
  simp only [filterSpec, List.mem_filterMap] at h
  obtain ⟨e0, h0, hs⟩ := h
  refine ⟨e0, h0, ?_⟩
  unfold specEntry at hs
  simp only at hs
  split at hs
  · exact absurd hs (by simp)
  · have := Option.some.inj hs
    subst this
    exact ⟨rfl, rfl, rfl⟩

/-! ### tryconn -/

theorem prioCurrent_eq : prioCurrent = 65538 := rfl
theorem prioUsed_eq : prioUsed = 65537 := rfl
theorem freshMax_eq : freshMax = 65536 := rfl

/-- every entry has at least one address (`in6_to_ips` asserts it, `filter_my_ips` keeps it) -/
def NonEmpty (mx : List Entry) : Prop := ∀ as ∈ mx.map (·.addrs), as ≠ []

/-- the addresses still to be tried in state (`cur_s`, list), in the order tryconn() takes them -/
def pending (c : Nat) : List Entry → List Addr
  | [] => []
  | e :: rest =>
    if e.prio = prioCurrent then
      if c < e.addrs.length - 1 then e.addrs.drop (c + 1) ++ pending (e.addrs.length - 1) rest
      else pending c rest
    else if e.prio ≤ freshMax then e.addrs ++ pending (e.addrs.length - 1) rest
    else pending c rest

theorem nonEmpty_cons {e : Entry} {rest : List Entry} (h : NonEmpty (e :: rest)) : e.addrs ≠ [] ∧ NonEmpty rest := by
  unfold NonEmpty at *
  simp only [List.map_cons, List.mem_cons] at h
  exact ⟨h _ (Or.inl rfl), fun as has => h as (Or.inr has)⟩

theorem pick_map (c : Nat) (mx : List Entry) : (pick c mx).1.map (·.addrs) = mx.map (·.addrs) := by
  induction mx generalizing c with
  | nil => rfl
  | cons e rest ih =>
    simp only [pick]
    split
    · split
      · rfl
      · simp [ih c]
    · split
      · rfl
      · simp [ih c]

theorem pick_none {c : Nat} {mx mx' : List Entry} {c' : Nat} (hne : NonEmpty mx)
    (h : pick c mx = (mx', c', none)) : pending c mx = [] ∧ pending c' mx' = [] := by
  induction mx generalizing mx' c' with
  | nil => simp only [pick] at h; cases h; exact ⟨rfl, rfl⟩
  | cons e rest ih =>
    obtain ⟨_, hrest⟩ := nonEmpty_cons hne
    rcases hp : pick c rest with ⟨r, c2, s⟩
    simp only [pick, hp] at h
    split at h
    · rename_i hcur
      split at h
      · cases h
      · rename_i hc
        cases s with
        | some k => simp at h
        | none =>
          simp only [Option.map_none, Prod.mk.injEq] at h
          obtain ⟨rfl, rfl, _⟩ := h
          have := ih hrest hp
          simp only [pending, hcur, if_true, if_neg hc]
          refine ⟨this.1, ?_⟩
          rw [prioUsed_eq, prioCurrent_eq, freshMax_eq]
          simpa using this.2
    · rename_i hcur
      split at h
      · cases h
      · rename_i hf
        cases s with
        | some k => simp at h
        | none =>
          simp only [Option.map_none, Prod.mk.injEq] at h
          obtain ⟨rfl, rfl, _⟩ := h
          have := ih hrest hp
          simp only [pending, if_neg hcur, if_neg hf]
          exact this

theorem pick_some {c : Nat} {mx mx' : List Entry} {c' k : Nat} (hne : NonEmpty mx)
    (h : pick c mx = (mx', c', some k)) :
    ∃ e a, mx'[k]? = some e ∧ e.addrs[c']? = some a ∧ pending c mx = a :: pending c' mx' := by
  induction mx generalizing mx' c' k with
  | nil => simp [pick] at h
  | cons e rest ih =>
    obtain ⟨hea, hrest⟩ := nonEmpty_cons hne
    rcases hp : pick c rest with ⟨r, c2, s⟩
    simp only [pick, hp] at h
    split at h
    · rename_i hcur
      split at h
      · rename_i hc
        simp only [Prod.mk.injEq, Option.some.injEq] at h
        obtain ⟨rfl, rfl, rfl⟩ := h
        have hlt : c + 1 < e.addrs.length := by omega
        refine ⟨e, e.addrs[c + 1], by simp, by simp [hlt], ?_⟩
        simp only [pending, hcur, if_true, if_pos hc]
        rw [List.drop_eq_getElem_cons hlt]
        by_cases hc2 : c + 1 < e.addrs.length - 1
        · rw [if_pos hc2]; rfl
        · have hdrop : e.addrs.drop (c + 1 + 1) = [] := List.drop_eq_nil_of_le (by omega)
          have heq : c + 1 = e.addrs.length - 1 := by omega
          rw [if_neg hc2, hdrop, ← heq]
          rfl
      · rename_i hc
        cases s with
        | none => simp at h
        | some k0 =>
          simp only [Option.map_some, Prod.mk.injEq, Option.some.injEq] at h
          obtain ⟨rfl, rfl, rfl⟩ := h
          obtain ⟨e1, a, h1, h2, h3⟩ := ih hrest hp
          refine ⟨e1, a, by simpa using h1, h2, ?_⟩
          simp only [pending, hcur, if_true, if_neg hc]
          rw [h3, prioUsed_eq, prioCurrent_eq, freshMax_eq]
          simp
    · rename_i hcur
      split at h
      · rename_i hf
        simp only [Prod.mk.injEq, Option.some.injEq] at h
        obtain ⟨rfl, rfl, rfl⟩ := h
        obtain ⟨a, as, has⟩ := List.exists_cons_of_ne_nil hea
        refine ⟨{ e with prio := prioCurrent }, a, by simp, by simp [has], ?_⟩
        simp only [pending, if_neg hcur, if_pos hf, if_true, has, List.length_cons, List.cons_append]
        cases as with
        | nil => simp
        | cons b bs => simp
      · rename_i hf
        cases s with
        | none => simp at h
        | some k0 =>
          simp only [Option.map_some, Prod.mk.injEq, Option.some.injEq] at h
          obtain ⟨rfl, rfl, rfl⟩ := h
          obtain ⟨e1, a, h1, h2, h3⟩ := ih hrest hp
          refine ⟨e1, a, by simpa using h1, h2, ?_⟩
          simp only [pending, if_neg hcur, if_neg hf]
          exact h3

theorem nonEmpty_of_map {mx mx' : List Entry} (h : mx'.map (·.addrs) = mx.map (·.addrs)) (hne : NonEmpty mx) :
    NonEmpty mx' := by
  unfold NonEmpty at *; rw [h]; exact hne

theorem pending_length_le (c : Nat) (mx : List Entry) :
    (pending c mx).length ≤ (mx.map (fun e => e.addrs.length + 1)).sum := by
  induction mx generalizing c with
  | nil => simp [pending]
  | cons e rest ih =>
    simp only [pending, List.map_cons, List.sum_cons]
    split
    · split
      · have := ih (e.addrs.length - 1); simp only [List.length_append, List.length_drop]; omega
      · have := ih c; omega
    · split
      · have := ih (e.addrs.length - 1); simp only [List.length_append]; omega
      · have := ih c; omega

theorem fuelFor_map {mx mx' : List Entry} (h : mx'.map (·.addrs) = mx.map (·.addrs)) : fuelFor mx' = fuelFor mx := by
  unfold fuelFor
  have : mx'.map (fun e => e.addrs.length + 1) = mx.map (fun e => e.addrs.length + 1) := by
    have := congrArg (List.map (fun as : List Addr => as.length + 1)) h
    simp only [List.map_map] at this
    exact this
  rw [this]

theorem pending_lt_fuelFor (c : Nat) (mx : List Entry) : (pending c mx).length < fuelFor mx := by
  have := pending_length_le c mx
  unfold fuelFor; omega

/-- what one call of tryconn() does, for every state and every script: it takes addresses off the
front of `pending` until one connects -/
theorem tryconn_spec (port : Nat) (o4 o6 : Addr) (fuel : Nat) (st : TcState)
    (hne : NonEmpty st.mx) (hf : (pending st.curS st.mx).length < fuel) :
    ∃ r st' new n, tryconn port o4 o6 fuel st = .ok (r, st') ∧
      st'.log = st.log ++ new ∧ new.map (·.addr) = (pending st.curS st.mx).take n ∧
      (∀ a ∈ new, a.port = port) ∧
      pending st'.curS st'.mx = (pending st.curS st.mx).drop n ∧
      st'.mx.map (·.addrs) = st.mx.map (·.addrs) ∧
      (r = none → pending st'.curS st'.mx = []) ∧
      (r ≠ none → 0 < n ∧ n ≤ (pending st.curS st.mx).length) := by
  induction fuel generalizing st with
  | zero => omega
  | succ fuel ih =>
    rw [tryconn]
    rcases hp : pick st.curS st.mx with ⟨mx', c, s⟩
    have hmap : mx'.map (·.addrs) = st.mx.map (·.addrs) := by
      have := pick_map st.curS st.mx; rw [hp] at this; exact this
    cases s with
    | none =>
      obtain ⟨h1, h2⟩ := pick_none hne hp
      refine ⟨none, { st with mx := mx', curS := c }, [], 0, rfl, by simp, by simp, by simp, ?_, hmap, ?_, by simp⟩
      · simp [h1, h2]
      · intro _; exact h2
    | some k =>
      obtain ⟨e, a, h1, h2, h3⟩ := pick_some hne hp
      simp only [h1, h2]
      rcases hres : nextRes st.script with ⟨r, script'⟩
      simp only
      by_cases hok : r = .ok
      · subst hok
        simp only [if_true]
        refine ⟨some (k, c), _, [{ addr := a, port := port, out := if isV4 a then o4 else o6, res := .ok }], 1, rfl, rfl, ?_, ?_, ?_, hmap, by simp, by simp [h3]⟩
        · simp [h3]
        · simp
        · simp [h3]
      · simp only [if_neg hok]
        have hne' : NonEmpty mx' := nonEmpty_of_map hmap hne
        have hf' : (pending c mx').length < fuel := by rw [h3] at hf; simp at hf; omega
        obtain ⟨r2, st2, new2, n2, e1, e2, e3, e4, e5, e6, e7, e8⟩ :=
          ih { mx := mx', curS := c, script := script', log := st.log ++ [{ addr := a, port := port, out := if isV4 a then o4 else o6, res := r }] } hne' hf'
        refine ⟨r2, st2, { addr := a, port := port, out := if isV4 a then o4 else o6, res := r } :: new2, n2 + 1, e1, ?_, ?_, ?_, ?_, e6.trans hmap, e7, ?_⟩
        · rw [e2]; simp
        · simp only at e3; simp [h3, e3]
        · intro x hx
          rcases List.mem_cons.mp hx with rfl | hx
          · rfl
          · exact e4 x hx
        · simp only at e5; rw [e5, h3]; simp
        · intro hr; have := e8 hr; simp only at this; rw [h3]; simp; omega

/-- an untouched list: nothing marked USED or CURRENT -/
def Fresh (mx : List Entry) : Prop := ∀ e ∈ mx, e.prio ≤ freshMax

theorem pending_fresh (c : Nat) (mx : List Entry) (hf : Fresh mx) : pending c mx = flatAddrs mx := by
  induction mx generalizing c with
  | nil => rfl
  | cons e rest ih =>
    have he : e.prio ≤ freshMax := hf e (by simp)
    have hne : e.prio ≠ prioCurrent := by rw [freshMax_eq] at he; rw [prioCurrent_eq]; omega
    have hrest : Fresh rest := fun x hx => hf x (by simp [hx])
    simp only [pending, if_neg hne, if_pos he, flatAddrs, List.flatMap_cons]
    rw [ih _ hrest]; rfl

/-! ### connect_mx -/

/-- the loop of connect_mx(), for every state, every connect script and every behaviour of the
servers: no fault; the addresses contacted are a prefix of `pending`, all on the route's port; if the
function gives up (-ENOENT) every pending address was contacted. -/
theorem connectMx_spec (port : Nat) (etls : Bool) (o4 o6 : Addr) (fuel : Nat) (st : CmState)
    (hne : NonEmpty st.tc.mx) (hnil : st.tc.mx ≠ []) (hf : (pending st.tc.curS st.tc.mx).length < fuel) :
    ∃ out st' new n, connectMx port etls o4 o6 fuel st = .ok (out, st') ∧
      st'.tc.log = st.tc.log ++ new ∧ new.map (·.addr) = (pending st.tc.curS st.tc.mx).take n ∧
      (∀ a ∈ new, a.port = port) ∧
      (out = .noneLeft → new.map (·.addr) = pending st.tc.curS st.tc.mx) := by
  induction fuel generalizing st with
  | zero => omega
  | succ fuel ih =>
    rw [connectMx]
    cases hmx : st.tc.mx with
    | nil => exact absurd hmx hnil
    | cons e0 rest0 =>
      simp only
      cases hpre : preTlsa port e0.name st.toks st.evs with
      | none => exact ⟨.desync, _, [], 0, rfl, by simp, by simp, by simp, by simp⟩
      | some p =>
        obtain ⟨tlsa, toks, evs⟩ := p
        simp only
        obtain ⟨r, tc', new, n, h1, h2, h3, h4, h5, h6, h7, h8⟩ :=
          tryconn_spec port o4 o6 (fuelFor st.tc.mx) st.tc hne (pending_lt_fuelFor _ _)
        rw [← hmx, h1]
        cases r with
        | none =>
          refine ⟨.noneLeft, _, new, n, rfl, h2, h3, h4, ?_⟩
          intro _
          have hnil' := h7 rfl
          rw [h5] at hnil'
          have hlen : (pending st.tc.curS st.tc.mx).length ≤ n := by
            have := congrArg List.length hnil'; simp at this; omega
          rw [h3, List.take_of_length_le hlen]
        | some kc =>
          obtain ⟨k, c⟩ := kc
          have hn := h8 (by simp)
          simp only
          cases hs : session etls tlsa toks (evs ++ attEvs st.tc.log tc'.log ++ [.rhost k c]) with
          | next toks' evs'' =>
            simp only
            have hne' : NonEmpty tc'.mx := nonEmpty_of_map h6 hne
            have hnil' : tc'.mx ≠ [] := by
              intro h; rw [h] at h6; rw [hmx] at h6; simp at h6
            have hf' : (pending tc'.curS tc'.mx).length < fuel := by
              rw [h5, List.length_drop]; omega
            obtain ⟨out, st2, new2, n2, g1, g2, g3, g4, g5⟩ :=
              ih { tc := tc', toks := toks', evs := evs'' } hne' hnil' hf'
            refine ⟨out, st2, new ++ new2, n + n2, g1, ?_, ?_, ?_, ?_⟩
            · rw [g2]; simp only; rw [h2, List.append_assoc]
            · simp only at g3; rw [List.map_append, h3, g3, h5, List.take_add]
            · intro a ha
              rcases List.mem_append.mp ha with ha | ha
              · exact h4 a ha
              · exact g4 a ha
            · intro ho
              have := g5 ho
              simp only at this
              rw [List.map_append, h3, this, h5, List.take_append_drop]
          | done ext toks' evs'' => exact ⟨.connected ext, _, new, n, rfl, h2, h3, h4, by simp⟩
          | abort evs'' => exact ⟨.exitAbort, _, new, n, rfl, h2, h3, h4, by simp⟩
          | clean evs'' => exact ⟨.exitClean, _, new, n, rfl, h2, h3, h4, by simp⟩
          | desync evs'' => exact ⟨.desync, _, new, n, rfl, h2, h3, h4, by simp⟩

/-! ### the event trace and the socket log tell the same story -/

theorem attemptsOf_append (a b : List Ev) : attemptsOf (a ++ b) = attemptsOf a ++ attemptsOf b := by
  simp [attemptsOf, List.filterMap_append]

theorem attemptsOf_map_att (l : List Attempt) : attemptsOf (l.map .att) = l := by
  induction l with
  | nil => rfl
  | cons a l ih => simp only [List.map_cons, attemptsOf, List.filterMap_cons] at ih ⊢; rw [ih]

theorem attemptsOf_attEvs (old new : List Attempt) : attemptsOf (attEvs old new) = new.drop old.length := by
  unfold attEvs; exact attemptsOf_map_att _

/-- appending events that are no socket events does not change the socket events -/
theorem atts_app (l extra : List Ev) (h : attemptsOf extra = []) : attemptsOf (l ++ extra) = attemptsOf l := by
  rw [attemptsOf_append, h, List.append_nil]

theorem greetLines_atts (fuel : Nat) (s : Int) (f more : Bool) (toks : List Tok) (evs : List Ev) :
    attemptsOf (greetLines fuel s f more toks evs).2.2 = attemptsOf evs := by
  induction fuel generalizing s f more toks evs with
  | zero => rfl
  | succ fuel ih =>
    simp only [greetLines]
    split
    · rfl
    · split
      · rename_i r toks'
        cases r with
        | reset => exact atts_app _ _ rfl
        | code c m => simp only; rw [ih]; exact atts_app _ _ rfl
        | invalid => exact atts_app _ _ rfl
        | timeout => exact atts_app _ _ rfl
        | other => exact atts_app _ _ rfl
      · rfl

theorem quitIf_atts (e : Int) (evs : List Ev) : attemptsOf (quitIf e evs) = attemptsOf evs := by
  unfold quitIf; split
  · exact atts_app _ _ rfl
  · rfl

def sessEvs : Sess → List Ev
  | .next _ evs => evs
  | .done _ _ evs => evs
  | .abort evs => evs
  | .clean evs => evs
  | .desync evs => evs

theorem afterBanner_atts (etls : Bool) (tlsa : Int) (toks : List Tok) (evs : List Ev) :
    attemptsOf (sessEvs (afterBanner etls tlsa toks evs)) = attemptsOf evs := by
  unfold afterBanner
  split
  · rename_i g toks3
    simp only
    split
    · simp only [sessEvs, quitIf_atts]; exact atts_app _ _ rfl
    · split
      · split
        · rename_i t toks4
          split
          · simp only [sessEvs, List.append_assoc]; exact atts_app _ _ rfl
          · split
            · simp only [sessEvs, quitIf_atts, List.append_assoc]; exact atts_app _ _ rfl
            · split
              · split
                · simp only [sessEvs, quitIf_atts, List.append_assoc]; exact atts_app _ _ rfl
                · simp only [sessEvs, List.append_assoc]; exact atts_app _ _ rfl
              · simp only [sessEvs, List.append_assoc]; exact atts_app _ _ rfl
        · simp only [sessEvs, List.append_assoc]; exact atts_app _ _ rfl
      · split
        · simp only [sessEvs, List.append_assoc]; exact atts_app _ _ rfl
        · split
          · simp only [sessEvs, List.append_assoc]; exact atts_app _ _ rfl
          · simp only [sessEvs]; exact atts_app _ _ rfl
  · simp only [sessEvs]; exact atts_app _ _ rfl

theorem session_atts (etls : Bool) (tlsa : Int) (toks : List Tok) (evs : List Ev) :
    attemptsOf (sessEvs (session etls tlsa toks evs)) = attemptsOf evs := by
  unfold session
  split
  · rename_i r toks1
    cases r with
    | reset => simp only [sessEvs]; exact atts_app _ _ rfl
    | timeout => simp only [sessEvs]; exact atts_app _ _ rfl
    | invalid => simp only [sessEvs, List.append_assoc]; exact atts_app _ _ rfl
    | other => simp only; split <;> (simp only [sessEvs]; exact atts_app _ _ rfl)
    | code c more =>
      simp only
      have hg := greetLines_atts (toks1.length + 1) c false more toks1 (evs ++ [.net (.code c more)])
      generalize greetLines (toks1.length + 1) c false more toks1 (evs ++ [.net (.code c more)]) = gl at hg ⊢
      obtain ⟨res, toks2, evs2⟩ := gl
      simp only at hg
      have hbase : attemptsOf evs2 = attemptsOf evs := by rw [hg]; exact atts_app _ _ rfl
      cases res with
      | none => simp only [sessEvs]; rw [atts_app _ _ rfl]; exact hbase
      | some sf =>
        obtain ⟨s, flagerr⟩ := sf
        simp only
        split
        · simp only [sessEvs]; exact hbase
        · split
          · simp only [sessEvs, quitIf_atts]; exact hbase
          · rw [afterBanner_atts]; exact hbase
  · simp only [sessEvs]; exact atts_app _ _ rfl

/-- the attempt events of the trace are exactly the socket log -/
theorem connectMx_atts (port : Nat) (etls : Bool) (o4 o6 : Addr) (fuel : Nat) (st : CmState)
    (hne : NonEmpty st.tc.mx) (hinv : attemptsOf st.evs = st.tc.log)
    {out : CmOut} {st' : CmState} (h : connectMx port etls o4 o6 fuel st = .ok (out, st')) :
    attemptsOf st'.evs = st'.tc.log := by
  induction fuel generalizing st with
  | zero => simp [connectMx] at h
  | succ fuel ih =>
    rw [connectMx] at h
    cases hmx : st.tc.mx with
    | nil => simp [hmx] at h
    | cons e0 rest0 =>
      simp only [hmx] at h
      have hpre_atts : ∀ tlsa toks evs, preTlsa port e0.name st.toks st.evs = some (tlsa, toks, evs) →
          attemptsOf evs = attemptsOf st.evs := by
        intro tlsa toks evs hp
        unfold preTlsa at hp
        split at hp
        · cases hp; rfl
        · split at hp
          · cases hp; exact atts_app _ _ rfl
          · cases hp
      cases hpre : preTlsa port e0.name st.toks st.evs with
      | none =>
        simp only [hpre] at h
        cases h
        simp only
        rw [atts_app _ _ rfl]; exact hinv
      | some p =>
        obtain ⟨tlsa, toks, evs⟩ := p
        simp only [hpre] at h
        have hevs := hpre_atts tlsa toks evs hpre
        obtain ⟨r, tc', new, n, h1, h2, _, _, _, h6, _, _⟩ :=
          tryconn_spec port o4 o6 (fuelFor st.tc.mx) st.tc hne (pending_lt_fuelFor _ _)
        rw [← hmx, h1] at h
        have hnew : attemptsOf (attEvs st.tc.log tc'.log) = new := by
          rw [attemptsOf_attEvs, h2]; simp
        cases r with
        | none =>
          simp only at h
          cases h
          simp only
          rw [attemptsOf_append, hnew, hevs, hinv, h2]
        | some kc =>
          obtain ⟨k, c⟩ := kc
          simp only at h
          have hs := session_atts etls tlsa toks (evs ++ attEvs st.tc.log tc'.log ++ [.rhost k c])
          have hbase : attemptsOf (evs ++ attEvs st.tc.log tc'.log ++ [Ev.rhost k c]) = tc'.log := by
            rw [atts_app _ _ rfl, attemptsOf_append, hnew, hevs, hinv, h2]
          rw [hbase] at hs
          cases hsess : session etls tlsa toks (evs ++ attEvs st.tc.log tc'.log ++ [.rhost k c]) with
          | next toks' evs'' =>
            rw [hsess] at h hs
            simp only at h
            exact ih { tc := tc', toks := toks', evs := evs'' } (nonEmpty_of_map h6 hne) hs h
          | done ext toks' evs'' => rw [hsess] at h hs; cases h; exact hs
          | abort evs'' => rw [hsess] at h hs; cases h; exact hs
          | clean evs'' => rw [hsess] at h hs; cases h; exact hs
          | desync evs'' => rw [hsess] at h hs; cases h; exact hs

end QsmtpModel.Mx
