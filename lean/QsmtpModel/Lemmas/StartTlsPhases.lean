/-
The three phases of one connection of connect_mx() as predicates on the state (property C18):
before the upgrade (`PreP`), with the TLS session active (`TlsP`), after the connection was given up
(`PostP`); each is `Stable`, so every protocol function keeps it.
-/
import QsmtpModel.Lemmas.StartTlsCli

namespace QsmtpModel.StartTlsCli
open QsmtpModel QsmtpModel.Spec.StartTls

/-! ### what one reader call does to the state -/

macro "rr_proj" : tactic => `(tactic| (unfold rawRead; split; (· rfl); (· (split <;> rfl))))

theorem rawRead_k (s : S) : (rawRead s).2.k = s.k := by rr_proj
theorem rawRead_ssl (s : S) : (rawRead s).2.ssl = s.ssl := by rr_proj
theorem rawRead_sslK (s : S) : (rawRead s).2.sslK = s.sslK := by rr_proj
theorem rawRead_sock (s : S) : (rawRead s).2.sock = s.sock := by rr_proj
theorem rawRead_tlsEnd (s : S) : (rawRead s).2.tlsEnd = s.tlsEnd := by rr_proj
theorem rawRead_expectTls (s : S) : (rawRead s).2.expectTls = s.expectTls := by rr_proj
theorem rawRead_routeCert (s : S) : (rawRead s).2.routeCert = s.routeCert := by rr_proj
theorem rawRead_ext (s : S) : (rawRead s).2.ext = s.ext := by rr_proj
theorem rawRead_trace (s : S) : (rawRead s).2.trace = s.trace ++ [.rd s.k s.ssl (rawRead s).1] := by
  unfold rawRead
  split
  · rename_i h; simp [h.1]
  · split
    · rename_i h; simp [h]
    · rename_i h; simp at h; simp [h]

theorem rawRead_clear_tls (s : S) (h : s.ssl = false) : (rawRead s).2.tls = s.tls := by
  unfold rawRead; simp [h]

/-- a reader call through a TLS session that belongs to the connection -/
theorem rawRead_tls (s : S) (h : s.ssl = true) (hk : s.sslK = s.k) :
    (rawRead s).1 = rrOf s.tlsEnd (Netio.netRead false s.inn s.tls).1
      ∧ (rawRead s).2.inn = (Netio.netRead false s.inn s.tls).2.1
      ∧ (rawRead s).2.tls = (Netio.netRead false s.inn s.tls).2.2 := by
  unfold rawRead; simp [h, hk]

theorem tlsReads_single_other (k : Nat) (ev : Ev) (h : evK ev ≠ k) : tlsReads k [ev] = [] := by
  cases ev with
  | conn k' => simp
  | rd k' b r => exact tlsReads_rd_other k k' b r (by simpa [evK] using h)
  | wr k' b x => simp
  | hs k' r => simp

/-! ### the phases -/

structure Common (k : Nat) (base : List Ev) (e c : Bool) (ek : EndKind) (s : S) : Prop where
  hk : s.k = k
  exp : s.expectTls = e
  cert : s.routeCert = c
  tend : s.tlsEnd = ek
  others : ∀ k', k' ≠ k → tlsReads k' s.trace = tlsReads k' base
  le : ∀ ev ∈ s.trace, evK ev ≤ k
  own : sessionsOwned [] s.trace = true

/-- one more event of host `k`, everything else that `Common` mentions unchanged -/
theorem Common.snoc {k : Nat} {base : List Ev} {e c : Bool} {ek : EndKind} {s s' : S} (hc : Common k base e c ek s) (ev : Ev)
    (hev : evK ev = k) (hown : sessionsOwned [] (s.trace ++ [ev]) = true)
    (h1 : s'.k = s.k) (h2 : s'.expectTls = s.expectTls) (h3 : s'.routeCert = s.routeCert) (h4 : s'.tlsEnd = s.tlsEnd)
    (h5 : s'.trace = s.trace ++ [ev]) : Common k base e c ek s' where
  hk := h1.trans hc.hk
  exp := h2.trans hc.exp
  cert := h3.trans hc.cert
  tend := h4.trans hc.tend
  others := by
    intro k' hk'
    rw [h5, tlsReads_append, tlsReads_single_other k' ev (by rw [hev]; exact fun h => hk' h.symm), List.append_nil]
    exact hc.others k' hk'
  le := by
    intro x hx
    rw [h5] at hx
    rcases List.mem_append.mp hx with hx | hx
    · exact hc.le x hx
    · simp at hx; rw [hx, hev]; exact Nat.le_refl _
  own := by rw [h5]; exact hown

/-- the same trace, the same fields that `Common` mentions -/
theorem Common.same {k : Nat} {base : List Ev} {e c : Bool} {ek : EndKind} {s s' : S} (hc : Common k base e c ek s)
    (h1 : s'.k = s.k) (h2 : s'.expectTls = s.expectTls) (h3 : s'.routeCert = s.routeCert) (h4 : s'.tlsEnd = s.tlsEnd)
    (h5 : s'.trace = s.trace) : Common k base e c ek s' where
  hk := h1.trans hc.hk
  exp := h2.trans hc.exp
  cert := h3.trans hc.cert
  tend := h4.trans hc.tend
  others := by intro k' hk'; rw [h5]; exact hc.others k' hk'
  le := by intro x hx; rw [h5] at hx; exact hc.le x hx
  own := by rw [h5]; exact hc.own

/-- before the upgrade: no TLS session, the TLS stream untouched, nothing read through TLS yet -/
def PreP (h : Host) (k : Nat) (base : List Ev) (e c : Bool) (s : S) : Prop :=
  Common k base e c h.tlsEnd s ∧ s.ssl = false ∧ s.tls = h.tls ∧ tlsReads k s.trace = []

/-- the TLS session of this connection is active: what was read through it is what the reader makes of the
TLS stream alone, and the reader stands where that many calls leave it -/
def TlsP (h : Host) (k : Nat) (base : List Ev) (e c : Bool) (s : S) : Prop :=
  Common k base e c h.tlsEnd s ∧ s.ssl = true ∧ s.sslK = k ∧ (okAfter [] s.trace).contains k = true ∧
    ∃ n, tlsReads k s.trace = readSeq h.tlsEnd n [] h.tls ∧ rdState n [] h.tls = (s.inn, s.tls)

/-- the connection was given up -/
def PostP (h : Host) (k : Nat) (base : List Ev) (e c : Bool) (s : S) : Prop :=
  Common k base e c h.tlsEnd s ∧ s.ssl = false ∧ ∃ n, tlsReads k s.trace = readSeq h.tlsEnd n [] h.tls

/-- what is left of all three when the program ends -/
def XP (h : Host) (k : Nat) (base : List Ev) (s : S) : Prop :=
  (∀ k', k' ≠ k → tlsReads k' s.trace = tlsReads k' base) ∧ (∀ ev ∈ s.trace, evK ev ≤ k) ∧ sessionsOwned [] s.trace = true ∧
    ∃ n, tlsReads k s.trace = readSeq h.tlsEnd n [] h.tls

theorem XP.status {h : Host} {k : Nat} {base : List Ev} (s : S) (x : List Byte) (hx : XP h k base s) : XP h k base (wrStatus x s) := hx
theorem XP.down {h : Host} {k : Nat} {base : List Ev} (s : S) (hx : XP h k base s) :
    XP h k base { s with sock := false, ssl := false } := hx

theorem PreP.toPost {h : Host} {k : Nat} {base : List Ev} {e c : Bool} {s : S} (hp : PreP h k base e c s) : PostP h k base e c s :=
  ⟨hp.1, hp.2.1, 0, by rw [hp.2.2.2]; rfl⟩

theorem PostP.toX {h : Host} {k : Nat} {base : List Ev} {e c : Bool} {s : S} (hp : PostP h k base e c s) : XP h k base s :=
  ⟨hp.1.others, hp.1.le, hp.1.own, hp.2.2⟩

theorem PreP.toX {h : Host} {k : Nat} {base : List Ev} {e c : Bool} {s : S} (hp : PreP h k base e c s) : XP h k base s :=
  hp.toPost.toX

theorem TlsP.toX {h : Host} {k : Nat} {base : List Ev} {e c : Bool} {s : S} (hp : TlsP h k base e c s) : XP h k base s :=
  ⟨hp.1.others, hp.1.le, hp.1.own, by obtain ⟨n, h1, _⟩ := hp.2.2.2.2; exact ⟨n, h1⟩⟩

/-- a clear-text reader call adds an event that no TLS clause looks at -/
theorem common_rd_clear {k : Nat} {base : List Ev} {e c : Bool} {ek : EndKind} {s : S} (hc : Common k base e c ek s)
    (hs : s.ssl = false) : Common k base e c ek (rawRead s).2 := by
  refine hc.snoc (.rd s.k false (rawRead s).1) (by simp [evK, hc.hk]) ?_ (rawRead_k s) (rawRead_expectTls s) (rawRead_routeCert s)
    (rawRead_tlsEnd s) (by rw [rawRead_trace, hs])
  exact owned_snoc_clear _ _ hc.own (by intro k r h; cases h) (by intro k x h; cases h)

theorem stable_pre (h : Host) (k : Nat) (base : List Ev) (e c : Bool) : Stable (PreP h k base e c) (XP h k base) where
  rd := by
    intro s hp
    obtain ⟨hc, hs, ht, hr⟩ := hp
    refine ⟨common_rd_clear hc hs, by rw [rawRead_ssl, hs], by rw [rawRead_clear_tls s hs, ht], ?_⟩
    rw [rawRead_trace, tlsReads_append, hr, hs]; simp
  wr := by
    intro s b hp
    obtain ⟨hc, hs, ht, hr⟩ := hp
    refine ⟨hc.snoc (.wr s.k s.ssl b) (by simp [evK, hc.hk]) ?_ rfl rfl rfl rfl rfl, hs, ht, ?_⟩
    · exact owned_snoc_clear _ _ hc.own (by intro k r h; cases h) (by intro k x h; rw [hs] at h; cases h)
    · show tlsReads k (s.trace ++ [.wr s.k s.ssl b]) = []
      rw [tlsReads_append, hr]; simp
  px := fun _ hp => hp.toX
  xst := fun s x hx => XP.status s x hx
  xdown := fun s hx => XP.down s hx

theorem stable_post (h : Host) (k : Nat) (base : List Ev) (e c : Bool) : Stable (PostP h k base e c) (XP h k base) where
  rd := by
    intro s hp
    obtain ⟨hc, hs, n, hr⟩ := hp
    refine ⟨common_rd_clear hc hs, by rw [rawRead_ssl, hs], n, ?_⟩
    rw [rawRead_trace, tlsReads_append, hr, hs]; simp
  wr := by
    intro s b hp
    obtain ⟨hc, hs, n, hr⟩ := hp
    refine ⟨hc.snoc (.wr s.k s.ssl b) (by simp [evK, hc.hk]) ?_ rfl rfl rfl rfl rfl, hs, n, ?_⟩
    · exact owned_snoc_clear _ _ hc.own (by intro k r h; cases h) (by intro k x h; rw [hs] at h; cases h)
    · show tlsReads k (s.trace ++ [.wr s.k s.ssl b]) = _
      rw [tlsReads_append, hr]; simp
  px := fun _ hp => hp.toX
  xst := fun s x hx => XP.status s x hx
  xdown := fun s hx => XP.down s hx

theorem stable_tls (h : Host) (k : Nat) (base : List Ev) (e c : Bool) : Stable (TlsP h k base e c) (XP h k base) where
  rd := by
    intro s hp
    obtain ⟨hc, hs, hk, ho, n, hr, hst⟩ := hp
    have hkk : s.sslK = s.k := by rw [hk, hc.hk]
    obtain ⟨r1, r2, r3⟩ := rawRead_tls s hs hkk
    have htr : (rawRead s).2.trace = s.trace ++ [.rd k true (rawRead s).1] := by rw [rawRead_trace, hs, hc.hk]
    refine ⟨hc.snoc (.rd k true (rawRead s).1) (by simp [evK]) (owned_snoc_rd _ _ _ hc.own ho) (rawRead_k s) (rawRead_expectTls s)
      (rawRead_routeCert s) (rawRead_tlsEnd s) htr, by rw [rawRead_ssl, hs], by rw [rawRead_sslK, hk], ?_, n + 1, ?_, ?_⟩
    · rw [htr]; exact okAfter_snoc _ _ _ ho
    · rw [htr, tlsReads_append, hr, readSeq_succ, hst, r1, hc.tend]; simp
    · rw [rdState_succ, hst, r2, r3]
  wr := by
    intro s b hp
    obtain ⟨hc, hs, hk, ho, n, hr, hst⟩ := hp
    have htr : ({ s with trace := s.trace ++ [.wr s.k s.ssl b] } : S).trace = s.trace ++ [.wr k true b] := by simp [hs, hc.hk]
    refine ⟨hc.snoc (.wr k true b) (by simp [evK]) (owned_snoc_wr _ _ _ hc.own ho) rfl rfl rfl rfl htr, hs, hk, ?_, n, ?_, hst⟩
    · rw [htr]; exact okAfter_snoc _ _ _ ho
    · rw [htr, tlsReads_append, hr]; simp
  px := fun _ hp => hp.toX
  xst := fun s x hx => XP.status s x hx
  xdown := fun s hx => XP.down s hx

end QsmtpModel.StartTlsCli
