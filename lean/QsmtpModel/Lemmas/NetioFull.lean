/-
C05 — the reader (net_read) refines the stream-level specification `goodLines` (Spec/Lines.lean)
for every byte stream, every look-ahead state and every way the kernel cuts the stream into
read() results.  Lemmas only; the property theorems are in Props/C05.lean.
-/
import QsmtpModel.Lemmas.Netio
import QsmtpModel.Spec.Lines
import QsmtpModel.DataFraming
namespace QsmtpModel.Netio
open QsmtpModel

theorem win_eq : win = 1001 := rfl

def NoEol (x : List Byte) : Prop := ∀ b ∈ x, isEol b = false

theorem noEol_iff (x : List Byte) : NoEol x ↔ CR ∉ x ∧ LF ∉ x := by
  constructor
  · intro h
    constructor
    · intro hm; have := h _ hm; simp [isEol] at this
    · intro hm; have := h _ hm; simp [isEol] at this
  · intro ⟨h1, h2⟩ b hb
    simp only [isEol, Bool.or_eq_false_iff, beq_eq_false_iff_ne]
    exact ⟨fun e => h1 (e ▸ hb), fun e => h2 (e ▸ hb)⟩

theorem findIdx_noEol (x y : List Byte) (e : Byte) (hx : NoEol x) (he : isEol e = true) :
    (x ++ e :: y).findIdx? isEol = some x.length := by
  induction x with
  | nil => simp [List.findIdx?_cons, he]
  | cons a as ih =>
    have ha : isEol a = false := hx a List.mem_cons_self
    have := ih (fun b hb => hx b (List.mem_cons_of_mem _ hb))
    simp [List.findIdx?_cons, ha, this]

theorem findIdx_none_of_noEol (x : List Byte) (hx : NoEol x) : x.findIdx? isEol = none := by
  rw [List.findIdx?_eq_none_iff]; intro b hb; simp [hx b hb]

theorem noEol_of_findIdx_none (x : List Byte) (h : x.findIdx? isEol = none) : NoEol x := by
  rw [List.findIdx?_eq_none_iff] at h
  intro b hb; simpa using h b hb

/-- splitting a list at its first end-of-line character -/
theorem findIdx_some_split (w : List Byte) (k : Nat) (h : w.findIdx? isEol = some k) :
    ∃ x e y, w = x ++ e :: y ∧ x.length = k ∧ NoEol x ∧ isEol e = true := by
  induction w generalizing k with
  | nil => simp at h
  | cons a as ih =>
    rw [List.findIdx?_cons] at h
    split at h
    · rename_i ha
      simp at h; subst h
      exact ⟨[], a, as, rfl, rfl, by intro b hb; simp at hb, ha⟩
    · rename_i ha
      cases hk : as.findIdx? isEol with
      | none => simp [hk] at h
      | some j =>
        simp [hk] at h; subst h
        obtain ⟨x, e, y, hw, hl, hn, he⟩ := ih j hk
        refine ⟨a :: x, e, y, by simp [hw], by simp [hl], ?_, he⟩
        intro b hb
        simp only [List.mem_cons] at hb
        rcases hb with rfl | hb
        · simpa using ha
        · exact hn b hb

end QsmtpModel.Netio

namespace QsmtpModel.Netio
open QsmtpModel

theorem take_split (x y : List Byte) (e : Byte) (n : Nat) (h : x.length < n) :
    (x ++ e :: y).take n = x ++ e :: y.take (n - x.length - 1) := by
  rw [List.take_append, List.take_of_length_le (by omega)]
  obtain ⟨m, hm⟩ : ∃ m, n - x.length = m + 1 := ⟨n - x.length - 1, by omega⟩
  rw [hm, List.take_succ_cons]
  simp

theorem window_first (x y : List Byte) (e : Byte) (hx : NoEol x) (he : isEol e = true) (h : x.length < win) :
    ((x ++ e :: y).take win).findIdx? isEol = some x.length := by
  rw [take_split x y e win h]; exact findIdx_noEol x _ e hx he

theorem getElem_split (x y : List Byte) (e : Byte) : (x ++ e :: y)[x.length]? = some e := by simp

theorem getElem_split1 (x y : List Byte) (e : Byte) : (x ++ e :: y)[x.length + 1]? = y[0]? := by
  rw [List.getElem?_append_right (by omega)]; simp

theorem drop_split (x y : List Byte) (e : Byte) : (x ++ e :: y).drop (x.length + 1) = y := by
  have : x ++ e :: y = (x ++ [e]) ++ y := by simp
  rw [this, show x.length + 1 = (x ++ [e]).length by simp, List.drop_left]

theorem drop_split2 (x y : List Byte) (e f : Byte) : (x ++ e :: f :: y).drop (x.length + 2) = y := by
  have : x ++ e :: f :: y = (x ++ [e, f]) ++ y := by simp
  rw [this, show x.length + 2 = (x ++ [e, f]).length by simp, List.drop_left]

theorem isEol_LF : isEol LF = true := by decide
theorem isEol_CR : isEol CR = true := by decide
theorem eol_cases (e : Byte) (h : isEol e = true) : e = CR ∨ e = LF := by
  simp only [isEol, Bool.or_eq_true, beq_iff_eq] at h; exact h

/-- a bare LF in front: one canonical read skips it -/
theorem scan_lf (x y : List Byte) (hx : NoEol x) (h : x.length < win) : scan (x ++ LF :: y) = .skip y := by
  unfold scan
  rw [window_first x y LF hx isEol_LF h]
  simp only [getElem_split, if_true, drop_split]

/-- CRLF behind a clean prefix that fits: the line -/
theorem scan_line (x y : List Byte) (hx : NoEol x) (h : x.length + 1 < win) :
    scan (x ++ CR :: LF :: y) = .line x y := by
  unfold scan
  rw [window_first x _ CR hx isEol_CR (by omega)]
  have hne : (CR : Byte) ≠ LF := by decide
  simp only [getElem_split, Option.some.injEq, hne, if_false]
  have h2 : ¬ (x.length + 1 = win) := by omega
  rw [if_neg h2, getElem_split1]
  simp only [List.getElem?_cons_zero, if_true, drop_split2]
  simp

/-- CR followed by something else: one canonical read skips the stray CR -/
theorem scan_cr (x y : List Byte) (b : Byte) (hx : NoEol x) (hb : b ≠ LF) (h : x.length + 1 < win) :
    scan (x ++ CR :: b :: y) = .skip (b :: y) := by
  unfold scan
  rw [window_first x _ CR hx isEol_CR (by omega)]
  have hne : (CR : Byte) ≠ LF := by decide
  simp only [getElem_split, Option.some.injEq, hne, if_false]
  have h2 : ¬ (x.length + 1 = win) := by omega
  rw [if_neg h2, getElem_split1]
  simp only [List.getElem?_cons_zero, hb, if_false, drop_split]

/-- the stream ends right behind a CR (that could still become a CRLF): the reader waits in vain -/
theorem scan_cr_end (x : List Byte) (hx : NoEol x) (h : x.length + 1 < win) : scan (x ++ [CR]) = .dead := by
  unfold scan
  rw [window_first x [] CR hx isEol_CR (by omega)]
  have hne : (CR : Byte) ≠ LF := by decide
  simp only [getElem_split, Option.some.injEq, hne, if_false]
  have h2 : ¬ (x.length + 1 = win) := by omega
  rw [if_neg h2, getElem_split1]
  simp

/-- no line end and the stream is over: dead -/
theorem scan_short (x : List Byte) (hx : NoEol x) (h : x.length < win) : scan x = .dead := by
  unfold scan
  have : NoEol (x.take win) := fun b hb => hx b (List.mem_of_mem_take hb)
  rw [findIdx_none_of_noEol _ this, if_pos h]

/-- `win` bytes without a line end: the over-long line is discarded -/
theorem scan_long (x y : List Byte) (hx : NoEol x) (h : x.length = win) : scan (x ++ y) = discard (x ++ y) := by
  unfold scan
  have ht : (x ++ y).take win = x := by rw [← h]; exact List.take_left' rfl
  rw [ht, findIdx_none_of_noEol _ hx]
  have : ¬ (x ++ y).length < win := by simp only [List.length_append]; omega
  rw [if_neg this]

/-- a CR as the last byte the window can hold: over-long, whatever follows -/
theorem scan_long_cr (x y : List Byte) (hx : NoEol x) (h : x.length + 1 = win) :
    scan (x ++ CR :: y) = discard (x ++ CR :: y) := by
  unfold scan
  rw [window_first x y CR hx isEol_CR (by omega)]
  have hne : (CR : Byte) ≠ LF := by decide
  simp only [getElem_split, Option.some.injEq, hne, if_false]
  rw [if_pos h]

end QsmtpModel.Netio

namespace QsmtpModel.Netio
open QsmtpModel

theorem findIdx_lt (w : List Byte) (k : Nat) (h : w.findIdx? isEol = some k) : k < w.length := by
  obtain ⟨x, e, y, hw, hl, _, _⟩ := findIdx_some_split w k h
  rw [hw, ← hl]; simp

theorem discard_shrinks (p r : List Byte) (h : discard p = .skip r) : r.length < p.length := by
  unfold discard at h
  split at h
  · simp at h
  · rename_i j hj
    have hlt := memchr_lt _ _ _ hj
    simp only [List.length_drop] at hlt
    injection h with h; subst h
    simp only [List.length_drop]; omega
where
  memchr_lt (c : Byte) (l : List Byte) (n : Nat) (h : memchr c l = some n) : n < l.length :=
    (List.getElem?_eq_some_iff.mp (memchr_some_spec c l n h).1).1

theorem scan_shrinks (p : List Byte) :
    (∀ r, scan p = .skip r → r.length < p.length) ∧ (∀ l r, scan p = .line l r → r.length < p.length) := by
  unfold scan
  split
  · split
    · simp
    · exact ⟨fun r h => discard_shrinks p r h, fun l r h => by simp [discard] at h; split at h <;> simp at h⟩
  · rename_i k hk
    have hkl : k < p.length := by
      have := findIdx_lt _ _ hk; simp only [List.length_take] at this; omega
    split
    · constructor
      · intro r h; injection h with h; subst h; simp only [List.length_drop]; omega
      · intro l r h; simp at h
    · split
      · exact ⟨fun r h => discard_shrinks p r h, fun l r h => by simp [discard] at h; split at h <;> simp at h⟩
      · split
        · simp
        · rename_i b hb
          have hk1 : k + 1 < p.length := (List.getElem?_eq_some_iff.mp hb).1
          split
          · constructor
            · intro r h; simp at h
            · intro l r h; injection h with _ h; subst h; simp only [List.length_drop]; omega
          · constructor
            · intro r h; injection h with h; subst h; simp only [List.length_drop]; omega
            · intro l r h; simp at h

/-- more fuel than bytes never changes the result -/
theorem canon_fuel_aux (n : Nat) : ∀ (p : List Byte), p.length ≤ n → ∀ f g : Nat, p.length < f → p.length < g →
    canonLines f p = canonLines g p := by
  induction n with
  | zero =>
    intro p hp f g hf hg
    cases f with
    | zero => omega
    | succ f =>
      cases g with
      | zero => omega
      | succ g =>
        have hs := scan_shrinks p
        simp only [canonLines]
        cases hsc : scan p with
        | dead => rfl
        | skip r => have := hs.1 r hsc; omega
        | line l r => have := hs.2 l r hsc; omega
  | succ n ih =>
    intro p hp f g hf hg
    cases f with
    | zero => omega
    | succ f =>
      cases g with
      | zero => omega
      | succ g =>
        have hs := scan_shrinks p
        simp only [canonLines]
        cases hsc : scan p with
        | dead => rfl
        | skip r =>
          have := hs.1 r hsc
          exact ih r (by omega) f g (by omega) (by omega)
        | line l r =>
          have := hs.2 l r hsc
          simp only
          rw [ih r (by omega) f g (by omega) (by omega)]

theorem canon_fuel (p : List Byte) (f g : Nat) (hf : p.length < f) (hg : p.length < g) :
    canonLines f p = canonLines g p := canon_fuel_aux p.length p (Nat.le_refl _) f g hf hg

theorem canon_step_skip (f : Nat) (p r : List Byte) (h : scan p = .skip r) : canonLines (f + 1) p = canonLines f r := by
  simp only [canonLines, h]
theorem canon_step_line (f : Nat) (p l r : List Byte) (h : scan p = .line l r) :
    canonLines (f + 1) p = l :: canonLines f r := by
  simp only [canonLines, h]

/-- canonical continuation after a skip / a line, with the canonical amount of fuel -/
theorem goodLines_skip (p r : List Byte) (h : scan p = .skip r) : goodLines p = goodLines r := by
  unfold goodLines
  have hs := (scan_shrinks p).1 r h
  rw [canon_step_skip _ p r h]
  exact canon_fuel r _ _ (by omega) (by omega)

theorem goodLines_line (p l r : List Byte) (h : scan p = .line l r) : goodLines p = l :: goodLines r := by
  unfold goodLines
  have hs := (scan_shrinks p).2 l r h
  rw [canon_step_line _ p l r h, canon_fuel r p.length (r.length + 1) (by omega) (by omega)]

theorem goodLines_dead (p : List Byte) (h : scan p = .dead) : goodLines p = [] := by
  unfold goodLines; simp only [canonLines, h]

/-- `q` is reached from `p` by one or more skip steps of the canonical reader (no line in between) -/
inductive Skips : List Byte → List Byte → Prop
  | one {p r : List Byte} : scan p = .skip r → Skips p r
  | more {p r q : List Byte} : scan p = .skip r → Skips r q → Skips p q

theorem Skips.goodLines_eq {p q : List Byte} (h : Skips p q) : goodLines p = goodLines q := by
  induction h with
  | one h => exact goodLines_skip _ _ h
  | more h _ ih => rw [goodLines_skip _ _ h, ih]

theorem Skips.shrinks {p q : List Byte} (h : Skips p q) : q.length < p.length := by
  induction h with
  | one h => exact (scan_shrinks _).1 _ h
  | more h _ ih => have := (scan_shrinks _).1 _ h; omega

theorem Skips.trans {p q r : List Byte} (h1 : Skips p q) (h2 : Skips q r) : Skips p r := by
  induction h1 with
  | one h => exact .more h h2
  | more h _ ih => exact .more h (ih h2)

theorem Skips.first {p q : List Byte} (h : Skips p q) : ∃ r, scan p = .skip r := by
  cases h with
  | one h => exact ⟨_, h⟩
  | more h _ => exact ⟨_, h⟩

end QsmtpModel.Netio

namespace QsmtpModel.Netio
open QsmtpModel

/-- Stray line ends can be skipped one at a time or several at once: if the first `j` bytes of the
stream end in a CR/LF, every CR among them is followed by a byte that is visibly not LF, and all of
it fits the window, then the lines of the stream are the lines of what follows those `j` bytes. -/
theorem skip_strays (n : Nat) : ∀ (j : Nat) (p : List Byte), j ≤ n → 1 ≤ j → j ≤ p.length → j ≤ win →
    (∃ e, p[j - 1]? = some e ∧ isEol e = true) →
    (∀ i, i < j → p[i]? = some CR → ∃ b, p[i + 1]? = some b ∧ b ≠ LF ∧ i + 1 < win) →
    Skips p (p.drop j) := by
  induction n with
  | zero => intro j p h0 h1; omega
  | succ n ih =>
    intro j p hjn hj1 hjl hjw ⟨ej, hej, hejE⟩ hcr
    -- the first line end inside the window
    have hwin : ∃ k, (p.take win).findIdx? isEol = some k := by
      cases hf : (p.take win).findIdx? isEol with
      | some k => exact ⟨k, rfl⟩
      | none =>
        exfalso
        have hno := noEol_of_findIdx_none _ hf
        have hmem : ej ∈ p.take win := by
          have : (p.take win)[j - 1]? = some ej := by
            rw [List.getElem?_take]
            have hjw' : j - 1 < 1001 := by have : j ≤ 1001 := hjw; omega
            simp [hjw', hej]
          exact List.mem_of_getElem? this
        have := hno ej hmem
        rw [hejE] at this; cases this
    obtain ⟨k, hk⟩ := hwin
    obtain ⟨x, e, y, hw, hxl, hxn, heE⟩ := findIdx_some_split _ k hk
    have hp : p = x ++ e :: (y ++ p.drop win) := by
      have := List.take_append_drop win p
      rw [hw] at this
      simpa using this.symm
    have hkw : k < win := by
      have := findIdx_lt _ _ hk; simp only [List.length_take] at this; omega
    -- k ≤ j - 1, since the byte at j - 1 is a line end and x has none
    have hkj : k ≤ j - 1 := by
      rcases Nat.lt_or_ge (j - 1) k with hlt' | hge
      · exfalso
        have h1 : p[j - 1]? = x[j - 1]? := by
          rw [hp, List.getElem?_append_left (by omega)]
        rw [h1] at hej
        have := hxn ej (List.mem_of_getElem? hej)
        rw [hejE] at this; cases this
      · exact hge
    have hdrop : p.drop (k + 1) = y ++ p.drop win := by
      conv => lhs; rw [hp]
      rw [← hxl]; exact drop_split x _ e
    -- one canonical step skips to behind position k
    have hstep : Skips p (p.drop (k + 1)) := by
      rcases eol_cases e heE with rfl | rfl
      · -- a CR: by assumption followed by a visible byte that is not LF
        have hpk : p[k]? = some CR := by rw [hp, ← hxl]; simp
        obtain ⟨b, hb, hbne, hbw⟩ := hcr k (by omega) hpk
        have hy : ∃ y', y ++ p.drop win = b :: y' := by
          have : (p.drop (k + 1))[0]? = some b := by rw [List.getElem?_drop]; simpa using hb
          rw [hdrop] at this
          cases hyy : y ++ p.drop win with
          | nil => rw [hyy] at this; simp at this
          | cons c cs => rw [hyy] at this; simp at this; exact ⟨cs, by rw [this]⟩
        obtain ⟨y', hy'⟩ := hy
        rw [hdrop, hy']
        apply Skips.one
        have hsc := scan_cr x y' b hxn hbne (by omega)
        rw [← hy', ← hp] at hsc
        rw [hsc, hy']
      · rw [hdrop]
        apply Skips.one
        have hsc := scan_lf x (y ++ p.drop win) hxn (by omega)
        rw [← hp] at hsc
        exact hsc
    by_cases hdone : k + 1 = j
    · rw [← hdone]; exact hstep
    · -- more strays behind: induction on the rest
      have hj' : 1 ≤ j - (k + 1) := by omega
      have hjw2 : j ≤ 1001 := hjw
      have := ih (j - (k + 1)) (p.drop (k + 1)) (by omega) hj' (by simp only [List.length_drop]; omega)
        (by show j - (k + 1) ≤ 1001; omega)
        ⟨ej, by
          have e0 : k + 1 + (j - (k + 1) - 1) = j - 1 := by omega
          rw [List.getElem?_drop, e0]; exact hej, hejE⟩
        (by
          intro i hi hci
          rw [List.getElem?_drop] at hci
          obtain ⟨b, hb, hbne, hbw⟩ := hcr (k + 1 + i) (by omega) hci
          have e1 : k + 1 + (i + 1) = k + 1 + i + 1 := by omega
          exact ⟨b, by rw [List.getElem?_drop, e1]; exact hb, hbne, by omega⟩)
      rw [List.drop_drop] at this
      have e2 : k + 1 + (j - (k + 1)) = j := by omega
      rw [e2] at this
      exact hstep.trans this

end QsmtpModel.Netio

namespace QsmtpModel.Netio
open QsmtpModel

theorem memchr_split (c : Byte) (b : List Byte) (i : Nat) (h : memchr c b = some i) :
    ∃ x y, b = x ++ c :: y ∧ x.length = i ∧ c ∉ x := by
  obtain ⟨h1, h2⟩ := memchr_some_spec c b i h
  have hi : i < b.length := (List.getElem?_eq_some_iff.mp h1).1
  refine ⟨b.take i, b.drop (i + 1), ?_, by simp; omega, h2⟩
  have := List.take_append_drop i b
  conv => lhs; rw [← this]
  congr 1
  rw [List.drop_eq_getElem_cons hi]
  have : b[i] = c := by
    have := (List.getElem?_eq_some_iff.mp h1).2; exact this
  rw [this]

theorem noEol_of (x : List Byte) (h1 : CR ∉ x) (h2 : LF ∉ x) : NoEol x := (noEol_iff x).mpr ⟨h1, h2⟩

/-- the discard of an over-long line reaches the end of the stream -/
theorem loopLong_dead : ∀ (fuel : Nat) (src : Src), LF ∉ src.rest →
    ∃ e inn' src', loopLong src fuel = (.die e, inn', src') := by
  intro fuel
  induction fuel with
  | zero => intro src _; exact ⟨_, _, _, rfl⟩
  | succ f ih =>
    intro src h
    unfold loopLong
    by_cases hne : src.rest = []
    · have : (src.read (bufSize - 1)).1 = [] := by simp [Src.read, hne]
      simp only [this, List.isEmpty_nil, if_true]
      exact ⟨_, _, _, rfl⟩
    · obtain ⟨hd, hcat, _, _⟩ := read_spec src (bufSize - 1) (by rw [bufSize_eq]; omega) hne
      generalize src.read (bufSize - 1) = rd at hd hcat
      obtain ⟨d, src'⟩ := rd
      simp only at hd hcat ⊢
      have hdne : d.isEmpty = false := by
        cases d with
        | nil => exact absurd rfl hd
        | cons _ _ => rfl
      rw [hdne]
      simp only [Bool.false_eq_true, if_false]
      have hd' : LF ∉ d := fun m => h (by rw [← hcat]; exact List.mem_append_left _ m)
      have hr' : LF ∉ src'.rest := fun m => h (by rw [← hcat]; exact List.mem_append_right _ m)
      rw [(memchr_none_iff LF d).mpr hd']
      exact ih src' hr'

/-- ... and where it ends otherwise, with the size of what is left in the look-ahead buffer -/
theorem loopLong_spec2 (pre tail : List Byte) (hpre : LF ∉ pre) :
    ∀ (fuel : Nat) (src : Src), src.rest = pre ++ LF :: tail → src.rest.length < fuel →
      ∃ inn' src', loopLong src fuel = (.err .e2big, inn', src') ∧ inn' ++ src'.rest = tail ∧ inn'.length < win := by
  intro fuel
  induction fuel generalizing pre with
  | zero => intro src _ h; omega
  | succ f ih =>
    intro src hs hf
    unfold loopLong
    have hne : src.rest ≠ [] := by rw [hs]; simp
    obtain ⟨hd, hcat, hless, hmax⟩ := read_spec src (bufSize - 1) (by rw [bufSize_eq]; omega) hne
    generalize src.read (bufSize - 1) = rd at hd hcat hless hmax
    obtain ⟨d, src'⟩ := rd
    simp only at hd hcat hless hmax ⊢
    have hdne : d.isEmpty = false := by
      cases d with
      | nil => exact absurd rfl hd
      | cons _ _ => rfl
    rw [hdne]
    simp only [Bool.false_eq_true, if_false]
    have htake := prefix_eq_take _ _ _ hcat
    rw [hs] at htake
    by_cases hle : d.length ≤ pre.length
    · rw [List.take_append_of_le_length hle] at htake
      have hnl : LF ∉ d := by rw [htake]; exact fun m => hpre (List.mem_of_mem_take m)
      rw [(memchr_none_iff LF d).mpr hnl]
      simp only
      have hrest : src'.rest = pre.drop d.length ++ LF :: tail := by
        have := congrArg (List.drop d.length) hcat
        rw [List.drop_left, hs, List.drop_append_of_le_length hle] at this
        exact this
      exact ih (pre.drop d.length) (fun m => hpre (List.mem_of_mem_drop m)) src' hrest (by omega)
    · have hd2 : d = pre ++ LF :: tail.take (d.length - pre.length - 1) := by
        rw [htake, List.take_append, List.take_of_length_le (by omega)]
        have : d.length - pre.length = (d.length - pre.length - 1) + 1 := by omega
        rw [this]; simp
      have hm : memchr LF d = some pre.length := by
        rw [hd2, memchr_append_of_not_mem _ _ _ hpre]; simp [memchr]
      rw [hm]
      simp only
      refine ⟨_, _, rfl, ?_, ?_⟩
      · have := congrArg (List.drop (pre.length + 1)) hcat
        rw [List.drop_append_of_le_length (by omega), hs] at this
        rw [this]
        have : pre.length + 1 = (pre ++ [LF]).length := by simp
        rw [this, show pre ++ LF :: tail = (pre ++ [LF]) ++ tail by simp, List.drop_left]
      · simp only [List.length_drop]
        have : bufSize - 1 = win := rfl
        rw [this] at hmax
        have hw := win_eq
        omega

end QsmtpModel.Netio

namespace QsmtpModel.Netio
open QsmtpModel

/-- what one call of the real reader must have done to the pending stream `p` -/
def Agrees (p : List Byte) (r : Rd × List Byte × Src) : Prop :=
  match r with
  | (.line l, inn', src') => scan p = .line l (inn' ++ src'.rest) ∧ inn'.length < win
  | (.err .econnreset, _, _) => goodLines p = []
  | (.err _, inn', src') => Skips p (inn' ++ src'.rest) ∧ inn'.length < win
  | (.die _, _, _) => goodLines p = []

theorem discard_eq (buf rest : List Byte) (hlen : buf.length = win) :
    discard (buf ++ rest) = match memchr LF rest with
      | none => .dead
      | some j => .skip (rest.drop (j + 1)) := by
  unfold discard
  have : (buf ++ rest).drop win = rest := by rw [← hlen]; exact List.drop_left
  rw [this]
  cases memchr LF rest with
  | none => rfl
  | some j =>
    simp only
    have : (buf ++ rest).drop (win + j + 1) = rest.drop (j + 1) := by
      rw [← hlen, show buf.length + j + 1 = buf.length + (j + 1) by omega, ← List.drop_drop, List.drop_left]
    rw [this]

theorem long_agrees (buf : List Byte) (src : Src) (hlen : buf.length = win)
    (hscan : scan (buf ++ src.rest) = discard (buf ++ src.rest)) :
    Agrees (buf ++ src.rest) (loopLong src (src.rest.length + 1)) := by
  rw [discard_eq buf src.rest hlen] at hscan
  cases hm : memchr LF src.rest with
  | none =>
    rw [hm] at hscan
    obtain ⟨e, inn', src', hl⟩ := loopLong_dead (src.rest.length + 1) src ((memchr_none_iff LF _).mp hm)
    rw [hl]
    exact goodLines_dead _ hscan
  | some j =>
    rw [hm] at hscan
    simp only at hscan
    obtain ⟨pre, tail, hsplit, hpl, hpre⟩ := memchr_split LF src.rest j hm
    obtain ⟨inn', src', hl, hrest, hinn⟩ := loopLong_spec2 pre tail hpre (src.rest.length + 1) src hsplit (Nat.lt_succ_self _)
    rw [hl]
    have htail : src.rest.drop (j + 1) = tail := by
      rw [hsplit, ← hpl]; exact drop_split pre tail LF
    rw [htail] at hscan
    exact ⟨by rw [hrest]; exact .one hscan, hinn⟩

end QsmtpModel.Netio

namespace QsmtpModel.Netio
open QsmtpModel

/-- the read loop of net_read() has stopped on `buf`: a line end is in the buffer (and a CR as last
byte had no room left to be completed), or the buffer is full -/
def Stop (buf : List Byte) : Prop :=
  match findEol buf with
  | (none, _) => buf.length = win
  | (some q, valid) => valid = true ∨ ¬ (q = buf.length ∧ buf.length < win ∧ buf.getLast? = some CR)

theorem ne_of_mem_not_mem {c d : Byte} {l : List Byte} (h1 : c ∈ l) (h2 : d ∉ l) : c ≠ d :=
  fun e => h2 (e ▸ h1)

theorem verdict_agrees (buf : List Byte) (src : Src) (hm : buf.length ≤ win) (hstop : Stop buf) :
    Agrees (buf ++ src.rest) (verdict buf src) := by
  have hw := win_eq
  have hbs : bufSize - 1 = 1001 := rfl
  unfold Stop at hstop
  unfold verdict
  unfold findEol at hstop ⊢
  cases hcr : memchr CR buf with
  | none =>
    cases hlf : memchr LF buf with
    | none =>
      -- no line end at all: the buffer is full, the line is too long
      simp only [hcr, hlf] at hstop ⊢
      have hno : NoEol buf := noEol_of buf ((memchr_none_iff CR buf).mp hcr) ((memchr_none_iff LF buf).mp hlf)
      exact long_agrees buf src hstop (scan_long buf src.rest hno hstop)
    | some j =>
      -- bare LF, no CR in the buffer
      simp only [hcr, hlf] at hstop ⊢
      obtain ⟨x, y, hb, hxl, hxn⟩ := memchr_split LF buf j hlf
      have hcrx : CR ∉ x := fun m => (memchr_none_iff CR buf).mp hcr (by rw [hb]; exact List.mem_append_left _ m)
      have hno : NoEol x := noEol_of x hcrx hxn
      have hjl : j < buf.length := by rw [hb, ← hxl]; simp
      have hlast : buf[j + 1 - 1]? = some LF := by rw [hb, ← hxl]; simp
      have hne : ¬ ((j + 1 == bufSize - 1 && buf[j + 1 - 1]? == some CR) = true) := by
        rw [hlast]; simp; intro _; decide
      simp only [Bool.false_eq_true, if_false, hne]
      have hdrop : buf.drop (j + 1) = y := by rw [hb, ← hxl]; exact drop_split x y LF
      rw [hdrop]
      have hp : buf ++ src.rest = x ++ LF :: (y ++ src.rest) := by rw [hb]; simp
      have hsc := scan_lf x (y ++ src.rest) hno (by omega)
      rw [← hp] at hsc
      refine ⟨.one hsc, ?_⟩
      have : y.length < buf.length := by rw [hb]; simp; omega
      omega
  | some i =>
    obtain ⟨x, y, hb, hxl, hxc⟩ := memchr_split CR buf i hcr
    have hil : i < buf.length := by rw [hb, ← hxl]; simp
    cases hlf : memchr LF buf with
    | none =>
      -- a CR and no LF in the buffer
      simp only [hcr, hlf] at hstop ⊢
      have hlfb : LF ∉ buf := (memchr_none_iff LF buf).mp hlf
      have hno : NoEol x := noEol_of x hxc (fun m => hlfb (by rw [hb]; exact List.mem_append_left _ m))
      have hbi : buf[i + 1 - 1]? = some CR := by rw [hb, ← hxl]; simp
      cases y with
      | nil =>
        -- the CR is the last byte: only possible with a full buffer
        have hlen : buf.length = i + 1 := by rw [hb, ← hxl]; simp
        have hlastcr : buf.getLast? = some CR := by rw [hb]; simp
        have hfull : buf.length = win := by
          rcases hstop with h | h
          · cases h
          · by_cases hlt : buf.length < win
            · exact absurd ⟨hlen.symm, hlt, hlastcr⟩ h
            · omega
        have hq : (i + 1 == bufSize - 1 && buf[i + 1 - 1]? == some CR) = true := by
          rw [hbi]; simp; omega
        simp only [Bool.false_eq_true, if_false, hq, if_true]
        have hp : buf ++ src.rest = x ++ CR :: src.rest := by rw [hb]; simp
        have hsc := scan_long_cr x src.rest hno (by omega)
        rw [← hp] at hsc
        exact long_agrees buf src hfull hsc
      | cons b y' =>
        have hbne : b ≠ LF := fun e => hlfb (by rw [hb, e]; simp)
        have hlen : buf.length = i + 2 + y'.length := by rw [hb, ← hxl]; simp; omega
        have hq : ¬ ((i + 1 == bufSize - 1 && buf[i + 1 - 1]? == some CR) = true) := by
          simp; intro h; omega
        simp only [Bool.false_eq_true, if_false, hq]
        have hdrop : buf.drop (i + 1) = b :: y' := by rw [hb, ← hxl]; exact drop_split x _ CR
        rw [hdrop]
        have hp : buf ++ src.rest = x ++ CR :: b :: (y' ++ src.rest) := by rw [hb]; simp
        have hsc := scan_cr x (y' ++ src.rest) b hno hbne (by omega)
        rw [← hp] at hsc
        refine ⟨?_, by simp; omega⟩
        have := Skips.one hsc; simpa using this
    | some j =>
      simp only [hcr, hlf] at hstop ⊢
      obtain ⟨x2, y2, hb2, hx2l, hx2n⟩ := memchr_split LF buf j hlf
      have hjl : j < buf.length := by rw [hb2, ← hx2l]; simp
      have hbj : buf[j]? = some LF := by rw [hb2, ← hx2l]; simp
      have hbi : buf[i]? = some CR := by rw [hb, ← hxl]; simp
      -- nothing before position i is a CR, nothing before position j is an LF
      have hbefCR : ∀ t, t < i → buf[t]? ≠ some CR := by
        intro t ht h
        have : buf[t]? = x[t]? := by rw [hb, List.getElem?_append_left (by omega)]
        rw [this] at h; exact hxc (List.mem_of_getElem? h)
      have hbefLF : ∀ t, t < j → buf[t]? ≠ some LF := by
        intro t ht h
        have : buf[t]? = x2[t]? := by rw [hb2, List.getElem?_append_left (by omega)]
        rw [this] at h; exact hx2n (List.mem_of_getElem? h)
      have hpbuf : ∀ t, t < buf.length → (buf ++ src.rest)[t]? = buf[t]? := fun t ht => List.getElem?_append_left ht
      have hcrlf : (CR : Byte) ≠ LF := by decide
      have hij : i ≠ j := by intro e; rw [e, hbj] at hbi; exact hcrlf (Option.some.inj hbi).symm
      by_cases hv : j = i + 1
      · -- CRLF: the line
        subst hv
        simp only [if_true]
        have hxno : NoEol x := noEol_of x hxc (by
          intro m
          obtain ⟨t, hte⟩ := List.getElem?_of_mem m
          have ht : t < x.length := (List.getElem?_eq_some_iff.mp hte).1
          have : buf[t]? = some LF := by rw [hb, List.getElem?_append_left ht]; exact hte
          exact hbefLF t (by omega) this)
        have hy : ∃ y', y = LF :: y' := by
          have : buf[i + 1]? = y[0]? := by rw [hb, ← hxl]; exact getElem_split1 x y CR
          rw [hbj] at this
          cases y with
          | nil => simp at this
          | cons c cs => simp at this; exact ⟨cs, by rw [this]⟩
        obtain ⟨y', rfl⟩ := hy
        have hp : buf ++ src.rest = x ++ CR :: LF :: (y' ++ src.rest) := by rw [hb]; simp
        have hsc := scan_line x (y' ++ src.rest) hxno (by omega)
        rw [← hp] at hsc
        have htake : buf.take (i + 1 + 1 - 2) = x := by rw [hb, ← hxl]; simp
        have hdrop : buf.drop (i + 1 + 1) = y' := by rw [hb, ← hxl]; exact drop_split2 x y' CR LF
        rw [htake, hdrop]
        refine ⟨hsc, ?_⟩
        have : buf.length = i + 2 + y'.length := by rw [hb, ← hxl]; simp; omega
        omega
      · simp only [hv, if_false]
        -- every remaining case is "EINVAL, skip q bytes"; what differs is q and why the canonical
        -- reader gets to the same place
        have einval : ∀ q : Nat, 1 ≤ q → q ≤ buf.length →
            ((q == bufSize - 1 && buf[q - 1]? == some CR) = false) →
            Skips (buf ++ src.rest) ((buf ++ src.rest).drop q) →
            Agrees (buf ++ src.rest)
              (if (false : Bool) = true then (Rd.line (buf.take (q - 2)), buf.drop q, src)
               else if (q == bufSize - 1 && buf[q - 1]? == some CR) = true then loopLong src (src.rest.length + 1)
               else (Rd.err Errno.einval, buf.drop q, src)) := by
          intro q hq1 hq hmid hgl
          simp only [Bool.false_eq_true, if_false, hmid]
          have hd : (buf ++ src.rest).drop q = buf.drop q ++ src.rest := List.drop_append_of_le_length hq
          rw [hd] at hgl
          exact ⟨hgl, by simp only [List.length_drop]; omega⟩
        have hpj : (buf ++ src.rest)[j]? = some LF := by rw [hpbuf j hjl]; exact hbj
        have hpi : (buf ++ src.rest)[i]? = some CR := by rw [hpbuf i hil]; exact hbi
        by_cases hlt : i < j
        · simp only [hlt, if_true]
          by_cases hprev : buf[j - 1]? ≠ some CR
          · -- the LF is a stray one as well: skip up to it in one go
            simp only [hprev, if_true, ne_eq, not_false_eq_true]
            apply einval (j + 1) (by omega) (by omega)
            · rw [show j + 1 - 1 = j by omega, hbj]; simp; intro _; exact fun h => hcrlf h.symm
            · apply skip_strays (j + 1) (j + 1) _ (Nat.le_refl _) (by omega) (by simp only [List.length_append]; omega) (by omega)
              · exact ⟨LF, by rw [show j + 1 - 1 = j by omega]; exact hpj, isEol_LF⟩
              · intro t ht hct
                have htj : t ≠ j := by intro e; rw [e, hpj] at hct; exact hcrlf (Option.some.inj hct).symm
                have htlt : t < j := by omega
                have ht1 : t + 1 < buf.length := by omega
                obtain ⟨b, hb1⟩ : ∃ b, buf[t + 1]? = some b := ⟨buf[t + 1], by simp [ht1]⟩
                refine ⟨b, by rw [hpbuf _ ht1]; exact hb1, ?_, by omega⟩
                intro e
                subst e
                by_cases htj1 : t + 1 = j
                · apply hprev
                  rw [← htj1, show t + 1 - 1 = t by omega, ← hpbuf t (by omega)]; exact hct
                · exact hbefLF (t + 1) (by omega) hb1
          · -- the LF belongs to a later CR: only the first, stray CR is skipped
            have hprev' : buf[j - 1]? = some CR := by
              cases h : buf[j - 1]? with
              | none => exact absurd (by rw [h]; simp) hprev
              | some c => by_cases hc : c = CR; rw [hc]; exact absurd (by rw [h]; simpa using hc) hprev
            simp only [hprev', ne_eq, not_true_eq_false, if_false]
            apply einval (i + 1) (by omega) (by omega)
            · simp; intro h; omega
            · have hi1 : i + 1 < buf.length := by omega
              obtain ⟨b, y', hy⟩ : ∃ b y', y = b :: y' := by
                cases y with
                | nil => exfalso; have : buf.length = i + 1 := by rw [hb, ← hxl]; simp
                         omega
                | cons b y' => exact ⟨b, y', rfl⟩
              subst hy
              have hb1 : buf[i + 1]? = some b := by rw [hb, ← hxl]; simp
              have hbne : b ≠ LF := fun e => hbefLF (i + 1) (by omega) (by rw [hb1, e])
              have hxno : NoEol x := noEol_of x hxc (by
                intro m
                obtain ⟨t, hte⟩ := List.getElem?_of_mem m
                have ht : t < x.length := (List.getElem?_eq_some_iff.mp hte).1
                have : buf[t]? = some LF := by rw [hb, List.getElem?_append_left ht]; exact hte
                exact hbefLF t (by omega) this)
              have hp : buf ++ src.rest = x ++ CR :: b :: (y' ++ src.rest) := by rw [hb]; simp
              have hsc := scan_cr x (y' ++ src.rest) b hxno hbne (by omega)
              rw [← hp] at hsc
              have hdq : (buf ++ src.rest).drop (i + 1) = b :: (y' ++ src.rest) := by
                rw [hp, ← hxl]; exact drop_split x _ CR
              rw [hdq]; exact .one hsc
        · have hji : j < i := by omega
          simp only [hlt, if_false]
          by_cases hfar : i + 2 < buf.length ∧ buf[i + 1]? ≠ some LF
          · -- the CR behind the stray LF is visibly stray, too: skip up to it in one go
            simp only [hfar, and_self, if_true, ne_eq, not_false_eq_true]
            apply einval (i + 1) (by omega) (by omega)
            · simp; intro h; omega
            · apply skip_strays (i + 1) (i + 1) _ (Nat.le_refl _) (by omega) (by simp only [List.length_append]; omega) (by omega)
              · exact ⟨CR, by rw [show i + 1 - 1 = i by omega]; exact hpi, isEol_CR⟩
              · intro t ht hct
                have hti : t = i := by
                  rcases Nat.lt_or_ge t i with h | h
                  · exact absurd (by rw [← hpbuf t (by omega)]; exact hct) (hbefCR t h)
                  · omega
                subst hti
                have ht1 : t + 1 < buf.length := by omega
                obtain ⟨b, hb1⟩ : ∃ b, buf[t + 1]? = some b := ⟨buf[t + 1], by simp [ht1]⟩
                refine ⟨b, by rw [hpbuf _ ht1]; exact hb1, ?_, by omega⟩
                intro e; subst e; exact hfar.2 hb1
          · -- only the stray LF is skipped
            simp only [hfar, if_false]
            apply einval (j + 1) (by omega) (by omega)
            · rw [show j + 1 - 1 = j by omega, hbj]; simp; intro _; exact fun h => hcrlf h.symm
            · have hx2no : NoEol x2 := noEol_of x2 (by
                intro m
                obtain ⟨t, hte⟩ := List.getElem?_of_mem m
                have ht : t < x2.length := (List.getElem?_eq_some_iff.mp hte).1
                have : buf[t]? = some CR := by rw [hb2, List.getElem?_append_left ht]; exact hte
                exact hbefCR t (by omega) this) hx2n
              have hp : buf ++ src.rest = x2 ++ LF :: (y2 ++ src.rest) := by rw [hb2]; simp
              have hsc := scan_lf x2 (y2 ++ src.rest) hx2no (by omega)
              rw [← hp] at hsc
              have hdq : (buf ++ src.rest).drop (j + 1) = y2 ++ src.rest := by
                rw [hp, ← hx2l]; exact drop_split x2 _ LF
              rw [hdq]; exact .one hsc

end QsmtpModel.Netio

namespace QsmtpModel.Netio
open QsmtpModel

theorem findEol_none (b : List Byte) (v : Bool) (h : findEol b = (none, v)) : NoEol b := by
  unfold findEol at h
  cases hcr : memchr CR b with
  | none =>
    cases hlf : memchr LF b with
    | none => exact noEol_of b ((memchr_none_iff CR b).mp hcr) ((memchr_none_iff LF b).mp hlf)
    | some j => simp [hcr, hlf] at h
  | some i =>
    cases hlf : memchr LF b with
    | none => simp [hcr, hlf] at h
    | some j =>
      simp only [hcr, hlf] at h
      split at h
      · simp at h
      · split at h
        · split at h <;> simp at h
        · split at h <;> simp at h

/-- "pointer behind a CR that is the last byte of the buffer, not valid": the buffer is a clean
prefix followed by that CR -/
theorem findEol_cr_last (b : List Byte) (q : Nat) (h : findEol b = (some q, false)) (hq : q = b.length)
    (hl : b.getLast? = some CR) : ∃ x, b = x ++ [CR] ∧ NoEol x := by
  have hcrlf : (CR : Byte) ≠ LF := by decide
  unfold findEol at h
  cases hcr : memchr CR b with
  | none =>
    -- no CR in the buffer although its last byte is one
    exfalso
    have : CR ∈ b := List.mem_of_getLast? hl
    exact (memchr_none_iff CR b).mp hcr this
  | some i =>
    obtain ⟨x, y, hb, hxl, hxc⟩ := memchr_split CR b i hcr
    cases hlf : memchr LF b with
    | none =>
      simp only [hcr, hlf, Prod.mk.injEq, Option.some.injEq, and_true] at h
      have hlfb : LF ∉ b := (memchr_none_iff LF b).mp hlf
      have hy : y = [] := by
        have : b.length = i + 1 + y.length := by rw [hb, ← hxl]; simp; omega
        cases y with
        | nil => rfl
        | cons c cs => simp at this; omega
      subst hy
      exact ⟨x, hb, noEol_of x hxc (fun m => hlfb (by rw [hb]; exact List.mem_append_left _ m))⟩
    | some j =>
      exfalso
      obtain ⟨x2, y2, hb2, hx2l, _⟩ := memchr_split LF b j hlf
      have hjl : j < b.length := by rw [hb2, ← hx2l]; simp
      have hil : i < b.length := by rw [hb, ← hxl]; simp
      simp only [hcr, hlf] at h
      split at h
      · simp at h
      · split at h
        · split at h
          · -- q = j + 1 = length: the last byte is the LF
            simp only [Prod.mk.injEq, Option.some.injEq, and_true] at h
            have hlast : b.getLast? = some LF := by
              rw [List.getLast?_eq_getElem?, show b.length - 1 = j by omega, hb2, ← hx2l]; simp
            rw [hl] at hlast; exact hcrlf (Option.some.inj hlast)
          · simp only [Prod.mk.injEq, Option.some.injEq, and_true] at h; omega
        · split at h
          · simp only [Prod.mk.injEq, Option.some.injEq, and_true] at h; omega
          · simp only [Prod.mk.injEq, Option.some.injEq, and_true] at h
            have hlast : b.getLast? = some LF := by
              rw [List.getLast?_eq_getElem?, show b.length - 1 = j by omega, hb2, ← hx2l]; simp
            rw [hl] at hlast; exact hcrlf (Option.some.inj hlast)

end QsmtpModel.Netio

namespace QsmtpModel.Netio
open QsmtpModel

/-- the buffer does not allow a decision yet: no line end, or just a CR as last byte -/
def Cont (buf : List Byte) : Prop := NoEol buf ∨ ∃ x, buf = x ++ [CR] ∧ NoEol x

theorem cont_dead (buf : List Byte) (h : Cont buf) (hl : buf.length < win) : goodLines buf = [] := by
  rcases h with h | ⟨x, rfl, hx⟩
  · exact goodLines_dead _ (scan_short buf h hl)
  · exact goodLines_dead _ (scan_cr_end x hx (by simpa using hl))

/-- the read loop: either the stream ends before anything can be decided (then the specification
has no further line either), or it stops on a buffer that is a prefix of the pending stream and
allows the decision -/
theorem readLoop_inv (fatal : Bool) : ∀ (fuel : Nat) (buf : List Byte) (src : Src),
    Cont buf → buf.length < win → src.rest.length < fuel →
    (∃ src', readLoop fatal buf src fuel = (none, src') ∧ goodLines (buf ++ src.rest) = [])
    ∨ (∃ buf' src', readLoop fatal buf src fuel = (some buf', src') ∧ buf' ++ src'.rest = buf ++ src.rest
        ∧ buf'.length ≤ win ∧ Stop buf') := by
  have hw := win_eq
  have hbs := bufSize_eq
  intro fuel
  induction fuel with
  | zero => intro buf src _ _ h; omega
  | succ f ih =>
    intro buf src hc hl hf
    unfold readLoop
    by_cases hne : src.rest = []
    · -- the connection is closed
      left
      have : (src.read (bufSize - buf.length - 1)).1 = [] := by simp [Src.read, hne]
      simp only [this, List.isEmpty_nil, if_true]
      exact ⟨_, rfl, by rw [hne, List.append_nil]; exact cont_dead buf hc hl⟩
    · have hmax : 1 ≤ bufSize - buf.length - 1 := by omega
      obtain ⟨hd, hcat, hless, hdl⟩ := read_spec src _ hmax hne
      generalize src.read (bufSize - buf.length - 1) = rd at hd hcat hless hdl
      obtain ⟨d, src'⟩ := rd
      simp only at hd hcat hless hdl ⊢
      have hdne : d.isEmpty = false := by
        cases d with
        | nil => exact absurd rfl hd
        | cons _ _ => rfl
      rw [hdne]
      simp only [Bool.false_eq_true, if_false]
      have hsplit : (buf ++ d) ++ src'.rest = buf ++ src.rest := by rw [List.append_assoc, hcat]
      have hlen : (buf ++ d).length ≤ win := by simp only [List.length_append]; omega
      generalize hfe : findEol (buf ++ d) = fe
      obtain ⟨q, valid⟩ := fe
      simp only
      split
      · -- read again
        rename_i hagain
        have hcont : Cont (buf ++ d) ∧ (buf ++ d).length < win := by
          simp only [Bool.or_eq_true, Bool.and_eq_true, Bool.not_eq_true', beq_iff_eq, decide_eq_true_eq] at hagain
          rcases hagain with ⟨⟨⟨hv, hq⟩, hlt⟩, hlast⟩ | ⟨hq, hlt⟩
          · subst hv
            obtain ⟨x, hx, hxn⟩ := findEol_cr_last (buf ++ d) (buf ++ d).length (by rw [hfe, hq]) rfl hlast
            exact ⟨Or.inr ⟨x, hx, hxn⟩, by omega⟩
          · subst hq
            exact ⟨Or.inl (findEol_none _ valid hfe), by omega⟩
        rcases ih (buf ++ d) src' hcont.1 hcont.2 (by omega) with ⟨s2, h1, h2⟩ | ⟨b2, s2, h1, h2, h3, h4⟩
        · left; exact ⟨s2, h1, by rw [← hsplit]; exact h2⟩
        · right; exact ⟨b2, s2, h1, by rw [h2, hsplit], h3, h4⟩
      · rename_i hagain
        right
        refine ⟨buf ++ d, src', rfl, hsplit, hlen, ?_⟩
        unfold Stop
        rw [hfe]
        simp only [Bool.or_eq_true, Bool.and_eq_true, Bool.not_eq_true', beq_iff_eq, decide_eq_true_eq, not_or, not_and] at hagain
        cases q with
        | none =>
          simp only
          have := hagain.2 rfl
          omega
        | some q =>
          simp only
          cases valid with
          | true => exact Or.inl rfl
          | false =>
            right
            intro ⟨h1, h2, h3⟩
            exact hagain.1 ⟨⟨rfl, by rw [h1]⟩, by omega⟩ h3

end QsmtpModel.Netio

namespace QsmtpModel.Netio
open QsmtpModel

theorem memchr_lt2 (c : Byte) (l : List Byte) (n : Nat) (h : memchr c l = some n) : n < l.length :=
  (List.getElem?_eq_some_iff.mp (memchr_some_spec c l n h).1).1

theorem findEol_le (b : List Byte) (q : Nat) (v : Bool) (h : findEol b = (some q, v)) : 1 ≤ q ∧ q ≤ b.length := by
  unfold findEol at h
  cases hcr : memchr CR b with
  | none =>
    cases hlf : memchr LF b with
    | none => simp [hcr, hlf] at h
    | some j =>
      have := memchr_lt2 _ _ _ hlf
      simp only [hcr, hlf, Prod.mk.injEq, Option.some.injEq] at h; omega
  | some i =>
    have hi := memchr_lt2 _ _ _ hcr
    cases hlf : memchr LF b with
    | none => simp only [hcr, hlf, Prod.mk.injEq, Option.some.injEq] at h; omega
    | some j =>
      have hj := memchr_lt2 _ _ _ hlf
      simp only [hcr, hlf] at h
      split at h
      · simp only [Prod.mk.injEq, Option.some.injEq] at h; omega
      · split at h
        · split at h <;> (simp only [Prod.mk.injEq, Option.some.injEq] at h; omega)
        · split at h <;> (simp only [Prod.mk.injEq, Option.some.injEq] at h; omega)

theorem agrees_eof (p : List Byte) (fatal : Bool) (src : Src) (h : goodLines p = []) :
    Agrees p ((if fatal then Rd.die Errno.econnreset else Rd.err Errno.econnreset), [], src) := by
  cases fatal <;> exact h

/-- **One call of the real reader against the specification**, for every look-ahead state and
every cut schedule. -/
theorem netRead_agrees (fatal : Bool) (inn : List Byte) (src : Src) (hinn : inn.length < win) :
    Agrees (inn ++ src.rest) (netRead fatal inn src) := by
  have hw := win_eq
  have hbs := bufSize_eq
  -- the common second half: read loop, then the verdict
  have cont : ∀ buf0 : List Byte, buf0 = inn → Cont buf0 →
      Agrees (inn ++ src.rest)
        (match readLoop fatal buf0 src (src.rest.length + 1) with
          | (none, src') => ((if fatal then Rd.die Errno.econnreset else Rd.err Errno.econnreset), [], src')
          | (some buf, src') => verdict buf src') := by
    intro buf0 h0 hc
    subst h0
    rcases readLoop_inv fatal (src.rest.length + 1) buf0 src hc hinn (Nat.lt_succ_self _) with
      ⟨s2, h1, h2⟩ | ⟨b2, s2, h1, h2, h3, h4⟩
    · rw [h1]; exact agrees_eof _ fatal s2 h2
    · rw [h1]
      simp only
      rw [← h2]
      exact verdict_agrees b2 s2 h3 h4
  unfold netRead phase1
  by_cases hemp : inn.isEmpty
  · have : inn = [] := List.isEmpty_iff.mp hemp
    subst this
    simp only [List.isEmpty_nil, if_true]
    exact cont [] rfl (Or.inl (by intro b hb; simp at hb))
  · rw [if_neg hemp]
    generalize hfe : findEol inn = fe
    obtain ⟨q, valid⟩ := fe
    cases q with
    | none =>
      simp only
      exact cont inn rfl (Or.inl (findEol_none inn valid hfe))
    | some q =>
      simp only
      obtain ⟨hq1, hq2⟩ := findEol_le inn q valid hfe
      cases valid with
      | true =>
        -- a complete line was already buffered: this is what the verdict on `inn` says
        simp only [if_true]
        have hv := verdict_agrees inn src (by omega) (by unfold Stop; rw [hfe]; exact Or.inl rfl)
        unfold verdict at hv
        rw [hfe] at hv
        simpa using hv
      | false =>
        simp only [Bool.false_eq_true, if_false]
        by_cases hcr : (inn.getLast? == some CR && q == inn.length) = true
        · rw [if_pos hcr]
          simp only [Bool.and_eq_true, beq_iff_eq] at hcr
          obtain ⟨x, hx, hxn⟩ := findEol_cr_last inn q hfe hcr.2 hcr.1
          exact cont inn rfl (Or.inr ⟨x, hx, hxn⟩)
        · rw [if_neg hcr]
          simp only [Bool.and_eq_true, beq_iff_eq, not_and] at hcr
          have hv := verdict_agrees inn src (by omega) (by
            unfold Stop; rw [hfe]; right
            intro ⟨h1, _, h3⟩
            exact hcr h3 h1)
          unfold verdict at hv
          rw [hfe] at hv
          have hmid : (q == bufSize - 1 && inn[q - 1]? == some CR) = false := by
            have : ¬ q = bufSize - 1 := by omega
            have h2 : (q == bufSize - 1) = false := by simpa using this
            rw [h2]; rfl
          simp only [Bool.false_eq_true, if_false, hmid] at hv
          exact hv

end QsmtpModel.Netio

namespace QsmtpModel.Netio
open QsmtpModel

/-- the lines among the results (as in Props/C05) -/
def linesOf : List Rd → List (List Byte)
  | [] => []
  | .line l :: rs => l :: linesOf rs
  | _ :: rs => linesOf rs

/-- **The reader refines its specification.**  For every byte stream, every look-ahead state that
can arise, and every cut schedule, the lines handed out are `goodLines` of the bytes still to be
consumed. -/
theorem readAll_refines (fatal : Bool) : ∀ (fuel : Nat) (inn : List Byte) (src : Src),
    inn.length < win → (inn ++ src.rest).length < fuel →
    linesOf (readAll fatal inn src fuel) = goodLines (inn ++ src.rest) := by
  intro fuel
  induction fuel with
  | zero => intro inn src _ h; omega
  | succ fuel ih =>
    intro inn src hinn hf
    have hag := netRead_agrees fatal inn src hinn
    unfold readAll
    generalize netRead fatal inn src = res at hag
    obtain ⟨r, inn', src'⟩ := res
    cases r with
    | die e => simp only [linesOf]; exact hag.symm
    | line l =>
      simp only [linesOf]
      obtain ⟨h1, h2⟩ := hag
      have hs := (scan_shrinks _).2 l _ h1
      rw [goodLines_line _ l _ h1, ih inn' src' h2 (by omega)]
    | err e =>
      cases e with
      | econnreset => simp only [linesOf]; exact hag.symm
      | einval =>
        simp only [linesOf]
        obtain ⟨h1, h2⟩ := hag
        have h3 := h1.shrinks
        rw [h1.goodLines_eq, ih inn' src' h2 (by omega)]
      | e2big =>
        simp only [linesOf]
        obtain ⟨h1, h2⟩ := hag
        have h3 := h1.shrinks
        rw [h1.goodLines_eq, ih inn' src' h2 (by omega)]

end QsmtpModel.Netio

/-! ## The DATA phase on the byte stream alone -/

namespace QsmtpModel.Netio
open QsmtpModel

/-- shape of a line step: the stream is the line, CRLF, the rest -/
theorem scan_line_shape (p l r : List Byte) (h : scan p = .line l r) :
    p = l ++ CR :: LF :: r ∧ NoEol l ∧ l.length + 1 < win := by
  unfold scan at h
  split at h
  · split at h
    · cases h
    · unfold discard at h; split at h <;> cases h
  · rename_i k hk
    obtain ⟨x, e, y, hw, hxl, hxn, heE⟩ := findIdx_some_split _ k hk
    have hp : p = x ++ e :: (y ++ p.drop win) := by
      have := List.take_append_drop win p
      rw [hw] at this
      simpa using this.symm
    have hkw : k < win := by
      have := findIdx_lt _ _ hk; simp only [List.length_take] at this; omega
    split at h
    · cases h
    · rename_i hnlf
      split at h
      · unfold discard at h; split at h <;> cases h
      · rename_i hk1
        split at h
        · cases h
        · rename_i b hb
          split at h
          · rename_i hbl
            subst hbl
            simp only [Scan.line.injEq] at h
            obtain ⟨rfl, rfl⟩ := h
            have hpk : p[k]? = some e := by rw [hp, ← hxl]; simp
            have heCR : e = CR := by
              rcases eol_cases e heE with h1 | h1
              · exact h1
              · rw [h1] at hpk; exact absurd hpk hnlf
            subst heCR
            have htake : p.take k = x := by
              conv => lhs; rw [hp]
              rw [← hxl]; simp
            have hrest : y ++ p.drop win = LF :: p.drop (k + 2) := by
              have h1 : p.drop (k + 1) = y ++ p.drop win := by
                conv => lhs; rw [hp]
                rw [← hxl]; exact drop_split x _ CR
              have h2 : (p.drop (k + 1))[0]? = some LF := by rw [List.getElem?_drop]; simpa using hb
              rw [← h1]
              cases hd : p.drop (k + 1) with
              | nil => rw [hd] at h2; simp at h2
              | cons c cs =>
                rw [hd] at h2; simp at h2
                have : p.drop (k + 2) = cs := by
                  have := congrArg (List.drop 1) hd
                  rw [List.drop_drop] at this
                  simpa using this
                rw [h2, this]
            refine ⟨?_, by rw [htake]; exact hxn, by rw [htake, hxl]; omega⟩
            rw [htake]
            conv => lhs; rw [hp, hrest]
          · cases h

theorem frame_fuel_aux (n : Nat) : ∀ (p : List Byte), p.length ≤ n → ∀ (f g : Nat) (dr : Bool) (acc : List (List Byte)),
    p.length < f → p.length < g → (frameData f p dr acc).same (frameData g p dr acc) := by
  induction n with
  | zero =>
    intro p hp f g dr acc hf hg
    have hp0 : p = [] := List.length_eq_zero_iff.mp (by omega)
    subst hp0
    cases f with
    | zero => simp at hf
    | succ f =>
      cases g with
      | zero => simp at hg
      | succ g =>
        have : scan ([] : List Byte) = .dead := by decide
        simp only [frameData, this]
        exact ⟨rfl, rfl, fun _ => rfl⟩
  | succ n ih =>
    intro p hp f g dr acc hf hg
    cases f with
    | zero => omega
    | succ f =>
      cases g with
      | zero => omega
      | succ g =>
        simp only [frameData]
        cases hs : scan p with
        | dead => exact ⟨rfl, rfl, fun _ => rfl⟩
        | skip r =>
          have := (scan_shrinks p).1 r hs
          exact ih r (by omega) f g true acc (by omega) (by omega)
        | line l r =>
          have := (scan_shrinks p).2 l r hs
          simp only
          split
          · exact ⟨rfl, rfl, fun _ => rfl⟩
          · exact ih r (by omega) f g dr _ (by omega) (by omega)

theorem frame_fuel (p : List Byte) (f g : Nat) (dr : Bool) (acc : List (List Byte)) (hf : p.length < f) (hg : p.length < g) :
    (frameData f p dr acc).same (frameData g p dr acc) :=
  frame_fuel_aux p.length p (Nat.le_refl _) f g dr acc hf hg

theorem Frame.same_trans {a b c : Frame} (h1 : a.same b) (h2 : b.same c) : a.same c := by
  obtain ⟨v1, l1, r1⟩ := h1
  obtain ⟨v2, l2, r2⟩ := h2
  exact ⟨v1.trans v2, l1.trans l2, fun h => (r1 h).trans (r2 (v1 ▸ h))⟩

theorem Frame.same_symm {a b : Frame} (h : a.same b) : b.same a :=
  ⟨h.1.symm, h.2.1.symm, fun hv => (h.2.2 (h.1 ▸ hv)).symm⟩

/-- a skipped stretch: the frame of `p` is the frame of what follows, in draining mode -/
theorem frame_skips {p q : List Byte} (h : Skips p q) (dr : Bool) (acc : List (List Byte)) (f g : Nat)
    (hf : p.length < f) (hg : q.length < g) : (frameData f p dr acc).same (frameData g q true acc) := by
  induction h generalizing f dr with
  | one hs =>
    cases f with
    | zero => omega
    | succ f =>
      have := (scan_shrinks _).1 _ hs
      simp only [frameData, hs]
      exact frame_fuel _ f g true acc (by omega) hg
  | more hs hrest ih =>
    cases f with
    | zero => omega
    | succ f =>
      have := (scan_shrinks _).1 _ hs
      simp only [frameData, hs]
      exact ih true f (by omega) hg

/-- a stream without lines: the phase dies, nothing is added -/
theorem frame_no_lines (n : Nat) : ∀ (p : List Byte), p.length ≤ n → goodLines p = [] → ∀ (f : Nat) (dr : Bool) (acc : List (List Byte)),
    (frameData f p dr acc).verdict = .died ∧ (frameData f p dr acc).lines = acc := by
  induction n with
  | zero =>
    intro p hp _ f dr acc
    have hp0 : p = [] := List.length_eq_zero_iff.mp (by omega)
    subst hp0
    cases f with
    | zero => exact ⟨rfl, rfl⟩
    | succ f =>
      have : scan ([] : List Byte) = .dead := by decide
      simp [frameData, this]
  | succ n ih =>
    intro p hp hg f dr acc
    cases f with
    | zero => exact ⟨rfl, rfl⟩
    | succ f =>
      simp only [frameData]
      cases hs : scan p with
      | dead => exact ⟨rfl, rfl⟩
      | skip r =>
        have := (scan_shrinks p).1 r hs
        rw [goodLines_skip _ _ hs] at hg
        exact ih r (by omega) hg f true acc
      | line l r =>
        rw [goodLines_line _ _ _ hs] at hg
        cases hg

end QsmtpModel.Netio

namespace QsmtpModel.Netio
open QsmtpModel QsmtpModel.DataFraming

theorem loopLong_no_econnreset_err : ∀ (fuel : Nat) (src : Src), (loopLong src fuel).1 ≠ .err .econnreset := by
  intro fuel
  induction fuel with
  | zero => intro src; simp [loopLong]
  | succ n ih =>
    intro src
    unfold loopLong
    simp only
    split
    · simp
    · split
      · simp
      · exact ih _

theorem verdict_no_econnreset_err (buf : List Byte) (src : Src) : (verdict buf src).1 ≠ .err .econnreset := by
  unfold verdict
  split
  · exact loopLong_no_econnreset_err _ _
  · split
    · simp
    · split
      · exact loopLong_no_econnreset_err _ _
      · simp

/-- in fatal mode (the DATA phase) the end of the connection is never an ordinary error result -/
theorem netRead_fatal_no_econnreset_err (inn : List Byte) (src : Src) : (netRead true inn src).1 ≠ .err .econnreset := by
  unfold netRead
  split
  · rename_i r inn' x hp
    unfold phase1 at hp
    split at hp
    · cases hp
    · split at hp
      · split at hp
        · simp only [Prod.mk.injEq, Option.some.injEq] at hp; rw [← hp.1.1]; simp
        · split at hp
          · cases hp
          · simp only [Prod.mk.injEq, Option.some.injEq] at hp; rw [← hp.1.1]; simp
      · cases hp
  · split
    · simp
    · exact verdict_no_econnreset_err _ _

def toFrameEnd : End → FrameEnd
  | .queued => .queued
  | .refused => .refused
  | .died => .died

/-- the outcome of the model's DATA phase is the frame `F` of the stream -/
def Matches (o : Outcome) (F : Frame) : Prop :=
  toFrameEnd o.verdict = F.verdict ∧ o.lines = F.lines ∧
    (o.verdict ≠ .died → o.inn ++ o.src.rest = F.rest ∧ o.inn.length < win)

theorem Matches.of_same {o : Outcome} {F F' : Frame} (h : Matches o F') (hs : F.same F') : Matches o F := by
  obtain ⟨h1, h2, h3⟩ := h
  obtain ⟨s1, s2, s3⟩ := hs
  refine ⟨h1.trans s1.symm, h2.trans s2.symm, fun hd => ?_⟩
  obtain ⟨h4, h5⟩ := h3 hd
  refine ⟨h4.trans (s3 ?_).symm, h5⟩
  rw [s1, ← h1]
  intro he
  apply hd
  cases hv : o.verdict <;> rw [hv] at he <;> first | rfl | cases he

/-- **The DATA phase refines its specification**: for every stream, look-ahead state, cut schedule
and mode, where the phase ends, whether the message can be queued, which lines make up the message
and what is left for the command loop are those of `frameData` on the bytes alone. -/
theorem dataPhase_refines : ∀ (fuel : Nat) (inn : List Byte) (src : Src) (dr : Bool) (acc : List (List Byte))
    (errs : Nat) (lastErr : Bool) (first : Option Errno),
    inn.length < win → (inn ++ src.rest).length < fuel →
    Matches (dataPhase inn src dr acc errs lastErr first fuel)
      (frameData ((inn ++ src.rest).length + 1) (inn ++ src.rest) dr acc) := by
  intro fuel
  induction fuel with
  | zero => intro inn src dr acc errs lastErr first _ h; omega
  | succ fuel ih =>
    intro inn src dr acc errs lastErr first hinn hf
    have hag := netRead_agrees true inn src hinn
    have hne := netRead_fatal_no_econnreset_err inn src
    unfold dataPhase
    generalize netRead true inn src = res at hag hne
    obtain ⟨r, inn', src'⟩ := res
    cases r with
    | die e =>
      simp only
      have hg : goodLines (inn ++ src.rest) = [] := hag
      obtain ⟨h1, h2⟩ := frame_no_lines _ _ (Nat.le_refl _) hg ((inn ++ src.rest).length + 1) dr acc
      exact ⟨by rw [h1]; rfl, h2.symm, fun h => absurd rfl h⟩
    | err e =>
      cases e with
      | econnreset => exact absurd rfl hne
      | einval =>
        simp only
        obtain ⟨hsk, hi⟩ := hag
        have hsh := hsk.shrinks
        exact (ih inn' src' true acc (errs + 1) true _ hi (by omega)).of_same
          (frame_skips hsk dr acc _ _ (Nat.lt_succ_self _) (Nat.lt_succ_self _))
      | e2big =>
        simp only
        obtain ⟨hsk, hi⟩ := hag
        have hsh := hsk.shrinks
        exact (ih inn' src' true acc (errs + 1) true _ hi (by omega)).of_same
          (frame_skips hsk dr acc _ _ (Nat.lt_succ_self _) (Nat.lt_succ_self _))
    | line l =>
      simp only
      obtain ⟨hsc, hi⟩ := hag
      have hsh := (scan_shrinks _).2 l _ hsc
      simp only [frameData, hsc]
      by_cases hl : l = [DOT]
      · rw [if_pos hl, if_pos hl]
        refine ⟨?_, rfl, fun _ => ⟨rfl, hi⟩⟩
        cases dr <;> rfl
      · rw [if_neg hl, if_neg hl]
        exact (ih inn' src' dr _ errs false first hi (by omega)).of_same
          (frame_fuel _ _ _ dr _ (by omega) (Nat.lt_succ_self _))

end QsmtpModel.Netio

namespace QsmtpModel.Netio
open QsmtpModel QsmtpModel.DataFraming

/-- once a stretch was skipped the message is never queued -/
theorem frame_draining_not_queued : ∀ (f : Nat) (p : List Byte) (acc : List (List Byte)),
    (frameData f p true acc).verdict ≠ .queued ∧ (frameData f p true acc).lines = acc := by
  intro f
  induction f with
  | zero => intro p acc; exact ⟨by simp [frameData], rfl⟩
  | succ f ih =>
    intro p acc
    simp only [frameData]
    cases hs : scan p with
    | dead => exact ⟨by simp, rfl⟩
    | skip r => exact ih r acc
    | line l r =>
      simp only
      split
      · exact ⟨by simp, rfl⟩
      · exact ih r acc

/-- **What a queued message looks like on the wire.**  If the frame of a stream says "queued", the
stream is exactly: the queued lines, each free of CR and LF, shorter than the window and followed by
CRLF; then `.` CRLF; then the rest.  No other stream is ever queued. -/
theorem frame_queued_shape : ∀ (f : Nat) (p : List Byte) (acc : List (List Byte)),
    (frameData f p false acc).verdict = .queued →
    ∃ new, (frameData f p false acc).lines = acc ++ new ∧
      p = wire new ++ DOT :: CR :: LF :: (frameData f p false acc).rest ∧
      ∀ l ∈ new, NoEol l ∧ l ≠ [DOT] ∧ l.length + 1 < win := by
  intro f
  induction f with
  | zero => intro p acc h; simp [frameData] at h
  | succ f ih =>
    intro p acc h
    simp only [frameData] at h ⊢
    cases hs : scan p with
    | dead => rw [hs] at h; simp at h
    | skip r => rw [hs] at h; exact absurd h (frame_draining_not_queued f r acc).1
    | line l r =>
      rw [hs] at h
      simp only at h ⊢
      obtain ⟨hp, hno, hlen⟩ := scan_line_shape p l r hs
      by_cases hl : l = [DOT]
      · rw [if_pos hl] at h ⊢
        refine ⟨[], by simp, ?_, by simp⟩
        rw [hp, hl]; simp [wire]
      · rw [if_neg hl] at h ⊢
        simp only [Bool.false_eq_true, if_false] at h ⊢
        obtain ⟨new, h1, h2, h3⟩ := ih r (acc ++ [l]) h
        refine ⟨l :: new, by rw [h1]; simp, ?_, ?_⟩
        · rw [hp]
          conv => lhs; rw [h2]
          simp [wire]
        · intro x hx
          rcases List.mem_cons.mp hx with rfl | hx
          · exact ⟨hno, hl, hlen⟩
          · exact h3 x hx

end QsmtpModel.Netio
