/-
Helper lemmas for the C13 theorems about QsmtpModel.Vpop.
-/
import QsmtpModel.Vpop
import QsmtpModel.Spec.Mailbox

namespace QsmtpModel.Vpop
open QsmtpModel QsmtpModel.Spec.Mailbox

deriving instance DecidableEq for Except

/-! ### path splitting and the single component case -/

theorem comps_noslash (p : List Byte) : ∀ acc, SLASH ∉ p →
    comps acc p = if acc ++ p = [] then [] else [acc ++ p] := by
  induction p with
  | nil => intro acc _; simp [comps]
  | cons b bs ih =>
    intro acc h
    have hb : b ≠ SLASH := fun e => h (by simp [e])
    have hbs : SLASH ∉ bs := fun e => h (by simp [e])
    simp only [comps, if_neg hb]
    rw [ih (acc ++ [b]) hbs]
    simp

theorem cstr_of_noNul {p : List Byte} (h : NUL ∉ p) : cstr p = p := by
  unfold cstr
  induction p with
  | nil => rfl
  | cons b bs ih =>
    have hb : b ≠ NUL := fun e => h (by simp [e])
    have hbs : NUL ∉ bs := fun e => h (by simp [e])
    rw [List.takeWhile_cons, ih hbs]
    simp [hb]

theorem cstr_noNul (p : List Byte) : NUL ∉ cstr p := by
  unfold cstr
  induction p with
  | nil => simp
  | cons b bs ih =>
    by_cases hb : b = NUL
    · simp [List.takeWhile, hb]
    · simp only [List.takeWhile, ne_eq, hb, not_false_eq_true, decide_true, List.mem_cons, not_or]
      exact ⟨fun e => hb e.symm, ih⟩

theorem cstr_subset {p : List Byte} {b : Byte} (h : b ∈ cstr p) : b ∈ p :=
  (List.takeWhile_sublist _).subset h


theorem head_ne_of_not_mem {p : List Byte} {b : Byte} (h : b ∉ p) : p.head? ≠ some b := by
  cases p with
  | nil => simp
  | cons x xs => simp only [List.head?_cons, ne_eq, Option.some.injEq]; exact fun e => h (by simp [e])

theorem getLast_ne_of_not_mem {p : List Byte} {b : Byte} (h : b ∉ p) : p.getLast? ≠ some b := by
  intro e
  exact h (List.mem_of_getLast? e)

theorem walk_single (t : DirTree) (d : Nat) (c : List Byte) :
    walk t d [c] = if t.isDir d = false then (.error ENOTDIR, [])
      else match step t d c with
        | .error e => (.error e, [(d, c)])
        | .ok n => (.ok n, [(d, c)]) := by
  simp only [walk]
  split
  · rfl
  · split <;> simp_all

/-- openat() for an argument without '/' (as a C string): one component, looked up in the base
directory -/
theorem openat_noslash (t : DirTree) (dd : Nat) (name : List Byte) (b : Bool) (h : SLASH ∉ cstr name) :
    openat t dd name b =
      if cstr name = [] then (.error ENOENT, [])
      else if (cstr name).length ≥ pathMax then (.error ENAMETOOLONG, [])
      else if t.isDir dd = false then (.error ENOTDIR, [])
      else match step t dd (cstr name) with
        | .error e => (.error e, [(dd, cstr name)])
        | .ok n => if b = true ∧ t.isDir n = false then (.error ENOTDIR, [(dd, cstr name)])
                   else (.ok n, [(dd, cstr name)]) := by
  unfold openat
  by_cases h1 : cstr name = []
  · simp only [h1, if_true]
  by_cases h2 : (cstr name).length ≥ pathMax
  · simp only [if_neg h1, if_pos h2]
  simp only [if_neg h1, if_neg h2, if_neg (head_ne_of_not_mem h), comps_noslash _ _ h, List.nil_append,
    walk_single, getLast_ne_of_not_mem h, or_false]
  by_cases h3 : t.isDir dd = false
  · simp only [if_pos h3]
  simp only [if_neg h3]
  cases hs : step t dd (cstr name) with
  | error e => rfl
  | ok n => rfl

/-- every component resolved by an openat() whose (C string) argument has no '/' is that argument,
looked up in the base directory -/
theorem openat_evs_single (t : DirTree) (dd : Nat) (name : List Byte) (b : Bool)
    (h : SLASH ∉ cstr name) : ∀ ev ∈ (openat t dd name b).2, ev = (dd, cstr name) ∧ cstr name ≠ [] := by
  intro ev hev
  rw [openat_noslash t dd name b h] at hev
  split at hev
  · simp at hev
  rename_i hne
  refine ⟨?_, hne⟩
  split at hev
  · simp at hev
  split at hev
  · simp at hev
  split at hev
  · simpa using hev
  · split at hev <;> simpa using hev

/-- openat() of a single plain component in a directory -/
theorem openat_plain (t : DirTree) (dd : Nat) (name : List Byte) (b : Bool)
    (hnul : NUL ∉ name) (hsl : SLASH ∉ name) (hne : name ≠ []) (hlen : name.length < pathMax)
    (hd : t.isDir dd = true) :
    openat t dd name b = match step t dd name with
      | .error e => (.error e, [(dd, name)])
      | .ok n => if b = true ∧ t.isDir n = false then (.error ENOTDIR, [(dd, name)]) else (.ok n, [(dd, name)]) := by
  have hc := cstr_of_noNul hnul
  rw [openat_noslash t dd name b (by rw [hc]; exact hsl), hc, if_neg hne, if_neg (Nat.not_le.mpr hlen)]
  simp only [hd, Bool.true_eq_false, if_false]

theorem step_plain (t : DirTree) (d : Nat) (c : List Byte) (h1 : c ≠ [DOT]) (h2 : c ≠ [DOT, DOT]) :
    step t d c = match t.child d c with
      | .node n => .ok n
      | .err e => .error e
      | .absent => .error (if c.length > nameMax then ENAMETOOLONG else ENOENT) := by
  simp only [step, if_neg h1, if_neg h2]
  rfl


/-! ### confinement -/

theorem plainName_iff (n : List Byte) :
    plainName n = true ↔ (n ≠ [] ∧ SLASH ∉ n ∧ n ≠ [DOT] ∧ n ≠ [DOT, DOT]) := by
  simp [plainName]

/-- no '/' and no NUL -/
def Clean (s : List Byte) : Prop := SLASH ∉ s ∧ NUL ∉ s

theorem clean_append {a b : List Byte} (ha : Clean a) (hb : Clean b) : Clean (a ++ b) := by
  unfold Clean at *
  simp only [List.mem_append, not_or]
  exact ⟨⟨ha.1, hb.1⟩, ha.2, hb.2⟩

theorem clean_colons {s : List Byte} (h : Clean s) : Clean (colons s) := by
  unfold Clean colons at *
  constructor
  · intro hm
    obtain ⟨b, hb, he⟩ := List.mem_map.mp hm
    by_cases hd : b = DOT
    · simp [hd, COLON, SLASH] at he
    · simp only [hd, if_false] at he; exact h.1 (he ▸ hb)
  · intro hm
    obtain ⟨b, hb, he⟩ := List.mem_map.mp hm
    by_cases hd : b = DOT
    · simp [hd, COLON, NUL] at he
    · simp only [hd, if_false] at he; exact h.2 (he ▸ hb)

theorem clean_take {s : List Byte} (h : Clean s) (n : Nat) : Clean (s.take n) :=
  ⟨fun hm => h.1 (List.mem_of_mem_take hm), fun hm => h.2 (List.mem_of_mem_take hm)⟩

theorem dotqm_eq : Gen.dotqm = [46, 113, 109, 97, 105, 108, 45] := rfl
theorem qmDefault_eq : Gen.qmDefault = [100, 101, 102, 97, 117, 108, 116] := rfl

theorem clean_dotqm : Clean Gen.dotqm := by rw [dotqm_eq]; unfold Clean; decide
theorem clean_qmDefault : Clean Gen.qmDefault := by rw [qmDefault_eq]; unfold Clean; decide
theorem clean_dash : Clean [DASH] := by unfold Clean; decide

/-- every name qmexists() builds from a clean suffix is ".qmail-" followed by clean bytes -/
theorem qmName_shape (suff : Option (List Byte)) (dflt : Bool) (name : List Byte)
    (hs : ∀ s, suff = some s → Clean s) (h : qmName suff dflt = some name) :
    ∃ rest, name = Gen.dotqm ++ rest ∧ Clean rest := by
  unfold qmName at h
  cases suff with
  | none =>
    simp only at h
    split at h
    · split at h
      · simp at h
      · exact ⟨Gen.qmDefault, by simpa using h.symm, clean_qmDefault⟩
    · exact ⟨[], by simpa using h.symm, by unfold Clean; simp⟩
  | some s =>
    have hc := clean_colons (hs s rfl)
    simp only at h
    split at h
    · simp at h
    · split at h
      · split at h
        · simp at h
        · split at h
          · simp at h
          · refine ⟨colons s ++ [DASH] ++ Gen.qmDefault, by simpa using h.symm, ?_⟩
            exact clean_append (clean_append hc clean_dash) clean_qmDefault
      · exact ⟨colons s, by simpa using h.symm, hc⟩

theorem plain_of_dotqm (rest : List Byte) (h : Clean rest) : plainName (Gen.dotqm ++ rest) = true := by
  rw [plainName_iff, dotqm_eq]
  refine ⟨by simp, ?_, by simp, by simp⟩
  have := (clean_append clean_dotqm h).1
  rwa [dotqm_eq] at this

/-- confinement predicate for one resolution event -/
def InDir (dd : Nat) (ev : Ev) : Prop := ev.1 = dd ∧ plainName ev.2 = true

theorem qmexists_evs (cfg : Cfg) (env : Env) (dd : Nat) (suff : Option (List Byte)) (dflt : Bool)
    (hs : ∀ s, suff = some s → Clean s) : ∀ ev ∈ (qmexists cfg env dd suff dflt).evs, InDir dd ev := by
  intro ev hev
  unfold qmexists at hev
  cases hn : qmName suff dflt with
  | none => simp [hn] at hev
  | some name =>
    obtain ⟨rest, rfl, hr⟩ := qmName_shape suff dflt name hs hn
    have hcl := clean_append clean_dotqm hr
    have hc : cstr (Gen.dotqm ++ rest) = Gen.dotqm ++ rest := cstr_of_noNul hcl.2
    have key : ∀ ev ∈ (openat env.tree dd (Gen.dotqm ++ rest) false).2, InDir dd ev := by
      intro ev hev
      have := (openat_evs_single env.tree dd _ false (by rw [hc]; exact hcl.1) ev hev).1
      rw [hc] at this
      rw [this]
      exact ⟨rfl, plain_of_dotqm rest hr⟩
    simp only [hn] at hev
    split at hev
    · exact key ev hev
    · split at hev
      · exact key ev hev
      · split at hev
        · exact key ev hev
        · split at hev <;> exact key ev hev


theorem dashIdx_spec (s : List Byte) : ∀ off p, p ∈ dashIdx off s →
    off ≤ p ∧ p < off + s.length ∧ s[p - off]? = some DASH := by
  induction s with
  | nil => intro off p h; simp [dashIdx] at h
  | cons b bs ih =>
    intro off p h
    simp only [dashIdx] at h
    have tl : p ∈ dashIdx (off + 1) bs → off ≤ p ∧ p < off + (b :: bs).length ∧ (b :: bs)[p - off]? = some DASH := by
      intro h
      obtain ⟨h1, h2, h3⟩ := ih (off + 1) p h
      refine ⟨by omega, by simp; omega, ?_⟩
      have : p - off = (p - (off + 1)) + 1 := by omega
      rw [this, List.getElem?_cons_succ]; exact h3
    split at h
    · rename_i hb
      rcases List.mem_cons.mp h with rfl | h
      · exact ⟨Nat.le_refl _, by simp, by simp [hb]⟩
      · exact tl h
    · exact tl h

theorem dashIdx_complete (s : List Byte) : ∀ off i, s[i]? = some DASH → off + i ∈ dashIdx off s := by
  induction s with
  | nil => intro off i h; simp at h
  | cons b bs ih =>
    intro off i h
    simp only [dashIdx]
    cases i with
    | zero =>
      simp only [List.getElem?_cons_zero, Option.some.injEq] at h
      simp [h]
    | succ j =>
      simp only [List.getElem?_cons_succ] at h
      have := ih (off + 1) j h
      have e : off + 1 + j = off + (j + 1) := by omega
      rw [e] at this
      split
      · exact List.mem_cons_of_mem _ this
      · exact this

theorem take_append_of_lt {a b : List Byte} {n : Nat} (h : n ≤ a.length) : (a ++ b).take n = a.take n := by
  rw [List.take_append_of_le_length h]

/-- the suffixes handed to qmexists() by the prefix loop are clean -/
theorem prefix_clean (cfg : Cfg) (loc tail : List Byte) (hloc : Clean loc)
    (hdash : cfg.dashScanBounded = true ∨ Clean tail) :
    ∀ p ∈ dashPositions cfg loc tail, Clean ((loc ++ tail).take p) := by
  intro p hp
  rcases hdash with hb | ht
  · unfold dashPositions at hp
    by_cases hd : DASH ∈ loc
    · rw [if_pos hd, hb] at hp
      simp only [if_true] at hp
      have := dashIdx_spec loc 0 p hp
      rw [take_append_of_lt (by omega)]
      exact clean_take hloc p
    · rw [if_neg hd] at hp; simp at hp
  · exact clean_take (clean_append hloc ht) p

theorem prefixLoop_evs (cfg : Cfg) (env : Env) (dd : Nat) (buf : List Byte) :
    ∀ (ps : List Nat) (evs : List Ev), (∀ p ∈ ps, Clean (buf.take p)) → (∀ ev ∈ evs, InDir dd ev) →
      ∀ ev ∈ (prefixLoop cfg env dd buf ps evs).2, InDir dd ev := by
  intro ps
  induction ps with
  | nil => intro evs _ h; simpa [prefixLoop] using h
  | cons p ps ih =>
    intro evs hc h
    have hq := qmexists_evs cfg env dd (some (buf.take p)) true (by intro s hs; cases hs; exact hc p (by simp))
    have happ : ∀ ev ∈ evs ++ (qmexists cfg env dd (some (buf.take p)) true).evs, InDir dd ev := by
      intro ev hev
      rcases List.mem_append.mp hev with h1 | h1
      · exact h ev h1
      · exact hq ev h1
    simp only [prefixLoop]
    split
    · exact happ
    · exact ih _ (fun q hq => hc q (List.mem_cons_of_mem _ hq)) happ


theorem openat_loc_evs (t : DirTree) (dd : Nat) (loc : List Byte) (b : Bool) (hloc : Clean loc)
    (hdot : loc ≠ [DOT] ∧ loc ≠ [DOT, DOT]) : ∀ ev ∈ (openat t dd loc b).2, InDir dd ev := by
  intro ev hev
  have hc : cstr loc = loc := cstr_of_noNul hloc.2
  obtain ⟨h1, h2⟩ := openat_evs_single t dd loc b (by rw [hc]; exact hloc.1) ev hev
  rw [hc] at h1 h2
  rw [h1]
  exact ⟨rfl, (plainName_iff loc).mpr ⟨h2, hloc.1, hdot.1, hdot.2⟩⟩


theorem mem_append_of {P : Ev → Prop} {a b : List Ev} (ha : ∀ ev ∈ a, P ev) (hb : ∀ ev ∈ b, P ev) :
    ∀ ev ∈ a ++ b, P ev := by
  intro ev h
  rcases List.mem_append.mp h with h | h
  · exact ha ev h
  · exact hb ev h

theorem probeLocal_evs (cfg : Cfg) (env : Env) (dd : Nat) (loc : List Byte) (hloc : Clean loc) :
    ∀ ev ∈ (probeLocal cfg env dd loc).evs, InDir dd ev := by
  have hQ2 := qmexists_evs cfg env dd (some loc) false (by intro s hs; cases hs; exact hloc)
  have hQ3 := qmexists_evs cfg env dd (some loc) true (by intro s hs; cases hs; exact hloc)
  unfold probeLocal
  simp only
  split
  · exact mem_append_of hQ2 hQ3
  · exact hQ2

theorem catchAllStep_evs (cfg : Cfg) (env : Env) (ds : Ds) (dd : Nat) (pev evs : List Ev)
    (h : ∀ ev ∈ evs, InDir dd ev) : ∀ ev ∈ (catchAllStep cfg env ds dd pev evs).evs, InDir dd ev := by
  have hQd := qmexists_evs cfg env dd none true (by intro s hs; cases hs)
  have h3 := mem_append_of h hQd
  unfold catchAllStep
  simp only
  split
  · exact h3
  · split
    · exact h3
    · split
      · split
        · exact h3
        · split <;> exact h3
      · exact h3

theorem afterProbe_evs (cfg : Cfg) (env : Env) (ds : Ds) (dd : Nat) (loc tail : List Byte) (pev ev1 : List Ev)
    (hloc : Clean loc) (hdash : cfg.dashScanBounded = true ∨ Clean tail) (h : ∀ ev ∈ ev1, InDir dd ev) :
    ∀ ev ∈ (afterProbe cfg env ds dd loc tail pev ev1).evs, InDir dd ev := by
  have hL := prefixLoop_evs cfg env dd (loc ++ tail) (dashPositions cfg loc tail) ev1
    (prefix_clean cfg loc tail hloc hdash) h
  unfold afterProbe
  split
  · rename_i qp ev2 heq
    rw [heq] at hL
    split <;> exact hL
  · rename_i ev2 heq
    rw [heq] at hL
    exact catchAllStep_evs cfg env ds dd pev ev2 hL

theorem inDomain_evs (cfg : Cfg) (env : Env) (ds : Ds) (dd : Nat) (loc tail : List Byte) (pev : List Ev)
    (hloc : Clean loc) (hdot : loc ≠ [DOT] ∧ loc ≠ [DOT, DOT])
    (hdash : cfg.dashScanBounded = true ∨ Clean tail) :
    ∀ ev ∈ (inDomain cfg env ds dd loc tail pev).evs, InDir dd ev := by
  have hU := openat_loc_evs env.tree dd loc true hloc hdot
  have hE1 := mem_append_of hU (probeLocal_evs cfg env dd loc hloc)
  unfold inDomain
  simp only
  split
  · exact hU
  · split
    · exact hU
    · split
      · exact hU
      · split
        · exact hE1
        · split
          · exact hE1
          · exact afterProbe_evs cfg env _ dd loc tail pev _ hloc hdash hE1

theorem isDotName_iff (loc : List Byte) : isDotName loc = true ↔ (loc = [DOT] ∨ loc = [DOT, DOT]) := by
  unfold isDotName
  constructor
  · intro h
    simp only [decide_eq_true_eq] at h
    obtain ⟨hl, h0, h1⟩ := h
    rcases hl with hl | hl
    · match loc, hl with
      | [a], _ => simp at h0; left; rw [h0]
    · match loc, hl with
      | [a, b], _ => simp at h0 h1; right; rw [h0, h1]
  · rintro (rfl | rfl) <;> decide

/-- **events of user_exists()**: everything resolved after the domain directory was opened is a
plain entry name looked up in that directory -/
theorem userExists_evs (cfg : Cfg) (env : Env) (ds0 : Ds) (loc tail domain : List Byte)
    (hdots : cfg.refuseDotNames = true) (hdash : cfg.dashScanBounded = true ∨ Clean tail)
    (hnul : NUL ∉ loc) :
    ∀ ev ∈ (userExists cfg env ds0 loc tail domain).evs,
      ∃ dd, (openat env.tree env.cwd (vgetDir cfg env ds0 domain).ds.domainpath true).1 = .ok dd ∧ InDir dd ev := by
  intro ev hev
  unfold userExists at hev
  split at hev
  · simp at hev
  rename_i hsl
  split at hev
  · simp at hev
  rename_i hdn
  have hdot : loc ≠ [DOT] ∧ loc ≠ [DOT, DOT] := by
    have : ¬ (isDotName loc = true) := fun h => hdn ⟨hdots, h⟩
    rw [isDotName_iff] at this
    exact ⟨fun h => this (Or.inl h), fun h => this (Or.inr h)⟩
  simp only at hev
  split at hev
  · simp at hev
  split at hev
  · simp at hev
  split at hev
  · rename_i e he
    split at hev
    · simp at hev
    · split at hev
      · simp at hev
      · split at hev <;> simp at hev
  · rename_i dd hdd
    exact ⟨dd, hdd, inDomain_evs cfg env _ dd loc tail _ ⟨hsl, hnul⟩ hdot hdash ev hev⟩


/-! ### the descriptors kept in `ds` -/

theorem vgetDir_fds (cfg : Cfg) (env : Env) (ds : Ds) (domain : List Byte)
    (hu : ds.userdir = none) (hd : ds.domaindir = none) :
    (vgetDir cfg env ds domain).ds.userdir = none ∧ (vgetDir cfg env ds domain).ds.domaindir = none := by
  unfold vgetDir
  simp only
  split
  · exact ⟨hu, hd⟩
  · split
    · split
      · exact ⟨hu, hd⟩
      · split <;> exact ⟨hu, hd⟩
    · split
      · exact ⟨hu, hd⟩
      · split <;> exact ⟨hu, hd⟩
      · exact ⟨hu, hd⟩
      · split
        · exact ⟨rfl, rfl⟩
        · exact ⟨rfl, hd⟩

theorem catchAllStep_ds (cfg : Cfg) (env : Env) (ds : Ds) (dd : Nat) (pev evs : List Ev) :
    (catchAllStep cfg env ds dd pev evs).ds = ds ∨ (catchAllStep cfg env ds dd pev evs).ds = Ds.init := by
  unfold catchAllStep
  simp only
  split
  · exact Or.inr rfl
  · split
    · exact Or.inr rfl
    · split
      · split
        · exact Or.inr rfl
        · split
          · exact Or.inr rfl
          · exact Or.inl rfl
      · exact Or.inl rfl

theorem afterProbe_ds (cfg : Cfg) (env : Env) (ds : Ds) (dd : Nat) (loc tail : List Byte) (pev ev1 : List Ev) :
    (afterProbe cfg env ds dd loc tail pev ev1).ds = ds ∨ (afterProbe cfg env ds dd loc tail pev ev1).ds = Ds.init := by
  unfold afterProbe
  split
  · split
    · exact Or.inl rfl
    · exact Or.inr rfl
  · exact catchAllStep_ds cfg env ds dd pev _

theorem openat_dir_isDir (t : DirTree) (base : Nat) (p : List Byte) (n : Nat)
    (h : (openat t base p true).1 = .ok n) : t.isDir n = true := by
  unfold openat at h
  simp only at h
  split at h
  · simp at h
  · split at h
    · simp at h
    · split at h
      · rename_i e he; rw [he] at h; simp at h
      · rename_i m hm
        split at h
        · simp at h
        · rename_i hc
          rw [hm] at h
          simp only [Except.ok.injEq] at h
          subst h
          cases hd : t.isDir m with
          | true => rfl
          | false => exact absurd ⟨Or.inl trivial, hd⟩ hc

/-- what a kept user directory descriptor is: the directory entry `loc` of the domain directory -/
theorem inDomain_userdir (cfg : Cfg) (env : Env) (ds : Ds) (dd : Nat) (loc tail : List Byte) (pev : List Ev)
    (hloc : Clean loc) (hdot : loc ≠ [DOT] ∧ loc ≠ [DOT, DOT]) (u : Nat)
    (hu : (inDomain cfg env ds dd loc tail pev).ds.userdir = some u) :
    plainName loc = true ∧ env.tree.child dd loc = .node u ∧ env.tree.isDir u = true := by
  have hc : cstr loc = loc := cstr_of_noNul hloc.2
  have hop := openat_noslash env.tree dd loc true (by rw [hc]; exact hloc.1)
  rw [hc] at hop
  unfold inDomain at hu
  simp only at hu
  split at hu
  · rename_i n hn
    simp only [Option.some.injEq] at hu
    subst hu
    rw [hop] at hn
    split at hn
    · simp at hn
    rename_i hne
    split at hn
    · simp at hn
    split at hn
    · simp at hn
    rw [step_plain _ _ _ hdot.1 hdot.2] at hn
    cases hch : env.tree.child dd loc with
    | absent => simp [hch] at hn
    | err e => simp [hch] at hn
    | node m =>
      simp only [hch] at hn
      split at hn
      · simp at hn
      · rename_i hcnd
        simp only [Except.ok.injEq] at hn
        subst hn
        refine ⟨(plainName_iff loc).mpr ⟨hne, hloc.1, hdot.1, hdot.2⟩, rfl, ?_⟩
        cases hd : env.tree.isDir m with
        | true => rfl
        | false => exact absurd ⟨trivial, hd⟩ hcnd
  · split at hu
    · simp [Ds.init] at hu
    · split at hu
      · simp at hu
      · split at hu
        · simp at hu
        · split at hu
          · simp [Ds.init] at hu
          · rcases afterProbe_ds cfg env { ds with userdir := none } dd loc tail pev
              ((openat env.tree dd loc true).2 ++ (probeLocal cfg env dd loc).evs) with h | h
            · rw [h] at hu; simp at hu
            · rw [h] at hu; simp [Ds.init] at hu

theorem inDomain_domaindir (cfg : Cfg) (env : Env) (ds : Ds) (dd : Nat) (loc tail : List Byte) (pev : List Ev)
    (d : Nat) (hd : (inDomain cfg env ds dd loc tail pev).ds.domaindir = some d) : ds.domaindir = some d := by
  unfold inDomain at hd
  simp only at hd
  split at hd
  · exact hd
  · split at hd
    · simp [Ds.init] at hd
    · split at hd
      · exact hd
      · split at hd
        · exact hd
        · split at hd
          · simp [Ds.init] at hd
          · rcases afterProbe_ds cfg env { ds with userdir := none } dd loc tail pev
              ((openat env.tree dd loc true).2 ++ (probeLocal cfg env dd loc).evs) with h | h
            · rw [h] at hd; exact hd
            · rw [h] at hd; simp [Ds.init] at hd

/-- the descriptors user_exists() leaves in a fresh `ds` -/
theorem userExists_fds (cfg : Cfg) (env : Env) (ds0 : Ds) (loc tail domain : List Byte)
    (hdots : cfg.refuseDotNames = true) (hnul : NUL ∉ loc)
    (h0u : ds0.userdir = none) (h0d : ds0.domaindir = none) :
    let o := userExists cfg env ds0 loc tail domain
    (∀ d, o.ds.domaindir = some d →
      (openat env.tree env.cwd (vgetDir cfg env ds0 domain).ds.domainpath true).1 = .ok d) ∧
    (∀ u, o.ds.userdir = some u → ∃ dd,
      (openat env.tree env.cwd (vgetDir cfg env ds0 domain).ds.domainpath true).1 = .ok dd ∧
      o.ds.domaindir = some dd ∧ plainName loc = true ∧ env.tree.child dd loc = .node u ∧ env.tree.isDir u = true) := by
  have hv := vgetDir_fds cfg env ds0 domain h0u h0d
  intro o
  show (∀ d, (userExists cfg env ds0 loc tail domain).ds.domaindir = some d → _) ∧
    (∀ u, (userExists cfg env ds0 loc tail domain).ds.userdir = some u → ∃ dd, _ ∧
      (userExists cfg env ds0 loc tail domain).ds.domaindir = some dd ∧ _)
  unfold userExists
  split
  · simp [h0u, h0d]
  rename_i hsl
  split
  · simp [h0u, h0d]
  rename_i hdn
  have hdot : loc ≠ [DOT] ∧ loc ≠ [DOT, DOT] := by
    have : ¬ (isDotName loc = true) := fun h => hdn ⟨hdots, h⟩
    rw [isDotName_iff] at this
    exact ⟨fun h => this (Or.inl h), fun h => this (Or.inr h)⟩
  simp only
  split
  · simp [hv.1, hv.2]
  split
  · simp [hv.1, hv.2]
  split
  · split
    · simp [Ds.init]
    · split
      · simp [Ds.init]
      · split
        · simp [hv.1]
        · simp [Ds.init]
  · rename_i dd hdd
    constructor
    · intro d hd
      have := inDomain_domaindir cfg env _ dd loc tail _ d hd
      simp only [Option.some.injEq] at this
      rw [← this]; exact hdd
    · intro u hu
      obtain ⟨h1, h2, h3⟩ := inDomain_userdir cfg env _ dd loc tail _ ⟨hsl, hnul⟩ hdot u hu
      refine ⟨dd, hdd, ?_, h1, h2, h3⟩
      -- a kept user directory implies that the domain directory descriptor was kept, too
      unfold inDomain at hu ⊢
      simp only at hu ⊢
      split
      · rfl
      · rename_i e he
        rw [he] at hu
        simp only at hu
        split at hu
        · simp [Ds.init] at hu
        · split at hu
          · simp at hu
          · split at hu
            · simp at hu
            · split at hu
              · simp [Ds.init] at hu
              · rcases afterProbe_ds cfg env { ({ (vgetDir cfg env ds0 domain).ds with domaindir := some dd } : Ds) with userdir := none } dd loc tail
                    (openat env.tree env.cwd (vgetDir cfg env ds0 domain).ds.domainpath true).2
                    ((openat env.tree dd loc true).2 ++ (probeLocal cfg env dd loc).evs) with h | h
                · rw [h] at hu; simp at hu
                · rw [h] at hu; simp [Ds.init] at hu


/-! ### getfile -/

theorem openat_fn_evs (t : DirTree) (d : Nat) (fn : List Byte) (hfn : Clean fn) :
    ∀ ev ∈ (openat t d fn false).2, ev = (d, fn) := by
  intro ev hev
  have hc : cstr fn = fn := cstr_of_noNul hfn.2
  have := (openat_evs_single t d fn false (by rw [hc]; exact hfn.1) ev hev).1
  rwa [hc] at this

theorem getfile_evs_gen (env : Env) (ds : Ds) (fn : List Byte) (global : Bool) (t0 : Nat) (P : Ev → Prop)
    (hU : ∀ u, ds.userdir = some u → ∀ ev ∈ (openat env.tree u fn false).2, P ev)
    (hD : ∀ d, ds.domaindir = some d → ∀ ev ∈ (openat env.tree d fn false).2, P ev)
    (hG : global = true → ∀ ev ∈ (openat env.tree env.controlDir fn false).2, P ev) :
    ∀ ev ∈ (getfile env ds fn global t0).evs, P ev := by
  unfold getfile
  simp only
  have tailD : ∀ (t1 : Nat) (evs : List Ev), (∀ ev ∈ evs, P ev) →
      ∀ ev ∈ (match ds.domaindir with
        | some d =>
          match (openat env.tree d fn false).1 with
          | .ok n => (⟨Gen.cfgDomain, .ok n, evs ++ (openat env.tree d fn false).2⟩ : GfOut)
          | .error e =>
            if global = false ∨ e ≠ ENOENT then ⟨Gen.cfgDomain, .error e, evs ++ (openat env.tree d fn false).2⟩
            else ⟨Gen.cfgGlobal, (openat env.tree env.controlDir fn false).1,
                  evs ++ (openat env.tree d fn false).2 ++ (openat env.tree env.controlDir fn false).2⟩
        | none => if global = false then ⟨t1, .error ENOENT, evs⟩
                  else ⟨Gen.cfgGlobal, (openat env.tree env.controlDir fn false).1,
                        evs ++ (openat env.tree env.controlDir fn false).2⟩).evs, P ev := by
    intro t1 evs hevs
    split
    · rename_i d hd
      split
      · exact mem_append_of hevs (hD d hd)
      · split
        · exact mem_append_of hevs (hD d hd)
        · rename_i hg
          have hg' : global = true := by cases global <;> simp_all
          exact mem_append_of (mem_append_of hevs (hD d hd)) (hG hg')
    · split
      · exact hevs
      · rename_i hg
        have hg' : global = true := by cases global <;> simp_all
        exact mem_append_of hevs (hG hg')
  split
  · rename_i u hu
    split
    · exact hU u hu
    · split
      · exact hU u hu
      · exact tailD Gen.cfgUser _ (hU u hu)
  · exact tailD t0 [] (by simp)

/-- getfile() looks the file name up in the user directory, the domain directory and (only when
asked to) the control directory -- nowhere else -/
theorem getfile_evs (env : Env) (ds : Ds) (fn : List Byte) (global : Bool) (t0 : Nat) (hfn : Clean fn) :
    ∀ ev ∈ (getfile env ds fn global t0).evs,
      ev.2 = fn ∧ (ds.userdir = some ev.1 ∨ ds.domaindir = some ev.1 ∨ (global = true ∧ ev.1 = env.controlDir)) := by
  apply getfile_evs_gen
  · intro u hu ev hev
    rw [openat_fn_evs _ _ _ hfn ev hev]; exact ⟨rfl, Or.inl hu⟩
  · intro d hd ev hev
    rw [openat_fn_evs _ _ _ hfn ev hev]; exact ⟨rfl, Or.inr (Or.inl hd)⟩
  · intro hg ev hev
    rw [openat_fn_evs _ _ _ hfn ev hev]; exact ⟨rfl, Or.inr (Or.inr ⟨hg, rfl⟩)⟩


/-! ### the repaired code decides "mailbox exists" -/

theorem dotQmail_eq : dotQmail = Gen.dotqm := rfl
theorem dashDefault_eq : dashDefault = DASH :: Gen.qmDefault := rfl
theorem qmailDefault_eq : qmailDefault = Gen.dotqm ++ Gen.qmDefault := rfl
theorem filetmp_le_pathMax : Gen.filetmpSize ≤ pathMax := by decide
theorem filetmpSize_eq : Gen.filetmpSize = 4096 := rfl

theorem eacces_eq : Gen.sysEACCES = 13 := rfl
theorem enoent_eq : Gen.sysENOENT = 2 := rfl
theorem enotdir_eq : Gen.sysENOTDIR = 20 := rfl
theorem enametoolong_eq : Gen.sysENAMETOOLONG = 36 := rfl
theorem eisdir_eq : Gen.sysEISDIR = 21 := rfl

theorem colons_length (s : List Byte) : (colons s).length = s.length := by simp [colons]

theorem qmName_some (s : List Byte) (dflt : Bool) (h : s.length + 15 < Gen.filetmpSize) :
    qmName (some s) dflt = some (dotQmail ++ colons s ++ (if dflt then dashDefault else [])) := by
  rw [filetmpSize_eq] at h
  unfold qmName
  simp only [dotqm_eq, qmDefault_eq, filetmpSize_eq, List.length_cons, List.length_nil]
  rw [if_neg (by omega)]
  cases dflt with
  | false => simp [dotQmail]
  | true =>
    simp only [if_true]
    rw [if_neg (by omega), if_neg (by omega)]
    simp [dotQmail, dashDefault, DASH]

theorem qmName_none : qmName none true = some qmailDefault := by
  unfold qmName
  simp only [dotqm_eq, qmDefault_eq, filetmpSize_eq]
  decide

/-- the lookups below the domain directory are answered "there", "not there" or "not accessible" -/
def Benign (t : DirTree) (dd : Nat) : Prop := ∀ name e, t.child dd name = .err e → e = EACCES

/-- one probe of the repaired qmexists() for a file name without '/' -/
theorem qmexists_fixed (env : Env) (dd : Nat) (suff : Option (List Byte)) (dflt : Bool) (name : List Byte)
    (hn : qmName suff dflt = some name) (hs : ∀ s, suff = some s → Clean s)
    (hd : env.tree.isDir dd = true) (hb : Benign env.tree dd) :
    (qmexists Cfg.fixed env dd suff dflt).res = (if present (env.tree.child dd name) then 1 else 0) ∧
    (qmexists Cfg.fixed env dd suff dflt).fd = (match env.tree.child dd name with | .node n => some n | _ => none) := by
  obtain ⟨rest, hname, hr⟩ := qmName_shape suff dflt name hs hn
  have hcl : Clean name := hname ▸ clean_append clean_dotqm hr
  have hpl : plainName name = true := hname ▸ plain_of_dotqm rest hr
  rw [plainName_iff] at hpl
  have hlen : name.length < pathMax := by
    have : name.length < Gen.filetmpSize := by
      unfold qmName at hn
      rw [filetmpSize_eq]
      simp only [dotqm_eq, qmDefault_eq, filetmpSize_eq, List.length_cons, List.length_nil] at hn
      split at hn
      · split at hn
        · simp at hn
        · split at hn
          · split at hn
            · simp at hn
            · split at hn
              · simp at hn
              · simp only [Option.some.injEq] at hn; subst hn; simp [colons_length]; omega
          · simp only [Option.some.injEq] at hn; subst hn; simp [colons_length]; omega
      · split at hn
        · split at hn
          · simp at hn
          · simp only [Option.some.injEq] at hn; subst hn; simp
        · simp only [Option.some.injEq] at hn; subst hn; simp
    exact Nat.lt_of_lt_of_le this filetmp_le_pathMax
  unfold qmexists
  rw [hn]
  simp only
  rw [openat_plain env.tree dd name false hcl.2 hcl.1 hpl.1 hlen hd, step_plain _ _ _ hpl.2.2.1 hpl.2.2.2]
  cases hch : env.tree.child dd name with
  | node n => simp [present]
  | err e =>
    have he := hb name e hch
    subst he
    simp [present, Cfg.fixed, EACCES, eacces_eq]
  | absent =>
    by_cases hl : name.length > nameMax
    · simp [present, hl, Cfg.fixed, ENAMETOOLONG, enametoolong_eq]
    · simp [present, hl, Cfg.fixed, ENOENT, enoent_eq]


theorem probeLocal_fixed (env : Env) (dd : Nat) (loc : List Byte) (hloc : Clean loc)
    (hlen : loc.length + 15 < Gen.filetmpSize) (hd : env.tree.isDir dd = true) (hb : Benign env.tree dd) :
    (probeLocal Cfg.fixed env dd loc).res = if dotQmailFile env.tree dd loc then 1 else 0 := by
  have hs : ∀ s, some loc = some s → Clean s := by intro s h; cases h; exact hloc
  have h2 := (qmexists_fixed env dd (some loc) false _ (qmName_some loc false hlen) hs hd hb).1
  have h3 := (qmexists_fixed env dd (some loc) true _ (qmName_some loc true hlen) hs hd hb).1
  simp only [Bool.false_eq_true, if_false, List.append_nil, if_true] at h2 h3
  unfold probeLocal dotQmailFile
  simp only
  by_cases hp2 : present (env.tree.child dd (dotQmail ++ colons loc)) = true
  · rw [if_pos hp2] at h2
    rw [if_neg (by rw [h2]; decide), h2]
    simp [hp2]
  · rw [if_neg hp2] at h2
    rw [if_pos h2]
    simp only [h3]
    simp [hp2]

theorem any_congr_mem {α : Type} {l : List α} {f g : α → Bool} (h : ∀ x ∈ l, f x = g x) : l.any f = l.any g := by
  induction l with
  | nil => rfl
  | cons a as ih =>
    simp only [List.any_cons]
    rw [h a (by simp), ih (fun x hx => h x (List.mem_cons_of_mem _ hx))]

/-- the prefix loop of the repaired code: stops with 1 at the first prefix whose
.qmail-<prefix>-default is there, runs through otherwise -/
theorem prefixLoop_fixed (env : Env) (dd : Nat) (buf : List Byte)
    (hd : env.tree.isDir dd = true) (hb : Benign env.tree dd) :
    ∀ (ps : List Nat) (evs : List Ev),
      (∀ p ∈ ps, Clean (buf.take p) ∧ (buf.take p).length + 15 < Gen.filetmpSize) →
      match (prefixLoop Cfg.fixed env dd buf ps evs).1 with
      | some q => q.res = 1 ∧
          ps.any (fun p => present (env.tree.child dd (dotQmail ++ colons (buf.take p) ++ dashDefault))) = true
      | none => ps.any (fun p => present (env.tree.child dd (dotQmail ++ colons (buf.take p) ++ dashDefault))) = false := by
  intro ps
  induction ps with
  | nil => intro evs _; simp [prefixLoop]
  | cons p ps ih =>
    intro evs h
    have hp := h p (by simp)
    have hs : ∀ s, some (buf.take p) = some s → Clean s := by intro s e; cases e; exact hp.1
    have hq := (qmexists_fixed env dd (some (buf.take p)) true _ (qmName_some _ true hp.2) hs hd hb).1
    simp only [if_true] at hq
    simp only [prefixLoop, List.any_cons]
    by_cases hpr : present (env.tree.child dd (dotQmail ++ colons (buf.take p) ++ dashDefault)) = true
    · rw [if_pos hpr] at hq
      rw [if_pos (by rw [hq]; decide)]
      exact ⟨hq, by rw [hpr]; rfl⟩
    · rw [if_neg hpr] at hq
      rw [if_neg (by rw [hq]; simp)]
      have := ih (evs ++ (qmexists Cfg.fixed env dd (some (buf.take p)) true).evs)
        (fun q hq => h q (List.mem_cons_of_mem _ hq))
      simp only [Bool.not_eq_true] at hpr
      simp only [hpr, Bool.false_or]
      exact this

theorem takeWhile_take {α : Type} (p : α → Bool) (c : List α) : ∀ k, (c.take k).takeWhile p = (c.takeWhile p).take k := by
  induction c with
  | nil => intro k; simp
  | cons a as ih =>
    intro k
    cases k with
    | zero => simp
    | succ k =>
      simp only [List.take_succ_cons, List.takeWhile_cons]
      split
      · simp [ih k]
      · simp

/-- reading at most 2*strlen(vpopbounce) bytes of .qmail-default and comparing C strings is the
same as comparing the whole file, read as a C string, with the configured line -/
theorem bounce_iff (c v : List Byte) (hv : v ≠ []) :
    cstr (c.take (2 * v.length)) = v ↔ cstr c = v := by
  unfold cstr
  rw [takeWhile_take]
  have hl : v.length < 2 * v.length := by
    have : 0 < v.length := List.length_pos_iff.mpr hv
    omega
  constructor
  · intro h
    have hlen : (List.takeWhile (fun x => decide (x ≠ NUL)) c).length < 2 * v.length := by
      apply Classical.byContradiction
      intro hge
      have : (List.take (2 * v.length) (List.takeWhile (fun x => decide (x ≠ NUL)) c)).length = 2 * v.length := by
        rw [List.length_take]; omega
      rw [h] at this
      omega
    rwa [List.take_of_length_le (by omega)] at h
  · intro h
    rw [h, List.take_of_length_le (by omega)]


/-- the catch-all file is a readable regular file, the configured bounce line a non-empty C string -/
structure CatchAllSane (env : Env) (dd : Nat) : Prop where
  file : ∀ n, env.tree.child dd qmailDefault = .node n → env.tree.isDir n = false ∧ env.tree.readErr n = none
  vpb : ∀ v, env.vpopbounce = some v → v ≠ []

theorem catchAllStep_fixed (env : Env) (ds : Ds) (dd : Nat) (pev evs : List Ev)
    (hd : env.tree.isDir dd = true) (hb : Benign env.tree dd) (hc : CatchAllSane env dd) :
    (catchAllStep Cfg.fixed env ds dd pev evs).res = if catchAll env.tree dd env.vpopbounce then 2 else 0 := by
  obtain ⟨hres, hfd⟩ := qmexists_fixed env dd none true qmailDefault qmName_none (by intro s h; cases h) hd hb
  unfold catchAllStep catchAll
  simp only
  cases hch : env.tree.child dd qmailDefault with
  | absent =>
    rw [hch] at hres
    simp only [present, Bool.false_eq_true, if_false] at hres
    rw [if_pos hres]
    simp
  | err e =>
    rw [hch] at hres hfd
    have he := hb _ _ hch
    subst he
    simp only [present, beq_self_eq_true, if_true] at hres
    simp only at hfd
    rw [if_neg (by rw [hres]; decide), if_neg (by rw [hres]; decide), hfd]
    cases env.vpopbounce <;> simp
  | node n =>
    rw [hch] at hres hfd
    simp only [present, if_true] at hres
    simp only at hfd
    obtain ⟨hnd, hre⟩ := hc.file n hch
    rw [if_neg (by rw [hres]; decide), if_neg (by rw [hres]; decide), hfd]
    cases hv : env.vpopbounce with
    | none => simp
    | some v =>
      simp only [readNode, hnd, hre, Bool.false_eq_true, if_false]
      have := bounce_iff (env.tree.content n) v (hc.vpb v hv)
      by_cases hbl : cstr (env.tree.content n) = v
      · rw [if_pos (this.mpr hbl)]
        simp [isBounceLine, hbl]
      · rw [if_neg (fun h => hbl (this.mp h))]
        simp [isBounceLine, hbl]

theorem dashIdx_nil_of_not_mem (loc : List Byte) (h : DASH ∉ loc) : dashIdx 0 loc = [] := by
  apply List.eq_nil_iff_forall_not_mem.mpr
  intro p hp
  obtain ⟨_, _, h3⟩ := dashIdx_spec loc 0 p hp
  exact h (List.mem_of_getElem? h3)

theorem dashPositions_fixed (loc tail : List Byte) : dashPositions Cfg.fixed loc tail = dashIdx 0 loc := by
  unfold dashPositions
  by_cases hd : DASH ∈ loc
  · simp [hd, Cfg.fixed]
  · rw [if_neg hd, dashIdx_nil_of_not_mem loc hd]

theorem afterProbe_fixed (env : Env) (ds : Ds) (dd : Nat) (loc tail : List Byte) (pev ev1 : List Ev)
    (hloc : Clean loc) (hlen : loc.length + 15 < Gen.filetmpSize)
    (hd : env.tree.isDir dd = true) (hb : Benign env.tree dd) (hc : CatchAllSane env dd) :
    (afterProbe Cfg.fixed env ds dd loc tail pev ev1).res =
      if prefixDefault env.tree dd loc then 4 else if catchAll env.tree dd env.vpopbounce then 2 else 0 := by
  have htake : ∀ p ∈ dashIdx 0 loc, (loc ++ tail).take p = loc.take p := by
    intro p hp
    have := dashIdx_spec loc 0 p hp
    exact take_append_of_lt (by omega)
  have hL := prefixLoop_fixed env dd (loc ++ tail) hd hb (dashIdx 0 loc) ev1 (by
    intro p hp
    rw [htake p hp]
    refine ⟨clean_take hloc p, ?_⟩
    have : (loc.take p).length ≤ loc.length := by rw [List.length_take]; omega
    omega)
  have hany : (dashIdx 0 loc).any (fun p => present (env.tree.child dd (dotQmail ++ colons ((loc ++ tail).take p) ++ dashDefault)))
      = prefixDefault env.tree dd loc := by
    unfold prefixDefault
    apply any_congr_mem
    intro p hp
    rw [htake p hp]
  rw [hany] at hL
  unfold afterProbe
  rw [dashPositions_fixed]
  split
  · rename_i qp ev2 heq
    rw [heq] at hL
    simp only at hL
    rw [if_pos (by rw [hL.1]; decide), if_pos hL.2]
  · rename_i ev2 heq
    rw [heq] at hL
    simp only at hL
    rw [catchAllStep_fixed env ds dd pev ev2 hd hb hc]
    simp [hL]

/-- the repaired user_exists() behind the successful open of the domain directory -/
theorem inDomain_fixed (env : Env) (ds : Ds) (dd : Nat) (loc tail : List Byte) (pev : List Ev)
    (hloc : Clean loc) (hdot : loc ≠ [DOT] ∧ loc ≠ [DOT, DOT]) (hne : loc ≠ [])
    (hlen : loc.length + 15 < Gen.filetmpSize)
    (hd : env.tree.isDir dd = true) (hb : Benign env.tree dd) (hc : CatchAllSane env dd)
    (hnoerr : ∀ e, env.tree.child dd loc ≠ .err e) :
    (inDomain Cfg.fixed env ds dd loc tail pev).res =
      if userDir env.tree dd loc then 1
      else if dotQmailFile env.tree dd loc then 1
      else if prefixDefault env.tree dd loc then 4
      else if catchAll env.tree dd env.vpopbounce then 2 else 0 := by
  have hlen' : loc.length < pathMax := by
    have := filetmp_le_pathMax
    omega
  have rest : ∀ (dsx : Ds) (ev1 : List Ev),
      (if (probeLocal Cfg.fixed env dd loc).res > 0 then (⟨1, dsx, pev, ev1, (probeLocal Cfg.fixed env dd loc).ec⟩ : Out)
       else if (probeLocal Cfg.fixed env dd loc).res < 0 then
        ⟨(probeLocal Cfg.fixed env dd loc).res, Ds.init, pev, ev1, (probeLocal Cfg.fixed env dd loc).ec⟩
       else afterProbe Cfg.fixed env dsx dd loc tail pev ev1).res =
      if dotQmailFile env.tree dd loc then 1
      else if prefixDefault env.tree dd loc then 4
      else if catchAll env.tree dd env.vpopbounce then 2 else 0 := by
    intro dsx ev1
    rw [probeLocal_fixed env dd loc hloc hlen hd hb]
    by_cases hq : dotQmailFile env.tree dd loc = true
    · simp [hq]
    · simp only [hq, Bool.false_eq_true, if_false]
      rw [if_neg (by decide), if_neg (by decide)]
      exact afterProbe_fixed env dsx dd loc tail pev ev1 hloc hlen hd hb hc
  unfold inDomain
  simp only
  rw [openat_plain env.tree dd loc true hloc.2 hloc.1 hne hlen' hd, step_plain _ _ _ hdot.1 hdot.2]
  unfold userDir
  cases hch : env.tree.child dd loc with
  | err e => exact absurd hch (hnoerr e)
  | node n =>
    simp only
    have h1 : ¬ (ENOTDIR ∉ Cfg.fixed.userSoft) := by simp [Cfg.fixed, ENOTDIR, enotdir_eq]
    have h2 : ¬ (ENOTDIR = EACCES) := by simp [ENOTDIR, EACCES, enotdir_eq, eacces_eq]
    by_cases hdn : env.tree.isDir n = true
    · rw [if_neg (by simp [hdn]), if_pos hdn]
    · have hf : env.tree.isDir n = false := by simpa using hdn
      rw [if_pos ⟨trivial, hf⟩, if_neg hdn]
      simp only
      rw [if_neg h1, if_neg h2]
      exact rest _ _
  | absent =>
    simp only [Bool.false_eq_true, if_false]
    by_cases hl : loc.length > nameMax
    · rw [if_pos hl]
      have h1 : ¬ (ENAMETOOLONG ∉ Cfg.fixed.userSoft) := by simp [Cfg.fixed, ENAMETOOLONG, enametoolong_eq]
      have h2 : ¬ (ENAMETOOLONG = EACCES) := by simp [ENAMETOOLONG, EACCES, enametoolong_eq, eacces_eq]
      rw [if_neg h1, if_neg h2]
      exact rest _ _
    · rw [if_neg hl]
      have h1 : ¬ (ENOENT ∉ Cfg.fixed.userSoft) := by simp [Cfg.fixed, ENOENT, enoent_eq]
      have h2 : ¬ (ENOENT = EACCES) := by simp [ENOENT, EACCES, enoent_eq, eacces_eq]
      rw [if_neg h1, if_neg h2]
      exact rest _ _


/-- the ladder of user_exists() results over the five forms of the specification -/
def ladder (t : DirTree) (dd : Nat) (vpb : Option (List Byte)) (loc : List Byte) : Int :=
  if userDir t dd loc then 1
  else if dotQmailFile t dd loc then 1
  else if prefixDefault t dd loc then 4
  else if catchAll t dd vpb then 2 else 0

theorem userExists_fixed (env : Env) (ds0 : Ds) (loc tail domain : List Byte) (dd : Nat)
    (hfound : (vgetDir Cfg.fixed env ds0 domain).res = 1)
    (hopens : (openat env.tree env.cwd (vgetDir Cfg.fixed env ds0 domain).ds.domainpath true).1 = .ok dd)
    (hne : loc ≠ []) (hnul : NUL ∉ loc) (hlen : loc.length + 15 < Gen.filetmpSize)
    (hb : Benign env.tree dd) (hnoerr : ∀ e, env.tree.child dd loc ≠ .err e) (hc : CatchAllSane env dd) :
    (userExists Cfg.fixed env ds0 loc tail domain).res =
      if plainName loc then ladder env.tree dd env.vpopbounce loc else 0 := by
  have hd := openat_dir_isDir _ _ _ _ hopens
  unfold userExists
  by_cases hsl : SLASH ∈ loc
  · rw [if_pos hsl]
    have : plainName loc = false := by simp [plainName, hsl]
    simp [this]
  rw [if_neg hsl]
  by_cases hdn : isDotName loc = true
  · rw [if_pos ⟨rfl, hdn⟩]
    have : plainName loc = false := by
      rcases (isDotName_iff loc).mp hdn with h | h <;> simp [plainName, h]
    simp [this]
  rw [if_neg (fun h => hdn h.2)]
  have hdot : loc ≠ [DOT] ∧ loc ≠ [DOT, DOT] := by
    rw [isDotName_iff] at hdn
    exact ⟨fun h => hdn (Or.inl h), fun h => hdn (Or.inr h)⟩
  have hpl : plainName loc = true := (plainName_iff loc).mpr ⟨hne, hsl, hdot.1, hdot.2⟩
  simp only
  rw [if_neg (by rw [hfound]; decide), if_neg (by rw [hfound]; decide), hopens]
  simp only
  rw [inDomain_fixed env _ dd loc tail _ ⟨hsl, hnul⟩ hdot hne hlen hd hb hc hnoerr, hpl]
  simp [ladder]

end QsmtpModel.Vpop
