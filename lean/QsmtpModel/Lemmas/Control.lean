/-
Helper lemmas for C16: the loaders of lib/control.c (lloadfilefd, compact_buffer, loadintfd,
loadonelinerfd, loadlistfd) against the reference reading `Spec.listLines` / `Spec.intMeaning`.
-/
import QsmtpModel.Control
import QsmtpModel.Spec.Control

namespace QsmtpModel.Lemmas
open QsmtpModel QsmtpModel.Control

/-! ### generated constants (the proof obligations that re-check when the source changes) -/

theorem loadintStriptab_eq : Gen.loadintStriptab = 3 := rfl
theorem onelinerStriptab_eq : Gen.onelinerStriptab = 1 := rfl
theorem loadlistStriptab_eq : Gen.loadlistStriptab = 3 := rfl
theorem lloadBlankBit_eq : Gen.lloadBlankBit = 2 := rfl
theorem lloadCompactBit_eq : Gen.lloadCompactBit = 1 := rfl
theorem loadintBase_eq : Gen.loadintBase = 10 := rfl

/-! ### splitting -/

theorem splitAt_ne_nil (p : Byte → Bool) (l : List Byte) : Spec.splitAt p l ≠ [] := by
  induction l with
  | nil => simp [Spec.splitAt]
  | cons b tl ih =>
    unfold Spec.splitAt
    split
    · simp
    · split <;> simp

theorem splitAt_cons (p : Byte → Bool) (b : Byte) (tl : List Byte) :
    Spec.splitAt p (b :: tl) =
      if p b then [] :: Spec.splitAt p tl
      else ((b :: (Spec.splitAt p tl).headD []) :: (Spec.splitAt p tl).tail) := by
  rw [Spec.splitAt]
  split
  · rename_i h; exact absurd h (splitAt_ne_nil p tl)
  · rename_i cur more h
    rw [h]; split <;> simp

theorem splitAt_nosep (p : Byte → Bool) (l : List Byte) (h : ∀ b ∈ l, p b = false) :
    Spec.splitAt p l = [l] := by
  induction l with
  | nil => simp [Spec.splitAt]
  | cons b tl ih =>
    rw [splitAt_cons, ih (fun x hx => h x (List.mem_cons_of_mem _ hx))]
    simp [h b (List.mem_cons_self ..)]

theorem splitAt_append_sep (p : Byte → Bool) (l : List Byte) (s : Byte) (r : List Byte)
    (h : ∀ b ∈ l, p b = false) (hs : p s = true) :
    Spec.splitAt p (l ++ s :: r) = l :: Spec.splitAt p r := by
  induction l with
  | nil => simp [splitAt_cons, hs]
  | cons b tl ih =>
    rw [List.cons_append, splitAt_cons, ih (fun x hx => h x (List.mem_cons_of_mem _ hx))]
    simp [h b (List.mem_cons_self ..)]

/-- every list is a separator-free line, or such a line followed by a separator and a remainder -/
theorem first_line (p : Byte → Bool) (c : List Byte) :
    (∀ b ∈ c, p b = false) ∨
    ∃ l s r, c = l ++ s :: r ∧ (∀ b ∈ l, p b = false) ∧ p s = true := by
  induction c with
  | nil => left; simp
  | cons b tl ih =>
    by_cases hb : p b = true
    · right; exact ⟨[], b, tl, rfl, by simp, hb⟩
    · have hb' : p b = false := by simpa using hb
      rcases ih with h | ⟨l, s, r, rfl, hl, hs⟩
      · left; intro x hx
        rcases List.mem_cons.mp hx with rfl | hx
        · exact hb'
        · exact h x hx
      · right
        refine ⟨b :: l, s, r, rfl, ?_, hs⟩
        intro x hx
        rcases List.mem_cons.mp hx with rfl | hx
        · exact hb'
        · exact hl x hx

/-! ### NUL separated segments of an edited buffer -/

def zeros (k : Nat) : List Byte := List.replicate k 0

/-- the non-empty maximal NUL-free pieces of a buffer: the C strings compact_buffer() keeps -/
def segs (x : List Byte) : List (List Byte) := (Spec.splitAt (· == 0) x).filter (· ≠ [])

/-- the compacted buffer: every string followed by its terminator -/
def flattenZ (ss : List (List Byte)) : List Byte := ss.flatMap (· ++ [0])

theorem segs_nil : segs [] = [] := by simp [segs, Spec.splitAt]

theorem segs_zero_cons (x : List Byte) : segs (0 :: x) = segs x := by
  simp [segs, splitAt_cons]

theorem segs_zeros_append (k : Nat) (x : List Byte) : segs (zeros k ++ x) = segs x := by
  induction k with
  | zero => simp [zeros]
  | succ k ih =>
    have : zeros (k + 1) ++ x = 0 :: (zeros k ++ x) := by simp [zeros, List.replicate_succ]
    rw [this, segs_zero_cons, ih]

theorem nosep_of_nonul (s : List Byte) (h : (0 : Byte) ∉ s) : ∀ b ∈ s, (b == (0 : Byte)) = false := by
  intro b hb
  simp only [beq_eq_false_iff_ne, ne_eq]
  rintro rfl
  exact h hb

theorem segs_seg_cons (s x : List Byte) (hs : s ≠ []) (h0 : (0 : Byte) ∉ s) :
    segs (s ++ 0 :: x) = s :: segs x := by
  unfold segs
  rw [splitAt_append_sep (· == 0) s 0 x (nosep_of_nonul s h0) (by simp)]
  simp [hs]

theorem segs_single (s : List Byte) (hs : s ≠ []) (h0 : (0 : Byte) ∉ s) : segs s = [s] := by
  unfold segs
  rw [splitAt_nosep (· == 0) s (nosep_of_nonul s h0)]
  simp [hs]

theorem segs_nonempty_mem (x : List Byte) : ∀ s ∈ segs x, s ≠ [] := by
  intro s hs
  simp only [segs, List.mem_filter, decide_eq_true_eq] at hs
  exact hs.2


/-! ### the editing loop of lloadfilefd, one line at a time -/

/-- already edited bytes in front of a scan result -/
def prepend (o : List Byte) : ScanR → ScanR
  | .ok (some l) => .ok (some (o ++ l))
  | r => r

theorem emit_eq_prepend (b : Byte) (r : ScanR) : emit b r = prepend [b] r := by
  unfold emit prepend
  split <;> simp_all

theorem prepend_nil (r : ScanR) : prepend [] r = r := by
  unfold prepend; split <;> simp

theorem prepend_prepend (a b : List Byte) (r : ScanR) : prepend a (prepend b r) = prepend (a ++ b) r := by
  cases r with
  | error f => rfl
  | ok o => cases o <;> simp [prepend]

theorem emit_prepend (b : Byte) (o : List Byte) (r : ScanR) : emit b (prepend o r) = prepend (b :: o) r := by
  rw [emit_eq_prepend, prepend_prepend]; rfl

def isSep (b : Byte) : Bool := b == LF || b == 0

/-- what happens at the separator that ends a line (the same in all three modes): the bound stops
the loop, or the separator becomes a NUL and the next line starts -/
def cont (n' : Nat) (s : Byte) (rest : List Byte) : ScanR :=
  match n' with
  | 0 => .ok (some (s :: rest))
  | n + 1 => emit 0 (scan true .normal false n rest)

/-- the editing of one separator-free line, by mode (striptab & 2 set) -/
def lineScan : Mode → Bool → List Byte → Option (List Byte)
  | _, _, [] => some []
  | .normal, esc, b :: tl =>
    if b = HASH ∧ esc = false then (lineScan .comment false tl).map (0 :: ·)
    else if isBlank b = true then (lineScan .blanks false tl).map (0 :: ·)
    else (lineScan .normal (b == BSLASH) tl).map (b :: ·)
  | .comment, _, _ :: tl => (lineScan .comment false tl).map (0 :: ·)
  | .blanks, _, b :: tl => if isBlank b = true then (lineScan .blanks false tl).map (0 :: ·) else none

theorem sep_not_blank (s : Byte) (hs : isSep s = true) : isBlank s = false := by
  simp only [isSep, Bool.or_eq_true, beq_iff_eq] at hs
  rcases hs with rfl | rfl <;> decide

theorem sep_not_hash (s : Byte) (hs : isSep s = true) : s ≠ HASH := by
  simp only [isSep, Bool.or_eq_true, beq_iff_eq] at hs
  rcases hs with rfl | rfl <;> decide

theorem sep_cases (s : Byte) (hs : isSep s = true) : s = LF ∨ s = 0 := by
  simpa [isSep] using hs

theorem not_sep (b : Byte) (h : isSep b = false) : b ≠ LF ∧ b ≠ 0 := by
  simpa [isSep] using h

/-- at the separator, in any mode -/
theorem scan_at_sep (mode : Mode) (esc : Bool) (n' : Nat) (s : Byte) (rest : List Byte) (hs : isSep s = true) :
    scan true mode esc n' (s :: rest) = cont n' s rest := by
  have hb := sep_not_blank s hs
  have hh := sep_not_hash s hs
  cases mode with
  | normal =>
    cases n' with
    | zero => simp [scan, cont]
    | succ n =>
      have h1 : ¬ (s = HASH ∧ esc = false) := fun h => hh h.1
      have h2 : ¬ (true = true ∧ isBlank s = true) := by simp [hb]
      rw [scan, if_neg h1, if_neg h2, cont]
      rcases sep_cases s hs with rfl | rfl
      · rw [if_pos rfl]
      · have h3 : ¬ ((0 : Byte) = LF) := by decide
        have h4 : ((0 : Byte) == BSLASH) = false := by decide
        rw [if_neg h3, h4]
  | comment =>
    rcases sep_cases s hs with rfl | rfl
    · cases n' <;> simp [scan, cont]
    · cases n' <;> simp [scan, cont]
  | blanks =>
    rcases sep_cases s hs with rfl | rfl
    · cases n' <;> simp [scan, cont, hb]
    · cases n' <;> simp [scan, cont, hb]

theorem prepend_map_cons (b : Byte) (o : Option (List Byte)) (k : ScanR) :
    (match o.map (b :: ·) with | none => (.ok none : ScanR) | some o => prepend o k)
      = emit b (match o with | none => (.ok none : ScanR) | some o => prepend o k) := by
  cases o with
  | none => simp [emit]
  | some o => simp [emit_prepend]

/-- **one line**: the loop run over a separator-free line `l` followed by a separator -/
theorem scan_line (l : List Byte) (hl : ∀ b ∈ l, isSep b = false) :
    ∀ (mode : Mode) (esc : Bool) (n' : Nat) (s : Byte) (rest : List Byte), isSep s = true →
    scan true mode esc (l.length + n') (l ++ s :: rest) =
      match lineScan mode esc l with
      | none => .ok none
      | some o => prepend o (cont n' s rest) := by
  induction l with
  | nil =>
    intro mode esc n' s rest hs
    simp only [List.length_nil, Nat.zero_add, List.nil_append, lineScan, prepend_nil]
    exact scan_at_sep mode esc n' s rest hs
  | cons b tl ih =>
    intro mode esc n' s rest hs
    have hb := not_sep b (hl b (List.mem_cons_self ..))
    have htl : ∀ x ∈ tl, isSep x = false := fun x hx => hl x (List.mem_cons_of_mem _ hx)
    have hlen : (b :: tl).length + n' = (tl.length + n') + 1 := by simp; omega
    rw [hlen, List.cons_append]
    cases mode with
    | normal =>
      rw [scan, lineScan]
      by_cases h1 : b = HASH ∧ esc = false
      · rw [if_pos h1, if_pos h1, ih htl .comment false n' s rest hs, prepend_map_cons]
      · rw [if_neg h1, if_neg h1]
        by_cases h2 : isBlank b = true
        · rw [if_pos ⟨rfl, h2⟩, if_pos h2, ih htl .blanks false n' s rest hs, prepend_map_cons]
        · have h2' : ¬ (true = true ∧ isBlank b = true) := fun h => h2 h.2
          rw [if_neg h2', if_neg h2, if_neg hb.1, ih htl .normal (b == BSLASH) n' s rest hs, prepend_map_cons]
    | comment =>
      rw [scan, lineScan, if_pos ⟨hb.2, hb.1⟩, Nat.succ_sub_one, ih htl .comment false n' s rest hs,
        prepend_map_cons]
    | blanks =>
      rw [scan, lineScan]
      by_cases h2 : isBlank b = true
      · rw [if_pos h2, if_pos h2, Nat.succ_sub_one, ih htl .blanks false n' s rest hs, prepend_map_cons]
      · rw [if_neg h2, if_neg h2, if_pos ⟨hb.2, hb.1⟩]

/-! ### one line against `Spec.lineEntry` -/

theorem blank_eq (b : Byte) : Spec.blank b = isBlank b := rfl

theorem dropWhile_nil_iff (p : Byte → Bool) (l : List Byte) : l.dropWhile p = [] ↔ ∀ x ∈ l, p x = true := by
  induction l with
  | nil => simp
  | cons b tl ih =>
    by_cases hb : p b = true
    · simp [hb, ih]
    · simp [hb]

theorem lineScan_comment (esc : Bool) (l : List Byte) : lineScan .comment esc l = some (zeros l.length) := by
  induction l generalizing esc with
  | nil => simp [lineScan, zeros]
  | cons b tl ih => simp [lineScan, ih, zeros, List.replicate_succ]

theorem lineScan_blanks (esc : Bool) (l : List Byte) :
    lineScan .blanks esc l = if l.all isBlank then some (zeros l.length) else none := by
  induction l generalizing esc with
  | nil => simp [lineScan, zeros]
  | cons b tl ih =>
    rw [lineScan]
    by_cases hb : isBlank b = true
    · rw [if_pos hb, ih]
      by_cases ht : tl.all isBlank = true
      · simp [hb, ht, zeros, List.replicate_succ]
      · simp [hb, ht]
    · simp [hb]

theorem stripTrail_all_blank (l : List Byte) (h : l.all Spec.blank = true) : Spec.stripTrail l = [] := by
  unfold Spec.stripTrail
  have : l.reverse.dropWhile Spec.blank = [] := by
    rw [dropWhile_nil_iff]
    intro x hx
    exact List.all_eq_true.mp h x (List.mem_reverse.mp hx)
  rw [this]; rfl

theorem stripTrail_cons_of_not_all (b : Byte) (l : List Byte) (h : ¬ l.all Spec.blank = true) :
    Spec.stripTrail (b :: l) = b :: Spec.stripTrail l := by
  unfold Spec.stripTrail
  rw [List.reverse_cons, List.dropWhile_append]
  have hne : ¬ (l.reverse.dropWhile Spec.blank).isEmpty = true := by
    intro he
    apply h
    rw [List.isEmpty_iff, dropWhile_nil_iff] at he
    exact List.all_eq_true.mpr fun x hx => he x (List.mem_reverse.mpr hx)
  rw [if_neg hne]
  simp

theorem stripTrail_cons_nonblank (b : Byte) (l : List Byte) (hb : Spec.blank b = false) :
    Spec.stripTrail (b :: l) = b :: Spec.stripTrail l := by
  by_cases h : l.all Spec.blank = true
  · rw [stripTrail_all_blank l h]
    unfold Spec.stripTrail
    rw [List.reverse_cons, List.dropWhile_append]
    have he : (l.reverse.dropWhile Spec.blank).isEmpty = true := by
      rw [List.isEmpty_iff, dropWhile_nil_iff]
      intro x hx
      exact List.all_eq_true.mp h x (List.mem_reverse.mp hx)
    rw [if_pos he]
    simp [List.dropWhile, hb]
  · exact stripTrail_cons_of_not_all b l h

theorem stripTrail_length_le (l : List Byte) : (Spec.stripTrail l).length ≤ l.length := by
  unfold Spec.stripTrail
  rw [List.length_reverse]
  calc (l.reverse.dropWhile Spec.blank).length ≤ l.reverse.length := (List.dropWhile_sublist _).length_le
    _ = l.length := List.length_reverse

/-- the entry of a line when the scan is entered with escape state `esc` -/
def entryOf (esc : Bool) (l : List Byte) : Option (List Byte) :=
  let r := Spec.cutComment esc l
  let e := Spec.stripTrail r.1
  if e.any Spec.blank || (r.2 && decide (e.length < r.1.length)) then none else some e

theorem lineEntry_eq (l : List Byte) : Spec.lineEntry l = entryOf false l := by
  unfold Spec.lineEntry entryOf
  cases h : Spec.cutComment false l with
  | mk body hc => simp

theorem cutComment_cons (esc : Bool) (b : Byte) (tl : List Byte) :
    Spec.cutComment esc (b :: tl) =
      if (b == 35 && !esc) = true then ([], true)
      else (b :: (Spec.cutComment (b == 92) tl).1, (Spec.cutComment (b == 92) tl).2) := by
  rw [Spec.cutComment]

theorem cutComment_prefix (esc : Bool) (l : List Byte) :
    (Spec.cutComment esc l).1.length ≤ l.length ∧
    ((Spec.cutComment esc l).2 = false → (Spec.cutComment esc l).1 = l) := by
  induction l generalizing esc with
  | nil => simp [Spec.cutComment]
  | cons b tl ih =>
    rw [cutComment_cons]
    split
    · simp
    · have := ih (b == 92)
      constructor
      · simp; exact this.1
      · intro h; simp at h ⊢; exact this.2 h

theorem cutComment_all_blank (esc : Bool) (l : List Byte) (h : l.all isBlank = true) :
    Spec.cutComment esc l = (l, false) := by
  induction l generalizing esc with
  | nil => simp [Spec.cutComment]
  | cons b tl ih =>
    simp only [List.all_cons, Bool.and_eq_true] at h
    have hb : ¬ ((b == 35 && !esc) = true) := by
      intro hc
      simp only [Bool.and_eq_true, beq_iff_eq] at hc
      have := h.1; rw [hc.1] at this; revert this; decide
    rw [cutComment_cons, if_neg hb, ih _ h.2]

theorem lineScan_normal (l : List Byte) : ∀ esc,
    lineScan .normal esc l = (entryOf esc l).map fun e => e ++ zeros (l.length - e.length) := by
  induction l with
  | nil => intro esc; simp [lineScan, entryOf, Spec.cutComment, Spec.stripTrail, zeros]
  | cons b tl ih =>
    intro esc
    rw [lineScan]
    by_cases h1 : b = HASH ∧ esc = false
    · -- comment starts here
      rw [if_pos h1, lineScan_comment]
      have hc : (b == 35 && !esc) = true := by
        obtain ⟨rfl, rfl⟩ := h1; decide
      simp [entryOf, cutComment_cons, hc, Spec.stripTrail, zeros, List.replicate_succ]
    · rw [if_neg h1]
      have hc : ¬ ((b == 35 && !esc) = true) := by
        intro hc
        simp only [Bool.and_eq_true, beq_iff_eq, Bool.not_eq_true'] at hc
        exact h1 ⟨by rw [hc.1]; rfl, hc.2⟩
      by_cases h2 : isBlank b = true
      · -- a blank: only blanks may follow up to the end of the line
        rw [if_pos h2, lineScan_blanks]
        have hb92 : (b == 92) = false := by
          cases hx : (b == 92) with
          | false => rfl
          | true => rw [beq_iff_eq] at hx; rw [hx] at h2; revert h2; decide
        by_cases ht : tl.all isBlank = true
        · rw [if_pos ht]
          have hall : (b :: tl).all Spec.blank = true := by
            simp only [List.all_cons, Bool.and_eq_true]; exact ⟨h2, ht⟩
          simp only [entryOf, cutComment_cons, if_neg hc, hb92, cutComment_all_blank false tl ht,
            stripTrail_all_blank _ hall]
          simp [zeros, List.replicate_succ]
        · rw [if_neg ht]
          simp only [entryOf, cutComment_cons, if_neg hc, hb92, Option.map_none]
          have hp := cutComment_prefix false tl
          by_cases hbody : (Spec.cutComment false tl).1.all Spec.blank = true
          · -- blanks up to a comment
            have hcm : (Spec.cutComment false tl).2 = true := by
              cases h2' : (Spec.cutComment false tl).2 with
              | true => rfl
              | false =>
                exfalso; apply ht
                rw [← hp.2 h2']; exact hbody
            have hall : (b :: (Spec.cutComment false tl).1).all Spec.blank = true := by
              simp only [List.all_cons, Bool.and_eq_true]; exact ⟨h2, hbody⟩
            rw [stripTrail_all_blank _ hall, hcm]
            simp
          · rw [stripTrail_cons_of_not_all b _ hbody]
            have : Spec.blank b = true := h2
            simp [this]
      · -- an ordinary byte
        rw [if_neg h2, ih (b == BSLASH)]
        have h2' : Spec.blank b = false := by simpa [blank_eq] using h2
        have hbs : (b == BSLASH) = (b == 92) := rfl
        simp only [entryOf, cutComment_cons, if_neg hc, hbs, stripTrail_cons_nonblank b _ h2']
        have hle := stripTrail_length_le (Spec.cutComment (b == 92) tl).1
        have hpl := (cutComment_prefix (b == 92) tl).1
        by_cases hbad : ((Spec.stripTrail (Spec.cutComment (b == 92) tl).1).any Spec.blank
            || ((Spec.cutComment (b == 92) tl).2 &&
              decide ((Spec.stripTrail (Spec.cutComment (b == 92) tl).1).length < (Spec.cutComment (b == 92) tl).1.length))) = true
        · have : (((b :: Spec.stripTrail (Spec.cutComment (b == 92) tl).1).any Spec.blank
              || ((Spec.cutComment (b == 92) tl).2 &&
                decide ((b :: Spec.stripTrail (Spec.cutComment (b == 92) tl).1).length < (b :: (Spec.cutComment (b == 92) tl).1).length))) = true) := by
            simp only [List.any_cons, h2', Bool.false_or, List.length_cons, Nat.add_lt_add_iff_right]
            exact hbad
          rw [if_pos hbad, if_pos this]; rfl
        · have : ¬ (((b :: Spec.stripTrail (Spec.cutComment (b == 92) tl).1).any Spec.blank
              || ((Spec.cutComment (b == 92) tl).2 &&
                decide ((b :: Spec.stripTrail (Spec.cutComment (b == 92) tl).1).length < (b :: (Spec.cutComment (b == 92) tl).1).length))) = true) := by
            simp only [List.any_cons, h2', Bool.false_or, List.length_cons, Nat.add_lt_add_iff_right]
            exact hbad
          rw [if_neg hbad, if_neg this]
          simp only [Option.map_some, List.length_cons, List.cons_append]
          rw [Nat.add_sub_add_right]

/-! ### the whole file -/

theorem splitAt_append_sep' (p : Byte → Bool) (x : List Byte) (s : Byte) (y : List Byte) (hs : p s = true) :
    Spec.splitAt p (x ++ s :: y) = Spec.splitAt p x ++ Spec.splitAt p y := by
  induction x with
  | nil => simp [splitAt_cons, hs, Spec.splitAt]
  | cons b tl ih =>
    rw [List.cons_append, splitAt_cons, splitAt_cons, ih]
    by_cases hb : p b = true
    · simp [hb]
    · have hne := splitAt_ne_nil p tl
      cases h : Spec.splitAt p tl with
      | nil => exact absurd h hne
      | cons a as => simp [hb]

theorem segs_append_zero (x y : List Byte) : segs (x ++ 0 :: y) = segs x ++ segs y := by
  unfold segs
  rw [splitAt_append_sep' (· == 0) x 0 y (by simp), List.filter_append]

theorem segs_zeros (k : Nat) : segs (zeros k) = [] := by
  have := segs_zeros_append k []
  rw [List.append_nil] at this
  rw [this, segs_nil]

theorem segs_entry_zeros (e : List Byte) (k : Nat) (h0 : (0 : Byte) ∉ e) :
    segs (e ++ zeros k) = if e = [] then [] else [e] := by
  cases k with
  | zero =>
    simp only [zeros, List.replicate_zero, List.append_nil]
    by_cases he : e = []
    · simp [he, segs_nil]
    · rw [if_neg he, segs_single e he h0]
  | succ k =>
    have : e ++ zeros (k + 1) = e ++ 0 :: zeros k := by simp [zeros, List.replicate_succ]
    rw [this, segs_append_zero, segs_zeros, List.append_nil]
    by_cases he : e = []
    · simp [he, segs_nil]
    · rw [if_neg he, segs_single e he h0]

theorem stripTrail_subset (l : List Byte) : ∀ b ∈ Spec.stripTrail l, b ∈ l := by
  intro b hb
  unfold Spec.stripTrail at hb
  rw [List.mem_reverse] at hb
  exact List.mem_reverse.mp ((List.dropWhile_sublist _).subset hb)

theorem cutComment_subset (esc : Bool) (l : List Byte) : ∀ b ∈ (Spec.cutComment esc l).1, b ∈ l := by
  induction l generalizing esc with
  | nil => simp [Spec.cutComment]
  | cons a tl ih =>
    rw [cutComment_cons]
    split
    · simp
    · intro b hb
      simp only [List.mem_cons] at hb ⊢
      rcases hb with rfl | hb
      · left; rfl
      · right; exact ih _ b hb

theorem entryOf_subset (esc : Bool) (l e : List Byte) (h : entryOf esc l = some e) : ∀ b ∈ e, b ∈ l := by
  unfold entryOf at h
  simp only at h
  split at h
  · simp at h
  · injection h with h
    subst h
    intro b hb
    exact cutComment_subset esc l b (stripTrail_subset _ b hb)

/-- the entries of a list of lines, empty ones dropped; `none` if a line is malformed -/
def entriesOf : List (List Byte) → Option (List (List Byte))
  | [] => some []
  | l :: ls =>
    match Spec.lineEntry l, entriesOf ls with
    | some e, some es => some (if e = [] then es else e :: es)
    | _, _ => none

theorem mapM_filter_eq (ls : List (List Byte)) :
    (ls.mapM Spec.lineEntry).map (·.filter (· ≠ [])) = entriesOf ls := by
  induction ls with
  | nil => simp [entriesOf]
  | cons l ls ih =>
    rw [List.mapM_cons, entriesOf, ← ih]
    cases h1 : Spec.lineEntry l with
    | none => simp
    | some e =>
      cases h2 : ls.mapM Spec.lineEntry with
      | none => simp
      | some es =>
        by_cases he : e = []
        · simp [he]
        · simp [he]

theorem listLines_eq (c : List Byte) : Spec.listLines c = entriesOf (Spec.splitAt isSep c) := by
  unfold Spec.listLines
  exact mapM_filter_eq _

theorem sepfree_nonul (l : List Byte) (hl : ∀ b ∈ l, isSep b = false) : (0 : Byte) ∉ l := by
  intro h
  have := hl 0 h
  revert this; decide

/-- the line lemma in terms of the specification -/
theorem scan_line_spec (l : List Byte) (hl : ∀ b ∈ l, isSep b = false)
    (n' : Nat) (s : Byte) (rest : List Byte) (hs : isSep s = true) :
    (Spec.lineEntry l = none → scan true .normal false (l.length + n') (l ++ s :: rest) = .ok none) ∧
    (∀ e, Spec.lineEntry l = some e → ∃ x, x.length = l.length ∧ segs x = (if e = [] then [] else [e]) ∧
      scan true .normal false (l.length + n') (l ++ s :: rest) = prepend x (cont n' s rest)) := by
  have h := scan_line l hl .normal false n' s rest hs
  rw [lineScan_normal, ← lineEntry_eq] at h
  constructor
  · intro hn; rw [h, hn]; rfl
  · intro e he
    rw [he] at h
    have hsub := entryOf_subset false l e (by rw [← lineEntry_eq]; exact he)
    have hlen : e.length ≤ l.length := by
      rw [lineEntry_eq] at he
      unfold entryOf at he
      simp only at he
      split at he
      · simp at he
      · injection he with he
        subst he
        exact Nat.le_trans (stripTrail_length_le _) (cutComment_prefix false l).1
    refine ⟨e ++ zeros (l.length - e.length), ?_, ?_, h⟩
    · simp [zeros]; omega
    · exact segs_entry_zeros e _ (fun h0 => sepfree_nonul l hl (hsub 0 h0))

theorem prepend_ok_none (x : List Byte) : prepend x (.ok none) = .ok none := rfl

theorem scan_file_single (c : List Byte) (hfree : ∀ b ∈ c, isSep b = false)
    (n' : Nat) (s : Byte) (rest : List Byte) (hs : isSep s = true) :
    (entriesOf (Spec.splitAt isSep c) = none →
      scan true .normal false (c.length + n') (c ++ s :: rest) = .ok none) ∧
    (∀ es, entriesOf (Spec.splitAt isSep c) = some es → ∃ x, x.length = c.length ∧ segs x = es ∧
      scan true .normal false (c.length + n') (c ++ s :: rest) = prepend x (cont n' s rest)) := by
  have := scan_line_spec c hfree n' s rest hs
  rw [splitAt_nosep isSep c hfree]
  simp only [entriesOf]
  constructor
  · intro hn
    cases he : Spec.lineEntry c with
    | none => exact this.1 he
    | some e => rw [he] at hn; simp at hn
  · intro es hes
    cases he : Spec.lineEntry c with
    | none => rw [he] at hes; simp at hes
    | some e =>
      rw [he] at hes
      simp only [Option.some.injEq] at hes
      subst hes
      obtain ⟨x, hx1, hx2, hx3⟩ := this.2 e he
      exact ⟨x, hx1, by rw [hx2], hx3⟩

/-- **the whole file**: the editing loop run over `c` followed by a separator -/
theorem scan_file : ∀ (k : Nat) (c : List Byte), c.length ≤ k →
    ∀ (n' : Nat) (s : Byte) (rest : List Byte), isSep s = true →
    (entriesOf (Spec.splitAt isSep c) = none →
      scan true .normal false (c.length + n') (c ++ s :: rest) = .ok none) ∧
    (∀ es, entriesOf (Spec.splitAt isSep c) = some es → ∃ x, x.length = c.length ∧ segs x = es ∧
      scan true .normal false (c.length + n') (c ++ s :: rest) = prepend x (cont n' s rest)) := by
  intro k
  induction k with
  | zero =>
    intro c hc n' s rest hs
    have : c = [] := List.length_eq_zero_iff.mp (Nat.le_zero.mp hc)
    subst this
    exact scan_file_single [] (by simp) n' s rest hs
  | succ k ih =>
    intro c hc n' s rest hs
    rcases first_line isSep c with hfree | ⟨l, s1, r, rfl, hl, hs1⟩
    · exact scan_file_single c hfree n' s rest hs
    · -- a line, a separator, the remainder
      have hrk : r.length ≤ k := by simp at hc; omega
      have hline := scan_line_spec l hl (r.length + 1 + n') s1 (r ++ s :: rest) hs1
      have hrest := ih r hrk n' s rest hs
      have hshape : (l ++ s1 :: r) ++ s :: rest = l ++ s1 :: (r ++ s :: rest) := by simp
      have hlen : (l ++ s1 :: r).length + n' = l.length + (r.length + 1 + n') := by simp; omega
      have hcont : cont (r.length + 1 + n') s1 (r ++ s :: rest)
          = emit 0 (scan true .normal false (r.length + n') (r ++ s :: rest)) := by
        have : r.length + 1 + n' = (r.length + n') + 1 := by omega
        rw [this, cont]
      rw [splitAt_append_sep isSep l s1 r hl hs1, hshape, hlen]
      simp only [entriesOf]
      constructor
      · intro hn
        cases he : Spec.lineEntry l with
        | none => exact hline.1 he
        | some e =>
          obtain ⟨x, _, _, hx3⟩ := hline.2 e he
          rw [hx3, hcont]
          cases her : entriesOf (Spec.splitAt isSep r) with
          | none => rw [hrest.1 her]; rfl
          | some es => rw [he, her] at hn; simp at hn
      · intro es hes
        cases he : Spec.lineEntry l with
        | none => rw [he] at hes; simp at hes
        | some e =>
          cases her : entriesOf (Spec.splitAt isSep r) with
          | none => rw [he, her] at hes; simp at hes
          | some es' =>
            rw [he, her] at hes
            simp only [Option.some.injEq] at hes
            obtain ⟨x, hx1, hx2, hx3⟩ := hline.2 e he
            obtain ⟨y, hy1, hy2, hy3⟩ := hrest.2 es' her
            refine ⟨x ++ 0 :: y, by simp [hx1, hy1], ?_, ?_⟩
            · rw [segs_append_zero, hx2, hy2, ← hes]
              split <;> simp
            · rw [hx3, hcont, hy3, emit_prepend, prepend_prepend]

/-! ### compact_buffer -/

theorem skipZeros_zeros (k m : Nat) (w : List Byte) (hw : m = 0 ∨ ∃ b tl, w = b :: tl ∧ b ≠ 0) :
    skipZeros (k + m) (zeros k ++ w) = .ok (m, w) := by
  induction k with
  | zero =>
    simp only [zeros, List.replicate_zero, List.nil_append, Nat.zero_add]
    rcases hw with rfl | ⟨b, tl, rfl, hb⟩
    · simp [skipZeros]
    · cases m with
      | zero => simp [skipZeros]
      | succ m => simp [skipZeros, hb]
  | succ k ih =>
    have h1 : zeros (k + 1) ++ w = 0 :: (zeros k ++ w) := by simp [zeros, List.replicate_succ]
    have h2 : k + 1 + m = (k + m) + 1 := by omega
    rw [h1, h2, skipZeros, if_pos rfl, ih]

theorem strnlen_seg (s : List Byte) (m : Nat) (w : List Byte) (h0 : (0 : Byte) ∉ s)
    (hw : m = 0 ∨ ∃ tl, w = 0 :: tl) : strnlen (s.length + m) (s ++ w) = .ok s.length := by
  induction s with
  | nil =>
    simp only [List.length_nil, Nat.zero_add, List.nil_append]
    rcases hw with rfl | ⟨tl, rfl⟩
    · simp [strnlen]
    · cases m <;> simp [strnlen]
  | cons b tl ih =>
    have hb : b ≠ 0 := fun h => h0 (by simp [h])
    have htl : (0 : Byte) ∉ tl := fun h => h0 (List.mem_cons_of_mem _ h)
    have h2 : (b :: tl).length + m = (tl.length + m) + 1 := by simp; omega
    rw [h2, List.cons_append, strnlen, if_neg hb, ih htl]
    rfl

theorem zeros_prefix (w : List Byte) :
    ∃ k y2, w = zeros k ++ y2 ∧ (y2 = [] ∨ ∃ b tl, y2 = b :: tl ∧ b ≠ 0) := by
  induction w with
  | nil => exact ⟨0, [], by simp [zeros], Or.inl rfl⟩
  | cons b tl ih =>
    by_cases hb : b = 0
    · obtain ⟨k, y2, rfl, hy⟩ := ih
      exact ⟨k + 1, y2, by simp [zeros, List.replicate_succ, hb], hy⟩
    · exact ⟨0, b :: tl, by simp [zeros], Or.inr ⟨b, tl, rfl, hb⟩⟩

theorem flattenZ_cons (s : List Byte) (ss : List (List Byte)) : flattenZ (s :: ss) = s ++ 0 :: flattenZ ss := by
  simp [flattenZ]

/-- the bound that keeps the terminator store `inbuf[k++] = '\0'` inside the allocation -/
def capOK (cap : Nat) (out y : List Byte) : Prop :=
  y = [] ∨ out.length + y.length + 1 ≤ cap ∨ (y.getLast? = some 0 ∧ out.length + y.length ≤ cap)

theorem compactLoop_spec (cap : Nat) : ∀ (fuel : Nat) (out y t : List Byte), y.length < fuel →
    (y = [] ∨ ∃ b tl, y = b :: tl ∧ b ≠ 0) → capOK cap out y →
    compactLoop cap fuel out y.length (y ++ t) = .ok (out ++ flattenZ (segs y)) := by
  intro fuel
  induction fuel with
  | zero => intro out y t h; omega
  | succ fuel ih =>
    intro out y t hlen hhead hcap
    rcases hhead with rfl | ⟨b, tl, rfl, hb⟩
    · simp [compactLoop, segs_nil, flattenZ]
    · -- y = b :: tl starts a string
      rcases first_line (· == 0) (b :: tl) with hfree | ⟨s, z, w', hy, hs, hz⟩
      · -- no NUL up to the bound: the last string, its terminator goes to inbuf[oldlen]
        have h0 : (0 : Byte) ∉ (b :: tl) := fun h => by have := hfree 0 h; simp at this
        have hbound : out.length + (b :: tl).length + 1 ≤ cap := by
          rcases hcap with h | h | ⟨h, _⟩
          · simp at h
          · exact h
          · exact absurd (List.mem_of_getLast? h) h0
        have hstr := strnlen_seg (b :: tl) 0 t h0 (Or.inl rfl)
        rw [Nat.add_zero] at hstr
        have hn : (b :: tl).length = tl.length + 1 := by simp
        rw [segs_single _ (by simp) h0]
        conv => lhs; rw [hn]
        rw [compactLoop, ← hn]
        simp only [hstr, bind, Except.bind]
        have hlt : ¬ (out.length + (b :: tl).length ≥ cap) := by omega
        rw [if_neg hlt]
        have hsub : (b :: tl).length - ((b :: tl).length + 1) = 0 := by omega
        rw [hsub]
        simp only [skipZeros]
        cases fuel with
        | zero => simp at hlen
        | succ f =>
          simp [compactLoop, flattenZ, List.take_left']
      · -- a string, its NUL, then more
        have hz0 : z = 0 := by simpa using hz
        subst hz0
        have h0 : (0 : Byte) ∉ s := fun h => by have := hs 0 h; simp at this
        have hsne : s ≠ [] := by
          intro h; subst h; simp at hy; exact hb hy.1
        obtain ⟨k, y2, rfl, hy2⟩ := zeros_prefix w'
        have hylen : (b :: tl).length = s.length + 1 + k + y2.length := by
          rw [hy]; simp [zeros]; omega
        have hstr : strnlen (b :: tl).length ((b :: tl) ++ t) = .ok s.length := by
          have := strnlen_seg s (1 + k + y2.length) (0 :: (zeros k ++ y2) ++ t) h0 (Or.inr ⟨_, rfl⟩)
          have e1 : s.length + 1 + k + y2.length = s.length + (1 + k + y2.length) := by omega
          rw [hylen, e1, hy]
          simpa using this
        have hbound : ¬ (out.length + s.length ≥ cap) := by
          rcases hcap with h | h | ⟨_, h⟩
          · simp at h
          · omega
          · omega
        have hn : (b :: tl).length = tl.length + 1 := by simp
        have hseg : segs (b :: tl) = s :: segs y2 := by
          rw [hy, segs_seg_cons s _ hsne h0, segs_zeros_append]
        rw [hseg, flattenZ_cons]
        conv => lhs; rw [hn]
        rw [compactLoop, ← hn]
        simp only [hstr, bind, Except.bind]
        rw [if_neg hbound]
        have htake : ((b :: tl) ++ t).take s.length = s := by
          rw [hy]; simp
        have hdrop : ((b :: tl) ++ t).drop (s.length + 1) = zeros k ++ (y2 ++ t) := by
          rw [hy]
          have : s ++ 0 :: (zeros k ++ y2) ++ t = (s ++ [0]) ++ (zeros k ++ (y2 ++ t)) := by simp
          rw [this]
          exact List.drop_left' (by simp)
        have hrem : (b :: tl).length - (s.length + 1) = k + y2.length := by
          rw [hylen]; omega
        rw [htake, hdrop, hrem]
        have hskip := skipZeros_zeros k y2.length (y2 ++ t) (by
          rcases hy2 with rfl | ⟨b2, tl2, rfl, hb2⟩
          · left; rfl
          · right; exact ⟨b2, tl2 ++ t, rfl, hb2⟩)
        rw [hskip]
        simp only []
        have hcap2 : capOK cap (out ++ s ++ [0]) y2 := by
          rcases hy2 with rfl | ⟨b2, tl2, rfl, hb2⟩
          · left; rfl
          · rcases hcap with h | h | ⟨hl, h⟩
            · simp at h
            · right; left; simp only [List.length_append, List.length_singleton]; omega
            · right; right
              constructor
              · rw [hy] at hl
                have e : s ++ 0 :: (zeros k ++ b2 :: tl2) = (s ++ 0 :: zeros k) ++ b2 :: tl2 := by simp
                rw [e, List.getLast?_append] at hl
                cases hg : (b2 :: tl2).getLast? with
                | none => simp at hg
                | some v => rw [hg] at hl; simpa using hl
              · simp only [List.length_append, List.length_singleton]; omega
        have := ih (out ++ s ++ [0]) y2 t (by omega) hy2 hcap2
        rw [this]
        simp

theorem compact_spec (inbuf : List Byte) (oldlen : Nat) (hlen : oldlen ≤ inbuf.length)
    (hcap : oldlen < inbuf.length ∨ (inbuf.take oldlen).getLast? = some 0) :
    compact inbuf oldlen =
      .ok (if segs (inbuf.take oldlen) = [] then none else some (flattenZ (segs (inbuf.take oldlen)))) := by
  obtain ⟨k, y, hy, hhead⟩ := zeros_prefix (inbuf.take oldlen)
  obtain ⟨t, ht⟩ : ∃ t, t = inbuf.drop oldlen := ⟨_, rfl⟩
  have hsplit : inbuf = zeros k ++ (y ++ t) := by
    rw [← List.append_assoc, ← hy, ht, List.take_append_drop]
  have hol : oldlen = k + y.length := by
    have := congrArg List.length hy
    simp [zeros] at this
    omega
  have hsegs : segs (inbuf.take oldlen) = segs y := by rw [hy, segs_zeros_append]
  have hcap' : oldlen < inbuf.length ∨ y = [] ∨ y.getLast? = some 0 := by
    rcases hcap with h | h
    · exact Or.inl h
    · right
      rcases hhead with rfl | ⟨b, tl, rfl, hb⟩
      · left; rfl
      · right
        rw [hy, List.getLast?_append] at h
        cases hg : (b :: tl).getLast? with
        | none => simp at hg
        | some v => rw [hg] at h; simpa using h
  rw [hsegs]
  clear hsegs hy ht hcap
  subst hsplit
  subst hol
  have hskip := skipZeros_zeros k y.length (y ++ t) (by
    rcases hhead with rfl | ⟨b, tl, rfl, hb⟩
    · left; rfl
    · right; exact ⟨b, tl ++ t, rfl, hb⟩)
  have hcapOK : capOK (zeros k ++ (y ++ t)).length [] y := by
    rcases hcap' with h | h | h
    · right; left; simp only [List.length_nil]; omega
    · left; exact h
    · right; right; exact ⟨h, by simp only [List.length_nil]; omega⟩
  have hloop := compactLoop_spec (zeros k ++ (y ++ t)).length (k + y.length + 1) [] y t (by omega) hhead hcapOK
  unfold compact
  simp only [hskip, bind, Except.bind, hloop, List.nil_append, pure, Except.pure]
  by_cases he : segs y = []
  · simp [he, flattenZ]
  · have : flattenZ (segs y) ≠ [] := by
      cases hs : segs y with
      | nil => exact absurd hs he
      | cons a as => simp [flattenZ]
    simp [he, this]

/-! ### lloadfilefd with striptab 3 -/

theorem splitAt_pieces (p : Byte → Bool) (x : List Byte) : ∀ s ∈ Spec.splitAt p x, ∀ b ∈ s, p b = false := by
  induction x with
  | nil => simp [Spec.splitAt]
  | cons a tl ih =>
    rw [splitAt_cons]
    have hne := splitAt_ne_nil p tl
    cases h : Spec.splitAt p tl with
    | nil => exact absurd h hne
    | cons c cs =>
      rw [h] at ih
      by_cases ha : p a = true
      · simp only [ha, if_true]
        intro s hs
        rcases List.mem_cons.mp hs with rfl | hs
        · simp
        · exact ih s hs
      · simp only [ha, List.headD_cons, List.tail_cons]
        intro s hs
        rcases List.mem_cons.mp hs with rfl | hs
        · intro b hb
          rcases List.mem_cons.mp hb with rfl | hb
          · simpa using ha
          · exact ih c (List.mem_cons_self ..) b hb
        · exact ih s (List.mem_cons_of_mem _ hs)

theorem segs_nonul (x : List Byte) : ∀ s ∈ segs x, (0 : Byte) ∉ s := by
  intro s hs h0
  simp only [segs, List.mem_filter] at hs
  have := splitAt_pieces (· == 0) x s hs.1 0 h0
  simp at this

/-- a good entry list: what compact_buffer leaves behind -/
def GoodEntries (es : List (List Byte)) : Prop := ∀ s ∈ es, s ≠ [] ∧ (0 : Byte) ∉ s

theorem segs_good (x : List Byte) : GoodEntries (segs x) :=
  fun s hs => ⟨segs_nonempty_mem x s hs, segs_nonul x s hs⟩

theorem listLines_nil : Spec.listLines [] = some [] := by decide

/-- what `lloadfilefd(fd, &buf, 3)` returns, in terms of the meaning of the file -/
def lloadAnswer : Option (List (List Byte)) → Loaded
  | none => .err .einval
  | some [] => .empty
  | some es => .buf (flattenZ es)

theorem lload3_eq (c : List Byte) :
    lload 3 c = .ok (lloadAnswer (Spec.listLines c)) ∧ (∀ es, Spec.listLines c = some es → GoodEntries es) := by
  by_cases hc : c = []
  · subst hc
    rw [listLines_nil]
    refine ⟨by simp [lload, lloadAnswer], ?_⟩
    intro es h; injection h with h; subst h; intro s hs; simp at hs
  · have hce : c.isEmpty = false := by simpa using hc
    have hfile := scan_file c.length c (Nat.le_refl _) 0 0 [] (by decide)
    rw [Nat.add_zero] at hfile
    have hb2 : (3 &&& Gen.lloadBlankBit != 0) = true := by rw [lloadBlankBit_eq]; decide
    have hb1 : (3 &&& Gen.lloadCompactBit != 0) = true := by rw [lloadCompactBit_eq]; decide
    rw [listLines_eq]
    unfold lload
    simp only [hce, hb2, hb1, if_true, Bool.false_eq_true, if_false]
    have h30 : ¬ (3 = 0) := by decide
    rw [if_neg h30]
    cases hes : entriesOf (Spec.splitAt isSep c) with
    | none =>
      rw [hfile.1 hes]
      exact ⟨rfl, by intro es h; simp at h⟩
    | some es =>
      obtain ⟨x, hx1, hx2, hx3⟩ := hfile.2 es hes
      have hcont : cont 0 0 [] = .ok (some [0]) := rfl
      rw [hx3, hcont]
      simp only [prepend]
      have htake : (x ++ [0]).take c.length = x := by rw [← hx1]; simp
      have hcomp := compact_spec (x ++ [0]) c.length (by simp [hx1]) (Or.inl (by simp [hx1]))
      rw [htake, hx2] at hcomp
      rw [hcomp]
      constructor
      · cases es with
        | nil => simp [lloadAnswer]
        | cons e es => simp [lloadAnswer]
      · intro es' h
        injection h with h
        subst h
        rw [← hx2]
        exact segs_good x

/-! ### C strings in the compacted buffer -/

theorem strlenIn_seg (s w : List Byte) (h0 : (0 : Byte) ∉ s) : strlenIn (s ++ 0 :: w) = .ok s.length := by
  induction s with
  | nil => simp [strlenIn]
  | cons b tl ih =>
    have hb : b ≠ 0 := fun h => h0 (by simp [h])
    have htl : (0 : Byte) ∉ tl := fun h => h0 (List.mem_cons_of_mem _ h)
    rw [List.cons_append, strlenIn, if_neg hb, ih htl]
    rfl

theorem takeStrings_flattenZ (ss : List (List Byte)) (hg : GoodEntries ss) :
    takeStrings ss.length (flattenZ ss) = .ok ss := by
  induction ss with
  | nil => simp [takeStrings]
  | cons s ss ih =>
    have hs := hg s (List.mem_cons_self ..)
    have hg' : GoodEntries ss := fun x hx => hg x (List.mem_cons_of_mem _ hx)
    rw [flattenZ_cons, List.length_cons, takeStrings]
    simp only [strlenIn_seg s _ hs.2, bind, Except.bind]
    have hd : (s ++ 0 :: flattenZ ss).drop (s.length + 1) = flattenZ ss := by
      have : s ++ 0 :: flattenZ ss = (s ++ [0]) ++ flattenZ ss := by simp
      rw [this]; exact List.drop_left' (by simp)
    have ht : (s ++ 0 :: flattenZ ss).take s.length = s := List.take_left' rfl
    rw [hd, ih hg', ht]
    rfl

/-- the buffer after the counting loop: rejected entries zeroed completely -/
def marked (cf : List Byte → Bool) (ss : List (List Byte)) : List Byte :=
  ss.flatMap fun s => if cf s then zeros s.length ++ [0] else s ++ [0]

theorem marked_cons (cf : List Byte → Bool) (s : List Byte) (ss : List (List Byte)) :
    marked cf (s :: ss) = (if cf s then zeros s.length ++ [0] else s ++ [0]) ++ marked cf ss := by
  simp [marked]

theorem marked_length (cf : List Byte → Bool) (ss : List (List Byte)) :
    (marked cf ss).length = (flattenZ ss).length := by
  induction ss with
  | nil => simp [marked, flattenZ]
  | cons s ss ih =>
    rw [marked_cons, flattenZ_cons]
    by_cases h : cf s = true <;> simp [h, ih, zeros]

theorem segs_marked (cf : List Byte → Bool) (ss : List (List Byte)) (hg : GoodEntries ss) :
    segs (marked cf ss) = ss.filter (fun e => !cf e) := by
  induction ss with
  | nil => simp [marked, segs_nil]
  | cons s ss ih =>
    have hs := hg s (List.mem_cons_self ..)
    have hg' : GoodEntries ss := fun x hx => hg x (List.mem_cons_of_mem _ hx)
    rw [marked_cons]
    by_cases h : cf s = true
    · have : zeros s.length ++ [0] ++ marked cf ss = zeros (s.length + 1) ++ marked cf ss := by
        simp [zeros, List.replicate_succ']
      rw [if_pos h, this, segs_zeros_append, ih hg']
      simp [h]
    · have : s ++ [0] ++ marked cf ss = s ++ 0 :: marked cf ss := by simp
      rw [if_neg h, this, segs_seg_cons s _ hs.1 hs.2, ih hg']
      simp [h]

theorem marked_getLast (cf : List Byte → Bool) (ss : List (List Byte)) (hne : ss ≠ []) :
    (marked cf ss).getLast? = some 0 := by
  induction ss with
  | nil => exact absurd rfl hne
  | cons s ss ih =>
    rw [marked_cons]
    by_cases hss : ss = []
    · subst hss
      by_cases h : cf s = true <;> simp [h, marked, List.getLast?_append]
    · rw [List.getLast?_append, ih hss]
      rfl

theorem marked_of_none (cf : List Byte → Bool) (ss : List (List Byte)) (h : ss.any cf = false) :
    marked cf ss = flattenZ ss := by
  induction ss with
  | nil => simp [marked, flattenZ]
  | cons s ss ih =>
    simp only [List.any_cons, Bool.or_eq_false_iff] at h
    rw [marked_cons, flattenZ_cons, ih h.2]
    simp [h.1]

theorem markLoop_spec (cf : List Byte → Bool) : ∀ (ss : List (List Byte)) (fuel : Nat), GoodEntries ss →
    ss.length < fuel →
    markLoop cf fuel ((flattenZ ss).length - 1) (flattenZ ss) =
      .ok ((ss.filter (fun e => !cf e)).length, ss.any cf, marked cf ss) := by
  intro ss
  induction ss with
  | nil =>
    intro fuel _ hf
    cases fuel with
    | zero => omega
    | succ f => simp [flattenZ, markLoop, marked]
  | cons s ss ih =>
    intro fuel hg hf
    have hs := hg s (List.mem_cons_self ..)
    have hg' : GoodEntries ss := fun x hx => hg x (List.mem_cons_of_mem _ hx)
    cases fuel with
    | zero => omega
    | succ f =>
      have hslen : 0 < s.length := List.length_pos_iff.mpr hs.1
      have hm : (flattenZ (s :: ss)).length - 1 = (s.length - 1 + (flattenZ ss).length) + 1 := by
        rw [flattenZ_cons]; simp; omega
      rw [hm, flattenZ_cons, markLoop]
      simp only [strlenIn_seg s _ hs.2, bind, Except.bind]
      have hd : (s ++ 0 :: flattenZ ss).drop (s.length + 1) = flattenZ ss := by
        have : s ++ 0 :: flattenZ ss = (s ++ [0]) ++ flattenZ ss := by simp
        rw [this]; exact List.drop_left' (by simp)
      have ht : (s ++ 0 :: flattenZ ss).take s.length = s := List.take_left' rfl
      have ht1 : (s ++ 0 :: flattenZ ss).take (s.length + 1) = s ++ [0] := by
        have : s ++ 0 :: flattenZ ss = (s ++ [0]) ++ flattenZ ss := by simp
        rw [this]; exact List.take_left' (by simp)
      have hrem : s.length - 1 + (flattenZ ss).length + 1 - (s.length + 1) = (flattenZ ss).length - 1 := by omega
      rw [hd, ht, ht1, hrem, ih f hg' (by simp at hf; omega)]
      simp only [pure, Except.pure]
      rw [marked_cons]
      by_cases h : cf s = true
      · have hz : zeroPrefix s.length (s ++ [0]) = zeros s.length ++ [0] := by
          simp [zeroPrefix, zeros, Nat.min_eq_left]
        simp [h, hz]
      · simp [h]

/-! ### loadlistfd -/

/-- what loadlistfd must answer for a file meaning `m` when `keep` selects the valid entries -/
def listAnswer (keep : List Byte → Bool) : Option (List (List Byte)) → ListR
  | none => .err .einval
  | some es => if es.filter keep = [] then .null else .ok (es.filter keep)

theorem flattenZ_length_ge (ss : List (List Byte)) (hg : GoodEntries ss) : 2 * ss.length ≤ (flattenZ ss).length := by
  induction ss with
  | nil => simp [flattenZ]
  | cons s ss ih =>
    have hs := hg s (List.mem_cons_self ..)
    have hg' : GoodEntries ss := fun x hx => hg x (List.mem_cons_of_mem _ hx)
    have := ih hg'
    have hslen : 0 < s.length := List.length_pos_iff.mpr hs.1
    rw [flattenZ_cons]; simp; omega

theorem good_filter (p : List Byte → Bool) (ss : List (List Byte)) (hg : GoodEntries ss) : GoodEntries (ss.filter p) :=
  fun s hs => hg s (List.mem_filter.mp hs).1

theorem filter_of_none (cf : List Byte → Bool) (ss : List (List Byte)) (h : ss.any cf = false) :
    ss.filter (fun e => !cf e) = ss := by
  rw [List.filter_eq_self]
  intro a ha
  have := List.any_eq_false.mp h a ha
  simp [this]

theorem loadlist_eq (cf : Option (List Byte → Bool)) (c : List Byte) :
    loadlist cf c = .ok (listAnswer (fun e => !(cf.getD fun _ => false) e) (Spec.listLines c)) := by
  obtain ⟨h1, hgood⟩ := lload3_eq c
  unfold loadlist loadlistOf
  rw [loadlistStriptab_eq, h1]
  cases hl : Spec.listLines c with
  | none => simp [lloadAnswer, listAnswer]
  | some es =>
    cases es with
    | nil => simp [lloadAnswer, listAnswer]
    | cons e es =>
      have hg := hgood _ hl
      generalize hss : e :: es = ss at hg ⊢
      have hne : ss ≠ [] := by rw [← hss]; simp
      have hla : lloadAnswer (some ss) = .buf (flattenZ ss) := by rw [← hss]; rfl
      rw [hla]
      simp only []
      have hlen2 := flattenZ_length_ge ss hg
      have hpos : 0 < ss.length := List.length_pos_iff.mpr hne
      rw [markLoop_spec (cf.getD fun _ => false) ss (flattenZ ss).length hg (by omega)]
      simp only []
      by_cases hj : (ss.filter fun e => !(cf.getD fun _ => false) e).length = 0
      · rw [if_pos hj]
        have : ss.filter (fun e => !(cf.getD fun _ => false) e) = [] := List.length_eq_zero_iff.mp hj
        simp [listAnswer, this]
      · rw [if_neg hj]
        have hfne : ss.filter (fun e => !(cf.getD fun _ => false) e) ≠ [] :=
          fun h => hj (by rw [h]; rfl)
        have hgf := good_filter (fun e => !(cf.getD fun _ => false) e) ss hg
        cases herr : ss.any (cf.getD fun _ => false) with
        | true =>
          have hml := marked_length (cf.getD fun _ => false) ss
          have hcomp := compact_spec (marked (cf.getD fun _ => false) ss) (flattenZ ss).length (by omega)
            (Or.inr (by
              rw [← hml, List.take_length]
              exact marked_getLast _ ss hne))
          rw [← hml, List.take_length, segs_marked _ ss hg, if_neg hfne] at hcomp
          rw [hml] at hcomp
          simp only [if_true, hcomp]
          rw [takeStrings_flattenZ _ hgf]
          simp [listAnswer, hfne]
        | false =>
          simp only [Bool.false_eq_true, if_false]
          rw [marked_of_none _ ss herr]
          have hfs := filter_of_none _ ss herr
          rw [hfs] at hfne ⊢
          rw [takeStrings_flattenZ _ hg]
          simp [listAnswer, hfs, hne]

/-! ### plain files: `Spec.listLines` is the statement's reading -/

theorem splitAt_congr (p q : Byte → Bool) (c : List Byte) (h : ∀ b ∈ c, p b = q b) :
    Spec.splitAt p c = Spec.splitAt q c := by
  induction c with
  | nil => simp [Spec.splitAt]
  | cons b tl ih =>
    rw [splitAt_cons, splitAt_cons, ih (fun x hx => h x (List.mem_cons_of_mem _ hx)),
      h b (List.mem_cons_self ..)]

theorem cutComment_nohash (esc : Bool) (l : List Byte) (h : (35 : Byte) ∉ l) :
    Spec.cutComment esc l = (l, false) := by
  induction l generalizing esc with
  | nil => simp [Spec.cutComment]
  | cons b tl ih =>
    have hb : ¬ ((b == 35 && !esc) = true) := by
      intro hc
      simp only [Bool.and_eq_true, beq_iff_eq] at hc
      exact h (by simp [hc.1])
    rw [cutComment_cons, if_neg hb, ih _ (fun hx => h (List.mem_cons_of_mem _ hx))]

/-- the entry a plain line contributes -/
def plainEntry (l : List Byte) : List Byte := if l.head? = some 35 then [] else Spec.stripTrail l

theorem lineEntry_plain (l : List Byte) (h1 : (35 : Byte) ∉ l.drop 1)
    (h2 : (Spec.stripTrail l).any Spec.blank = false) : Spec.lineEntry l = some (plainEntry l) := by
  rw [lineEntry_eq]
  unfold entryOf plainEntry
  cases l with
  | nil => simp [Spec.cutComment, Spec.stripTrail]
  | cons b tl =>
    by_cases hb : b = 35
    · subst hb
      simp [cutComment_cons, Spec.stripTrail]
    · have hno : (35 : Byte) ∉ (b :: tl) := by
        intro hm
        rcases List.mem_cons.mp hm with h | h
        · exact hb h.symm
        · exact h1 (by simpa using h)
      rw [cutComment_nohash false _ hno]
      simp only [h2, Bool.false_or, Bool.false_and, Bool.false_eq_true, if_false, List.head?_cons,
        Option.some.injEq, hb]

theorem mapM_plain (ls : List (List Byte))
    (h : ∀ l ∈ ls, (35 : Byte) ∉ l.drop 1 ∧ (Spec.stripTrail l).any Spec.blank = false) :
    entriesOf ls = some ((ls.map plainEntry).filter (· ≠ [])) := by
  induction ls with
  | nil => simp [entriesOf]
  | cons l ls ih =>
    have hl := h l (List.mem_cons_self ..)
    rw [entriesOf, lineEntry_plain l hl.1 hl.2, ih (fun x hx => h x (List.mem_cons_of_mem _ hx))]
    by_cases he : plainEntry l = []
    · simp [he]
    · simp [he]

theorem entries_eq_plain (ls : List (List Byte)) :
    ((ls.filter fun l => l.head? ≠ some 35).map Spec.stripTrail).filter (· ≠ [])
      = (ls.map plainEntry).filter (· ≠ []) := by
  induction ls with
  | nil => simp
  | cons l ls ih =>
    by_cases hh : l.head? = some 35
    · have hf : List.filter (fun l => decide (l.head? ≠ some 35)) (l :: ls)
          = List.filter (fun l => decide (l.head? ≠ some 35)) ls := by simp [hh]
      rw [hf, ih]
      simp [plainEntry, hh]
    · simp only [List.filter_cons, hh, ne_eq, not_false_eq_true, decide_true, if_true, List.map_cons, plainEntry,
        if_false]
      rw [ih]

theorem listLines_plain (c : List Byte) (h : Spec.plainFile c = true) :
    Spec.listLines c = some (Spec.entries c) := by
  unfold Spec.plainFile at h
  simp only [Bool.and_eq_true, Bool.not_eq_true', List.all_eq_true] at h
  obtain ⟨h0, hl⟩ := h
  have hnul : (0 : Byte) ∉ c := by
    intro hm
    have : c.contains 0 = true := List.contains_iff_mem.mpr hm
    rw [this] at h0; simp at h0
  have hsplit : Spec.splitAt isSep c = Spec.lines c := by
    unfold Spec.lines
    apply splitAt_congr
    intro b hb
    have : b ≠ 0 := fun hz => hnul (hz ▸ hb)
    simp [isSep, this]
  rw [listLines_eq, hsplit, mapM_plain]
  · unfold Spec.entries
    rw [entries_eq_plain]
  · intro l hlm
    have hthis := hl l hlm
    constructor
    · intro hm
      have hc : (l.drop 1).contains 35 = true := List.contains_iff_mem.mpr hm
      rw [hthis.1] at hc
      exact Bool.false_ne_true hc
    · exact hthis.2

/-! ### loadintfd -/

def intAnswer (dflt : Nat) : Spec.IntMeaning → IntR
  | .invalid => .err .einval
  | .absent => .ok dflt
  | .value n => .ok n

theorem digit_eq (b : Byte) : Spec.decDigit b = isDigit b := by
  simp [Spec.decDigit, isDigit]

theorem digitsVal_spec (s : List Byte) : ∀ acc cnt,
    digitsVal acc cnt s =
      ((s.takeWhile isDigit).foldl (fun a b => a * 10 + (b.toNat - 48)) acc, cnt + (s.takeWhile isDigit).length) := by
  induction s with
  | nil => intro acc cnt; simp [digitsVal]
  | cons b tl ih =>
    intro acc cnt
    rw [digitsVal]
    by_cases hb : isDigit b = true
    · rw [if_pos hb, ih]
      simp [hb]; omega
    · rw [if_neg hb]
      simp [hb]

theorem takeWhile_all (p : Byte → Bool) (s : List Byte) (h : s.all p = true) : s.takeWhile p = s := by
  induction s with
  | nil => rfl
  | cons b tl ih =>
    simp only [List.all_cons, Bool.and_eq_true] at h
    simp [h.1, ih h.2]

theorem takeWhile_lt_of_not_all (p : Byte → Bool) (s : List Byte) (h : ¬ s.all p = true) :
    (s.takeWhile p).length < s.length := by
  induction s with
  | nil => simp at h
  | cons b tl ih =>
    by_cases hb : p b = true
    · have : ¬ tl.all p = true := by
        intro ht; apply h; simp [hb, ht]
      have := ih this
      simp [hb]; omega
    · simp [hb]

theorem sbyte_digit (b : Byte) : (sbyte b < 48 ∨ sbyte b > 57) ↔ ¬ isDigit b = true := by
  unfold sbyte isDigit
  have := b.toNat_lt
  split <;> simp <;> omega

/-- strtoul on a string that starts with a decDigit: no white space, no sign -/
theorem strtoul10_digit_first (b : Byte) (tl : List Byte) (hb : isDigit b = true) :
    strtoul10 (b :: tl) =
      let ds := (b :: tl).takeWhile isDigit
      if Spec.decimalValue ds ≥ ulongMod then ⟨ulongMod - 1, ds.length, true⟩ else ⟨Spec.decimalValue ds, ds.length, false⟩ := by
  have hsp : isSpaceC b = false := by
    unfold isDigit at hb; unfold isSpaceC
    simp only [decide_eq_true_eq] at hb
    have h32 : (b == SP) = false := by
      rw [beq_eq_false_iff_ne]; intro h; rw [h] at hb; revert hb; decide
    simp [h32]; omega
  have h45 : b ≠ 45 := by intro h; rw [h] at hb; revert hb; decide
  have h43 : b ≠ 43 := by intro h; rw [h] at hb; revert hb; decide
  unfold strtoul10
  have hws : (b :: tl).takeWhile isSpaceC = [] := by simp [hsp]
  simp only [hws, List.length_nil, List.drop_zero]
  have hsign : signOf (b :: tl) = (false, 0) := by
    unfold signOf
    split
    · rename_i h; injection h with h _; exact absurd h h45
    · rename_i h; injection h with h _; exact absurd h h43
    · rfl
  simp only [hsign, List.drop_zero, digitsVal_spec, Nat.zero_add, Nat.add_zero]
  have hcnt : ¬ ((List.takeWhile isDigit (b :: tl)).length = 0) := by
    simp [hb]
  rw [if_neg hcnt]
  simp only [Spec.decimalValue, Bool.false_eq_true, if_false]
  rfl

theorem loadint_eq (dflt : Nat) (c : List Byte) :
    loadint dflt c = .ok (intAnswer dflt (Spec.intMeaning c)) := by
  obtain ⟨h1, hgood⟩ := lload3_eq c
  unfold loadint loadintOf Spec.intMeaning
  rw [loadintStriptab_eq, h1]
  cases hl : Spec.listLines c with
  | none => simp [lloadAnswer, intAnswer]
  | some es =>
    cases es with
    | nil => simp [lloadAnswer, intAnswer]
    | cons e es =>
      have hg := hgood _ hl
      have he := hg e (List.mem_cons_self ..)
      simp only [lloadAnswer]
      rw [flattenZ_cons, strlenIn_seg e _ he.2]
      simp only []
      have htake : (e ++ 0 :: flattenZ es).take e.length = e := List.take_left' rfl
      rw [htake]
      obtain ⟨b, tl, rfl⟩ : ∃ b tl, e = b :: tl := by
        cases e with
        | nil => exact absurd rfl he.1
        | cons b tl => exact ⟨b, tl, rfl⟩
      have hhead : ((b :: tl) ++ 0 :: flattenZ es).headD 0 = b := rfl
      rw [hhead]
      cases es with
      | cons e2 es2 =>
        -- a second line
        have hlen : (b :: tl).length + 1 ≠ ((b :: tl) ++ 0 :: flattenZ (e2 :: es2)).length := by
          rw [flattenZ_cons]; simp
        rw [if_pos (Or.inl hlen)]
        rfl
      | nil =>
        have hlen : ¬ ((b :: tl).length + 1 ≠ ((b :: tl) ++ 0 :: flattenZ []).length) := by
          simp [flattenZ]
        by_cases hb : isDigit b = true
        · have hfirst : ¬ ((b :: tl).length + 1 ≠ ((b :: tl) ++ 0 :: flattenZ []).length ∨ sbyte b < 48 ∨ sbyte b > 57) := by
            intro h
            rcases h with h | h
            · exact hlen h
            · exact (sbyte_digit b).mp h hb
          rw [if_neg hfirst, strtoul10_digit_first b tl hb]
          by_cases hall : (b :: tl).all isDigit = true
          · have hall' : (b :: tl).all Spec.decDigit = true := by
              rw [← hall]; congr 1; funext x; exact digit_eq x
            rw [takeWhile_all _ _ hall]
            simp only []
            by_cases hov : Spec.decimalValue (b :: tl) ≥ ulongMod
            · have : ¬ (Spec.decimalValue (b :: tl) < Spec.ulongLimit) := by
                unfold Spec.ulongLimit; unfold ulongMod at hov; omega
              simp [hov, hall', this, intAnswer]
            · have : Spec.decimalValue (b :: tl) < Spec.ulongLimit := by
                unfold Spec.ulongLimit; unfold ulongMod at hov; omega
              simp [hov, hall', this, intAnswer]
          · have hlt := takeWhile_lt_of_not_all isDigit (b :: tl) hall
            have hall' : ¬ (b :: tl).all Spec.decDigit = true := by
              intro h; apply hall; rw [← h]; congr 1; funext x; exact (digit_eq x).symm
            have hend : ∀ (r : Strtoul), r.endp = (List.takeWhile isDigit (b :: tl)).length →
                (r.endp < (b :: tl).length ∨ r.erange = true) := fun r hr => Or.inl (by rw [hr]; exact hlt)
            simp only []
            split
            · rw [if_pos (hend _ rfl)]; simp [hall', intAnswer]
            · rw [if_pos (hend _ rfl)]; simp [hall', intAnswer]
        · have hfirst : ((b :: tl).length + 1 ≠ ((b :: tl) ++ 0 :: flattenZ []).length ∨ sbyte b < 48 ∨ sbyte b > 57) :=
            Or.inr ((sbyte_digit b).mpr hb)
          rw [if_pos hfirst]
          have hall' : ¬ (b :: tl).all Spec.decDigit = true := by
            intro h
            simp only [List.all_cons, Bool.and_eq_true] at h
            rw [digit_eq] at h
            exact hb h.1
          simp [hall', intAnswer]

/-! ### memory safety for the remaining modes -/

theorem emit_ok (b : Byte) (r : ScanR) (o : Option (List Byte)) (h : r = .ok o) :
    emit b r = .ok (o.map (b :: ·)) := by
  subst h; cases o <;> rfl

theorem scan_total (tab2 : Bool) (r : List Byte) : ∀ (mode : Mode) (esc : Bool) (n : Nat), n ≤ r.length →
    ∃ o, scan tab2 mode esc n (r ++ [0]) = .ok o ∧ ∀ x, o = some x → x.length = r.length + 1 := by
  induction r with
  | nil =>
    intro mode esc n hn
    have : n = 0 := by simpa using hn
    subst this
    refine ⟨some [0], ?_, by intro x hx; injection hx with hx; subst hx; rfl⟩
    cases tab2 <;> cases mode <;> cases esc <;> rfl
  | cons b tl ih =>
    intro mode esc n hn
    have step : ∀ (mode' : Mode) (esc' : Bool) (n' : Nat) (v : Byte), n' ≤ tl.length →
        ∃ o, emit v (scan tab2 mode' esc' n' (tl ++ [0])) = .ok o ∧ ∀ x, o = some x → x.length = (b :: tl).length + 1 := by
      intro mode' esc' n' v hn'
      obtain ⟨o, ho, hlen⟩ := ih mode' esc' n' hn'
      refine ⟨o.map (v :: ·), emit_ok v _ o ho, ?_⟩
      intro x hx
      cases o with
      | none => simp at hx
      | some y =>
        simp at hx; subst hx
        simp [hlen y rfl]
    have stop : ∃ o, (Except.ok (some (b :: tl ++ [0])) : ScanR) = .ok o ∧ ∀ x, o = some x → x.length = (b :: tl).length + 1 :=
      ⟨_, rfl, by intro x hx; injection hx with hx; subst hx; simp⟩
    rw [List.cons_append]
    cases mode with
    | normal =>
      cases n with
      | zero => rw [scan]; exact stop
      | succ n =>
        have hn' : n ≤ tl.length := by simp at hn; omega
        rw [scan]
        split
        · exact step _ _ _ _ hn'
        · split
          · exact step _ _ _ _ hn'
          · split
            · exact step _ _ _ _ hn'
            · exact step _ _ _ _ hn'
    | comment =>
      cases n with
      | zero =>
        rw [scan]
        split
        · exact step _ _ _ _ (by omega)
        · exact stop
      | succ n =>
        rw [scan]
        split
        · exact step _ _ _ _ (by simp at hn; omega)
        · exact step _ _ _ _ (by simp at hn; omega)
    | blanks =>
      cases n with
      | zero =>
        rw [scan]
        split
        · exact step _ _ _ _ (by omega)
        · split
          · exact ⟨none, rfl, by simp⟩
          · exact stop
      | succ n =>
        rw [scan]
        split
        · exact step _ _ _ _ (by simp at hn; omega)
        · split
          · exact ⟨none, rfl, by simp⟩
          · exact step _ _ _ _ (by simp at hn; omega)

/-- every answer of lloadfilefd is a proper answer (no fault); with compaction a buffer is a
non-empty sequence of non-empty C strings -/
theorem lload_shape (st : Nat) (c : List Byte) :
    ∃ r, lload st c = .ok r ∧
      ((st &&& Gen.lloadCompactBit != 0) = true → st ≠ 0 →
        ∀ b, r = .buf b → ∃ ss, GoodEntries ss ∧ ss ≠ [] ∧ b = flattenZ ss) := by
  unfold lload
  by_cases hc : c.isEmpty = true
  · rw [if_pos hc]; exact ⟨_, rfl, by intro _ _ b hb; cases hb⟩
  · rw [if_neg hc]
    by_cases h0 : st = 0
    · rw [if_pos h0]; exact ⟨_, rfl, fun _ h => absurd h0 h⟩
    · rw [if_neg h0]
      obtain ⟨o, ho, hlen⟩ := scan_total (st &&& Gen.lloadBlankBit != 0) c .normal false c.length (Nat.le_refl _)
      simp only [ho]
      cases o with
      | none => exact ⟨_, rfl, by intro _ _ b hb; cases hb⟩
      | some inbuf =>
        have hl := hlen inbuf rfl
        simp only []
        by_cases h1 : (st &&& Gen.lloadCompactBit != 0) = true
        · rw [if_pos h1, compact_spec inbuf c.length (by omega) (Or.inl (by omega))]
          by_cases hs : segs (inbuf.take c.length) = []
          · rw [if_pos hs]; exact ⟨_, rfl, by intro _ _ b hb; cases hb⟩
          · rw [if_neg hs]
            refine ⟨_, rfl, ?_⟩
            intro _ _ b hb
            injection hb with hb
            exact ⟨_, segs_good _, hs, hb.symm⟩
        · rw [if_neg h1]
          split
          · exact ⟨_, rfl, fun h => absurd h h1⟩
          · exact ⟨_, rfl, fun h => absurd h h1⟩

theorem lload_no_fault (c : List Byte) : ∀ st f, lload st c ≠ .error f := by
  intro st f
  obtain ⟨r, hr, _⟩ := lload_shape st c
  rw [hr]; simp

theorem loadoneliner_no_fault (c : List Byte) : ∀ f, loadoneliner c ≠ .error f := by
  intro f
  obtain ⟨r, hr, hshape⟩ := lload_shape Gen.onelinerStriptab c
  unfold loadoneliner loadonelinerOf
  rw [hr]
  cases r with
  | err e => simp
  | empty => simp
  | buf b =>
    obtain ⟨ss, hg, hne, rfl⟩ := hshape (by rw [onelinerStriptab_eq, lloadCompactBit_eq]; decide)
      (by rw [onelinerStriptab_eq]; decide) b rfl
    cases ss with
    | nil => exact absurd rfl hne
    | cons s ss =>
      have hs := hg s (List.mem_cons_self ..)
      simp only [flattenZ_cons, strlenIn_seg s _ hs.2]
      split <;> simp

end QsmtpModel.Lemmas
