/-
Inside an active TLS session the client functions of `QsmtpModel.StartTlsCli` only depend on the TLS side of
the state: two states that agree on it (`Sim`) give the same outcome of `greeting`.
-/
import QsmtpModel.StartTlsCli

namespace QsmtpModel.StartTlsCli
open QsmtpModel

/-- two states that look the same to everything done inside an active TLS session -/
def Sim (s t : S) : Prop :=
  s.ssl = true ∧ t.ssl = true ∧ s.sslK = s.k ∧ t.sslK = t.k ∧ s.inn = t.inn ∧ s.tls = t.tls ∧ s.tlsEnd = t.tlsEnd

/-- `Sim` plus the same current line -/
def SimL (s t : S) : Prop := Sim s t ∧ s.lin = t.lin

def OutSim {α : Type} (R : S → S → Prop) (o p : Out α) : Prop :=
  match o, p with
  | .ret a s, .ret b t => a = b ∧ R s t
  | .exit _, .exit _ => True
  | .fault _ _, .fault _ _ => True
  | _, _ => False

/-! ### calculus -/

theorem OutSim.bind {α β : Type} {R R' : S → S → Prop} {o p : Out α} {f g : α → S → Out β}
    (h : OutSim R o p) (hf : ∀ a s t, R s t → OutSim R' (f a s) (g a t)) :
    OutSim R' (o.bind f) (p.bind g) := by
  cases o with
  | ret a s =>
    cases p with
    | ret b t =>
      obtain ⟨hab, hr⟩ := h
      subst hab
      exact hf a s t hr
    | exit t => exact False.elim h
    | fault e t => exact False.elim h
  | exit s =>
    cases p with
    | ret b t => exact False.elim h
    | exit t => exact True.intro
    | fault e t => exact False.elim h
  | fault e s =>
    cases p with
    | ret b t => exact False.elim h
    | exit t => exact False.elim h
    | fault e' t => exact True.intro

theorem OutSim.mono {α : Type} {R R' : S → S → Prop} {o p : Out α}
    (h : OutSim R o p) (hr : ∀ s t, R s t → R' s t) : OutSim R' o p := by
  cases o with
  | ret a s =>
    cases p with
    | ret b t => exact ⟨h.1, hr _ _ h.2⟩
    | exit t => exact False.elim h
    | fault e t => exact False.elim h
  | exit s =>
    cases p with
    | ret b t => exact False.elim h
    | exit t => exact True.intro
    | fault e t => exact False.elim h
  | fault e s =>
    cases p with
    | ret b t => exact False.elim h
    | exit t => exact False.elim h
    | fault e' t => exact True.intro

theorem OutSim.ret {α : Type} {R : S → S → Prop} (a : α) {s t : S} (h : R s t) :
    OutSim R (Out.ret a s) (Out.ret a t) := ⟨rfl, h⟩

theorem OutSim.exit {α : Type} {R : S → S → Prop} (s t : S) :
    OutSim R (Out.exit s : Out α) (Out.exit t) := True.intro

theorem OutSim.fault {α : Type} {R : S → S → Prop} (e e' : Fault) (s t : S) :
    OutSim R (Out.fault e s : Out α) (Out.fault e' t) := True.intro

theorem OutSim.ite {α : Type} {R : S → S → Prop} {c : Prop} [Decidable c] {a b a' b' : Out α}
    (h1 : c → OutSim R a a') (h2 : ¬ c → OutSim R b b') :
    OutSim R (if c then a else b) (if c then a' else b') := by
  by_cases hc : c
  · simp only [hc, if_true]; exact h1 hc
  · simp only [hc, if_false]; exact h2 hc

theorem dieerror_sim {α : Type} {R : S → S → Prop} (e e' : Nat) (s t : S) :
    OutSim R (dieerror e s : Out α) (dieerror e' t) := by
  unfold dieerror
  exact True.intro

theorem fuelOf_sim {s t : S} (h : Sim s t) : fuelOf s = fuelOf t := by
  obtain ⟨h1, h2, _, _, h5, h6, _⟩ := h
  unfold fuelOf
  simp [h1, h2, h5, h6]

/-! ### reader -/

theorem rawRead_sim {s t : S} (h : Sim s t) :
    (rawRead s).1 = (rawRead t).1 ∧ SimL (rawRead s).2 (rawRead t).2 := by
  obtain ⟨h1, h2, h3, h4, h5, h6, h7⟩ := h
  unfold rawRead
  simp [h1, h2, h3, h4, h5, h6, h7, Sim, SimL]

theorem netRead0_sim {s t : S} (h : Sim s t) : OutSim SimL (netRead0 s) (netRead0 t) := by
  obtain ⟨hr, hs⟩ := rawRead_sim h
  unfold netRead0
  generalize rawRead s = x at hr hs ⊢
  generalize rawRead t = y at hr hs ⊢
  obtain ⟨r, s1⟩ := x
  obtain ⟨r', t1⟩ := y
  simp only at hr hs
  subst hr
  cases r with
  | line l => exact OutSim.ret _ hs
  | err e => exact OutSim.ret _ hs
  | die e => exact dieerror_sim _ _ _ _

theorem netget0_sim {s t : S} (h : Sim s t) : OutSim SimL (netget0 s) (netget0 t) := by
  unfold netget0
  refine OutSim.bind (netRead0_sim h) ?_
  intro r s1 t1 h1
  cases r with
  | some e =>
    dsimp only
    refine OutSim.ite (fun _ => OutSim.ret _ h1) (fun _ => ?_)
    refine OutSim.ite (fun _ => dieerror_sim _ _ _ _) (fun _ => OutSim.ret _ h1)
  | none =>
    dsimp only
    rw [h1.2]
    cases QrProto.codeOf t1.lin with
    | some c => exact OutSim.ret _ h1
    | none => exact OutSim.ret _ h1

/-! ### writer -/

theorem netnwrite_sim (b : List Byte) {s t : S} (h : Sim s t) : OutSim Sim (netnwrite b s) (netnwrite b t) := by
  obtain ⟨h1, h2, h3, h4, h5, h6, h7⟩ := h
  unfold netnwrite
  simp [h1, h2, h3, h4, h5, h6, h7, Sim, OutSim]

theorem netnwrite_simL (b : List Byte) {s t : S} (h : SimL s t) : OutSim SimL (netnwrite b s) (netnwrite b t) := by
  obtain ⟨⟨h1, h2, h3, h4, h5, h6, h7⟩, h8⟩ := h
  unfold netnwrite
  simp [h1, h2, h3, h4, h5, h6, h7, h8, Sim, SimL, OutSim]

theorem sendAll_sim (ps : List (List Byte)) {s t : S} (h : Sim s t) : OutSim Sim (sendAll ps s) (sendAll ps t) := by
  induction ps generalizing s t with
  | nil => exact OutSim.ret _ h
  | cons p ps ih =>
    unfold sendAll
    exact OutSim.bind (netnwrite_sim p h) (fun _ s1 t1 h1 => ih h1)

theorem netWriten_sim (s0 : List Byte) (ss : List (List Byte)) {s t : S} (h : Sim s t) :
    OutSim Sim (netWriten s0 ss s) (netWriten s0 ss t) := by
  unfold netWriten
  cases Writen.netWriten s0 ss with
  | ok lines => exact sendAll_sim lines h
  | error f => exact OutSim.fault _ _ _ _

/-! ### greeting.c -/

theorem ehloLoop_sim (sc : Int) (fuel ret : Nat) (err : Bool) {s t : S} (h : SimL s t) :
    OutSim SimL (ehloLoop sc fuel ret err s) (ehloLoop sc fuel ret err t) := by
  induction fuel generalizing ret err s t with
  | zero => exact OutSim.fault _ _ _ _
  | succ n ih =>
    unfold ehloLoop
    rw [h.2]
    refine OutSim.ite (fun _ => ?_) (fun _ => OutSim.ret _ h)
    refine OutSim.bind (netget0_sim h.1) ?_
    intro a s1 t1 h1
    refine OutSim.ite (fun _ => ?_) (fun _ => ?_)
    · exact OutSim.ite (fun _ => OutSim.ret _ h1) (fun _ => ih _ _ h1)
    · refine OutSim.ite (fun _ => ?_) (fun _ => ih _ _ h1)
      dsimp only
      rw [h1.2]
      exact OutSim.ite (fun _ => ih _ _ h1) (fun _ => ih _ _ h1)

theorem heloLoop_sim (sc : Int) (fuel err : Nat) {s t : S} (h : SimL s t) :
    OutSim SimL (heloLoop sc fuel err s) (heloLoop sc fuel err t) := by
  induction fuel generalizing err s t with
  | zero => exact OutSim.fault _ _ _ _
  | succ n ih =>
    unfold heloLoop
    rw [h.2]
    refine OutSim.ite (fun _ => ?_) (fun _ => OutSim.ret _ h)
    refine OutSim.bind (netget0_sim h.1) ?_
    intro a s1 t1 h1
    exact OutSim.ite (fun _ => OutSim.ret _ h1) (fun _ => ih _ h1)

theorem greeting_sim (helo : List Byte) (s t : S) (h : Sim s t) :
    OutSim SimL (greeting helo s) (greeting helo t) := by
  unfold greeting
  refine OutSim.bind (netWriten_sim _ _ h) ?_
  intro _ s1 t1 h1
  refine OutSim.bind (netget0_sim h1) ?_
  intro sc s2 t2 h2
  refine OutSim.ite (fun _ => OutSim.ret _ h2) (fun _ => ?_)
  rw [fuelOf_sim h2.1]
  refine OutSim.bind (ehloLoop_sim sc _ 0 false h2) ?_
  intro r s3 t3 h3
  cases r with
  | inl v => exact OutSim.ret _ h3
  | inr p =>
    obtain ⟨ret, err⟩ := p
    dsimp only
    refine OutSim.ite (fun _ => OutSim.ret _ h3) (fun _ => ?_)
    refine OutSim.ite (fun _ => OutSim.ret _ h3) (fun _ => ?_)
    refine OutSim.bind (netWriten_sim _ _ h3.1) ?_
    intro _ s4 t4 h4
    refine OutSim.bind (netget0_sim h4) ?_
    intro sc2 s5 t5 h5
    refine OutSim.ite (fun _ => OutSim.ret _ h5) (fun _ => ?_)
    rw [fuelOf_sim h5.1]
    refine OutSim.bind (heloLoop_sim sc2 _ 0 h5) ?_
    intro r2 s6 t6 h6
    cases r2 with
    | inl v => exact OutSim.ret _ h6
    | inr e =>
      dsimp only
      refine OutSim.ite (fun _ => OutSim.ret _ h6) (fun _ => ?_)
      exact OutSim.ite (fun _ => OutSim.ret _ h6) (fun _ => OutSim.ret _ h6)

theorem greeting_ret_of_sim (helo : List Byte) (s t : S) (h : Sim s t) (a : Int) (s' : S)
    (hg : greeting helo s = .ret a s') : ∃ t', greeting helo t = .ret a t' := by
  have hs := greeting_sim helo s t h
  rw [hg] at hs
  cases hgt : greeting helo t with
  | ret b t' =>
    rw [hgt] at hs
    exact ⟨t', by rw [hs.1]⟩
  | exit t' => rw [hgt] at hs; exact False.elim hs
  | fault e t' => rw [hgt] at hs; exact False.elim hs

end QsmtpModel.StartTlsCli
