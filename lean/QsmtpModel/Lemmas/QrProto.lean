/-
Helper lemmas for property C04 (model `QsmtpModel.QrProto`): a small Hoare-style calculus over
`Out`, and for every modelled function what it appends to the status stream and the ghost log.
-/
import QsmtpModel.QrProto
import QsmtpModel.Props.C10
import QsmtpModel.Spec.Reports

namespace QsmtpModel.QrProto
open QsmtpModel

/-! ### calculus -/

/-- closes side goals that are `rfl` up to structure eta / already simplified to `True` -/
macro "trv" : tactic => `(tactic| first | rfl | trivial | simp)

/-- the outcome returns with `R`, or exits with `X`; it is not a fault -/
def Out.sat {α : Type} (o : Out α) (R : α → St → Prop) (X : St → Prop) : Prop :=
  match o with
  | .ret a s => R a s
  | .exit s => X s
  | .fault _ _ => False

theorem sat_bind {α β : Type} {o : Out α} {f : α → St → Out β} {R' : α → St → Prop} {X : St → Prop}
    {R : β → St → Prop} (h : o.sat R' X) (hf : ∀ a s, R' a s → (f a s).sat R X) : (o.bind f).sat R X := by
  cases o with
  | ret a s => exact hf a s h
  | exit s => exact h
  | fault e s => exact h

theorem bind_ret {α β : Type} (a : α) (s : St) (f : α → St → Out β) : (Out.ret a s).bind f = f a s := rfl

/-- `sat_bind` with a weaker exit condition for the first part -/
theorem sat_bind' {α β : Type} {o : Out α} {f : α → St → Out β} {R' : α → St → Prop} {X' X : St → Prop}
    {R : β → St → Prop} (h : o.sat R' X') (hx : ∀ s, X' s → X s) (hf : ∀ a s, R' a s → (f a s).sat R X) :
    (o.bind f).sat R X := by
  cases o with
  | ret a s => exact hf a s h
  | exit s => exact hx s h
  | fault e s => exact h

theorem sat_mono {α : Type} {o : Out α} {R R' : α → St → Prop} {X X' : St → Prop}
    (h : o.sat R X) (hr : ∀ a s, R a s → R' a s) (hx : ∀ s, X s → X' s) : o.sat R' X' := by
  cases o with
  | ret a s => exact hr a s h
  | exit s => exact hx s h
  | fault e s => exact h

@[simp] theorem sat_ret {α : Type} (a : α) (s : St) (R : α → St → Prop) (X : St → Prop) :
    (Out.ret a s).sat R X = R a s := rfl
@[simp] theorem sat_exit {α : Type} (s : St) (R : α → St → Prop) (X : St → Prop) :
    (Out.exit s : Out α).sat R X = X s := rfl
@[simp] theorem sat_fault {α : Type} (f : Fault) (s : St) (R : α → St → Prop) (X : St → Prop) :
    (Out.fault f s : Out α).sat R X = False := rfl

/-! ### status languages -/

/-- one complete report: a letter from `L`, NUL-free text, the terminating NUL -/
def Rep (L : List Byte) (d : List Byte) : Prop := ∃ c t, d = c :: t ++ [NUL] ∧ c ∈ L ∧ NUL ∉ t

def letterZ : Byte := 90
def letterD : Byte := 68
def letterK : Byte := 75

theorem nul_not_mem_cstr (l : List Byte) : NUL ∉ cstr l := by
  unfold cstr
  induction l with
  | nil => simp
  | cons a t ih =>
    rw [List.takeWhile_cons]
    split
    · rename_i h
      intro hm
      rcases List.mem_cons.mp hm with rfl | hm
      · simp [NUL] at h
      · exact ih hm
    · simp

theorem nul_not_mem_flatten_cstr (xs : List (List Byte)) : NUL ∉ (xs.map cstr).flatten := by
  intro h
  rw [List.mem_flatten] at h
  obtain ⟨l, hl, hm⟩ := h
  rw [List.mem_map] at hl
  obtain ⟨x, _, rfl⟩ := hl
  exact nul_not_mem_cstr x hm

/-- a payload that is neither `DATA` nor part of the envelope: it does not start with D, M or R
(EHLO, HELO, QUIT, the body marker, the final dot) -/
def Other (p : List Byte) : Prop := ∀ b, p.head? = some b → b ≠ 68 ∧ b ≠ 77 ∧ b ≠ 82

theorem other_quit : Other Gen.Qr.cmdQuit := by intro b h; simp [Gen.Qr.cmdQuit] at h; subst h; decide

/-- only such payloads were added to what was sent -/
def SentQ (s s' : St) : Prop := ∃ dn, s'.sent = s.sent ++ dn ∧ ∀ p ∈ dn, Other p

theorem SentQ.refl (s : St) : SentQ s s := ⟨[], by simp, by simp⟩
theorem SentQ.of_eq {s s' : St} (h : s'.sent = s.sent) : SentQ s s' := ⟨[], by simp [h], by simp⟩
theorem SentQ.trans {a b c : St} (h1 : SentQ a b) (h2 : SentQ b c) : SentQ a c := by
  obtain ⟨d1, e1, q1⟩ := h1
  obtain ⟨d2, e2, q2⟩ := h2
  refine ⟨d1 ++ d2, by rw [e2, e1, List.append_assoc], ?_⟩
  intro p hp
  rcases List.mem_append.mp hp with h | h
  · exact q1 p h
  · exact q2 p h

/-- same status stream and ghost log, only QUITs sent -/
def Same (s s' : St) : Prop := s'.status = s.status ∧ s'.log = s.log ∧ SentQ s s'

theorem Same.refl (s : St) : Same s s := ⟨rfl, rfl, SentQ.refl s⟩
theorem Same.trans {a b c : St} (h1 : Same a b) (h2 : Same b c) : Same a c :=
  ⟨h2.1.trans h1.1, h2.2.1.trans h1.2.1, h1.2.2.trans h2.2.2⟩
theorem Same.of_eq {s s' : St} (h1 : s'.status = s.status) (h2 : s'.log = s.log) (h3 : s'.sent = s.sent) : Same s s' :=
  ⟨h1, h2, SentQ.of_eq h3⟩

/-- the status stream grew by one complete `Z` report, log unchanged: what every abort path
(`dieerror`, the syntax error of `netget(1)`, `err_mem`) does -/
def Aborted (s s' : St) : Prop :=
  (∃ d, s'.status = s.status ++ d ∧ Rep [letterZ] d) ∧ s'.log = s.log ∧ SentQ s s'

theorem rep_of_writeStatus (x : List Byte) (c : Byte) (t : List Byte) (h : cstr x = c :: t) :
    Rep [c] (cstr x ++ [LF, NUL]) := by
  refine ⟨c, t ++ [LF], ?_, by simp, ?_⟩
  · rw [h]; simp
  · have hn := nul_not_mem_cstr x
    rw [h] at hn
    intro hm
    simp only [List.mem_append, List.mem_singleton] at hm
    rcases hm with hm | hm
    · exact hn (List.mem_cons_of_mem _ hm)
    · simp [NUL, LF] at hm

theorem exists_tail_of_head {l : List Byte} {c : Byte} (h : l.head? = some c) : ∃ t, l = c :: t := by
  cases l with
  | nil => simp at h
  | cons a t => simp at h; exact ⟨t, by rw [h]⟩

theorem cstr_stTimedOut : ∃ t, cstr Gen.Qr.stTimedOut = letterZ :: t := exists_tail_of_head (by decide)
theorem cstr_stDied : ∃ t, cstr Gen.Qr.stDied = letterZ :: t := exists_tail_of_head (by decide)
theorem cstr_stSyntax : ∃ t, cstr Gen.Qr.stSyntax = letterZ :: t := exists_tail_of_head (by decide)
theorem cstr_stNoMem : ∃ t, cstr Gen.Qr.stNoMem = letterZ :: t := exists_tail_of_head (by decide)
theorem cstr_stErrnoPrefix : ∃ t, cstr Gen.Qr.stErrnoPrefix = letterZ :: t := exists_tail_of_head (by decide)

theorem aborted_writeStatus (s : St) (x : List Byte) (h : ∃ t, cstr x = letterZ :: t) :
    Aborted s (writeStatus x s) := by
  obtain ⟨t, ht⟩ := h
  exact ⟨⟨_, rfl, rep_of_writeStatus x letterZ t ht⟩, rfl, SentQ.of_eq rfl⟩

theorem Aborted.same_right {a b c : St} (h1 : Aborted a b) (h2 : Same b c) : Aborted a c := by
  obtain ⟨⟨d, hd, hr⟩, hl, hq⟩ := h1
  exact ⟨⟨d, by rw [h2.1, hd], hr⟩, by rw [h2.2.1, hl], hq.trans h2.2.2⟩

theorem Aborted.same_left {a b c : St} (h1 : Same a b) (h2 : Aborted b c) : Aborted a c := by
  obtain ⟨⟨d, hd, hr⟩, hl, hq⟩ := h2
  exact ⟨⟨d, by rw [hd, h1.1], hr⟩, by rw [hl, h1.2.1], h1.2.2.trans hq⟩

/-! ### leaves -/

theorem dieerror_spec {α : Type} (e : Nat) (he : e = ECONNRESET ∨ e = ETIMEDOUT) (s : St)
    (R : α → St → Prop) : (dieerror e s : Out α).sat R (fun s' => Aborted s s' ∧ s'.sock = false) := by
  unfold dieerror shutdownAbort
  simp only [sat_exit]
  rcases he with rfl | rfl
  · simp only [show ¬ (ECONNRESET = ETIMEDOUT) by decide, if_false, if_true]
    exact ⟨Aborted.same_right (aborted_writeStatus s _ cstr_stDied) (Same.of_eq rfl rfl rfl), by simp⟩
  · simp only [if_true]
    exact ⟨Aborted.same_right (aborted_writeStatus s _ cstr_stTimedOut) (Same.of_eq rfl rfl rfl), by simp⟩

/-- `netnwrite` on an open socket just records the payload -/
theorem netnwrite_open (b : List Byte) (s : St) (h : s.sock = true) :
    netnwrite b s = .ret () { s with sent := s.sent ++ [b] } := by
  unfold netnwrite; simp [h]

theorem netnwrite_spec (b : List Byte) (s : St) :
    (netnwrite b s).sat (fun _ s' => s' = { s with sent := s.sent ++ [b] } ∧ s.sock = true)
      (fun s' => Aborted s s' ∧ s'.sock = false ∧ s.sock = false) := by
  unfold netnwrite
  split
  · simp_all
  · rename_i h
    exact sat_mono (dieerror_spec _ (Or.inr rfl) s _) (fun _ _ h => h) (fun _ h' => ⟨h'.1, h'.2, by simpa using h⟩)

theorem quitLoop_length (sc : List Rd) (lin : List Byte) : (quitLoop sc lin).2.length ≤ sc.length := by
  induction sc generalizing lin with
  | nil => simp [quitLoop]
  | cons it rest ih =>
    cases it with
    | line l =>
      simp only [quitLoop]
      split
      · exact Nat.le_trans (ih l) (Nat.le_succ _)
      · simp
    | err e => simp [quitLoop]
    | eof => simp [quitLoop]
    | timeout => simp [quitLoop]

theorem quitLoop_suffix (sc : List Rd) (lin : List Byte) : (quitLoop sc lin).2 <:+ sc := by
  induction sc generalizing lin with
  | nil => simp [quitLoop]
  | cons it rest ih =>
    cases it with
    | line l =>
      simp only [quitLoop]
      split
      · exact (ih l).trans (List.suffix_cons _ _)
      · exact List.suffix_cons _ _
    | err e => simp only [quitLoop]; exact List.suffix_cons _ _
    | eof => simp only [quitLoop]; exact List.suffix_cons _ _
    | timeout => simp only [quitLoop]; exact List.suffix_cons _ _

theorem quitmsg_spec (s : St) :
    (quitmsg s).sat (fun _ s' => Same s s' ∧ s'.sock = false ∧ s.sock = true ∧ s'.script <:+ s.script
                        ∧ s'.ext = s.ext ∧ s'.conns = s.conns ∧ s'.tls = s.tls)
      (fun s' => Aborted s s' ∧ s'.sock = false ∧ s.sock = false) := by
  unfold quitmsg
  apply sat_bind (netnwrite_spec _ s)
  rintro _ s1 ⟨rfl, hs⟩
  simp only [sat_ret]
  exact ⟨⟨rfl, rfl, ⟨[Gen.Qr.cmdQuit], by simp, by simp [other_quit]⟩⟩, by simp, hs, quitLoop_suffix _ _, by simp, by simp, by simp⟩

/-- `net_conn_shutdown(shutdown_clean)` always exits; the status stream is untouched -/
theorem shutdownClean_spec {α : Type} (s : St) (R : α → St → Prop) :
    (shutdownClean s : Out α).sat R (fun s' => Same s s') := by
  unfold shutdownClean
  split
  · rename_i h
    unfold quitmsg
    rw [netnwrite_open _ _ h]
    simp only [Out.bind, sat_exit]
    exact ⟨rfl, rfl, ⟨[Gen.Qr.cmdQuit], by simp, by simp [other_quit]⟩⟩
  · simp only [sat_exit]; exact Same.refl s

theorem errMem_spec {α : Type} (s : St) (R : α → St → Prop) :
    (errMem s : Out α).sat R (fun s' => Aborted s s') := by
  unfold errMem
  apply sat_mono (shutdownClean_spec _ _) (fun _ _ h => h)
  intro s' h
  exact Aborted.same_right (aborted_writeStatus s _ cstr_stNoMem) h

/-! ### net_read, netget -/

/-- what a call that did not return a line leaves behind: status and log untouched, script not
longer, oracles and extension bits untouched -/
def Quiet (s s' : St) : Prop :=
  Same s s' ∧ s'.script <:+ s.script ∧ s'.ext = s.ext ∧ s'.conns = s.conns ∧ s'.tls = s.tls

theorem Quiet.refl (s : St) : Quiet s s := ⟨Same.refl s, List.suffix_refl _, rfl, rfl, rfl⟩

theorem Quiet.trans {a b c : St} (h1 : Quiet a b) (h2 : Quiet b c) : Quiet a c :=
  ⟨h1.1.trans h2.1, h2.2.1.trans h1.2.1, h2.2.2.1.trans h1.2.2.1, h2.2.2.2.1.trans h1.2.2.2.1,
   h2.2.2.2.2.trans h1.2.2.2.2⟩

theorem quiet_of_script {s : St} {it : Rd} {rest : List Rd} (h : s.script = it :: rest) :
    Quiet s { s with script := rest, lin := [] } :=
  ⟨Same.of_eq rfl rfl rfl, by rw [h]; exact List.suffix_cons _ _, rfl, rfl, rfl⟩

/-- why a call that was told not to terminate the program did so nevertheless -/
def AbortCause (t : Bool) (s : St) : Prop := t = true ∨ Rd.err ENOMEM ∈ s.script ∨ s.sock = false

theorem netRead_spec (fatal : Bool) (s : St) :
    (netRead fatal s).sat
      (fun r s' => match r with
        | .ok => ∃ l rest, s.script = .line l :: rest ∧ s' = { s with script := rest, lin := l }
        | .err e => Quiet s s' ∧ s'.sock = s.sock ∧ s'.sent = s.sent ∧ 0 < e ∧ (e = ENOMEM → Rd.err ENOMEM ∈ s.script))
      (fun s' => Aborted s s' ∧ fatal = true) := by
  unfold netRead
  split
  · split
    · rename_i h
      exact sat_mono (dieerror_spec _ (Or.inl rfl) s _) (fun _ _ h => h) (fun _ h' => ⟨h'.1, h⟩)
    · simp only [sat_ret]
      exact ⟨⟨Same.of_eq rfl rfl rfl, List.suffix_refl _, rfl, rfl, rfl⟩, by trv, by trv, by decide, fun h => absurd h (by decide)⟩
  · rename_i l rest h
    simp only [sat_ret]; exact ⟨l, rest, h, by trv⟩
  · rename_i e rest h
    simp only [sat_ret]
    refine ⟨quiet_of_script h, by trv, by trv, by split <;> omega, ?_⟩
    intro he
    split at he
    · simp [ENOMEM] at he
    · rw [h, he]; simp
  · rename_i rest h
    split
    · rename_i hf
      exact sat_mono (dieerror_spec _ (Or.inl rfl) _ _) (fun _ _ h => h) (fun _ h' => ⟨h'.1, hf⟩)
    · simp only [sat_ret]
      exact ⟨quiet_of_script h, by trv, by trv, by decide, fun h => absurd h (by decide)⟩
  · rename_i rest h
    split
    · rename_i hf
      exact sat_mono (dieerror_spec _ (Or.inr rfl) _ _) (fun _ _ h => h) (fun _ h' => ⟨h'.1, hf⟩)
    · simp only [sat_ret]
      exact ⟨quiet_of_script h, by trv, by trv, by decide, fun h => absurd h (by decide)⟩

theorem nul_not_mem_of_codeOf {l : List Byte} {c : Nat} (h : codeOf l = some c) : NUL ∉ l := by
  unfold codeOf at h
  split at h
  · split at h
    · rename_i hc; exact hc.2.2.2.2.2
    · simp at h
  · simp at h

theorem len_of_codeOf {l : List Byte} {c : Nat} (h : codeOf l = some c) : 3 < l.length := by
  unfold codeOf at h
  split at h
  · simp
  · simp at h

/-- postcondition of a returning `netget()` -/
def NetgetRet (t : Bool) (s : St) (c : Int) (s' : St) : Prop :=
  (0 ≤ c ∧ ∃ l rest, s.script = .line l :: rest ∧ s' = { s with script := rest, lin := l }
      ∧ codeOf l = some c.toNat)
  ∨ (c < 0 ∧ t = false ∧ Quiet s s')

theorem syntaxFail_spec (t : Bool) (s s2 : St) (hq : Quiet s s2) :
    (syntaxFail t s2).sat (NetgetRet t s) (fun s' => Aborted s s' ∧ AbortCause t s) := by
  unfold syntaxFail
  split
  · rename_i ht
    apply sat_mono (shutdownClean_spec _ _) (fun _ _ h => h)
    intro s' h
    exact ⟨Aborted.same_left hq.1 (Aborted.same_right (aborted_writeStatus s2 _ cstr_stSyntax) h), Or.inl ht⟩
  · rename_i ht
    simp only [sat_ret]
    right
    exact ⟨by simp [EINVAL], by simpa using ht, hq⟩

theorem rep_strerror_status (e : Nat) :
    Rep [letterZ] ((List.map cstr [Gen.Qr.stErrnoPrefix, strerror e]).flatten ++ [LF, NUL]) := by
  obtain ⟨tl, htl⟩ := cstr_stErrnoPrefix
  refine ⟨letterZ, tl ++ cstr (strerror e) ++ [LF], ?_, by simp, ?_⟩
  · simp [htl]
  · have h1 := nul_not_mem_flatten_cstr [Gen.Qr.stErrnoPrefix, strerror e]
    simp only [List.map_cons, List.map_nil, List.flatten_cons, List.flatten_nil, List.append_nil, htl] at h1
    intro hm
    simp only [List.mem_append, List.mem_singleton] at hm
    rcases hm with (hm | hm) | hm
    · exact h1 (by simp [hm])
    · exact h1 (by simp [hm])
    · simp [NUL, LF] at hm

/-- `netget()`: a reply code together with the line it was read from, or (only when not
terminating) a negative value with nothing written; every other way out is an abort report -/
theorem netget_spec (t : Bool) (s : St) :
    (netget t s).sat (NetgetRet t s) (fun s' => Aborted s s' ∧ AbortCause t s) := by
  unfold netget
  apply sat_bind' (netRead_spec t s) (fun _ h => ⟨h.1, Or.inl h.2⟩)
  intro r s1 hr
  cases r with
  | err e =>
    obtain ⟨hq, hsock, hsent, hpos, hmem⟩ := hr
    simp only
    split
    · rename_i he
      apply sat_mono (errMem_spec _ _) (fun _ _ h => h)
      intro s' h; exact ⟨Aborted.same_left hq.1 h, Or.inr (Or.inl (hmem he))⟩
    · split
      · exact syntaxFail_spec t s s1 hq
      · split
        · rename_i he
          split
          · rename_i ht
            apply sat_mono (dieerror_spec _ he _ _) (fun _ _ h => h)
            intro s' h; exact ⟨Aborted.same_left hq.1 h.1, Or.inl ht⟩
          · rename_i ht
            simp only [sat_ret]
            right
            refine ⟨?_, by simpa using ht, hq⟩
            rcases he with rfl | rfl <;> simp [ECONNRESET, ETIMEDOUT]
        · split
          · rename_i ht
            apply sat_mono (shutdownClean_spec _ _) (fun _ _ h => h)
            intro s' h
            have ha : Aborted s1 (writeStatusM [Gen.Qr.stErrnoPrefix, strerror e] s1) :=
              ⟨⟨_, rfl, rep_strerror_status e⟩, rfl, SentQ.of_eq rfl⟩
            exact ⟨Aborted.same_left hq.1 (Aborted.same_right ha h), Or.inl ht⟩
          · rename_i ht
            apply sat_bind' (quitmsg_spec s1)
              (fun s' h => ⟨Aborted.same_left hq.1 h.1, Or.inr (Or.inr (by rw [← hsock]; exact h.2.2))⟩)
            intro u s2 hq2
            obtain ⟨hsame, _, hs1, hlen, hext, hconns, htls⟩ := hq2
            simp only [sat_ret]
            right
            exact ⟨by omega, by simpa using ht, Quiet.trans hq ⟨hsame, hlen, hext, hconns, htls⟩⟩
  | ok =>
    obtain ⟨l, rest, hsc, rfl⟩ := hr
    simp only
    split
    · rename_i c hc
      simp only [sat_ret]
      left
      exact ⟨by omega, l, rest, hsc, rfl, by simpa using hc⟩
    · exact syntaxFail_spec t s _ ⟨Same.of_eq rfl rfl rfl, by rw [hsc]; exact List.suffix_cons _ _, rfl, rfl, rfl⟩

/-! ### checkreply -/

def CrRet (fatal ign : Bool) (s : St) (r : Option Int) (s' : St) : Prop :=
  ∃ mid, s'.status = s.status ++ mid ∧ NUL ∉ mid ∧ (ign = true → mid = []) ∧ s'.log = s.log ∧ SentQ s s'
    ∧ s'.script.length ≤ s.script.length ∧ s'.ext = s.ext ∧ s'.conns = s.conns ∧ s'.tls = s.tls
    ∧ (match r with
       | none => NUL ∉ s'.lin ∧ s'.sock = s.sock ∧ s'.sent = s.sent ∧ (∀ x, x ∈ s'.script → x ∈ s.script)
       | some t => fatal = false ∧ t < 0)

def CrExit (fatal ign : Bool) (s s' : St) : Prop :=
  ∃ mid z, s'.status = s.status ++ mid ++ z ∧ NUL ∉ mid ∧ (ign = true → mid = []) ∧ Rep [letterZ] z
    ∧ s'.log = s.log ∧ SentQ s s' ∧ AbortCause fatal s

theorem nul_not_mem_line_lf {l : List Byte} (h : NUL ∉ l) : NUL ∉ l ++ [LF] := by
  intro hm
  rcases List.mem_append.mp hm with h' | h'
  · exact h h'
  · simp [NUL, LF] at h'

theorem crLoop_spec (fatal ign : Bool) : ∀ (fuel : Nat) (s : St), s.script.length < fuel → NUL ∉ s.lin →
    (crLoop fatal ign fuel s).sat (CrRet fatal ign s) (CrExit fatal ign s) := by
  intro fuel
  induction fuel with
  | zero => intro s h; omega
  | succ fuel ih =>
    intro s hfuel hnul
    unfold crLoop
    split
    · -- one more line
      -- the state after the optional write
      generalize hs1 : (if ign = true then s else wr (s.lin ++ [LF]) s) = s1
      have hs1st : ∃ w, s1.status = s.status ++ w ∧ NUL ∉ w ∧ (ign = true → w = []) ∧
          s1 = { s with status := s.status ++ w } := by
        subst hs1
        split
        · exact ⟨[], by simp, by simp, fun _ => rfl, by simp⟩
        · rename_i hi
          exact ⟨s.lin ++ [LF], rfl, nul_not_mem_line_lf hnul, fun h => absurd h hi, rfl⟩
      obtain ⟨w, hw, hwn, hwi, hs1eq⟩ := hs1st
      have hsc1 : s1.script = s.script := by rw [hs1eq]
      have hsock1 : s1.sock = s.sock := by rw [hs1eq]
      apply sat_bind' (netget_spec fatal s1)
      · rintro s' ⟨⟨⟨d, hd, hr⟩, hl, hq⟩, hc⟩
        refine ⟨w, d, by rw [hd, hw], hwn, hwi, hr, by rw [hl, hs1eq], ?_, ?_⟩
        · obtain ⟨dn, hdn, hqq⟩ := hq
          exact ⟨dn, by rw [hdn, hs1eq], hqq⟩
        · rcases hc with h | h | h
          · exact Or.inl h
          · exact Or.inr (Or.inl (by rw [← hsc1]; exact h))
          · exact Or.inr (Or.inr (by rw [← hsock1]; exact h))
      · intro t s2 hret
        rcases hret with ⟨hpos, l, rest, hsc, rfl, hcode⟩ | ⟨hneg, hf, hq⟩
        · -- a further line: recurse
          have hcond : ¬ (¬ (fatal = true) ∧ t < 0) := by omega
          rw [if_neg hcond]
          have hlen : rest.length < fuel := by
            have : s.script.length = rest.length + 1 := by rw [← hsc1, hsc]; simp
            omega
          apply sat_mono (ih _ (by simpa using hlen) (by simpa using nul_not_mem_of_codeOf hcode))
          · intro r s3 ⟨mid, hst, hmn, hmi, hlog, hsq, hlen3, hext, hconns, htls, hr⟩
            refine ⟨w ++ mid, ?_, ?_, ?_, ?_, ?_, ?_, ?_, ?_, ?_, ?_⟩
            · rw [hst]; simp [hs1eq, List.append_assoc]
            · intro hm; rcases List.mem_append.mp hm with h | h
              · exact hwn h
              · exact hmn h
            · intro hi; rw [hwi hi, hmi hi]; rfl
            · rw [hlog]; simp [hs1eq]
            · obtain ⟨dn, hdn, hqq⟩ := hsq
              exact ⟨dn, by rw [hdn]; simp [hs1eq], hqq⟩
            · have : s.script.length = rest.length + 1 := by rw [← hsc1, hsc]; simp
              simp at hlen3; omega
            · rw [hext]; simp [hs1eq]
            · rw [hconns]; simp [hs1eq]
            · rw [htls]; simp [hs1eq]
            · cases r with
              | none =>
                obtain ⟨h1, h2, h3, h4⟩ := hr
                refine ⟨h1, by rw [h2]; simp [hs1eq], by rw [h3]; simp [hs1eq], ?_⟩
                intro x hx
                have := h4 x hx
                simp at this
                rw [← hsc1, hsc]; exact List.mem_cons_of_mem _ this
              | some t' => exact hr
          · intro s3 ⟨mid, z, hst, hmn, hmi, hz, hlog, hsq, hc⟩
            refine ⟨w ++ mid, z, ?_, ?_, ?_, hz, ?_, ?_, ?_⟩
            · rw [hst]; simp [hs1eq, List.append_assoc]
            · intro hm; rcases List.mem_append.mp hm with h | h
              · exact hwn h
              · exact hmn h
            · intro hi; rw [hwi hi, hmi hi]; rfl
            · rw [hlog]; simp [hs1eq]
            · obtain ⟨dn, hdn, hqq⟩ := hsq
              exact ⟨dn, by rw [hdn]; simp [hs1eq], hqq⟩
            · rcases hc with h | h | h
              · exact Or.inl h
              · right; left
                simp at h
                rw [← hsc1, hsc]; exact List.mem_cons_of_mem _ h
              · right; right
                simp [hs1eq] at h; exact h
        · -- a non-fatal read failed
          have hcond : (¬ (fatal = true) ∧ t < 0) := ⟨by simp [hf], hneg⟩
          rw [if_pos hcond]
          simp only [sat_ret]
          obtain ⟨⟨hst2, hlog2, hsq2⟩, hlen2, hext2, hconns2, htls2⟩ := hq
          refine ⟨w, ?_, hwn, hwi, ?_, ?_, ?_, ?_, ?_, ?_, hf, hneg⟩
          · split <;> simp [hst2, hw]
          · split <;> simp [hlog2, hs1eq]
          · obtain ⟨dn, hdn, hqq⟩ := hsq2
            refine ⟨dn, ?_, hqq⟩
            split <;> simp [hdn, hs1eq]
          · have := hlen2.length_le
            split <;> simp [hsc1 ▸ this]
          · split <;> simp [hext2, hs1eq]
          · split <;> simp [hconns2, hs1eq]
          · split <;> simp [htls2, hs1eq]
    · simp only [sat_ret]
      exact ⟨[], by simp, by simp, fun _ => rfl, rfl, SentQ.refl s, Nat.le_refl _, rfl, rfl, rfl, hnul, rfl, rfl,
        fun _ h => h⟩

/-- `crStart` only appends to the status stream -/
theorem crStart_eq (status : Option (List Byte)) (pre : List (List Byte)) (mask m : Nat) (s1 : St) :
    ∃ w, (crStart status pre mask m s1).1 = { s1 with status := s1.status ++ w } := by
  unfold crStart
  split
  · exact ⟨[], by simp⟩
  · split
    · exact ⟨[], by simp⟩
    · simp only [wr, writeStatusRawM]
      split <;> split <;> exact ⟨_, by simp [List.append_assoc]; rfl⟩

/-- the state in which `checkreply` starts to look for further lines -/
def crEntry (tag : Nat) (s : St) (l : List Byte) (rest : List Rd) (res : Int) : St :=
  { s with script := rest, lin := l, log := s.log ++ [(tag, res)] }

def CheckRet (tag : Nat) (st : List Byte) (pre : List (List Byte)) (mask : Nat) (s : St) (c : Int) (s' : St) : Prop :=
  ∃ res l rest, 0 ≤ res ∧ s.script = .line l :: rest ∧ codeOf l = some res.toNat
    ∧ c = (if res < 200 then 599 else res)
    ∧ ∃ mid, NUL ∉ mid ∧ ((crStart (some st) pre mask (classOf res) (crEntry tag s l rest res)).2 = true → mid = [])
      ∧ s'.status = (crStart (some st) pre mask (classOf res) (crEntry tag s l rest res)).1.status ++ mid
          ++ (if (crStart (some st) pre mask (classOf res) (crEntry tag s l rest res)).2 then [] else cstr s'.lin ++ [LF, NUL])
      ∧ s'.log = s.log ++ [(tag, res)] ∧ s'.sock = s.sock ∧ s'.sent = s.sent ∧ s'.ext = s.ext
      ∧ s'.conns = s.conns ∧ s'.tls = s.tls ∧ s'.script.length < s.script.length
      ∧ (∀ x, x ∈ s'.script → x ∈ s.script)

def CheckExit (tag : Nat) (st : List Byte) (pre : List (List Byte)) (mask : Nat) (s s' : St) : Prop :=
  Aborted s s' ∨
  ∃ res l rest, 0 ≤ res ∧ s.script = .line l :: rest ∧ codeOf l = some res.toNat
    ∧ ∃ mid z, NUL ∉ mid ∧ ((crStart (some st) pre mask (classOf res) (crEntry tag s l rest res)).2 = true → mid = [])
      ∧ Rep [letterZ] z
      ∧ s'.status = (crStart (some st) pre mask (classOf res) (crEntry tag s l rest res)).1.status ++ mid ++ z
      ∧ s'.log = s.log ++ [(tag, res)] ∧ SentQ s s'

theorem checkreplyTail_some_spec (tag : Nat) (st : List Byte) (pre : List (List Byte)) (mask : Nat) (s : St)
    (res : Int) (l : List Byte) (rest : List Rd) (hpos : 0 ≤ res) (hsc : s.script = .line l :: rest)
    (hcode : codeOf l = some res.toNat) :
    (checkreplyTail (some st) pre mask res (crEntry tag s l rest res)).sat
      (CheckRet tag st pre mask s) (CheckExit tag st pre mask s) := by
  unfold checkreplyTail
  have hcond : ¬ (¬ ((some st).isSome = true) ∧ res < 0) := by simp
  simp only [if_neg hcond]
  generalize hstart : crStart (some st) pre mask (classOf res) (crEntry tag s l rest res) = start
  obtain ⟨w, hw⟩ := crStart_eq (some st) pre mask (classOf res) (crEntry tag s l rest res)
  rw [hstart] at hw
  have hlin : NUL ∉ start.1.lin := by rw [hw]; exact nul_not_mem_of_codeOf hcode
  apply sat_bind' (crLoop_spec true start.2 _ start.1 (Nat.lt_succ_self _) hlin)
  · rintro s' ⟨mid, z, hst, hmn, hmi, hz, hlog, hsq, _⟩
    right
    refine ⟨res, l, rest, hpos, hsc, hcode, mid, z, hmn, ?_, hz, ?_, ?_, ?_⟩
    · rw [hstart]; exact hmi
    · rw [hstart]; exact hst
    · rw [hlog, hw]; rfl
    · obtain ⟨dn, hdn, hqq⟩ := hsq
      exact ⟨dn, by rw [hdn, hw]; rfl, hqq⟩
  · intro early s4 ⟨mid, hst, hmn, hmi, hlog, hsq, hlen, hext, hconns, htls, hr⟩
    cases early with
    | some t => exact absurd hr.1 (by simp)
    | none =>
      obtain ⟨hl4, hsock4, hsent4, hsub4⟩ := hr
      simp only [sat_ret]
      refine ⟨res, l, rest, hpos, hsc, hcode, rfl, mid, hmn, ?_, ?_, ?_, ?_, ?_, ?_, ?_, ?_, ?_, ?_⟩
      · rw [hstart]; exact hmi
      · rw [hstart]
        split
        · simp [hst]
        · simp [writeStatus, wr, hst]
      · split <;> simp [writeStatus, wr, hlog, hw, crEntry]
      · split <;> simp [writeStatus, wr, hsock4, hw, crEntry]
      · split <;> simp [writeStatus, wr, hsent4, hw, crEntry]
      · split <;> simp [writeStatus, wr, hext, hw, crEntry]
      · split <;> simp [writeStatus, wr, hconns, hw, crEntry]
      · split <;> simp [writeStatus, wr, htls, hw, crEntry]
      · have h1 : start.1.script.length = rest.length := by rw [hw]; rfl
        have h2 : s4.script.length ≤ rest.length := by rw [← h1]; exact hlen
        have h3 : s.script.length = rest.length + 1 := by rw [hsc]; simp
        split <;> simp [writeStatus, wr] <;> omega
      · intro x hx
        have hx4 : x ∈ s4.script := by
          revert hx; split <;> simp [writeStatus, wr]
        have := hsub4 x hx4
        rw [hw] at this
        rw [hsc]; exact List.mem_cons_of_mem _ (by simpa [crEntry] using this)

/-- `checkreply()` with status letters (all reads fatal) -/
theorem checkreply_some_spec (tag : Nat) (st : List Byte) (pre : List (List Byte)) (mask : Nat) (s : St) :
    (checkreply tag (some st) pre mask s).sat (CheckRet tag st pre mask s) (CheckExit tag st pre mask s) := by
  unfold checkreply
  apply sat_bind' (netget_spec true s) (fun _ h => Or.inl h.1)
  intro res s1 hret
  rcases hret with ⟨hpos, l, rest, hsc, rfl, hcode⟩ | ⟨_, hf, _⟩
  · exact checkreplyTail_some_spec tag st pre mask s res l rest hpos hsc hcode
  · simp at hf

/-! ### the reply classes and the instances of checkreply -/

theorem codeOf_range {l : List Byte} {c : Nat} (h : codeOf l = some c) : 200 ≤ c ∧ c ≤ 599 := by
  unfold codeOf at h
  split at h
  · split at h
    · rename_i a b c' d _ hc
      obtain ⟨_, h1, h2, h3, h4, _⟩ := hc
      simp only [isDigit, decide_eq_true_eq] at h3 h4
      simp only [Option.some.injEq] at h
      have e1 : Gen.Qr.codeFirstMin = 2 := rfl
      have e2 : Gen.Qr.codeFirstMax = 5 := rfl
      rw [e1] at h1; rw [e2] at h2
      omega
    · simp at h
  · simp at h

theorem classOf_lt (res : Int) : classOf res < 3 := by
  unfold classOf; split
  · omega
  · split <;> omega

/-- report letter of a recipient reply of class `m` -/
def letterOf (m : Nat) : Byte := if m = 0 then 114 else if m = 1 then 115 else 104

theorem rep_build (c : Byte) (w tail : List Byte) (hw : NUL ∉ w) (ht : NUL ∉ tail) :
    Rep [c] (c :: w ++ tail ++ [NUL]) :=
  ⟨c, w ++ tail, by simp, by simp, by
    intro h; rcases List.mem_append.mp h with h | h
    · exact hw h
    · exact ht h⟩

/-- an abort report that lands behind an open report becomes part of that report's text -/
theorem rep_absorb (c : Byte) (w z : List Byte) (hw : NUL ∉ w) (hz : Rep [letterZ] z) :
    Rep [c] (c :: w ++ z) := by
  obtain ⟨c', t, rfl, hc, ht⟩ := hz
  refine ⟨c, w ++ c' :: t, by simp, by simp, ?_⟩
  intro h
  rcases List.mem_append.mp h with h | h
  · exact hw h
  · rcases List.mem_cons.mp h with h | h
    · simp at hc; rw [hc] at h; simp [NUL, letterZ] at h
    · exact ht h

theorem nul_not_mem_cstr_lf (l : List Byte) : NUL ∉ cstr l ++ [LF] := by
  intro h; rcases List.mem_append.mp h with h | h
  · exact nul_not_mem_cstr l h
  · simp [NUL, LF] at h

theorem crStart_rcpt (m : Nat) (hm : m < 3) (s1 : St) :
    crStart (some Gen.Qr.lettersRcpt) [] Gen.Qr.maskRcpt m s1 =
      if m = 0 then ({ s1 with status := s1.status ++ [114, NUL] }, true)
      else ({ s1 with status := s1.status ++ [letterOf m] }, false) := by
  have h : m = 0 ∨ m = 1 ∨ m = 2 := by omega
  rcases h with rfl | rfl | rfl <;> simp [crStart, wr, Gen.Qr.lettersRcpt, Gen.Qr.maskRcpt, Gen.Qr.maskNoText, SP, letterOf]

/-- the frame every returning `checkreply()` with status letters keeps -/
def CrKeeps (s s' : St) : Prop :=
  s'.sock = s.sock ∧ s'.sent = s.sent ∧ s'.ext = s.ext ∧ s'.conns = s.conns ∧ s'.tls = s.tls
    ∧ s'.script.length < s.script.length ∧ (∀ x, x ∈ s'.script → x ∈ s.script)

/-- `checkreply("rsh", NULL, 8)`: one complete recipient report whose letter is the class of the
reply; an abort before the reply is a message report; an abort *inside* a multi-line 4xx/5xx
reply ends up inside the still open recipient report (known finding) -/
theorem checkreply_rcpt_spec (s : St) :
    (checkreply tagRcpt (some Gen.Qr.lettersRcpt) [] Gen.Qr.maskRcpt s).sat
      (fun c s' => 200 ≤ c ∧ ∃ d, Rep [letterOf (classOf c)] d ∧ s'.status = s.status ++ d
          ∧ s'.log = s.log ++ [(tagRcpt, c)] ∧ CrKeeps s s')
      (fun s' => Aborted s s' ∨ ∃ c d, 200 ≤ c ∧ s'.log = s.log ++ [(tagRcpt, c)] ∧ SentQ s s'
          ∧ s'.status = s.status ++ d
          ∧ ((classOf c ≠ 0 ∧ Rep [letterOf (classOf c)] d)
             ∨ (classOf c = 0 ∧ ∃ z, d = [114, NUL] ++ z ∧ Rep [letterZ] z))) := by
  apply sat_mono (checkreply_some_spec _ _ _ _ s)
  · rintro c s' ⟨res, l, rest, hpos, hsc, hcode, rfl, mid, hmn, hmi, hst, hlog, hk⟩
    have hr := codeOf_range hcode
    have hres : 200 ≤ res := by omega
    have hc : (if res < 200 then 599 else res) = res := by rw [if_neg]; omega
    rw [hc]
    rw [crStart_rcpt _ (classOf_lt res)] at hst hmi
    refine ⟨hres, ?_⟩
    by_cases hm : classOf res = 0
    · simp only [hm, if_true] at hst hmi
      refine ⟨[114, NUL], ⟨114, [], by simp, by simp [letterOf, hm], by simp⟩, ?_, hlog, hk⟩
      rw [hst, hmi trivial]; simp [crEntry]
    · simp only [hm, if_false] at hst hmi
      refine ⟨letterOf (classOf res) :: mid ++ (cstr s'.lin ++ [LF]) ++ [NUL],
        rep_build _ mid _ hmn (nul_not_mem_cstr_lf _), ?_, hlog, hk⟩
      rw [hst]; simp [crEntry, List.append_assoc]
  · rintro s' (h | ⟨res, l, rest, hpos, hsc, hcode, mid, z, hmn, hmi, hz, hst, hlog, hsq⟩)
    · exact Or.inl h
    · right
      have hr := codeOf_range hcode
      have hres : 200 ≤ res := by omega
      rw [crStart_rcpt _ (classOf_lt res)] at hst hmi
      by_cases hm : classOf res = 0
      · simp only [hm, if_true] at hst hmi
        refine ⟨res, [114, NUL] ++ z, hres, hlog, hsq, ?_, Or.inr ⟨hm, z, rfl, hz⟩⟩
        rw [hst, hmi trivial]; simp [crEntry]
      · simp only [hm, if_false] at hst hmi
        refine ⟨res, letterOf (classOf res) :: mid ++ z, hres, hlog, hsq, ?_, Or.inl ⟨hm, rep_absorb _ mid z hmn hz⟩⟩
        rw [hst]; simp [crEntry, List.append_assoc]

theorem Rep.mono {L L' : List Byte} {d : List Byte} (h : Rep L d) (hl : ∀ c, c ∈ L → c ∈ L') : Rep L' d := by
  obtain ⟨c, t, e, hc, ht⟩ := h
  exact ⟨c, t, e, hl c hc, ht⟩

/-- generic reading of `CheckRet`: what the status stream gained, given what `crStart` does -/
theorem checkRet_elim {tag : Nat} {st : List Byte} {pre : List (List Byte)} {mask : Nat} {s s' : St} {c : Int}
    (h : CheckRet tag st pre mask s c s') :
    ∃ res l rest, 200 ≤ res ∧ c = res ∧ s'.log = s.log ++ [(tag, res)] ∧ CrKeeps s s'
      ∧ (∀ ch w, crStart (some st) pre mask (classOf res) (crEntry tag s l rest res)
            = ({ (crEntry tag s l rest res) with status := s.status ++ ch :: w }, false) → NUL ∉ w →
          ∃ d, Rep [ch] d ∧ s'.status = s.status ++ d)
      ∧ (crStart (some st) pre mask (classOf res) (crEntry tag s l rest res) = (crEntry tag s l rest res, true) →
          s'.status = s.status) := by
  obtain ⟨res, l, rest, hpos, hsc, hcode, rfl, mid, hmn, hmi, hst, hlog, hk⟩ := h
  have hr := codeOf_range hcode
  have hres : 200 ≤ res := by omega
  have hc : (if res < 200 then 599 else res) = res := by rw [if_neg]; omega
  refine ⟨res, l, rest, hres, hc, hlog, hk, ?_, ?_⟩
  · intro ch w hstart hw
    rw [hstart] at hst
    refine ⟨ch :: (w ++ mid) ++ (cstr s'.lin ++ [LF]) ++ [NUL], rep_build _ _ _ ?_ (nul_not_mem_cstr_lf _), ?_⟩
    · intro hm; rcases List.mem_append.mp hm with h | h
      · exact hw h
      · exact hmn h
    · rw [hst]; simp [List.append_assoc]
  · intro hstart
    rw [hstart] at hst hmi
    rw [hst, hmi rfl]; simp [crEntry]

theorem checkExit_elim {tag : Nat} {st : List Byte} {pre : List (List Byte)} {mask : Nat} {s s' : St}
    (h : CheckExit tag st pre mask s s') :
    Aborted s s' ∨ ∃ res l rest, 200 ≤ res ∧ s'.log = s.log ++ [(tag, res)] ∧ SentQ s s'
      ∧ (∀ ch w, crStart (some st) pre mask (classOf res) (crEntry tag s l rest res)
            = ({ (crEntry tag s l rest res) with status := s.status ++ ch :: w }, false) → NUL ∉ w →
          ∃ d, Rep [ch] d ∧ s'.status = s.status ++ d)
      ∧ (crStart (some st) pre mask (classOf res) (crEntry tag s l rest res) = (crEntry tag s l rest res, true) →
          ∃ d, Rep [letterZ] d ∧ s'.status = s.status ++ d) := by
  rcases h with h | ⟨res, l, rest, hpos, hsc, hcode, mid, z, hmn, hmi, hz, hst, hlog, hsq⟩
  · exact Or.inl h
  · right
    have hr := codeOf_range hcode
    refine ⟨res, l, rest, by omega, hlog, hsq, ?_, ?_⟩
    · intro ch w hstart hw
      rw [hstart] at hst
      refine ⟨ch :: (w ++ mid) ++ z, rep_absorb _ _ z ?_ hz, ?_⟩
      · intro hm; rcases List.mem_append.mp hm with h | h
        · exact hw h
        · exact hmn h
      · rw [hst]; simp [List.append_assoc]
    · intro hstart
      rw [hstart] at hst hmi
      exact ⟨z, hz, by rw [hst, hmi rfl]; simp [crEntry]⟩

/-- letter of the message report for a MAIL FROM reply of class 1 / 2 -/
def mailLetter (m : Nat) : Byte := if m = 1 then 90 else 68
/-- letter of the message report for the reply to the end of data -/
def dotLetter (m : Nat) : Byte := if m = 0 then 75 else if m = 1 then 90 else 68

theorem crStart_mail (rhost : List Byte) (m : Nat) (hm : m < 3) (e : St) :
    crStart (some Gen.Qr.lettersMail) [Gen.Qr.mailErr0, rhost, Gen.Qr.mailErr2] Gen.Qr.maskMail m e =
      if m = 0 then (e, true)
      else ({ e with status := e.status ++ mailLetter m :: ([Gen.Qr.mailErr0, rhost, Gen.Qr.mailErr2].map cstr).flatten }, false) := by
  have h : m = 0 ∨ m = 1 ∨ m = 2 := by omega
  rcases h with rfl | rfl | rfl <;>
    simp [crStart, wr, writeStatusRawM, Gen.Qr.lettersMail, Gen.Qr.maskMail, Gen.Qr.maskNoText, SP, mailLetter]

theorem crStart_dot (pre : List (List Byte)) (hpre : pre ≠ []) (m : Nat) (hm : m < 3) (e : St) :
    crStart (some Gen.Qr.lettersData) pre Gen.Qr.maskData m e =
      ({ e with status := e.status ++ dotLetter m :: (if m = 0 then (pre.map cstr).flatten else []) }, false) := by
  have h : m = 0 ∨ m = 1 ∨ m = 2 := by omega
  rcases h with rfl | rfl | rfl <;>
    simp [crStart, wr, writeStatusRawM, Gen.Qr.lettersData, Gen.Qr.maskData, Gen.Qr.maskNoText, SP, dotLetter, hpre]

/-- `checkreply(" ZD", mailerrmsg, 6)` -/
theorem checkreply_mail_spec (rhost : List Byte) (s : St) :
    (checkreply tagMail (some Gen.Qr.lettersMail) [Gen.Qr.mailErr0, rhost, Gen.Qr.mailErr2] Gen.Qr.maskMail s).sat
      (fun c s' => 200 ≤ c ∧ s'.log = s.log ++ [(tagMail, c)] ∧ CrKeeps s s'
          ∧ (classOf c = 0 → s'.status = s.status)
          ∧ (classOf c ≠ 0 → ∃ d, Rep [mailLetter (classOf c)] d ∧ s'.status = s.status ++ d))
      (fun s' => (s'.log = s.log ∨ ∃ c, s'.log = s.log ++ [(tagMail, c)]) ∧ SentQ s s'
          ∧ ∃ d, Rep [letterZ, letterD] d ∧ s'.status = s.status ++ d) := by
  apply sat_mono (checkreply_some_spec _ _ _ _ s)
  · intro c s' h
    obtain ⟨res, l, rest, hres, rfl, hlog, hk, h1, h2⟩ := checkRet_elim h
    refine ⟨hres, hlog, hk, ?_, ?_⟩
    · intro hm
      apply h2
      rw [crStart_mail _ _ (classOf_lt _), if_pos hm]
    · intro hm
      apply h1
      · rw [crStart_mail _ _ (classOf_lt _), if_neg hm]; rfl
      · exact nul_not_mem_flatten_cstr _
  · intro s' h
    rcases checkExit_elim h with ⟨⟨d, hd, hr⟩, hl, hq⟩ | ⟨res, l, rest, hres, hlog, hsq, h1, h2⟩
    · exact ⟨Or.inl hl, hq, d, hr.mono (by simp), hd⟩
    · refine ⟨Or.inr ⟨res, hlog⟩, hsq, ?_⟩
      by_cases hm : classOf res = 0
      · obtain ⟨d, hr, hd⟩ := h2 (by rw [crStart_mail _ _ (classOf_lt _), if_pos hm])
        exact ⟨d, hr.mono (by simp), hd⟩
      · obtain ⟨d, hr, hd⟩ := h1 _ _ (by rw [crStart_mail _ _ (classOf_lt _), if_neg hm]; rfl)
          (nul_not_mem_flatten_cstr _)
        refine ⟨d, hr.mono ?_, hd⟩
        intro c hc; simp at hc; subst hc
        unfold mailLetter; split <;> simp [letterZ, letterD]

/-- `checkreply("KZD", successmsg, 1)` -/
theorem checkreply_dot_spec (pre : List (List Byte)) (hpre : pre ≠ []) (s : St) :
    (checkreply tagDot (some Gen.Qr.lettersData) pre Gen.Qr.maskData s).sat
      (fun c s' => 200 ≤ c ∧ s'.log = s.log ++ [(tagDot, c)] ∧ CrKeeps s s'
          ∧ ∃ d, Rep [dotLetter (classOf c)] d ∧ s'.status = s.status ++ d)
      (fun s' => SentQ s s' ∧
          ((s'.log = s.log ∧ ∃ d, Rep [letterZ] d ∧ s'.status = s.status ++ d)
           ∨ ∃ c, s'.log = s.log ++ [(tagDot, c)] ∧ ∃ d, Rep [dotLetter (classOf c)] d ∧ s'.status = s.status ++ d)) := by
  have hnn : ∀ m : Nat, NUL ∉ (if m = 0 then (pre.map cstr).flatten else []) := by
    intro m; split
    · exact nul_not_mem_flatten_cstr _
    · simp
  apply sat_mono (checkreply_some_spec _ _ _ _ s)
  · intro c s' h
    obtain ⟨res, l, rest, hres, rfl, hlog, hk, h1, _⟩ := checkRet_elim h
    exact ⟨hres, hlog, hk, h1 _ _ (by rw [crStart_dot pre hpre _ (classOf_lt _)]; rfl) (hnn _)⟩
  · intro s' h
    rcases checkExit_elim h with ⟨⟨d, hd, hr⟩, hl, hq⟩ | ⟨res, l, rest, hres, hlog, hsq, h1, _⟩
    · exact ⟨hq, Or.inl ⟨hl, d, hr, hd⟩⟩
    · exact ⟨hsq, Or.inr ⟨res, hlog, h1 _ _ (by rw [crStart_dot pre hpre _ (classOf_lt _)]; rfl) (hnn _)⟩⟩

/-! ### sending commands -/

theorem sendAll_spec (ps : List (List Byte)) (s : St) :
    (sendAll ps s).sat (fun _ s' => s' = { s with sent := s.sent ++ ps } ∧ (ps ≠ [] → s.sock = true))
      (fun s' => Aborted s s' ∧ s.sock = false) := by
  induction ps generalizing s with
  | nil => simp [sendAll]
  | cons p ps ih =>
    unfold sendAll
    apply sat_bind' (netnwrite_spec p s) (fun _ h => ⟨h.1, h.2.2⟩)
    rintro _ s1 ⟨rfl, hs⟩
    apply sat_mono (ih _)
    · rintro _ s2 ⟨rfl, _⟩
      exact ⟨by simp, fun _ => hs⟩
    · rintro s2 ⟨_, h⟩
      simp at h; rw [hs] at h; exact absurd h (by simp)

/-- every line `net_writen()` produces starts with the first byte of its first part -/
theorem writen_lines (s0 : List Byte) (ss : List (List Byte)) (h0 : 3 < s0.length) (h1 : s0.length < 510) :
    ∃ out, Writen.netWriten s0 ss = .ok out ∧ out ≠ [] ∧ ∀ p ∈ out, p.head? = s0.head? := by
  obtain ⟨out, hok, cs, clast, c, _, hout, _, _⟩ := Props.C10.writen_valid s0 ss h0 h1
  refine ⟨out, hok, ?_, ?_⟩
  · rw [hout]; simp
  · have hhead : ∀ sep x, (Writen.frame (s0.take 3) sep x).head? = s0.head? := by
      intro sep x
      match s0, h0 with
      | a :: b :: d :: e :: t, _ => simp [Writen.frame]
    intro p hp
    rw [hout] at hp
    simp only [List.mem_append, List.mem_map, List.mem_singleton] at hp
    rcases hp with ⟨x, _, rfl⟩ | rfl
    · exact hhead _ _
    · exact hhead _ _

/-- `net_writen()` with a first part that starts with `b`: all its lines go out on an open socket -/
theorem netWriten_spec (s0 : List Byte) (ss : List (List Byte)) (h0 : 3 < s0.length) (h1 : s0.length < 510) (s : St) :
    (netWriten s0 ss s).sat
      (fun _ s' => s.sock = true ∧ ∃ out, Writen.netWriten s0 ss = .ok out ∧ s' = { s with sent := s.sent ++ out }
          ∧ ∀ p ∈ out, p.head? = s0.head?)
      (fun s' => Aborted s s' ∧ s.sock = false) := by
  obtain ⟨out, hok, hne, hh⟩ := writen_lines s0 ss h0 h1
  unfold netWriten
  rw [hok]
  apply sat_mono (sendAll_spec out s)
  · rintro _ s' ⟨rfl, hs⟩
    exact ⟨hs hne, out, rfl, rfl, hh⟩
  · intro s' h; exact h

theorem other_of_head {p : List Byte} {b : Byte} (h : p.head? = some b) (hb : b ≠ 68 ∧ b ≠ 77 ∧ b ≠ 82) : Other p := by
  intro b' h'; rw [h] at h'; simp at h'; subst h'; exact hb

/-! ### greeting, connect_mx -/

theorem netWriten_hello_spec (cmd helo : List Byte) (h0 : 3 < cmd.length) (h1 : cmd.length < 510)
    (hb : ∃ b, cmd.head? = some b ∧ b ≠ 68 ∧ b ≠ 77 ∧ b ≠ 82) (s : St) :
    (netWriten cmd [helo] s).sat (fun _ s' => Quiet s s' ∧ s'.sock = s.sock ∧ s'.script = s.script ∧ s'.lin = s.lin)
      (fun s' => Aborted s s') := by
  obtain ⟨b, hb1, hb2⟩ := hb
  apply sat_mono (netWriten_spec cmd [helo] h0 h1 s)
  · rintro _ s' ⟨_, out, _, rfl, hh⟩
    refine ⟨⟨⟨rfl, rfl, out, rfl, ?_⟩, List.suffix_refl _, rfl, rfl, rfl⟩, rfl, rfl, rfl⟩
    intro p hp
    exact other_of_head ((hh p hp).trans hb1) hb2
  · intro s' h; exact h.1

/-- a negative `netget(0)` or a reply: shared shape of the greeting loops -/
theorem netget_false_spec (s : St) :
    (netget false s).sat
      (fun c s' => Quiet s s' ∧ s'.script.length ≤ s.script.length ∧ (0 ≤ c → 200 ≤ c ∧ s'.sock = s.sock ∧ s'.script.length < s.script.length))
      (fun s' => Aborted s s') := by
  apply sat_mono (netget_spec false s) _ (fun _ h => h.1)
  rintro c s' (⟨hpos, l, rest, hsc, rfl, hcode⟩ | ⟨hneg, _, hq⟩)
  · have := codeOf_range hcode
    refine ⟨⟨Same.of_eq rfl rfl rfl, by rw [hsc]; exact List.suffix_cons _ _, rfl, rfl, rfl⟩, by simp [hsc], fun _ => ⟨by omega, rfl, by simp [hsc]⟩⟩
  · exact ⟨hq, hq.2.1.length_le, fun h => by omega⟩

theorem ehloLoop_spec (sc : Int) (hsc : 0 ≤ sc) : ∀ (fuel ret : Nat) (err : Bool) (s : St), s.script.length < fuel →
    (ehloLoop sc fuel ret err s).sat
      (fun r s' => Quiet s s' ∧ match r with
        | .inl t => t < 0
        | .inr _ => s'.sock = s.sock)
      (fun s' => Aborted s s') := by
  intro fuel
  induction fuel with
  | zero => intro _ _ s h; omega
  | succ fuel ih =>
    intro ret err s hfuel
    unfold ehloLoop
    split
    · apply sat_bind (netget_false_spec s)
      intro t s1 ⟨hq, hlen, hpos⟩
      have step : ∀ ret' err', (ehloLoop sc fuel ret' err' s1).sat
          (fun r s' => Quiet s s' ∧ match r with
            | .inl t => t < 0
            | .inr _ => s'.sock = s.sock)
          (fun s' => Aborted s s') ∨ t < 0 := by
        intro ret' err'
        by_cases ht : t < 0
        · exact Or.inr ht
        · left
          obtain ⟨_, hsock, hlt⟩ := hpos (by omega)
          apply sat_mono (ih ret' err' s1 (by omega))
          · intro r s2 ⟨hq2, hr⟩
            refine ⟨hq.trans hq2, ?_⟩
            cases r with
            | inl t' => exact hr
            | inr x => simp only at hr ⊢; rw [hr, hsock]
          · intro s2 h; exact Aborted.same_left hq.1 h
      split
      · split
        · rename_i ht; simp only [sat_ret]; exact ⟨hq, ht⟩
        · rename_i ht
          rcases step ret true with h | h
          · exact h
          · exact absurd h ht
      · have htpos : ¬ t < 0 := by
          rename_i heq; simp at heq
          omega
        split
        · dsimp only
          split
          · rcases step ret true with h | h
            · exact h
            · exact absurd h htpos
          · rcases step (ret ||| (checkExtension (List.drop 4 s1.lin)).toNat) err with h | h
            · exact h
            · exact absurd h htpos
        · rcases step ret err with h | h
          · exact h
          · exact absurd h htpos
    · simp only [sat_ret]; exact ⟨Quiet.refl s, by trv⟩

theorem heloLoop_spec (sc : Int) : ∀ (fuel err : Nat) (s : St), s.script.length < fuel →
    (heloLoop sc fuel err s).sat
      (fun r s' => Quiet s s' ∧ match r with
        | .inl t => t < 0
        | .inr _ => s'.sock = s.sock)
      (fun s' => Aborted s s') := by
  intro fuel
  induction fuel with
  | zero => intro _ s h; omega
  | succ fuel ih =>
    intro err s hfuel
    unfold heloLoop
    split
    · apply sat_bind (netget_false_spec s)
      intro t s1 ⟨hq, hlen, hpos⟩
      split
      · rename_i ht; simp only [sat_ret]; exact ⟨hq, ht⟩
      · rename_i ht
        obtain ⟨_, hsock, hlt⟩ := hpos (by omega)
        apply sat_mono (ih _ s1 (by omega))
        · intro r s2 ⟨hq2, hr⟩
          refine ⟨hq.trans hq2, ?_⟩
          cases r with
          | inl t' => exact hr
          | inr x => simp only at hr ⊢; rw [hr, hsock]
        · intro s2 h; exact Aborted.same_left hq.1 h
    · simp only [sat_ret]; exact ⟨Quiet.refl s, by trv⟩

theorem ehlo_head : ∃ b, Gen.Qr.cmdEhlo.head? = some b ∧ b ≠ 68 ∧ b ≠ 77 ∧ b ≠ 82 := ⟨69, by decide⟩
theorem helo_head : ∃ b, Gen.Qr.cmdHelo.head? = some b ∧ b ≠ 68 ∧ b ≠ 77 ∧ b ≠ 82 := ⟨72, by decide⟩

/-- `greeting()`: nothing but EHLO/HELO is sent, nothing is reported; a non-negative result
leaves the connection open -/
theorem greeting_spec (helo : List Byte) (s : St) :
    (greeting helo s).sat (fun fe s' => Quiet s s' ∧ (0 ≤ fe → s'.sock = s.sock)) (fun s' => Aborted s s') := by
  unfold greeting
  apply sat_bind (netWriten_hello_spec Gen.Qr.cmdEhlo helo (by decide) (by decide) ehlo_head s)
  intro _ s1 ⟨hq1, hsock1, _, _⟩
  apply sat_bind' (netget_false_spec s1) (fun _ h => Aborted.same_left hq1.1 h)
  intro sc s2 ⟨hq2, _, hpos2⟩
  split
  · rename_i hneg; simp only [sat_ret]; exact ⟨hq1.trans hq2, fun h => by omega⟩
  · rename_i hnn
    obtain ⟨_, hsock2, _⟩ := hpos2 (by omega)
    have hq12 := hq1.trans hq2
    apply sat_bind' (ehloLoop_spec sc (by omega) _ 0 false s2 (Nat.lt_succ_self _)) (fun _ h => Aborted.same_left hq12.1 h)
    intro r s3 ⟨hq3, hr⟩
    have hq13 := hq12.trans hq3
    cases r with
    | inl t => simp only [sat_ret]; exact ⟨hq13, fun h => by simp only at hr; omega⟩
    | inr x =>
      obtain ⟨ret, err⟩ := x
      simp only at hr ⊢
      have hsock3 : s3.sock = s.sock := by rw [hr, hsock2, hsock1]
      split
      · simp only [sat_ret]; exact ⟨hq13, fun h => by simp [EINVAL] at h⟩
      · split
        · simp only [sat_ret]; exact ⟨hq13, fun _ => hsock3⟩
        · apply sat_bind' (netWriten_hello_spec Gen.Qr.cmdHelo helo (by decide) (by decide) helo_head s3)
            (fun _ h => Aborted.same_left hq13.1 h)
          intro _ s4 ⟨hq4, hsock4, _, _⟩
          have hq14 := hq13.trans hq4
          apply sat_bind' (netget_false_spec s4) (fun _ h => Aborted.same_left hq14.1 h)
          intro sc2 s5 ⟨hq5, _, hpos5⟩
          have hq15 := hq14.trans hq5
          split
          · rename_i hneg; simp only [sat_ret]; exact ⟨hq15, fun h => by omega⟩
          · obtain ⟨_, hsock5, _⟩ := hpos5 (by omega)
            apply sat_bind' (heloLoop_spec sc2 _ 0 s5 (Nat.lt_succ_self _)) (fun _ h => Aborted.same_left hq15.1 h)
            intro r2 s6 ⟨hq6, hr6⟩
            have hq16 := hq15.trans hq6
            cases r2 with
            | inl t => simp only [sat_ret]; exact ⟨hq16, fun h => by simp only at hr6; omega⟩
            | inr e =>
              simp only at hr6 ⊢
              have hsock6 : s6.sock = s.sock := by rw [hr6, hsock5, hsock4, hsock3]
              split
              · simp only [sat_ret]; exact ⟨hq16, fun _ => hsock6⟩
              · split
                · simp only [sat_ret]; exact ⟨hq16, fun _ => hsock6⟩
                · simp only [sat_ret]; exact ⟨hq16, fun _ => hsock6⟩

theorem quitmsgIfNet_spec (error : Int) (s : St) :
    (quitmsgIfNet error s).sat (fun _ s' => Quiet s s' ∧ s'.sock = false) (fun s' => Aborted s s') := by
  unfold quitmsgIfNet
  split
  · simp only [sat_ret]; exact ⟨⟨Same.of_eq rfl rfl rfl, List.suffix_refl _, rfl, rfl, rfl⟩, by trv⟩
  · apply sat_mono (quitmsg_spec s)
    · intro _ s' ⟨h1, h2, _, h4, h5, h6, h7⟩; exact ⟨⟨h1, h4, h5, h6, h7⟩, h2⟩
    · intro s' h; exact h.1

theorem greetLoop_spec : ∀ (fuel : Nat) (sc : Int) (fe : Bool) (s : St), s.script.length < fuel →
    (greetLoop fuel sc fe s).sat
      (fun r s' => Quiet s s' ∧ ((r.1 = sc ∧ s'.sock = s.sock) ∨ r.1 ≤ 0))
      (fun s' => Aborted s s') := by
  intro fuel
  induction fuel with
  | zero => intro _ _ s h; omega
  | succ fuel ih =>
    intro sc fe s hfuel
    unfold greetLoop
    split
    · apply sat_bind (netget_false_spec s)
      intro t s1 ⟨hq, hlen, hpos⟩
      split
      · rename_i ht; simp only [sat_ret]; exact ⟨hq, Or.inr (by rw [ht]; simp [ECONNRESET])⟩
      · dsimp only
        split
        · rename_i htp
          obtain ⟨_, hsock, hlt⟩ := hpos (by omega)
          apply sat_mono (ih sc _ s1 (by omega))
          · intro r s2 ⟨hq2, hr⟩
            refine ⟨hq.trans hq2, ?_⟩
            rcases hr with ⟨h1, h2⟩ | h
            · exact Or.inl ⟨h1, by rw [h2, hsock]⟩
            · exact Or.inr h
          · intro s2 h; exact Aborted.same_left hq.1 h
        · rename_i htp; simp only [sat_ret]; exact ⟨hq, Or.inr (by omega)⟩
    · simp only [sat_ret]; exact ⟨Quiet.refl s, Or.inl ⟨by trv, by trv⟩⟩

/-- giving up on an unexpected greeting error either does not exist in the tree (the next MX is tried)
or writes a `Z` report first -/
theorem greetFail_ok : Gen.Qr.greetOtherNextMx = 1 ∨ (cstr Gen.Qr.stGreetFail).head? = some letterZ := by decide
theorem cstr_stTlsLocal : ∃ t, cstr stTlsLocal = letterZ :: t := exists_tail_of_head (by decide)

theorem tlsInit_spec (s : St) :
    (tlsInit s).sat
      (fun r s' => s'.conns = s.conns ∧ s'.sock = s.sock ∧ s'.script = s.script ∧ s'.ext = s.ext
          ∧ (r < 0 → Aborted s s') ∧ (0 ≤ r → Same s s'))
      (fun _ => False) := by
  unfold tlsInit
  split
  · simp only [sat_ret]; exact ⟨by trv, by trv, by trv, by trv, fun h => by omega, fun _ => Same.refl s⟩
  · rename_i r rest _
    dsimp only
    split
    · rename_i hr
      simp only [sat_ret]
      refine ⟨by trv, by trv, by trv, by trv, fun _ => ?_, fun h => by omega⟩
      exact Aborted.same_left (Same.of_eq rfl rfl rfl : Same s { s with tls := rest })
        (aborted_writeStatus _ _ cstr_stTlsLocal)
    · rename_i hr
      simp only [sat_ret]
      exact ⟨by trv, by trv, by trv, by trv, fun h => by omega, fun _ => Same.of_eq rfl rfl rfl⟩

/-- `connect_mx()`: reports nothing unless it gives up for good (then exactly one `Z` report);
returns 0 only with an open connection -/
theorem connectMx_spec (helo : List Byte) : ∀ (fuel : Nat) (s : St), s.conns < fuel →
    (connectMx helo fuel s).sat (fun i s' => Same s s' ∧ s'.script <:+ s.script ∧ (0 ≤ i → s'.sock = true))
      (fun s' => Aborted s s') := by
  intro fuel
  induction fuel with
  | zero => intro s h; omega
  | succ fuel ih =>
    intro s hfuel
    unfold connectMx
    split
    · simp only [sat_ret]; exact ⟨Same.refl s, List.suffix_refl _, fun h => by omega⟩
    · rename_i hc
      generalize hs0 : ({ s with conns := s.conns - 1, sock := true } : St) = s0
      have hsame0 : Same s s0 := by subst hs0; exact Same.of_eq rfl rfl rfl
      have hconns0 : s0.conns < fuel := by subst hs0; simp; omega
      have hsock0 : s0.sock = true := by subst hs0; rfl
      have hscr0 : s0.script = s.script := by subst hs0; rfl
      -- continuing with the next mail exchanger from any state reached quietly
      have cont : ∀ sx : St, Same s0 sx → sx.conns = s0.conns → sx.script <:+ s0.script →
          (connectMx helo fuel sx).sat (fun i s' => Same s s' ∧ s'.script <:+ s.script ∧ (0 ≤ i → s'.sock = true))
            (fun s' => Aborted s s') := by
        intro sx hq hcx hsx
        apply sat_mono (ih sx (by rw [hcx]; exact hconns0))
        · intro i s' ⟨h1, h2, h3⟩; exact ⟨(hsame0.trans hq).trans h1, h2.trans (hscr0 ▸ hsx), h3⟩
        · intro s' h; exact Aborted.same_left (hsame0.trans hq) h
      have ab : ∀ {sx s' : St}, Same s0 sx → Aborted sx s' → Aborted s s' :=
        fun hq h => Aborted.same_left (hsame0.trans hq) h
      apply sat_bind' (netget_false_spec s0) (fun _ h => Aborted.same_left hsame0 h)
      intro sc s1 ⟨hq1, _, hpos1⟩
      split
      · split
        · exact cont _ hq1.1 hq1.2.2.2.1 hq1.2.1
        · split
          · apply sat_bind' (quitmsgIfNet_spec sc s1) (fun _ h => ab hq1.1 h)
            intro _ s2 ⟨hq2, _⟩
            exact cont s2 (hq1.trans hq2).1 (hq1.trans hq2).2.2.2.1 (hq1.trans hq2).2.1
          · split
            · apply sat_bind' (quitmsg_spec s1) (fun _ h => ab hq1.1 h.1)
              intro _ s2 ⟨h1, _, _, h4, h5, h6, h7⟩
              exact cont s2 (hq1.1.trans h1) (h6.trans hq1.2.2.2.1) (h4.trans hq1.2.1)
            · split
              · exact cont _ hq1.1 hq1.2.2.2.1 hq1.2.1
              · rename_i hflag
                rcases greetFail_ok with h | hz
                · exact absurd h hflag
                · unfold shutdownAbort
                  simp only [sat_exit]
                  have hne : ¬ (Gen.Qr.stGreetFail = []) := by
                    intro h0; rw [h0] at hz; simp [cstr] at hz
                  rw [if_neg hne]
                  exact ab hq1.1 (Aborted.same_right (aborted_writeStatus s1 _ (exists_tail_of_head hz)) (Same.of_eq rfl rfl rfl))
      · rename_i hnn
        obtain ⟨_, hsock1, _⟩ := hpos1 (by omega)
        apply sat_bind' (greetLoop_spec _ sc false s1 (Nat.lt_succ_self _)) (fun _ h => ab hq1.1 h)
        intro r s2 ⟨hq2, hr2⟩
        obtain ⟨sc2, flagerr⟩ := r
        have hq12 := hq1.trans hq2
        dsimp only
        split
        · exact cont _ hq12.1 hq12.2.2.2.1 hq12.2.1
        · split
          · apply sat_bind' (quitmsgIfNet_spec sc2 s2) (fun _ h => ab hq12.1 h)
            intro _ s3 ⟨hq3, _⟩
            exact cont s3 (hq12.trans hq3).1 (hq12.trans hq3).2.2.2.1 (hq12.trans hq3).2.1
          · rename_i hne hok
            have hsc2 : sc2 = (Gen.Qr.greetingCode : Int) := by
              by_cases h : sc2 = (Gen.Qr.greetingCode : Int)
              · exact h
              · exact absurd (Or.inl h) hok
            have hsock2 : s2.sock = true := by
              rcases hr2 with ⟨_, h⟩ | h
              · rw [h, hsock1, hsock0]
              · simp only at h; rw [hsc2] at h; simp [Gen.Qr.greetingCode] at h
            apply sat_bind' (greeting_spec helo s2) (fun _ h => ab hq12.1 h)
            intro fe s3 ⟨hq3, hsock3⟩
            have hq13 := hq12.trans hq3
            split
            · apply sat_bind' (quitmsgIfNet_spec fe s3) (fun _ h => ab hq13.1 h)
              intro _ s4 ⟨hq4, _⟩
              exact cont s4 (hq13.trans hq4).1 (hq13.trans hq4).2.2.2.1 (hq13.trans hq4).2.1
            · rename_i hfe
              have hsock3' : s3.sock = true := by rw [hsock3 (by omega), hsock2]
              have hsame4 : Same s0 ({ s3 with ext := fe.toNat } : St) := hq13.1
              have hconns4 : ({ s3 with ext := fe.toNat } : St).conns = s0.conns := hq13.2.2.2.1
              have hscr4 : ({ s3 with ext := fe.toNat } : St).script <:+ s0.script := hq13.2.1
              split
              · apply sat_bind' (tlsInit_spec _) (fun _ h => False.elim h)
                intro tr s5 ⟨hc5, hs5, hscr5, _, hneg5, hpos5⟩
                split
                · rename_i htr
                  apply sat_mono (shutdownClean_spec s5 _) (fun _ _ h => h)
                  intro s' h
                  exact ab hsame4 (Aborted.same_right (hneg5 htr) h)
                · rename_i htr
                  have hsame5 : Same s0 s5 := hsame4.trans (hpos5 (by omega))
                  have hconns5 : s5.conns = s0.conns := hc5.trans hconns4
                  have hscr5' : s5.script <:+ s0.script := by rw [hscr5]; exact hscr4
                  split
                  · apply sat_bind' (quitmsgIfNet_spec _ s5) (fun _ h => ab hsame5 h)
                    intro _ s6 ⟨hq6, _⟩
                    exact cont s6 (hsame5.trans hq6.1) (hq6.2.2.2.1.trans hconns5) (hq6.2.1.trans hscr5')
                  · apply sat_bind' (greeting_spec helo s5) (fun _ h => ab hsame5 h)
                    intro fe2 s6 ⟨hq6, hsock6⟩
                    split
                    · apply sat_bind' (quitmsgIfNet_spec _ s6) (fun _ h => ab (hsame5.trans hq6.1) h)
                      intro _ s7 ⟨hq7, _⟩
                      exact cont s7 ((hsame5.trans hq6.1).trans hq7.1) (hq7.2.2.2.1.trans (hq6.2.2.2.1.trans hconns5))
                        (hq7.2.1.trans (hq6.2.1.trans hscr5'))
                    · rename_i hfe2
                      simp only [sat_ret]
                      refine ⟨hsame0.trans (hsame5.trans hq6.1), ?_, fun _ => ?_⟩
                      · show s6.script <:+ s.script
                        exact (hq6.2.1.trans hscr5').trans (hscr0 ▸ List.suffix_refl _)
                      · show s6.sock = true
                        rw [hsock6 (by omega), hs5]; exact hsock3'
              · simp only [sat_ret]
                exact ⟨hsame0.trans hsame4, hscr4.trans (hscr0 ▸ List.suffix_refl _), fun _ => hsock3'⟩

/-! ### draining after a rejected MAIL FROM -/

def DrainLog (s s' : St) : Prop := ∃ dl, s'.log = s.log ++ dl ∧ ∀ e ∈ dl, e.1 = tagDrain

theorem DrainLog.refl (s : St) : DrainLog s s := ⟨[], by simp, by simp⟩
theorem DrainLog.trans {a b c : St} (h1 : DrainLog a b) (h2 : DrainLog b c) : DrainLog a c := by
  obtain ⟨d1, e1, q1⟩ := h1
  obtain ⟨d2, e2, q2⟩ := h2
  refine ⟨d1 ++ d2, by rw [e2, e1, List.append_assoc], ?_⟩
  intro p hp
  rcases List.mem_append.mp hp with h | h
  · exact q1 p h
  · exact q2 p h

/-- `checkreply(NULL, NULL, 0)`: nothing is reported; the program ends here only when `read()`
fails with ENOMEM or the socket is already closed -/
theorem checkreply_none_spec (s : St) :
    (checkreply tagDrain none [] 0 s).sat
      (fun c s' => s'.status = s.status ∧ DrainLog s s' ∧ SentQ s s'
          ∧ (0 ≤ c → s'.sock = s.sock ∧ ∀ x, x ∈ s'.script → x ∈ s.script))
      (fun s' => (∃ d, Rep [letterZ] d ∧ s'.status = s.status ++ d) ∧ DrainLog s s' ∧ SentQ s s'
          ∧ AbortCause false s) := by
  unfold checkreply
  apply sat_bind' (netget_spec false s)
  · rintro s' ⟨⟨⟨d, hd, hr⟩, hl, hq⟩, hc⟩
    exact ⟨⟨d, hr, hd⟩, ⟨[], by simp [hl], by simp⟩, hq, hc⟩
  · intro res s1 hret
    unfold checkreplyTail
    rcases hret with ⟨hpos, l, rest, hsc, rfl, hcode⟩ | ⟨hneg, _, hq⟩
    · have hcond : ¬ (¬ ((none : Option (List Byte)).isSome = true) ∧ res < 0) := by omega
      simp only [if_neg hcond]
      have hstart : ∀ e : St, crStart none [] 0 (classOf res) e = (e, true) := fun e => rfl
      rw [hstart]
      dsimp only
      apply sat_bind' (crLoop_spec false true _ _ (Nat.lt_succ_self _) (by simpa using nul_not_mem_of_codeOf hcode))
      · rintro s' ⟨mid, z, hst, _, hmi, hz, hlog, hsq, hc⟩
        refine ⟨⟨z, hz, by rw [hst, hmi rfl]; simp⟩, ⟨[(tagDrain, res)], by rw [hlog], by simp⟩, ?_, ?_⟩
        · obtain ⟨dn, hdn, hqq⟩ := hsq; exact ⟨dn, by rw [hdn], hqq⟩
        · rcases hc with h | h | h
          · simp at h
          · right; left; simp at h; rw [hsc]; exact List.mem_cons_of_mem _ h
          · right; right; simpa using h
      · intro early s4 ⟨mid, hst, _, hmi, hlog, hsq, _, _, _, _, hr⟩
        have hst4 : s4.status = s.status := by rw [hst, hmi rfl]; simp
        have hlog4 : DrainLog s s4 := ⟨[(tagDrain, res)], by rw [hlog], by simp⟩
        have hsq4 : SentQ s s4 := by obtain ⟨dn, hdn, hqq⟩ := hsq; exact ⟨dn, by rw [hdn], hqq⟩
        cases early with
        | some t =>
          simp only [sat_ret]
          exact ⟨hst4, hlog4, hsq4, fun h => by have := hr.2; omega⟩
        | none =>
          obtain ⟨_, hsock4, _, hsub4⟩ := hr
          simp only [sat_ret, if_true]
          refine ⟨hst4, hlog4, hsq4, fun _ => ⟨by rw [hsock4], ?_⟩⟩
          intro x hx
          have := hsub4 x hx
          simp at this
          rw [hsc]; exact List.mem_cons_of_mem _ this
    · have hcond : (¬ ((none : Option (List Byte)).isSome = true) ∧ res < 0) := ⟨by simp, hneg⟩
      simp only [if_pos hcond, sat_ret]
      obtain ⟨⟨hst, hlog, hsq⟩, _⟩ := hq
      refine ⟨?_, ?_, ?_, fun h => by omega⟩
      · split <;> simp [hst]
      · refine ⟨[(tagDrain, res)], ?_, by simp⟩
        split <;> simp [hlog]
      · obtain ⟨dn, hdn, hqq⟩ := hsq
        refine ⟨dn, ?_, hqq⟩
        split <;> simp [hdn]

theorem drain_spec : ∀ (k : Nat) (s : St),
    (drain k s).sat
      (fun _ s' => s'.status = s.status ∧ DrainLog s s' ∧ SentQ s s')
      (fun s' => (∃ d, Rep [letterZ] d ∧ s'.status = s.status ++ d) ∧ DrainLog s s' ∧ SentQ s s'
          ∧ AbortCause false s) := by
  intro k
  induction k with
  | zero => intro s; simp only [drain, sat_ret]; exact ⟨by trv, DrainLog.refl s, SentQ.refl s⟩
  | succ k ih =>
    intro s
    unfold drain
    apply sat_bind (checkreply_none_spec s)
    intro c s1 ⟨hst, hlog, hsq, hpos⟩
    split
    · simp only [sat_ret]; exact ⟨hst, hlog, hsq⟩
    · rename_i hc
      obtain ⟨hsock, hsub⟩ := hpos (by omega)
      apply sat_mono (ih s1)
      · intro _ s2 ⟨h1, h2, h3⟩
        exact ⟨h1.trans hst, hlog.trans h2, hsq.trans h3⟩
      · intro s2 ⟨⟨d, hr, hd⟩, h2, h3, hcause⟩
        refine ⟨⟨d, hr, by rw [hd, hst]⟩, hlog.trans h2, hsq.trans h3, ?_⟩
        rcases hcause with h | h | h
        · simp at h
        · exact Or.inr (Or.inl (hsub _ h))
        · exact Or.inr (Or.inr (by rw [← hsock]; exact h))

/-! ### the shape of the status stream -/

/-- the `netget()` values logged for the RCPT TO replies, in order -/
def rcptLog (s : St) : List Int := (s.log.filter (fun e => e.1 = tagRcpt)).map (·.2)

/-- one complete recipient report per logged RCPT TO reply, letter by class of the reply -/
inductive RcptSeq : List Int → List (List Byte) → Prop where
  | nil : RcptSeq [] []
  | cons {c : Int} {d : List Byte} {cs : List Int} {ds : List (List Byte)} :
      Rep [letterOf (classOf c)] d → RcptSeq cs ds → RcptSeq (c :: cs) (d :: ds)

theorem RcptSeq.snoc {cs : List Int} {ds : List (List Byte)} {c : Int} {d : List Byte}
    (h : RcptSeq cs ds) (hr : Rep [letterOf (classOf c)] d) : RcptSeq (cs ++ [c]) (ds ++ [d]) := by
  induction h with
  | nil => exact .cons hr .nil
  | cons h1 _ ih => exact .cons h1 ih

theorem RcptSeq.length_eq {cs : List Int} {ds : List (List Byte)} (h : RcptSeq cs ds) : ds.length = cs.length := by
  induction h with
  | nil => rfl
  | cons _ _ ih => simp [ih]

/-- the status stream is the recipient reports followed by `m` (empty, or the message report) -/
def Shape (s : St) (m : List Byte) : Prop := ∃ ds, s.status = ds.flatten ++ m ∧ RcptSeq (rcptLog s) ds

/-- a message report is either a failure (`Z`/`D`) or carries the letter of the class of the
reply to the end of data, which is in the log -/
def MsgOk (s : St) (m : List Byte) : Prop :=
  Rep [letterZ, letterD] m ∨ ∃ c, (tagDot, c) ∈ s.log ∧ Rep [dotLetter (classOf c)] m

def FinalOk (s : St) : Prop := s.status ≠ [] ∧ (Shape s [] ∨ ∃ m, Shape s m ∧ MsgOk s m)

theorem rcptLog_append (s s' : St) (dl : List (Nat × Int)) (h : s'.log = s.log ++ dl) :
    rcptLog s' = rcptLog s ++ ((dl.filter (fun e => e.1 = tagRcpt)).map (·.2)) := by
  unfold rcptLog; rw [h]; simp

theorem rcptLog_of_drain {s s' : St} (h : DrainLog s s') : rcptLog s' = rcptLog s := by
  obtain ⟨dl, hdl, hq⟩ := h
  rw [rcptLog_append s s' dl hdl]
  have : dl.filter (fun e => e.1 = tagRcpt) = [] := by
    rw [List.filter_eq_nil_iff]
    intro e he
    have := hq e he
    simp [this, tagDrain, tagRcpt]
  rw [this]; simp

theorem Rep.ne_nil {L : List Byte} {d : List Byte} (h : Rep L d) : d ≠ [] := by
  obtain ⟨c, t, rfl, _, _⟩ := h; simp

theorem shape_rcpt_step {s s' : St} {d : List Byte} {c : Int} (h : Shape s []) (hst : s'.status = s.status ++ d)
    (hlog : s'.log = s.log ++ [(tagRcpt, c)]) (hr : Rep [letterOf (classOf c)] d) : Shape s' [] := by
  obtain ⟨ds, hds, hseq⟩ := h
  refine ⟨ds ++ [d], by rw [hst, hds]; simp, ?_⟩
  rw [rcptLog_append s s' _ hlog]
  simp only [tagRcpt, List.filter_cons, List.filter_nil, decide_true, if_true, List.map_cons, List.map_nil]
  exact hseq.snoc hr

theorem shape_msg {s s' : St} {m : List Byte} (h : Shape s []) (hst : s'.status = s.status ++ m)
    (hlog : rcptLog s' = rcptLog s) : Shape s' m := by
  obtain ⟨ds, hds, hseq⟩ := h
  exact ⟨ds, by rw [hst, hds]; simp, by rw [hlog]; exact hseq⟩

theorem finalOk_aborted {s s' : St} (h : Shape s []) (ha : Aborted s s') : FinalOk s' := by
  obtain ⟨⟨d, hd, hr⟩, hl, _⟩ := ha
  refine ⟨by rw [hd]; simp [hr.ne_nil], Or.inr ⟨d, shape_msg h hd (by unfold rcptLog; rw [hl]), Or.inl (hr.mono (by simp))⟩⟩

/-! ### the recipients -/

/-- the log grew by the entries of at most `k` RCPT TO replies -/
def RLog (s s' : St) (k : Nat) : Prop :=
  ∃ codes : List Int, codes.length ≤ k ∧ s'.log = s.log ++ codes.map (fun c => (tagRcpt, c))

theorem RLog.zero (s : St) (k : Nat) : RLog s s k := ⟨[], by simp, by simp⟩

/-- one `checkreply("rsh", NULL, 8)` from a state without message report -/
theorem rcpt_step (s : St) (h : Shape s []) :
    (checkreply tagRcpt (some Gen.Qr.lettersRcpt) [] Gen.Qr.maskRcpt s).sat
      (fun c s' => Shape s' [] ∧ s'.log = s.log ++ [(tagRcpt, c)] ∧ CrKeeps s s' ∧ 200 ≤ c ∧ s'.status ≠ [])
      (fun s' => FinalOk s' ∧ RLog s s' 1 ∧ SentQ s s') := by
  apply sat_mono (checkreply_rcpt_spec s)
  · rintro c s' ⟨hc, d, hr, hst, hlog, hk⟩
    exact ⟨shape_rcpt_step h hst hlog hr, hlog, hk, hc, by rw [hst]; simp [hr.ne_nil]⟩
  · rintro s' (ha | ⟨c, d, hc, hlog, hsq, hst, hcase⟩)
    · exact ⟨finalOk_aborted h ha, ⟨[], by simp, by simp [ha.2.1]⟩, ha.2.2⟩
    · refine ⟨?_, ⟨[c], by simp, by simp [hlog]⟩, hsq⟩
      rcases hcase with ⟨_, hr⟩ | ⟨hm, z, rfl, hz⟩
      · exact ⟨by rw [hst]; simp [hr.ne_nil], Or.inl (shape_rcpt_step h hst hlog hr)⟩
      · -- the recipient report "r\0" is complete, the abort report follows it
        have hr1 : Rep [letterOf (classOf c)] [114, NUL] := ⟨114, [], by simp, by simp [letterOf, hm], by simp⟩
        let s1 : St := { s' with status := s.status ++ [114, NUL] }
        have hs1 : Shape s1 [] := shape_rcpt_step (s' := s1) h rfl hlog hr1
        refine ⟨by rw [hst]; simp, Or.inr ⟨z, ?_, Or.inl (hz.mono (by simp))⟩⟩
        exact shape_msg (s := s1) (s' := s') hs1 (by rw [hst]; simp [s1]) rfl

theorem RLog.step {a b c : St} {k : Nat} {x : Int} (h1 : b.log = a.log ++ [(tagRcpt, x)]) (h2 : RLog b c k) :
    RLog a c (k + 1) := by
  obtain ⟨codes, hl, hlog⟩ := h2
  exact ⟨x :: codes, by simp; omega, by rw [hlog, h1]; simp⟩

theorem RLog.mono {a b : St} {k k' : Nat} (h : RLog a b k) (hk : k ≤ k') : RLog a b k' := by
  obtain ⟨codes, hl, hlog⟩ := h
  exact ⟨codes, by omega, hlog⟩

/-- what the recipient loops return with -/
def RcptsRet (k : Nat) (rcptstat : Nat) (s : St) (r : Nat) (s' : St) : Prop :=
  Shape s' [] ∧ s'.sock = s.sock ∧ s'.ext = s.ext
    ∧ (∃ codes : List Int, codes.length = k ∧ s'.log = s.log ++ codes.map (fun c => (tagRcpt, c))
        ∧ (r = 0 → rcptstat = 0 ∨ ∃ c ∈ codes, c < 300) ∧ ∀ c ∈ codes, 200 ≤ c)
    ∧ (s.status ≠ [] ∨ 0 < k → s'.status ≠ [])

theorem rcptReplies_spec : ∀ (k rcptstat : Nat) (s : St), Shape s [] →
    (rcptReplies k rcptstat s).sat
      (fun r s' => RcptsRet k rcptstat s r s' ∧ s'.sent = s.sent)
      (fun s' => FinalOk s' ∧ RLog s s' k ∧ SentQ s s') := by
  intro k
  induction k with
  | zero =>
    intro rcptstat s h
    simp only [rcptReplies, sat_ret]
    exact ⟨⟨h, by trv, by trv, ⟨[], rfl, by simp, fun hr => Or.inl hr, by simp⟩, fun h => by rcases h with h | h; exact h; omega⟩, by trv⟩
  | succ k ih =>
    intro rcptstat s h
    unfold rcptReplies
    apply sat_bind' (rcpt_step s h) (fun s' ⟨h1, h2, h3⟩ => ⟨h1, h2.mono (by omega), h3⟩)
    intro c s1 ⟨hsh, hlog, hk, hc, hne⟩
    apply sat_mono (ih _ s1 hsh)
    · rintro r s2 ⟨⟨hsh2, hsock, hext, ⟨codes, hlen, hlog2, hacc, hge⟩, hne2⟩, hsent⟩
      refine ⟨⟨hsh2, by rw [hsock, hk.1], by rw [hext, hk.2.2.1], ⟨c :: codes, by simp [hlen], by rw [hlog2, hlog]; simp, ?_,
        by intro x hx; rcases List.mem_cons.mp hx with rfl | hx; exact hc; exact hge x hx⟩, ?_⟩,
        by rw [hsent, hk.2.1]⟩
      · intro hr
        rcases hacc hr with h0 | ⟨c', hc', hlt⟩
        · split at h0
          · rename_i hlt; exact Or.inr ⟨c, by simp, hlt⟩
          · exact Or.inl h0
        · exact Or.inr ⟨c', by simp [hc'], hlt⟩
      · intro _; exact hne2 (Or.inl hne)
    · rintro s2 ⟨h1, h2, h3⟩
      exact ⟨h1, RLog.step hlog h2, (SentQ.of_eq hk.2.1).trans h3⟩

/-- no payload starting with `D` (that is: no `DATA`) was added to what was sent -/
def SentND (s s' : St) : Prop := ∃ dn, s'.sent = s.sent ++ dn ∧ ∀ p ∈ dn, p.head? ≠ some 68

theorem SentND.refl (s : St) : SentND s s := ⟨[], by simp, by simp⟩
theorem SentND.of_eq {s s' : St} (h : s'.sent = s.sent) : SentND s s' := ⟨[], by simp [h], by simp⟩
theorem SentND.trans {a b c : St} (h1 : SentND a b) (h2 : SentND b c) : SentND a c := by
  obtain ⟨d1, e1, q1⟩ := h1
  obtain ⟨d2, e2, q2⟩ := h2
  refine ⟨d1 ++ d2, by rw [e2, e1, List.append_assoc], ?_⟩
  intro p hp
  rcases List.mem_append.mp hp with h | h
  · exact q1 p h
  · exact q2 p h
theorem SentQ.nd {s s' : St} (h : SentQ s s') : SentND s s' := by
  obtain ⟨dn, e, q⟩ := h
  refine ⟨dn, e, ?_⟩
  intro p hp hh
  exact (q p hp 68 hh).1 rfl
theorem Aborted.nd {s s' : St} (h : Aborted s s') : SentND s s' := h.2.2.nd

/-- sending one command with `net_writen()` whose first part starts with `b ≠ 'D'` -/
theorem netWriten_cmd_spec (s0 : List Byte) (ss : List (List Byte)) (h0 : 3 < s0.length) (h1 : s0.length < 510)
    (hb : s0.head? ≠ some 68) (s : St) :
    (netWriten s0 ss s).sat
      (fun _ s' => s'.status = s.status ∧ s'.log = s.log ∧ s'.sock = s.sock ∧ s'.ext = s.ext ∧ s'.script = s.script
          ∧ s'.lin = s.lin ∧ SentND s s')
      (fun s' => Aborted s s') := by
  apply sat_mono (netWriten_spec s0 ss h0 h1 s)
  · rintro _ s' ⟨_, out, _, rfl, hh⟩
    exact ⟨rfl, rfl, rfl, rfl, rfl, rfl, out, rfl, fun p hp => by rw [hh p hp]; exact hb⟩
  · intro s' h; exact h.1

theorem shape_of_eq {s s' : St} {m : List Byte} (h : Shape s m) (h1 : s'.status = s.status) (h2 : s'.log = s.log) :
    Shape s' m := by
  obtain ⟨ds, hds, hseq⟩ := h
  exact ⟨ds, by rw [h1, hds], by unfold rcptLog; rw [h2]; exact hseq⟩

theorem RLog.of_eq {a b c : St} {k : Nat} (h : b.log = a.log) (h2 : RLog b c k) : RLog a c k := by
  obtain ⟨codes, hl, hlog⟩ := h2
  exact ⟨codes, hl, by rw [hlog, h]⟩

theorem rcptOneByOne_spec : ∀ (rs : List (List Byte)) (rcptstat : Nat) (s : St), Shape s [] →
    (rcptOneByOne rs rcptstat s).sat
      (fun r s' => RcptsRet rs.length rcptstat s r s' ∧ SentND s s')
      (fun s' => FinalOk s' ∧ RLog s s' rs.length ∧ SentND s s') := by
  intro rs
  induction rs with
  | nil =>
    intro rcptstat s h
    simp only [rcptOneByOne, sat_ret]
    exact ⟨⟨h, by trv, by trv, ⟨[], rfl, by simp, fun hr => Or.inl hr, by simp⟩, fun h => by rcases h with h | h; exact h; simp at h⟩,
      SentND.refl s⟩
  | cons r rs ih =>
    intro rcptstat s h
    unfold rcptOneByOne
    apply sat_bind' (netWriten_cmd_spec Gen.Qr.cmdRcpt [r, Gen.Qr.cmdRcptEnd] (by decide) (by decide) (by decide) s)
      (fun s' ha => ⟨finalOk_aborted h ha, ⟨[], by simp, by simp [ha.2.1]⟩, ha.nd⟩)
    intro _ s1 ⟨hst1, hlog1, hsock1, hext1, _, _, hnd1⟩
    have hsh1 : Shape s1 [] := shape_of_eq h hst1 hlog1
    apply sat_bind' (rcpt_step s1 hsh1)
      (fun s' ⟨h1, h2, h3⟩ => ⟨h1, RLog.of_eq hlog1 (h2.mono (by simp)), hnd1.trans h3.nd⟩)
    intro c s2 ⟨hsh2, hlog2, hk, hc, hne⟩
    apply sat_mono (ih _ s2 hsh2)
    · rintro r' s3 ⟨⟨hsh3, hsock, hext, ⟨codes, hlen, hlog3, hacc, hge⟩, hne3⟩, hnd3⟩
      refine ⟨⟨hsh3, by rw [hsock, hk.1, hsock1], by rw [hext, hk.2.2.1, hext1],
        ⟨c :: codes, by simp [hlen], by rw [hlog3, hlog2, hlog1]; simp, ?_,
          by intro x hx; rcases List.mem_cons.mp hx with rfl | hx; exact hc; exact hge x hx⟩, fun _ => hne3 (Or.inl hne)⟩,
        hnd1.trans ((SentND.of_eq hk.2.1).trans hnd3)⟩
      intro hr
      rcases hacc hr with h0 | ⟨c', hc', hlt⟩
      · split at h0
        · rename_i hlt; exact Or.inr ⟨c, by simp, hlt⟩
        · exact Or.inl h0
      · exact Or.inr ⟨c', by simp [hc'], hlt⟩
    · rintro s3 ⟨h1, h2, h3⟩
      exact ⟨h1, RLog.of_eq hlog1 (RLog.step hlog2 h2), hnd1.trans ((SentND.of_eq hk.2.1).trans h3)⟩

/-! ### pipelined envelope -/

theorem multiline_ok (xs : List (List Byte)) :
    Writen.netWriteMultiline (xs ++ [Gen.Qr.cmdRcptEndCrlf]) = .ok (xs.flatten ++ Gen.Qr.cmdRcptEndCrlf) := by
  unfold Writen.netWriteMultiline
  have hfl : (xs ++ [Gen.Qr.cmdRcptEndCrlf]).flatten = xs.flatten ++ [62, 13, 10] := by simp [Gen.Qr.cmdRcptEndCrlf]
  simp only [hfl]
  have h1 : ¬ ((xs ++ [Gen.Qr.cmdRcptEndCrlf]).isEmpty = true ∨ (xs.flatten ++ [62, 13, 10]).length ≤ 2) := by
    simp
  rw [if_neg h1]
  have h2 : ¬ ((xs.flatten ++ [62, 13, 10]).drop ((xs.flatten ++ [62, 13, 10]).length - 2) ≠ [CR, LF]) := by
    have : (xs.flatten ++ [62, 13, 10]).length - 2 = (xs.flatten ++ [62]).length := by simp
    rw [this, show xs.flatten ++ [62, 13, 10] = (xs.flatten ++ [62]) ++ [13, 10] by simp, List.drop_left]
    simp [CR, LF]
  rw [if_neg h2]
  simp [Gen.Qr.cmdRcptEndCrlf]

/-- what a step that only sends commands keeps -/
def SendKeeps (s s' : St) : Prop :=
  s'.status = s.status ∧ s'.log = s.log ∧ s'.sock = s.sock ∧ s'.ext = s.ext ∧ s'.script = s.script ∧ SentND s s'

theorem SendKeeps.refl (s : St) : SendKeeps s s := ⟨rfl, rfl, rfl, rfl, rfl, SentND.refl s⟩
theorem SendKeeps.trans {a b c : St} (h1 : SendKeeps a b) (h2 : SendKeeps b c) : SendKeeps a c :=
  ⟨h2.1.trans h1.1, h2.2.1.trans h1.2.1, h2.2.2.1.trans h1.2.2.1, h2.2.2.2.1.trans h1.2.2.2.1,
   h2.2.2.2.2.1.trans h1.2.2.2.2.1, h1.2.2.2.2.2.trans h2.2.2.2.2.2⟩

/-- like `Aborted`, but commands of the envelope may have been sent before -/
def AbortedND (s s' : St) : Prop :=
  (∃ d, s'.status = s.status ++ d ∧ Rep [letterZ] d) ∧ s'.log = s.log ∧ SentND s s'

theorem Aborted.toND {s s' : St} (h : Aborted s s') : AbortedND s s' := ⟨h.1, h.2.1, h.nd⟩

theorem AbortedND.keeps_left {a b c : St} (h1 : SendKeeps a b) (h2 : AbortedND b c) : AbortedND a c := by
  obtain ⟨⟨d, hd, hr⟩, hl, hq⟩ := h2
  exact ⟨⟨d, by rw [hd, h1.1], hr⟩, by rw [hl, h1.2.1], h1.2.2.2.2.2.trans hq⟩

theorem finalOk_abortedND {s s' : St} (h : Shape s []) (ha : AbortedND s s') : FinalOk s' := by
  obtain ⟨⟨d, hd, hr⟩, hl, _⟩ := ha
  refine ⟨by rw [hd]; simp [hr.ne_nil], Or.inr ⟨d, shape_msg h hd (by unfold rcptLog; rw [hl]), Or.inl (hr.mono (by simp))⟩⟩

/-- `netmsg[lastmsg] = NULL; net_write_multiline(netmsg)` for a batch that starts with `first`
(not a `D`) and ends with `">\r\n"` -/
theorem flushBatch_spec (first : List Byte) (mid : List (List Byte)) (hlen : (first :: mid).length + 1 < Gen.Qr.netmsgSize)
    (hf : ∃ b, first.head? = some b ∧ b ≠ 68) (s : St) :
    (flushBatch (first :: mid ++ [Gen.Qr.cmdRcptEndCrlf]) s).sat (fun _ s' => SendKeeps s s') (fun s' => Aborted s s') := by
  unfold flushBatch
  have h1 : (first :: mid ++ [Gen.Qr.cmdRcptEndCrlf]).length < Gen.Qr.netmsgSize := by simpa using hlen
  rw [if_pos h1]
  unfold netWriteMultiline
  rw [show first :: mid ++ [Gen.Qr.cmdRcptEndCrlf] = (first :: mid) ++ [Gen.Qr.cmdRcptEndCrlf] by simp, multiline_ok]
  apply sat_mono (netnwrite_spec _ s)
  · rintro _ s' ⟨rfl, _⟩
    refine ⟨rfl, rfl, rfl, rfl, rfl, _, rfl, ?_⟩
    intro p hp
    simp only [List.mem_singleton] at hp
    obtain ⟨b, hb, hne⟩ := hf
    subst hp
    cases first with
    | nil => simp at hb
    | cons x t => simp at hb; subst hb; simp [hne]
  · intro s' h; exact h.1

theorem batchMod_eq : Gen.Qr.batchMod = 4 := rfl
theorem batchRem_eq : Gen.Qr.batchRem = 3 := rfl
theorem netmsgSize_eq : Gen.Qr.netmsgSize = 10 := rfl

theorem batches_spec (n : Nat) : ∀ (rs : List (List Byte)) (i : Nat) (tl : List (List Byte)) (s : St),
    (Gen.Qr.cmdRcpt :: tl).length ≤ 1 + 2 * (i % 4) →
    (batches n i rs (Gen.Qr.cmdRcpt :: tl) s).sat (fun _ s' => SendKeeps s s') (fun s' => AbortedND s s') := by
  intro rs
  induction rs with
  | nil => intro i tl s _; simp only [batches, sat_ret]; exact SendKeeps.refl s
  | cons r rs ih =>
    intro i tl s hlen
    have hi : i % 4 < 4 := Nat.mod_lt _ (by decide)
    unfold batches push
    have h1 : (Gen.Qr.cmdRcpt :: tl).length < Gen.Qr.netmsgSize := by rw [netmsgSize_eq]; omega
    rw [if_pos h1]
    dsimp only
    split
    · -- the batch ends here
      have h2 : (Gen.Qr.cmdRcpt :: tl ++ [r]).length < Gen.Qr.netmsgSize := by rw [netmsgSize_eq]; simp at hlen ⊢; omega
      rw [if_pos h2]
      dsimp only
      have := flushBatch_spec Gen.Qr.cmdRcpt (tl ++ [r]) (by rw [netmsgSize_eq]; simp at hlen ⊢; omega) ⟨82, by decide⟩ s
      simp only [List.cons_append, List.append_assoc] at this ⊢
      apply sat_bind' this (fun _ h => h.toND)
      intro _ s1 hk
      apply sat_mono (ih (i + 1) [] s1 (by simp))
      · intro _ s2 h2; exact hk.trans h2
      · intro s2 h; exact AbortedND.keeps_left hk h
    · rename_i hne
      have h2 : (Gen.Qr.cmdRcpt :: tl ++ [r]).length < Gen.Qr.netmsgSize := by rw [netmsgSize_eq]; simp at hlen ⊢; omega
      rw [if_pos h2]
      dsimp only
      rw [batchMod_eq, batchRem_eq] at hne
      have hi3 : i % 4 ≠ 3 := fun h => hne (Or.inr h)
      have hnext : (i + 1) % 4 = i % 4 + 1 := by omega
      have := ih (i + 1) (tl ++ [r] ++ [Gen.Qr.cmdRcptSep]) s (by rw [hnext]; simp at hlen ⊢; omega)
      simpa [List.append_assoc] using this

/-! ### send_envelope -/

/-- the log grew by at most `n` RCPT TO entries and by no entry for the end of data -/
def ELog (s s' : St) (n : Nat) : Prop :=
  ∃ dl, s'.log = s.log ++ dl ∧ (dl.filter (fun e => e.1 = tagRcpt)).length ≤ n ∧ ∀ e ∈ dl, e.1 ≠ tagDot

theorem ELog.refl (s : St) (n : Nat) : ELog s s n := ⟨[], by simp, by simp, by simp⟩

theorem ELog.of_rlog {a b : St} {k : Nat} (h : RLog a b k) : ELog a b k := by
  obtain ⟨codes, hl, hlog⟩ := h
  refine ⟨_, hlog, ?_, ?_⟩
  · have : (codes.map (fun c => (tagRcpt, c))).filter (fun e => e.1 = tagRcpt) = codes.map (fun c => (tagRcpt, c)) := by
      rw [List.filter_eq_self]; intro e he; simp at he; obtain ⟨c, _, rfl⟩ := he; simp
    rw [this]; simpa using hl
  · intro e he; simp at he; obtain ⟨c, _, rfl⟩ := he; simp [tagRcpt, tagDot]

theorem ELog.trans0 {a b c : St} {n : Nat} (h1 : ELog a b 0) (h2 : ELog b c n) : ELog a c n := by
  obtain ⟨d1, e1, l1, q1⟩ := h1
  obtain ⟨d2, e2, l2, q2⟩ := h2
  refine ⟨d1 ++ d2, by rw [e2, e1, List.append_assoc], by simp only [List.filter_append, List.length_append]; omega, ?_⟩
  intro e he
  rcases List.mem_append.mp he with h | h
  · exact q1 e h
  · exact q2 e h

theorem ELog.trans_r0 {a b c : St} {n : Nat} (h1 : ELog a b n) (h2 : ELog b c 0) : ELog a c n := by
  obtain ⟨d1, e1, l1, q1⟩ := h1
  obtain ⟨d2, e2, l2, q2⟩ := h2
  refine ⟨d1 ++ d2, by rw [e2, e1, List.append_assoc], by simp only [List.filter_append, List.length_append]; omega, ?_⟩
  intro e he
  rcases List.mem_append.mp he with h | h
  · exact q1 e h
  · exact q2 e h

theorem ELog.mono {a b : St} {k k' : Nat} (h : ELog a b k) (hk : k ≤ k') : ELog a b k' := by
  obtain ⟨dl, h1, h2, h3⟩ := h
  exact ⟨dl, h1, by omega, h3⟩

theorem ELog.of_eq {a b : St} (h : b.log = a.log) : ELog a b 0 := ⟨[], by simp [h], by simp, by simp⟩
theorem ELog.of_one {a b : St} {t : Nat} {c : Int} (h : b.log = a.log ++ [(t, c)]) (ht : t ≠ tagRcpt) (ht2 : t ≠ tagDot) :
    ELog a b 0 := ⟨[(t, c)], h, by simp [ht], by simp [ht2]⟩
theorem ELog.of_drain {a b : St} (h : DrainLog a b) : ELog a b 0 := by
  obtain ⟨dl, hdl, hq⟩ := h
  refine ⟨dl, hdl, ?_, ?_⟩
  · have : dl.filter (fun e => e.1 = tagRcpt) = [] := by
      rw [List.filter_eq_nil_iff]; intro e he; have := hq e he; simp [this, tagDrain, tagRcpt]
    simp [this]
  · intro e he; rw [hq e he]; simp [tagDrain, tagDot]

theorem classOf_zero_iff {c : Int} (hc : 200 ≤ c) : classOf c = 0 ↔ c < 300 := by
  unfold classOf
  have e1 : (Gen.Qr.successMin : Int) = 200 := rfl
  have e2 : (Gen.Qr.successMax : Int) = 299 := rfl
  rw [e1, e2]
  constructor
  · intro h; split at h
    · omega
    · split at h <;> simp at h
  · intro h; rw [if_pos]; omega

theorem mailParts_length (a : Args) (s : St) : (mailParts a s).length ≤ 4 := by
  unfold mailParts; split <;> split <;> simp

def EnvRet (a : Args) (s : St) (r : Nat) (s' : St) : Prop :=
  (r = 0 → Shape s' [] ∧ (∃ c, (tagRcpt, c) ∈ s'.log ∧ 200 ≤ c ∧ c < 300) ∧ s'.sock = true)
  ∧ (r ≠ 0 → FinalOk s') ∧ ELog s s' a.rcpts.length ∧ SentND s s'

/-- the second alternative is the one way to a second message report that the repaired code still
has: `read()` failing with ENOMEM while the replies to pipelined recipients are drained after a
rejected MAIL FROM (`netget()` ends the program on ENOMEM whatever `terminate` says) -/
def EnvExit (a : Args) (s s' : St) : Prop :=
  (FinalOk s' ∧ ELog s s' a.rcpts.length ∧ SentND s s') ∨ (Rd.err ENOMEM ∈ s.script ∧ s'.status ≠ [])

theorem mem_log_of_codes {s s' : St} {codes : List Int} {c : Int}
    (hlog : s'.log = s.log ++ codes.map (fun c => (tagRcpt, c))) (hc : c ∈ codes) : (tagRcpt, c) ∈ s'.log := by
  rw [hlog]; simp [hc]

theorem rcptsRet_env {a : Args} {s0 s s' : St} {r : Nat} (h : RcptsRet a.rcpts.length 1 s r s')
    (hne : a.rcpts ≠ []) (hsock : s.sock = true) (hlog0 : ELog s0 s 0) (hnd : SentND s0 s') : EnvRet a s0 r s' := by
  obtain ⟨hsh, hs, _, ⟨codes, hlen, hlog, hacc, hge⟩, hnn⟩ := h
  have hpos : 0 < a.rcpts.length := List.length_pos_iff.mpr hne
  refine ⟨fun hr => ⟨hsh, ?_, by rw [hs, hsock]⟩, fun _ => ⟨hnn (Or.inr hpos), Or.inl hsh⟩,
    hlog0.trans0 (ELog.of_rlog ⟨codes, by omega, hlog⟩), hnd⟩
  rcases hacc hr with h | ⟨c, hc, hlt⟩
  · omega
  · exact ⟨c, mem_log_of_codes hlog hc, hge c hc, hlt⟩

theorem not_mem_of_sub {s s' : St} (hsub : ∀ x, x ∈ s'.script → x ∈ s.script) (h : Rd.err ENOMEM ∉ s.script) :
    Rd.err ENOMEM ∉ s'.script := fun hm => h (hsub _ hm)

/-- `send_envelope()` on an open connection, reading from a script in which `read()` never fails
with ENOMEM -/
theorem sendEnvelope_spec (a : Args) (s : St) (hsh : Shape s []) (hsock : s.sock = true) (hne : a.rcpts ≠ []) :
    (sendEnvelope a s).sat (EnvRet a s) (EnvExit a s) := by
  unfold sendEnvelope
  dsimp only
  split
  · -- PIPELINING
    split
    · rename_i h0; exact absurd h0 hne
    · rename_i r0 rs hr
      have hfl := flushBatch_spec Gen.Qr.cmdMail (mailParts a s ++ [Gen.Qr.cmdRcptAfterMail, r0])
        (by have := mailParts_length a s; rw [netmsgSize_eq]; simp; omega) ⟨77, by decide⟩ s
      have hlist : [Gen.Qr.cmdMail] ++ mailParts a s ++ [Gen.Qr.cmdRcptAfterMail, r0, Gen.Qr.cmdRcptEndCrlf]
          = Gen.Qr.cmdMail :: (mailParts a s ++ [Gen.Qr.cmdRcptAfterMail, r0]) ++ [Gen.Qr.cmdRcptEndCrlf] := by simp
      rw [hlist]
      apply sat_bind' hfl (fun s' ha => Or.inl ⟨finalOk_aborted hsh ha, (ELog.of_eq ha.2.1).mono (Nat.zero_le _), ha.nd⟩)
      intro _ s1 hk1
      apply sat_bind' (batches_spec _ rs 1 [] s1 (by simp))
        (fun s' ha => by
          have ha' := AbortedND.keeps_left hk1 ha
          exact Or.inl ⟨finalOk_abortedND hsh ha', (ELog.of_eq ha'.2.1).mono (Nat.zero_le _), ha'.2.2⟩)
      intro _ s2 hk2
      have hk := hk1.trans hk2
      have hsh2 : Shape s2 [] := shape_of_eq hsh hk.1 hk.2.1
      have hsock2 : s2.sock = true := by rw [hk.2.2.1, hsock]
      have hscr2 : s2.script = s.script := hk.2.2.2.2.1
      apply sat_bind' (checkreply_mail_spec a.rhost s2)
      · rintro s' ⟨hl, hsq, d, hr, hd⟩
        refine Or.inl ⟨⟨by rw [hd]; simp [hr.ne_nil], Or.inr ⟨d, shape_msg hsh2 hd ?_, Or.inl hr⟩⟩, ?_, hk.2.2.2.2.2.trans hsq.nd⟩
        · rcases hl with hl | ⟨c, hl⟩
          · unfold rcptLog; rw [hl]
          · rw [rcptLog_append s2 s' _ hl]; simp [tagMail, tagRcpt]
        · rcases hl with hl | ⟨c, hl⟩
          · exact ((ELog.of_eq hk.2.1).trans0 (ELog.of_eq hl)).mono (Nat.zero_le _)
          · exact ((ELog.of_eq hk.2.1).trans0 (ELog.of_one hl (by decide) (by decide))).mono (Nat.zero_le _)
      · intro c s3 ⟨hc, hlog3, hk3, hacc, hrej⟩
        have hsock3 : s3.sock = true := by rw [hk3.1, hsock2]
        have hel3 : ELog s s3 0 := (ELog.of_eq hk.2.1).trans0 (ELog.of_one hlog3 (by decide) (by decide))
        have hnd3 : SentND s s3 := hk.2.2.2.2.2.trans (SentND.of_eq hk3.2.1)
        have hrl3 : rcptLog s3 = rcptLog s2 := by rw [rcptLog_append s2 s3 _ hlog3]; simp [tagMail, tagRcpt]
        split
        · -- MAIL FROM rejected: the message report is written, the other replies are drained
          rename_i hge
          have hm : classOf c ≠ 0 := fun h => by have := (classOf_zero_iff hc).mp h; omega
          obtain ⟨d, hr, hd⟩ := hrej hm
          have hrzd : Rep [letterZ, letterD] d := hr.mono (by
            intro x hx; simp at hx; subst hx; unfold mailLetter; split <;> simp [letterZ, letterD])
          have hsh3 : Shape s3 d := shape_msg hsh2 hd hrl3
          apply sat_bind' (drain_spec _ s3)
          · rintro s' ⟨⟨z, hz, hzst⟩, _, _, hcause⟩
            rcases hcause with h | h | h
            · simp at h
            · exact Or.inr ⟨hscr2 ▸ hk3.2.2.2.2.2.2 _ h, by rw [hzst]; simp [hz.ne_nil]⟩
            · rw [hsock3] at h; simp at h
          · intro _ s4 ⟨hst4, hdl4, hsq4⟩
            simp only [sat_ret]
            have hsh4 : Shape s4 d := by
              obtain ⟨ds, hds, hseq⟩ := hsh3
              exact ⟨ds, by rw [hst4, hds], by rw [rcptLog_of_drain hdl4]; exact hseq⟩
            refine ⟨fun h => by omega, fun _ => ⟨by rw [hst4, hd]; simp [hr.ne_nil], Or.inr ⟨d, hsh4, Or.inl hrzd⟩⟩,
              (hel3.trans_r0 (ELog.of_drain hdl4)).mono (Nat.zero_le _), hnd3.trans hsq4.nd⟩
        · rename_i hlt
          have hm : classOf c = 0 := (classOf_zero_iff hc).mpr (by omega)
          have hsh3 : Shape s3 [] := by
            obtain ⟨ds, hds, hseq⟩ := hsh2
            exact ⟨ds, by rw [hacc hm, hds], by rw [hrl3]; exact hseq⟩
          apply sat_mono (rcptReplies_spec _ 1 s3 hsh3)
          · rintro r s4 ⟨hret, hsent⟩
            exact rcptsRet_env hret hne hsock3 hel3 (hnd3.trans (SentND.of_eq hsent))
          · rintro s4 ⟨h1, h2, h3⟩
            exact Or.inl ⟨h1, hel3.trans0 (ELog.of_rlog h2), hnd3.trans h3.nd⟩
  · -- one command at a time
    apply sat_bind' (netWriten_cmd_spec Gen.Qr.cmdMail (mailParts a s) (by decide) (by decide) (by decide) s)
      (fun s' ha => Or.inl ⟨finalOk_aborted hsh ha, (ELog.of_eq ha.2.1).mono (Nat.zero_le _), ha.nd⟩)
    intro _ s1 ⟨hst1, hlog1, hsock1, _, hsc1, _, hnd1⟩
    have hsh1 : Shape s1 [] := shape_of_eq hsh hst1 hlog1
    apply sat_bind' (checkreply_mail_spec a.rhost s1)
    · rintro s' ⟨hl, hsq, d, hr, hd⟩
      refine Or.inl ⟨⟨by rw [hd]; simp [hr.ne_nil], Or.inr ⟨d, shape_msg hsh1 hd ?_, Or.inl hr⟩⟩, ?_, hnd1.trans hsq.nd⟩
      · rcases hl with hl | ⟨c, hl⟩
        · unfold rcptLog; rw [hl]
        · rw [rcptLog_append s1 s' _ hl]; simp [tagMail, tagRcpt]
      · rcases hl with hl | ⟨c, hl⟩
        · exact ((ELog.of_eq hlog1).trans0 (ELog.of_eq hl)).mono (Nat.zero_le _)
        · exact ((ELog.of_eq hlog1).trans0 (ELog.of_one hl (by decide) (by decide))).mono (Nat.zero_le _)
    · intro c s2 ⟨hc, hlog2, hk2, hacc, hrej⟩
      have hsock2 : s2.sock = true := by rw [hk2.1, hsock1, hsock]
      have hel2 : ELog s s2 0 := (ELog.of_eq hlog1).trans0 (ELog.of_one hlog2 (by decide) (by decide))
      have hnd2 : SentND s s2 := hnd1.trans (SentND.of_eq hk2.2.1)
      have hrl2 : rcptLog s2 = rcptLog s1 := by rw [rcptLog_append s1 s2 _ hlog2]; simp [tagMail, tagRcpt]
      split
      · rename_i hge
        have hm : classOf c ≠ 0 := fun h => by have := (classOf_zero_iff hc).mp h; omega
        obtain ⟨d, hr, hd⟩ := hrej hm
        have hrzd : Rep [letterZ, letterD] d := hr.mono (by
          intro x hx; simp at hx; subst hx; unfold mailLetter; split <;> simp [letterZ, letterD])
        simp only [sat_ret]
        exact ⟨fun h => by omega, fun _ => ⟨by rw [hd]; simp [hr.ne_nil], Or.inr ⟨d, shape_msg hsh1 hd hrl2, Or.inl hrzd⟩⟩,
          hel2.mono (Nat.zero_le _), hnd2⟩
      · rename_i hlt
        have hm : classOf c = 0 := (classOf_zero_iff hc).mpr (by omega)
        have hsh2 : Shape s2 [] := by
          obtain ⟨ds, hds, hseq⟩ := hsh1
          exact ⟨ds, by rw [hacc hm, hds], by rw [hrl2]; exact hseq⟩
        apply sat_mono (rcptOneByOne_spec a.rcpts 1 s2 hsh2)
        · rintro r s3 ⟨hret, hnd3⟩
          exact rcptsRet_env hret hne hsock2 hel2 (hnd2.trans hnd3)
        · rintro s3 ⟨h1, h2, h3⟩
          exact Or.inl ⟨h1, hel2.trans0 (ELog.of_rlog h2), hnd2.trans h3⟩

/-! ### send_data -/

def DataFin (s s' : St) : Prop :=
  s'.status ≠ [] ∧ (∃ m, Shape s' m ∧ MsgOk s' m)
  ∧ (s'.log = s.log ∨ ∃ c, s'.log = s.log ++ [(tagDot, c)] ∧ Gen.Qr.cmdData ∈ s'.sent
        ∧ (Gen.Qr.cmdDot ∈ s'.sent ∨ Gen.Qr.cmdCrlfDot ∈ s'.sent))

theorem rep_data_rejected (perm : Bool) (txt : List Byte) :
    Rep [letterZ, letterD] ((List.map cstr [if perm then Gen.Qr.stDataPerm else Gen.Qr.stDataTemp, Gen.Qr.stDataText, txt]).flatten ++ [LF, NUL]) := by
  have hn := nul_not_mem_flatten_cstr [if perm then Gen.Qr.stDataPerm else Gen.Qr.stDataTemp, Gen.Qr.stDataText, txt]
  have hhead : ∃ c t, cstr (if perm then Gen.Qr.stDataPerm else Gen.Qr.stDataTemp) = c :: t ∧ (c = letterZ ∨ c = letterD) := by
    cases perm
    · exact ⟨letterZ, [52], by decide, Or.inl rfl⟩
    · exact ⟨letterD, [53], by decide, Or.inr rfl⟩
  obtain ⟨c, t, hc, hcl⟩ := hhead
  simp only [List.map_cons, List.map_nil, List.flatten_cons, List.flatten_nil, List.append_nil, hc] at hn ⊢
  refine ⟨c, t ++ (cstr Gen.Qr.stDataText ++ cstr txt) ++ [LF], by simp, by rcases hcl with h | h <;> simp [h], ?_⟩
  intro hm
  rcases List.mem_append.mp hm with h | h
  · exact hn (by simp at h ⊢; rcases h with h | h | h <;> simp [h])
  · simp [NUL, LF] at h

theorem sendData_spec (a : Args) (s : St) (hsh : Shape s []) (hsock : s.sock = true) :
    (sendData a s).sat (fun _ s' => DataFin s s') (fun s' => DataFin s s') := by
  have fin_of_aborted : ∀ {s1 s' : St}, s1.status = s.status → s1.log = s.log → Aborted s1 s' → DataFin s s' := by
    intro s1 s' h1 h2 ha
    have hsh1 : Shape s1 [] := shape_of_eq hsh h1 h2
    have hf := finalOk_aborted hsh1 ha
    obtain ⟨⟨d, hd, hr⟩, hl, _⟩ := ha
    exact ⟨hf.1, ⟨d, shape_msg hsh1 hd (by unfold rcptLog; rw [hl]), Or.inl (hr.mono (by simp))⟩, Or.inl (by rw [hl, h2])⟩
  unfold sendData
  rw [netnwrite_open _ _ hsock, bind_ret]
  generalize hs1 : ({ s with sent := s.sent ++ [Gen.Qr.cmdData] } : St) = s1
  have h1st : s1.status = s.status := by subst hs1; rfl
  have h1log : s1.log = s.log := by subst hs1; rfl
  have h1sock : s1.sock = true := by subst hs1; exact hsock
  have h1sent : s1.sent = s.sent ++ [Gen.Qr.cmdData] := by subst hs1; rfl
  apply sat_bind' (netget_spec true s1) (fun s' h => fin_of_aborted h1st h1log h.1)
  intro num s2 hret
  rcases hret with ⟨hpos, l, rest, hsc, rfl, hcode⟩ | ⟨_, hf, _⟩
  · split
    · -- DATA rejected
      apply sat_mono (shutdownClean_spec _ _) (fun _ _ h => h)
      intro s' ⟨hst, hlog, _⟩
      simp only [writeStatusM, wr] at hst hlog
      have hr := rep_data_rejected (decide (num ≥ (Gen.Qr.dataPermMin : Int))) (List.drop 4 l)
      have hd : s'.status = s.status ++ ((List.map cstr [if decide (num ≥ (Gen.Qr.dataPermMin : Int)) = true then Gen.Qr.stDataPerm else Gen.Qr.stDataTemp,
          Gen.Qr.stDataText, List.drop 4 l]).flatten ++ [LF, NUL]) := by
        rw [hst, h1st]; simp
      exact ⟨by rw [hd]; simp, ⟨_, shape_msg hsh hd (by unfold rcptLog; rw [hlog, h1log]), Or.inl hr⟩,
        Or.inl (by rw [hlog, h1log])⟩
    · -- go ahead: body, final dot, reply
      dsimp only
      rw [netnwrite_open _ _ (by exact h1sock), bind_ret, netnwrite_open _ _ (by exact h1sock), bind_ret]
      generalize hs4 : ({ ({ ({ s1 with script := rest, lin := l } : St) with
          sent := ({ s1 with script := rest, lin := l } : St).sent ++ [bodyMarker] } : St) with
          sent := ({ ({ s1 with script := rest, lin := l } : St) with
            sent := ({ s1 with script := rest, lin := l } : St).sent ++ [bodyMarker] } : St).sent ++
              [if a.lastlf = true then Gen.Qr.cmdDot else Gen.Qr.cmdCrlfDot] } : St) = s4
      have h4st : s4.status = s.status := by subst hs4; exact h1st
      have h4log : s4.log = s.log := by subst hs4; exact h1log
      have h4sent : s4.sent = s.sent ++ [Gen.Qr.cmdData] ++ [bodyMarker] ++ [if a.lastlf = true then Gen.Qr.cmdDot else Gen.Qr.cmdCrlfDot] := by
        subst hs4; simp [h1sent]
      have hsh4 : Shape s4 [] := shape_of_eq hsh h4st h4log
      have hdata : ∀ s' : St, (∃ dn, s'.sent = s4.sent ++ dn) → Gen.Qr.cmdData ∈ s'.sent ∧ (Gen.Qr.cmdDot ∈ s'.sent ∨ Gen.Qr.cmdCrlfDot ∈ s'.sent) := by
        rintro s' ⟨dn, hdn⟩
        rw [hdn, h4sent]
        refine ⟨by simp, ?_⟩
        by_cases hl : a.lastlf = true
        · left; simp [hl]
        · right; simp [hl]
      apply sat_bind' (checkreply_dot_spec _ (by simp) s4)
      · rintro s' ⟨⟨dn, hdn, _⟩, hcase⟩
        rcases hcase with ⟨hl, d, hr, hd⟩ | ⟨c, hl, d, hr, hd⟩
        · exact ⟨by rw [hd]; simp [hr.ne_nil], ⟨d, shape_msg hsh4 hd (by unfold rcptLog; rw [hl]), Or.inl (hr.mono (by simp))⟩,
            Or.inl (by rw [hl, h4log])⟩
        · have hrl : rcptLog s' = rcptLog s4 := by rw [rcptLog_append s4 s' _ hl]; simp [tagDot, tagRcpt]
          exact ⟨by rw [hd]; simp [hr.ne_nil], ⟨d, shape_msg hsh4 hd hrl, Or.inr ⟨c, by rw [hl]; simp, hr⟩⟩,
            Or.inr ⟨c, by rw [hl, h4log], hdata s' ⟨dn, hdn⟩⟩⟩
      · intro c s5 ⟨hc, hlog5, hk5, d, hr, hd⟩
        simp only [sat_ret]
        have hrl : rcptLog s5 = rcptLog s4 := by rw [rcptLog_append s4 s5 _ hlog5]; simp [tagDot, tagRcpt]
        refine ⟨by rw [hd]; simp [hr.ne_nil], ⟨d, shape_msg hsh4 hd hrl, Or.inr ⟨c, by rw [hlog5]; simp, hr⟩⟩,
          Or.inr ⟨c, by rw [hlog5, h4log], hdata s5 ⟨[], by rw [hk5.2.1]; simp⟩⟩⟩
  · simp at hf

/-! ### main -/

/-- what holds of the final state of every run -/
structure RunOk (a : Args) (s' : St) : Prop where
  nonempty : s'.status ≠ []
  shape : Shape s' [] ∨ ∃ m, Shape s' m ∧ MsgOk s' m
  rcpts : (rcptLog s').length ≤ a.rcpts.length
  data : Gen.Qr.cmdData ∈ s'.sent → ∃ c, (tagRcpt, c) ∈ s'.log ∧ 200 ≤ c ∧ c < 300
  dot : (∃ c, (tagDot, c) ∈ s'.log) → Gen.Qr.cmdData ∈ s'.sent ∧ (Gen.Qr.cmdDot ∈ s'.sent ∨ Gen.Qr.cmdCrlfDot ∈ s'.sent)

theorem data_not_mem_of_nd {s s' : St} (h : SentND s s') (h0 : Gen.Qr.cmdData ∉ s.sent) : Gen.Qr.cmdData ∉ s'.sent := by
  obtain ⟨dn, hdn, hq⟩ := h
  rw [hdn]
  intro hm
  rcases List.mem_append.mp hm with h | h
  · exact h0 h
  · exact hq _ h (by decide)

theorem rcptLog_len_of_elog {s s' : St} {n : Nat} (h : ELog s s' n) (h0 : s.log = []) : (rcptLog s').length ≤ n := by
  obtain ⟨dl, hdl, hlen, _⟩ := h
  unfold rcptLog
  rw [hdl, h0]
  simpa using hlen

theorem no_dot_of_elog {s s' : St} {n : Nat} (h : ELog s s' n) (h0 : s.log = []) : ¬ ∃ c, (tagDot, c) ∈ s'.log := by
  obtain ⟨dl, hdl, _, hq⟩ := h
  rintro ⟨c, hc⟩
  rw [hdl, h0] at hc
  simp at hc
  exact hq _ hc rfl

theorem shape_init (s : St) (h1 : s.status = []) (h2 : s.log = []) : Shape s [] :=
  ⟨[], by simp [h1], by unfold rcptLog; rw [h2]; exact RcptSeq.nil⟩

theorem cstr_stBadArgs : ∃ t, cstr Gen.Qr.stBadArgs = letterZ :: t := exists_tail_of_head (by decide)
theorem cstr_stNoConnect : ∃ t, cstr Gen.Qr.stNoConnect = letterZ :: t := exists_tail_of_head (by decide)

/-- a state reached from the initial one without any report and without envelope or DATA -/
theorem runOk_of_aborted (a : Args) {s s' : St} (h1 : s.status = []) (h2 : s.log = []) (h3 : Gen.Qr.cmdData ∉ s.sent)
    (ha : AbortedND s s') : RunOk a s' := by
  have hf := finalOk_abortedND (shape_init s h1 h2) ha
  refine ⟨hf.1, hf.2, ?_, fun h => absurd h (data_not_mem_of_nd ha.2.2 h3), ?_⟩
  · unfold rcptLog; rw [ha.2.1, h2]; simp
  · rintro ⟨c, hc⟩; rw [ha.2.1, h2] at hc; simp at hc

/-- every run of `main()` ends in `exit(0)` with a well-formed, non-empty report stream -/
theorem run_spec (a : Args) (script : List Rd) (conns : Nat) (tls : List Int) :
    (run a script conns tls).sat (fun _ _ => False)
      (fun s' => RunOk a s' ∨ (Rd.err ENOMEM ∈ script ∧ s'.status ≠ [])) := by
  unfold run qrMain
  have hi1 : (initSt script conns tls).status = [] := rfl
  have hi2 : (initSt script conns tls).log = [] := rfl
  have hi3 : Gen.Qr.cmdData ∉ (initSt script conns tls).sent := by simp [initSt]
  split
  · unfold shutdownAbort
    simp only [sat_exit]
    exact Or.inl (runOk_of_aborted a hi1 hi2 hi3
      (Aborted.same_right (aborted_writeStatus _ _ cstr_stBadArgs) (Same.of_eq rfl rfl rfl)).toND)
  · rename_i hne
    apply sat_bind' (connectMx_spec a.helo _ _ (Nat.lt_succ_self _)) (fun s' h => Or.inl (runOk_of_aborted a hi1 hi2 hi3 h.toND))
    intro i s1 ⟨hsame1, hsuf1, hsock1⟩
    have h1st : s1.status = [] := by rw [hsame1.1, hi1]
    have h1log : s1.log = [] := by rw [hsame1.2.1, hi2]
    have h1data : Gen.Qr.cmdData ∉ s1.sent := data_not_mem_of_nd hsame1.2.2.nd hi3
    split
    · unfold shutdownAbort
      simp only [sat_exit]
      exact Or.inl (runOk_of_aborted a h1st h1log h1data
        (Aborted.same_right (aborted_writeStatus _ _ cstr_stNoConnect) (Same.of_eq rfl rfl rfl)).toND)
    · rename_i hi
      have envfin : ∀ s' : St, FinalOk s' → ELog s1 s' a.rcpts.length → SentND s1 s' → RunOk a s' :=
        fun s' hf hel hnd => ⟨hf.1, hf.2, rcptLog_len_of_elog hel h1log,
          fun h => absurd h (data_not_mem_of_nd hnd h1data), fun h => absurd h (no_dot_of_elog hel h1log)⟩
      apply sat_bind' (sendEnvelope_spec a s1 (shape_init s1 h1st h1log) (hsock1 (by omega)) hne)
        (fun s' h => h.elim (fun ⟨h1, h2, h3⟩ => Or.inl (envfin s' h1 h2 h3))
          (fun ⟨h1, h2⟩ => Or.inr ⟨hsuf1.subset h1, h2⟩))
      intro r s2 ⟨hr0, hr1, hel2, hnd2⟩
      split
      · rename_i hr
        apply sat_mono (shutdownClean_spec s2 _) (fun _ _ h => h)
        intro s' ⟨hst, hlog, hsq⟩
        have hf := hr1 hr
        have hf' : FinalOk s' := by
          refine ⟨by rw [hst]; exact hf.1, ?_⟩
          rcases hf.2 with h | ⟨m, h, hm⟩
          · exact Or.inl (shape_of_eq h hst hlog)
          · refine Or.inr ⟨m, shape_of_eq h hst hlog, ?_⟩
            rcases hm with hm | ⟨c, hc, hm⟩
            · exact Or.inl hm
            · exact Or.inr ⟨c, by rw [hlog]; exact hc, hm⟩
        exact Or.inl (envfin s' hf' (hel2.trans_r0 (ELog.of_eq hlog)) (hnd2.trans hsq.nd))
      · rename_i hr
        have hr' : r = 0 := by omega
        obtain ⟨hsh2, ⟨c, hc, hge, hlt⟩, hsock2⟩ := hr0 hr'
        have datafin : ∀ s3 s' : St, DataFin s2 s3 → Same s3 s' → RunOk a s' := by
          intro s3 s' ⟨hne3, ⟨m, hsh3, hm3⟩, hlog3⟩ ⟨hst, hlog, hsq⟩
          have hrl : rcptLog s3 = rcptLog s2 := by
            rcases hlog3 with h | ⟨c', h, _⟩
            · unfold rcptLog; rw [h]
            · rw [rcptLog_append s2 s3 _ h]; simp [tagDot, tagRcpt]
          have hmem : ∀ x, x ∈ s2.log → x ∈ s'.log := by
            intro x hx; rw [hlog]
            rcases hlog3 with h | ⟨c', h, _⟩
            · rw [h]; exact hx
            · rw [h]; simp [hx]
          refine ⟨by rw [hst]; exact hne3, Or.inr ⟨m, shape_of_eq hsh3 hst hlog, ?_⟩, ?_, fun _ => ⟨c, hmem _ hc, hge, hlt⟩, ?_⟩
          · rcases hm3 with hm | ⟨c', hc', hm⟩
            · exact Or.inl hm
            · exact Or.inr ⟨c', by rw [hlog]; exact hc', hm⟩
          · have : rcptLog s' = rcptLog s2 := by unfold rcptLog at hrl ⊢; rw [hlog]; exact hrl
            rw [this]; exact rcptLog_len_of_elog hel2 h1log
          · rintro ⟨c', hc'⟩
            rw [hlog] at hc'
            obtain ⟨dn, hdn, _⟩ := hsq
            rcases hlog3 with h | ⟨c'', h, hd, hdot⟩
            · rw [h] at hc'; exact absurd ⟨c', hc'⟩ (no_dot_of_elog hel2 h1log)
            · rw [hdn]
              exact ⟨List.mem_append_left _ hd, hdot.elim (fun h => Or.inl (List.mem_append_left _ h))
                (fun h => Or.inr (List.mem_append_left _ h))⟩
        apply sat_bind' (sendData_spec a s2 hsh2 hsock2) (fun s' h => Or.inl (datafin s' s' h (Same.refl s')))
        intro _ s3 hfin
        apply sat_mono (shutdownClean_spec s3 _) (fun _ _ h => h)
        intro s' h
        exact Or.inl (datafin s3 s' hfin h)

/-! ### from the shape to the parser -/

open Spec.Reports in
theorem splitGo_append (t : List Byte) (ht : (0 : Byte) ∉ t) (cur rest : List Byte) :
    splitGo (t ++ 0 :: rest) cur = (splitGo rest []).map ((cur ++ t) :: ·) := by
  induction t generalizing cur with
  | nil => simp [splitGo]
  | cons b t ih =>
    have hb : b ≠ 0 := fun h => ht (by simp [h])
    have ht' : (0 : Byte) ∉ t := fun h => ht (by simp [h])
    simp only [List.cons_append, splitGo, if_neg hb]
    rw [ih ht']
    simp [List.append_assoc]

open Spec.Reports in
theorem parse_render (rs : List (Byte × List Byte)) (h : ∀ r ∈ rs, r.1 ≠ 0 ∧ (0 : Byte) ∉ r.2) :
    parse (render rs) = some rs := by
  have hsplit : ∀ rs : List (Byte × List Byte), (∀ r ∈ rs, r.1 ≠ 0 ∧ (0 : Byte) ∉ r.2) →
      splitGo (render rs) [] = some (rs.map fun r => r.1 :: r.2) := by
    intro rs
    induction rs with
    | nil => intro _; simp [render, splitGo]
    | cons r rs ih =>
      intro h
      have hr := h r (by simp)
      have hcons : render (r :: rs) = (r.1 :: r.2) ++ 0 :: render rs := by simp [render]
      rw [hcons, splitGo_append _ (by
        intro hm; rcases List.mem_cons.mp hm with h' | h'
        · exact hr.1 h'.symm
        · exact hr.2 h')]
      rw [ih (fun x hx => h x (by simp [hx]))]
      simp
  have hpairs : ∀ rs : List (Byte × List Byte), toPairs (rs.map fun r => r.1 :: r.2) = some rs := by
    intro rs
    induction rs with
    | nil => rfl
    | cons r rs ih => simp [toPairs, ih]
  unfold parse
  rw [hsplit rs h]
  simp [hpairs]

/-- the concatenated recipient reports as `(letter, text)` pairs -/
theorem rcptSeq_render {codes : List Int} {ds : List (List Byte)} (h : RcptSeq codes ds) :
    ∃ rc : List (Byte × List Byte), ds.flatten = Spec.Reports.render rc
      ∧ rc.map (·.1) = codes.map (fun c => letterOf (classOf c)) ∧ ∀ r ∈ rc, NUL ∉ r.2 := by
  induction h with
  | nil => exact ⟨[], rfl, rfl, by simp⟩
  | cons hr _ ih =>
    obtain ⟨rc, h1, h2, h3⟩ := ih
    obtain ⟨c, t, rfl, hc, ht⟩ := hr
    simp only [List.mem_singleton] at hc
    refine ⟨(c, t) :: rc, ?_, ?_, ?_⟩
    · simp [Spec.Reports.render, h1, NUL]
    · simp [h2, hc]
    · intro r hr'
      rcases List.mem_cons.mp hr' with rfl | h'
      · exact ht
      · exact h3 r h'

end QsmtpModel.QrProto
