/- Lemmas for C01: frames of the relay decision over the command loop -/
import QsmtpModel.Lemmas.Session
namespace QsmtpModel.Session
open QsmtpModel

/-- how one function result may differ from the state it started with, as far as the relay
decision is concerned -/
def RelayFrame (env : Env) (s s' : Sess) : Prop :=
  (s.ssl = true → s'.ssl = true) ∧
  (s'.tlsclient = true → s.tlsclient = true ∨ (env.tlsVerify = .verified ∧ s.ssl = true)) ∧
  (s'.relayclient = 1 → s.relayclient = 1 ∨ env.relayIp = .listed ∨ (env.tlsVerify = .verified ∧ s.ssl = true)) ∧
  (s'.relayclient = 0 → s.relayclient = 0)

theorem relayFrame_refl (env : Env) (s : Sess) : RelayFrame env s s :=
  ⟨id, Or.inl, Or.inl, id⟩

theorem relayFrame_trans (env : Env) (a b c : Sess) (h1 : RelayFrame env a b) (h2 : RelayFrame env b c)
    (hssl : a.ssl = true ∨ b.ssl = a.ssl) : RelayFrame env a c := by
  obtain ⟨a1, a2, a3, a4⟩ := h1
  obtain ⟨b1, b2, b3, b4⟩ := h2
  refine ⟨fun h => b1 (a1 h), ?_, ?_, fun h => a4 (b4 h)⟩
  · intro h
    rcases b2 h with h | ⟨h, hs⟩
    · exact a2 h
    · right; refine ⟨h, ?_⟩
      rcases hssl with hs' | hs'
      · exact hs'
      · rw [← hs']; exact hs
  · intro h
    rcases b3 h with h | h | ⟨h, hs⟩
    · exact a3 h
    · right; left; exact h
    · right; right; refine ⟨h, ?_⟩
      rcases hssl with hs' | hs'
      · exact hs'
      · rw [← hs']; exact hs

theorem isAuthenticated_frame (env : Env) (s : Sess) :
    RelayFrame env s (isAuthenticated env s).2 ∧ (isAuthenticated env s).2.ssl = s.ssl
      ∧ (isAuthenticated env s).2.authname = s.authname := by
  unfold isAuthenticated RelayFrame
  split
  · exact ⟨⟨id, Or.inl, Or.inl, id⟩, rfl, rfl⟩
  · cases hr : env.relayIp <;> cases ht : env.tlsVerify <;> simp <;> (repeat' split) <;> simp_all <;> omega

end QsmtpModel.Session

namespace QsmtpModel.Session
open QsmtpModel

theorem freedata_frame (env : Env) (s : Sess) : RelayFrame env s (freedata s) := by
  simp only [RelayFrame, freedata]
  exact ⟨id, fun h => by simp at h, Or.inl, id⟩

/-- a state that differs from `s` only in fields the relay decision does not read -/
def SameRelay (s s' : Sess) : Prop :=
  s'.ssl = s.ssl ∧ s'.tlsclient = s.tlsclient ∧ s'.relayclient = s.relayclient ∧ s'.authname = s.authname

theorem sameRelay_frame (env : Env) (s s' : Sess) (h : SameRelay s s') : RelayFrame env s s' := by
  obtain ⟨h1, h2, h3, _⟩ := h
  refine ⟨fun h => by rw [h1]; exact h, fun h => Or.inl (by rw [← h2]; exact h),
    fun h => Or.inl (by rw [← h3]; exact h), fun h => by rw [← h3]; exact h⟩

theorem handleError_frame (env : Env) (rc : Rc) (s : Sess) :
    RelayFrame env s (handleError rc s).2 ∧ (handleError rc s).2.ssl = s.ssl
      ∧ (handleError rc s).2.authname = s.authname := by
  unfold handleError
  split
  · refine ⟨?_, rfl, rfl⟩
    simp only [RelayFrame, freedata]
    exact ⟨id, fun h => by simp at h, Or.inl, id⟩
  · refine ⟨?_, ?_, ?_⟩
    · apply sameRelay_frame; split <;> exact ⟨rfl, rfl, rfl, rfl⟩
    · split <;> rfl
    · split <;> rfl

theorem gate_frame (env : Env) (s : Sess) :
    RelayFrame env s (submissionGate env s).2 ∧ (submissionGate env s).2.ssl = s.ssl
      ∧ (submissionGate env s).2.authname = s.authname
      ∧ (∀ r, (submissionGate env s).1 = some r → r.s = (submissionGate env s).2 ∧ r.rc ≠ .ok) := by
  have ha := isAuthenticated_frame env s
  unfold submissionGate
  split
  · generalize isAuthenticated env s = p at ha
    obtain ⟨o, s'⟩ := p
    simp only at ha
    match o with
    | none => simp [ha]
    | some false => simp [ha]
    | some true => simp [ha]
  · exact ⟨relayFrame_refl env s, rfl, rfl, by simp⟩

end QsmtpModel.Session

namespace QsmtpModel.Session
open QsmtpModel

/-- frame of a command function: relay fields evolve only as `RelayFrame` allows, TLS stays as it
is unless the function succeeds, and the authenticated name changes only through an AUTH whose
backend verdict was success -/
def FuncFrame (env : Env) (v : Verdicts) (f : Gen.Func) (s : Sess) (r : FuncRes) : Prop :=
  RelayFrame env s r.s ∧ (r.rc ≠ .ok → r.s.ssl = s.ssl)
    ∧ (r.s.authname = s.authname ∨ (f = .auth ∧ r.rc = .ok ∧ ∃ u, v.auth = .success u ∧ r.s.authname = u))

theorem frame_same (env : Env) (v : Verdicts) (f : Gen.Func) (s : Sess) (r : FuncRes) (h : SameRelay s r.s) :
    FuncFrame env v f s r :=
  ⟨sameRelay_frame env s r.s h, fun _ => h.1, Or.inl h.2.2.2⟩

theorem frame_freed (env : Env) (v : Verdicts) (f : Gen.Func) (s : Sess) (r : FuncRes)
    (h : SameRelay (freedata s) r.s) : FuncFrame env v f s r := by
  obtain ⟨h1, h2, h3, h4⟩ := h
  refine ⟨?_, fun _ => h1, Or.inl h4⟩
  have h3' : r.s.relayclient = s.relayclient := h3
  refine ⟨fun h => by rw [h1]; exact h, fun h => ?_, fun h => Or.inl (by rw [← h3']; exact h), fun h => by rw [← h3']; exact h⟩
  rw [h2] at h; simp [freedata] at h

theorem smtpFromInner_same (env : Env) (v : MailV) (s : Sess) : SameRelay s (smtpFromInner env v s).s := by
  unfold smtpFromInner
  cases v <;> simp only <;> (repeat' split) <;> exact ⟨rfl, rfl, rfl, rfl⟩

theorem rcptAdd_same (a : List Byte) (m : Bool) (f : FilterV) (s : Sess) : SameRelay s (rcptAdd a m f s).s := by
  unfold rcptAdd
  (repeat' split) <;> exact ⟨rfl, rfl, rfl, rfl⟩

theorem runFunc_frame (env : Env) (v : Verdicts) (f : Gen.Func) (s : Sess) (l : List Byte) :
    FuncFrame env v f s (runFunc env v f s l) := by
  cases f with
  | noop => exact frame_same _ _ _ _ _ ⟨rfl, rfl, rfl, rfl⟩
  | vrfy => exact frame_same _ _ _ _ _ ⟨rfl, rfl, rfl, rfl⟩
  | bdat => exact frame_same _ _ _ _ _ ⟨rfl, rfl, rfl, rfl⟩
  | quit => exact frame_freed _ _ _ _ _ ⟨rfl, rfl, rfl, rfl⟩
  | post =>
    simp only [runFunc]; split
    · exact frame_freed _ _ _ _ _ ⟨rfl, rfl, rfl, rfl⟩
    · exact frame_same _ _ _ _ _ ⟨rfl, rfl, rfl, rfl⟩
  | rset =>
    simp only [runFunc, smtpRset]; split
    · exact frame_freed _ _ _ _ _ ⟨rfl, rfl, rfl, rfl⟩
    · exact frame_same _ _ _ _ _ ⟨rfl, rfl, rfl, rfl⟩
  | helo =>
    simp only [runFunc, smtpHelo]; split <;> exact frame_freed _ _ _ _ _ ⟨rfl, rfl, rfl, rfl⟩
  | ehlo =>
    simp only [runFunc, smtpEhlo]; split
    · exact frame_same _ _ _ _ _ ⟨rfl, rfl, rfl, rfl⟩
    · exact frame_freed _ _ _ _ _ ⟨rfl, rfl, rfl, rfl⟩
  | data =>
    simp only [runFunc, smtpData]; split
    · exact frame_same _ _ _ _ _ ⟨rfl, rfl, rfl, rfl⟩
    · split
      · exact frame_freed _ _ _ _ _ ⟨rfl, rfl, rfl, rfl⟩
      · exact frame_freed _ _ _ _ _ ⟨rfl, rfl, rfl, rfl⟩
      · exact frame_freed _ _ _ _ _ ⟨rfl, rfl, rfl, rfl⟩
  | auth =>
    simp only [runFunc, smtpAuth]; split
    · exact frame_same _ _ _ _ _ ⟨rfl, rfl, rfl, rfl⟩
    split
    · rename_i u hu
      exact ⟨sameRelay_frame env s _ ⟨rfl, rfl, rfl, rfl⟩ |> fun h => ⟨h.1, h.2.1, h.2.2.1, h.2.2.2⟩, fun h => absurd rfl h,
        Or.inr ⟨rfl, rfl, u, hu, rfl⟩⟩
    · exact frame_same _ _ _ _ _ ⟨rfl, rfl, rfl, rfl⟩
  | starttls =>
    simp only [runFunc, smtpStarttls]; split
    · exact frame_same _ _ _ _ _ ⟨rfl, rfl, rfl, rfl⟩
    · split
      · exact frame_same _ _ _ _ _ ⟨rfl, rfl, rfl, rfl⟩
      · exact frame_same _ _ _ _ _ ⟨rfl, rfl, rfl, rfl⟩
      · refine ⟨⟨fun _ => rfl, fun h => Or.inl h, fun h => Or.inl h, id⟩, fun h => absurd rfl h, Or.inl rfl⟩
  | mail =>
    simp only [runFunc, smtpFrom]
    have hg := gate_frame env { s with mailfrom := [] }
    have h0 : SameRelay s { s with mailfrom := [] } := ⟨rfl, rfl, rfl, rfl⟩
    split
    · exact frame_same _ _ _ _ _ ⟨rfl, rfl, rfl, rfl⟩
    · obtain ⟨g1, g2, g3, g4⟩ := hg
      split
      · rename_i r _ hgate
        obtain ⟨e1, e2⟩ := g4 r (by rw [hgate])
        refine ⟨?_, fun _ => by rw [e1, g2], Or.inl (by rw [e1, g3])⟩
        rw [e1]
        exact relayFrame_trans env s _ _ (sameRelay_frame env s _ h0) g1 (Or.inr rfl)
      · rename_i s' hgate
        rw [hgate] at g1 g2 g3
        simp only at g1 g2 g3
        have hi := smtpFromInner_same env v.mail s'
        refine ⟨?_, fun _ => by rw [hi.1, g2], Or.inl (by rw [hi.2.2.2, g3])⟩
        apply relayFrame_trans env s s' _ ?_ (sameRelay_frame env s' _ hi) (Or.inr g2)
        exact relayFrame_trans env s _ _ (sameRelay_frame env s _ h0) g1 (Or.inr rfl)
  | rcpt =>
    simp only [runFunc, smtpRcpt]
    have ha := isAuthenticated_frame env s
    split
    · exact frame_same _ _ _ _ _ ⟨rfl, rfl, rfl, rfl⟩
    · split
      · exact frame_same _ _ _ _ _ ⟨rfl, rfl, rfl, rfl⟩
      · -- rcptEarly: either the old state or the one after the relay decision
        have key : ∀ s' : Sess, (s' = s ∨ s' = (isAuthenticated env s).2) →
            RelayFrame env s s' ∧ s'.ssl = s.ssl ∧ s'.authname = s.authname := by
          intro s' hs'
          rcases hs' with rfl | rfl
          · exact ⟨relayFrame_refl env _, rfl, rfl⟩
          · exact ha
        have hearly : (∀ r, rcptEarly env v.rcpt s = .inl r → r.s = s ∨ r.s = (isAuthenticated env s).2)
            ∧ (∀ x, rcptEarly env v.rcpt s = .inr x → x.2.2.2 = s ∨ x.2.2.2 = (isAuthenticated env s).2) := by
          unfold rcptEarly
          cases v.rcpt with
          | noBracket => simp
          | badAddr => simp
          | localUser a e m f => cases e <;> simp
          | remote a mx m f =>
            simp only
            generalize isAuthenticated env s = p
            obtain ⟨o, s'⟩ := p
            match o with
            | none => simp
            | some false => simp
            | some true => cases mx <;> simp
        split
        · rename_i r hr
          obtain ⟨k1, k2, k3⟩ := key r.s (hearly.1 r hr)
          exact ⟨k1, fun _ => k2, Or.inl k3⟩
        · rename_i x hx
          obtain ⟨k1, k2, k3⟩ := key x.2.2.2 (hearly.2 x hx)
          have hs := rcptAdd_same x.1 x.2.1 x.2.2.1 x.2.2.2
          refine ⟨?_, fun _ => by rw [hs.1, k2], Or.inl (by rw [hs.2.2.2, k3])⟩
          exact relayFrame_trans env s _ _ k1 (sameRelay_frame env _ _ hs) (Or.inr k2)

end QsmtpModel.Session

namespace QsmtpModel.Session
open QsmtpModel

/-- what the relay decision has learned so far is backed by the environment -/
def RelayInv (env : Env) (s : Sess) : Prop :=
  (s.relayclient = 1 → env.relayIp = .listed ∨ (env.tlsVerify = .verified ∧ s.ssl = true))
  ∧ (s.tlsclient = true → env.tlsVerify = .verified ∧ s.ssl = true)

theorem relayInv_init (env : Env) : RelayInv env {} := by simp [RelayInv]

theorem relayInv_frame (env : Env) (s s' : Sess) (hf : RelayFrame env s s') (h : RelayInv env s) : RelayInv env s' := by
  obtain ⟨f1, f2, f3, _⟩ := hf
  obtain ⟨h1, h2⟩ := h
  constructor
  · intro hr
    rcases f3 hr with hr | hr | ⟨hr, hs⟩
    · rcases h1 hr with h | ⟨h, hs⟩
      · exact Or.inl h
      · exact Or.inr ⟨h, f1 hs⟩
    · exact Or.inl hr
    · exact Or.inr ⟨hr, f1 hs⟩
  · intro ht
    rcases f2 ht with ht | ⟨ht, hs⟩
    · obtain ⟨a, b⟩ := h2 ht; exact ⟨a, f1 b⟩
    · exact ⟨ht, f1 hs⟩

/-- who may relay: listed IP, successful AUTH earlier on the connection, or a verified listed
client certificate inside TLS -/
def Entitled (env : Env) (s : Sess) : Prop :=
  env.relayIp = .listed ∨ s.authname ≠ [] ∨ (env.tlsVerify = .verified ∧ s.ssl = true)

theorem isAuthenticated_true (env : Env) (s s' : Sess) (hJ : RelayInv env s)
    (h : isAuthenticated env s = (some true, s')) : Entitled env s := by
  obtain ⟨j1, j2⟩ := hJ
  unfold isAuthenticated at h
  unfold Entitled
  split at h
  · rename_i hc
    simp only [isAuthClient, Bool.or_eq_true, Bool.not_eq_true', List.isEmpty_eq_false_iff] at hc
    rcases hc with hc | hc
    · exact Or.inr (Or.inl hc)
    · exact Or.inr (Or.inr (j2 hc))
  · revert h
    by_cases hl : env.relayIp = .listed
    · intro _; exact Or.inl hl
    · by_cases hv : env.tlsVerify = .verified ∧ s.ssl = true
      · intro _; exact Or.inr (Or.inr hv)
      · -- neither listed nor a verified certificate: the decision can only be `true` from the cache
        intro h
        exfalso
        have hr1 : s.relayclient ≠ 1 := by
          intro h1; rcases j1 h1 with h' | h'
          · exact hl h'
          · exact hv h'
        cases hr : env.relayIp <;> cases ht : env.tlsVerify <;> cases hs : s.ssl <;>
          simp [hr, ht, hs] at h hl hv <;> (repeat' (split at h)) <;> simp_all <;> omega

end QsmtpModel.Session

namespace QsmtpModel.Session
open QsmtpModel

/-- an input that is an AUTH command whose backend verdict was "accepted" -/
def AuthAccepted (inp : Input) (u : List Byte) : Prop :=
  ∃ l v i row, inp = .line l v ∧ findRow l Gen.commands 0 = some (i, row) ∧ row.func = .auth ∧ v.auth = .success u

theorem relayFrame_then_same (env : Env) (a b c : Sess) (h1 : RelayFrame env a b) (h2 : SameRelay b c) :
    RelayFrame env a c := by
  obtain ⟨a1, a2, a3, a4⟩ := h1
  obtain ⟨s1, s2, s3, _⟩ := h2
  exact ⟨fun h => by rw [s1]; exact a1 h, fun h => a2 (by rw [← s2]; exact h), fun h => a3 (by rw [← s3]; exact h),
    fun h => a4 (by rw [← s3]; exact h)⟩

theorem finishStep_frame (env : Env) (v : Verdicts) (f : Gen.Func) (s : Sess) (st : Int) (i : Nat) (r : FuncRes)
    (h : FuncFrame env v f s r) :
    RelayFrame env s (finishStep st i r).2
      ∧ ((finishStep st i r).2.authname = s.authname
          ∨ (f = .auth ∧ ∃ u, v.auth = .success u ∧ (finishStep st i r).2.authname = u)) := by
  obtain ⟨h1, h2, h3⟩ := h
  unfold finishStep
  split
  · refine ⟨?_, ?_⟩
    · exact relayFrame_then_same env s r.s _ h1 ⟨rfl, rfl, rfl, rfl⟩
    · rcases h3 with h3 | ⟨hf, _, u, hu, ha⟩
      · exact Or.inl h3
      · exact Or.inr ⟨hf, u, hu, ha⟩
  · rename_i hrc
    have he := handleError_frame env r.rc r.s
    refine ⟨relayFrame_trans env s r.s _ h1 he.1 (Or.inr (h2 hrc)), ?_⟩
    rcases h3 with h3 | ⟨_, hok, _⟩
    · left; rw [he.2.2, h3]
    · exact absurd hok hrc

end QsmtpModel.Session

namespace QsmtpModel.Session
open QsmtpModel

theorem errOut_frame (env : Env) (rc : Rc) (s : Sess) :
    RelayFrame env s (errOut rc s).2 ∧ (errOut rc s).2.authname = s.authname := by
  have := handleError_frame env rc s
  exact ⟨this.1, this.2.2⟩

/-- **Frame of one step**: the relay-relevant fields evolve only as `RelayFrame` allows, and the
authenticated name changes only by an AUTH command that the backend accepted. -/
theorem step_frame (env : Env) (s : Sess) (inp : Input) :
    RelayFrame env s (step env s inp).2
      ∧ ((step env s inp).2.authname = s.authname ∨ ∃ u, AuthAccepted inp u ∧ (step env s inp).2.authname = u) := by
  unfold step
  split
  · exact ⟨relayFrame_refl env s, Or.inl rfl⟩
  · cases inp with
    | readErr rc => have := errOut_frame env rc s; exact ⟨this.1, Or.inl this.2⟩
    | line l v =>
      simp only
      cases hf : findRow l Gen.commands 0 with
      | none => have := errOut_frame env .einval s; exact ⟨this.1, Or.inl this.2⟩
      | some p =>
        obtain ⟨i, row⟩ := p
        simp only
        have e1 := errOut_frame env .e2big s
        have e2 := errOut_frame env .einval s
        have e3 := errOut_frame env .badseq s
        split
        · split
          · exact ⟨e1.1, Or.inl e1.2⟩
          · split
            · exact ⟨e2.1, Or.inl e2.2⟩
            · split
              · exact ⟨e2.1, Or.inl e2.2⟩
              · have := finishStep_frame env v row.func s row.state i _ (runFunc_frame env v row.func s l)
                refine ⟨this.1, ?_⟩
                rcases this.2 with h | ⟨hfun, u, hu, ha⟩
                · exact Or.inl h
                · exact Or.inr ⟨u, ⟨l, v, i, row, rfl, hf, hfun, hu⟩, ha⟩
        · exact ⟨e3.1, Or.inl e3.2⟩

/-- invariants of the relay decision over whole connections -/
theorem run_relayInv (env : Env) (ins : List Input) (s : Sess) (h : RelayInv env s) :
    RelayInv env (finalState env s ins) := by
  induction ins generalizing s with
  | nil => exact h
  | cons i is ih => exact ih _ (relayInv_frame env s _ (step_frame env s i).1 h)

/-- a non-empty authenticated name always stems from an accepted AUTH earlier on the connection -/
theorem run_authInv (env : Env) (ins : List Input) (s : Sess) (hist : List Input)
    (h : s.authname ≠ [] → ∃ i ∈ hist, AuthAccepted i s.authname) :
    (finalState env s ins).authname ≠ [] →
      ∃ i ∈ hist ++ ins, AuthAccepted i (finalState env s ins).authname := by
  induction ins generalizing s hist with
  | nil => simpa [finalState] using h
  | cons i is ih =>
    have hstep := (step_frame env s i).2
    have := ih (step env s i).2 (hist ++ [i]) (by
      intro hne
      rcases hstep with heq | ⟨u, hu, ha⟩
      · rw [heq] at hne ⊢
        obtain ⟨j, hj, hja⟩ := h hne
        exact ⟨j, by simp [hj], hja⟩
      · exact ⟨i, by simp, by rw [ha]; exact hu⟩)
    simpa [finalState, List.append_assoc] using this

end QsmtpModel.Session

namespace QsmtpModel.Session
open QsmtpModel

theorem smtpRcpt_remote (env : Env) (a : List Byte) (mx : MxV) (m : Bool) (f : FilterV) (s : Sess) :
    ((smtpRcpt env (.remote a mx m f) s).replies = [250] → (smtpRcpt env (.remote a mx m f) s).rc = .ok →
        ∃ s', isAuthenticated env s = (some true, s'))
    ∧ ((smtpRcpt env (.remote a mx m f) s).rc ≠ .ok →
        (smtpRcpt env (.remote a mx m f) s).replies ++ [550] ≠ [250]
        ∧ (smtpRcpt env (.remote a mx m f) s).replies ++ (errReply (smtpRcpt env (.remote a mx m f) s).rc).toList ≠ [250]) := by
  unfold smtpRcpt rcptEarly
  simp only
  split
  · simp
  · generalize isAuthenticated env s = p
    obtain ⟨o, s'⟩ := p
    match o with
    | none => simp [errReply]
    | some false => simp [errReply]
    | some true =>
      cases mx with
      | localError => simp [errReply]
      | tempNone => simp [errReply]
      | nullMx => simp [errReply]
      | found =>
        simp only [rcptAdd]
        refine ⟨fun _ _ => ⟨s', rfl⟩, ?_⟩
        split
        · simp [errReply]
        · split
          · simp [errReply]
          · split <;> simp

theorem finish_replies_250 (st : Int) (i : Nat) (r : FuncRes) (h : (finishStep st i r).1.replies = [250]) :
    (r.rc = .ok ∧ r.replies = [250]) ∨
    (r.rc ≠ .ok ∧ (r.replies ++ [550] = [250] ∨ r.replies ++ (errReply r.rc).toList = [250])) := by
  by_cases hrc : r.rc = .ok
  · left; rw [finish_ok _ _ _ hrc] at h; exact ⟨hrc, h⟩
  · right
    refine ⟨hrc, ?_⟩
    rcases (finish_err_state st i r hrc).2 with h' | h' <;> rw [h'] at h
    · exact Or.inl h
    · exact Or.inr h

theorem errOut_not_250 (rc : Rc) (s : Sess) (h : rc = .einval ∨ rc = .e2big ∨ rc = .badseq) :
    (errOut rc s).1.replies ≠ [250] := by
  unfold errOut
  simp only
  rcases handleError_spec' rc s with h' | h' <;> rw [h']
  · simp
  · rcases h with rfl | rfl | rfl <;> simp [errReply]

/-- **C01 core.** A RCPT TO for an address whose domain is not local (verdict `remote`) is answered
250 only if the client is entitled to relay. -/
theorem remote_accept_entitled (env : Env) (s : Sess) (l : List Byte) (v : Verdicts) (i : Nat) (row : Gen.Row)
    (hJ : RelayInv env s) (hrow : findRow l Gen.commands 0 = some (i, row)) (hf : row.func = .rcpt)
    (a : List Byte) (mx : MxV) (m : Bool) (f : FilterV) (hv : v.rcpt = .remote a mx m f)
    (h250 : (step env s (.line l v)).1.replies = [250]) : Entitled env s := by
  unfold step at h250
  split at h250
  · simp at h250
  · simp only [hrow] at h250
    split at h250
    · split at h250
      · exact absurd h250 (errOut_not_250 _ _ (by simp))
      · split at h250
        · exact absurd h250 (errOut_not_250 _ _ (by simp))
        · split at h250
          · exact absurd h250 (errOut_not_250 _ _ (by simp))
          · rw [hf] at h250
            simp only [runFunc, hv] at h250
            have hs := smtpRcpt_remote env a mx m f s
            rcases finish_replies_250 _ _ _ h250 with ⟨hok, hrep⟩ | ⟨hrc, hbad⟩
            · obtain ⟨s', hs'⟩ := hs.1 hrep hok
              exact isAuthenticated_true env s s' hJ hs'
            · obtain ⟨n1, n2⟩ := hs.2 hrc
              rcases hbad with hb | hb
              · exact absurd hb n1
              · exact absurd hb n2
    · exact absurd h250 (errOut_not_250 _ _ (by simp))

end QsmtpModel.Session
