/-
Helper lemmas for `Props.C04.envelope_commands_exact`: what exactly `send_envelope()` writes to the
socket (a second pass over the model that looks at `sent` only).
-/
import QsmtpModel.Lemmas.QrProto

namespace QsmtpModel.QrProto
open QsmtpModel

/-- a payload of the envelope: it starts with `M` (MAIL FROM…) or `R` (RCPT TO…) -/
def isEnv (p : List Byte) : Bool := p.head? = some 77 || p.head? = some 82

/-- the bytes of the envelope payloads among `l`, in order -/
def envOf (l : List (List Byte)) : List Byte := (l.filter isEnv).flatten

theorem envOf_append (a b : List (List Byte)) : envOf (a ++ b) = envOf a ++ envOf b := by
  simp [envOf]

theorem envOf_other {l : List (List Byte)} (h : ∀ p ∈ l, Other p) : envOf l = [] := by
  unfold envOf
  have : l.filter isEnv = [] := by
    rw [List.filter_eq_nil_iff]
    intro p hp
    have ho := h p hp
    unfold isEnv
    cases hh : p.head? with
    | none => simp
    | some b =>
      have := ho b hh
      simp [this.2.1, this.2.2]
  rw [this]; rfl

theorem envOf_env {l : List (List Byte)} (h : ∀ p ∈ l, isEnv p = true) : envOf l = l.flatten := by
  unfold envOf
  rw [List.filter_eq_self.mpr h]

/-- the socket got `dn` more payloads: the envelope bytes among them are `b`, none is `DATA` -/
def EnvSent (s s' : St) (b : List Byte) : Prop :=
  ∃ dn, s'.sent = s.sent ++ dn ∧ envOf dn = b ∧ ∀ p ∈ dn, p.head? ≠ some 68

theorem EnvSent.refl (s : St) : EnvSent s s [] := ⟨[], by simp, rfl, by simp⟩
theorem EnvSent.of_eq {s s' : St} (h : s'.sent = s.sent) : EnvSent s s' [] := ⟨[], by simp [h], rfl, by simp⟩
theorem EnvSent.of_sentQ {s s' : St} (h : SentQ s s') : EnvSent s s' [] := by
  obtain ⟨dn, e, q⟩ := h
  exact ⟨dn, e, envOf_other q, fun p hp hh => (q p hp 68 hh).1 rfl⟩
theorem EnvSent.trans {a b c : St} {x y : List Byte} (h1 : EnvSent a b x) (h2 : EnvSent b c y) : EnvSent a c (x ++ y) := by
  obtain ⟨d1, e1, b1, q1⟩ := h1
  obtain ⟨d2, e2, b2, q2⟩ := h2
  refine ⟨d1 ++ d2, by rw [e2, e1, List.append_assoc], by rw [envOf_append, b1, b2], ?_⟩
  intro p hp
  rcases List.mem_append.mp hp with h | h
  · exact q1 p h
  · exact q2 p h
theorem EnvSent.trans_nil {a b c : St} {x : List Byte} (h1 : EnvSent a b x) (h2 : EnvSent b c []) : EnvSent a c x := by
  have := h1.trans h2; simpa using this
theorem EnvSent.nil_trans {a b c : St} {x : List Byte} (h1 : EnvSent a b []) (h2 : EnvSent b c x) : EnvSent a c x := by
  have := h1.trans h2; simpa using this

/-! ### replies: nothing of the envelope is sent while they are read -/

theorem checkreply_some_sent (tag : Nat) (st : List Byte) (pre : List (List Byte)) (mask : Nat) (s : St) :
    (checkreply tag (some st) pre mask s).sat
      (fun _ s' => s'.sent = s.sent ∧ s'.sock = s.sock ∧ s'.ext = s.ext) (fun s' => EnvSent s s' []) := by
  apply sat_mono (checkreply_some_spec tag st pre mask s)
  · rintro c s' ⟨_, _, _, _, _, _, _, _, _, _, _, _, hsock, hsent, hext, _⟩
    exact ⟨hsent, hsock, hext⟩
  · rintro s' (h | ⟨_, _, _, _, _, _, _, _, _, _, _, _, _, hsq⟩)
    · exact EnvSent.of_sentQ h.2.2
    · exact EnvSent.of_sentQ hsq

theorem rcptReplies_sent : ∀ (k rcptstat : Nat) (s : St),
    (rcptReplies k rcptstat s).sat (fun _ s' => s'.sent = s.sent ∧ s'.sock = s.sock) (fun s' => EnvSent s s' []) := by
  intro k
  induction k with
  | zero => intro _ s; simp [rcptReplies]
  | succ k ih =>
    intro rcptstat s
    unfold rcptReplies
    apply sat_bind (checkreply_some_sent _ _ _ _ s)
    intro c s1 ⟨hsent, hsock, _⟩
    apply sat_mono (ih _ s1)
    · rintro _ s2 ⟨h1, h2⟩; exact ⟨h1.trans hsent, h2.trans hsock⟩
    · intro s2 h; exact (EnvSent.of_eq hsent).nil_trans h

/-! ### commands -/

/-- the bytes `net_writen()` puts on the wire for one command -/
def writenBytes (s0 : List Byte) (ss : List (List Byte)) : List Byte :=
  match Writen.netWriten s0 ss with
  | .ok lines => lines.flatten
  | .error _ => []

theorem netWriten_sent (s0 : List Byte) (ss : List (List Byte)) (h0 : 3 < s0.length) (h1 : s0.length < 510)
    (hb : s0.head? = some 77 ∨ s0.head? = some 82) (s : St) (hsock : s.sock = true) :
    (netWriten s0 ss s).sat
      (fun _ s' => EnvSent s s' (writenBytes s0 ss) ∧ s'.sock = true ∧ s'.ext = s.ext) (fun _ => False) := by
  apply sat_mono (netWriten_spec s0 ss h0 h1 s)
  · rintro _ s' ⟨_, out, hok, rfl, hh⟩
    have henv : ∀ p ∈ out, isEnv p = true := by
      intro p hp; unfold isEnv; rw [hh p hp]
      rcases hb with h | h <;> simp [h]
    refine ⟨⟨out, rfl, ?_, ?_⟩, hsock, rfl⟩
    · rw [envOf_env henv]; unfold writenBytes; rw [hok]
    · intro p hp; rw [hh p hp]; rcases hb with h | h <;> simp [h]
  · rintro s' ⟨_, h⟩; rw [hsock] at h; simp at h

/-- the commands for the recipients, one `net_writen()` each -/
def rcptsOneByOneBytes (rs : List (List Byte)) : List Byte :=
  (rs.map fun r => writenBytes Gen.Qr.cmdRcpt [r, Gen.Qr.cmdRcptEnd]).flatten

theorem rcptOneByOne_sent : ∀ (rs : List (List Byte)) (rcptstat : Nat) (s : St), s.sock = true →
    (rcptOneByOne rs rcptstat s).sat
      (fun _ s' => EnvSent s s' (rcptsOneByOneBytes rs) ∧ s'.sock = true)
      (fun s' => ∃ b, EnvSent s s' b ∧ b <+: rcptsOneByOneBytes rs) := by
  intro rs
  induction rs with
  | nil => intro _ s hs; simp only [rcptOneByOne, sat_ret]; exact ⟨EnvSent.refl s, hs⟩
  | cons r rs ih =>
    intro rcptstat s hsock
    unfold rcptOneByOne
    have hb : rcptsOneByOneBytes (r :: rs) = writenBytes Gen.Qr.cmdRcpt [r, Gen.Qr.cmdRcptEnd] ++ rcptsOneByOneBytes rs := by
      simp [rcptsOneByOneBytes]
    apply sat_bind' (netWriten_sent Gen.Qr.cmdRcpt [r, Gen.Qr.cmdRcptEnd] (by decide) (by decide) (Or.inr (by decide)) s hsock)
      (fun _ h => False.elim h)
    intro _ s1 ⟨he1, hsock1, _⟩
    apply sat_bind' (checkreply_some_sent _ _ _ _ s1)
      (fun s' h => ⟨_, he1.trans_nil h, by rw [hb]; exact List.prefix_append _ _⟩)
    intro c s2 ⟨hsent2, hsock2, _⟩
    apply sat_mono (ih _ s2 (by rw [hsock2, hsock1]))
    · rintro _ s3 ⟨he3, hs3⟩
      exact ⟨by rw [hb]; exact he1.trans ((EnvSent.of_eq hsent2).nil_trans he3), hs3⟩
    · rintro s3 ⟨b, he3, hpre⟩
      exact ⟨_, he1.trans ((EnvSent.of_eq hsent2).nil_trans he3), by rw [hb]; exact (List.prefix_append_right_inj _).mpr hpre⟩

/-- `RCPT TO:<r>\r\n` for every recipient -/
def rcptBytes (rs : List (List Byte)) : List Byte := (rs.map fun r => Gen.Qr.cmdRcpt ++ r ++ Gen.Qr.cmdRcptEndCrlf).flatten

theorem flushBatch_sent (first : List Byte) (mid : List (List Byte)) (hlen : (first :: mid).length + 1 < Gen.Qr.netmsgSize)
    (hf : first.head? = some 77 ∨ first.head? = some 82) (s : St) (hsock : s.sock = true) :
    (flushBatch (first :: mid ++ [Gen.Qr.cmdRcptEndCrlf]) s).sat
      (fun _ s' => EnvSent s s' ((first :: mid).flatten ++ Gen.Qr.cmdRcptEndCrlf) ∧ s'.sock = true ∧ s'.ext = s.ext)
      (fun _ => False) := by
  unfold flushBatch
  have h1 : (first :: mid ++ [Gen.Qr.cmdRcptEndCrlf]).length < Gen.Qr.netmsgSize := by simpa using hlen
  rw [if_pos h1]
  unfold netWriteMultiline
  rw [show first :: mid ++ [Gen.Qr.cmdRcptEndCrlf] = (first :: mid) ++ [Gen.Qr.cmdRcptEndCrlf] by simp, multiline_ok]
  dsimp only
  rw [netnwrite_open _ _ hsock]
  simp only [sat_ret]
  have hhead : ((first :: mid).flatten ++ Gen.Qr.cmdRcptEndCrlf).head? = first.head? := by
    cases first with
    | nil => rcases hf with h | h <;> simp at h
    | cons x t => simp
  have henv : isEnv ((first :: mid).flatten ++ Gen.Qr.cmdRcptEndCrlf) = true := by
    unfold isEnv; rw [hhead]; rcases hf with h | h <;> simp [h]
  generalize (first :: mid).flatten ++ Gen.Qr.cmdRcptEndCrlf = x at hhead henv ⊢
  refine ⟨⟨[x], rfl, ?_, ?_⟩, hsock, by trv⟩
  · unfold envOf
    simp [henv]
  · intro p hp; simp only [List.mem_singleton] at hp; subst hp; rw [hhead]
    rcases hf with h | h <;> simp [h]

theorem cmdRcptSep_eq : Gen.Qr.cmdRcptSep = Gen.Qr.cmdRcptEndCrlf ++ Gen.Qr.cmdRcpt := by decide

/-- the batches: with `tl.flatten = done ++ "RCPT TO:<"`-shaped accumulator the payloads add up to the
plain commands -/
theorem batches_sent (n : Nat) : ∀ (rs : List (List Byte)) (i : Nat) (tl : List (List Byte)) (done : List Byte) (s : St),
    (Gen.Qr.cmdRcpt :: tl).length ≤ 1 + 2 * (i % 4) → s.sock = true → i + rs.length = n →
    (Gen.Qr.cmdRcpt :: tl).flatten = done ++ Gen.Qr.cmdRcpt →
    (done ≠ [] → done.head? = some 82) → (rs = [] → done = []) →
    (batches n i rs (Gen.Qr.cmdRcpt :: tl) s).sat
      (fun _ s' => EnvSent s s' (done ++ rcptBytes rs) ∧ s'.sock = true ∧ s'.ext = s.ext) (fun _ => False) := by
  intro rs
  induction rs with
  | nil =>
    intro i tl done s _ hs _ _ _ hd
    simp only [batches, sat_ret]
    rw [hd rfl]; exact ⟨EnvSent.refl s, hs, by trv⟩
  | cons r rs ih =>
    intro i tl done s hlen hsock hin hfl hdh _
    have hi : i % 4 < 4 := Nat.mod_lt _ (by decide)
    unfold batches push
    have h1 : (Gen.Qr.cmdRcpt :: tl).length < Gen.Qr.netmsgSize := by rw [netmsgSize_eq]; omega
    rw [if_pos h1]
    dsimp only
    have h2 : (Gen.Qr.cmdRcpt :: tl ++ [r]).length < Gen.Qr.netmsgSize := by rw [netmsgSize_eq]; simp at hlen ⊢; omega
    have hrb : rcptBytes (r :: rs) = Gen.Qr.cmdRcpt ++ r ++ Gen.Qr.cmdRcptEndCrlf ++ rcptBytes rs := by simp [rcptBytes]
    split
    · -- the batch ends here
      first | rw [if_pos h2] | skip
      dsimp only
      have hfb := flushBatch_sent Gen.Qr.cmdRcpt (tl ++ [r]) (by rw [netmsgSize_eq]; simp at hlen ⊢; omega)
        (Or.inr (by decide)) s hsock
      simp only [List.cons_append, List.append_assoc] at hfb ⊢
      apply sat_bind hfb
      intro _ s1 ⟨he1, hsock1, hext1⟩
      have hbytes : (Gen.Qr.cmdRcpt :: (tl ++ [r])).flatten ++ Gen.Qr.cmdRcptEndCrlf = done ++ (Gen.Qr.cmdRcpt ++ r ++ Gen.Qr.cmdRcptEndCrlf) := by
        have : (Gen.Qr.cmdRcpt :: (tl ++ [r])).flatten = (Gen.Qr.cmdRcpt :: tl).flatten ++ r := by simp
        rw [this, hfl]; simp [List.append_assoc]
      rw [hbytes] at he1
      by_cases hrs : rs = []
      · subst hrs
        simp only [batches, sat_ret]
        refine ⟨?_, hsock1, hext1⟩
        rw [hrb]; simpa [rcptBytes, List.append_assoc] using he1
      · apply sat_mono (ih (i + 1) [] [] s1 (by simp) hsock1 (by simp at hin ⊢; omega) (by simp) (by simp) (fun h => absurd h hrs))
        · rintro _ s2 ⟨he2, hs2, hext2⟩
          refine ⟨?_, hs2, hext2.trans hext1⟩
          have := he1.trans he2
          rw [hrb]; simpa [List.append_assoc] using this
        · intro _ h; exact h
    · rename_i hne
      first | rw [if_pos h2] | skip
      dsimp only
      rw [batchMod_eq, batchRem_eq] at hne
      have hi3 : i % 4 ≠ 3 := fun h => hne (Or.inr h)
      have hnext : (i + 1) % 4 = i % 4 + 1 := by omega
      have hrs : rs ≠ [] := by
        intro h; subst h; simp at hin; exact hne (Or.inl (by omega))
      have := ih (i + 1) (tl ++ [r] ++ [Gen.Qr.cmdRcptSep]) (done ++ (Gen.Qr.cmdRcpt ++ r ++ Gen.Qr.cmdRcptEndCrlf)) s
        (by rw [hnext]; simp at hlen ⊢; omega) hsock (by simp at hin ⊢; omega)
        (by
          have : (Gen.Qr.cmdRcpt :: (tl ++ [r] ++ [Gen.Qr.cmdRcptSep])).flatten = (Gen.Qr.cmdRcpt :: tl).flatten ++ r ++ Gen.Qr.cmdRcptSep := by simp
          rw [this, hfl, cmdRcptSep_eq]; simp [List.append_assoc])
        (by
          intro _
          by_cases hd : done = []
          · subst hd; simp [Gen.Qr.cmdRcpt]
          · have := hdh hd
            cases done with
            | nil => exact absurd rfl hd
            | cons x t => simpa using this)
        (fun h => absurd h hrs)
      rw [hrb]
      simpa [List.append_assoc] using this

/-! ### send_envelope, main -/

/-- the bytes of the whole envelope as `send_envelope()` writes them in state `s` (extension bits) -/
def expectedEnv (a : Args) (s : St) : List Byte :=
  if hasExt s Gen.Qr.extPipelining then
    match a.rcpts with
    | [] => []
    | r0 :: rs => (Gen.Qr.cmdMail :: (mailParts a s ++ [Gen.Qr.cmdRcptAfterMail, r0])).flatten ++ Gen.Qr.cmdRcptEndCrlf ++ rcptBytes rs
  else writenBytes Gen.Qr.cmdMail (mailParts a s) ++ rcptsOneByOneBytes a.rcpts

theorem drain_sent (k : Nat) (s : St) :
    (drain k s).sat (fun _ s' => EnvSent s s' []) (fun s' => EnvSent s s' []) :=
  sat_mono (drain_spec k s) (fun _ _ h => EnvSent.of_sentQ h.2.2) (fun _ h => EnvSent.of_sentQ h.2.2.1)

theorem sendEnvelope_sent (a : Args) (s : St) (hsock : s.sock = true) (hne : a.rcpts ≠ []) :
    (sendEnvelope a s).sat
      (fun r s' => ∃ b, EnvSent s s' b ∧ b <+: expectedEnv a s ∧ (r = 0 → b = expectedEnv a s ∧ s'.sock = true))
      (fun s' => ∃ b, EnvSent s s' b ∧ b <+: expectedEnv a s) := by
  unfold sendEnvelope
  dsimp only
  split
  · rename_i hp
    split
    · rename_i h0; exact absurd h0 hne
    · rename_i r0 rs hr
      have hE : expectedEnv a s = (Gen.Qr.cmdMail :: (mailParts a s ++ [Gen.Qr.cmdRcptAfterMail, r0])).flatten
          ++ Gen.Qr.cmdRcptEndCrlf ++ rcptBytes rs := by
        unfold expectedEnv; rw [if_pos hp, hr]
      rw [hE]
      have hfl := flushBatch_sent Gen.Qr.cmdMail (mailParts a s ++ [Gen.Qr.cmdRcptAfterMail, r0])
        (by have := mailParts_length a s; rw [netmsgSize_eq]; simp; omega) (Or.inl (by decide)) s hsock
      have hlist : [Gen.Qr.cmdMail] ++ mailParts a s ++ [Gen.Qr.cmdRcptAfterMail, r0, Gen.Qr.cmdRcptEndCrlf]
          = Gen.Qr.cmdMail :: (mailParts a s ++ [Gen.Qr.cmdRcptAfterMail, r0]) ++ [Gen.Qr.cmdRcptEndCrlf] := by simp
      rw [hlist]
      apply sat_bind' hfl (fun _ h => False.elim h)
      intro _ s1 ⟨he1, hsock1, hext1⟩
      apply sat_bind' (batches_sent _ rs 1 [] [] s1 (by simp) hsock1 (by rw [hr]; simp; omega) (by simp) (by simp) (fun _ => rfl))
        (fun _ h => False.elim h)
      intro _ s2 ⟨he2, hsock2, hext2⟩
      have he12 := he1.trans he2
      simp only [List.nil_append] at he12
      apply sat_bind' (checkreply_some_sent _ _ _ _ s2) (fun s' h => ⟨_, he12.trans_nil h, List.prefix_refl _⟩)
      intro c s3 ⟨hsent3, hsock3, hext3⟩
      have he3 := he12.trans_nil (EnvSent.of_eq hsent3)
      split
      · apply sat_bind' (drain_sent _ s3) (fun s' h => ⟨_, he3.trans_nil h, List.prefix_refl _⟩)
        intro _ s4 h4
        simp only [sat_ret]
        exact ⟨_, he3.trans_nil h4, List.prefix_refl _, fun h => by omega⟩
      · apply sat_mono (rcptReplies_sent _ 1 s3)
        · rintro r s4 ⟨hsent4, hsock4⟩
          exact ⟨_, he3.trans_nil (EnvSent.of_eq hsent4), List.prefix_refl _,
            fun _ => ⟨rfl, by rw [hsock4, hsock3, hsock2]⟩⟩
        · intro s4 h; exact ⟨_, he3.trans_nil h, List.prefix_refl _⟩
  · rename_i hp
    have hE : expectedEnv a s = writenBytes Gen.Qr.cmdMail (mailParts a s) ++ rcptsOneByOneBytes a.rcpts := by
      unfold expectedEnv; rw [if_neg hp]
    rw [hE]
    apply sat_bind' (netWriten_sent Gen.Qr.cmdMail (mailParts a s) (by decide) (by decide) (Or.inl (by decide)) s hsock)
      (fun _ h => False.elim h)
    intro _ s1 ⟨he1, hsock1, hext1⟩
    apply sat_bind' (checkreply_some_sent _ _ _ _ s1) (fun s' h => ⟨_, he1.trans_nil h, List.prefix_append _ _⟩)
    intro c s2 ⟨hsent2, hsock2, hext2⟩
    have he2 := he1.trans_nil (EnvSent.of_eq hsent2)
    split
    · simp only [sat_ret]
      exact ⟨_, he2, List.prefix_append _ _, fun h => by omega⟩
    · apply sat_mono (rcptOneByOne_sent a.rcpts 1 s2 (by rw [hsock2, hsock1]))
      · rintro r s3 ⟨he3, hsock3⟩
        exact ⟨_, he2.trans he3, List.prefix_refl _, fun _ => ⟨rfl, hsock3⟩⟩
      · rintro s3 ⟨b, he3, hpre⟩
        exact ⟨_, he2.trans he3, (List.prefix_append_right_inj _).mpr hpre⟩

/-- what `send_data()` sends: `DATA`, the body marker, the final dot, possibly QUIT — nothing of
the envelope -/
theorem sendData_sent (a : Args) (s : St) (hsock : s.sock = true) :
    (sendData a s).sat (fun _ s' => ∃ dn, s'.sent = s.sent ++ dn ∧ envOf dn = [])
      (fun s' => ∃ dn, s'.sent = s.sent ++ dn ∧ envOf dn = []) := by
  have hdata : envOf [Gen.Qr.cmdData] = [] := by decide
  have key : ∀ {s1 s' : St} (dn1 : List (List Byte)), s1.sent = s.sent ++ dn1 → envOf dn1 = [] → SentQ s1 s' →
      ∃ dn, s'.sent = s.sent ++ dn ∧ envOf dn = [] := by
    intro s1 s' dn1 h1 h2 ⟨dn2, h3, h4⟩
    exact ⟨dn1 ++ dn2, by rw [h3, h1, List.append_assoc], by rw [envOf_append, h2, envOf_other h4]; rfl⟩
  unfold sendData
  rw [netnwrite_open _ _ hsock, bind_ret]
  apply sat_bind' (netget_spec true _) (fun s' h => key [Gen.Qr.cmdData] rfl hdata h.1.2.2)
  intro num s2 hret
  rcases hret with ⟨hpos, l, rest, hsc, rfl, hcode⟩ | ⟨_, hf, _⟩
  · split
    · apply sat_mono (shutdownClean_spec _ _) (fun _ _ h => h)
      intro s' h
      exact key (s1 := writeStatusM _ _) [Gen.Qr.cmdData] rfl hdata h.2.2
    · dsimp only
      rw [netnwrite_open _ _ (by exact hsock), bind_ret, netnwrite_open _ _ (by exact hsock), bind_ret]
      have hdn : envOf [Gen.Qr.cmdData, bodyMarker, if a.lastlf = true then Gen.Qr.cmdDot else Gen.Qr.cmdCrlfDot] = [] := by
        cases a.lastlf <;> decide
      apply sat_bind' (checkreply_some_sent _ _ _ _ _)
      · rintro s' ⟨dn2, h3, h4, _⟩
        refine ⟨[Gen.Qr.cmdData, bodyMarker, if a.lastlf = true then Gen.Qr.cmdDot else Gen.Qr.cmdCrlfDot] ++ dn2, by rw [h3]; simp,
          by rw [envOf_append, hdn, h4]; rfl⟩
      · rintro _ s' ⟨hsent, _, _⟩
        simp only [sat_ret]
        exact ⟨[Gen.Qr.cmdData, bodyMarker, if a.lastlf = true then Gen.Qr.cmdDot else Gen.Qr.cmdCrlfDot], by rw [hsent]; simp, hdn⟩
  · simp at hf

/-- the envelope bytes among everything a run sent are a prefix of the expected envelope (as
determined by the extension bits at the time `send_envelope()` starts), and all of it when `DATA`
was sent -/
theorem run_sent (a : Args) (script : List Rd) (conns : Nat) (tls : List Int) :
    (run a script conns tls).sat (fun _ _ => False)
      (fun s' => envOf s'.sent = [] ∧ Gen.Qr.cmdData ∉ s'.sent
        ∨ ∃ se : St, envOf s'.sent <+: expectedEnv a se ∧ (Gen.Qr.cmdData ∈ s'.sent → envOf s'.sent = expectedEnv a se)) := by
  unfold run qrMain
  have hi : (initSt script conns tls).sent = [] := rfl
  have nothing : ∀ {s s' : St}, s.sent = [] → EnvSent s s' [] → envOf s'.sent = [] ∧ Gen.Qr.cmdData ∉ s'.sent := by
    intro s s' h0 ⟨dn, h1, h2, h3⟩
    rw [h1, h0, List.nil_append]
    exact ⟨h2, fun hm => h3 _ hm (by decide)⟩
  split
  · unfold shutdownAbort
    simp only [sat_exit]
    exact Or.inl (nothing hi (EnvSent.of_eq rfl))
  · rename_i hne
    apply sat_bind' (connectMx_spec a.helo _ _ (Nat.lt_succ_self _)) (fun s' h => Or.inl (nothing hi (EnvSent.of_sentQ h.2.2)))
    intro i s1 ⟨hsame1, _, hsock1⟩
    have he1 : EnvSent (initSt script conns tls) s1 [] := EnvSent.of_sentQ hsame1.2.2
    split
    · unfold shutdownAbort
      simp only [sat_exit]
      exact Or.inl (nothing hi (he1.trans_nil (EnvSent.of_eq rfl)))
    · rename_i hi0
      have envfin : ∀ {s' : St} {b : List Byte}, EnvSent s1 s' b → b <+: expectedEnv a s1 →
          ∃ se : St, envOf s'.sent <+: expectedEnv a se ∧ (Gen.Qr.cmdData ∈ s'.sent → envOf s'.sent = expectedEnv a se) := by
        intro s' b he hpre
        obtain ⟨dn, h1, h2, h3⟩ := he1.nil_trans he
        rw [hi, List.nil_append] at h1
        refine ⟨s1, by rw [h1, h2]; exact hpre, fun hm => ?_⟩
        rw [h1] at hm
        exact absurd (by decide) (h3 _ hm)
      apply sat_bind' (sendEnvelope_sent a s1 (hsock1 (by omega)) hne) (fun s' ⟨b, h1, h2⟩ => Or.inr (envfin h1 h2))
      intro r s2 ⟨b, he2, hpre, hall⟩
      split
      · apply sat_mono (shutdownClean_spec s2 _) (fun _ _ h => h)
        intro s' h
        exact Or.inr (envfin (he2.trans_nil (EnvSent.of_sentQ h.2.2)) hpre)
      · rename_i hr
        have hb : b = expectedEnv a s1 := (hall (by omega)).1
        obtain ⟨dn2, h21, h22, _⟩ := he1.nil_trans he2
        rw [hi, List.nil_append] at h21
        have datafin : ∀ s3 s' : St, (∃ dn, s3.sent = s2.sent ++ dn ∧ envOf dn = []) → SentQ s3 s' →
            ∃ se : St, envOf s'.sent <+: expectedEnv a se ∧ (Gen.Qr.cmdData ∈ s'.sent → envOf s'.sent = expectedEnv a se) := by
          rintro s3 s' ⟨dn3, h31, h32⟩ ⟨dn4, h41, h42⟩
          have : envOf s'.sent = expectedEnv a s1 := by
            rw [h41, h31, h21, envOf_append, envOf_append, h22, h32, envOf_other h42, hb]; simp
          exact ⟨s1, by rw [this]; exact List.prefix_refl _, fun _ => this⟩
        have hsock2 : s2.sock = true := (hall (by omega)).2
        apply sat_bind' (sendData_sent a s2 hsock2) (fun s' h => Or.inr (datafin s' s' h (SentQ.refl s')))
        intro _ s3 h3
        apply sat_mono (shutdownClean_spec s3 _) (fun _ _ h => h)
        intro s' h
        exact Or.inr (datafin s3 s' h3 h.2.2)

end QsmtpModel.QrProto

namespace QsmtpModel.QrProto
open QsmtpModel

/-! ### commands that fit into one line are sent as they are -/

theorem parts_nofold : ∀ (ss : List (List Byte)) (msg : List Byte) (out : List (List Byte)),
    msg.length + ss.flatten.length ≤ 510 →
    Writen.parts msg out ss = .ok (out ++ [msg ++ ss.flatten ++ [CR, LF]]) := by
  intro ss
  induction ss with
  | nil =>
    intro msg out h
    simp only [Writen.parts, Writen.emit]
    have : msg.length + 2 ≤ Writen.msgSize := by
      have e : Writen.msgSize = 512 := rfl
      rw [e]; simp at h; omega
    rw [if_pos this]
    simp [bind, Except.bind, pure, Except.pure]
  | cons s rest ih =>
    intro msg out h
    simp only [Writen.parts]
    have hno : ¬ (msg.length + s.length > Writen.msgSize - Gen.netWritenFlushSlack) := by
      have e : Writen.msgSize - Gen.netWritenFlushSlack = 510 := rfl
      rw [e]; simp at h; omega
    rw [if_neg hno]
    rw [ih (msg ++ s) out (by simp at h ⊢; omega)]
    simp [List.append_assoc]

theorem writen_single (s0 : List Byte) (ss : List (List Byte)) (h0 : 3 < s0.length) (h1 : s0.length < 510)
    (h : s0.length + ss.flatten.length ≤ 510) : writenBytes s0 ss = s0 ++ ss.flatten ++ [CR, LF] := by
  unfold writenBytes Writen.netWriten
  have e : Writen.msgSize = 512 := rfl
  have hA : ¬ (s0.length > Writen.msgSize) := by rw [e]; omega
  have hB : ¬ ¬ (3 < s0.length ∧ s0.length < Writen.msgSize - 2) := by rw [e]; omega
  rw [if_neg hA, if_neg hB, parts_nofold ss s0 [] h]
  simp

end QsmtpModel.QrProto
