/-
Helper lemmas for the AUTH model (QsmtpModel/Auth.lean): the monad, what each function can return
and which events it emits.  The property theorems are in Props/C09.lean.
-/
import QsmtpModel.Auth

namespace QsmtpModel.Auth
open QsmtpModel

/-! ### the monad -/

@[simp] theorem bind_def {α β : Type} (m : M α) (f : α → M β) : (m >>= f) = M.bind m f := rfl
@[simp] theorem pure_def {α : Type} (a : α) : (pure a : M α) = M.pure a := rfl

theorem bind_ok {α β : Type} {m : M α} {f : α → M β} {i : In} {b : β} {r : In} {ev : List Ev} :
    M.bind m f i = .ok b r ev ↔
      ∃ a r1 ev1 ev2, m i = .ok a r1 ev1 ∧ f a r1 = .ok b r ev2 ∧ ev = ev1 ++ ev2 := by
  unfold M.bind
  constructor
  · intro h
    split at h
    · rename_i a r1 ev1 hm
      split at h
      · rename_i b' r' ev' hf
        injection h with h1 h2 h3
        subst h1; subst h2
        exact ⟨a, r1, ev1, ev', hm, hf, h3.symm⟩
      · cases h
      · cases h
    · cases h
    · cases h
  · rintro ⟨a, r1, ev1, ev2, hm, hf, rfl⟩
    simp [hm, hf]

@[simp] theorem pure_ok {α : Type} {a b : α} {i r : In} {ev : List Ev} :
    M.pure a i = .ok b r ev ↔ a = b ∧ i = r ∧ ev = [] := by
  unfold M.pure
  constructor
  · intro h; injection h with h1 h2 h3; exact ⟨h1, h2, h3.symm⟩
  · rintro ⟨rfl, rfl, rfl⟩; rfl

@[simp] theorem emit_ok {e : Ev} {i r : In} {ev : List Ev} {u : Unit} :
    emit e i = .ok u r ev ↔ i = r ∧ ev = [e] := by
  unfold emit
  constructor
  · intro h; injection h with _ h2 h3; exact ⟨h2, h3.symm⟩
  · rintro ⟨rfl, rfl⟩; rfl

@[simp] theorem fault_ok {α : Type} {f : Fault} {i r : In} {a : α} {ev : List Ev} :
    (fault f : M α) i = .ok a r ev ↔ False := by
  unfold fault; simp

/-! ### oracle traces only shrink; `errno` is never 0 after a failed call -/

/-- `i'` is what is left of `i` -/
def Rest (i' i : In) : Prop := i'.rd <:+ i.rd ∧ i'.wr <:+ i.wr

theorem Rest.refl (i : In) : Rest i i := ⟨List.suffix_refl _, List.suffix_refl _⟩
theorem Rest.trans {a b c : In} (h1 : Rest a b) (h2 : Rest b c) : Rest a c :=
  ⟨h1.1.trans h2.1, h1.2.trans h2.2⟩

/-- contract of the C library / of `netnwrite` / of `net_readline`: a call that reports failure has
set `errno` to a non-zero value -/
def Sane (i : In) : Prop := (∀ e, WrRes.err e ∈ i.wr → e ≠ 0) ∧ (∀ e, RdRes.err e ∈ i.rd → e ≠ 0)

theorem Sane.rest {i' i : In} (h : Sane i) (hr : Rest i' i) : Sane i' :=
  ⟨fun e he => h.1 e (hr.2.subset he), fun e he => h.2 e (hr.1.subset he)⟩

/-! ### events -/

/-- events that concern only the SMTP connection and the log -/
def Ev.isNet : Ev → Bool
  | .reply _ | .replyErr _ | .tarpit | .sleep _ | .log _ => true
  | _ => false

def Quiet (ev : List Ev) : Prop := ∀ e ∈ ev, Ev.isNet e = true

theorem Quiet.nil : Quiet [] := by intro e he; cases he
theorem Quiet.append {a b : List Ev} (ha : Quiet a) (hb : Quiet b) : Quiet (a ++ b) := by
  intro e he
  rcases List.mem_append.mp he with h | h
  · exact ha e h
  · exact hb e h
theorem Quiet.cons {e : Ev} {a : List Ev} (he : Ev.isNet e = true) (ha : Quiet a) : Quiet (e :: a) := by
  intro x hx
  rcases List.mem_cons.mp hx with rfl | h
  · exact he
  · exact ha x h

theorem fd3Bytes_append (a b : List Ev) : fd3Bytes (a ++ b) = fd3Bytes a ++ fd3Bytes b := by
  induction a with
  | nil => rfl
  | cons e a ih => cases e <;> simp [fd3Bytes, ih]

theorem Quiet.fd3Bytes {ev : List Ev} (h : Quiet ev) : fd3Bytes ev = [] := by
  induction ev with
  | nil => rfl
  | cons e a ih =>
    have he := h e (List.mem_cons_self ..)
    have ha : Quiet a := fun x hx => h x (List.mem_cons_of_mem _ hx)
    cases e <;> simp [Ev.isNet] at he <;> simp [Auth.fd3Bytes, ih ha]

theorem Quiet.not_eof {ev : List Ev} (h : Quiet ev) : Ev.eof ∉ ev := by
  intro hm; have := h _ hm; simp [Ev.isNet] at this

theorem Quiet.not_spawn {ev : List Ev} (h : Quiet ev) : Ev.spawn ∉ ev := by
  intro hm; have := h _ hm; simp [Ev.isNet] at this

theorem replies_append (a b : List Ev) : replies (a ++ b) = replies a ++ replies b := by
  induction a with
  | nil => rfl
  | cons e a ih => cases e <;> simp [replies, ih]

/-! ### netwrite and the error replies -/

theorem netwrite_ok {s : List Byte} {i r : In} {w : Option Nat} {ev : List Ev} (h : netwrite s i = .ok w r ev) :
    Rest r i ∧ r.rd = i.rd ∧
      ((w = none ∧ ev = [.reply s]) ∨ (∃ e, w = some e ∧ WrRes.err e ∈ i.wr ∧ ev = [.replyErr s])) := by
  unfold netwrite at h
  split at h
  · injection h with h1 h2 h3; subst h1 h2 h3
    exact ⟨Rest.refl _, rfl, Or.inl ⟨rfl, rfl⟩⟩
  · rename_i tl hw
    injection h with h1 h2 h3; subst h1 h2 h3
    exact ⟨⟨List.suffix_refl _, by simp [hw]⟩, rfl, Or.inl ⟨rfl, rfl⟩⟩
  · rename_i e tl hw
    injection h with h1 h2 h3; subst h1 h2 h3
    exact ⟨⟨List.suffix_refl _, by simp [hw]⟩, rfl, Or.inr ⟨e, rfl, by simp [hw], rfl⟩⟩
  · cases h

theorem netwrite_quiet {s : List Byte} {i r : In} {w : Option Nat} {ev : List Ev} (h : netwrite s i = .ok w r ev) :
    Quiet ev := by
  rcases (netwrite_ok h).2.2 with ⟨_, rfl⟩ | ⟨e, _, _, rfl⟩ <;> exact Quiet.cons rfl Quiet.nil

theorem doneOr_neg {i : In} (hs : Sane i) {w : Option Nat} (hw : w = none ∨ ∃ e, w = some e ∧ WrRes.err e ∈ i.wr) :
    doneOr w < 0 := by
  rcases hw with rfl | ⟨e, rfl, he⟩
  · simp [doneOr, EDONE]
  · have := hs.1 e he
    simp [doneOr]; omega

/-- `tarpit(); if (!netwrite(msg)) return -EDONE; return -errno;` and the variants with a log line -/
theorem errReply_ok {pre : Ev} (hpre : Ev.isNet pre = true) {msg : List Byte} {i r : In} {x : Int} {ev : List Ev} (hs : Sane i)
    (h : (do emit pre; let w ← netwrite msg; pure (doneOr w) : M Int) i = .ok x r ev) :
    x < 0 ∧ Rest r i ∧ r.rd = i.rd ∧ Quiet ev := by
  simp only [bind_def, pure_def, bind_ok, emit_ok, pure_ok] at h
  obtain ⟨_, r1, ev1, ev2, ⟨rfl, rfl⟩, ⟨w, r2, ev3, ev4, hw, ⟨rfl, rfl, rfl⟩, rfl⟩, rfl⟩ := h
  have := netwrite_ok hw
  refine ⟨doneOr_neg hs ?_, this.1, this.2.1, ?_⟩
  · rcases this.2.2 with ⟨h1, _⟩ | ⟨e, h1, h2, _⟩
    · exact Or.inl h1
    · exact Or.inr ⟨e, h1, h2⟩
  · simp only [List.append_nil]
    exact Quiet.cons hpre (netwrite_quiet hw)

theorem errInput_ok {i r : In} {x : Int} {ev : List Ev} (hs : Sane i) (h : errInput i = .ok x r ev) :
    x < 0 ∧ Rest r i ∧ r.rd = i.rd ∧ Quiet ev := errReply_ok rfl hs h

theorem errBase64_ok {i r : In} {x : Int} {ev : List Ev} (hs : Sane i) (h : errBase64 i = .ok x r ev) :
    x < 0 ∧ Rest r i ∧ r.rd = i.rd ∧ Quiet ev := errReply_ok rfl hs h

theorem logReply_ok {msg : List Byte} {i r : In} {x : Int} {ev : List Ev} (hs : Sane i) (h : logReply msg i = .ok x r ev) :
    x < 0 ∧ Rest r i ∧ r.rd = i.rd ∧ Quiet ev := errReply_ok rfl hs h

/-! ### authgetl -/

theorem getlLoop_line {buf : List Byte} {rd : List RdRes} {buf' : List Byte} {rest : List RdRes}
    (h : getlLoop buf rd = .line buf' rest) :
    ∃ chunks : List (List Byte), rd = chunks.map RdRes.chunk ++ rest ∧ buf' = buf ++ chunks.flatten
      ∧ buf'.getLast? = some LF
      ∧ ∀ n, 0 < n → n < chunks.length → (buf ++ (chunks.take n).flatten).getLast? ≠ some LF := by
  induction rd generalizing buf with
  | nil => simp [getlLoop] at h
  | cons x rd ih =>
    cases x with
    | die e => simp [getlLoop] at h
    | err e => simp [getlLoop] at h
    | chunk b =>
      simp only [getlLoop] at h
      split at h
      · cases h
      · split at h
        · cases h
        · rename_i c hc
          split at h
          · rename_i hlf
            injection h with h1 h2
            subst h1 h2
            exact ⟨[b], by simp, by simp, by rw [hc, hlf], by intro n h0 h1; simp at h1; omega⟩
          · rename_i hlf
            obtain ⟨chunks, h1, h2, h3, h4⟩ := ih h
            refine ⟨b :: chunks, by simp [h1], by simp [h2], h3, ?_⟩
            intro n h0 hn
            cases n with
            | zero => omega
            | succ k =>
              simp only [List.take_succ_cons, List.flatten_cons, ← List.append_assoc]
              by_cases hk : k = 0
              · subst hk
                simp only [List.take_zero, List.flatten_nil, List.append_nil]
                rw [hc]; intro hx; injection hx with hx; exact hlf hx
              · exact h4 k (by omega) (by simpa using hn)

theorem getlLoop_err {buf : List Byte} {rd : List RdRes} {e : Nat} {rest : List RdRes}
    (h : getlLoop buf rd = .err e rest) : RdRes.err e ∈ rd ∧ rest <:+ rd := by
  induction rd generalizing buf with
  | nil => simp [getlLoop] at h
  | cons x rd ih =>
    cases x with
    | die e => simp [getlLoop] at h
    | err e' =>
      simp only [getlLoop] at h
      injection h with h1 h2
      subst h1 h2
      exact ⟨List.mem_cons_self .., List.suffix_cons _ _⟩
    | chunk b =>
      simp only [getlLoop] at h
      split at h
      · cases h
      · split at h
        · cases h
        · split at h
          · cases h
          · have := ih h
            exact ⟨List.mem_cons_of_mem _ this.1, this.2.trans (List.suffix_cons _ _)⟩

/-- the line handed to the base64 decoder: the chunks up to the first one that ends in LF, without
the LF and without one CR in front of it; never empty, never the single character `*` -/
def IsLine (chunks : List (List Byte)) (line : List Byte) : Prop :=
  ((chunks.flatten = line ++ [LF] ∧ ∀ l', line ≠ l' ++ [CR]) ∨ chunks.flatten = line ++ [CR, LF])
    ∧ (∀ n, 0 < n → n < chunks.length → (chunks.take n).flatten.getLast? ≠ some LF)
    ∧ line ≠ [] ∧ line ≠ [42]

theorem line_split {buf : List Byte} (h : buf.getLast? = some LF) :
    ∃ init, buf = init ++ [LF] := by
  rcases List.eq_nil_or_concat buf with rfl | ⟨init, c, rfl⟩
  · simp at h
  · simp at h; subst h; exact ⟨init, by simp⟩

theorem lineLen_spec (init : List Byte) :
    (∃ init', init = init' ++ [CR] ∧ lineLen (init ++ [LF]) = init'.length)
      ∨ (lineLen (init ++ [LF]) = init.length ∧ ∀ init', init ≠ init' ++ [CR]) := by
  unfold lineLen
  simp only [List.length_append, List.length_singleton, Nat.add_sub_cancel]
  rcases List.eq_nil_or_concat init with rfl | ⟨init', c, rfl⟩
  · right; simp
  · by_cases hc : c = CR
    · subst hc
      left
      refine ⟨init', by simp, ?_⟩
      simp
    · right
      constructor
      · rw [if_neg]
        simp [hc]
      · intro x hx
        have := congrArg List.getLast? hx
        simp at this
        exact hc this

theorem authGetl_ok {i r : In} {x : Int} {line : List Byte} {ev : List Ev} (hs : Sane i)
    (h : authGetl i = .ok (x, line) r ev) :
    Rest r i ∧ Quiet ev ∧
      ((x = 0 ∧ ev = [] ∧ r.wr = i.wr ∧ ∃ chunks, i.rd = chunks.map RdRes.chunk ++ r.rd ∧ IsLine chunks line)
        ∨ x < 0) := by
  unfold authGetl at h
  split at h
  · cases h
  · cases h
  · rename_i e rest hl
    injection h with h1 h2 h3
    have := getlLoop_err hl
    simp only [Prod.mk.injEq] at h1
    subst h2 h3
    refine ⟨⟨this.2, List.suffix_refl _⟩, Quiet.nil, Or.inr ?_⟩
    have := hs.2 e this.1
    omega
  · rename_i buf rest hl
    obtain ⟨chunks, hrd, hbuf, hlast, hfirst⟩ := getlLoop_line hl
    simp only [List.nil_append] at hbuf hfirst
    obtain ⟨init, hinit⟩ := line_split hlast
    have hrest : Rest { i with rd := rest } i := ⟨by simp [hrd], List.suffix_refl _⟩
    have hsane := hs.rest hrest
    by_cases hcancel : buf.length - 1 ≠ 0 ∧ lineLen buf = 1 ∧ buf[0]? = some 42
    · -- cancelled
      rw [if_pos hcancel] at h
      simp only [bind_def, pure_def, bind_ok, pure_ok] at h
      obtain ⟨w, r1, ev1, ev2, hw, ⟨h1, rfl, rfl⟩, rfl⟩ := h
      simp only [Prod.mk.injEq] at h1
      have hn := netwrite_ok hw
      refine ⟨hn.1.trans hrest, by simpa using netwrite_quiet hw, Or.inr ?_⟩
      rw [← h1.1]
      apply doneOr_neg hsane
      rcases hn.2.2 with ⟨h1, _⟩ | ⟨e, h1, h2, _⟩
      · exact Or.inl h1
      · exact Or.inr ⟨e, h1, h2⟩
    · rw [if_neg hcancel] at h
      by_cases hempty : lineLen buf = 0
      · -- empty line
        rw [if_pos hempty] at h
        simp only [bind_def, pure_def, bind_ok, pure_ok] at h
        obtain ⟨x', r1, ev1, ev2, he, ⟨h1, rfl, rfl⟩, rfl⟩ := h
        simp only [Prod.mk.injEq] at h1
        have hn := errInput_ok hsane he
        refine ⟨hn.2.1.trans hrest, by simpa using hn.2.2.2, Or.inr ?_⟩
        rw [← h1.1]; exact hn.1
      · rw [if_neg hempty] at h
        injection h with h1 h2 h3
        simp only [Prod.mk.injEq] at h1
        subst h2 h3
        refine ⟨hrest, Quiet.nil, Or.inl ⟨h1.1.symm, rfl, rfl, chunks, hrd, ?_⟩⟩
        rw [← h1.2]
        unfold IsLine
        rw [← hbuf]
        subst hinit
        have hlen : (init ++ [LF]).length - 1 = init.length := by simp
        rw [hlen] at hcancel
        rcases lineLen_spec init with ⟨init', rfl, hl'⟩ | ⟨hl', hnocr⟩
        · rw [hl'] at hcancel hempty ⊢
          have htake : (init' ++ [CR] ++ [LF]).take init'.length = init' := by simp
          rw [htake]
          refine ⟨Or.inr (by simp), hfirst, ?_, ?_⟩
          · intro h0; subst h0; simp at hempty
          · intro h0; subst h0; simp at hcancel
        · rw [hl'] at hcancel hempty ⊢
          have htake : (init ++ [LF]).take init.length = init := by simp
          rw [htake]
          refine ⟨Or.inl ⟨rfl, hnocr⟩, hfirst, ?_, ?_⟩
          · intro h0; subst h0; simp at hempty
          · intro h0; subst h0; simp at hcancel

/-! ### the backend -/

def Accepts (bk : Backend) : Prop :=
  bk.pipe = none ∧ bk.fork = none ∧ bk.close0 = false
    ∧ (bk.wfail ≠ some 0 ∧ bk.wfail ≠ some 1 ∧ bk.wfail ≠ some 2) ∧ bk.close1 = false
    ∧ ∃ n, bk.wait = .exited n ∧ n % 256 = 0

def backendEvents (u p : List Byte) : List Ev :=
  [.spawn, .fd3 (u ++ [0]), .fd3 (p ++ [0]), .fd3 [0], .eof]

theorem pipeWrite_ok {bk : Backend} {k : Nat} {b : List Byte} {i r : In} {f : Bool} {ev : List Ev}
    (h : pipeWrite bk k b i = .ok f r ev) :
    r = i ∧ ((bk.wfail = some k ∧ f = true ∧ ev = [.fd3Err b]) ∨ (bk.wfail ≠ some k ∧ f = false ∧ ev = [.fd3 b])) := by
  unfold pipeWrite at h
  split at h
  · rename_i hk
    simp only [bind_def, pure_def, bind_ok, emit_ok, pure_ok] at h
    obtain ⟨_, r1, ev1, ev2, ⟨rfl, rfl⟩, ⟨rfl, rfl, rfl⟩, rfl⟩ := h
    exact ⟨rfl, Or.inl ⟨hk, rfl, rfl⟩⟩
  · rename_i hk
    simp only [bind_def, pure_def, bind_ok, emit_ok, pure_ok] at h
    obtain ⟨_, r1, ev1, ev2, ⟨rfl, rfl⟩, ⟨rfl, rfl, rfl⟩, rfl⟩ := h
    exact ⟨rfl, Or.inr ⟨hk, rfl, rfl⟩⟩

theorem backend_ok {bk : Backend} {u p : List Byte} {i r : In} {x : Int} {ev : List Ev} (hs : Sane i)
    (h : backend bk u p i = .ok x r ev) :
    Rest r i ∧ r.rd = i.rd ∧
      ((x = 0 ∧ Accepts bk ∧ r = i ∧ ev = backendEvents u p)
        ∨ (x = 1 ∧ ¬ Accepts bk ∧ r = i ∧ ev = backendEvents u p)
        ∨ (x < 0 ∧ ¬ Accepts bk)) := by
  unfold backend at h
  cases hp : bk.pipe with
  | some e =>
    simp only [hp] at h
    have := logReply_ok hs h
    exact ⟨this.2.1, this.2.2.1, Or.inr (Or.inr ⟨this.1, fun ha => by simp [ha.1] at hp⟩)⟩
  | none =>
    simp only [hp] at h
    cases hf : bk.fork with
    | some e =>
      simp only [hf] at h
      have := logReply_ok hs h
      exact ⟨this.2.1, this.2.2.1, Or.inr (Or.inr ⟨this.1, fun ha => by simp [ha.2.1] at hf⟩)⟩
    | none =>
      simp only [hf] at h
      simp only [bind_def, bind_ok, emit_ok] at h
      obtain ⟨_, r1, ev1, ev2, ⟨rfl, rfl⟩, h, rfl⟩ := h
      have err : ∀ {m : List Byte} {ev' : List Ev}, logReply m i = .ok x r ev' → ¬ Accepts bk →
          Rest r i ∧ r.rd = i.rd ∧
            ((x = 0 ∧ Accepts bk ∧ r = i ∧ [Ev.spawn] ++ ev2 = backendEvents u p)
              ∨ (x = 1 ∧ ¬ Accepts bk ∧ r = i ∧ [Ev.spawn] ++ ev2 = backendEvents u p)
              ∨ (x < 0 ∧ ¬ Accepts bk)) := by
        intro m ev' hl hna
        have := logReply_ok hs hl
        exact ⟨this.2.1, this.2.2.1, Or.inr (Or.inr ⟨this.1, hna⟩)⟩
      by_cases hc0 : bk.close0 = true
      · rw [if_pos hc0] at h
        exact err h (fun ha => by simp [ha.2.2.1] at hc0)
      rw [if_neg hc0] at h
      simp only [bind_ok] at h
      obtain ⟨f0, r0, e0, ev3, hw0, h, rfl⟩ := h
      obtain ⟨rfl, hq0⟩ := pipeWrite_ok hw0
      rcases hq0 with ⟨hk, rfl, rfl⟩ | ⟨hk0, rfl, rfl⟩
      · exact err h (fun ha => by have := ha.2.2.2.1; simp [hk] at this)
      simp only [Bool.false_eq_true, if_false, bind_ok] at h
      obtain ⟨f1, r1, e1, ev4, hw1, h, rfl⟩ := h
      obtain ⟨rfl, hq1⟩ := pipeWrite_ok hw1
      rcases hq1 with ⟨hk, rfl, rfl⟩ | ⟨hk1, rfl, rfl⟩
      · exact err h (fun ha => by have := ha.2.2.2.1; simp [hk] at this)
      simp only [Bool.false_eq_true, if_false, bind_ok] at h
      obtain ⟨f2, r2, e2, ev5, hw2, h, rfl⟩ := h
      obtain ⟨rfl, hq2⟩ := pipeWrite_ok hw2
      rcases hq2 with ⟨hk, rfl, rfl⟩ | ⟨hk2, rfl, rfl⟩
      · exact err h (fun ha => by have := ha.2.2.2.1; simp [hk] at this)
      simp only [Bool.false_eq_true, if_false] at h
      by_cases hc1 : bk.close1 = true
      · rw [if_pos hc1] at h
        exact err h (fun ha => by simp [ha.2.2.2.2.1] at hc1)
      rw [if_neg hc1] at h
      simp only [bind_ok, emit_ok] at h
      obtain ⟨_, r3, e3, ev6, ⟨rfl, rfl⟩, h, rfl⟩ := h
      cases hwt : bk.wait with
      | fail e =>
        simp only [hwt] at h
        exact err h (fun ha => by obtain ⟨n, hn, _⟩ := ha.2.2.2.2.2; simp [hwt] at hn)
      | signaled e =>
        simp only [hwt] at h
        exact err h (fun ha => by obtain ⟨n, hn, _⟩ := ha.2.2.2.2.2; simp [hwt] at hn)
      | exited n =>
        simp only [hwt, pure_def, pure_ok] at h
        obtain ⟨hx, rfl, rfl⟩ := h
        refine ⟨Rest.refl _, rfl, ?_⟩
        by_cases hn : n % 256 = 0
        · left
          refine ⟨by simp [← hx, hn], ⟨hp, hf, by simpa using hc0, ⟨hk0, hk1, hk2⟩, by simpa using hc1, n, hwt, hn⟩, rfl, by simp [backendEvents]⟩
        · right; left
          refine ⟨by simp [← hx, hn], ?_, rfl, by simp [backendEvents]⟩
          intro ha
          obtain ⟨n', hn', h0⟩ := ha.2.2.2.2.2
          rw [hwt] at hn'
          injection hn' with hn'
          subst hn'
          exact hn h0

/-! ### the handlers and the mechanism loop -/

/-- how the handlers obtain the client's response: from the command line behind the mechanism name,
or (after the prompt) as the next line from the network -/
def Responded (linein : List Byte) (off : Nat) (rd rd' : List RdRes) (resp : List Byte) : Prop :=
  (off < linein.length ∧ resp = linein.drop off ∧ rd' = rd)
    ∨ (linein.length ≤ off ∧ ∃ chunks, rd = chunks.map RdRes.chunk ++ rd' ∧ IsLine chunks resp)

theorem response_ok {linein : List Byte} {off : Nat} {prompt : List Byte} {i r : In} {x : Int ⊕ List Byte} {ev : List Ev}
    (hs : Sane i) (h : response linein off prompt i = .ok x r ev) :
    Rest r i ∧ Quiet ev ∧
      (match x with
       | .inl c => c < 0
       | .inr resp => Responded linein off i.rd r.rd resp) := by
  unfold response at h
  split at h
  · rename_i hlen
    simp only [pure_def, pure_ok] at h
    obtain ⟨rfl, rfl, rfl⟩ := h
    exact ⟨Rest.refl _, Quiet.nil, Or.inl ⟨hlen, rfl, rfl⟩⟩
  · rename_i hlen
    simp only [bind_def, bind_ok] at h
    obtain ⟨w, r1, ev1, ev2, hw, h2, rfl⟩ := h
    have hn := netwrite_ok hw
    have hq := netwrite_quiet hw
    cases w with
    | some e =>
      simp only [pure_def, pure_ok] at h2
      obtain ⟨rfl, rfl, rfl⟩ := h2
      refine ⟨hn.1, by simpa using hq, ?_⟩
      rcases hn.2.2 with ⟨h1, _⟩ | ⟨e', h1, h3, _⟩
      · cases h1
      · injection h1 with h1; subst h1
        have := hs.1 e h3
        show -(e : Int) < 0
        omega
    | none =>
      simp only [bind_ok] at h2
      obtain ⟨⟨c, line⟩, r2, ev3, ev4, hg, h3, rfl⟩ := h2
      have hg' := authGetl_ok (hs.rest hn.1) hg
      simp only at h3
      by_cases hc : c < 0
      · rw [if_pos hc] at h3
        simp only [pure_def, pure_ok] at h3
        obtain ⟨rfl, rfl, rfl⟩ := h3
        exact ⟨hg'.1.trans hn.1, by simpa using hq.append hg'.2.1, hc⟩
      · rw [if_neg hc] at h3
        simp only [pure_def, pure_ok] at h3
        obtain ⟨rfl, rfl, rfl⟩ := h3
        refine ⟨hg'.1.trans hn.1, by simpa using hq.append hg'.2.1, ?_⟩
        rcases hg'.2.2 with ⟨_, _, _, chunks, hrd, hline⟩ | hneg
        · exact Or.inr ⟨by omega, chunks, by rw [← hn.2.1]; exact hrd, hline⟩
        · exact absurd hneg hc


/-- what a mechanism handler can return: 0 only with an accepting backend that was shown exactly
the presented credentials; 1 only for a backend that did not accept; otherwise a negative code -/
def Verdict (bk : Backend) (creds : List Byte → List Byte → Prop) (x : Int) (u : List Byte) (ev : List Ev) : Prop :=
  (x = 0 ∧ Accepts bk ∧ ∃ pass pre, creds u pass ∧ u ≠ [] ∧ pass ≠ [] ∧ Quiet pre ∧ ev = pre ++ backendEvents u pass)
    ∨ (x = 1 ∧ ¬ Accepts bk) ∨ x < 0

def PlainCreds (linein : List Byte) (rd : List RdRes) (u pass : List Byte) : Prop :=
  ∃ resp rd' slop, Responded linein Gen.authPlainArgOffset rd rd' resp ∧ Base64.decode resp = .ok slop
    ∧ plainFields slop = (u, pass) ∧ usernameInvalid u = false

def LoginCreds (linein : List Byte) (rd : List RdRes) (u pass : List Byte) : Prop :=
  ∃ resp rd1 chunks rd2 line, Responded linein Gen.authLoginArgOffset rd rd1 resp ∧ Base64.decode resp = .ok u
    ∧ rd1 = chunks.map RdRes.chunk ++ rd2 ∧ IsLine chunks line ∧ Base64.decode line = .ok pass
    ∧ usernameInvalid u = false

theorem authPlain_ok {linein : List Byte} {bk : Backend} {i r : In} {x : Int} {u : List Byte} {ev : List Ev}
    (hs : Sane i) (h : authPlain linein bk i = .ok (x, u) r ev) :
    Rest r i ∧ Verdict bk (PlainCreds linein i.rd) x u ev := by
  unfold authPlain at h
  simp only [bind_def, bind_ok] at h
  obtain ⟨a, r1, ev1, ev2, hresp, h2, rfl⟩ := h
  have hr := response_ok hs hresp
  cases a with
  | inl c =>
    simp only [pure_def, pure_ok, Prod.mk.injEq] at h2
    obtain ⟨⟨rfl, rfl⟩, rfl, rfl⟩ := h2
    exact ⟨hr.1, Or.inr (Or.inr hr.2.2)⟩
  | inr resp =>
    simp only at h2
    have hs1 := hs.rest hr.1
    cases hd : Base64.decode resp with
    | error e =>
      cases e with
      | fault f => simp [hd] at h2
      | bad =>
        simp only [hd, bind_ok, pure_def, pure_ok, Prod.mk.injEq] at h2
        obtain ⟨c, r2, ev3, ev4, he, ⟨⟨rfl, rfl⟩, rfl, rfl⟩, rfl⟩ := h2
        have := errBase64_ok hs1 he
        exact ⟨this.2.1.trans hr.1, Or.inr (Or.inr this.1)⟩
    | ok slop =>
      simp only [hd] at h2
      cases hf : plainFields slop with
      | mk user pass =>
        simp only [hf] at h2
        by_cases hempty : user = [] ∨ pass = [] ∨ usernameInvalid user = true
        · rw [if_pos hempty] at h2
          simp only [bind_ok, pure_def, pure_ok, Prod.mk.injEq] at h2
          obtain ⟨c, r2, ev3, ev4, he, ⟨⟨rfl, rfl⟩, rfl, rfl⟩, rfl⟩ := h2
          have := errInput_ok hs1 he
          exact ⟨this.2.1.trans hr.1, Or.inr (Or.inr this.1)⟩
        · rw [if_neg hempty] at h2
          simp only [bind_ok, pure_def, pure_ok, Prod.mk.injEq] at h2
          obtain ⟨c, r2, ev3, ev4, hb, ⟨⟨rfl, rfl⟩, rfl, rfl⟩, rfl⟩ := h2
          have hb' := backend_ok hs1 hb
          refine ⟨hb'.1.trans hr.1, ?_⟩
          rcases hb'.2.2 with ⟨rfl, hacc, _, rfl⟩ | ⟨rfl, hna, _, _⟩ | ⟨hneg, _⟩
          · left
            refine ⟨rfl, hacc, pass, ev1, ⟨resp, r1.rd, slop, hr.2.2, hd, hf, Bool.eq_false_iff.mpr (fun h0 => hempty (Or.inr (Or.inr h0)))⟩, ?_, ?_, hr.2.1, by simp⟩
            · intro h0; exact hempty (Or.inl h0)
            · intro h0; exact hempty (Or.inr (Or.inl h0))
          · exact Or.inr (Or.inl ⟨rfl, hna⟩)
          · exact Or.inr (Or.inr hneg)


theorem authLogin_ok {linein : List Byte} {bk : Backend} {i r : In} {x : Int} {u : List Byte} {ev : List Ev}
    (hs : Sane i) (h : authLogin linein bk i = .ok (x, u) r ev) :
    Rest r i ∧ Verdict bk (LoginCreds linein i.rd) x u ev := by
  unfold authLogin at h
  simp only [bind_def, bind_ok] at h
  obtain ⟨a, r1, ev1, ev2, hresp, h2, rfl⟩ := h
  have hr := response_ok hs hresp
  cases a with
  | inl c =>
    simp only [pure_def, pure_ok, Prod.mk.injEq] at h2
    obtain ⟨⟨rfl, rfl⟩, rfl, rfl⟩ := h2
    exact ⟨hr.1, Or.inr (Or.inr hr.2.2)⟩
  | inr resp =>
    simp only at h2
    have hs1 := hs.rest hr.1
    cases hd : Base64.decode resp with
    | error e =>
      cases e with
      | fault f => simp [hd] at h2
      | bad =>
        simp only [hd, bind_ok, pure_def, pure_ok, Prod.mk.injEq] at h2
        obtain ⟨c, r2, ev3, ev4, he, ⟨⟨rfl, rfl⟩, rfl, rfl⟩, rfl⟩ := h2
        have := errBase64_ok hs1 he
        exact ⟨this.2.1.trans hr.1, Or.inr (Or.inr this.1)⟩
    | ok user =>
      simp only [hd, bind_ok] at h2
      obtain ⟨w, r2, ev3, ev4, hw, h3, rfl⟩ := h2
      have hn := netwrite_ok hw
      have hq := netwrite_quiet hw
      have hs2 := hs1.rest hn.1
      cases w with
      | some e =>
        simp only [pure_def, pure_ok, Prod.mk.injEq] at h3
        obtain ⟨⟨rfl, rfl⟩, rfl, rfl⟩ := h3
        refine ⟨hn.1.trans hr.1, Or.inr (Or.inr ?_)⟩
        rcases hn.2.2 with ⟨h1, _⟩ | ⟨e', h1, h4, _⟩
        · cases h1
        · injection h1 with h1; subst h1
          have := hs1.1 e h4
          omega
      | none =>
        simp only [bind_ok] at h3
        obtain ⟨⟨c, line⟩, r3, ev5, ev6, hg, h4, rfl⟩ := h3
        have hg' := authGetl_ok hs2 hg
        have hs3 := hs2.rest hg'.1
        have hrest3 : Rest r3 i := hg'.1.trans (hn.1.trans hr.1)
        simp only at h4
        by_cases hc : c < 0
        · rw [if_pos hc] at h4
          simp only [pure_def, pure_ok, Prod.mk.injEq] at h4
          obtain ⟨⟨rfl, rfl⟩, rfl, rfl⟩ := h4
          exact ⟨hrest3, Or.inr (Or.inr hc)⟩
        · rw [if_neg hc] at h4
          have hg2 : ∃ chunks, r2.rd = chunks.map RdRes.chunk ++ r3.rd ∧ IsLine chunks line := by
            rcases hg'.2.2 with ⟨_, _, _, hx⟩ | hneg
            · exact hx
            · exact absurd hneg hc
          obtain ⟨chunks, hrd, hline⟩ := hg2
          cases hd2 : Base64.decode line with
          | error e =>
            cases e with
            | fault f => simp [hd2] at h4
            | bad =>
              simp only [hd2, bind_ok, pure_def, pure_ok, Prod.mk.injEq] at h4
              obtain ⟨c', r4, ev7, ev8, he, ⟨⟨rfl, rfl⟩, rfl, rfl⟩, rfl⟩ := h4
              have := errBase64_ok hs3 he
              exact ⟨this.2.1.trans hrest3, Or.inr (Or.inr this.1)⟩
          | ok pass =>
            simp only [hd2] at h4
            by_cases hempty : user = [] ∨ pass = [] ∨ usernameInvalid user = true
            · rw [if_pos hempty] at h4
              simp only [bind_ok, pure_def, pure_ok, Prod.mk.injEq] at h4
              obtain ⟨c', r4, ev7, ev8, he, ⟨⟨rfl, rfl⟩, rfl, rfl⟩, rfl⟩ := h4
              have := errInput_ok hs3 he
              exact ⟨this.2.1.trans hrest3, Or.inr (Or.inr this.1)⟩
            · rw [if_neg hempty] at h4
              simp only [bind_ok, pure_def, pure_ok, Prod.mk.injEq] at h4
              obtain ⟨c', r4, ev7, ev8, hb, ⟨⟨rfl, rfl⟩, rfl, rfl⟩, rfl⟩ := h4
              have hb' := backend_ok hs3 hb
              refine ⟨hb'.1.trans hrest3, ?_⟩
              rcases hb'.2.2 with ⟨rfl, hacc, _, rfl⟩ | ⟨rfl, hna, _, _⟩ | ⟨hneg, _⟩
              · left
                refine ⟨rfl, hacc, pass, ev1 ++ ev3 ++ ev5,
                  ⟨resp, r1.rd, chunks, r3.rd, line, hr.2.2, hd, by rw [← hn.2.1]; exact hrd, hline, hd2, Bool.eq_false_iff.mpr (fun h0 => hempty (Or.inr (Or.inr h0)))⟩,
                  ?_, ?_, (hr.2.1.append hq).append hg'.2.1, by simp⟩
                · intro h0; exact hempty (Or.inl h0)
                · intro h0; exact hempty (Or.inr (Or.inl h0))
              · exact Or.inr (Or.inl ⟨rfl, hna⟩)
              · exact Or.inr (Or.inr hneg)


/-- the credentials of an exchange, whichever mechanism -/
def Creds (linein : List Byte) (rd : List RdRes) (u pass : List Byte) : Prop :=
  PlainCreds linein rd u pass ∨ LoginCreds linein rd u pass

theorem Creds.clean {linein : List Byte} {rd : List RdRes} {u pass : List Byte} (h : Creds linein rd u pass) :
    usernameInvalid u = false := by
  rcases h with ⟨_, _, _, _, _, _, h⟩ | ⟨_, _, _, _, _, _, _, _, _, _, h⟩ <;> exact h

/-- what is true of an AUTH command that sets `authname := u` -/
structure Authenticated (bk : Backend) (linein : List Byte) (rd : List RdRes) (u : List Byte) (ev : List Ev) : Prop where
  accepts : Accepts bk
  user_nonempty : u ≠ []
  creds : ∃ pass, pass ≠ [] ∧ Creds linein rd u pass ∧ ∃ pre post, Quiet pre ∧ Quiet post
    ∧ ev = pre ++ backendEvents u pass ++ post ∧ (post = [.reply Gen.authOk] ∨ post = [.replyErr Gen.authOk])

theorem runMech_ok {kind : Nat} {linein : List Byte} {bk : Backend} {i r : In} {x : Int} {u : List Byte} {ev : List Ev}
    (hs : Sane i) (h : runMech kind linein bk i = .ok (x, u) r ev) :
    Rest r i ∧ Verdict bk (Creds linein i.rd) x u ev := by
  unfold runMech at h
  split at h
  · have := authLogin_ok hs h
    refine ⟨this.1, ?_⟩
    rcases this.2 with ⟨h0, ha, pass, pre, hc, h1, h2, h3, h4⟩ | h' | h'
    · exact Or.inl ⟨h0, ha, pass, pre, Or.inr hc, h1, h2, h3, h4⟩
    · exact Or.inr (Or.inl h')
    · exact Or.inr (Or.inr h')
  · have := authPlain_ok hs h
    refine ⟨this.1, ?_⟩
    rcases this.2 with ⟨h0, ha, pass, pre, hc, h1, h2, h3, h4⟩ | h' | h'
    · exact Or.inl ⟨h0, ha, pass, pre, Or.inl hc, h1, h2, h3, h4⟩
    · exact Or.inr (Or.inl h')
    · exact Or.inr (Or.inr h')

theorem errnoOr_ne_zero {i : In} (hs : Sane i) {w : Option Nat} {v : Int} (hv : v ≠ 0)
    (hw : w = none ∨ ∃ e, w = some e ∧ WrRes.err e ∈ i.wr) : errnoOr v w ≠ 0 := by
  rcases hw with rfl | ⟨e, rfl, he⟩
  · simpa [errnoOr] using hv
  · have := hs.1 e he
    simp [errnoOr]; omega

theorem mechLoop_ok {st : State} {linein : List Byte} {bk : Backend} {mechs : List (List Byte × Nat)}
    {i r : In} {x : Int} {st' : State} {ev : List Ev} (hs : Sane i)
    (h : mechLoop st linein bk mechs i = .ok (x, st') r ev) :
    Rest r i ∧ ((st' = { st with authname := st'.authname } ∧ st'.authname ≠ []
                  ∧ Authenticated bk linein i.rd st'.authname ev)
                ∨ ((st' = { st with authname := [] } ∨ st' = st) ∧ x ≠ 0)) := by
  induction mechs with
  | nil =>
    simp only [mechLoop, bind_def, bind_ok, pure_def, pure_ok, Prod.mk.injEq] at h
    obtain ⟨w, r1, ev1, ev2, hw, ⟨⟨rfl, rfl⟩, rfl, rfl⟩, rfl⟩ := h
    have hn := netwrite_ok hw
    refine ⟨hn.1, Or.inr ⟨Or.inr rfl, errnoOr_ne_zero hs (by decide) ?_⟩⟩
    rcases hn.2.2 with ⟨h1, _⟩ | ⟨e, h1, h2, _⟩
    · exact Or.inl h1
    · exact Or.inr ⟨e, h1, h2⟩
  | cons m rest ih =>
    obtain ⟨name, kind⟩ := m
    simp only [mechLoop] at h
    by_cases hm : mechMatches name linein = true
    · rw [if_pos hm] at h
      simp only [bind_def, bind_ok] at h
      obtain ⟨⟨c, user⟩, r1, ev1, ev2, hrun, h2, rfl⟩ := h
      have hr := runMech_ok hs hrun
      have hs1 := hs.rest hr.1
      simp only at h2
      by_cases hc0 : c = 0
      · rw [if_pos hc0] at h2
        simp only [bind_ok, pure_def, pure_ok, Prod.mk.injEq] at h2
        obtain ⟨w, r2, ev3, ev4, hw, ⟨⟨rfl, rfl⟩, rfl, rfl⟩, rfl⟩ := h2
        have hn := netwrite_ok hw
        refine ⟨hn.1.trans hr.1, Or.inl ⟨rfl, ?_, ?_⟩⟩
        · rcases hr.2 with ⟨_, _, pass, pre, _, hu, _⟩ | ⟨h1, _⟩ | hneg
          · exact hu
          · omega
          · omega
        · rcases hr.2 with ⟨_, hacc, pass, pre, hcr, hu, hp, hq, hev⟩ | ⟨h1, _⟩ | hneg
          · refine ⟨hacc, hu, pass, hp, hcr, pre, ev3, hq, netwrite_quiet hw, by simp [hev], ?_⟩
            rcases hn.2.2 with ⟨_, h3⟩ | ⟨e, _, _, h3⟩
            · exact Or.inl h3
            · exact Or.inr h3
          · omega
          · omega
      · rw [if_neg hc0] at h2
        by_cases hc1 : c = 1
        · rw [if_pos hc1] at h2
          simp only [bind_ok, emit_ok, pure_def, pure_ok, Prod.mk.injEq] at h2
          obtain ⟨_, r2, ev3, ev4, ⟨rfl, rfl⟩, ⟨w, r3, ev5, ev6, hw, ⟨⟨rfl, rfl⟩, rfl, rfl⟩, rfl⟩, rfl⟩ := h2
          have hn := netwrite_ok hw
          refine ⟨hn.1.trans hr.1, Or.inr ⟨Or.inl rfl, errnoOr_ne_zero hs1 (by decide) ?_⟩⟩
          rcases hn.2.2 with ⟨h1, _⟩ | ⟨e, h1, h3, _⟩
          · exact Or.inl h1
          · exact Or.inr ⟨e, h1, h3⟩
        · rw [if_neg hc1] at h2
          simp only [pure_def, pure_ok, Prod.mk.injEq] at h2
          obtain ⟨⟨rfl, rfl⟩, rfl, rfl⟩ := h2
          exact ⟨hr.1, Or.inr ⟨Or.inl rfl, by omega⟩⟩
    · rw [if_neg hm] at h
      exact ih h


/-! ### the fields of a PLAIN response -/

theorem cstr_split (s : List Byte) :
    ∃ rest, s = s.takeWhile (· ≠ 0) ++ rest ∧ (rest = [] ∨ ∃ t, rest = 0 :: t) ∧ (0 : Byte) ∉ s.takeWhile (· ≠ 0) := by
  induction s with
  | nil => exact ⟨[], rfl, Or.inl rfl, by simp⟩
  | cons c t ih =>
    by_cases hc : c = 0
    · subst hc
      exact ⟨0 :: t, by simp, Or.inr ⟨t, rfl⟩, by simp⟩
    · obtain ⟨rest, h1, h2, h3⟩ := ih
      refine ⟨rest, ?_, h2, ?_⟩
      · simp only [List.takeWhile_cons, ne_eq, hc, not_false_eq_true, decide_true, if_true, List.cons_append]
        rw [← h1]
      · simp only [List.takeWhile_cons, ne_eq, hc, not_false_eq_true, decide_true, if_true, List.mem_cons]
        intro hm
        rcases hm with hm | hm
        · exact hc hm.symm
        · exact h3 hm

theorem plainFields_spec {slop user pass : List Byte} (h : plainFields slop = (user, pass))
    (hu : user ≠ []) (hp : pass ≠ []) :
    ∃ authz rest, slop = authz ++ [0] ++ user ++ [0] ++ pass ++ rest
      ∧ (0 : Byte) ∉ authz ∧ (0 : Byte) ∉ user ∧ (0 : Byte) ∉ pass ∧ (rest = [] ∨ ∃ t, rest = 0 :: t) := by
  unfold plainFields cstrAt at h
  simp only [List.drop_zero] at h
  obtain ⟨r1, h1, hr1, hz1⟩ := cstr_split slop
  generalize hA : slop.takeWhile (· ≠ 0) = authz at *
  by_cases hlen : slop.length > authz.length + 1
  · rw [if_pos hlen] at h
    rcases hr1 with rfl | ⟨t, rfl⟩
    · simp at h1; rw [h1] at hlen; omega
    have hdrop : slop.drop (authz.length + 1) = t := by
      rw [h1]; simp
    rw [hdrop] at h
    obtain ⟨r2, h2, hr2, hz2⟩ := cstr_split t
    generalize hU : t.takeWhile (· ≠ 0) = u at *
    by_cases hlen2 : slop.length > authz.length + 1 + u.length + 1
    · rw [if_pos hlen2] at h
      injection h with hu' hp'
      subst hu'
      rcases hr2 with rfl | ⟨t2, rfl⟩
      · exfalso
        rw [h1, h2] at hlen2
        simp at hlen2
        omega
      have hdrop2 : slop.drop (authz.length + 1 + u.length + 1) = t2 := by
        rw [h1, h2]
        have : authz.length + 1 + u.length + 1 = (authz ++ 0 :: (u ++ [0])).length := by simp; omega
        rw [this]
        have e : authz ++ 0 :: (u ++ 0 :: t2) = (authz ++ 0 :: (u ++ [0])) ++ t2 := by simp
        rw [e, List.drop_left]
      rw [hdrop2] at hp'
      obtain ⟨r3, h3, hr3, hz3⟩ := cstr_split t2
      rw [hp'] at h3 hz3
      refine ⟨authz, r3, ?_, hz1, hz2, hz3, hr3⟩
      rw [h1, h2, h3]; simp
    · rw [if_neg hlen2] at h
      injection h with _ hp'
      exact absurd hp'.symm hp
  · rw [if_neg hlen] at h
    injection h with hu' _
    exact absurd hu'.symm hu

/-! ### what the events of an accepted exchange contain -/

theorem fd3Bytes_backendEvents (u p : List Byte) : fd3Bytes (backendEvents u p) = u ++ [0] ++ p ++ [0] ++ [0] := by
  simp [backendEvents, fd3Bytes]

theorem Authenticated.fd3 {bk : Backend} {linein : List Byte} {rd : List RdRes} {u : List Byte} {ev : List Ev}
    (h : Authenticated bk linein rd u ev) :
    ∃ pass, pass ≠ [] ∧ Creds linein rd u pass ∧ fd3Bytes ev = u ++ [0] ++ pass ++ [0] ++ [0]
      ∧ childSaw ev = some (u ++ [0] ++ pass ++ [0] ++ [0]) := by
  obtain ⟨pass, hp, hc, pre, post, hq1, hq2, rfl, _⟩ := h.creds
  have hb : fd3Bytes (pre ++ backendEvents u pass ++ post) = u ++ [0] ++ pass ++ [0] ++ [0] := by
    rw [fd3Bytes_append, fd3Bytes_append, hq1.fd3Bytes, hq2.fd3Bytes, fd3Bytes_backendEvents]; simp
  refine ⟨pass, hp, hc, hb, ?_⟩
  unfold childSaw
  rw [if_pos (by simp [backendEvents]), hb]

end QsmtpModel.Auth
