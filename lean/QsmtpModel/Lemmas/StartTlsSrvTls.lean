import QsmtpModel.Lemmas.StartTlsSrv

/-! C17: in TLS mode the command loop acts on nothing but lines of the TLS plaintext, in order. -/

namespace QsmtpModel.StartTlsSrv
open QsmtpModel QsmtpModel.Netio QsmtpModel.Session

/-! ### removing bytes from the script -/

theorem itemsBytes_consume (is : List Item) : ∀ n : Nat,
    itemsBytes (consume n is).1 = (itemsBytes is).drop n := by
  induction is with
  | nil => intro n; cases n <;> simp [consume, itemsBytes]
  | cons it is ih =>
    intro n
    cases n with
    | zero => simp [consume]
    | succ m =>
      cases it with
      | pause =>
        simp only [consume, itemsBytes]
        exact ih (m + 1)
      | seg b =>
        simp only [consume, itemsBytes]
        split
        · rename_i hle
          rw [ih, List.drop_append, List.drop_of_length_le hle, List.nil_append]
        · rename_i hgt
          simp only [itemsBytes]
          rw [List.drop_append_of_le_length (by omega)]

theorem itemsBytes_wire_consume (w : Wire) (n : Nat) :
    itemsBytes (w.consume n).items = (itemsBytes w.items).drop n := by
  unfold Wire.consume
  split
  · rename_i h; subst h; simp
  · exact itemsBytes_consume w.items n

/-! ### the line reader only removes a prefix of the source -/

/-- `b` is `a` with some bytes removed from the front -/
def Pre (a b : Src) : Prop := ∃ n, b.rest = a.rest.drop n

theorem Pre.refl (a : Src) : Pre a a := ⟨0, by simp⟩

theorem Pre.trans {a b c : Src} (h1 : Pre a b) (h2 : Pre b c) : Pre a c := by
  obtain ⟨n, hn⟩ := h1
  obtain ⟨m, hm⟩ := h2
  exact ⟨n + m, by rw [hm, hn, List.drop_drop]⟩

theorem read_pre (src : Src) (max : Nat) : Pre src (src.read max).2 := by
  unfold Src.read
  exact ⟨_, rfl⟩

theorem loopLong_pre : ∀ (fuel : Nat) (src : Src), Pre src (loopLong src fuel).2.2 := by
  intro fuel
  induction fuel with
  | zero => intro src; exact Pre.refl _
  | succ f ih =>
    intro src
    unfold loopLong
    have hr := read_pre src (bufSize - 1)
    generalize src.read (bufSize - 1) = rd at hr
    obtain ⟨d, src'⟩ := rd
    dsimp only at hr ⊢
    split
    · exact hr
    · split
      · exact hr
      · exact hr.trans (ih src')

theorem readLoop_pre (fatal : Bool) : ∀ (fuel : Nat) (buf : List Byte) (src : Src),
    Pre src (readLoop fatal buf src fuel).2 := by
  intro fuel
  induction fuel with
  | zero => intro buf src; exact Pre.refl _
  | succ f ih =>
    intro buf src
    unfold readLoop
    have hr := read_pre src (bufSize - buf.length - 1)
    generalize src.read (bufSize - buf.length - 1) = rd at hr
    obtain ⟨d, src'⟩ := rd
    dsimp only at hr ⊢
    split
    · exact hr
    · split
      · exact hr.trans (ih _ src')
      · exact hr

theorem verdict_pre (buf : List Byte) (src : Src) : Pre src (verdict buf src).2.2 := by
  unfold verdict
  split
  · exact loopLong_pre _ _
  · split
    · exact Pre.refl _
    · split
      · exact loopLong_pre _ _
      · exact Pre.refl _

theorem netRead_pre (fatal : Bool) (inn : List Byte) (src : Src) : Pre src (netRead fatal inn src).2.2 := by
  unfold netRead
  split
  · exact Pre.refl _
  · have hr := readLoop_pre fatal (src.rest.length + 1) (by assumption) src
    split
    · rename_i h; rw [h] at hr; exact hr
    · rename_i h; rw [h] at hr; exact hr.trans (verdict_pre _ _)

theorem drop_len_sub (a b : List Byte) (n : Nat) (h : b = a.drop n) : a.drop (a.length - b.length) = b := by
  subst h
  by_cases hn : n ≤ a.length
  · rw [List.length_drop]
    have : a.length - (a.length - n) = n := by omega
    rw [this]
  · rw [List.drop_of_length_le (by omega : a.length ≤ n)]
    simp

/-- `readLine` is `netRead` on the wire's view; the wire that is left holds what the reader left -/
theorem readLine_eq (inn : List Byte) (w : Wire) (r : Rd) (inn' : List Byte) (src' : Src)
    (h : netRead true inn w.toSrc = (r, inn', src')) :
    ∃ w', readLine inn w = (r, inn', w') ∧ itemsBytes w'.items = src'.rest := by
  have hp := netRead_pre true inn w.toSrc
  rw [h] at hp
  obtain ⟨n, hn⟩ := hp
  dsimp only at hn
  unfold readLine
  dsimp only
  rw [h]
  refine ⟨_, rfl, ?_⟩
  rw [itemsBytes_wire_consume]
  exact drop_len_sub _ _ n hn

theorem wire_cons (l : List Byte) (ls : List (List Byte)) : wire (l :: ls) = l ++ CR :: LF :: wire ls := by
  simp [wire]

theorem wire_nil : wire [] = [] := rfl

theorem readLine_wf (inn : List Byte) (w : Wire) (l : List Byte) (rest : List (List Byte)) (hwf : WfLine l)
    (h : inn ++ itemsBytes w.items = wire (l :: rest)) :
    ∃ inn' w', readLine inn w = (.line l, inn', w') ∧ inn' ++ itemsBytes w'.items = wire rest := by
  rw [wire_cons] at h
  obtain ⟨inn', src', hr, hrest⟩ := netRead_wf true l (wire rest) inn w.toSrc hwf h
  obtain ⟨w', hw, hi⟩ := readLine_eq inn w _ _ _ hr
  exact ⟨inn', w', hw, by rw [hi]; exact hrest⟩

theorem readLine_end (inn : List Byte) (w : Wire) (h : inn ++ itemsBytes w.items = wire []) :
    ∃ e inn' w', readLine inn w = (.die e, inn', w') := by
  rw [wire_nil, List.append_eq_nil_iff] at h
  obtain ⟨rfl, h2⟩ := h
  obtain ⟨src', he⟩ := netRead_eof true (itemsCuts w.items)
  have hs : w.toSrc = { rest := [], cuts := itemsCuts w.items } := by
    unfold Wire.toSrc; rw [h2]
  rw [← hs] at he
  obtain ⟨w', hw, _⟩ := readLine_eq [] w _ _ _ he
  exact ⟨_, _, w', hw⟩

/-! ### what is still to be handed out -/

theorem itemsBytes_skipEmpty (is : List Item) : itemsBytes (skipEmpty is) = itemsBytes is := by
  induction is with
  | nil => rfl
  | cons it is ih =>
    cases it with
    | pause => rfl
    | seg b =>
      cases b with
      | nil => simp only [skipEmpty, itemsBytes, List.nil_append]; exact ih
      | cons x xs => rfl

/-- `data_pending()` may move a byte from the socket into the look-ahead buffer, nothing is lost -/
theorem dataPending_res (ssl : Bool) (inn : List Byte) (w : Wire) :
    (dataPending ssl inn w).2.1 ++ itemsBytes (dataPending ssl inn w).2.2.items = inn ++ itemsBytes w.items := by
  unfold dataPending
  split
  · unfold dataPendingTls
    split
    · rfl
    · split <;> rfl
  · unfold dataPendingClear
    split
    · rfl
    · rename_i hi
      have hinn : inn = [] := by cases inn <;> simp_all
      subst hinn
      split
      · rfl
      · split
        · rename_i b is hs
          dsimp only
          split
          · rfl
          · dsimp only
            rw [← itemsBytes_skipEmpty w.items, hs]
            simp only [itemsBytes, List.nil_append]
            rw [← List.append_assoc, List.take_append_drop]
        · rfl

/-- the program has ended abnormally, or what is left to hand out is the wire form of a suffix of `ls` -/
def Post (ls : List (List Byte)) (k : Core) (w : Wire) : Prop :=
  k.dead.isSome = true ∨ ∃ pre ls', ls = pre ++ ls' ∧ k.inn ++ itemsBytes w.items = wire ls'

theorem Post.of_res {ls : List (List Byte)} {k : Core} {w : Wire} (h : k.inn ++ itemsBytes w.items = wire ls) :
    Post ls k w := Or.inr ⟨[], ls, rfl, h⟩

theorem Post.dead {ls : List (List Byte)} {k : Core} {w : Wire} (h : k.dead.isSome = true) : Post ls k w := Or.inl h

theorem Post.mono {ls ls0 : List (List Byte)} {k : Core} {w : Wire} (p : List (List Byte)) (h : Post ls k w)
    (h0 : ls0 = p ++ ls) : Post ls0 k w := by
  rcases h with h | ⟨pre, ls', h1, h2⟩
  · exact Or.inl h
  · exact Or.inr ⟨p ++ pre, ls', by rw [h0, h1, List.append_assoc], h2⟩

theorem errPath_post (k : Core) (w : Wire) (pre : List Nat) (rc : Rc) (s : Sess) (ls : List (List Byte))
    (h : k.inn ++ itemsBytes w.items = wire ls) :
    Post ls (errPath k w pre rc s).2.1 (errPath k w pre rc s).2.2 := by
  have hd := dataPending_res s.ssl k.inn w
  unfold errPath
  split
  · exact Post.of_res h
  · rcases hp : dataPending s.ssl k.inn w with ⟨p, inn', w'⟩
    rw [hp] at hd
    dsimp only at hd
    cases p
    · exact Post.of_res (hd.trans h)
    · exact Post.of_res (hd.trans h)
    · exact Post.dead rfl

theorem finish_post (k : Core) (w : Wire) (st : Int) (i : Nat) (r : FuncRes) (ls : List (List Byte))
    (h : k.inn ++ itemsBytes w.items = wire ls) :
    Post ls (finish k w st i r).2.2.1 (finish k w st i r).2.2.2 := by
  unfold finish
  split
  · exact Post.of_res h
  · exact errPath_post k w r.replies r.rc r.s ls h

theorem wf_tail {l : List Byte} {rest : List (List Byte)} (hwf : ∀ x ∈ l :: rest, WfLine x) :
    WfLine l ∧ ∀ x ∈ rest, WfLine x :=
  ⟨hwf l List.mem_cons_self, fun x hx => hwf x (List.mem_cons_of_mem _ hx)⟩

theorem syncPipelining_post (k : Core) (w : Wire) (ls : List (List Byte)) (hwf : ∀ l ∈ ls, WfLine l)
    (h : k.inn ++ itemsBytes w.items = wire ls) :
    Post ls (syncPipelining k w).2.1 (syncPipelining k w).2.2 := by
  have hd := dataPending_res k.sess.ssl k.inn w
  unfold syncPipelining
  rcases hp : dataPending k.sess.ssl k.inn w with ⟨p, inn', w'⟩
  rw [hp] at hd
  dsimp only at hd
  cases p with
  | no => exact Post.of_res (hd.trans h)
  | die => exact Post.dead rfl
  | yes =>
    dsimp only
    split
    · cases ls with
      | nil =>
        obtain ⟨e, inn2, w2, hr⟩ := readLine_end inn' w' (hd.trans h)
        rw [hr]
        exact Post.dead rfl
      | cons l rest =>
        obtain ⟨inn2, w2, hr, hres⟩ := readLine_wf inn' w' l rest (wf_tail hwf).1 (hd.trans h)
        rw [hr]
        exact Post.mono [l] (Post.of_res hres) rfl
    · exact Post.of_res (hd.trans h)

theorem readBody_post : ∀ (fuel : Nat) (inn : List Byte) (w : Wire) (lb : List Byte) (ls : List (List Byte))
    (inn3 : List Byte) (w3 : Wire) (b3 : List Byte), (∀ l ∈ ls, WfLine l) →
    inn ++ itemsBytes w.items = wire ls → readBody inn w lb fuel = some (inn3, w3, b3) →
    ∃ pre ls', ls = pre ++ ls' ∧ inn3 ++ itemsBytes w3.items = wire ls' := by
  intro fuel
  induction fuel with
  | zero => intro inn w lb ls inn3 w3 b3 _ _ h; simp [readBody] at h
  | succ f ih =>
    intro inn w lb ls inn3 w3 b3 hwf hres h
    unfold readBody at h
    cases ls with
    | nil =>
      obtain ⟨e, inn2, w2, hr⟩ := readLine_end inn w hres
      rw [hr] at h
      simp at h
    | cons l rest =>
      obtain ⟨inn2, w2, hr, hres2⟩ := readLine_wf inn w l rest (wf_tail hwf).1 hres
      rw [hr] at h
      dsimp only at h
      split at h
      · simp only [Option.some.injEq, Prod.mk.injEq] at h
        obtain ⟨rfl, rfl, _⟩ := h
        exact ⟨[l], rest, rfl, hres2⟩
      · obtain ⟨pre, ls', h1, h2⟩ := ih _ _ _ _ _ _ _ (wf_tail hwf).2 hres2 h
        exact ⟨l :: pre, ls', by rw [h1]; rfl, h2⟩

/-- outcome of one iteration on residual `wire ls` -/
def StepOK (ls : List (List Byte)) (e : Ev) (k' : Core) (w' : Wire) : Prop :=
  (e.input = none ∧ k'.dead.isSome = true)
  ∨ ∃ l rest, ls = l :: rest ∧ e.input = some l ∧ Post rest k' w'

theorem wqBad_inn (k : Core) : (wqBad k).2.inn = k.inn ∧ (wqBad k).2.dead = k.dead := by
  unfold wqBad
  split <;> exact ⟨rfl, rfl⟩

theorem wqStep_tls (k : Core) (w : Wire) (ls : List (List Byte)) (hwf : ∀ l ∈ ls, WfLine l)
    (h : k.inn ++ itemsBytes w.items = wire ls) :
    StepOK ls (wqStep k w).1 (wqStep k w).2.1 (wqStep k w).2.2 := by
  unfold wqStep
  cases ls with
  | nil =>
    obtain ⟨e, inn2, w2, hr⟩ := readLine_end k.inn w h
    rw [hr]
    exact Or.inl ⟨rfl, rfl⟩
  | cons l rest =>
    obtain ⟨inn2, w2, hr, hres⟩ := readLine_wf k.inn w l rest (wf_tail hwf).1 h
    rw [hr]
    dsimp only
    split
    · exact Or.inr ⟨l, rest, rfl, rfl, Post.of_res hres⟩
    · refine Or.inr ⟨l, rest, rfl, rfl, Post.of_res ?_⟩
      rw [(wqBad_inn _).1]
      exact hres

theorem loopStep_tls (cfg : Cfg) (k : Core) (w : Wire) (ls : List (List Byte)) (hssl : k.sess.ssl = true)
    (hwf : ∀ l ∈ ls, WfLine l) (h : k.inn ++ itemsBytes w.items = wire ls) :
    StepOK ls (loopStep cfg k w).1 (loopStep cfg k w).2.1 (loopStep cfg k w).2.2 := by
  unfold loopStep
  cases ls with
  | nil =>
    obtain ⟨e, inn2, w2, hr⟩ := readLine_end k.inn w h
    rw [hr]
    exact Or.inl ⟨rfl, rfl⟩
  | cons l rest =>
    obtain ⟨inn', w', hr, hres⟩ := readLine_wf k.inn w l rest (wf_tail hwf).1 h
    have hwr := (wf_tail hwf).2
    rw [hr]
    dsimp only
    split
    · exact Or.inr ⟨l, rest, rfl, rfl, errPath_post _ _ _ _ _ rest hres⟩
    · cases hd : dispatch k.sess l with
      | err rc => exact Or.inr ⟨l, rest, rfl, rfl, errPath_post _ _ _ _ _ rest hres⟩
      | call i row =>
        dsimp only
        cases hf : row.func with
        | starttls =>
          dsimp only
          rw [if_pos (by simp [hssl])]
          exact Or.inr ⟨l, rest, rfl, rfl, finish_post _ _ _ _ _ rest hres⟩
        | noop =>
          dsimp only
          have hsp := syncPipelining_post { k with inn := inn', lastbuf := bufAfter k.inn w.toSrc k.lastbuf } w' rest hwr hres
          rcases hsy : syncPipelining { k with inn := inn', lastbuf := bufAfter k.inn w.toSrc k.lastbuf } w' with ⟨sy, k2, w2⟩
          rw [hsy] at hsp
          have hs := syncPipelining_spec _ _ sy k2 w2 hsy
          cases sy with
          | die c => exact Or.inr ⟨l, rest, rfl, rfl, hsp⟩
          | stuck rep => exact Or.inr ⟨l, rest, rfl, rfl, hsp⟩
          | clear =>
            dsimp only at hs ⊢
            obtain ⟨_, rfl, rfl⟩ := hs
            generalize runFunc cfg.env (cfg.verd l) _ _ l = fr
            exact Or.inr ⟨l, rest, rfl, rfl, finish_post _ _ _ _ _ rest hres⟩
        | data =>
          dsimp only
          split
          · have hdp := dataPending_res k.sess.ssl inn' w'
            rcases hp : dataPending k.sess.ssl inn' w' with ⟨p, inn2, w2⟩
            rw [hp] at hdp
            cases p <;> dsimp only
            · exact Or.inr ⟨l, rest, rfl, rfl, finish_post _ _ _ _ _ rest (hdp.trans hres)⟩
            · exact Or.inr ⟨l, rest, rfl, rfl, finish_post _ _ _ _ _ rest (hdp.trans hres)⟩
            · exact Or.inr ⟨l, rest, rfl, rfl, Post.dead rfl⟩
          · have hsp := syncPipelining_post { k with inn := inn', lastbuf := bufAfter k.inn w.toSrc k.lastbuf } w' rest hwr hres
            rcases hsy : syncPipelining { k with inn := inn', lastbuf := bufAfter k.inn w.toSrc k.lastbuf } w' with ⟨sy, k2, w2⟩
            rw [hsy] at hsp
            have hs := syncPipelining_spec _ _ sy k2 w2 hsy
            cases sy with
            | die c => exact Or.inr ⟨l, rest, rfl, rfl, hsp⟩
            | stuck rep => exact Or.inr ⟨l, rest, rfl, rfl, hsp⟩
            | clear =>
              dsimp only at hs ⊢
              obtain ⟨_, rfl, rfl⟩ := hs
              split
              · split
                · exact Or.inr ⟨l, rest, rfl, rfl, Post.dead rfl⟩
                · rename_i inn3 w3 buf3 hrb
                  obtain ⟨pre, ls', h1, h2⟩ := readBody_post _ _ _ _ rest _ _ _ hwr hres hrb
                  exact Or.inr ⟨l, rest, rfl, rfl, Post.mono pre (finish_post _ _ _ _ _ ls' h2) h1⟩
              · exact Or.inr ⟨l, rest, rfl, rfl, finish_post _ _ _ _ _ rest hres⟩
        | ehlo => dsimp only; generalize runFunc cfg.env (cfg.verd l) _ _ l = fr; exact Or.inr ⟨l, rest, rfl, rfl, finish_post _ _ _ _ _ rest hres⟩
        | quit => dsimp only; generalize runFunc cfg.env (cfg.verd l) _ _ l = fr; exact Or.inr ⟨l, rest, rfl, rfl, finish_post _ _ _ _ _ rest hres⟩
        | rset => dsimp only; generalize runFunc cfg.env (cfg.verd l) _ _ l = fr; exact Or.inr ⟨l, rest, rfl, rfl, finish_post _ _ _ _ _ rest hres⟩
        | helo => dsimp only; generalize runFunc cfg.env (cfg.verd l) _ _ l = fr; exact Or.inr ⟨l, rest, rfl, rfl, finish_post _ _ _ _ _ rest hres⟩
        | mail => dsimp only; generalize runFunc cfg.env (cfg.verd l) _ _ l = fr; exact Or.inr ⟨l, rest, rfl, rfl, finish_post _ _ _ _ _ rest hres⟩
        | rcpt => dsimp only; generalize runFunc cfg.env (cfg.verd l) _ _ l = fr; exact Or.inr ⟨l, rest, rfl, rfl, finish_post _ _ _ _ _ rest hres⟩
        | auth => dsimp only; generalize runFunc cfg.env (cfg.verd l) _ _ l = fr; exact Or.inr ⟨l, rest, rfl, rfl, finish_post _ _ _ _ _ rest hres⟩
        | vrfy => dsimp only; generalize runFunc cfg.env (cfg.verd l) _ _ l = fr; exact Or.inr ⟨l, rest, rfl, rfl, finish_post _ _ _ _ _ rest hres⟩
        | bdat => dsimp only; generalize runFunc cfg.env (cfg.verd l) _ _ l = fr; exact Or.inr ⟨l, rest, rfl, rfl, finish_post _ _ _ _ _ rest hres⟩
        | post => dsimp only; generalize runFunc cfg.env (cfg.verd l) _ _ l = fr; exact Or.inr ⟨l, rest, rfl, rfl, finish_post _ _ _ _ _ rest hres⟩

theorem stepOn_tls (cfg : Cfg) (k : Core) (w : Wire) (ls : List (List Byte)) (hssl : k.sess.ssl = true)
    (hwf : ∀ l ∈ ls, WfLine l) (h : k.inn ++ itemsBytes w.items = wire ls) :
    StepOK ls (stepOn cfg k w).1 (stepOn cfg k w).2.1 (stepOn cfg k w).2.2 := by
  unfold stepOn
  split
  · exact wqStep_tls k w ls hwf h
  · exact loopStep_tls cfg k w ls hssl hwf h

/-! ### the whole run -/

/-- the lines acted on -/
def inputsOf (es : List Ev) : List (List Byte) := es.filterMap (·.input)

theorem runOn_stopped (cfg : Cfg) (k : Core) (w : Wire) (fuel : Nat) (h : k.stopped = true) :
    (runOn cfg k w fuel).1 = [] := by
  cases fuel with
  | zero => rfl
  | succ n => unfold runOn; rw [if_pos h]

theorem stopped_of_dead (k : Core) (h : k.dead.isSome = true) : k.stopped = true := by
  unfold Core.stopped; rw [h]; rfl

/-- In TLS mode, when what is still to be handed out (look-ahead buffer ++ unread TLS plaintext) is
the wire form of the well-formed lines `ls`, the lines the loop acts on are, in order, lines of `ls`
(message lines read by DATA and the line eaten by hasinput() are skipped, nothing else can appear) —
for every segmentation of the plaintext into records and every placement of pauses. -/
theorem tls_lines_sublist (cfg : Cfg) (fuel : Nat) (k : Core) (w : Wire) (ls : List (List Byte))
    (hssl : k.sess.ssl = true) (hwf : ∀ l ∈ ls, WfLine l)
    (hres : k.inn ++ itemsBytes w.items = wire ls) :
    (inputsOf (runOn cfg k w fuel).1).Sublist ls := by
  induction fuel generalizing k w ls with
  | zero => exact List.nil_sublist _
  | succ n ih =>
    unfold runOn
    split
    · exact List.nil_sublist _
    · have hstep := stepOn_tls cfg k w ls hssl hwf hres
      have hmono := stepOn_ssl_mono cfg k w hssl
      dsimp only
      generalize stepOn cfg k w = st at hstep hmono
      obtain ⟨e, k', w'⟩ := st
      dsimp only at hstep hmono ⊢
      rcases hstep with ⟨hin, hdead⟩ | ⟨l, rest, rfl, hin, hpost⟩
      · rw [runOn_stopped cfg k' w' n (stopped_of_dead k' hdead)]
        simp [inputsOf, hin]
      · have hcons : inputsOf (e :: (runOn cfg k' w' n).1) = l :: inputsOf (runOn cfg k' w' n).1 := by
          simp [inputsOf, hin]
        rw [hcons]
        apply List.Sublist.cons_cons
        rcases hpost with hdead | ⟨pre, ls', rfl, hres'⟩
        · rw [runOn_stopped cfg k' w' n (stopped_of_dead k' hdead)]
          exact List.nil_sublist _
        · have hwf' : ∀ x ∈ ls', WfLine x := fun x hx =>
            hwf x (List.mem_cons_of_mem _ (List.mem_append_right _ hx))
          exact (ih k' w' ls' hmono hwf' hres').trans (List.sublist_append_right _ _)

end QsmtpModel.StartTlsSrv
