/-
Lemmas about Spf.Parse / Spf.Received / Spf.Core: every function returns; result codes stay in
range; the counters and the explanation text keep their invariants.
-/
import QsmtpModel.Lemmas.SpfMacro

namespace QsmtpModel.Spf
open QsmtpModel

/-- the values check_host() can return -/
def InRange (r : Int) : Prop :=
  r = SPF_NONE ∨ r = SPF_PASS ∨ r = SPF_NEUTRAL ∨ r = SPF_SOFTFAIL ∨ r = SPF_FAIL ∨ r = SPF_PERMERROR ∨
    r = SPF_TEMPERROR ∨ r = SPF_DNS_HARD_ERROR ∨ r = -1

instance (r : Int) : Decidable (InRange r) := by unfold InRange; infer_instance

/-- error values of spf_domainspec() / spf_makro() -/
def ErrCode (e : Int) : Prop := e = -1 ∨ e = SPF_PERMERROR ∨ e = SPF_TEMPERROR ∨ e = SPF_DNS_HARD_ERROR

theorem ErrCode.inRange {e : Int} (h : ErrCode e) : InRange e := by
  unfold InRange
  rcases h with h | h | h | h <;> simp [h]

theorem errOk_toInt {e : MacroErr} (h : ErrOk e) : ErrCode e.toInt := by
  rcases h with h | h | h | h <;> subst h
  · exact Or.inl rfl
  · exact Or.inr (Or.inl rfl)
  · exact Or.inr (Or.inr (Or.inl rfl))
  · exact Or.inr (Or.inr (Or.inr rfl))

theorem irNone : InRange SPF_NONE := by decide
theorem irPass : InRange SPF_PASS := by decide
theorem irNeutral : InRange SPF_NEUTRAL := by decide
theorem irFail : InRange SPF_FAIL := by decide
theorem irPerm : InRange SPF_PERMERROR := by decide

theorem inRange_pass_none (c : Prop) [Decidable c] : InRange (if c then SPF_PASS else SPF_NONE) := by
  split <;> decide

def DsPost (r : Except Int DomSpec) : Prop := ∀ e, r = .error e → ErrCode e

theorem dsPost_ok (d : DomSpec) : DsPost (.ok d) := by intro e he; cases he
theorem dsPost_perm : DsPost (.error SPF_PERMERROR) := by
  intro e he; cases he; exact Or.inr (Or.inl rfl)

theorem sat_domainspec (dns : Dns) (ss : Sess) (hwf : ss.wf = true) (domain tok : List Byte) :
    M.Sat (domainspec dns ss domain tok) DsPost := by
  unfold domainspec
  simp only []
  have hcidr : ∀ (ds : Option (List Byte)) (rest : List Byte),
      M.Sat (if (at0 rest 0 == 47) = true then
          match dsCidr rest with
          | none => (pure (Except.error SPF_PERMERROR) : M (Except Int DomSpec))
          | some (c4, c6) => pure (Except.ok ⟨ds, c4, c6⟩)
        else pure (Except.ok ⟨ds, -1, -1⟩)) DsPost := by
    intro ds rest
    refine M.sat_ite (fun _ => ?_) (fun _ => M.sat_pure (dsPost_ok _))
    split
    · exact M.sat_pure dsPost_perm
    · exact M.sat_pure (dsPost_ok _)
  refine M.sat_ite (fun _ => M.sat_pure (dsPost_ok _)) (fun _ => ?_)
  refine M.sat_ite (fun _ => ?_) (fun _ => hcidr _ _)
  split
  · exact M.sat_pure dsPost_perm
  · refine M.sat_ite (fun _ => M.sat_pure dsPost_perm) (fun _ => ?_)
    refine M.sat_ite (fun _ => M.sat_pure dsPost_perm) (fun _ => ?_)
    refine M.sat_bind (sat_makro dns ss hwf tok domain false) ?_
    intro r hr
    split
    · rename_i e
      refine M.sat_pure ?_
      intro e' he'; cases he'
      exact errOk_toInt (hr e rfl)
    · exact hcidr _ _

theorem sat_optDomainspec (dns : Dns) (ss : Sess) (hwf : ss.wf = true) (domain tok : List Byte) :
    M.Sat (optDomainspec dns ss domain tok) DsPost := by
  unfold optDomainspec
  simp only []
  refine M.sat_ite (fun _ => M.sat_pure (dsPost_ok _)) (fun _ => ?_)
  refine M.sat_ite (fun _ => sat_domainspec dns ss hwf _ _) (fun _ => M.sat_pure dsPost_perm)

theorem spfip4_inRange (ss : Sess) (tok : List Byte) : InRange (spfip4 ss tok) := by
  unfold spfip4
  simp only []
  split; · decide
  split; · decide
  split
  · decide
  · split
    · decide
    · split <;> decide

theorem spfip6_inRange (ss : Sess) (tok : List Byte) : InRange (spfip6 ss tok) := by
  unfold spfip6
  simp only []
  split; · decide
  split; · decide
  split
  · decide
  · split
    · decide
    · split <;> decide

theorem sat_spfmx (dns : Dns) (ss : Sess) (hwf : ss.wf = true) (domain tok : List Byte) :
    M.Sat (spfmx dns ss domain tok) InRange := by
  unfold spfmx
  refine M.sat_bind (sat_optDomainspec dns ss hwf domain tok) ?_
  intro d hd
  split
  · rename_i e; exact M.sat_pure (hd e rfl).inRange
  · refine M.sat_bind (sat_askDnsMx dns _) ?_
    intro r _
    split
    · exact M.sat_pure (by decide)
    · exact M.sat_pure (by decide)
    · exact M.sat_pure (by decide)
    · exact M.sat_pure (by decide)
    · exact M.sat_pure (by decide)
    · split
      · exact M.sat_pure (by decide)
      · refine M.sat_ite (fun _ => M.sat_pure (by decide)) (fun _ => ?_)
        refine M.sat_ite (fun _ => M.sat_pure (by decide)) (fun _ => ?_)
        refine M.sat_pure ?_
        split <;> exact inRange_pass_none _

theorem sat_spfa (dns : Dns) (ss : Sess) (hwf : ss.wf = true) (domain tok : List Byte) :
    M.Sat (spfa dns ss domain tok) InRange := by
  unfold spfa
  refine M.sat_bind (sat_optDomainspec dns ss hwf domain tok) ?_
  intro d hd
  split
  · rename_i e; exact M.sat_pure (hd e rfl).inRange
  · simp only []
    refine M.sat_bind (Q := fun _ => True) ?_ ?_
    · exact M.sat_ite (fun _ => sat_askDnsA _ _) (fun _ => sat_askDnsAAAA _ _)
    · intro r _
      split
      · exact M.sat_pure (by decide)
      · exact M.sat_pure (by decide)
      · exact M.sat_pure (by decide)
      · exact M.sat_pure (inRange_pass_none _)

theorem sat_spfexists (dns : Dns) (ss : Sess) (hwf : ss.wf = true) (domain tok : List Byte) :
    M.Sat (spfexists dns ss domain tok) InRange := by
  unfold spfexists
  refine M.sat_bind (sat_domainspec dns ss hwf domain tok) ?_
  intro d hd
  split
  · rename_i e; exact M.sat_pure (hd e rfl).inRange
  · split
    · exact M.sat_pure (by decide)
    · refine M.sat_ite (fun _ => M.sat_pure (by decide)) (fun _ => ?_)
      refine M.sat_bind (sat_askDnsA dns _) ?_
      intro r _
      split <;> exact M.sat_pure (by decide)

theorem sat_spfptr (dns : Dns) (ss : Sess) (hwf : ss.wf = true) (domain tok : List Byte) :
    M.Sat (spfptr dns ss domain tok) InRange := by
  unfold spfptr
  refine M.sat_bind (sat_optDomainspec dns ss hwf domain tok) ?_
  intro d hd
  split
  · rename_i e; exact M.sat_pure (hd e rfl).inRange
  · refine M.sat_ite (fun _ => M.sat_pure (by decide)) (fun _ => ?_)
    refine M.sat_ite (fun _ => M.sat_pure (by decide)) (fun _ => ?_)
    refine M.sat_bind (sat_validateDomain dns ss) ?_
    intro v _
    split
    · exact M.sat_pure (by decide)
    · exact M.sat_pure (by decide)
    · exact M.sat_pure (by decide)
    · exact M.sat_pure (by decide)
    · exact M.sat_pure (inRange_pass_none _)

theorem sat_txtlookup (dns : Dns) (domain : List Byte) : M.Sat (txtlookup dns domain) (fun _ => True) := by
  unfold txtlookup
  simp only []
  split
  · exact M.sat_pure trivial
  · exact sat_dnstxtRecords _ _

theorem txtErrCode_inRange (e : Errno) : InRange (txtErrCode e) := by
  cases e <;> decide

end QsmtpModel.Spf

namespace QsmtpModel.Spf
open QsmtpModel

/-! ### bytes of the explanation text -/

theorem byte_forall (P : Byte → Prop) (h : ∀ n : Fin 256, P (UInt8.ofNat n.val)) : ∀ c, P c := by
  intro c
  have := h ⟨c.toNat, c.toNat_lt⟩
  simpa using this

/-- what record_bad_token() lets through: TAB and printable ASCII without `(`, `)`, `\` -/
def BadTokOk (b : Byte) : Prop := b = 9 ∨ (32 ≤ b.toNat ∧ b.toNat ≤ 126 ∧ b ≠ 40 ∧ b ≠ 41 ∧ b ≠ 92)
instance (b : Byte) : Decidable (BadTokOk b) := by unfold BadTokOk; infer_instance

set_option maxRecDepth 100000 in
theorem badTokenChar_ok : ∀ c, BadTokOk (badTokenChar c) := byte_forall _ (by decide)

/-- bytes that can be in xmitstat.spfexp: TAB or 32..127 — no CR, LF, NUL, nothing ≥ 128 -/
def ExpByteOk (b : Byte) : Prop := b = 9 ∨ (32 ≤ b.toNat ∧ b.toNat ≤ 127)

def ExpOk (e : Option (List Byte)) : Prop := ∀ x, e = some x → ∀ b ∈ x, ExpByteOk b

theorem expOk_none : ExpOk none := by intro x hx; cases hx

theorem recordBadToken_ok (rec : List Byte) (p : Nat) : ∀ b ∈ recordBadToken rec p, BadTokOk b := by
  intro b hb
  unfold recordBadToken at hb
  simp only [List.mem_map] at hb
  obtain ⟨a, _, rfl⟩ := hb
  exact badTokenChar_ok a

theorem expOk_badToken (rec : List Byte) (p : Nat) : ExpOk (some (recordBadToken rec p)) := by
  intro x hx b hb
  cases hx
  rcases recordBadToken_ok rec p b hb with h | h
  · exact Or.inl h
  · exact Or.inr ⟨h.1, by omega⟩

theorem expSanitize_ok (s : List Byte) : ∀ x, expSanitize s = some x → ∀ b ∈ x, 32 ≤ b.toNat ∧ b.toNat ≤ 127 := by
  intro x hx b hb
  unfold expSanitize at hx
  split at hx
  · cases hx
  · rename_i hany
    cases hx
    simp only [List.mem_map] at hb
    obtain ⟨a, ha, rfl⟩ := hb
    have ha128 : a.toNat < 128 := by
      have : ¬ (s.any fun c => decide (c.toNat ≥ 128)) = true := hany
      simp only [List.any_eq_true, decide_eq_true_eq, not_exists, not_and] at this
      have := this a ha; omega
    split
    · decide
    · rename_i h32
      have : ¬ a.toNat < 32 := by simpa using h32
      omega

theorem expOk_sanitize (s : List Byte) : ExpOk (expSanitize s) := by
  intro x hx b hb
  exact Or.inr (expSanitize_ok s x hx b hb)

/-! ### the counters -/


/-- invariant of the state spflookup() threads: the ghost counter of evaluated DNS terms is the
query counter capped at the Gen.spfMaxDnsTerms, and the explanation text is clean -/
def StInv (s : St) : Prop := s.evaluated = min s.queries Gen.spfMaxDnsTerms ∧ ExpOk s.spfexp

def Post (st : St) (x : Int × St) : Prop := InRange x.1 ∧ StInv x.2 ∧ st.queries ≤ x.2.queries

/-- what the term loop needs to know about the recursive call -/
def RecOk (recurse : List Byte → St → M (Int × St)) (q0 : Nat) : Prop :=
  ∀ d st, q0 < st.queries → st.queries ≤ Gen.spfMaxDnsTerms → StInv st → M.Sat (recurse d st) (Post st)

def PrefOk (x : Int) : Prop := x = SPF_PASS ∨ x = SPF_FAIL ∨ x = SPF_SOFTFAIL ∨ x = SPF_NEUTRAL

def LoopInv (q0 : Nat) (ls : LoopSt) : Prop :=
  InRange ls.result ∧ PrefOk ls.prefx ∧ StInv ls.st ∧ q0 ≤ ls.st.queries

theorem dnsterm_yes {st : St} (h : StInv st) (ha : (dnstermAllowed st).1 = true) :
    StInv (dnstermAllowed st).2 ∧ (dnstermAllowed st).2.queries = st.queries + 1 ∧
      (dnstermAllowed st).2.queries ≤ Gen.spfMaxDnsTerms := by
  unfold dnstermAllowed at ha ⊢
  simp only [] at ha ⊢
  split
  · rename_i hq
    refine ⟨⟨?_, h.2⟩, rfl, hq⟩
    show st.evaluated + 1 = min (st.queries + 1) Gen.spfMaxDnsTerms
    have := h.1
    omega
  · rename_i hq; simp [hq] at ha

theorem dnsterm_no {st : St} (h : StInv st) (ha : ¬ (dnstermAllowed st).1 = true) :
    StInv (dnstermAllowed st).2 ∧ (dnstermAllowed st).2.queries = st.queries + 1 := by
  unfold dnstermAllowed at ha ⊢
  simp only [] at ha ⊢
  split
  · rename_i hq; simp [hq] at ha
  · rename_i hq
    refine ⟨⟨?_, h.2⟩, rfl⟩
    show st.evaluated = min (st.queries + 1) Gen.spfMaxDnsTerms
    have := h.1
    omega

theorem sat_dnsMech {q0 : Nat} {ls : LoopSt} (hi : LoopInv q0 ls) (name : List Byte) {f : M Int}
    (hf : M.Sat f InRange) :
    M.Sat (dnsMech ls name f) (fun ls' => LoopInv q0 ls' ∧ ls.st.queries ≤ ls'.st.queries) := by
  unfold dnsMech
  obtain ⟨h1, h2, h3, h4⟩ := hi
  refine M.sat_ite (fun ha => ?_) (fun ha => ?_)
  · obtain ⟨g1, g2, g3⟩ := dnsterm_yes h3 ha
    refine M.sat_bind hf ?_
    intro r hr
    exact M.sat_pure ⟨⟨hr, h2, g1, by simp only []; omega⟩, by simp only []; omega⟩
  · obtain ⟨g1, g2⟩ := dnsterm_no h3 ha
    exact M.sat_pure ⟨⟨irFail, h2, g1, by simp only []; omega⟩, by simp only []; omega⟩

theorem sat_existsTerm (dns : Dns) (ss : Sess) (hwf : ss.wf = true) (domain t : List Byte) {q0 : Nat}
    {ls : LoopSt} (hi : LoopInv q0 ls) :
    M.Sat (existsTerm dns ss domain t ls) (fun ls' => LoopInv q0 ls' ∧ ls.st.queries ≤ ls'.st.queries) := by
  unfold existsTerm
  obtain ⟨h1, h2, h3, h4⟩ := hi
  refine M.sat_ite (fun _ => M.sat_pure ⟨⟨irPerm, h2, h3, h4⟩, Nat.le_refl _⟩) (fun _ => ?_)
  refine M.sat_ite (fun ha => ?_) (fun ha => ?_)
  · obtain ⟨g1, g2, g3⟩ := dnsterm_yes h3 ha
    refine M.sat_bind (sat_spfexists dns ss hwf domain _) ?_
    intro r hr
    exact M.sat_pure ⟨⟨hr, h2, g1, by simp only []; omega⟩, by simp only []; omega⟩
  · obtain ⟨g1, g2⟩ := dnsterm_no h3 ha
    exact M.sat_pure ⟨⟨irFail, h2, g1, by simp only []; omega⟩, by simp only []; omega⟩

theorem includeMap_inRange (r : Int) (q : Nat) (h : InRange r) : InRange (includeMap r q) := by
  unfold includeMap
  split; · decide
  split; · exact h
  split; · exact h
  · decide

theorem sat_includeEval (dns : Dns) (ss : Sess) (hwf : ss.wf = true) {recurse : List Byte → St → M (Int × St)}
    {q0 : Nat} (hrec : RecOk recurse q0) (domain t : List Byte) {st : St} (hs : StInv st) (hq : q0 ≤ st.queries) :
    M.Sat (includeEval dns ss recurse domain t st) (Post st) := by
  unfold includeEval
  refine M.sat_ite (fun _ => ?_) (fun _ => M.sat_pure ⟨irPerm, hs, Nat.le_refl _⟩)
  refine M.sat_bind (sat_domainspec dns ss hwf domain _) ?_
  intro d hd
  split
  · rename_i e
    exact M.sat_pure ⟨(hd e rfl).inRange, hs, Nat.le_refl _⟩
  · refine M.sat_ite (fun _ => M.sat_pure ⟨irPerm, hs, Nat.le_refl _⟩) (fun _ => ?_)
    refine M.sat_ite (fun ha => ?_) (fun ha => ?_)
    · obtain ⟨g1, g2, g3⟩ := dnsterm_yes hs ha
      refine M.sat_mono (hrec _ _ (by omega) g3 g1) ?_
      intro x hx
      exact ⟨hx.1, hx.2.1, by have := hx.2.2; omega⟩
    · obtain ⟨g1, g2⟩ := dnsterm_no hs ha
      exact M.sat_pure ⟨irFail, g1, by simp only []; omega⟩

theorem sat_includeTerm (dns : Dns) (ss : Sess) (hwf : ss.wf = true) {recurse : List Byte → St → M (Int × St)}
    {q0 : Nat} (hrec : RecOk recurse q0) (domain t : List Byte) {ls : LoopSt} (hi : LoopInv q0 ls) :
    M.Sat (includeTerm dns ss recurse domain t ls) (fun ls' => LoopInv q0 ls' ∧ ls.st.queries ≤ ls'.st.queries) := by
  unfold includeTerm
  obtain ⟨h1, h2, h3, h4⟩ := hi
  refine M.sat_bind (sat_includeEval dns ss hwf hrec domain t h3 h4) ?_
  intro x hx
  exact M.sat_pure ⟨⟨includeMap_inRange _ _ hx.1, h2, hx.2.1, by have := hx.2.2; simp only []; omega⟩, hx.2.2⟩

theorem badToken_inv {q0 : Nat} {ls : LoopSt} (hi : LoopInv q0 ls) (rec : List Byte) (p : Nat) :
    LoopInv q0 (badToken rec p ls) ∧ ls.st.queries ≤ (badToken rec p ls).st.queries := by
  obtain ⟨h1, h2, h3, h4⟩ := hi
  exact ⟨⟨irPerm, h2, ⟨h3.1, expOk_badToken rec p⟩, h4⟩, Nat.le_refl _⟩

theorem sat_modifierTerm (dns : Dns) (ss : Sess) (hwf : ss.wf = true) (domain rec : List Byte) (p : Nat)
    {q0 : Nat} {ls : LoopSt} (hi : LoopInv q0 ls) :
    M.Sat (modifierTerm dns ss domain rec p ls) (fun ls' => LoopInv q0 ls' ∧ ls.st.queries ≤ ls'.st.queries) := by
  unfold modifierTerm
  simp only []
  refine M.sat_ite (fun _ => M.sat_pure (badToken_inv hi rec p)) (fun _ => ?_)
  refine M.sat_ite (fun _ => M.sat_pure (badToken_inv hi rec p)) (fun _ => ?_)
  refine M.sat_bind (sat_makro dns ss hwf _ domain false) ?_
  intro m hm
  split
  · exact M.sat_pure ⟨hi, Nat.le_refl _⟩
  · rename_i e
    refine M.sat_ite (fun _ => M.sat_pure (badToken_inv hi rec p)) (fun _ => ?_)
    obtain ⟨h1, h2, h3, h4⟩ := hi
    exact M.sat_pure ⟨⟨(errOk_toInt (hm e rfl)).inRange, h2, h3, h4⟩, Nat.le_refl _⟩

theorem sat_evalMech (dns : Dns) (ss : Sess) (hwf : ss.wf = true) {recurse : List Byte → St → M (Int × St)}
    {q0 : Nat} (hrec : RecOk recurse q0) (domain rec : List Byte) (p : Nat) {ls : LoopSt} (hi : LoopInv q0 ls) :
    M.Sat (evalMech dns ss recurse domain rec p ls) (fun ls' => LoopInv q0 ls' ∧ ls.st.queries ≤ ls'.st.queries) := by
  unfold evalMech
  simp only []
  have hi' := hi
  obtain ⟨h1, h2, h3, h4⟩ := hi
  refine M.sat_ite (fun _ => sat_dnsMech hi' _ (sat_spfmx dns ss hwf _ _)) (fun _ => ?_)
  refine M.sat_ite (fun _ => sat_dnsMech hi' _ (sat_spfptr dns ss hwf _ _)) (fun _ => ?_)
  refine M.sat_ite (fun _ => sat_existsTerm dns ss hwf _ _ hi') (fun _ => ?_)
  refine M.sat_ite (fun _ => M.sat_pure ⟨⟨irPass, h2, h3, h4⟩, Nat.le_refl _⟩) (fun _ => ?_)
  refine M.sat_ite (fun _ => sat_dnsMech hi' _ (sat_spfa dns ss hwf _ _)) (fun _ => ?_)
  refine M.sat_ite (fun _ => ?_) (fun _ => ?_)
  · exact M.sat_ite (fun _ => M.sat_pure ⟨⟨spfip4_inRange _ _, h2, h3, h4⟩, Nat.le_refl _⟩)
      (fun _ => M.sat_pure ⟨⟨irPerm, h2, h3, h4⟩, Nat.le_refl _⟩)
  refine M.sat_ite (fun _ => ?_) (fun _ => ?_)
  · exact M.sat_ite (fun _ => M.sat_pure ⟨⟨spfip6_inRange _ _, h2, h3, h4⟩, Nat.le_refl _⟩)
      (fun _ => M.sat_pure ⟨⟨irPerm, h2, h3, h4⟩, Nat.le_refl _⟩)
  exact M.sat_ite (fun _ => sat_includeTerm dns ss hwf hrec _ _ hi') (fun _ => sat_modifierTerm dns ss hwf _ _ _ hi')

theorem qualifier_prefOk {rec : List Byte} {pos : Nat} {pfx : Int} {p : Nat}
    (h : qualifier rec pos = some (pfx, p)) : PrefOk pfx := by
  unfold qualifier at h
  simp only [] at h
  split at h; · cases h; exact Or.inr (Or.inl rfl)
  split at h; · cases h; exact Or.inr (Or.inr (Or.inl rfl))
  split at h; · cases h; exact Or.inl rfl
  split at h; · cases h; exact Or.inr (Or.inr (Or.inr rfl))
  split at h; · cases h; exact Or.inl rfl
  · cases h

theorem sat_evalTerm (dns : Dns) (ss : Sess) (hwf : ss.wf = true) {recurse : List Byte → St → M (Int × St)}
    {q0 : Nat} (hrec : RecOk recurse q0) (domain rec : List Byte) (pos : Nat) {ls : LoopSt} (hi : LoopInv q0 ls) :
    M.Sat (evalTerm dns ss recurse domain rec pos ls) (fun ls' => LoopInv q0 ls' ∧ ls.st.queries ≤ ls'.st.queries) := by
  unfold evalTerm
  split
  · obtain ⟨h1, h2, h3, h4⟩ := hi
    exact M.sat_pure ⟨⟨irPerm, h2, h3, h4⟩, Nat.le_refl _⟩
  · rename_i pfx p hq
    obtain ⟨h1, h2, h3, h4⟩ := hi
    exact sat_evalMech dns ss hwf hrec domain rec p ⟨h1, qualifier_prefOk hq, h3, h4⟩

theorem sat_termLoop (dns : Dns) (ss : Sess) (hwf : ss.wf = true) {recurse : List Byte → St → M (Int × St)}
    {q0 : Nat} (hrec : RecOk recurse q0) (domain rec : List Byte) (trailing : Bool) (starts : List Nat) :
    ∀ ls, LoopInv q0 ls → M.Sat (termLoop dns ss recurse domain rec trailing starts ls) (LoopInv q0) := by
  induction starts with
  | nil =>
    intro ls hi
    unfold termLoop
    refine M.sat_ite (fun _ => M.sat_pure hi) (fun _ => ?_)
    obtain ⟨h1, h2, h3, h4⟩ := hi
    exact M.sat_ite (fun _ => M.sat_pure ⟨irFail, h2, h3, h4⟩) (fun _ => M.sat_pure ⟨h1, h2, h3, h4⟩)
  | cons pos rest ih =>
    intro ls hi
    unfold termLoop
    refine M.sat_ite (fun _ => M.sat_pure hi) (fun _ => ?_)
    refine M.sat_ite (fun _ => ?_) (fun _ => ?_)
    · obtain ⟨h1, h2, h3, h4⟩ := hi
      exact M.sat_pure ⟨irFail, h2, h3, h4⟩
    · refine M.sat_bind (sat_evalTerm dns ss hwf hrec domain rec pos hi) ?_
      intro ls' hls'
      exact ih ls' hls'.1

theorem sat_explain (dns : Dns) (ss : Sess) (hwf : ss.wf = true) (domain rec : List Byte) (expl : Nat)
    (old : Option (List Byte)) (ho : ExpOk old) : M.Sat (explain dns ss domain rec expl old) ExpOk := by
  unfold explain
  refine M.sat_bind (sat_makro dns ss hwf _ domain false) ?_
  intro t _
  split
  · exact M.sat_pure ho
  · simp only []
    refine M.sat_ite (fun _ => M.sat_pure ho) (fun _ => ?_)
    refine M.sat_bind (sat_txtlookup dns _) ?_
    intro r _
    split
    · refine M.sat_bind (sat_makro dns ss hwf _ domain true) ?_
      intro x _
      split
      · exact M.sat_pure (expOk_sanitize _)
      · exact M.sat_pure expOk_none
    · exact M.sat_pure ho

theorem sat_doRedirect (dns : Dns) (ss : Sess) (hwf : ss.wf = true) {recurse : List Byte → St → M (Int × St)}
    {q0 : Nat} (hrec : RecOk recurse q0) (domain rec : List Byte) (r : Nat) {st : St} (hs : StInv st)
    (hq : q0 ≤ st.queries) : M.Sat (doRedirect dns ss recurse domain rec r st) (Post st) := by
  unfold doRedirect
  refine M.sat_bind (sat_domainspec dns ss hwf domain _) ?_
  intro d hd
  split
  · rename_i e
    exact M.sat_pure ⟨(hd e rfl).inRange, hs, Nat.le_refl _⟩
  · refine M.sat_ite (fun _ => M.sat_pure ⟨irPerm, hs, Nat.le_refl _⟩) (fun _ => ?_)
    refine M.sat_ite (fun ha => ?_) (fun ha => ?_)
    · have ha' : ¬ (dnstermAllowed st).1 = true := by simpa using ha
      obtain ⟨g1, g2⟩ := dnsterm_no hs ha'
      exact M.sat_pure ⟨irFail, g1, by simp only []; omega⟩
    · have ha' : (dnstermAllowed st).1 = true := by simpa using ha
      obtain ⟨g1, g2, g3⟩ := dnsterm_yes hs ha'
      have hinv : StInv { (dnstermAllowed st).2 with spfexp := none } := ⟨g1.1, expOk_none⟩
      refine M.sat_bind (hrec _ _ (by show q0 < (dnstermAllowed st).2.queries; omega) g3 hinv) ?_
      intro x hx
      refine M.sat_pure ⟨?_, hx.2.1, ?_⟩
      · simp only []
        split
        · exact irFail
        · exact hx.1
      · have := hx.2.2
        simp only [] at this ⊢
        omega

theorem prefOk_inRange {x : Int} (h : PrefOk x) : InRange x := by
  unfold InRange
  rcases h with h | h | h | h <;> simp [h]

theorem sat_afterLoop (dns : Dns) (ss : Sess) (hwf : ss.wf = true) {recurse : List Byte → St → M (Int × St)}
    {q0 : Nat} (hrec : RecOk recurse q0) (domain rec : List Byte) (redirect expl : Option Nat)
    {ls : LoopSt} (hi : LoopInv q0 ls) :
    M.Sat (afterLoop dns ss recurse domain rec redirect expl ls) (fun x => InRange x.1 ∧ StInv x.2 ∧ ls.st.queries ≤ x.2.queries) := by
  unfold afterLoop
  obtain ⟨h1, h2, h3, h4⟩ := hi
  refine M.sat_ite (fun _ => M.sat_pure ⟨irPerm, h3, Nat.le_refl _⟩) (fun _ => ?_)
  refine M.sat_ite (fun _ => M.sat_pure ⟨h1, h3, Nat.le_refl _⟩) (fun _ => ?_)
  refine M.sat_ite (fun _ => ?_) (fun _ => ?_)
  · simp only []
    have hres : InRange (if ls.result = SPF_PASS then ls.prefx else ls.result) := by
      split
      · exact prefOk_inRange h2
      · exact h1
    refine M.sat_bind (Q := ExpOk) ?_ ?_
    · refine M.sat_ite (fun _ => ?_) (fun _ => M.sat_pure h3.2)
      split
      · exact sat_explain dns ss hwf domain rec _ _ h3.2
      · exact M.sat_pure h3.2
    · intro e he
      exact M.sat_pure ⟨hres, ⟨h3.1, he⟩, Nat.le_refl _⟩
  · split
    · exact M.sat_pure ⟨irNeutral, h3, Nat.le_refl _⟩
    · exact sat_doRedirect dns ss hwf hrec domain rec _ h3 h4

theorem sat_evalRecord (dns : Dns) (ss : Sess) (hwf : ss.wf = true) {recurse : List Byte → St → M (Int × St)}
    {st : St} (hrec : RecOk recurse st.queries) (domain rec : List Byte) (hs : StInv st) :
    M.Sat (evalRecord dns ss recurse domain rec st) (Post st) := by
  unfold evalRecord
  split
  · exact M.sat_pure ⟨irPerm, hs, Nat.le_refl _⟩
  · split
    · exact M.sat_pure ⟨irPerm, hs, Nat.le_refl _⟩
    · simp only []
      have hi : LoopInv st.queries ⟨SPF_NONE, SPF_PASS, none, st, false⟩ :=
        ⟨irNone, Or.inl rfl, hs, Nat.le_refl _⟩
      refine M.sat_bind (sat_termLoop dns ss hwf hrec domain rec _ _ _ hi) ?_
      intro ls hls
      refine M.sat_mono (sat_afterLoop dns ss hwf hrec domain rec _ _ hls) ?_
      intro x hx
      exact ⟨hx.1, hx.2.1, by have := hls.2.2.2; have := hx.2.2; omega⟩

theorem sat_spfTxt (dns : Dns) (domain : List Byte) (st : St) : M.Sat (spfTxt dns domain st) (fun _ => True) := by
  unfold spfTxt
  refine M.sat_ite (fun _ => ?_) (fun _ => ?_)
  · refine M.sat_ite (fun _ => M.sat_pure trivial) (fun _ => ?_)
    exact M.sat_bind (sat_dnstxtRecords dns domain) (fun _ _ => M.sat_pure trivial)
  · exact M.sat_bind (sat_txtlookup dns domain) (fun _ _ => M.sat_pure trivial)

/-- spflookup() returns for every zone when it has `limit + 2 − queries` levels of recursion -/
theorem sat_spflookup (dns : Dns) (ss : Sess) (hwf : ss.wf = true) :
    ∀ (fuel : Nat) (domain : List Byte) (st : St), fuel + st.queries ≥ Gen.spfMaxDnsTerms + 2 → st.queries ≤ Gen.spfMaxDnsTerms → StInv st →
      M.Sat (spflookup dns ss fuel domain st) (Post st) := by
  intro fuel
  induction fuel with
  | zero => intro domain st h1 h2 _; omega
  | succ fuel ih =>
    intro domain st h1 h2 hs
    unfold spflookup
    refine M.sat_bind (sat_spfTxt dns domain st) ?_
    intro l _
    split
    · exact M.sat_pure ⟨irPerm, hs, Nat.le_refl _⟩
    · exact M.sat_pure ⟨txtErrCode_inRange _, hs, Nat.le_refl _⟩
    · split
      · exact M.sat_pure ⟨irPerm, hs, Nat.le_refl _⟩
      · exact M.sat_pure ⟨irNone, hs, Nat.le_refl _⟩
      · refine sat_evalRecord dns ss hwf ?_ domain _ hs
        intro d st' hq1 hq2 hs'
        exact ih d st' (by omega) hq2 hs'

theorem stInv_init : StInv ⟨0, none, none, 0⟩ := ⟨by decide, expOk_none⟩

theorem sat_checkHost (dns : Dns) (ss : Sess) (hwf : ss.wf = true) (domain : List Byte) :
    M.Sat (checkHost dns ss domain) (fun x => InRange x.1 ∧ StInv x.2) := by
  unfold checkHost
  simp only [hwf, Bool.not_true, Bool.false_eq_true, if_false]
  refine M.sat_mono (sat_spflookup dns ss hwf fuelEnough domain ⟨0, none, none, 0⟩ (by decide) (by decide) stInv_init) ?_
  intro x hx
  exact ⟨hx.1, hx.2.1⟩

end QsmtpModel.Spf
