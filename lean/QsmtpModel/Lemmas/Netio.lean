import QsmtpModel.Netio
import QsmtpModel.DataFraming

namespace QsmtpModel.Netio
open QsmtpModel

theorem bufSize_eq : bufSize = 1002 := rfl

theorem memchr_none_iff (c : Byte) (l : List Byte) : memchr c l = none ↔ c ∉ l := by
  induction l with
  | nil => simp [memchr]
  | cons x xs ih =>
    unfold memchr
    by_cases h : x = c
    · simp [h]
    · simp only [h, if_false, Option.map_eq_none_iff, ih, List.mem_cons]
      constructor
      · intro hn hm; rcases hm with rfl | hm
        · exact h rfl
        · exact hn hm
      · intro hn hm; exact hn (Or.inr hm)

theorem memchr_append_of_not_mem (c : Byte) (l x : List Byte) (h : c ∉ l) :
    memchr c (l ++ x) = (memchr c x).map (· + l.length) := by
  induction l with
  | nil => simp
  | cons y ys ih =>
    have hy : y ≠ c := fun e => h (e ▸ List.mem_cons_self)
    have hys : c ∉ ys := fun m => h (List.mem_cons_of_mem _ m)
    simp only [List.cons_append, memchr, hy, if_false, ih hys, Option.map_map, List.length_cons]
    congr 1

theorem memchr_some_spec (c : Byte) (l : List Byte) (n : Nat) (h : memchr c l = some n) :
    l[n]? = some c ∧ c ∉ l.take n := by
  induction l generalizing n with
  | nil => simp [memchr] at h
  | cons x xs ih =>
    unfold memchr at h
    split at h
    · rename_i hx; simp at h; subst h; simp [hx]
    · rename_i hx
      cases hm : memchr c xs with
      | none => simp [hm] at h
      | some k =>
        simp [hm] at h; subst h
        obtain ⟨h1, h2⟩ := ih k hm
        refine ⟨by simpa using h1, ?_⟩
        simp only [List.take_succ_cons, List.mem_cons, not_or]
        exact ⟨fun e => hx e.symm, h2⟩

theorem memchr_append_left (c : Byte) (l x : List Byte) (n : Nat) (h : memchr c l = some n) :
    memchr c (l ++ x) = some n := by
  induction l generalizing n with
  | nil => simp [memchr] at h
  | cons y ys ih =>
    unfold memchr at h
    simp only [List.cons_append, memchr]
    split at h
    · rename_i hy; simp [hy]; simpa using h
    · rename_i hy
      cases hm : memchr c ys with
      | none => simp [hm] at h
      | some k => simp [hm] at h; subst h; simp [hy, ih k hm]

/-- A buffer that begins with a CR/LF-free line followed by CRLF: the verdict is "valid". -/
theorem findEol_line (l x : List Byte) (hcr : CR ∉ l) (hlf : LF ∉ l) :
    findEol (l ++ CR :: LF :: x) = (some (l.length + 2), true) := by
  unfold findEol
  have h1 : memchr CR (l ++ CR :: LF :: x) = some l.length := by
    rw [memchr_append_of_not_mem _ _ _ hcr]; simp [memchr]
  have h2 : memchr LF (l ++ CR :: LF :: x) = some (l.length + 1) := by
    rw [memchr_append_of_not_mem _ _ _ hlf]
    have : (CR : Byte) ≠ LF := by decide
    simp [memchr, this]; omega
  rw [h1, h2]; simp

/-- no CR, no LF: `find_eol` returns NULL -/
theorem findEol_clean (l : List Byte) (hcr : CR ∉ l) (hlf : LF ∉ l) : findEol l = (none, false) := by
  unfold findEol
  rw [(memchr_none_iff CR l).mpr hcr, (memchr_none_iff LF l).mpr hlf]

/-- a clean prefix followed by CR as last byte: pointer behind the CR, not valid -/
theorem findEol_cr_end (l : List Byte) (hcr : CR ∉ l) (hlf : LF ∉ l) :
    findEol (l ++ [CR]) = (some (l.length + 1), false) := by
  unfold findEol
  have h1 : memchr CR (l ++ [CR]) = some l.length := by
    rw [memchr_append_of_not_mem _ _ _ hcr]; simp [memchr]
  have h2 : memchr LF (l ++ [CR]) = none := by
    rw [memchr_none_iff]; simp [hlf]; decide
  rw [h1, h2]

end QsmtpModel.Netio

namespace QsmtpModel.Netio
open QsmtpModel

/-- a line the reader accepts: no CR, no LF, fits the buffer together with its CRLF and the
terminating NUL (at most `bufSize - 3` = 999 bytes) -/
def WfLine (l : List Byte) : Prop := CR ∉ l ∧ LF ∉ l ∧ l.length + 2 < bufSize

theorem take_full_le (l tail : List Byte) (n : Nat) (h : n ≤ l.length) :
    (l ++ CR :: LF :: tail).take n = l.take n := by
  rw [List.take_append_of_le_length h]

theorem take_full_succ (l tail : List Byte) :
    (l ++ CR :: LF :: tail).take (l.length + 1) = l ++ [CR] := by
  rw [List.take_append, List.take_of_length_le (by omega)]; simp

theorem take_full_ge (l tail : List Byte) (n : Nat) (h : l.length + 2 ≤ n) :
    (l ++ CR :: LF :: tail).take n = l ++ CR :: LF :: tail.take (n - l.length - 2) := by
  rw [List.take_append]
  have h1 : l.take n = l := List.take_of_length_le (by omega)
  have h2 : n - l.length = (n - l.length - 2) + 2 := by omega
  rw [h1, h2]; simp

theorem read_spec (src : Src) (max : Nat) (hmax : 1 ≤ max) (hne : src.rest ≠ []) :
    (src.read max).1 ≠ [] ∧ (src.read max).1 ++ (src.read max).2.rest = src.rest
      ∧ (src.read max).2.rest.length < src.rest.length ∧ (src.read max).1.length ≤ max := by
  unfold Src.read
  simp only
  have hk : ∀ k, 1 ≤ k → k ≤ max →
      src.rest.take k ≠ [] ∧ src.rest.take k ++ src.rest.drop k = src.rest
        ∧ (src.rest.drop k).length < src.rest.length ∧ (src.rest.take k).length ≤ max := by
    intro k hk1 hk2
    have hl : 0 < src.rest.length := List.length_pos_iff.mpr hne
    refine ⟨?_, List.take_append_drop _ _, ?_, ?_⟩
    · intro h; have := congrArg List.length h; simp only [List.length_take, List.length_nil] at this; omega
    · simp only [List.length_drop]; omega
    · simp only [List.length_take]; omega
  cases hc : src.cuts with
  | nil => simpa using hk max hmax (Nat.le_refl _)
  | cons c cs =>
    simp only
    apply hk
    · split <;> omega
    · exact Nat.min_le_left _ _

end QsmtpModel.Netio

namespace QsmtpModel.Netio
open QsmtpModel

theorem getLast?_append_singleton (l : List Byte) (c : Byte) : (l ++ [c]).getLast? = some c := by
  simp

/-- The read loop on a stream whose next line is well formed: whatever the cuts, it stops exactly
when the line's CRLF is in the buffer (never earlier, never with a wrong verdict). -/
theorem readLoop_wf (fatal : Bool) (l tail : List Byte) (hwf : WfLine l) :
    ∀ (fuel : Nat) (buf : List Byte) (src : Src),
      buf ++ src.rest = l ++ CR :: LF :: tail → buf.length ≤ l.length + 1 → src.rest.length < fuel →
      ∃ buf' src', readLoop fatal buf src fuel = (some buf', src')
        ∧ buf' ++ src'.rest = l ++ CR :: LF :: tail ∧ l.length + 2 ≤ buf'.length := by
  obtain ⟨hcr, hlf, hlen⟩ := hwf
  rw [bufSize_eq] at hlen
  intro fuel
  induction fuel with
  | zero => intro buf src _ _ h; omega
  | succ f ih =>
    intro buf src hsplit hbuf hfuel
    have hfl : (l ++ CR :: LF :: tail).length = l.length + 2 + tail.length := by simp; omega
    have hrl : buf.length + src.rest.length = l.length + 2 + tail.length := by
      rw [← hfl, ← hsplit]; simp
    have hne : src.rest ≠ [] := by
      intro h; rw [h] at hrl; simp at hrl; omega
    unfold readLoop
    have hmax : 1 ≤ bufSize - buf.length - 1 := by rw [bufSize_eq]; omega
    obtain ⟨hd, hcat, hless, _⟩ := read_spec src _ hmax hne
    generalize hrd : src.read (bufSize - buf.length - 1) = rd at hd hcat hless
    obtain ⟨d, src'⟩ := rd
    simp only at hd hcat hless ⊢
    have hdne : d.isEmpty = false := by
      cases d with
      | nil => exact absurd rfl hd
      | cons _ _ => rfl
    rw [hdne]
    simp only [Bool.false_eq_true, if_false]
    have hsplit' : (buf ++ d) ++ src'.rest = l ++ CR :: LF :: tail := by
      rw [List.append_assoc, hcat, hsplit]
    have htake : buf ++ d = (l ++ CR :: LF :: tail).take (buf ++ d).length := by
      rw [← hsplit']
      exact (List.take_left' rfl).symm
    have hdl : 0 < d.length := by
      cases d with
      | nil => exact absurd rfl hd
      | cons _ _ => simp
    by_cases hge : l.length + 2 ≤ (buf ++ d).length
    · -- the CRLF is in the buffer
      rw [take_full_ge _ _ _ hge] at htake
      have hf := findEol_line l (tail.take ((buf ++ d).length - l.length - 2)) hcr hlf
      rw [← htake] at hf
      rw [hf]
      simp only [Bool.not_true, Bool.false_and, Bool.false_or]
      have : (some (l.length + 2) == (none : Option Nat)) = false := rfl
      rw [this]
      simp only [Bool.false_and, Bool.false_eq_true, if_false]
      exact ⟨_, _, rfl, hsplit', hge⟩
    · -- still inside the line (or just behind its CR): read again
      have hlt : (buf ++ d).length ≤ l.length + 1 := by omega
      have hagain : ∀ (p : Option Nat) (v : Bool), findEol (buf ++ d) = (p, v) →
          ((!v && p == some (buf ++ d).length && decide ((buf ++ d).length < bufSize - 1)
              && (buf ++ d).getLast? == some CR)
            || (p == none && decide ((buf ++ d).length < bufSize - 1))) = true := by
        intro p v hpv
        have hsz : (buf ++ d).length < bufSize - 1 := by rw [bufSize_eq]; omega
        by_cases hle : (buf ++ d).length ≤ l.length
        · rw [take_full_le _ _ _ hle] at htake
          have hc1 : CR ∉ buf ++ d := by rw [htake]; exact fun m => hcr (List.mem_of_mem_take m)
          have hc2 : LF ∉ buf ++ d := by rw [htake]; exact fun m => hlf (List.mem_of_mem_take m)
          rw [findEol_clean _ hc1 hc2] at hpv
          cases hpv
          rw [bufSize_eq] at hsz
          simp only [List.length_append] at hsz
          simp; omega
        · have heq : (buf ++ d).length = l.length + 1 := by omega
          rw [heq, take_full_succ] at htake
          have hf := findEol_cr_end l hcr hlf
          rw [← htake] at hf
          rw [hf] at hpv
          cases hpv
          rw [htake]
          simp; omega
      generalize hfe : findEol (buf ++ d) = fe
      obtain ⟨p, v⟩ := fe
      simp only
      rw [hagain p v hfe]
      simp only [if_true]
      apply ih
      · exact hsplit'
      · exact hlt
      · omega

end QsmtpModel.Netio

namespace QsmtpModel.Netio
open QsmtpModel

theorem prefix_eq_take (a b full : List Byte) (h : a ++ b = full) : a = full.take a.length := by
  rw [← h]; exact (List.take_left' rfl).symm

/-- One call of net_read() on a stream whose next line is well formed returns exactly that line,
for every look-ahead state consistent with the stream and every way the rest is cut into reads;
what remains (look-ahead ++ unread) is exactly the rest of the stream. -/
theorem netRead_wf (fatal : Bool) (l tail inn : List Byte) (src : Src) (hwf : WfLine l)
    (hsplit : inn ++ src.rest = l ++ CR :: LF :: tail) :
    ∃ inn' src', netRead fatal inn src = (.line l, inn', src') ∧ inn' ++ src'.rest = tail := by
  have ⟨hcr, hlf, hlen⟩ := hwf
  -- the common tail: read loop + verdict
  have cont : ∀ buf0 : List Byte, buf0 ++ src.rest = l ++ CR :: LF :: tail → buf0.length ≤ l.length + 1 →
      ∃ inn' src', (match readLoop fatal buf0 src (src.rest.length + 1) with
        | (none, src') => ((if fatal then Rd.die .econnreset else Rd.err .econnreset), ([] : List Byte), src')
        | (some buf, src') => verdict buf src') = (.line l, inn', src') ∧ inn' ++ src'.rest = tail := by
    intro buf0 h0 hl0
    obtain ⟨buf', src', hrl, hsp, hge⟩ := readLoop_wf fatal l tail hwf _ buf0 src h0 hl0 (Nat.lt_succ_self _)
    rw [hrl]
    simp only
    have htake := prefix_eq_take _ _ _ hsp
    rw [take_full_ge _ _ _ hge] at htake
    have hf := findEol_line l (tail.take (buf'.length - l.length - 2)) hcr hlf
    rw [← htake] at hf
    unfold verdict
    rw [hf]
    simp only [if_true]
    refine ⟨buf'.drop (l.length + 2), src', ?_, ?_⟩
    · have : buf'.take (l.length + 2 - 2) = l := by
        rw [htake]; simp
      rw [this]
    · have hd : buf'.drop (l.length + 2) ++ src'.rest = tail := by
        have := congrArg (List.drop (l.length + 2)) hsp
        rw [List.drop_append_of_le_length hge] at this
        rw [this]
        have : l.length + 2 = (l ++ [CR, LF]).length := by simp
        rw [this, show l ++ CR :: LF :: tail = (l ++ [CR, LF]) ++ tail by simp, List.drop_left]
      exact hd
  unfold netRead phase1
  by_cases hemp : inn.isEmpty
  · rw [if_pos hemp]
    simp only
    have : inn = [] := List.isEmpty_iff.mp hemp
    subst this
    exact cont [] hsplit (by simp)
  · rw [if_neg hemp]
    have htake := prefix_eq_take _ _ _ hsplit
    by_cases hge : l.length + 2 ≤ inn.length
    · rw [take_full_ge _ _ _ hge] at htake
      have hf := findEol_line l (tail.take (inn.length - l.length - 2)) hcr hlf
      rw [← htake] at hf
      rw [hf]
      simp only [if_true]
      refine ⟨inn.drop (l.length + 2), src, ?_, ?_⟩
      · have : inn.take (l.length + 2 - 2) = l := by rw [htake]; simp
        rw [this]
      · have := congrArg (List.drop (l.length + 2)) hsplit
        rw [List.drop_append_of_le_length hge] at this
        rw [this]
        have : l.length + 2 = (l ++ [CR, LF]).length := by simp
        rw [this, show l ++ CR :: LF :: tail = (l ++ [CR, LF]) ++ tail by simp, List.drop_left]
    · by_cases hle : inn.length ≤ l.length
      · rw [take_full_le _ _ _ hle] at htake
        have hc1 : CR ∉ inn := by rw [htake]; exact fun m => hcr (List.mem_of_mem_take m)
        have hc2 : LF ∉ inn := by rw [htake]; exact fun m => hlf (List.mem_of_mem_take m)
        rw [findEol_clean _ hc1 hc2]
        simp only
        exact cont inn hsplit (by omega)
      · have heq : inn.length = l.length + 1 := by omega
        rw [heq, take_full_succ] at htake
        have hf := findEol_cr_end l hcr hlf
        rw [← htake] at hf
        rw [hf]
        have h1 : (inn.getLast? == some CR && l.length + 1 == inn.length) = true := by
          rw [htake]; simp
        simp only [Bool.false_eq_true, if_false, h1, if_true]
        exact cont inn hsplit (by omega)

end QsmtpModel.Netio

namespace QsmtpModel.Netio
open QsmtpModel

/-- wire form of a list of lines -/
def wire (ls : List (List Byte)) : List Byte := (ls.map (· ++ [CR, LF])).flatten

def endMarker (fatal : Bool) : Rd := if fatal then .die .econnreset else .err .econnreset

theorem netRead_eof (fatal : Bool) (cuts : List Nat) :
    ∃ src', netRead fatal [] { rest := [], cuts := cuts } = (endMarker fatal, [], src') := by
  unfold netRead phase1 readLoop Src.read endMarker
  simp

theorem readAll_wf (fatal : Bool) (ls : List (List Byte)) (hwf : ∀ l ∈ ls, WfLine l) :
    ∀ (fuel : Nat) (inn : List Byte) (src : Src), inn ++ src.rest = wire ls → ls.length < fuel →
      readAll fatal inn src fuel = ls.map Rd.line ++ [endMarker fatal] := by
  induction ls with
  | nil =>
    intro fuel inn src h hf
    simp only [wire, List.map_nil, List.flatten_nil, List.append_eq_nil_iff] at h
    obtain ⟨rfl, hr⟩ := h
    cases fuel with
    | zero => simp at hf
    | succ f =>
      obtain ⟨cuts, rest⟩ : ∃ c r, src = { rest := r, cuts := c } := ⟨src.cuts, src.rest, rfl⟩
      obtain ⟨r, rfl⟩ := rest
      simp only at hr; subst hr
      obtain ⟨src', he⟩ := netRead_eof fatal cuts
      unfold readAll
      rw [he]
      unfold endMarker
      cases fatal <;> simp
  | cons l ls ih =>
    intro fuel inn src h hf
    cases fuel with
    | zero => simp at hf
    | succ f =>
      have hw : WfLine l := hwf l List.mem_cons_self
      have h' : inn ++ src.rest = l ++ CR :: LF :: wire ls := by
        rw [h]; simp [wire]
      obtain ⟨inn', src', hr, hrest⟩ := netRead_wf fatal l (wire ls) inn src hw h'
      unfold readAll
      rw [hr]
      simp only [List.map_cons, List.cons_append]
      rw [ih (fun x hx => hwf x (List.mem_cons_of_mem _ hx)) f inn' src' hrest (by simp at hf; omega)]

end QsmtpModel.Netio

namespace QsmtpModel.Netio
open QsmtpModel

theorem split_at_two (b : List Byte) (n : Nat) (x y : Byte) (h1 : b[n]? = some x) (h2 : b[n + 1]? = some y) :
    b = b.take n ++ x :: y :: b.drop (n + 2) := by
  induction b generalizing n with
  | nil => simp at h1
  | cons z zs ih =>
    cases n with
    | zero =>
      simp at h1 h2
      cases zs with
      | nil => simp at h2
      | cons w ws => simp at h2; simp [h1, h2]
    | succ m =>
      simp only [List.getElem?_cons_succ] at h1 h2
      have := ih m h1 h2
      simp only [List.take_succ_cons, List.cons_append, List.drop_succ_cons]
      rw [← this]

/-- `valid` is only ever reported for a CR/LF-free prefix followed by CRLF. -/
theorem findEol_valid_spec' (b : List Byte) (p : Nat) (h : findEol b = (some p, true)) :
    ∃ l x, b = l ++ CR :: LF :: x ∧ p = l.length + 2 ∧ CR ∉ l ∧ LF ∉ l := by
  unfold findEol at h
  cases hcr : memchr CR b with
  | none =>
    cases hlf : memchr LF b <;> simp [hcr, hlf] at h
  | some cr =>
    cases hlf : memchr LF b with
    | none => simp [hcr, hlf] at h
    | some lf =>
      simp only [hcr, hlf] at h
      split at h
      · rename_i heq
        simp only [Prod.mk.injEq, Option.some.injEq, and_true] at h
        obtain ⟨c1, c2⟩ := memchr_some_spec _ _ _ hcr
        obtain ⟨l1, l2⟩ := memchr_some_spec _ _ _ hlf
        subst heq
        refine ⟨b.take cr, b.drop (cr + 2), split_at_two b cr CR LF c1 l1, ?_, c2, ?_⟩
        · have : cr < b.length := memchr_lt' _ _ _ hcr
          simp; omega
        · intro hm
          apply l2
          rw [List.take_succ]
          exact List.mem_append_left _ hm
      · split at h
        · split at h <;> simp at h
        · split at h <;> simp at h
where
  memchr_lt' (c : Byte) (l : List Byte) (n : Nat) (h : memchr c l = some n) : n < l.length := by
    have := (memchr_some_spec c l n h).1
    exact (List.getElem?_eq_some_iff.mp this).1

/-- first LF at index `k`: the discard of an over-long line ends right behind it, whatever the cuts -/
theorem loopLong_spec (pre tail : List Byte) (hpre : LF ∉ pre) :
    ∀ (fuel : Nat) (src : Src), src.rest = pre ++ LF :: tail → src.rest.length < fuel →
      ∃ inn' src', loopLong src fuel = (.err .e2big, inn', src') ∧ inn' ++ src'.rest = tail := by
  intro fuel
  induction fuel generalizing pre with
  | zero => intro src _ h; omega
  | succ f ih =>
    intro src hs hf
    unfold loopLong
    have hne : src.rest ≠ [] := by rw [hs]; simp
    obtain ⟨hd, hcat, hless, _⟩ := read_spec src (bufSize - 1) (by rw [bufSize_eq]; omega) hne
    generalize src.read (bufSize - 1) = rd at hd hcat hless
    obtain ⟨d, src'⟩ := rd
    simp only at hd hcat hless ⊢
    have hdne : d.isEmpty = false := by
      cases d with
      | nil => exact absurd rfl hd
      | cons _ _ => rfl
    rw [hdne]
    simp only [Bool.false_eq_true, if_false]
    have htake := prefix_eq_take _ _ _ hcat
    rw [hs] at htake
    by_cases hle : d.length ≤ pre.length
    · -- no LF read yet
      rw [List.take_append_of_le_length hle] at htake
      have hnl : LF ∉ d := by rw [htake]; exact fun m => hpre (List.mem_of_mem_take m)
      rw [(memchr_none_iff LF d).mpr hnl]
      simp only
      have hrest : src'.rest = pre.drop d.length ++ LF :: tail := by
        have := congrArg (List.drop d.length) hcat
        rw [List.drop_left, hs, List.drop_append_of_le_length hle] at this
        exact this
      exact ih (pre.drop d.length) (fun m => hpre (List.mem_of_mem_drop m)) src' hrest (by omega)
    · have hd2 : d = pre ++ LF :: tail.take (d.length - pre.length - 1) := by
        rw [htake, List.take_append, List.take_of_length_le (by omega)]
        have : d.length - pre.length = (d.length - pre.length - 1) + 1 := by omega
        rw [this]; simp
      have hm : memchr LF d = some pre.length := by
        rw [hd2, memchr_append_of_not_mem _ _ _ hpre]; simp [memchr]
      rw [hm]
      simp only
      refine ⟨_, _, rfl, ?_⟩
      have := congrArg (List.drop (pre.length + 1)) hcat
      rw [List.drop_append_of_le_length (by omega), hs] at this
      rw [this]
      have : pre.length + 1 = (pre ++ [LF]).length := by simp
      rw [this, show pre ++ LF :: tail = (pre ++ [LF]) ++ tail by simp, List.drop_left]

end QsmtpModel.Netio

namespace QsmtpModel.DataFraming
open QsmtpModel QsmtpModel.Netio

/-- once a reader error occurred the message can no longer be queued -/
theorem dataPhase_queued (fuel : Nat) : ∀ (inn : List Byte) (src : Src) (dr : Bool) (acc : List (List Byte)) (errs : Nat)
    (le : Bool) (first : Option Errno),
    (dataPhase inn src dr acc errs le first fuel).verdict = .queued →
      dr = false ∧ (dataPhase inn src dr acc errs le first fuel).errors = errs := by
  induction fuel with
  | zero => intro inn src dr acc errs le first h; simp [dataPhase] at h
  | succ f ih =>
    intro inn src dr acc errs le first h
    unfold dataPhase at h ⊢
    generalize netRead true inn src = r at h ⊢
    obtain ⟨rd, inn', src'⟩ := r
    cases rd with
    | die e => simp at h
    | err e =>
      simp only at h ⊢
      have := ih inn' src' true acc (errs + 1) true _ h
      exact absurd this.1 (by simp)
    | line l =>
      simp only at h ⊢
      split at h
      · rename_i hl
        simp only [hl, if_true]
        cases dr <;> simp_all
      · rename_i hl
        simp only [hl, if_false]
        exact ih inn' src' dr _ errs false first h

/-- a payload of well-formed lines followed by the terminator: queued, with exactly these lines, for
every state of the look-ahead buffer and every cut schedule; what follows is left untouched -/
theorem dataPhase_wf (ls : List (List Byte)) (hwf : ∀ l ∈ ls, WfLine l) (hnd : ∀ l ∈ ls, l ≠ [DOT]) (tail : List Byte) :
    ∀ (fuel : Nat) (inn : List Byte) (src : Src) (acc : List (List Byte)) (first : Option Errno) (le : Bool),
      inn ++ src.rest = wire (ls ++ [[DOT]]) ++ tail → ls.length < fuel →
      ∃ inn' src', dataPhase inn src false acc 0 le first fuel =
          { verdict := .queued, lines := acc ++ ls, inn := inn', src := src', errors := 0, firstErr := first,
            termAfterError := if ls = [] then le else false }
        ∧ inn' ++ src'.rest = tail := by
  have hdot : WfLine [DOT] := ⟨by decide, by decide, by decide⟩
  induction ls with
  | nil =>
    intro fuel inn src acc first le h hf
    cases fuel with
    | zero => simp at hf
    | succ f =>
      have h' : inn ++ src.rest = [DOT] ++ CR :: LF :: tail := by simpa [wire] using h
      obtain ⟨inn', src', hr, hrest⟩ := netRead_wf true [DOT] tail inn src hdot h'
      refine ⟨inn', src', ?_, hrest⟩
      unfold dataPhase
      rw [hr]
      simp
  | cons l ls ih =>
    intro fuel inn src acc first le h hf
    cases fuel with
    | zero => simp at hf
    | succ f =>
      have hw : WfLine l := hwf l List.mem_cons_self
      have h' : inn ++ src.rest = l ++ CR :: LF :: (wire (ls ++ [[DOT]]) ++ tail) := by
        rw [h]; simp [wire]
      obtain ⟨inn1, src1, hr, hrest⟩ := netRead_wf true l _ inn src hw h'
      obtain ⟨inn', src', hd, hfin⟩ := ih (fun x hx => hwf x (List.mem_cons_of_mem _ hx))
        (fun x hx => hnd x (List.mem_cons_of_mem _ hx)) f inn1 src1 (acc ++ [l]) first false hrest (by simp at hf; omega)
      refine ⟨inn', src', ?_, hfin⟩
      unfold dataPhase
      rw [hr]
      have hne : l ≠ [DOT] := hnd l List.mem_cons_self
      simp only [hne, if_false, Bool.false_eq_true]
      rw [hd]
      simp

end QsmtpModel.DataFraming
