/-
Helper lemmas for C06: soundness of need_recode() — when it reports no long line every line has at
most 998 bytes (including a last, unterminated one), when it does not report 8 bit data every byte
is in 1..127.
-/
import QsmtpModel.Lemmas.QrPlain

set_option linter.unusedSimpArgs false
set_option linter.unusedVariables false

namespace QsmtpModel.QrData
open QsmtpModel QsmtpModel.Mime QsmtpModel.Spec

theorem maxLine_eq : Gen.needRecodeMaxLine = 998 := rfl
theorem shortRest_eq : Gen.needRecodeShortRest = 998 := rfl

/-- every line of the raw text (CR and LF both end a line) has at most `n` bytes, the first one
counted from `cur` -/
def LinesLe (n : Nat) : Nat → List Byte → Prop
  | cur, [] => cur ≤ n
  | cur, c :: rest => if c = CR ∨ c = LF then cur ≤ n ∧ LinesLe n 0 rest else LinesLe n (cur + 1) rest

theorem linesLe_of_short (n : Nat) (l : List Byte) : ∀ cur, cur + l.length ≤ n → LinesLe n cur l := by
  induction l with
  | nil => intro cur h; simpa [LinesLe] using h
  | cons c rest ih =>
    intro cur h
    simp only [List.length_cons] at h
    unfold LinesLe
    split
    · exact ⟨by omega, ih 0 (by omega)⟩
    · exact ih (cur + 1) (by omega)

theorem long_ll (f : Flags) (b : Bool) : (f.long b).ll = true ∨ (f.long b).lh = true := by
  unfold Flags.long; split <;> simp

/-- flags only grow -/
theorem needRecodeGo_mono (buf : List Byte) (pos llen : Nat) (inBody : Bool) (res : Flags) :
    (res.ll = true → (needRecodeGo buf pos llen inBody res).ll = true)
    ∧ (res.lh = true → (needRecodeGo buf pos llen inBody res).lh = true)
    ∧ (res.e8 = true → (needRecodeGo buf pos llen inBody res).e8 = true) := by
  fun_induction needRecodeGo buf pos llen inBody res
  case case1 => unfold Flags.long; split <;> simp
  case case2 => simp
  case case7 => unfold Flags.long; split <;> simp
  case case8 => simp
  case case3 res0 _ c _ res _ ih =>
    have hr : (res0.ll = true → res.ll = true) ∧ (res0.lh = true → res.lh = true) ∧ (res0.e8 = true → res.e8 = true) := by
      simp only [res]; split <;> (try unfold Flags.long) <;> (try split) <;> simp
    exact ⟨fun h => ih.1 (hr.1 h), fun h => ih.2.1 (hr.2.1 h), fun _ => ih.2.2 rfl⟩
  case case4 res0 _ c _ res _ _ pos _ =>
    simp only [res]; split <;> (try unfold Flags.long) <;> (try split) <;> simp
  case case5 res0 _ c _ res _ _ pos inb _ ih =>
    have hr : (res0.ll = true → res.ll = true) ∧ (res0.lh = true → res.lh = true) ∧ (res0.e8 = true → res.e8 = true) := by
      simp only [res]; split <;> (try unfold Flags.long) <;> (try split) <;> simp
    exact ⟨fun h => ih.1 (hr.1 h), fun h => ih.2.1 (hr.2.1 h), fun h => ih.2.2 (hr.2.2 h)⟩
  case case6 res0 _ c _ res _ _ ih =>
    have hr : (res0.ll = true → res.ll = true) ∧ (res0.lh = true → res.lh = true) ∧ (res0.e8 = true → res.e8 = true) := by
      simp only [res]; split <;> (try unfold Flags.long) <;> (try split) <;> simp
    exact ⟨fun h => ih.1 (hr.1 h), fun h => ih.2.1 (hr.2.1 h), fun h => ih.2.2 (hr.2.2 h)⟩


theorem drop_of_none {buf : List Byte} {i : Nat} (h : buf[i]? = none) : buf.drop i = [] := by
  apply List.drop_eq_nil_of_le; exact List.getElem?_eq_none_iff.mp h

theorem sbyte_eol (c : Byte) (h : c = CR ∨ c = LF) : ¬ sbyte c ≤ 0 := by
  rcases h with rfl | rfl <;> decide

theorem le_of_noflags (res0 : Flags) (inBody : Bool) (llen : Nat) (f : Flags)
    (h1 : (if llen > Gen.needRecodeMaxLine then res0.long inBody else res0).ll = true → f.ll = true)
    (h2 : (if llen > Gen.needRecodeMaxLine then res0.long inBody else res0).lh = true → f.lh = true)
    (hl : f.ll = false) (hh : f.lh = false) : llen ≤ 998 := by
  by_cases hgt : llen > Gen.needRecodeMaxLine
  · simp only [hgt, if_true] at h1 h2
    rcases long_ll res0 inBody with h | h
    · have := h1 h; simp_all
    · have := h2 h; simp_all
  · rw [maxLine_eq] at hgt; omega

/-- if need_recode() reports no long line there is none: every line from `pos` on (the current one
counted from `llen`) has at most 998 bytes -/
theorem needRecodeGo_lines (buf : List Byte) (pos llen : Nat) (inBody : Bool) (res : Flags)
    (hl : (needRecodeGo buf pos llen inBody res).ll = false)
    (hh : (needRecodeGo buf pos llen inBody res).lh = false) :
    LinesLe 998 llen (buf.drop pos) := by
  fun_induction needRecodeGo buf pos llen inBody res
  case case1 => have := long_ll ‹Flags› ‹Bool›; simp_all
  case case2 hn hlen =>
    rw [drop_of_none hn]; simp only [LinesLe]; rw [maxLine_eq] at hlen; omega
  case case7 => have := long_ll ‹Flags› ‹Bool›; simp_all
  case case8 h _ => simp at h; simp_all
  case case3 pos llen inBody res0 _ c hc res hs ih =>
    have hm := needRecodeGo_mono buf (pos + 1) (llen + 1) inBody { e8 := true, ll := res.ll, lh := res.lh }
    have hle : llen ≤ 998 := le_of_noflags res0 inBody llen _ (by simpa [res] using hm.1) (by simpa [res] using hm.2.1) hl hh
    rw [drop_of_get hc]
    unfold LinesLe
    have hne : ¬ (c = CR ∨ c = LF) := fun h => sbyte_eol c h hs
    simp only [hne, if_false]
    exact ih hl hh
  case case6 pos llen inBody res0 _ c hc res hs hne ih =>
    have hm := needRecodeGo_mono buf (pos + 1) (llen + 1) inBody res
    have hle : llen ≤ 998 := le_of_noflags res0 inBody llen _ (by simpa [res] using hm.1) (by simpa [res] using hm.2.1) hl hh
    rw [drop_of_get hc]
    unfold LinesLe
    simp only [hne, if_false]
    exact ih hl hh
  case case4 pos0 llen inBody res0 _ c hc res hs heol pos hshort =>
    have hle : llen ≤ 998 := le_of_noflags res0 inBody llen res (by simp [res]) (by simp [res]) hl hh
    rw [drop_of_get hc]
    unfold LinesLe
    simp only [heol, if_true]
    refine ⟨hle, linesLe_of_short _ _ _ ?_⟩
    rw [shortRest_eq] at hshort
    have : pos0 ≤ pos ∧ pos ≤ pos0 + 1 := by simp only [pos]; split <;> omega
    simp; omega
  case case5 pos0 llen inBody0 res0 _ c hc res hs heol pos inBody hshort ih =>
    have hm := needRecodeGo_mono buf (pos + 1) 0 inBody res
    have hle : llen ≤ 998 := le_of_noflags res0 inBody0 llen _ (by simpa [res] using hm.1) (by simpa [res] using hm.2.1) hl hh
    rw [drop_of_get hc]
    unfold LinesLe
    simp only [heol, if_true]
    refine ⟨hle, ?_⟩
    have ih' := ih hl hh
    by_cases hp : c = CR ∧ buf[pos0 + 1]? = some LF
    · have hpos : pos = pos0 + 1 := by simp [pos, hp]
      rw [hpos] at ih'
      rw [drop_of_get hp.2]
      unfold LinesLe
      simp only [or_true, if_true]
      exact ⟨by omega, ih'⟩
    · have hpos : pos = pos0 := by simp [pos, hp]
      rw [hpos] at ih'
      exact ih'


theorem long_e8 (f : Flags) (b : Bool) : (f.long b).e8 = f.e8 := by
  unfold Flags.long; split <;> rfl

/-- if need_recode() does not report `recode_8bit`, every byte from `pos` on is in 1..127 -/
theorem needRecodeGo_7bit (buf : List Byte) (pos llen : Nat) (inBody : Bool) (res : Flags)
    (he : (needRecodeGo buf pos llen inBody res).e8 = false) :
    ∀ b ∈ buf.drop pos, 0 < sbyte b := by
  fun_induction needRecodeGo buf pos llen inBody res
  case case1 hn _ => rw [drop_of_none hn]; simp
  case case2 hn _ => rw [drop_of_none hn]; simp
  case case7 h _ => simp at h; rw [long_e8] at he; simp_all
  case case8 h _ => simp at h; simp_all
  case case3 pos llen inBody res0 _ c hc res hs ih =>
    have hm := needRecodeGo_mono buf (pos + 1) (llen + 1) inBody { e8 := true, ll := res.ll, lh := res.lh }
    have := hm.2.2 rfl
    simp_all
  case case4 pos0 llen inBody res0 _ c hc res hs heol pos hshort =>
    simp_all
  case case6 pos llen inBody res0 _ c hc res hs hne ih =>
    rw [drop_of_get hc]
    intro b hb
    simp only [List.mem_cons] at hb
    rcases hb with rfl | hb
    · omega
    · exact ih he b hb
  case case5 pos0 llen inBody0 res0 _ c hc res hs heol pos inBody hshort ih =>
    have ih' := ih he
    rw [drop_of_get hc]
    intro b hb
    simp only [List.mem_cons] at hb
    rcases hb with rfl | hb
    · omega
    · by_cases hp : c = CR ∧ buf[pos0 + 1]? = some LF
      · have hpos : pos = pos0 + 1 := by simp [pos, hp]
        rw [hpos] at ih'
        rw [drop_of_get hp.2] at hb
        simp only [List.mem_cons] at hb
        rcases hb with rfl | hb
        · decide
        · exact ih' b hb
      · have hpos : pos = pos0 := by simp [pos, hp]
        rw [hpos] at ih'
        exact ih' b hb

theorem needRecode_lines (m : List Byte) (hl : (needRecode m).ll = false) (hh : (needRecode m).lh = false) :
    LinesLe 998 0 m := by
  simpa using needRecodeGo_lines m 0 0 false {} hl hh

theorem needRecode_7bit (m : List Byte) (he : (needRecode m).e8 = false) : ∀ b ∈ m, 0 < sbyte b := by
  simpa using needRecodeGo_7bit m 0 0 false {} he

end QsmtpModel.QrData
