/-
What quitmsg(), tls_init() and one pass of connect_mx() establish (property C18), for the code with
the three repairs in place (`Fixed`).
-/
import QsmtpModel.Lemmas.StartTlsPhases
import QsmtpModel.Lemmas.StartTlsSim

namespace QsmtpModel.StartTlsCli
open QsmtpModel QsmtpModel.Spec.StartTls

/-- the code as repaired: pending input ends the upgrade, leaving a host keeps the route settings,
a dropped connection takes its TLS session with it -/
def Fixed (cfg : Cfg) : Prop := cfg.pendingCheck = true ∧ cfg.quitKeepsRoute = true ∧ cfg.closeFreesTls = true

variable {cfg : Cfg} {h : Host} {k : Nat} {base : List Ev} {e c : Bool}

/-! ### giving a connection up -/

theorem PreP.down {s : S} (hp : PreP h k base e c s) : PostP h k base e c { s with ssl := false, sock := false } :=
  ⟨hp.1.same rfl rfl rfl rfl rfl, rfl, 0, by show tlsReads k s.trace = _; rw [hp.2.2.2]; rfl⟩

theorem PostP.down {s : S} (hp : PostP h k base e c s) : PostP h k base e c { s with ssl := false, sock := false } :=
  ⟨hp.1.same rfl rfl rfl rfl rfl, rfl, hp.2.2⟩

theorem TlsP.down {s : S} (hp : TlsP h k base e c s) : PostP h k base e c { s with ssl := false, sock := false } := by
  obtain ⟨hc, _, _, _, n, hr, _⟩ := hp
  exact ⟨hc.same rfl rfl rfl rfl rfl, rfl, n, hr⟩

theorem quitmsg_post (hf : Fixed cfg) {P : S → Prop} (st : Stable P (XP h k base))
    (hdown : ∀ s, P s → PostP h k base e c { s with ssl := false, sock := false }) (s : S) (hs : P s) :
    (quitmsg cfg s).sat (fun _ s' => PostP h k base e c s') (XP h k base) := by
  unfold quitmsg
  refine sat_bind (netnwrite_sat st _ s hs) ?_
  intro _ s1 h1
  refine sat_bind (quitLoop_sat st _ s1 h1) ?_
  intro _ s2 h2
  simp only [hf.2.1, if_true, sat_ret]
  exact hdown s2 h2

theorem dropConn_post (hf : Fixed cfg) {P : S → Prop}
    (hdown : ∀ s, P s → PostP h k base e c { s with ssl := false, sock := false }) (s : S) (hs : P s) :
    PostP h k base e c (dropConn cfg s) := by
  unfold dropConn
  simp only [hf.2.2, if_true]
  exact hdown s hs

theorem quitmsgIfNet_post (hf : Fixed cfg) {P : S → Prop} (st : Stable P (XP h k base))
    (hdown : ∀ s, P s → PostP h k base e c { s with ssl := false, sock := false }) (err : Int) (s : S) (hs : P s) :
    (quitmsgIfNet cfg err s).sat (fun _ s' => PostP h k base e c s') (XP h k base) := by
  unfold quitmsgIfNet
  split
  · exact dropConn_post hf hdown s hs
  · exact quitmsg_post hf st hdown s hs

theorem shutdownClean_x {α : Type} (hf : Fixed cfg) {P : S → Prop} (st : Stable P (XP h k base))
    (hdown : ∀ s, P s → PostP h k base e c { s with ssl := false, sock := false }) (s : S) (hs : P s) (R : α → S → Prop) :
    (shutdownClean cfg s : Out α).sat R (XP h k base) := by
  unfold shutdownClean
  split
  · refine sat_bind (R' := fun _ s' => PostP h k base e c s') (quitmsg_post hf st hdown s hs) ?_
    intro _ s1 h1
    exact h1.toX
  · exact XP.down s (st.px s hs) |> fun hx => by simpa using (show XP h k base { s with ssl := false } from hx)

/-! ### tls_init -/

/-- what a successful `tls_init()` leaves behind -/
structure Upgraded (cfg : Cfg) (h : Host) (a : TlsaAns) (s : S) : Prop where
  inn : s.inn = []
  tls : s.tls = h.tls
  hsok : 0 ≤ h.handshake
  nopending : h.sslPending = false
  verified : (pinActive h = true ∨ tlsaUsableCount a > 0) → h.verified = true

theorem PreP.hs {s : S} (hp : PreP h k base e c s) (r : Int) :
    PreP h k base e c { s with trace := s.trace ++ [.hs s.k r] } := by
  obtain ⟨hc, hs, ht, hr⟩ := hp
  refine ⟨hc.snoc (.hs s.k r) (by simp [evK, hc.hk]) ?_ rfl rfl rfl rfl rfl, hs, ht, ?_⟩
  · exact owned_snoc_clear _ _ hc.own (by intro k r h; cases h) (by intro k x h; cases h)
  · show tlsReads k (s.trace ++ [.hs s.k r]) = []
    rw [tlsReads_append, hr]; simp

theorem okAfter_hs_ok (tr : List Ev) (k : Nat) (r : Int) (hr : 0 ≤ r) : (okAfter [] (tr ++ [.hs k r])).contains k = true := by
  rw [okAfter_append]
  simp [okAfter, hr]

theorem tlsInit_spec (hf : Fixed cfg) (a : TlsaAns) (s : S) (hs : PreP h k base e c s) :
    (tlsInit cfg h a s).sat
      (fun r s' => (r = 0 → TlsP h k base e c s' ∧ Upgraded cfg h a s') ∧ (r ≠ 0 → PreP h k base e c s' ∨ TlsP h k base e c s'))
      (XP h k base) := by
  have st := stable_pre h k base e c
  unfold tlsInit
  split
  · simp only [sat_ret]
    refine ⟨by intro h0; simp at h0, fun _ => Or.inl ?_⟩
    obtain ⟨hc, h1, h2, h3⟩ := hs
    exact ⟨hc.same rfl rfl rfl rfl rfl, h1, h2, h3⟩
  · refine sat_bind (netnwrite_sat st _ s hs) ?_
    intro _ s1 h1
    refine sat_bind (netget0_sat st s1 h1) ?_
    intro i0 s2 h2
    refine sat_bind (starttlsLoop_sat st _ i0 s2 h2) ?_
    intro i s3 h3
    split
    · rename_i hne
      simp only [sat_ret]
      refine ⟨?_, fun _ => Or.inl h3⟩
      intro h0
      exfalso
      split at h0
      · rename_i hneg; omega
      · simp [EDONE] at h0
    · have h4 := h3.hs h.handshake
      simp only []
      split
      · rename_i hneg
        simp only [sat_ret]
        exact ⟨fun h0 => by omega, fun _ => Or.inl h4⟩
      · rename_i hnn
        split
        · simp only [sat_ret]
          exact ⟨fun h0 => by simp [EDONE] at h0, fun _ => Or.inl h4⟩
        · rename_i hnp
          -- the upgrade: the session becomes active
          have hpend : dataPending h { s3 with trace := s3.trace ++ [.hs s3.k h.handshake] } = false := by
            have := hf.1
            simp only [this, true_and] at hnp
            simpa using hnp
          have hinn : s3.inn = [] := by
            unfold dataPending at hpend
            simp only [Bool.or_eq_false_iff, Bool.not_eq_false'] at hpend
            simpa using hpend.1
          have hnop : h.sslPending = false := by
            unfold dataPending at hpend
            simp only [Bool.or_eq_false_iff] at hpend
            exact hpend.2
          obtain ⟨hc, hssl, htls, hrd⟩ := h4
          have hk3 : s3.k = k := by simpa using hc.hk
          have htp : TlsP h k base e c { s3 with trace := s3.trace ++ [.hs s3.k h.handshake], ssl := true, sslK := s3.k } := by
            refine ⟨hc.same rfl rfl rfl rfl rfl, rfl, hk3, ?_, 0, ?_, ?_⟩
            · show (okAfter [] (s3.trace ++ [.hs s3.k h.handshake])).contains k = true
              rw [hk3]; exact okAfter_hs_ok _ _ _ (by omega)
            · simpa [readSeq] using hrd
            · simp only [rdState]
              show ([], h.tls) = (s3.inn, s3.tls)
              rw [hinn]; congr 1; exact htls.symm
          split
          · simp only [sat_ret]
            exact ⟨fun h0 => by simp [EDONE] at h0, fun _ => Or.inr htp⟩
          · rename_i hver
            simp only [sat_ret]
            refine ⟨fun _ => ⟨htp, ⟨hinn, htls, by omega, hnop, ?_⟩⟩, fun h0 => absurd rfl h0⟩
            intro hneed
            by_cases hv : h.verified = true
            · exact hv
            · exact absurd ⟨by simpa using hneed, hv⟩ hver

/-! ### one pass of connect_mx() -/

/-- what holds when connect_mx() returns 0 with the connection to host `k` -/
structure ConnOk (cfg : Cfg) (h : Host) (k : Nat) (s : S) : Prop where
  tls : s.ssl = true → 0 ≤ h.handshake ∧ h.sslPending = false
      ∧ ((pinActive h = true ∨ tlsaUsableCount (lookupTlsa cfg) > 0) → h.verified = true)
      ∧ extInTls cfg.helo k h = some s.ext
  clear : s.ssl = false → s.expectTls = false ∧ (lookupTlsa cfg).res ≤ 0 ∧ (s.ext / Gen.Qr.extStarttls) % 2 ≠ 1

theorem PreP.ext {s : S} (hp : PreP h k base e c s) (x : Nat) : PreP h k base e c { s with ext := x } :=
  ⟨hp.1.same rfl rfl rfl rfl rfl, hp.2.1, hp.2.2.1, hp.2.2.2⟩

theorem TlsP.ext {s : S} (hp : TlsP h k base e c s) (x : Nat) : TlsP h k base e c { s with ext := x } := by
  obtain ⟨hc, h1, h2, h3, h4⟩ := hp
  exact ⟨hc.same rfl rfl rfl rfl rfl, h1, h2, h3, h4⟩

theorem sim_fresh {s : S} (hp : TlsP h k base e c s) (hu : s.inn = []) (ht : s.tls = h.tls) : Sim s (freshTls k h) := by
  obtain ⟨hc, h1, h2, _, _⟩ := hp
  refine ⟨h1, rfl, by rw [h2, hc.hk], rfl, hu, ht, hc.tend⟩

theorem connectHost_spec (hf : Fixed cfg) (s0 : S) (hs : PreP h k base e c s0) :
    (connectHost cfg h s0).sat
      (fun ok s' => (ok = true → (PreP h k base e c s' ∨ TlsP h k base e c s') ∧ ConnOk cfg h k s') ∧ (ok = false → PostP h k base e c s'))
      (XP h k base) := by
  have st := stable_pre h k base e c
  have stt := stable_tls h k base e c
  unfold connectHost
  simp only []
  refine sat_bind (netget0_sat st s0 hs) ?_
  intro sc s1 h1
  split
  · -- no usable banner
    split
    · simp only [sat_ret]
      exact ⟨fun hh => by simp at hh, fun _ => dropConn_post hf (fun s hp => PreP.down hp) s1 h1⟩
    · split
      · refine sat_bind (quitmsgIfNet_post hf st (fun s hp => PreP.down hp) sc s1 h1) ?_
        intro _ s2 h2
        exact ⟨fun hh => by simp at hh, fun _ => h2⟩
      · refine sat_bind (quitmsg_post hf st (fun s hp => PreP.down hp) s1 h1) ?_
        intro _ s2 h2
        exact ⟨fun hh => by simp at hh, fun _ => h2⟩
  · refine sat_bind (bannerLoop_sat st _ sc false s1 h1) ?_
    intro r s2 h2
    obtain ⟨sc2, flagerr⟩ := r
    simp only []
    split
    · simp only [sat_ret]
      exact ⟨fun hh => by simp at hh, fun _ => dropConn_post hf (fun s hp => PreP.down hp) s2 h2⟩
    · split
      · refine sat_bind (quitmsgIfNet_post hf st (fun s hp => PreP.down hp) sc2 s2 h2) ?_
        intro _ s3 h3
        exact ⟨fun hh => by simp at hh, fun _ => h3⟩
      · refine sat_bind (greeting_sat st cfg.helo s2 h2) ?_
        intro fe s3 h3
        split
        · refine sat_bind (quitmsgIfNet_post hf st (fun s hp => PreP.down hp) fe s3 h3) ?_
          intro _ s4 h4
          exact ⟨fun hh => by simp at hh, fun _ => h4⟩
        · have h4 := h3.ext fe.toNat
          split
          · -- STARTTLS offered
            refine sat_bind (tlsInit_spec hf (lookupTlsa cfg) _ h4) ?_
            intro tr s5 h5
            split
            · -- local error: the program ends
              have hne : tr ≠ 0 := by omega
              rcases h5.2 hne with hp | hp
              · exact shutdownClean_x hf st (fun s hp => PreP.down hp) s5 hp _
              · exact shutdownClean_x hf stt (fun s hp => TlsP.down hp) s5 hp _
            · split
              · rename_i hne
                rcases h5.2 hne with hp | hp
                · refine sat_bind (quitmsgIfNet_post hf st (fun s hp => PreP.down hp) _ s5 hp) ?_
                  intro _ s6 h6
                  exact ⟨fun hh => by simp at hh, fun _ => h6⟩
                · refine sat_bind (quitmsgIfNet_post hf stt (fun s hp => TlsP.down hp) _ s5 hp) ?_
                  intro _ s6 h6
                  exact ⟨fun hh => by simp at hh, fun _ => h6⟩
              · rename_i h0
                have h0' : tr = 0 := by omega
                obtain ⟨htp, hup⟩ := h5.1 h0'
                refine sat_bind_eq (greeting_sat stt cfg.helo s5 htp) ?_
                intro fe2 s6 hgreet h6
                split
                · refine sat_bind (quitmsgIfNet_post hf stt (fun s hp => TlsP.down hp) fe2 s6 h6) ?_
                  intro _ s7 h7
                  exact ⟨fun hh => by simp at hh, fun _ => h7⟩
                · rename_i hfe2
                  simp only [sat_ret]
                  refine ⟨fun _ => ⟨Or.inr (h6.ext _), ⟨?_, ?_⟩⟩, fun hh => by simp at hh⟩
                  · intro _
                    refine ⟨hup.hsok, hup.nopending, hup.verified, ?_⟩
                    obtain ⟨t', ht'⟩ := greeting_ret_of_sim cfg.helo s5 (freshTls k h) (sim_fresh htp hup.inn hup.tls) fe2 s6 hgreet
                    unfold extInTls
                    rw [ht']
                    simp [hfe2]
                  · intro hcl
                    have : s6.ssl = true := h6.2.1
                    simp [this] at hcl
          · rename_i hnostart
            split
            · refine sat_bind (quitmsg_post hf st (fun s hp => PreP.down hp) _ h4) ?_
              intro _ s5 h5
              exact ⟨fun hh => by simp at hh, fun _ => h5⟩
            · rename_i hnoexp
              split
              · refine sat_bind (quitmsg_post hf st (fun s hp => PreP.down hp) _ h4) ?_
                intro _ s5 h5
                exact ⟨fun hh => by simp at hh, fun _ => h5⟩
              · rename_i hnotlsa
                simp only [sat_ret]
                refine ⟨fun _ => ⟨Or.inl h4, ⟨?_, ?_⟩⟩, fun hh => by simp at hh⟩
                · intro hssl
                  have : s3.ssl = false := h3.2.1
                  simp [this] at hssl
                · intro _
                  refine ⟨by simpa using hnoexp, by omega, hnostart⟩

/-! ### the loop over the hosts -/

/-- the two trace clauses of the property, for every host of the list -/
def Final (hosts : List Host) (tr : List Ev) : Prop :=
  sessionsOwned [] tr = true ∧ ∀ j h, hosts[j]? = some h → ∃ n, tlsReads j tr = readSeq h.tlsEnd n [] h.tls

/-- between two hosts: no session, the route settings as they were, only events of earlier hosts -/
structure Between (hosts : List Host) (k : Nat) (e c : Bool) (s : S) : Prop where
  ssl : s.ssl = false
  exp : s.expectTls = e
  cert : s.routeCert = c
  lt : ∀ ev ∈ s.trace, evK ev < k
  fin : Final hosts s.trace

theorem openConn_pre {hosts : List Host} {s : S} (hb : Between hosts k e c s) :
    PreP h k (openConn h k s).trace e c (openConn h k s) := by
  refine ⟨⟨rfl, hb.exp, hb.cert, rfl, fun _ _ => rfl, ?_, ?_⟩, hb.ssl, rfl, ?_⟩
  · intro ev hev
    simp only [openConn, List.mem_append, List.mem_singleton] at hev
    rcases hev with hev | hev
    · exact Nat.le_of_lt (hb.lt ev hev)
    · rw [hev]; exact Nat.le_refl _
  · exact owned_snoc_clear _ _ hb.fin.1 (by intro k r h; cases h) (by intro k x h; cases h)
  · show tlsReads k (s.trace ++ [.conn k]) = []
    rw [tlsReads_append, tlsReads_eq_nil_of_lt k s.trace hb.lt]; simp

theorem final_of_xp {hosts : List Host} {s s' : S} (hb : Between hosts k e c s) (hk : hosts[k]? = some h)
    (hx : XP h k (openConn h k s).trace s') : Final hosts s'.trace := by
  obtain ⟨ho, _, hown, hn⟩ := hx
  refine ⟨hown, ?_⟩
  intro j hj hjk
  by_cases hjk' : j = k
  · subst hjk'
    rw [hk] at hjk
    cases hjk
    exact hn
  · rw [ho j hjk']
    show ∃ n, tlsReads j (s.trace ++ [.conn k]) = _
    rw [tlsReads_append]
    simp only [tlsReads_conn, List.append_nil]
    exact hb.fin.2 j hj hjk

theorem connectMx_spec (hf : Fixed cfg) (hosts : List Host) (e c : Bool) (rest : List Host) (k : Nat) (s : S)
    (hrest : ∀ i, rest[i]? = hosts[k + i]?) (hb : Between hosts k e c s) :
    (connectMx cfg rest k s).sat
      (fun r s' => Final hosts s'.trace ∧ s'.expectTls = e ∧ s'.routeCert = c ∧
          ∀ j, r = some j → ∃ h, hosts[j]? = some h ∧ ConnOk cfg h j s')
      (fun s' => Final hosts s'.trace) := by
  induction rest generalizing k s with
  | nil =>
    unfold connectMx
    exact ⟨hb.fin, hb.exp, hb.cert, fun j hj => by cases hj⟩
  | cons h rest ih =>
    unfold connectMx
    have hk : hosts[k]? = some h := by have := hrest 0; simpa using this.symm
    have hpre := openConn_pre (h := h) hb
    refine sat_bind (sat_mono (connectHost_spec hf _ hpre) (fun _ _ hr => hr) (fun s' hx => final_of_xp hb hk hx)) ?_
    intro ok s1 h1
    split
    · rename_i hok
      obtain ⟨hph, hco⟩ := h1.1 hok
      simp only [sat_ret]
      have hx : XP h k (openConn h k s).trace s1 := by rcases hph with hp | hp <;> exact hp.toX
      have hc : Common k (openConn h k s).trace e c h.tlsEnd s1 := by rcases hph with hp | hp <;> exact hp.1
      refine ⟨final_of_xp hb hk hx, hc.exp, hc.cert, ?_⟩
      intro j hj
      cases hj
      exact ⟨h, hk, hco⟩
    · rename_i hok
      have hpost := h1.2 (by simpa using hok)
      apply ih (k + 1) s1
      · intro i
        have := hrest (i + 1)
        simp only [List.getElem?_cons_succ] at this
        rw [this]
        congr 1
        omega
      · refine ⟨hpost.2.1, hpost.1.exp, hpost.1.cert, ?_, final_of_xp hb hk hpost.toX⟩
        intro ev hev
        exact Nat.lt_succ_of_le (hpost.1.le ev hev)

theorem between_init (hosts : List Host) (e c : Bool) : Between hosts 0 e c (initS e c) := by
  refine ⟨rfl, rfl, rfl, ?_, rfl, ?_⟩
  · intro ev hev
    simp [initS] at hev
  · intro j h _
    exact ⟨0, rfl⟩

/-- everything the theorems of `Props.C18` need about a run of connect_mx() -/
theorem run_spec (hf : Fixed cfg) (e c : Bool) (hosts : List Host) :
    (run cfg e c hosts).sat
      (fun r s' => Final hosts s'.trace ∧ s'.expectTls = e ∧ s'.routeCert = c ∧
          ∀ j, r = some j → ∃ h, hosts[j]? = some h ∧ ConnOk cfg h j s')
      (fun s' => Final hosts s'.trace) :=
  connectMx_spec hf hosts e c hosts 0 (initS e c) (by intro i; simp) (between_init hosts e c)

end QsmtpModel.StartTlsCli
