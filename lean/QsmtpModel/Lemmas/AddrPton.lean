/-
Helper lemmas, fifth part: the model of glibc's inet_pton4 against the reference `Spec.ipv4B`.
-/
import QsmtpModel.Lemmas.Addr

namespace QsmtpModel.Addr
open QsmtpModel

/-- one dotted-decimal part as the reference wants it -/
def partOk (p : List Byte) : Bool :=
  decide (1 ≤ p.length) && decide (p.length ≤ 3) && p.all Spec.isDigitC && decide (Spec.decVal p ≤ 255)

theorem decVal_snoc (cp : List Byte) (ch : Byte) : Spec.decVal (cp ++ [ch]) = Spec.decVal cp * 10 + (ch.toNat - 48) := by
  unfold Spec.decVal
  rw [List.foldl_append]
  rfl

set_option maxRecDepth 100000 in
theorem isDigit_spec : ∀ c : Byte, isDigit c = true → Spec.isDigitC c = true ∧ c ≠ 46 ∧ c.toNat - 48 ≤ 9 := by
  apply byte_forall; decide

theorem pton4Loop_spec (s : List Byte) : ∀ (saw : Bool) (oct cur : Nat) (cp : List Byte),
    (saw = true ↔ cp ≠ []) → cur = Spec.decVal cp → cp.all Spec.isDigitC = true → cur ≤ 255 →
    (cp.length = 2 → 10 ≤ cur) → (cp.length = 3 → 100 ≤ cur) → cp.length ≤ 3 →
    oct ≤ 4 → (saw = false → oct ≤ 3) →
    pton4Loop s saw oct cur = true →
    ∃ p0 ps, Spec.splitOn 46 s = p0 :: ps ∧ partOk (cp ++ p0) = true ∧ ps.all partOk = true ∧
      (if saw then oct else oct + 1) + ps.length = 4 := by
  induction s with
  | nil =>
    intro saw oct cur cp hsaw hcur hdig h255 _ _ hlen hoct hns h
    simp only [pton4Loop, decide_eq_true_eq] at h
    have hs : saw = true := by
      cases saw with
      | true => rfl
      | false => have := hns rfl; omega
    have hne : cp ≠ [] := hsaw.mp hs
    have hl1 : 1 ≤ cp.length := by
      cases cp with
      | nil => exact absurd rfl hne
      | cons _ _ => simp
    refine ⟨[], [], rfl, ?_, rfl, by simp [hs]; omega⟩
    simp only [List.append_nil, partOk, hdig, Bool.and_true, Bool.and_eq_true, decide_eq_true_eq]
    exact ⟨⟨hl1, hlen⟩, by omega⟩
  | cons ch rest ih =>
    intro saw oct cur cp hsaw hcur hdig h255 h2 h3 hlen hoct hns h
    unfold pton4Loop at h
    by_cases hd : isDigit ch = true
    · obtain ⟨hds, hne46, hd9⟩ := isDigit_spec ch hd
      simp only [hd, ↓reduceIte] at h
      obtain ⟨p0', ps', hsp⟩ := splitOn_exists 46 rest
      cases saw with
      | false =>
        have hcp : cp = [] := by
          apply Decidable.byContradiction; intro e
          have := hsaw.mpr e; simp at this
        subst hcp
        simp only [Bool.false_and, Bool.false_eq_true, ↓reduceIte, Bool.not_false] at h
        have hc0 : cur = 0 := by rw [hcur]; rfl
        subst hc0
        split at h
        · simp at h
        · split at h
          · simp at h
          · rename_i hnw hoc
            obtain ⟨p0, ps, hs1, hs2, hs3, hs4⟩ := ih true (oct + 1) (0 * 10 + (ch.toNat - 48)) [ch]
              (by simp) (by simp [Spec.decVal]) (by simp [hds]) (by omega) (by simp) (by simp) (by simp)
              (by omega) (by simp) h
            refine ⟨ch :: p0, ps, splitOn_ne _ _ _ _ _ hne46 hs1, by simpa using hs2, hs3, by simpa using hs4⟩
      | true =>
        have hne : cp ≠ [] := hsaw.mp rfl
        simp only [Bool.true_and, Bool.not_true, Bool.false_eq_true, ↓reduceIte] at h
        split at h
        · simp at h
        · rename_i hcz
          have hcz' : cur ≠ 0 := by simpa using hcz
          split at h
          · simp at h
          · rename_i hnw
            have hl1 : 1 ≤ cp.length := by
              cases cp with
              | nil => exact absurd rfl hne
              | cons _ _ => simp
            have hl3 : cp.length ≠ 3 := by
              intro e; have := h3 e; omega
            obtain ⟨p0, ps, hs1, hs2, hs3, hs4⟩ := ih true oct (cur * 10 + (ch.toNat - 48)) (cp ++ [ch])
              (by simp) (by rw [decVal_snoc, hcur]) (by simp [hdig, hds]) (by omega)
              (by simp; intro e; omega) (by simp; intro e; have := h2 (by omega); omega) (by simp; omega)
              hoct (by simp) h
            refine ⟨ch :: p0, ps, splitOn_ne _ _ _ _ _ hne46 hs1, by simpa using hs2, hs3, by simpa using hs4⟩
    · simp only [hd, Bool.false_eq_true, ↓reduceIte] at h
      by_cases hdot : (ch = DOT && saw) = true
      · simp only [hdot, ↓reduceIte] at h
        simp only [Bool.and_eq_true, decide_eq_true_eq] at hdot
        obtain ⟨hch, hs⟩ := hdot
        subst hch; subst hs
        split at h
        · simp at h
        · rename_i ho4
          have hne : cp ≠ [] := hsaw.mp rfl
          have hl1 : 1 ≤ cp.length := by
            cases cp with
            | nil => exact absurd rfl hne
            | cons _ _ => simp
          obtain ⟨p0, ps, hs1, hs2, hs3, hs4⟩ := ih false oct 0 []
            (by simp) (by simp [Spec.decVal]) (by simp) (by omega) (by simp) (by simp) (by simp)
            hoct (by intro _; omega) h
          refine ⟨[], p0 :: ps, by rw [show DOT = (46 : Byte) from rfl, splitOn_sep, hs1], ?_, ?_, ?_⟩
          · simp only [List.append_nil, partOk, hdig, Bool.and_true, Bool.and_eq_true, decide_eq_true_eq]
            exact ⟨⟨hl1, hlen⟩, by omega⟩
          · simp only [List.all_cons, hs3, Bool.and_true]
            simpa using hs2
          · simp only [↓reduceIte, List.length_cons]
            simp only [Bool.false_eq_true, ↓reduceIte] at hs4
            omega
      · simp [hdot] at h

/-- whatever (the model of) `inet_pton(AF_INET, …)` accepts is four decimal numbers 0..255 of one
to three digits, separated by dots -/
theorem pton4_ipv4 (s : List Byte) (h : pton4 s = true) : Spec.ipv4B s = true := by
  unfold pton4 at h
  obtain ⟨p0, ps, h1, h2, h3, h4⟩ := pton4Loop_spec s false 0 0 [] (by simp) (by simp [Spec.decVal]) (by simp)
    (by omega) (by simp) (by simp) (by simp) (by omega) (by intro _; omega) h
  unfold Spec.ipv4B
  simp only [h1]
  simp only [Bool.false_eq_true, ↓reduceIte] at h4
  have hall : (p0 :: ps).all (fun p => decide (1 ≤ p.length) && decide (p.length ≤ 3) && p.all Spec.isDigitC && decide (Spec.decVal p ≤ 255)) = true := by
    rw [List.all_cons]
    have e1 : partOk p0 = true := by simpa using h2
    have e2 : ps.all (fun p => decide (1 ≤ p.length) && decide (p.length ≤ 3) && p.all Spec.isDigitC && decide (Spec.decVal p ≤ 255)) = true := h3
    unfold partOk at e1
    rw [e1, e2]; rfl
  rw [hall]
  simp; omega

end QsmtpModel.Addr
