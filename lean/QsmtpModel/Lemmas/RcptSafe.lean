/-
C12 helper lemmas: no filter of the chain faults (NULL dereference, read outside blocktype[]).
-/
import QsmtpModel.Lemmas.Rcpt

namespace QsmtpModel.Rcpt
open QsmtpModel

/-- a filter answer that neither faults nor reads `blocktype[*t]` early -/
def CbRes.safe (r : CbRes) : Prop := r.fault = false ∧ r.readsT = false

theorem safe_mk (fr : FR) (w : List Reply) (l : Bool) (t : Option Nat) :
    CbRes.safe { fr := fr, wrote := w, logmsg := l, t := t } := ⟨rfl, rfl⟩

syntax "cb_safe" : tactic
macro_rules
  | `(tactic| cb_safe) => `(tactic| (repeat' (first | split | dsimp only)) <;> (first | exact ⟨rfl, rfl⟩ | (constructor <;> rfl)))

theorem cbBoolean_safe (c : Conf) (f : Facts) : (cbBoolean c f).safe := by
  unfold cbBoolean; cb_safe

theorem cbNomail_safe (cfg : Cfg) : (cbNomail cfg).safe := by
  unfold cbNomail; cb_safe

theorem cbSmtpbugs_safe (c : Conf) (f : Facts) : (cbSmtpbugs c f).safe := by
  unfold cbSmtpbugs; cb_safe

theorem cbUsersize_safe (c : Conf) (f : Facts) : (cbUsersize c f).safe := by
  unfold cbUsersize; cb_safe

theorem cbIpbl_safe (cfg : Cfg) (f : Facts) : (cbIpbl cfg f).safe := by
  unfold cbIpbl; cb_safe

theorem cbHelo_safe (c : Conf) (cfg : Cfg) (f : Facts) : (cbHelo c cfg f).safe := by
  unfold cbHelo; cb_safe

theorem cbBadmailfrom_safe (cfg : Cfg) (f : Facts) : (cbBadmailfrom cfg f).safe := by
  unfold cbBadmailfrom; cb_safe

theorem cbBadcc_safe (cfg : Cfg) (f : Facts) : (cbBadcc cfg f).safe := by
  unfold cbBadcc; cb_safe

theorem cbFromdomain_safe (c : Conf) (f : Facts) : (cbFromdomain c f).safe := by
  unfold cbFromdomain; cb_safe

theorem cbSpf_safe (c : Conf) (cfg : Cfg) (f : Facts) : (cbSpf c cfg f).safe := by
  unfold cbSpf; cb_safe

theorem cbDnsbl_safe (cfg : Cfg) (f : Facts) : (cbDnsbl cfg f).safe := by
  unfold cbDnsbl; cb_safe

theorem cbForceesmtp_safe (cfg : Cfg) (f : Facts) : (cbForceesmtp cfg f).safe := by
  unfold cbForceesmtp; cb_safe

theorem cbNamebl_safe (cfg : Cfg) (f : Facts) : (cbNamebl cfg f).safe := by
  have : (cbNameblBody cfg f).fault = false := by
    unfold cbNameblBody
    (repeat' (first | split | dsimp only)) <;> rfl
  exact ⟨this, rfl⟩

theorem cbWildcardns_safe (c : Conf) (f : Facts) : (cbWildcardns c f).safe := by
  unfold cbWildcardns; cb_safe


theorem takeWhile_length_lt {α : Type} (p : α → Bool) : ∀ (l : List α), (∃ x ∈ l, p x = false) → (l.takeWhile p).length < l.length
  | [], h => by obtain ⟨x, hx, _⟩ := h; simp at hx
  | a :: l, h => by
    cases hp : p a
    · simp [List.takeWhile, hp]
    · have : ∃ x ∈ l, p x = false := by
        obtain ⟨x, hx, hpx⟩ := h
        rcases List.mem_cons.mp hx with rfl | hx
        · rw [hp] at hpx; cases hpx
        · exact ⟨x, hx, hpx⟩
      simpa [List.takeWhile, hp] using takeWhile_length_lt p l this

theorem lastDot_isSome (s : List Byte) (h : (46 : Byte) ∈ s) : (lastDot s).isSome = true := by
  unfold lastDot
  have : (s.reverse.takeWhile (· ≠ 46)).length < s.reverse.length :=
    takeWhile_length_lt _ _ ⟨46, by simpa using h, by simp⟩
  rw [List.length_reverse] at this
  rw [if_pos this]
  rfl

/-- cb_soberg calls `strcasecmp(.., strrchr(mailfrom, '.'))`: safe when the sender has a dot (every
sender smtp_from() accepts has one) -/
theorem cbSoberg_safe (c : Conf) (f : Facts) (h : f.mailfrom = [] ∨ (46 : Byte) ∈ f.mailfrom) : (cbSoberg c f).safe := by
  unfold cbSoberg
  rcases h with h | h
  · simp [h, CbRes.safe]
  · have hd := lastDot_isSome _ h
    cases hl : lastDot f.mailfrom with
    | none => simp [hl] at hd
    | some d =>
      (repeat' (first | split | dsimp only)) <;> (first | exact ⟨rfl, rfl⟩ | (constructor <;> rfl) | simp_all)

theorem runCb_safe (c : Conf) (cfg : Cfg) (f : Facts) (h : f.mailfrom = [] ∨ (46 : Byte) ∈ f.mailfrom) (cb : Gen.Rcpt.Cb) :
    (runCb c cfg f cb).safe := by
  cases cb <;> simp only [runCb]
  · exact cbBoolean_safe c f
  · exact cbNomail_safe cfg
  · exact cbSmtpbugs_safe c f
  · exact cbUsersize_safe c f
  · exact cbSoberg_safe c f h
  · exact cbIpbl_safe cfg f
  · exact cbHelo_safe c cfg f
  · exact cbBadmailfrom_safe cfg f
  · exact cbBadcc_safe cfg f
  · exact cbFromdomain_safe c f
  · exact cbSpf_safe c cfg f
  · exact cbDnsbl_safe cfg f
  · exact cbForceesmtp_safe cfg f
  · exact cbNamebl_safe cfg f
  · exact cbWildcardns_safe c f
  · exact ⟨rfl, rfl⟩

theorem loop_fault : ∀ (rs : List CbRes), (∀ r ∈ rs, r.safe) → ∀ (s : LoopSt), (loop rs s).fault = s.fault
  | [], _, s => rfl
  | r :: rs, h, s => by
    have hr := h r (by simp)
    have ih := loop_fault rs (fun r' hr' => h r' (by simp [hr']))
    unfold loop
    split
    · split <;> rw [ih] <;> simp [hr.1, hr.2]
    · rfl

theorem finish_fault (s : LoopSt) (a b : Int) (rcpt : List Byte) : (finish s a b rcpt).fault = s.fault := by
  unfold finish
  dsimp only
  split
  · rfl
  · split <;> rfl

end QsmtpModel.Rcpt
