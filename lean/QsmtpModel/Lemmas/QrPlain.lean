/-
Helper lemmas for C06/C07, plain path: send_plain() refines the buffer-free stream transformer
`plainSpec`, which equals `dotStuff ∘ normalizeEol`.
-/
import QsmtpModel.QrData
import QsmtpModel.Spec.SmtpData

set_option linter.unusedSimpArgs false
set_option linter.unusedVariables false

namespace QsmtpModel.QrData
open QsmtpModel QsmtpModel.Mime QsmtpModel.Spec

theorem plainCap_eq : plainCap = 1205 := rfl
theorem plainLim_eq : plainLim = 1200 := rfl

theorem cr_ne_lf : CR ≠ LF := by decide
theorem lf_ne_cr : LF ≠ CR := by decide
theorem cr_ne_dot : CR ≠ DOT := by decide
theorem dot_ne_cr : DOT ≠ CR := by decide
theorem lf_ne_dot : LF ≠ DOT := by decide
theorem dot_ne_lf : DOT ≠ LF := by decide

/-! ### list facts -/

theorem drop_of_get {buf : List Byte} {i : Nat} {c : Byte} (h : buf[i]? = some c) :
    buf.drop i = c :: buf.drop (i + 1) := by
  obtain ⟨hi, rfl⟩ := List.getElem?_eq_some_iff.mp h
  exact List.drop_eq_getElem_cons hi

theorem take_succ_of_get {buf : List Byte} {off n : Nat} {c : Byte} (h : buf[off + n]? = some c) :
    (buf.drop off).take (n + 1) = (buf.drop off).take n ++ [c] := by
  rw [List.take_add_one]
  simp [List.getElem?_drop, h]

theorem cpy_ok {buf : List Byte} {off n : Nat} (h : off + n ≤ buf.length) :
    cpy buf off n = .ok ((buf.drop off).take n) := by
  simp [cpy, h]

theorem length_take_drop {buf : List Byte} {off n : Nat} (h : off + n ≤ buf.length) :
    ((buf.drop off).take n).length = n := by
  simp; omega

theorem push_ok {cap : Nat} {sb bs : List Byte} (h : sb.length + bs.length ≤ cap) :
    push cap sb bs = .ok (sb ++ bs) := by
  simp [push, h]

/-! ### the stream transformer -/

/-- buffer-free description of send_plain(): `pcr` = the previous byte was a CR (whose CRLF has
been emitted already), `llen` = not at the beginning of a line -/
def plainSpec (pcr llen : Bool) : List Byte → List Byte
  | [] => []
  | c :: rest =>
    if c = LF ∧ pcr then plainSpec false false rest
    else if c = CR then CR :: LF :: plainSpec true false rest
    else if c = LF then CR :: LF :: plainSpec false false rest
    else if c = DOT ∧ llen = false then DOT :: DOT :: plainSpec false true rest
    else c :: plainSpec false true rest

theorem plainSpec_cons (pcr llen : Bool) (c : Byte) (rest : List Byte) :
    plainSpec pcr llen (c :: rest) =
      if c = LF ∧ pcr then plainSpec false false rest
      else if c = CR then CR :: LF :: plainSpec true false rest
      else if c = LF then CR :: LF :: plainSpec false false rest
      else if c = DOT ∧ llen = false then DOT :: DOT :: plainSpec false true rest
      else c :: plainSpec false true rest := by
  rw [plainSpec]

theorem plainSpec_pcr (llen : Bool) (l : List Byte) (h : l.head? ≠ some LF) :
    plainSpec true llen l = plainSpec false llen l := by
  cases l with
  | nil => rfl
  | cons c rest =>
    simp at h
    simp [plainSpec, h]

theorem bind_ok {α β : Type} (x : α) (f : α → R β) : ((Except.ok x : R α) >>= f) = f x := rfl

theorem endsLf_append_singleton (a : List Byte) (c : Byte) : endsLf (a ++ [c]) = (c == LF) := by
  simp [endsLf]

theorem plainGo_spec (buf : List Byte) (off chunk : Nat) (llen : Bool) (sb : List Byte) (st : St)
    (h1 : off + chunk ≤ buf.length) (h2 : sb.length + chunk ≤ plainLim + 1)
    (h3 : 0 < sb.length + chunk ∨ off + chunk < buf.length) :
    ∃ st', plainGo buf off chunk llen sb st = .ok st'
      ∧ st'.out = st.out ++ sb ++ (buf.drop off).take chunk ++ plainSpec false llen (buf.drop (off + chunk))
      ∧ st'.lastlf = endsLf st'.out := by
  fun_induction plainGo buf off chunk llen sb st
  case case1 off chunk llen sb st hlf h ih =>
    obtain ⟨hi, hl, hc⟩ := peek_some h
    have hlen : off + chunk + 1 < buf.length := (List.getElem?_eq_some_iff.mp hlf).1
    rw [plainLim_eq] at *
    obtain ⟨st', e1, e2, e3⟩ := ih (by omega) (by omega) (by omega)
    refine ⟨st', e1, ?_, e3⟩
    rw [e2, drop_of_get hc, drop_of_get hlf]
    have t1 : (buf.drop off).take (chunk + 2) = (buf.drop off).take chunk ++ [CR, LF] := by
      rw [show chunk + 2 = (chunk + 1) + 1 from rfl, take_succ_of_get (c := LF) (by rw [← Nat.add_assoc]; exact hlf),
        take_succ_of_get hc]; simp
    rw [t1]
    simp [plainSpec, Nat.add_assoc]
  case case2 off chunk llen sb st hlf h ih =>
    obtain ⟨hi, hl, hc⟩ := peek_some h
    rw [plainLim_eq] at *
    rw [cpy_ok (by omega), bind_ok, push_ok (by rw [plainCap_eq]; simp; omega), bind_ok]
    obtain ⟨st', e1, e2, e3⟩ := ih (sb ++ ((buf.drop off).take (chunk + 1) ++ [LF])) (by omega) (by simp; omega) (by simp; omega)
    refine ⟨st', e1, ?_, e3⟩
    rw [e2, drop_of_get hc, take_succ_of_get hc]
    have hne : (buf.drop (off + chunk + 1)).head? ≠ some LF := by
      rw [List.head?_drop]; exact hlf
    simp [plainSpec, plainSpec_pcr _ _ hne]
  case case3 off chunk llen sb st h hne ih =>
    obtain ⟨hi, hl, hc⟩ := peek_some h
    rw [plainLim_eq] at *
    rw [cpy_ok (by omega), bind_ok, push_ok (by rw [plainCap_eq]; simp; omega), bind_ok]
    obtain ⟨st', e1, e2, e3⟩ := ih (sb ++ ((buf.drop off).take chunk ++ [CR, LF])) (by omega) (by simp; omega) (by simp; omega)
    refine ⟨st', e1, ?_, e3⟩
    rw [e2, drop_of_get hc]
    simp [plainSpec, hne]
  case case4 off chunk llen sb st c h hcr hlf hdot ih =>
    obtain ⟨hi, hl, hc⟩ := peek_some h
    rw [plainLim_eq] at *
    rw [cpy_ok (by omega), bind_ok, push_ok (by rw [plainCap_eq]; simp; omega), bind_ok]
    obtain ⟨st', e1, e2, e3⟩ := ih (sb ++ ((buf.drop off).take (chunk + 1) ++ [DOT])) (by omega) (by simp; omega) (by simp; omega)
    refine ⟨st', e1, ?_, e3⟩
    rw [e2, drop_of_get hc, take_succ_of_get hc]
    obtain ⟨rfl, rfl⟩ := hdot
    simp [plainSpec, hcr, hlf]
  case case5 off chunk llen sb st c h hcr hlf hdot ih =>
    obtain ⟨hi, hl, hc⟩ := peek_some h
    rw [plainLim_eq] at *
    obtain ⟨st', e1, e2, e3⟩ := ih (by omega) (by omega) (by omega)
    refine ⟨st', e1, ?_, e3⟩
    rw [e2, drop_of_get hc, take_succ_of_get hc]
    simp [plainSpec, hcr, hlf, hdot, Nat.add_assoc]
  case case6 off chunk llen sb st h ih =>
    have hp := peek_none h
    rw [plainLim_eq] at *
    have hpos : 0 < sb.length + chunk := by omega
    rw [cpy_ok (by omega), bind_ok, push_ok (by rw [plainCap_eq]; simp; omega), bind_ok]
    have hlen : (sb ++ (buf.drop off).take chunk).length = sb.length + chunk := by simp; omega
    cases hx : (sb ++ (buf.drop off).take chunk).getLast? with
    | none =>
      rw [List.getLast?_eq_none_iff] at hx
      rw [hx] at hlen; simp at hlen; omega
    | some l =>
      have hlb : lastByte (sb ++ (buf.drop off).take chunk) = .ok l := by simp [lastByte, hx]
      rw [hlb, bind_ok]
      have hend : ∀ a : List Byte, endsLf (a ++ (sb ++ (buf.drop off).take chunk)) = (l == LF) := by
        intro a
        have hne : sb ++ (buf.drop off).take chunk ≠ [] := by
          intro h0; rw [h0] at hlen; simp at hlen; omega
        simp [endsLf, List.getLast?_append, hx, Option.or]
      by_cases hlt : off + chunk < buf.length
      · simp only [hlt, hpos, and_self, if_true]
        obtain ⟨st', e1, e2, e3⟩ := ih (sb ++ (buf.drop off).take chunk) l ⟨hlt, hpos⟩ (by omega) (by simp) (by simp; omega)
        refine ⟨st', e1, ?_, e3⟩
        rw [e2]; simp
      · simp only [hlt, false_and, if_false]
        refine ⟨_, rfl, ?_, ?_⟩
        · have : buf.drop (off + chunk) = [] := by apply List.drop_eq_nil_of_le; omega
          simp [this, plainSpec]
        · simp only; rw [hend]

/-- send_plain() sends `plainSpec` of its input, whatever the staging buffer does -/
theorem sendPlain_spec (buf : List Byte) (st : St) :
    ∃ st', sendPlain buf st = .ok st' ∧ st'.out = st.out ++ plainSpec false false buf
      ∧ (buf = [] → st' = st) ∧ (buf ≠ [] → st'.lastlf = endsLf st'.out) := by
  unfold sendPlain
  by_cases h : buf.length = 0
  · have : buf = [] := List.length_eq_zero_iff.mp h
    subst this
    exact ⟨st, by simp, by simp [plainSpec], fun _ => rfl, fun h => absurd rfl h⟩
  · obtain ⟨st', e1, e2, e3⟩ := plainGo_spec buf 0 0 false [] st (by omega) (by simp) (by simp; omega)
    refine ⟨st', by simp [h, e1], by simpa using e2, fun h0 => ?_, fun _ => e3⟩
    subst h0; simp at h

/-! ### `plainSpec` is dot-stuffing of the normalised text -/

theorem plainSpec_eq (m : List Byte) : ∀ llen : Bool,
    plainSpec false llen m = dotStuffAux (!llen) (normalizeEol m) := by
  have ne := And.intro cr_ne_lf (And.intro lf_ne_cr (And.intro cr_ne_dot (And.intro dot_ne_cr (And.intro lf_ne_dot dot_ne_lf))))
  obtain ⟨n1, n2, n3, n4, n5, n6⟩ := ne
  fun_induction normalizeEol m with
  | case1 => intro llen; simp [plainSpec, dotStuffAux]
  | case2 c h =>
    intro llen
    rcases h with rfl | rfl
    · simp [plainSpec, dotStuffAux, n1, n2, n3, n4, n5, n6]
    · simp [plainSpec, dotStuffAux, n1, n2, n3, n4, n5, n6]
  | case3 c h =>
    intro llen
    simp only [not_or] at h
    cases llen <;> by_cases hd : c = DOT <;> simp [plainSpec, dotStuffAux, h.1, h.2, hd, n1, n2, n3, n4, n5, n6]
  | case4 c d rest h ih =>
    intro llen
    obtain ⟨rfl, rfl⟩ := h
    simp [plainSpec, dotStuffAux, ih false, n1, n2, n3, n4, n5, n6]
  | case5 c d rest h1 h2 ih =>
    intro llen
    have hd : ¬ (c = CR ∧ d = LF) := h1
    rcases h2 with rfl | rfl
    · have hne : (d :: rest).head? ≠ some LF := by simp; intro h; exact hd ⟨rfl, h⟩
      rw [plainSpec_cons]
      simp only [n1, n2, false_and, if_false, if_true]
      rw [plainSpec_pcr _ _ hne, ih false]
      simp [dotStuffAux, n1, n2, n3, n4, n5, n6]
    · rw [plainSpec_cons]
      simp only [n1, n2, and_false, if_false, if_true, Bool.false_eq_true]
      rw [ih false]
      simp [dotStuffAux, n1, n2, n3, n4, n5, n6]
  | case6 c d rest h1 h2 ih =>
    intro llen
    simp only [not_or] at h2
    rw [plainSpec_cons]
    cases llen <;> by_cases hd : c = DOT
    all_goals simp only [h2.1, h2.2, false_and, and_false, if_false, hd, and_self, if_true, true_and, and_true,
      n4, n6, Bool.true_eq_false, Bool.false_eq_true]
    all_goals (try rw [ih true]) <;> (try rw [ih false]) <;> simp [dotStuffAux, h2.1, h2.2, hd, n1, n2, n3, n4, n5, n6]

theorem sendPlain_eq_dotStuff (buf : List Byte) (st : St) :
    ∃ st', sendPlain buf st = .ok st' ∧ st'.out = st.out ++ dotStuff (normalizeEol buf)
      ∧ (buf = [] → st' = st) ∧ (buf ≠ [] → st'.lastlf = endsLf st'.out) := by
  obtain ⟨st', e1, e2, e3, e4⟩ := sendPlain_spec buf st
  exact ⟨st', e1, by rw [e2, plainSpec_eq]; rfl, e3, e4⟩

end QsmtpModel.QrData
