import QsmtpModel.StartTlsSrv
import QsmtpModel.Lemmas.Session
import QsmtpModel.Lemmas.Netio

/-! Helper lemmas for C17 (server side of STARTTLS). -/

namespace QsmtpModel.StartTlsSrv
open QsmtpModel QsmtpModel.Netio QsmtpModel.Session

/-! ### the `ssl` flag is touched by nothing but a completed handshake -/

@[simp] theorem freedata_ssl (s : Sess) : (freedata s).ssl = s.ssl := rfl

theorem handleError_ssl (rc : Rc) (s : Sess) : (handleError rc s).2.ssl = s.ssl := by
  unfold handleError
  split
  · rfl
  · cases rc <;> rfl

theorem isAuthenticated_ssl (env : Env) (s : Sess) : (isAuthenticated env s).2.ssl = s.ssl := by
  unfold isAuthenticated
  split
  · rfl
  · cases env.relayIp <;> cases env.tlsVerify <;> simp <;> (repeat' split) <;> simp

theorem submissionGate_ssl (env : Env) (s : Sess) :
    (submissionGate env s).2.ssl = s.ssl ∧ ∀ r, (submissionGate env s).1 = some r → r.s.ssl = s.ssl := by
  have ha := isAuthenticated_ssl env s
  unfold submissionGate
  split
  · generalize isAuthenticated env s = p at ha
    obtain ⟨o, s'⟩ := p
    simp only at ha
    match o with
    | none => simp [ha]
    | some false => simp [ha]
    | some true => simp [ha]
  · simp

theorem smtpFromInner_ssl (env : Env) (v : MailV) (s : Sess) : (smtpFromInner env v s).s.ssl = s.ssl := by
  unfold smtpFromInner
  cases v <;> simp <;> (repeat' split) <;> rfl

theorem smtpFrom_ssl (env : Env) (v : MailV) (s : Sess) : (smtpFrom env v s).s.ssl = s.ssl := by
  have hg := submissionGate_ssl env { s with mailfrom := [] }
  unfold smtpFrom
  cases v with
  | noBracket => rfl
  | _ =>
    simp only
    generalize submissionGate env { s with mailfrom := [] } = g at hg
    obtain ⟨o, s'⟩ := g
    cases o with
    | some r => exact hg.2 r rfl
    | none => simp only; rw [smtpFromInner_ssl]; exact hg.1

theorem rcptAdd_ssl (addr : List Byte) (more : Bool) (f : FilterV) (s : Sess) : (rcptAdd addr more f s).s.ssl = s.ssl := by
  unfold rcptAdd
  split
  · rfl
  · split
    · rfl
    · cases f <;> rfl

theorem rcptEarly_ssl (env : Env) (v : RcptV) (s : Sess) :
    match rcptEarly env v s with
    | .inl r => r.s.ssl = s.ssl
    | .inr x => x.2.2.2.ssl = s.ssl := by
  have ha := isAuthenticated_ssl env s
  unfold rcptEarly
  cases v with
  | noBracket => rfl
  | badAddr => rfl
  | localUser a e m f => cases e <;> rfl
  | remote a mx m f =>
    simp only
    generalize isAuthenticated env s = p at ha
    obtain ⟨o, s'⟩ := p
    simp only at ha
    match o with
    | none => exact ha
    | some false => exact ha
    | some true => cases mx <;> exact ha

theorem smtpRcpt_ssl (env : Env) (v : RcptV) (s : Sess) : (smtpRcpt env v s).s.ssl = s.ssl := by
  have he := rcptEarly_ssl env v s
  unfold smtpRcpt
  cases v with
  | noBracket => rfl
  | _ =>
    simp only
    split
    · rfl
    · generalize rcptEarly env _ s = e at he
      cases e with
      | inl r => exact he
      | inr x => simp only at he ⊢; rw [rcptAdd_ssl]; exact he

theorem smtpData_ssl (v : DataV) (s : Sess) : (smtpData v s).s.ssl = s.ssl := by
  unfold smtpData
  split
  · rfl
  · cases v <;> first | rfl | (unfold refusedRes; rfl)

theorem runFunc_ssl (env : Env) (v : Verdicts) (f : Gen.Func) (s : Sess) (l : List Byte) (hf : f ≠ .starttls) :
    (runFunc env v f s l).s.ssl = s.ssl := by
  cases f with
  | starttls => exact absurd rfl hf
  | noop => rfl
  | quit => rfl
  | rset => unfold runFunc smtpRset; dsimp only; (repeat' split) <;> rfl
  | helo => unfold runFunc smtpHelo; dsimp only; (repeat' split) <;> rfl
  | ehlo => unfold runFunc smtpEhlo; dsimp only; (repeat' split) <;> rfl
  | mail => exact smtpFrom_ssl env v.mail s
  | rcpt => exact smtpRcpt_ssl env v.rcpt s
  | data => exact smtpData_ssl v.data s
  | auth => unfold runFunc smtpAuth; dsimp only; (repeat' split) <;> rfl
  | vrfy => rfl
  | bdat => rfl
  | post => unfold runFunc; dsimp only; (repeat' split) <;> rfl

theorem finishStep_ssl (rowState : Int) (i : Nat) (r : FuncRes) : (finishStep rowState i r).2.ssl = r.s.ssl := by
  unfold finishStep
  split
  · rfl
  · exact handleError_ssl _ _


/-! ### data_pending / sync_pipelining -/

theorem isEmpty_false_of {α} (l : List α) (h : (!l.isEmpty) = false) : l = [] := by
  cases l <;> simp_all

theorem dataPendingClear_no (inn : List Byte) (w : Wire) (inn' : List Byte) (w' : Wire)
    (h : dataPendingClear inn w = (.no, inn', w')) : inn = [] ∧ inn' = [] ∧ w' = w := by
  unfold dataPendingClear at h
  split at h
  · simp at h
  · have hi : inn = [] := by cases inn <;> simp_all
    split at h
    · simp only [Prod.mk.injEq, true_and] at h; obtain ⟨h1, h2⟩ := h; subst hi; exact ⟨rfl, h1.symm, h2.symm⟩
    · split at h
      · dsimp only at h
        split at h <;> simp at h
      · simp at h

theorem dataPendingTls_no (inn : List Byte) (w : Wire) (inn' : List Byte) (w' : Wire)
    (h : dataPendingTls inn w = (.no, inn', w')) : inn = [] ∧ inn' = [] ∧ w' = w := by
  unfold dataPendingTls at h
  split at h
  · simp at h
  · have hi : inn = [] := by cases inn <;> simp_all
    split at h
    · simp at h
    · simp only [Prod.mk.injEq, true_and] at h; obtain ⟨h1, h2⟩ := h; subst hi; exact ⟨rfl, h1.symm, h2.symm⟩

/-- **data_pending() answers 0 only with an empty look-ahead buffer, and leaves everything as it is.** -/
theorem dataPending_no (ssl : Bool) (inn : List Byte) (w : Wire) (inn' : List Byte) (w' : Wire)
    (h : dataPending ssl inn w = (.no, inn', w')) : inn = [] ∧ inn' = [] ∧ w' = w := by
  unfold dataPending at h
  split at h
  · exact dataPendingTls_no inn w inn' w' h
  · exact dataPendingClear_no inn w inn' w' h

/-- a non-empty look-ahead buffer always counts as pending input -/
theorem dataPending_inn (ssl : Bool) (inn : List Byte) (w : Wire) (h : inn ≠ []) :
    dataPending ssl inn w = (.yes, inn, w) := by
  have : (!inn.isEmpty) = true := by cases inn <;> simp_all
  unfold dataPending dataPendingTls dataPendingClear
  split <;> simp

/-- what sync_pipelining() leaves behind, by outcome -/
theorem syncPipelining_spec (k : Core) (w : Wire) (sy : Sync) (k1 : Core) (w1 : Wire)
    (h : syncPipelining k w = (sy, k1, w1)) :
    match sy with
    | .clear => k.inn = [] ∧ k1 = k ∧ w1 = w
    | .stuck rep => k1.sess = k.sess ∧ k1.wq = true ∧ k1.hs = k.hs ∧ k1.dead = k.dead
        ∧ (rep = [Gen.pipeErrCode] ∨ rep = [Gen.mustWaitCode])
    | .die _ => k1.sess = k.sess ∧ k1.dead = some ECONNRESET ∧ k1.hs = k.hs := by
  unfold syncPipelining at h
  rcases hd : dataPending k.sess.ssl k.inn w with ⟨p, inn', w'⟩
  rw [hd] at h
  cases p with
  | no =>
    obtain ⟨h1, h2, h3⟩ := dataPending_no _ _ _ _ _ hd
    simp only [Prod.mk.injEq] at h
    obtain ⟨rfl, rfl, rfl⟩ := h
    refine ⟨h1, ?_, h3⟩
    cases k; simp_all
  | die =>
    simp only [Prod.mk.injEq] at h
    obtain ⟨rfl, rfl, rfl⟩ := h
    exact ⟨rfl, rfl, rfl⟩
  | yes =>
    simp only at h
    split at h
    · rcases hr : readLine inn' w' with ⟨rd, inn2, w2⟩
      rw [hr] at h
      cases rd <;> (simp only [Prod.mk.injEq] at h; obtain ⟨rfl, rfl, rfl⟩ := h; simp)
    · simp only [Prod.mk.injEq] at h
      obtain ⟨rfl, rfl, rfl⟩ := h
      simp


/-! ### the error branch and the end of a command -/

theorem errPath_spec (k : Core) (w : Wire) (pre : List Nat) (rc : Rc) (s : Sess) :
    (errPath k w pre rc s).2.1.sess.ssl = s.ssl ∧ (errPath k w pre rc s).2.1.wq = k.wq
    ∧ (errPath k w pre rc s).2.1.hs = k.hs
    ∧ (((errPath k w pre rc s).2.1.sess = (handleError rc s).2 ∧ (errPath k w pre rc s).2.1.dead = k.dead)
        ∨ (errPath k w pre rc s).2.1.dead = some ECONNRESET) := by
  unfold errPath
  split
  · exact ⟨handleError_ssl rc s, rfl, rfl, Or.inl ⟨rfl, rfl⟩⟩
  · rcases hd : dataPending s.ssl k.inn w with ⟨p, inn', w'⟩
    cases p <;> simp [handleError_ssl]

theorem finish_spec (k : Core) (w : Wire) (st : Int) (i : Nat) (r : FuncRes) :
    (finish k w st i r).2.2.1.sess.ssl = r.s.ssl ∧ (finish k w st i r).2.2.1.wq = k.wq
    ∧ (finish k w st i r).2.2.1.hs = k.hs
    ∧ (((finish k w st i r).2.2.1.sess = (finishStep st i r).2 ∧ (finish k w st i r).2.2.1.dead = k.dead)
        ∨ (finish k w st i r).2.2.1.dead = some ECONNRESET) := by
  unfold finish
  split
  · rename_i h
    simp [finishStep, if_pos h]
  · rename_i h
    have he := errPath_spec k w r.replies r.rc r.s
    simp only [finishStep, if_neg h]
    exact he

theorem finish_ok' (k : Core) (w : Wire) (st : Int) (i : Nat) (r : FuncRes) (h : r.rc = .ok) :
    finish k w st i r = (r.replies, r.handoff, { k with sess := { r.s with comstate := newState st i r, badcmds := 0 } }, w) := by
  unfold finish
  simp only [if_pos h, finishStep]


/-! ### tls_init -/

theorem smtpStarttls_ssl_ne_ok (v : TlsHsV) (s : Sess) (h : v ≠ .ok) : (smtpStarttls v s).s.ssl = s.ssl := by
  unfold smtpStarttls
  split
  · rfl
  · cases v <;> first | rfl | exact absurd rfl h

theorem smtpStarttls_guarded (v : TlsHsV) (s : Sess) (h : (s.ssl || !s.esmtp) = true) :
    smtpStarttls v s = { replies := [], rc := .badseq, s := s } := by
  unfold smtpStarttls
  rw [if_pos h]

/-- the state a completed handshake leaves: `ssl` set, the table row's state, bad command counter 0 -/
def upgraded (s : Sess) (rowState : Int) (i : Nat) : Sess :=
  { s with ssl := true, comstate := newState rowState i { replies := [220], rc := .ok, s := { s with ssl := true } }, badcmds := 0 }

theorem tlsInit_spec (k : Core) (w : Wire) (i : Nat) (row : Gen.Row) (hssl : k.sess.ssl = false)
    (hes : k.sess.esmtp = true) (h1 : Gen.tlsSyncBeforeReady = 1) :
    ((tlsInit k w i row).2.1.sess.ssl = false)
    ∨ (k.inn = [] ∧ (tlsInit k w i row).2.1.inn = [] ∧ (tlsInit k w i row).1 = [220]
        ∧ (tlsInit k w i row).2.2 = w ∧ (∃ t, k.hs = .ok :: t ∧ (tlsInit k w i row).2.1.hs = t)
        ∧ (tlsInit k w i row).2.1.sess = upgraded k.sess row.state i
        ∧ (tlsInit k w i row).2.1.wq = k.wq ∧ (tlsInit k w i row).2.1.dead = k.dead
        ∧ (tlsInit k w i row).2.1.lastbuf = k.lastbuf) := by
  have hg : (k.sess.ssl || !k.sess.esmtp) = false := by simp [hssl, hes]
  unfold tlsInit
  rw [if_pos h1]
  rcases hsy : syncPipelining k w with ⟨sy, k1, w1⟩
  have hs := syncPipelining_spec k w sy k1 w1 hsy
  cases sy with
  | die c => left; simp only at hs ⊢; rw [hs.1]; exact hssl
  | stuck rep => left; simp only at hs ⊢; rw [hs.1]; exact hssl
  | clear =>
    simp only at hs
    obtain ⟨hinn, rfl, rfl⟩ := hs
    simp only
    cases hh : k1.hs with
    | nil =>
      left
      dsimp only
      rw [(finish_spec _ _ _ _ _).1, smtpStarttls_ssl_ne_ok _ _ (by simp)]; exact hssl
    | cons h t =>
      cases h with
      | timeout eat => left; exact hssl
      | fail eat =>
        left
        dsimp only
        rw [(finish_spec _ _ _ _ _).1, smtpStarttls_ssl_ne_ok _ _ (by simp)]; exact hssl
      | ok =>
        right
        have hr : smtpStarttls .ok k1.sess = { replies := [220], rc := .ok, s := { k1.sess with ssl := true } } := by
          unfold smtpStarttls; simp [hg]
        dsimp only
        rw [hr, finish_ok' _ _ _ _ _ (by rfl)]
        exact ⟨hinn, hinn, rfl, rfl, ⟨t, rfl, rfl⟩, rfl, rfl, rfl, rfl⟩



/-! ### one iteration: either `ssl` keeps its value or the handshake just completed -/

theorem wqBad_ssl (k : Core) : (wqBad k).2.sess.ssl = k.sess.ssl ∧ (wqBad k).2.wq = k.wq ∧ (wqBad k).2.hs = k.hs := by
  unfold wqBad
  split <;> exact ⟨rfl, rfl, rfl⟩

theorem wqStep_keeps (k : Core) (w : Wire) :
    (wqStep k w).2.1.sess.ssl = k.sess.ssl ∧ (wqStep k w).2.1.wq = k.wq ∧ (wqStep k w).2.1.hs = k.hs := by
  unfold wqStep
  rcases hr : readLine k.inn w with ⟨r, inn', w'⟩
  dsimp only
  cases r with
  | die e => exact ⟨rfl, rfl, rfl⟩
  | line l =>
    dsimp only
    split
    · exact ⟨rfl, rfl, rfl⟩
    · exact wqBad_ssl _
  | err e =>
    dsimp only
    split
    · exact ⟨rfl, rfl, rfl⟩
    · exact wqBad_ssl _

/-- what a step that sets `ssl` looks like -/
def Upgrade (cfg : Cfg) (k : Core) (w : Wire) (e : Ev) (k' : Core) (w' : Wire) : Prop :=
  ∃ l i row, e.input = some l ∧ dispatch k.sess l = .call i row ∧ row.func = .starttls
    ∧ k.sess.esmtp = true ∧ cfg.cert = .usable ∧ k.wq = false
    ∧ k'.inn = [] ∧ e.replies = [220] ∧ e.tls = false ∧ e.handoff = none
    ∧ k'.sess = upgraded k.sess row.state i ∧ (∃ t, k.hs = .ok :: t ∧ k'.hs = t)
    ∧ k'.wq = false ∧ k'.dead = k.dead ∧ w' = w.consume ((w.toSrc).rest.length - (netRead true k.inn w.toSrc).2.2.rest.length)

theorem loopStep_cases (cfg : Cfg) (k : Core) (w : Wire) (hssl : k.sess.ssl = false) (hwq : k.wq = false)
    (h1 : Gen.tlsSyncBeforeReady = 1) :
    (loopStep cfg k w).2.1.sess.ssl = false
    ∨ Upgrade cfg k w (loopStep cfg k w).1 (loopStep cfg k w).2.1 (loopStep cfg k w).2.2 := by
  unfold loopStep
  rcases hr : readLine k.inn w with ⟨r, inn', w'⟩
  dsimp only
  cases r with
  | die e => left; exact hssl
  | err e => left; dsimp only; rw [(errPath_spec _ _ _ _ _).1]; exact hssl
  | line l =>
    dsimp only
    split
    · left; rw [(errPath_spec _ _ _ _ _).1]; exact hssl
    · cases hd : dispatch k.sess l with
      | err rc => left; dsimp only; rw [(errPath_spec _ _ _ _ _).1]; exact hssl
      | call i row =>
        dsimp only
        cases hf : row.func with
        | starttls =>
          dsimp only
          split
          · left; rw [(finish_spec _ _ _ _ _).1, smtpStarttls_guarded _ _ (by assumption)]; exact hssl
          · rename_i hg
            cases hc : cfg.cert with
            | unusable => left; dsimp only; rw [(finish_spec _ _ _ _ _).1, smtpStarttls_ssl_ne_ok _ _ (by simp)]; exact hssl
            | ciphersUnreadable => left; dsimp only; rw [(finish_spec _ _ _ _ _).1]; exact hssl
            | usable =>
              dsimp only
              have hes : k.sess.esmtp = true := by
                cases he : k.sess.esmtp <;> simp_all
              rcases tlsInit_spec { k with inn := inn', lastbuf := bufAfter k.inn w.toSrc k.lastbuf } w' i row hssl hes h1 with h | h
              · left; exact h
              · right
                obtain ⟨_, h2, h3, h4, h5, h6, h7, h8, _⟩ := h
                refine ⟨l, i, row, rfl, hd, hf, hes, hc, hwq, h2, h3, hssl, rfl, h6, h5, ?_, h8, ?_⟩
                · rw [h7]; exact hwq
                · rw [h4]
                  unfold readLine at hr
                  simp only [Prod.mk.injEq] at hr
                  exact hr.2.2.symm
        | noop =>
          left
          dsimp only
          rcases hsy : syncPipelining { k with inn := inn', lastbuf := bufAfter k.inn w.toSrc k.lastbuf } w' with ⟨sy, k2, w2⟩
          have hs := syncPipelining_spec _ _ sy k2 w2 hsy
          cases sy with
          | die c => dsimp only at hs ⊢; rw [hs.1]; exact hssl
          | stuck rep => dsimp only at hs ⊢; rw [hs.1]; exact hssl
          | clear =>
            dsimp only at hs ⊢
            obtain ⟨_, rfl, rfl⟩ := hs
            rw [(finish_spec _ _ _ _ _).1, runFunc_ssl _ _ _ _ _ (by simp)]; exact hssl
        | data =>
          left
          dsimp only
          split
          · rcases hp : dataPending false inn' w' with ⟨p, inn2, w2⟩
            rw [hssl]
            rw [hp]
            cases p <;> dsimp only
            · rw [(finish_spec _ _ _ _ _).1, runFunc_ssl _ _ _ _ _ (by simp)]; exact hssl
            · rw [(finish_spec _ _ _ _ _).1, runFunc_ssl _ _ _ _ _ (by simp)]; exact hssl
            · exact hssl
          · rcases hsy : syncPipelining { k with inn := inn', lastbuf := bufAfter k.inn w.toSrc k.lastbuf } w' with ⟨sy, k2, w2⟩
            have hs := syncPipelining_spec _ _ sy k2 w2 hsy
            cases sy with
            | die c => dsimp only at hs ⊢; rw [hs.1]; exact hssl
            | stuck rep => dsimp only at hs ⊢; rw [hs.1]; exact hssl
            | clear =>
              dsimp only at hs ⊢
              obtain ⟨_, rfl, rfl⟩ := hs
              split
              · split
                · exact hssl
                · dsimp only; rw [(finish_spec _ _ _ _ _).1, runFunc_ssl _ _ _ _ _ (by simp)]; exact hssl
              · rw [(finish_spec _ _ _ _ _).1, runFunc_ssl _ _ _ _ _ (by simp)]; exact hssl
        | ehlo => left; dsimp only; rw [(finish_spec _ _ _ _ _).1, runFunc_ssl _ _ _ _ _ (by simp)]; exact hssl
        | quit => left; dsimp only; rw [(finish_spec _ _ _ _ _).1, runFunc_ssl _ _ _ _ _ (by simp)]; exact hssl
        | rset => left; dsimp only; rw [(finish_spec _ _ _ _ _).1, runFunc_ssl _ _ _ _ _ (by simp)]; exact hssl
        | helo => left; dsimp only; rw [(finish_spec _ _ _ _ _).1, runFunc_ssl _ _ _ _ _ (by simp)]; exact hssl
        | mail => left; dsimp only; rw [(finish_spec _ _ _ _ _).1, runFunc_ssl _ _ _ _ _ (by simp)]; exact hssl
        | rcpt => left; dsimp only; rw [(finish_spec _ _ _ _ _).1, runFunc_ssl _ _ _ _ _ (by simp)]; exact hssl
        | auth => left; dsimp only; rw [(finish_spec _ _ _ _ _).1, runFunc_ssl _ _ _ _ _ (by simp)]; exact hssl
        | vrfy => left; dsimp only; rw [(finish_spec _ _ _ _ _).1, runFunc_ssl _ _ _ _ _ (by simp)]; exact hssl
        | bdat => left; dsimp only; rw [(finish_spec _ _ _ _ _).1, runFunc_ssl _ _ _ _ _ (by simp)]; exact hssl
        | post => left; dsimp only; rw [(finish_spec _ _ _ _ _).1, runFunc_ssl _ _ _ _ _ (by simp)]; exact hssl



theorem stepOn_cases (cfg : Cfg) (k : Core) (w : Wire) (hssl : k.sess.ssl = false) (h1 : Gen.tlsSyncBeforeReady = 1) :
    (stepOn cfg k w).2.1.sess.ssl = false
    ∨ Upgrade cfg k w (stepOn cfg k w).1 (stepOn cfg k w).2.1 (stepOn cfg k w).2.2 := by
  unfold stepOn
  split
  · left; rw [(wqStep_keeps k w).1]; exact hssl
  · rename_i h
    exact loopStep_cases cfg k w hssl (by simpa using h) h1

/-! ### `ssl` never goes back -/

theorem errPath_ssl_true (k : Core) (w : Wire) (pre : List Nat) (rc : Rc) (s : Sess) (h : s.ssl = true) :
    (errPath k w pre rc s).2.1.sess.ssl = true := by rw [(errPath_spec _ _ _ _ _).1]; exact h

theorem smtpStarttls_ssl_keep (v : TlsHsV) (s : Sess) (h : s.ssl = true) : (smtpStarttls v s).s.ssl = true := by
  rw [smtpStarttls_guarded v s (by simp [h])]; exact h

theorem loopStep_ssl_mono (cfg : Cfg) (k : Core) (w : Wire) (hssl : k.sess.ssl = true) :
    (loopStep cfg k w).2.1.sess.ssl = true := by
  unfold loopStep
  rcases hr : readLine k.inn w with ⟨r, inn', w'⟩
  dsimp only
  cases r with
  | die e => exact hssl
  | err e => dsimp only; rw [(errPath_spec _ _ _ _ _).1]; exact hssl
  | line l =>
    dsimp only
    split
    · rw [(errPath_spec _ _ _ _ _).1]; exact hssl
    · cases hd : dispatch k.sess l with
      | err rc => dsimp only; rw [(errPath_spec _ _ _ _ _).1]; exact hssl
      | call i row =>
        dsimp only
        cases hf : row.func with
        | starttls =>
          dsimp only
          rw [if_pos (by simp [hssl])]
          rw [(finish_spec _ _ _ _ _).1]; exact smtpStarttls_ssl_keep _ _ hssl
        | noop =>
          dsimp only
          rcases hsy : syncPipelining { k with inn := inn', lastbuf := bufAfter k.inn w.toSrc k.lastbuf } w' with ⟨sy, k2, w2⟩
          have hs := syncPipelining_spec _ _ sy k2 w2 hsy
          cases sy with
          | die c => dsimp only at hs ⊢; rw [hs.1]; exact hssl
          | stuck rep => dsimp only at hs ⊢; rw [hs.1]; exact hssl
          | clear =>
            dsimp only at hs ⊢
            obtain ⟨_, rfl, rfl⟩ := hs
            rw [(finish_spec _ _ _ _ _).1, runFunc_ssl _ _ _ _ _ (by simp)]; exact hssl
        | data =>
          dsimp only
          split
          · rcases hp : dataPending k.sess.ssl inn' w' with ⟨p, inn2, w2⟩
            cases p <;> dsimp only
            · rw [(finish_spec _ _ _ _ _).1, runFunc_ssl _ _ _ _ _ (by simp)]; exact hssl
            · rw [(finish_spec _ _ _ _ _).1, runFunc_ssl _ _ _ _ _ (by simp)]; exact hssl
            · exact hssl
          · rcases hsy : syncPipelining { k with inn := inn', lastbuf := bufAfter k.inn w.toSrc k.lastbuf } w' with ⟨sy, k2, w2⟩
            have hs := syncPipelining_spec _ _ sy k2 w2 hsy
            cases sy with
            | die c => dsimp only at hs ⊢; rw [hs.1]; exact hssl
            | stuck rep => dsimp only at hs ⊢; rw [hs.1]; exact hssl
            | clear =>
              dsimp only at hs ⊢
              obtain ⟨_, rfl, rfl⟩ := hs
              split
              · split
                · exact hssl
                · dsimp only; rw [(finish_spec _ _ _ _ _).1, runFunc_ssl _ _ _ _ _ (by simp)]; exact hssl
              · rw [(finish_spec _ _ _ _ _).1, runFunc_ssl _ _ _ _ _ (by simp)]; exact hssl
        | ehlo => dsimp only; rw [(finish_spec _ _ _ _ _).1, runFunc_ssl _ _ _ _ _ (by simp)]; exact hssl
        | quit => dsimp only; rw [(finish_spec _ _ _ _ _).1, runFunc_ssl _ _ _ _ _ (by simp)]; exact hssl
        | rset => dsimp only; rw [(finish_spec _ _ _ _ _).1, runFunc_ssl _ _ _ _ _ (by simp)]; exact hssl
        | helo => dsimp only; rw [(finish_spec _ _ _ _ _).1, runFunc_ssl _ _ _ _ _ (by simp)]; exact hssl
        | mail => dsimp only; rw [(finish_spec _ _ _ _ _).1, runFunc_ssl _ _ _ _ _ (by simp)]; exact hssl
        | rcpt => dsimp only; rw [(finish_spec _ _ _ _ _).1, runFunc_ssl _ _ _ _ _ (by simp)]; exact hssl
        | auth => dsimp only; rw [(finish_spec _ _ _ _ _).1, runFunc_ssl _ _ _ _ _ (by simp)]; exact hssl
        | vrfy => dsimp only; rw [(finish_spec _ _ _ _ _).1, runFunc_ssl _ _ _ _ _ (by simp)]; exact hssl
        | bdat => dsimp only; rw [(finish_spec _ _ _ _ _).1, runFunc_ssl _ _ _ _ _ (by simp)]; exact hssl
        | post => dsimp only; rw [(finish_spec _ _ _ _ _).1, runFunc_ssl _ _ _ _ _ (by simp)]; exact hssl

theorem stepOn_ssl_mono (cfg : Cfg) (k : Core) (w : Wire) (hssl : k.sess.ssl = true) :
    (stepOn cfg k w).2.1.sess.ssl = true := by
  unfold stepOn
  split
  · rw [(wqStep_keeps k w).1]; exact hssl
  · exact loopStep_ssl_mono cfg k w hssl

/-! ### after the handshake only the TLS wire exists -/

theorem connStep_tls (cfg : Cfg) (c : Conn) (h : c.core.sess.ssl = true) :
    connStep cfg c = ((stepOn cfg c.core c.tls).1, { c with core := (stepOn cfg c.core c.tls).2.1, tls := (stepOn cfg c.core c.tls).2.2 }) := by
  unfold connStep
  rw [if_pos h]

theorem runFrom_tls (cfg : Cfg) (fuel : Nat) : ∀ (c : Conn), c.core.sess.ssl = true →
    (runFrom cfg c fuel).1 = (runOn cfg c.core c.tls fuel).1
    ∧ (runFrom cfg c fuel).2.clear = c.clear
    ∧ (runFrom cfg c fuel).2.core = (runOn cfg c.core c.tls fuel).2.1
    ∧ (runFrom cfg c fuel).2.tls = (runOn cfg c.core c.tls fuel).2.2 := by
  induction fuel with
  | zero => intro c _; exact ⟨rfl, rfl, rfl, rfl⟩
  | succ n ih =>
    intro c h
    unfold runFrom runOn
    split
    · exact ⟨rfl, rfl, rfl, rfl⟩
    · rw [connStep_tls cfg c h]
      dsimp only
      have hm := stepOn_ssl_mono cfg c.core c.tls h
      have := ih { c with core := (stepOn cfg c.core c.tls).2.1, tls := (stepOn cfg c.core c.tls).2.2 } hm
      dsimp only at this
      obtain ⟨a, b, c', d⟩ := this
      exact ⟨by rw [a], b, c', d⟩



/-! ### table facts about the dispatch -/

theorem dispatch_call (s : Sess) (l : List Byte) (i : Nat) (row : Gen.Row) (h : dispatch s l = .call i row) :
    findRow l Gen.commands 0 = some (i, row) ∧ s.comstate &&& row.mask ≠ 0 := by
  unfold dispatch at h
  split at h
  · simp at h
  · rename_i i' row' hf
    split at h
    · rename_i hm
      split at h
      · simp at h
      · split at h
        · simp at h
        · split at h
          · simp at h
          · simp only [Disp.call.injEq] at h
            obtain ⟨rfl, rfl⟩ := h
            exact ⟨hf, hm⟩
    · simp at h

theorem row_mem (l : List Byte) (i : Nat) (row : Gen.Row) (h : findRow l Gen.commands 0 = some (i, row)) :
    Gen.commands[i]? = some row := by
  obtain ⟨j, hj, hi⟩ := findRow_spec l Gen.commands 0 i row h
  simp at hi; subst hi; exact hj

theorem starttls_row_facts (i : Nat) (row : Gen.Row) (h : Gen.commands[i]? = some row) (hf : row.func = .starttls) :
    row.mask = 0x10 ∧ row.state = 1 ∧ i = 8 := by
  rcases commands_get i row h with ⟨rfl, rfl⟩ | ⟨rfl, rfl⟩ | ⟨rfl, rfl⟩ | ⟨rfl, rfl⟩ | ⟨rfl, rfl⟩ | ⟨rfl, rfl⟩ | ⟨rfl, rfl⟩ | ⟨rfl, rfl⟩ | ⟨rfl, rfl⟩ | ⟨rfl, rfl⟩ | ⟨rfl, rfl⟩ | ⟨rfl, rfl⟩ <;> simp_all

/-- the tie between this module's dispatch and `Session.step` -/
theorem step_eq_dispatch (env : Env) (s : Sess) (l : List Byte) (v : Verdicts) (hc : s.closed = false) :
    step env s (.line l v) = match dispatch s l with
      | .err rc => errOut rc s
      | .call i row => finishStep row.state i (runFunc env v row.func s l) := by
  unfold step dispatch
  simp only [hc, Bool.false_eq_true, if_false]
  cases hf : findRow l Gen.commands 0 with
  | none => rfl
  | some p =>
    obtain ⟨i, row⟩ := p
    dsimp only
    by_cases hm : s.comstate &&& row.mask ≠ 0
    · rw [if_pos hm, if_pos hm]
      by_cases h2 : row.flags &&& 2 = 0 ∧ l.length > Gen.cmdLineMax
      · rw [if_pos h2, if_pos h2]
      · rw [if_neg h2, if_neg h2]
        by_cases h3 : row.flags &&& 1 = 0 ∧ l.length > row.name.length
        · rw [if_pos h3, if_pos h3]
        · rw [if_neg h3, if_neg h3]
          by_cases h4 : row.flags &&& 4 ≠ 0 ∧ l[row.name.length]? ≠ some SP
          · rw [if_pos h4, if_pos h4]
          · rw [if_neg h4, if_neg h4]
    · rw [if_neg hm, if_neg hm]



/-! ### every reachable state satisfies the session invariant -/

theorem step_inv (env : Env) (s : Sess) (inp : Input) (hI : s.closed = true ∨ Inv s) (hw : inp.Wf) :
    (step env s inp).2.closed = true ∨ Inv (step env s inp).2 :=
  (step_refines env s ⟨decide (s.comstate ≠ 1), if inTx s then some s.mailfrom else none, okAddrs s⟩ inp hI
    (Or.inr ⟨rfl, rfl, rfl⟩) hw).1

/-- dead, closed, or the invariant of `Lemmas/Session.lean` -/
def CI (k : Core) : Prop := k.dead.isSome = true ∨ k.sess.closed = true ∨ Inv k.sess

theorem ci_of_sess (k k' : Core) (h : k'.sess = k.sess) (hd : k'.dead = k.dead) (hI : CI k) : CI k' := by
  unfold CI at *; rw [h, hd]; exact hI

theorem handleError_inv (rc : Rc) (s : Sess) (hI : s.closed = true ∨ Inv s) :
    (handleError rc s).2.closed = true ∨ Inv (handleError rc s).2 := by
  have := step_inv {} s (.readErr rc) hI trivial
  unfold step at this
  by_cases hc : s.closed = true
  · left
    unfold handleError
    split
    · rfl
    · cases rc <;> exact hc
  · rw [if_neg hc] at this
    exact this

theorem errPath_inv (k : Core) (w : Wire) (pre : List Nat) (rc : Rc) (s : Sess) (hd : k.dead = none)
    (hI : s.closed = true ∨ Inv s) : CI (errPath k w pre rc s).2.1 := by
  rcases (errPath_spec k w pre rc s).2.2.2 with ⟨h1, _⟩ | h
  · right; rw [h1]; exact handleError_inv rc s hI
  · left; rw [h]; rfl

theorem finish_inv (k : Core) (w : Wire) (st : Int) (i : Nat) (r : FuncRes)
    (hI : (finishStep st i r).2.closed = true ∨ Inv (finishStep st i r).2) : CI (finish k w st i r).2.2.1 := by
  rcases (finish_spec k w st i r).2.2.2 with ⟨h1, _⟩ | h
  · right; rw [h1]; exact hI
  · left; rw [h]; rfl

/-- the result of a command function that ran, as `Session.step` sees it -/
theorem finishStep_is_step (env : Env) (s : Sess) (l : List Byte) (v : Verdicts) (i : Nat) (row : Gen.Row)
    (hc : s.closed = false) (hd : dispatch s l = .call i row) :
    finishStep row.state i (runFunc env v row.func s l) = step env s (.line l v) := by
  rw [step_eq_dispatch env s l v hc, hd]

theorem call_inv (env : Env) (s : Sess) (l : List Byte) (v : Verdicts) (i : Nat) (row : Gen.Row)
    (hd : dispatch s l = .call i row) (hc : s.closed = false) (hI : Inv s) (hw : v.rcpt.Wf) :
    (finishStep row.state i (runFunc env v row.func s l)).2.closed = true
      ∨ Inv (finishStep row.state i (runFunc env v row.func s l)).2 := by
  rw [finishStep_is_step env s l v i row hc hd]
  exact step_inv env s (.line l v) (Or.inr hI) hw

theorem wqStep_inv (k : Core) (w : Wire) (hI : Inv k.sess) : CI (wqStep k w).2.1 := by
  unfold wqStep
  rcases hr : readLine k.inn w with ⟨r, inn', w'⟩
  dsimp only
  have hbad : ∀ k1 : Core, k1.sess = k.sess → CI (wqBad k1).2 := by
    intro k1 h1
    unfold wqBad
    split
    · right; left; rfl
    · right; right; rw [h1]; exact sameTx_inv k.sess _ ⟨rfl, rfl, rfl, rfl, rfl⟩ hI
  cases r with
  | die e => left; rfl
  | line l =>
    dsimp only
    split
    · right; left; rfl
    · exact hbad _ rfl
  | err e =>
    dsimp only
    split
    · right; left; rfl
    · exact hbad _ rfl

theorem loopStep_inv (cfg : Cfg) (k : Core) (w : Wire) (hv : ∀ l, (cfg.verd l).rcpt.Wf)
    (hdead : k.dead = none) (hcl : k.sess.closed = false) (hI : Inv k.sess) : CI (loopStep cfg k w).2.1 := by
  unfold loopStep
  rcases hr : readLine k.inn w with ⟨r, inn', w'⟩
  dsimp only
  cases r with
  | die e => left; rfl
  | err e => dsimp only; exact errPath_inv _ _ _ _ _ hdead (Or.inr hI)
  | line l =>
    dsimp only
    split
    · exact errPath_inv _ _ _ _ _ hdead (Or.inr hI)
    · cases hd : dispatch k.sess l with
      | err rc => dsimp only; exact errPath_inv _ _ _ _ _ hdead (Or.inr hI)
      | call i row =>
        dsimp only
        have hcall : ∀ v : Verdicts, v.rcpt.Wf → ∀ (k0 : Core) (w0 : Wire),
            CI (finish k0 w0 row.state i (runFunc cfg.env v row.func k.sess l)).2.2.1 :=
          fun v hw k0 w0 => finish_inv _ _ _ _ _ (call_inv cfg.env k.sess l v i row hd hcl hI hw)
        cases hf : row.func with
        | starttls =>
          rw [hf] at hcall
          have hst : ∀ (x : TlsHsV) (k0 : Core) (w0 : Wire), CI (finish k0 w0 row.state i (smtpStarttls x k.sess)).2.2.1 :=
            fun x k0 w0 => hcall { cfg.verd l with tls := x } (hv l) k0 w0
          dsimp only
          split
          · exact hst _ _ _
          · cases hc : cfg.cert with
            | unusable => exact hst _ _ _
            | ciphersUnreadable =>
              dsimp only
              refine finish_inv _ w' row.state i ⟨[421], .other 500, k.sess, none, none⟩ ?_
              unfold finishStep
              rw [if_neg (by simp)]
              exact handleError_inv _ _ (Or.inr hI)
            | usable =>
              dsimp only
              unfold tlsInit
              rcases hsy : (if Gen.tlsSyncBeforeReady = 1 then syncPipelining { k with inn := inn', lastbuf := bufAfter k.inn w.toSrc k.lastbuf } w'
                  else (Sync.clear, { k with inn := inn', lastbuf := bufAfter k.inn w.toSrc k.lastbuf }, w')) with ⟨sy, k2, w2⟩
              have hk2 : (sy = .clear → k2.sess = k.sess ∧ k2.dead = none) ∧ (∀ rep, sy = .stuck rep → k2.sess = k.sess ∧ k2.dead = none)
                  ∧ (∀ c, sy = .die c → k2.dead = some ECONNRESET) := by
                split at hsy
                · have hs := syncPipelining_spec _ _ sy k2 w2 hsy
                  cases sy with
                  | clear => simp only at hs; obtain ⟨_, rfl, _⟩ := hs; simp [hdead]
                  | stuck rep => simp only at hs; simp [hs.1, hs.2.2.2.1, hdead]
                  | die c => simp only at hs; simp [hs.2.1]
                · simp only [Prod.mk.injEq] at hsy
                  obtain ⟨rfl, rfl, rfl⟩ := hsy
                  simp [hdead]
              dsimp only
              cases sy with
              | die c => left; dsimp only; rw [hk2.2.2 c rfl]; rfl
              | stuck rep => right; right; dsimp only; rw [(hk2.2.1 rep rfl).1]; exact hI
              | clear =>
                dsimp only
                obtain ⟨hs2, _⟩ := hk2.1 rfl
                cases k2.hs with
                | nil => dsimp only; rw [hs2]; exact hst _ _ _
                | cons h t =>
                  cases h with
                  | timeout eat => left; rfl
                  | fail eat => dsimp only; rw [hs2]; exact hst _ _ _
                  | ok => dsimp only; rw [hs2]; exact hst _ _ _
        | noop =>
          dsimp only
          rcases hsy : syncPipelining { k with inn := inn', lastbuf := bufAfter k.inn w.toSrc k.lastbuf } w' with ⟨sy, k2, w2⟩
          have hs := syncPipelining_spec _ _ sy k2 w2 hsy
          cases sy with
          | die c => left; dsimp only at hs ⊢; rw [hs.2.1]; rfl
          | stuck rep => right; right; dsimp only at hs ⊢; rw [hs.1]; exact hI
          | clear =>
            dsimp only at hs ⊢
            obtain ⟨_, rfl, rfl⟩ := hs
            rw [← hf]; exact hcall _ (hv l) _ _
        | data =>
          dsimp only
          split
          · rcases hp : dataPending k.sess.ssl inn' w' with ⟨p, inn2, w2⟩
            cases p <;> dsimp only
            · rw [← hf]; exact hcall _ (hv l) _ _
            · rw [← hf]; exact hcall _ (hv l) _ _
            · left; rfl
          · rcases hsy : syncPipelining { k with inn := inn', lastbuf := bufAfter k.inn w.toSrc k.lastbuf } w' with ⟨sy, k2, w2⟩
            have hs := syncPipelining_spec _ _ sy k2 w2 hsy
            cases sy with
            | die c => left; dsimp only at hs ⊢; rw [hs.2.1]; rfl
            | stuck rep => right; right; dsimp only at hs ⊢; rw [hs.1]; exact hI
            | clear =>
              dsimp only at hs ⊢
              obtain ⟨_, rfl, rfl⟩ := hs
              split
              · split
                · left; rfl
                · dsimp only; rw [← hf]; exact hcall _ (hv l) _ _
              · rw [← hf]; exact hcall _ (hv l) _ _
        | ehlo => dsimp only; rw [← hf]; exact hcall _ (hv l) _ _
        | quit => dsimp only; rw [← hf]; exact hcall _ (hv l) _ _
        | rset => dsimp only; rw [← hf]; exact hcall _ (hv l) _ _
        | helo => dsimp only; rw [← hf]; exact hcall _ (hv l) _ _
        | mail => dsimp only; rw [← hf]; exact hcall _ (hv l) _ _
        | rcpt => dsimp only; rw [← hf]; exact hcall _ (hv l) _ _
        | auth => dsimp only; rw [← hf]; exact hcall _ (hv l) _ _
        | vrfy => dsimp only; rw [← hf]; exact hcall _ (hv l) _ _
        | bdat => dsimp only; rw [← hf]; exact hcall _ (hv l) _ _
        | post => dsimp only; rw [← hf]; exact hcall _ (hv l) _ _



theorem stepOn_inv (cfg : Cfg) (k : Core) (w : Wire) (hv : ∀ l, (cfg.verd l).rcpt.Wf)
    (hdead : k.dead = none) (hcl : k.sess.closed = false) (hI : Inv k.sess) : CI (stepOn cfg k w).2.1 := by
  unfold stepOn
  split
  · exact wqStep_inv k w hI
  · exact loopStep_inv cfg k w hv hdead hcl hI

theorem not_stopped (k : Core) (h : k.stopped = false) : k.dead = none ∧ k.sess.closed = false := by
  unfold Core.stopped at h
  cases hd : k.dead <;> cases hc : k.sess.closed <;> simp_all

theorem connStep_inv (cfg : Cfg) (c : Conn) (hv : ∀ l, (cfg.verd l).rcpt.Wf) (hs : c.core.stopped = false)
    (hI : CI c.core) : CI (connStep cfg c).2.core := by
  obtain ⟨hd, hc⟩ := not_stopped _ hs
  have hI' : Inv c.core.sess := by
    rcases hI with h | h | h
    · rw [hd] at h; simp at h
    · rw [hc] at h; simp at h
    · exact h
  unfold connStep
  split
  · exact stepOn_inv cfg c.core c.tls hv hd hc hI'
  · exact stepOn_inv cfg c.core c.clear hv hd hc hI'

theorem greet_inv (c : Conn) (h : c.core.sess = {}) : CI (greet c).2.core := by
  unfold greet
  dsimp only
  rcases hp : dataPendingClear c.core.inn c.clear with ⟨p, inn', w'⟩
  cases p with
  | no => right; right; dsimp only; rw [h]; exact inv_init
  | die => left; rfl
  | yes =>
    dsimp only
    rcases hr : readLine inn' w' with ⟨r, inn2, w2⟩
    dsimp only
    cases r with
    | die e => left; rfl
    | err e =>
      dsimp only
      rcases hr3 : readLine inn2 w2 with ⟨r3, inn3, w3⟩
      dsimp only
      cases r3 with
      | die e => left; rfl
      | line l =>
        dsimp only
        split
        · right; left; rfl
        · right; right; dsimp only; rw [h]; exact inv_init
      | err e =>
        dsimp only
        split
        · right; left; rfl
        · right; right; dsimp only; rw [h]; exact inv_init
    | line l =>
      dsimp only
      split
      · right; left; rfl
      · right; right; dsimp only; rw [h]; exact inv_init

theorem runFrom_inv (cfg : Cfg) (hv : ∀ l, (cfg.verd l).rcpt.Wf) (fuel : Nat) :
    ∀ c : Conn, CI c.core → CI (runFrom cfg c fuel).2.core := by
  induction fuel with
  | zero => intro c h; exact h
  | succ n ih =>
    intro c h
    unfold runFrom
    split
    · exact h
    · rename_i hs
      exact ih _ (connStep_inv cfg c hv (by simpa using hs) h)

/-- every state a connection passes through satisfies the invariant (or the program has ended) -/
theorem run_inv (cfg : Cfg) (hv : ∀ l, (cfg.verd l).rcpt.Wf) (clear tls : Wire) (hs : List HsV) (fuel : Nat) :
    CI (run cfg clear tls hs fuel).2.core := by
  unfold run
  exact runFrom_inv cfg hv fuel _ (greet_inv _ rfl)

/-! ### the state a completed handshake leaves -/

theorem upgrade_state (cfg : Cfg) (k : Core) (w : Wire) (e : Ev) (k' : Core) (w' : Wire)
    (hU : Upgrade cfg k w e k' w') (hI : Inv k.sess) :
    k.sess.comstate = 0x10 ∧ k'.sess.comstate = 1 ∧ k'.sess.mailfrom = [] ∧ k'.sess.rcpts = []
    ∧ k'.sess.goodrcpt = 0 ∧ k'.sess.rcptcount = 0 ∧ k'.sess.ssl = true ∧ k'.sess.esmtp = true
    ∧ k'.sess.authname = k.sess.authname := by
  obtain ⟨l, i, row, _, hd, hf, hes, _, _, _, _, _, _, hs, _⟩ := hU
  obtain ⟨hrow, hmask⟩ := dispatch_call _ _ _ _ hd
  obtain ⟨hm, hst, _⟩ := starttls_row_facts i row (row_mem l i row hrow) hf
  rw [hm] at hmask
  have hcs : k.sess.comstate = 0x10 := by
    rcases hI.cs with h | h | h | h | h <;> simp [h] at hmask ⊢
  have hidle := hI.idle (by simp [inTx, hcs])
  have hg := hI.good
  have hc := hI.cnt
  rw [hidle.2] at hg hc
  rw [hs]
  have hg' : k.sess.goodrcpt = 0 := by simpa using hg
  have hc' : k.sess.rcptcount = 0 := by simpa using hc
  refine ⟨hcs, ?_, hidle.1, hidle.2, hg', hc', rfl, hes, rfl⟩
  simp [upgraded, newState, hst]



/-! ### clear text behind STARTTLS is refused -/

theorem probeLen_eq : Gen.probeLen = 1 := rfl

theorem dataPendingClear_poll (w : Wire) (b : Byte) (bs : List Byte) (is : List Item)
    (h : skipEmpty w.items = .seg (b :: bs) :: is) :
    dataPendingClear [] w = (.yes, [b], { items := .seg bs :: is, part := !bs.isEmpty }) := by
  unfold dataPendingClear pollReady
  rw [h, probeLen_eq]
  simp

/-- sync_pipelining() in ESMTP mode without TLS: anything in the look-ahead buffer, or a segment that
has arrived (poll), ends in the 503 and wait_for_quit(); nothing else changes -/
theorem syncPipelining_stuck (k : Core) (w : Wire) (hssl : k.sess.ssl = false) (hes : k.sess.esmtp = true)
    (hp : k.inn ≠ [] ∨ ∃ b bs is, skipEmpty w.items = .seg (b :: bs) :: is) :
    ∃ k1 w1, syncPipelining k w = (.stuck [Gen.pipeErrCode], k1, w1) ∧ k1.sess = k.sess ∧ k1.wq = true
      ∧ k1.dead = k.dead ∧ k1.hs = k.hs ∧ k1.inn ≠ [] := by
  unfold syncPipelining
  by_cases hi : k.inn = []
  · rcases hp with hp | ⟨b, bs, is, hp⟩
    · exact absurd hi hp
    · have : dataPending k.sess.ssl k.inn w = (.yes, [b], { items := .seg bs :: is, part := !bs.isEmpty }) := by
        rw [hssl, hi]; unfold dataPending; simp only [Bool.false_eq_true, if_false]; exact dataPendingClear_poll w b bs is hp
      rw [this]
      simp [hes]
  · rw [dataPending_inn _ _ _ hi]
    simp [hes, hi]

theorem tlsInit_pending (k : Core) (w : Wire) (i : Nat) (row : Gen.Row) (hssl : k.sess.ssl = false)
    (hes : k.sess.esmtp = true) (h1 : Gen.tlsSyncBeforeReady = 1)
    (hp : k.inn ≠ [] ∨ ∃ b bs is, skipEmpty w.items = .seg (b :: bs) :: is) :
    (tlsInit k w i row).1 = [Gen.pipeErrCode] ∧ (tlsInit k w i row).2.1.sess = k.sess
      ∧ (tlsInit k w i row).2.1.wq = true ∧ (tlsInit k w i row).2.1.dead = k.dead
      ∧ (tlsInit k w i row).2.1.hs = k.hs := by
  obtain ⟨k1, w1, hs, a, b, c, d, _⟩ := syncPipelining_stuck k w hssl hes hp
  unfold tlsInit
  rw [if_pos h1, hs]
  exact ⟨rfl, a, b, c, d⟩

/-! ### wait_for_quit() -/

theorem wqStep_inert (k : Core) (w : Wire) :
    (wqStep k w).1.handoff = none ∧ (wqStep k w).1.offer = false
    ∧ ((wqStep k w).1.replies = [] ∨ (wqStep k w).1.replies = [221] ∨ (wqStep k w).1.replies = [Gen.waitQuitCode]
        ∨ (wqStep k w).1.replies = [Gen.tooManyCode])
    ∧ ((wqStep k w).2.1.dead.isSome = true ∨ (wqStep k w).2.1.sess.closed = true
        ∨ (SameTx k.sess (wqStep k w).2.1.sess ∧ (wqStep k w).2.1.sess.authname = k.sess.authname
            ∧ (wqStep k w).2.1.sess.esmtp = k.sess.esmtp)) := by
  unfold wqStep
  rcases hr : readLine k.inn w with ⟨r, inn', w'⟩
  dsimp only
  have hbad : ∀ k1 : Core, k1.sess = k.sess →
      ((wqBad k1).1 = [Gen.waitQuitCode] ∨ (wqBad k1).1 = [Gen.tooManyCode])
      ∧ ((wqBad k1).2.sess.closed = true ∨ (SameTx k.sess (wqBad k1).2.sess ∧ (wqBad k1).2.sess.authname = k.sess.authname
            ∧ (wqBad k1).2.sess.esmtp = k.sess.esmtp)) := by
    intro k1 h1
    unfold wqBad
    split
    · exact ⟨Or.inr rfl, Or.inl rfl⟩
    · refine ⟨Or.inl rfl, Or.inr ?_⟩
      rw [h1]; exact ⟨⟨rfl, rfl, rfl, rfl, rfl⟩, rfl, rfl⟩
  cases r with
  | die e => exact ⟨rfl, rfl, Or.inl rfl, Or.inl rfl⟩
  | line l =>
    dsimp only
    split
    · exact ⟨rfl, rfl, Or.inr (Or.inl rfl), Or.inr (Or.inl rfl)⟩
    · obtain ⟨a, b⟩ := hbad { k with inn := inn', lastbuf := bufAfter k.inn w.toSrc k.lastbuf } rfl
      refine ⟨rfl, rfl, ?_, Or.inr b⟩
      rcases a with a | a
      · exact Or.inr (Or.inr (Or.inl a))
      · exact Or.inr (Or.inr (Or.inr a))
  | err e =>
    dsimp only
    split
    · exact ⟨rfl, rfl, Or.inr (Or.inl rfl), Or.inr (Or.inl rfl)⟩
    · obtain ⟨a, b⟩ := hbad { k with inn := inn', lastbuf := bufAfter k.inn w.toSrc k.lastbuf } rfl
      refine ⟨rfl, rfl, ?_, Or.inr b⟩
      rcases a with a | a
      · exact Or.inr (Or.inr (Or.inl a))
      · exact Or.inr (Or.inr (Or.inr a))

/-! ### a handshake that does not complete -/

theorem handleError_edone (s : Sess) :
    (handleError .edone s).2.closed = true ∨ (SameTx s (handleError .edone s).2 ∧ (handleError .edone s).2.ssl = s.ssl
      ∧ (handleError .edone s).2.esmtp = s.esmtp ∧ (handleError .edone s).2.authname = s.authname) := by
  unfold handleError
  split
  · left; rfl
  · right; exact ⟨⟨rfl, rfl, rfl, rfl, rfl⟩, rfl, rfl, rfl⟩

theorem tlsInit_failed (k : Core) (w : Wire) (i : Nat) (row : Gen.Row) (hssl : k.sess.ssl = false)
    (hes : k.sess.esmtp = true) (h1 : Gen.tlsSyncBeforeReady = 1) (hh : ∀ t, k.hs ≠ .ok :: t) :
    (tlsInit k w i row).2.1.sess.ssl = false
    ∧ ((tlsInit k w i row).2.1.dead.isSome = true ∨ (tlsInit k w i row).2.1.sess.closed = true
        ∨ (SameTx k.sess (tlsInit k w i row).2.1.sess ∧ (tlsInit k w i row).2.1.sess.esmtp = k.sess.esmtp
            ∧ (tlsInit k w i row).2.1.sess.authname = k.sess.authname)) := by
  have hg : (k.sess.ssl || !k.sess.esmtp) = false := by simp [hssl, hes]
  have hfail : smtpStarttls .failed k.sess = { replies := [220, 454], rc := .edone, s := k.sess } := by
    unfold smtpStarttls; simp [hg]
  have hfin : ∀ (k0 : Core) (w0 : Wire), k0.sess = k.sess →
      (finish k0 w0 row.state i (smtpStarttls .failed k.sess)).2.2.1.sess.ssl = false
      ∧ ((finish k0 w0 row.state i (smtpStarttls .failed k.sess)).2.2.1.dead.isSome = true
          ∨ (finish k0 w0 row.state i (smtpStarttls .failed k.sess)).2.2.1.sess.closed = true
          ∨ (SameTx k.sess (finish k0 w0 row.state i (smtpStarttls .failed k.sess)).2.2.1.sess
              ∧ (finish k0 w0 row.state i (smtpStarttls .failed k.sess)).2.2.1.sess.esmtp = k.sess.esmtp
              ∧ (finish k0 w0 row.state i (smtpStarttls .failed k.sess)).2.2.1.sess.authname = k.sess.authname)) := by
    intro k0 w0 _
    have hsp := finish_spec k0 w0 row.state i (smtpStarttls .failed k.sess)
    refine ⟨by rw [hsp.1, hfail]; exact hssl, ?_⟩
    rcases hsp.2.2.2 with ⟨h2, _⟩ | h2
    · rw [h2, hfail]
      unfold finishStep
      rw [if_neg (by simp)]
      rcases handleError_edone k.sess with h | ⟨a, _, c, d⟩
      · exact Or.inr (Or.inl h)
      · exact Or.inr (Or.inr ⟨a, c, d⟩)
    · left; rw [h2]; rfl
  unfold tlsInit
  rw [if_pos h1]
  rcases hsy : syncPipelining k w with ⟨sy, k1, w1⟩
  have hs := syncPipelining_spec k w sy k1 w1 hsy
  cases sy with
  | die c => dsimp only at hs ⊢; exact ⟨by rw [hs.1]; exact hssl, Or.inl (by rw [hs.2.1]; rfl)⟩
  | stuck rep =>
    dsimp only at hs ⊢
    refine ⟨by rw [hs.1]; exact hssl, Or.inr (Or.inr ?_)⟩
    rw [hs.1]; exact ⟨⟨rfl, rfl, rfl, rfl, rfl⟩, rfl, rfl⟩
  | clear =>
    dsimp only at hs
    obtain ⟨_, rfl, rfl⟩ := hs
    dsimp only
    cases hhs : k1.hs with
    | nil => dsimp only; exact hfin _ _ rfl
    | cons h t =>
      cases h with
      | timeout eat => exact ⟨hssl, Or.inl rfl⟩
      | fail eat => dsimp only; exact hfin _ _ rfl
      | ok => exact absurd hhs (hh t)

/-! ### from the greeting state only HELO/EHLO lead on -/

theorem greeting_state_blocks (env : Env) (s : Sess) (l : List Byte) (v : Verdicts) (i : Nat) (row : Gen.Row)
    (hc : s.closed = false) (h1 : s.comstate = 1) (hrow : findRow l Gen.commands 0 = some (i, row))
    (hf : row.func = .mail ∨ row.func = .rcpt ∨ row.func = .data ∨ row.func = .auth ∨ row.func = .starttls) :
    (step env s (.line l v)).1.handoff = none
    ∧ (((step env s (.line l v)).2.closed = true ∧ (step env s (.line l v)).1.replies = [550])
       ∨ ((step env s (.line l v)).1.replies = [503] ∧ SameTx s (step env s (.line l v)).2
            ∧ (step env s (.line l v)).2.closed = false)) := by
  have hmask : s.comstate &&& row.mask = 0 := by
    rw [h1]
    rcases commands_get i row (row_mem l i row hrow) with ⟨rfl, rfl⟩ | ⟨rfl, rfl⟩ | ⟨rfl, rfl⟩ | ⟨rfl, rfl⟩ | ⟨rfl, rfl⟩ | ⟨rfl, rfl⟩ | ⟨rfl, rfl⟩ | ⟨rfl, rfl⟩ | ⟨rfl, rfl⟩ | ⟨rfl, rfl⟩ | ⟨rfl, rfl⟩ | ⟨rfl, rfl⟩ <;> simp_all
  have hstep : step env s (.line l v) = errOut .badseq s := by
    unfold step
    simp [hc, hrow, hmask]
  rw [hstep]
  unfold errOut handleError
  split
  · exact ⟨rfl, Or.inl ⟨rfl, rfl⟩⟩
  · exact ⟨rfl, Or.inr ⟨by simp [errReply], ⟨rfl, rfl, rfl, rfl, rfl⟩, hc⟩⟩



/-- the STARTTLS line that gets as far as tls_init() -/
theorem loopStep_starttls (cfg : Cfg) (k : Core) (w : Wire) (l inn' : List Byte) (w' : Wire) (i : Nat) (row : Gen.Row)
    (hr : readLine k.inn w = (.line l, inn', w'))
    (hvalid : (l.any fun b => b == 0 || b.toNat ≥ 128) = false)
    (hd : dispatch k.sess l = .call i row) (hf : row.func = .starttls)
    (hssl : k.sess.ssl = false) (hes : k.sess.esmtp = true) (hcert : cfg.cert = .usable) :
    loopStep cfg k w =
      ({ tls := false, input := some l,
         replies := (tlsInit { k with inn := inn', lastbuf := bufAfter k.inn w.toSrc k.lastbuf } w' i row).1 },
       (tlsInit { k with inn := inn', lastbuf := bufAfter k.inn w.toSrc k.lastbuf } w' i row).2.1,
       (tlsInit { k with inn := inn', lastbuf := bufAfter k.inn w.toSrc k.lastbuf } w' i row).2.2) := by
  unfold loopStep
  rw [hr]
  dsimp only
  rw [if_neg (by rw [hvalid]; simp), hd]
  dsimp only
  rw [hf]
  dsimp only
  rw [if_neg (by simp [hssl, hes]), hcert, hssl]

end QsmtpModel.StartTlsSrv
