/-
Helper lemmas for property C18 (model `QsmtpModel.StartTlsCli`):
* a small Hoare-style calculus over `Out` (`Out.sat`),
* `Stable`: predicates on the state that every reader / writer step keeps; every protocol function of
  the model keeps such a predicate,
* what `quitmsg`, `tlsInit` and `connectHost` establish.
-/
import QsmtpModel.StartTlsCli
import QsmtpModel.Spec.StartTls

namespace QsmtpModel.StartTlsCli
open QsmtpModel

/-! ### calculus -/

/-- the outcome returns with `R`, or ends (exit, or the fuel fault) in a state with `X` -/
def Out.sat {α : Type} (o : Out α) (R : α → S → Prop) (X : S → Prop) : Prop :=
  match o with
  | .ret a s => R a s
  | .exit s => X s
  | .fault _ s => X s

theorem sat_bind {α β : Type} {o : Out α} {f : α → S → Out β} {R' : α → S → Prop} {X : S → Prop}
    {R : β → S → Prop} (h : o.sat R' X) (hf : ∀ a s, R' a s → (f a s).sat R X) : (o.bind f).sat R X := by
  cases o with
  | ret a s => exact hf a s h
  | exit s => exact h
  | fault e s => exact h

theorem sat_mono {α : Type} {o : Out α} {R R' : α → S → Prop} {X X' : S → Prop}
    (h : o.sat R X) (hr : ∀ a s, R a s → R' a s) (hx : ∀ s, X s → X' s) : o.sat R' X' := by
  cases o with
  | ret a s => exact hr a s h
  | exit s => exact hx s h
  | fault e s => exact hx s h

@[simp] theorem sat_ret {α : Type} (a : α) (s : S) (R : α → S → Prop) (X : S → Prop) :
    (Out.ret a s).sat R X = R a s := rfl
@[simp] theorem sat_exit {α : Type} (s : S) (R : α → S → Prop) (X : S → Prop) :
    (Out.exit s : Out α).sat R X = X s := rfl
@[simp] theorem sat_fault {α : Type} (f : Fault) (s : S) (R : α → S → Prop) (X : S → Prop) :
    (Out.fault f s : Out α).sat R X = X s := rfl

/-- `sat_bind` that also hands the equation for the first part to the second -/
theorem sat_bind_eq {α β : Type} {o : Out α} {f : α → S → Out β} {R' : α → S → Prop} {X : S → Prop}
    {R : β → S → Prop} (h : o.sat R' X) (hf : ∀ a s, o = .ret a s → R' a s → (f a s).sat R X) : (o.bind f).sat R X := by
  cases o with
  | ret a s => exact hf a s rfl h
  | exit s => exact h
  | fault e s => exact h

theorem bind_ret {α β : Type} (a : α) (s : S) (f : α → S → Out β) : (Out.ret a s).bind f = f a s := rfl

/-! ### predicates every step keeps -/

/-- `P` survives every reader call, every write and every status line; when the program ends from a
state with `P` the final state has `X` -/
structure Stable (P X : S → Prop) : Prop where
  rd : ∀ s, P s → P (rawRead s).2
  wr : ∀ s b, P s → P { s with trace := s.trace ++ [.wr s.k s.ssl b] }
  px : ∀ s, P s → X s
  xst : ∀ s x, X s → X (wrStatus x s)
  xdown : ∀ s, X s → X { s with sock := false, ssl := false }

variable {P X : S → Prop}

theorem dieerror_sat {α : Type} (st : Stable P X) (e : Nat) (s : S) (h : X s) (R : α → S → Prop) :
    (dieerror e s : Out α).sat R X := by
  unfold dieerror
  simp only [sat_exit]
  split
  · exact st.xdown _ (st.xst _ _ h)
  · split
    · exact st.xdown _ (st.xst _ _ h)
    · exact st.xdown _ h

theorem netRead0_sat (st : Stable P X) (s : S) (h : P s) : (netRead0 s).sat (fun _ s' => P s') X := by
  unfold netRead0
  have h1 := st.rd s h
  split
  · rename_i l s1 heq; rw [heq] at h1; exact h1
  · rename_i e s1 heq; rw [heq] at h1; exact h1
  · rename_i e s1 heq; rw [heq] at h1; exact dieerror_sat st e s1 (st.px _ h1) _

theorem netnwrite_sat (st : Stable P X) (b : List Byte) (s : S) (h : P s) : (netnwrite b s).sat (fun _ s' => P s') X := by
  unfold netnwrite
  split
  · exact dieerror_sat st _ s (st.px _ h) _
  · split
    · exact st.wr s b h
    · exact dieerror_sat st _ s (st.px _ h) _

theorem sendAll_sat (st : Stable P X) (ps : List (List Byte)) (s : S) (h : P s) : (sendAll ps s).sat (fun _ s' => P s') X := by
  induction ps generalizing s with
  | nil => exact h
  | cons p ps ih =>
    unfold sendAll
    exact sat_bind (netnwrite_sat st p s h) (fun _ s1 h1 => ih s1 h1)

theorem netWriten_sat (st : Stable P X) (s0 : List Byte) (ss : List (List Byte)) (s : S) (h : P s) :
    (netWriten s0 ss s).sat (fun _ s' => P s') X := by
  unfold netWriten
  split
  · exact sendAll_sat st _ s h
  · exact st.px _ h

theorem netget0_sat (st : Stable P X) (s : S) (h : P s) : (netget0 s).sat (fun _ s' => P s') X := by
  unfold netget0
  refine sat_bind (netRead0_sat st s h) ?_
  intro r s1 h1
  split
  · split
    · exact h1
    · split
      · exact dieerror_sat st _ s1 (st.px _ h1) _
      · exact h1
  · split <;> exact h1

theorem quitLoop_sat (st : Stable P X) (fuel : Nat) (s : S) (h : P s) : (quitLoop fuel s).sat (fun _ s' => P s') X := by
  induction fuel generalizing s with
  | zero => exact st.px _ h
  | succ n ih =>
    unfold quitLoop
    refine sat_bind (netRead0_sat st s h) ?_
    intro r s1 h1
    split
    · exact h1
    · split
      · exact ih s1 h1
      · exact h1

theorem ehloLoop_sat (st : Stable P X) (sc : Int) (fuel ret : Nat) (err : Bool) (s : S) (h : P s) :
    (ehloLoop sc fuel ret err s).sat (fun _ s' => P s') X := by
  induction fuel generalizing s ret err with
  | zero => exact st.px _ h
  | succ n ih =>
    unfold ehloLoop
    split
    · refine sat_bind (netget0_sat st s h) ?_
      intro t s1 h1
      split
      · split
        · exact h1
        · exact ih _ _ s1 h1
      · split
        · simp only []
          split
          · exact ih _ _ s1 h1
          · exact ih _ _ s1 h1
        · exact ih _ _ s1 h1
    · exact h

theorem heloLoop_sat (st : Stable P X) (sc : Int) (fuel err : Nat) (s : S) (h : P s) :
    (heloLoop sc fuel err s).sat (fun _ s' => P s') X := by
  induction fuel generalizing s err with
  | zero => exact st.px _ h
  | succ n ih =>
    unfold heloLoop
    split
    · refine sat_bind (netget0_sat st s h) ?_
      intro t s1 h1
      split
      · exact h1
      · exact ih _ s1 h1
    · exact h

theorem greeting_sat (st : Stable P X) (helo : List Byte) (s : S) (h : P s) :
    (greeting helo s).sat (fun _ s' => P s') X := by
  unfold greeting
  refine sat_bind (netWriten_sat st _ _ s h) ?_
  intro _ s1 h1
  refine sat_bind (netget0_sat st s1 h1) ?_
  intro sc s2 h2
  split
  · exact h2
  · refine sat_bind (ehloLoop_sat st sc _ 0 false s2 h2) ?_
    intro r s3 h3
    split
    · exact h3
    · split
      · exact h3
      · split
        · exact h3
        · refine sat_bind (netWriten_sat st _ _ s3 h3) ?_
          intro _ s4 h4
          refine sat_bind (netget0_sat st s4 h4) ?_
          intro sc2 s5 h5
          split
          · exact h5
          · refine sat_bind (heloLoop_sat st sc2 _ 0 s5 h5) ?_
            intro r2 s6 h6
            split
            · exact h6
            · split
              · exact h6
              · split <;> exact h6

theorem starttlsLoop_sat (st : Stable P X) (fuel : Nat) (i : Int) (s : S) (h : P s) :
    (starttlsLoop fuel i s).sat (fun _ s' => P s') X := by
  induction fuel generalizing s with
  | zero => exact st.px _ h
  | succ n ih =>
    unfold starttlsLoop
    split
    · refine sat_bind (netget0_sat st s h) ?_
      intro k s1 h1
      split
      · exact h1
      · exact ih s1 h1
    · exact h

theorem bannerLoop_sat (st : Stable P X) (fuel : Nat) (sc : Int) (fe : Bool) (s : S) (h : P s) :
    (bannerLoop fuel sc fe s).sat (fun _ s' => P s') X := by
  induction fuel generalizing s fe with
  | zero => exact st.px _ h
  | succ n ih =>
    unfold bannerLoop
    split
    · refine sat_bind (netget0_sat st s h) ?_
      intro t s1 h1
      split
      · exact h1
      · split
        · exact ih _ s1 h1
        · exact h1
    · exact h

/-! ### traces -/

open QsmtpModel.Spec.StartTls

def evK : Ev → Nat
  | .conn k => k
  | .rd k _ _ => k
  | .wr k _ _ => k
  | .hs k _ => k

/-- the reader state after `n` calls -/
def rdState : Nat → List Byte → Netio.Src → List Byte × Netio.Src
  | 0, inn, src => (inn, src)
  | n + 1, inn, src =>
    let r := Netio.netRead false inn src
    rdState n r.2.1 r.2.2

theorem readSeq_succ (ek : EndKind) (n : Nat) (inn : List Byte) (src : Netio.Src) :
    readSeq ek (n + 1) inn src
      = readSeq ek n inn src ++ [rrOf ek (Netio.netRead false (rdState n inn src).1 (rdState n inn src).2).1] := by
  induction n generalizing inn src with
  | zero => simp [readSeq, rdState]
  | succ n ih =>
    rw [readSeq, ih]
    simp [readSeq, rdState]

theorem rdState_succ (n : Nat) (inn : List Byte) (src : Netio.Src) :
    rdState (n + 1) inn src
      = ((Netio.netRead false (rdState n inn src).1 (rdState n inn src).2).2.1,
         (Netio.netRead false (rdState n inn src).1 (rdState n inn src).2).2.2) := by
  induction n generalizing inn src with
  | zero => simp [rdState]
  | succ n ih =>
    rw [rdState, ih]
    simp [rdState]

theorem readSeq_length (ek : EndKind) (n : Nat) (inn : List Byte) (src : Netio.Src) : (readSeq ek n inn src).length = n := by
  induction n generalizing inn src with
  | zero => simp [readSeq]
  | succ n ih => simp [readSeq, ih]

theorem tlsReads_append (k : Nat) (a b : List Ev) : tlsReads k (a ++ b) = tlsReads k a ++ tlsReads k b := by
  simp [tlsReads, List.filterMap_append]

@[simp] theorem tlsReads_nil (k : Nat) : tlsReads k [] = [] := rfl
@[simp] theorem tlsReads_rd_clear (k k' : Nat) (r : Rr) : tlsReads k [.rd k' false r] = [] := by simp [tlsReads]
@[simp] theorem tlsReads_rd_tls (k : Nat) (r : Rr) : tlsReads k [.rd k true r] = [r] := by simp [tlsReads]
theorem tlsReads_rd_other (k k' : Nat) (b : Bool) (r : Rr) (h : k' ≠ k) : tlsReads k [.rd k' b r] = [] := by
  cases b <;> simp [tlsReads, h]
@[simp] theorem tlsReads_wr (k k' : Nat) (b : Bool) (x : List Byte) : tlsReads k [.wr k' b x] = [] := by simp [tlsReads]
@[simp] theorem tlsReads_hs (k k' : Nat) (r : Int) : tlsReads k [.hs k' r] = [] := by simp [tlsReads]
@[simp] theorem tlsReads_conn (k k' : Nat) : tlsReads k [.conn k'] = [] := by simp [tlsReads]

theorem tlsReads_eq_nil_of_lt (k : Nat) (tr : List Ev) (h : ∀ ev ∈ tr, evK ev < k) : tlsReads k tr = [] := by
  induction tr with
  | nil => rfl
  | cons ev rest ih =>
    have h1 := h ev (by simp)
    have h2 := ih (fun e he => h e (by simp [he]))
    rw [show ev :: rest = [ev] ++ rest from rfl, tlsReads_append, h2]
    cases ev with
    | conn k' => simp
    | rd k' b r =>
      have : k' ≠ k := by simp [evK] at h1; omega
      simp [tlsReads_rd_other k k' b r this]
    | wr k' b x => simp
    | hs k' r => simp

/-- the hosts with a successful handshake in a trace -/
def okAfter : List Nat → List Ev → List Nat
  | ok, [] => ok
  | ok, .hs k r :: rest => okAfter (if r ≥ 0 then k :: ok else ok) rest
  | ok, _ :: rest => okAfter ok rest

theorem sessionsOwned_append (ok : List Nat) (a b : List Ev) :
    sessionsOwned ok (a ++ b) = (sessionsOwned ok a && sessionsOwned (okAfter ok a) b) := by
  induction a generalizing ok with
  | nil => simp [sessionsOwned, okAfter]
  | cons ev rest ih =>
    cases ev with
    | conn k => simp [sessionsOwned, okAfter, ih]
    | rd k b r => cases b <;> simp [sessionsOwned, okAfter, ih, Bool.and_assoc]
    | wr k b x => cases b <;> simp [sessionsOwned, okAfter, ih, Bool.and_assoc]
    | hs k r => simp [sessionsOwned, okAfter, ih]

theorem okAfter_append (ok : List Nat) (a b : List Ev) : okAfter ok (a ++ b) = okAfter (okAfter ok a) b := by
  induction a generalizing ok with
  | nil => simp [okAfter]
  | cons ev rest ih => cases ev <;> simp [okAfter, ih]

theorem okAfter_mono (k : Nat) (ok : List Nat) (a : List Ev) (h : ok.contains k = true) : (okAfter ok a).contains k = true := by
  induction a generalizing ok with
  | nil => simpa [okAfter] using h
  | cons ev rest ih =>
    cases ev with
    | hs k' r =>
      simp only [okAfter]
      apply ih
      split
      · have h' : k ∈ ok := by simpa using h
        simp [h']
      · exact h
    | conn k' => simpa [okAfter] using ih ok h
    | rd k' b r => simpa [okAfter] using ih ok h
    | wr k' b x => simpa [okAfter] using ih ok h

/-- appending an event that is not made through a TLS session keeps the trace owned -/
theorem owned_snoc_clear (tr : List Ev) (ev : Ev) (h : sessionsOwned [] tr = true)
    (hc : ∀ k r, ev ≠ .rd k true r) (hw : ∀ k x, ev ≠ .wr k true x) : sessionsOwned [] (tr ++ [ev]) = true := by
  rw [sessionsOwned_append, h]
  cases ev with
  | conn k => simp [sessionsOwned]
  | hs k r => simp [sessionsOwned]
  | rd k b r => cases b with
    | false => simp [sessionsOwned]
    | true => exact absurd rfl (hc k r)
  | wr k b x => cases b with
    | false => simp [sessionsOwned]
    | true => exact absurd rfl (hw k x)

theorem owned_snoc_rd (tr : List Ev) (k : Nat) (r : Rr) (h : sessionsOwned [] tr = true)
    (ho : (okAfter [] tr).contains k = true) : sessionsOwned [] (tr ++ [.rd k true r]) = true := by
  have ho' : k ∈ okAfter [] tr := by simpa using ho
  rw [sessionsOwned_append, h]; simp [sessionsOwned, ho']

theorem owned_snoc_wr (tr : List Ev) (k : Nat) (x : List Byte) (h : sessionsOwned [] tr = true)
    (ho : (okAfter [] tr).contains k = true) : sessionsOwned [] (tr ++ [.wr k true x]) = true := by
  have ho' : k ∈ okAfter [] tr := by simpa using ho
  rw [sessionsOwned_append, h]; simp [sessionsOwned, ho']

theorem okAfter_snoc (tr : List Ev) (ev : Ev) (k : Nat) (ho : (okAfter [] tr).contains k = true) :
    (okAfter [] (tr ++ [ev])).contains k = true := by
  rw [okAfter_append]; exact okAfter_mono k _ _ ho

end QsmtpModel.StartTlsCli
