/-
Helper lemmas for C06: what send_plain() sends, closed by the final CRLF, is a sequence of
CRLF-terminated lines (`plainSpec_lines`); with the soundness of need_recode() these lines are legal
SMTP data lines (`legal_of_flags`).
-/
import QsmtpModel.Lemmas.QrNeedRecode
import QsmtpModel.Lemmas.SmtpSpec

set_option linter.unusedSimpArgs false
set_option linter.unusedVariables false

namespace QsmtpModel.QrData
open QsmtpModel QsmtpModel.Mime QsmtpModel.Spec

/-- the lines send_plain() produces (without dot-stuffing and without CRLF): `cur` = the line
being collected, `pcr` = the previous byte was a CR -/
def specLines (pcr : Bool) (cur : List Byte) : List Byte → List (List Byte)
  | [] => if cur = [] then [] else [cur]
  | c :: rest =>
    if c = LF ∧ pcr then specLines false cur rest
    else if c = CR then cur :: specLines true [] rest
    else if c = LF then cur :: specLines false [] rest
    else specLines false (cur ++ [c]) rest

/-- a line as it goes over the wire: leading dot doubled -/
def stuffLine (l : List Byte) : List Byte := if l.head? = some DOT then DOT :: l else l

/-- add the final CRLF if the text is not empty and does not end in LF -/
def closeLine (x : List Byte) : List Byte := x ++ (if x.isEmpty || endsLf x then [] else [CR, LF])

def wire (ls : List (List Byte)) : List Byte := (ls.map (· ++ [CR, LF])).flatten

theorem closeLine_crlf (a y : List Byte) : closeLine (a ++ [CR, LF] ++ y) = a ++ [CR, LF] ++ closeLine y := by
  unfold closeLine
  cases y with
  | nil => simp [endsLf]
  | cons c r =>
    have : endsLf (a ++ [CR, LF] ++ c :: r) = endsLf (c :: r) := by
      simp [endsLf, List.getLast?_append, List.getLast?_cons_cons]
      cases h : (c :: r).getLast? with
      | none => simp at h
      | some x => simp
    have e1 : (a ++ [CR, LF] ++ c :: r).isEmpty = false := by simp
    have e2 : (c :: r).isEmpty = false := rfl
    rw [e1, e2, this]; simp

theorem stuffLine_nil : stuffLine [] = [] := by simp [stuffLine]

theorem stuffLine_snoc (cur : List Byte) (c : Byte) (h : cur ≠ []) : stuffLine (cur ++ [c]) = stuffLine cur ++ [c] := by
  cases cur with
  | nil => contradiction
  | cons d r => simp [stuffLine]; split <;> simp

/-- what send_plain() sends (`plainSpec`), closed by the final CRLF, is the sequence of its lines -/
theorem plainSpec_lines (rest : List Byte) : ∀ (pcr : Bool) (cur : List Byte),
    (∀ b ∈ cur, b ≠ CR ∧ b ≠ LF) → (pcr = true → cur = []) →
    closeLine (stuffLine cur ++ plainSpec pcr (decide (cur ≠ [])) rest) = wire ((specLines pcr cur rest).map stuffLine) := by
  induction rest with
  | nil =>
    intro pcr cur hcur _
    simp only [plainSpec, List.append_nil, specLines]
    by_cases h : cur = []
    · subst h; simp [closeLine, stuffLine, wire]
    · simp only [h, if_false, List.map_cons, List.map_nil, wire, List.flatten_cons, List.flatten_nil, List.append_nil]
      unfold closeLine
      have hne : stuffLine cur ≠ [] := by unfold stuffLine; split <;> simp [h]
      have hl : endsLf (stuffLine cur) = false := by
        have : (stuffLine cur).getLast? = cur.getLast? := by
          unfold stuffLine; split
          · exact getLast?_cons_of_ne_nil h
          · rfl
        simp only [endsLf, this]
        cases hx : cur.getLast? with
        | none => simp
        | some x =>
          have := hcur x (List.mem_of_getLast? hx)
          simp [this.2]
      simp [hne, hl]
  | cons c rest ih =>
    intro pcr cur hcur hp
    rw [plainSpec_cons, specLines]
    by_cases h1 : c = LF ∧ pcr = true
    · have hc := hp h1.2
      subst hc
      simp only [h1, and_self, if_true]
      have := ih false [] (by simp) (by simp)
      simpa using this
    · simp only [h1, if_false]
      by_cases h2 : c = CR
      · simp only [h2, if_true, List.map_cons, wire, List.flatten_cons]
        have := ih true [] (by simp) (by simp)
        rw [stuffLine_nil] at this
        simp only [List.nil_append, ne_eq, not_true_eq_false, decide_false] at this
        have e : stuffLine cur ++ CR :: LF :: plainSpec true false rest = stuffLine cur ++ [CR, LF] ++ plainSpec true false rest := by simp
        rw [e, closeLine_crlf]
        rw [this]; simp [wire]
      · simp only [h2, if_false]
        by_cases h3 : c = LF
        · simp only [h3, if_true, List.map_cons, wire, List.flatten_cons]
          have := ih false [] (by simp) (by simp)
          rw [stuffLine_nil] at this
          simp only [List.nil_append, ne_eq, not_true_eq_false, decide_false] at this
          have e : stuffLine cur ++ CR :: LF :: plainSpec false false rest = stuffLine cur ++ [CR, LF] ++ plainSpec false false rest := by simp
          rw [e, closeLine_crlf]
          rw [this]; simp [wire]
        · simp only [h3, if_false]
          have hcur' : ∀ b ∈ cur ++ [c], b ≠ CR ∧ b ≠ LF := by
            intro b hb
            simp only [List.mem_append, List.mem_singleton] at hb
            rcases hb with hb | rfl
            · exact hcur b hb
            · exact ⟨h2, h3⟩
          have := ih false (cur ++ [c]) hcur' (by simp)
          rw [← this]
          congr 1
          by_cases hnil : cur = []
          · subst hnil
            by_cases hd : c = DOT
            · subst hd; simp [stuffLine]
            · simp [stuffLine, hd]
          · have hd : ¬ (c = DOT ∧ decide (cur ≠ []) = false) := by simp [hnil]
            simp only [hd, if_false]
            rw [stuffLine_snoc _ _ hnil]
            simp [hnil]


theorem specLines_len (n : Nat) (rest : List Byte) : ∀ (pcr : Bool) (cur : List Byte),
    (pcr = true → cur = []) → LinesLe n cur.length rest → ∀ l ∈ specLines pcr cur rest, l.length ≤ n := by
  induction rest with
  | nil =>
    intro pcr cur _ h l hl
    simp only [LinesLe] at h
    simp only [specLines] at hl
    split at hl
    · simp at hl
    · simp at hl; subst hl; exact h
  | cons c rest ih =>
    intro pcr cur hp h l hl
    rw [specLines] at hl
    unfold LinesLe at h
    by_cases h1 : c = LF ∧ pcr = true
    · have hc := hp h1.2
      subst hc
      simp only [h1, and_self, if_true, or_true] at hl h
      exact ih false [] (by simp) h.2 l hl
    · simp only [h1, if_false] at hl
      by_cases h2 : c = CR
      · simp only [h2, if_true, true_or, List.mem_cons] at hl h
        rcases hl with rfl | hl
        · exact h.1
        · exact ih true [] (by simp) h.2 l hl
      · by_cases h3 : c = LF
        · subst h3
          simp only [lf_ne_cr, if_true, if_false, or_true, List.mem_cons] at hl h
          rcases hl with rfl | hl
          · exact h.1
          · exact ih false [] (by simp) h.2 l hl
        · simp only [h2, h3, if_false, or_self] at hl h
          exact ih false (cur ++ [c]) (by simp) (by simpa using h) l hl

theorem specLines_mem (rest : List Byte) : ∀ (pcr : Bool) (cur : List Byte),
    ∀ l ∈ specLines pcr cur rest, ∀ b ∈ l, (b ∈ cur ∨ b ∈ rest) := by
  induction rest with
  | nil =>
    intro pcr cur l hl b hb
    simp only [specLines] at hl
    split at hl
    · simp at hl
    · simp at hl; subst hl; exact Or.inl hb
  | cons c rest ih =>
    intro pcr cur l hl b hb
    rw [specLines] at hl
    split at hl
    · rcases ih _ _ l hl b hb with h | h
      · exact Or.inl h
      · exact Or.inr (List.mem_cons_of_mem _ h)
    · split at hl
      · simp only [List.mem_cons] at hl
        rcases hl with rfl | hl
        · exact Or.inl hb
        · rcases ih _ _ l hl b hb with h | h
          · simp at h
          · exact Or.inr (List.mem_cons_of_mem _ h)
      · split at hl
        · simp only [List.mem_cons] at hl
          rcases hl with rfl | hl
          · exact Or.inl hb
          · rcases ih _ _ l hl b hb with h | h
            · simp at h
            · exact Or.inr (List.mem_cons_of_mem _ h)
        · rcases ih _ _ l hl b hb with h | h
          · simp only [List.mem_append, List.mem_singleton] at h
            rcases h with h | rfl
            · exact Or.inl h
            · exact Or.inr (by simp)
          · exact Or.inr (List.mem_cons_of_mem _ h)

theorem specLines_noeol (rest : List Byte) : ∀ (pcr : Bool) (cur : List Byte),
    (∀ b ∈ cur, b ≠ CR ∧ b ≠ LF) → ∀ l ∈ specLines pcr cur rest, ∀ b ∈ l, b ≠ CR ∧ b ≠ LF := by
  induction rest with
  | nil =>
    intro pcr cur hc l hl
    simp only [specLines] at hl
    split at hl
    · simp at hl
    · simp at hl; subst hl; exact hc
  | cons c rest ih =>
    intro pcr cur hc l hl
    rw [specLines] at hl
    split at hl
    · exact ih _ _ hc l hl
    · split at hl
      · simp only [List.mem_cons] at hl
        rcases hl with rfl | hl
        · exact hc
        · exact ih _ _ (by simp) l hl
      · split at hl
        · simp only [List.mem_cons] at hl
          rcases hl with rfl | hl
          · exact hc
          · exact ih _ _ (by simp) l hl
        · rename_i h1 h2 h3
          refine ih _ _ ?_ l hl
          intro b hb
          simp only [List.mem_append, List.mem_singleton] at hb
          rcases hb with hb | rfl
          · exact hc b hb
          · exact ⟨h2, h3⟩

theorem toNat_lt_of_sbyte_pos (b : Byte) (h : 0 < sbyte b) : b.toNat < 128 := by
  unfold sbyte at h
  split at h
  · assumption
  · have := UInt8.toNat_lt b; omega

theorem legalLine_stuff (ext8 : Bool) (l : List Byte) (h1 : ∀ b ∈ l, b ≠ CR ∧ b ≠ LF) (h2 : l.length ≤ 998)
    (h3 : ext8 = false → ∀ b ∈ l, b.toNat < 128) : LegalLine ext8 (stuffLine l) := by
  have hmem : ∀ b ∈ stuffLine l, b = DOT ∨ b ∈ l := by
    intro b hb; unfold stuffLine at hb; split at hb
    · simp only [List.mem_cons] at hb; exact hb
    · exact Or.inr hb
  refine ⟨?_, ?_, ?_, ?_, ?_⟩
  · intro h; rcases hmem _ h with h | h
    · exact absurd h (by decide)
    · exact (h1 _ h).1 rfl
  · intro h; rcases hmem _ h with h | h
    · exact absurd h (by decide)
    · exact (h1 _ h).2 rfl
  · unfold stuffLine; split
    · simp
      intro h; subst h; simp at *
    · rename_i hd; intro h; rw [h] at hd; simp at hd
  · by_cases hd : l.head? = some DOT
    · have : stuffLine l = DOT :: l := by simp [stuffLine, hd]
      rw [this]; simp [wireLen]; exact h2
    · have : stuffLine l = l := by simp [stuffLine, hd]
      rw [this]; simp [wireLen, hd]; exact h2
  · intro he b hb
    rcases hmem _ hb with h | h
    · subst h; decide
    · exact h3 he b h


theorem plainSpec_eq_nil (m : List Byte) : plainSpec false false m = [] ↔ m = [] := by
  rw [plainSpec_eq]
  constructor
  · intro h
    by_cases hm : m = []
    · exact hm
    · have hn : normalizeEol m ≠ [] := fun h' => hm ((normalizeEol_eq_nil m).mp h')
      exact absurd h (dotStuffAux_ne_nil _ _ hn)
  · rintro rfl; simp [normalizeEol, dotStuffAux]

/-- the dot-stuffed final form is the sequence of the (stuffed) lines of the message -/
theorem dotStuff_final_lines (m : List Byte) :
    dotStuff (normalizeFinal m) = wire ((specLines false [] m).map stuffLine) := by
  have h := plainSpec_lines m false [] (by simp) (by simp)
  rw [stuffLine_nil] at h
  simp only [List.nil_append, ne_eq, not_true_eq_false, decide_false] at h
  rw [← h, dotStuff_normalizeFinal, closeLine]
  have e : plainSpec false false m = dotStuff (normalizeEol m) := by rw [plainSpec_eq]; rfl
  rw [e]
  congr 1
  have h1 : (dotStuff (normalizeEol m)).isEmpty = decide (m = []) := by
    rw [← e]
    by_cases hm : m = []
    · subst hm; simp [plainSpec]
    · have : plainSpec false false m ≠ [] := fun h => hm ((plainSpec_eq_nil m).mp h)
      simp [hm, this]
  rw [h1, endsLf_dotStuff]
  by_cases hm : m = [] <;> simp [hm]

/-- **legal data on the plain path**: if need_recode() reports nothing that send_data() would
recode for, the data sent is legal -/
theorem legal_of_flags (ext8 : Bool) (m : List Byte)
    (hl : (needRecode m).ll = false) (hh : (needRecode m).lh = false)
    (he : ext8 = false → (needRecode m).e8 = false) :
    LegalData ext8 (dotStuff (normalizeFinal m) ++ [DOT, CR, LF]) := by
  refine ⟨(specLines false [] m).map stuffLine, ?_, ?_⟩
  · rw [dotStuff_final_lines]; rfl
  · intro l hl'
    simp only [List.mem_map] at hl'
    obtain ⟨l0, hl0, rfl⟩ := hl'
    apply legalLine_stuff
    · exact specLines_noeol m false [] (by simp) l0 hl0
    · exact specLines_len 998 m false [] (by simp) (by simpa using needRecode_lines m hl hh) l0 hl0
    · intro h8 b hb
      have hmem := specLines_mem m false [] l0 hl0 b hb
      simp only [List.not_mem_nil, false_or] at hmem
      exact toNat_lt_of_sbyte_pos b (needRecode_7bit m (he h8) b hmem)

end QsmtpModel.QrData
