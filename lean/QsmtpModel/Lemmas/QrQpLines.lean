/-
C07 (qp_line_rules): every line recode_qp() sends has at most 76 characters (as the receiver sees it,
without the dot added for transparency) and does not end in a blank.  Proved on the buffer-free
description `QpRun` (which recode_qp() refines, Lemmas/QrQpRun.lean) with the invariant `Inv`:
what is sent so far is a sequence of complete good lines and a current line of exactly `llen`
characters, `llen ≤ 75`, and a current line that ends in a blank has at most 73 characters and is
followed by a byte that is no line end.
-/
import QsmtpModel.Lemmas.QrQpRun
namespace QsmtpModel.QrData
open QsmtpModel QsmtpModel.Mime QsmtpModel.Spec

/-! ### lines of the wire text -/

/-- a line as the receiver sees it: without the dot added for transparency -/
def stripDot (l : List Byte) : List Byte := if l.head? = some DOT then l.tail else l

/-- complete lines, each followed by CRLF -/
def joinLines : List (List Byte) → List Byte
  | [] => []
  | l :: ls => l ++ CR :: LF :: joinLines ls

/-- a line of the wire text: no CR, no LF, and the quoted-printable line rules hold for what the
receiver sees -/
def RawOk (l : List Byte) : Prop := CR ∉ l ∧ LF ∉ l ∧ QpLineOk (stripDot l)

theorem joinLines_append (a b : List (List Byte)) : joinLines (a ++ b) = joinLines a ++ joinLines b := by
  induction a with
  | nil => rfl
  | cons x xs ih => simp [joinLines, ih]

theorem joinLines_snoc (a : List (List Byte)) (l : List Byte) : joinLines (a ++ [l]) = joinLines a ++ l ++ [CR, LF] := by
  rw [joinLines_append]; simp [joinLines]

theorem joinLines_getLast (ls : List (List Byte)) : joinLines ls = [] ∨ (joinLines ls).getLast? = some LF := by
  induction ls with
  | nil => left; rfl
  | cons l ls ih =>
    right
    simp only [joinLines]
    rcases ih with h | h
    · rw [h]; simp [List.getLast?_append]
    · cases hj : joinLines ls with
      | nil => rw [hj] at h; simp at h
      | cons x xs =>
        rw [hj] at h
        have : (l ++ CR :: LF :: x :: xs).getLast? = (x :: xs).getLast? := by
          rw [show l ++ CR :: LF :: x :: xs = (l ++ [CR, LF]) ++ (x :: xs) by simp]
          rw [List.getLast?_append]; simp [h]
        rw [this, h]

theorem unDotAux_false_noLF : ∀ (l rest : List Byte), LF ∉ l → unDotAux false (l ++ rest) = l ++ unDotAux false rest
  | [], rest, _ => rfl
  | c :: l, rest, h => by
    have hc : c ≠ LF := fun e => h (by simp [e])
    have hl : LF ∉ l := fun e => h (by simp [e])
    simp only [List.cons_append, unDotAux, Bool.false_eq_true, false_and, if_false, hc, decide_false]
    rw [unDotAux_false_noLF l rest hl]

theorem unDotAux_line (l rest : List Byte) (h : LF ∉ l) :
    unDotAux true (l ++ CR :: LF :: rest) = stripDot l ++ CR :: LF :: unDotAux true rest := by
  have hcr : unDotAux false (CR :: LF :: rest) = CR :: LF :: unDotAux true rest := by
    simp [unDotAux, show CR ≠ LF by decide]
  cases l with
  | nil =>
    simp [stripDot, unDotAux, show CR ≠ DOT by decide, show CR ≠ LF by decide]
  | cons c l =>
    have hc : c ≠ LF := fun e => h (by simp [e])
    have hl : LF ∉ l := fun e => h (by simp [e])
    by_cases hd : c = DOT
    · subst hd
      simp only [List.cons_append, unDotAux, true_and, if_true, stripDot, List.head?_cons, List.tail_cons]
      rw [unDotAux_false_noLF l _ hl, hcr]
    · simp only [List.cons_append, unDotAux, true_and, hd, if_false, stripDot, List.head?_cons, Option.some.injEq, hc, decide_false]
      rw [unDotAux_false_noLF l _ hl, hcr]

theorem unDotAux_last (l : List Byte) (h : LF ∉ l) : unDotAux true l = stripDot l := by
  cases l with
  | nil => rfl
  | cons c l =>
    have hc : c ≠ LF := fun e => h (by simp [e])
    have hl : LF ∉ l := fun e => h (by simp [e])
    have := unDotAux_false_noLF l [] hl
    simp only [List.append_nil, unDotAux] at this
    by_cases hd : c = DOT
    · subst hd
      simp only [unDotAux, true_and, if_true, stripDot, List.head?_cons, List.tail_cons]
      exact this
    · simp only [unDotAux, true_and, hd, if_false, stripDot, List.head?_cons, Option.some.injEq, hc, decide_false]
      rw [this]

theorem splitCrlf_noCR : ∀ (x acc : List Byte), CR ∉ x → splitCrlf acc x = [acc.reverse ++ x]
  | [], acc, _ => by simp [splitCrlf]
  | [c], acc, _ => by simp [splitCrlf]
  | c :: d :: r, acc, h => by
    have hc : c ≠ CR := fun e => h (by simp [e])
    rw [splitCrlf]
    simp only [hc, false_and, if_false]
    rw [splitCrlf_noCR (d :: r) (c :: acc) (fun e => h (by simp at e ⊢; right; exact e))]
    simp

theorem splitCrlf_line : ∀ (x acc rest : List Byte), CR ∉ x →
    splitCrlf acc (x ++ CR :: LF :: rest) = (acc.reverse ++ x) :: splitCrlf [] rest
  | [], acc, rest, _ => by simp [splitCrlf]
  | c :: x, acc, rest, h => by
    have hc : c ≠ CR := fun e => h (by simp [e])
    have hx : CR ∉ x := fun e => h (by simp [e])
    cases x with
    | nil =>
      simp only [List.cons_append, List.nil_append]
      rw [splitCrlf]
      simp only [hc, false_and, if_false]
      rw [splitCrlf]; simp
    | cons d x' =>
      simp only [List.cons_append]
      rw [splitCrlf]
      simp only [hc, false_and, if_false]
      have := splitCrlf_line (d :: x') (c :: acc) rest hx
      simp only [List.cons_append] at this
      rw [this]; simp

theorem stripDot_sub (l : List Byte) (c : Byte) (h : c ∈ stripDot l) : c ∈ l := by
  unfold stripDot at h
  split at h
  · exact List.mem_of_mem_tail h
  · exact h

/-- the lines the receiver sees of complete wire lines followed by an unterminated rest -/
theorem lines_of_join : ∀ (ls : List (List Byte)) (cur : List Byte),
    (∀ l ∈ ls, CR ∉ l ∧ LF ∉ l) → CR ∉ cur → LF ∉ cur →
    splitCrlf [] (unDot (joinLines ls ++ cur)) = ls.map stripDot ++ [stripDot cur]
  | [], cur, _, hc, hl => by
    simp only [joinLines, List.nil_append, List.map_nil, unDot]
    rw [unDotAux_last cur hl, splitCrlf_noCR _ _ (fun e => hc (stripDot_sub _ _ e))]
    simp
  | l :: ls, cur, h, hc, hl => by
    have hl1 := h l (by simp)
    have ih := lines_of_join ls cur (fun l' hl' => h l' (by simp [hl'])) hc hl
    simp only [joinLines, List.append_assoc, List.cons_append, unDot] at ih ⊢
    rw [unDotAux_line l _ hl1.2, splitCrlf_line _ _ _ (fun e => hl1.1 (stripDot_sub _ _ e))]
    simp only [List.reverse_nil, List.nil_append, List.map_cons, List.cons_append]
    rw [ih]

/-! ### the line rules along a run of recode_qp() -/

/-- the line does not end in a blank -/
def NB (l : List Byte) : Prop := l.getLast? ≠ some SP ∧ l.getLast? ≠ some TAB

instance (l : List Byte) : Decidable (NB l) := by unfold NB; exact inferInstance

theorem NB_nil : NB [] := by simp [NB]

theorem NB_append (a x : List Byte) (hx : x ≠ []) (h : NB x) : NB (a ++ x) := by
  unfold NB at *
  cases x with
  | nil => exact absurd rfl hx
  | cons y ys =>
    have : (a ++ y :: ys).getLast? = (y :: ys).getLast? := by
      rw [List.getLast?_append]
      cases hg : (y :: ys).getLast? with
      | none => simp at hg
      | some z => simp
    rw [this]; exact h

theorem getLast?_stripDot (l : List Byte) (b : Byte) (h : (stripDot l).getLast? = some b) : l.getLast? = some b := by
  unfold stripDot at h
  split at h
  · cases l with
    | nil => simp at h
    | cons d t =>
      simp only [List.tail_cons] at h
      cases t with
      | nil => simp at h
      | cons e t' => rw [List.getLast?_cons_cons]; exact h
  · exact h

theorem rawOk_mk (L : List Byte) (h1 : CR ∉ L) (h2 : LF ∉ L) (h3 : (stripDot L).length ≤ 76) (h4 : NB L) : RawOk L := by
  refine ⟨h1, h2, h3, ?_, ?_⟩
  · intro h; exact h4.1 (getLast?_stripDot _ _ h)
  · intro h; exact h4.2 (getLast?_stripDot _ _ h)

theorem stripDot_append_len (cur x : List Byte) (h : cur ≠ [] ∨ x.head? ≠ some DOT) :
    (stripDot (cur ++ x)).length = (stripDot cur).length + x.length := by
  cases cur with
  | nil =>
    have hx : x.head? ≠ some DOT := by rcases h with h | h; exact absurd rfl h; exact h
    simp [stripDot, hx]
  | cons c t =>
    unfold stripDot
    simp only [List.cons_append, List.head?_cons, List.tail_cons]
    by_cases hcd : some c = some DOT <;> simp [hcd] <;> omega

/-- what is sent so far: complete good lines and a current line of `llen` characters that may still
get a soft line break; a blank at its end is followed by a byte that is no line end -/
def Inv (rest : List Byte) (llen : Nat) (F : List Byte) : Prop :=
  ∃ ls cur, F = joinLines ls ++ cur ∧ (∀ l ∈ ls, RawOk l) ∧ CR ∉ cur ∧ LF ∉ cur
    ∧ (stripDot cur).length = llen ∧ (llen = 0 → cur = []) ∧ llen ≤ 75
    ∧ (¬ NB cur → llen ≤ 73 ∧ ∃ d r, rest = d :: r ∧ d ≠ CR ∧ d ≠ LF)

/-- complete good lines and a good last line -/
def Final (w : List Byte) : Prop :=
  ∃ ls cur, w = joinLines ls ++ cur ∧ (∀ l ∈ ls, RawOk l) ∧ RawOk cur

theorem inv_newline (rest : List Byte) (ls : List (List Byte)) (L : List Byte) (hls : ∀ l ∈ ls, RawOk l)
    (hL : RawOk L) : Inv rest 0 (joinLines ls ++ L ++ [CR, LF]) := by
  refine ⟨ls ++ [L], [], by rw [joinLines_snoc]; simp, ?_, by simp, by simp, by simp [stripDot], fun _ => rfl,
    by omega, fun h => absurd NB_nil h⟩
  intro l hl
  rcases List.mem_append.mp hl with h | h
  · exact hls l h
  · simp at h; subst h; exact hL

/-- if the text ends in a blank, the blank belongs to the current line -/
theorem split_last_blank (ls : List (List Byte)) (cur F' : List Byte) (ws : Byte) (hb : isBlank ws)
    (h : joinLines ls ++ cur = F' ++ [ws]) : ∃ cur0, cur = cur0 ++ [ws] ∧ F' = joinLines ls ++ cur0 := by
  rcases List.eq_nil_or_concat cur with hc | ⟨cur0, b, hc⟩
  · exfalso
    subst hc
    simp only [List.append_nil] at h
    rcases joinLines_getLast ls with hj | hj
    · rw [hj] at h; simp at h
    · rw [h] at hj; simp at hj
      rcases hb with rfl | rfl <;> revert hj <;> decide
  · subst hc
    rw [List.concat_eq_append] at h ⊢
    rw [← List.append_assoc] at h
    have := List.append_inj' h (by simp)
    obtain ⟨h1, h2⟩ := this
    simp at h2; subst h2
    exact ⟨cur0, by simp, h1.symm⟩

theorem hexOf_not_blank : ∀ n : Fin 16, hexOf n.val ≠ SP ∧ hexOf n.val ≠ TAB ∧ hexOf n.val ≠ CR ∧ hexOf n.val ≠ LF := by decide

theorem qpEnc_facts (c : Byte) : CR ∉ qpEnc c ∧ LF ∉ qpEnc c ∧ NB (qpEnc c) ∧ (qpEnc c).length = 3 ∧ (qpEnc c).head? ≠ some DOT := by
  have h1 := hexOf_not_blank ⟨c.toNat / 16, by have := c.toNat_lt; omega⟩
  have h2 := hexOf_not_blank ⟨c.toNat % 16, by omega⟩
  simp only at h1 h2
  refine ⟨?_, ?_, ?_, rfl, by simp [qpEnc]; decide⟩
  · simp only [qpEnc, List.mem_cons, List.not_mem_nil, or_false, not_or]
    exact ⟨by decide, fun h => h1.2.2.1 h.symm, fun h => h2.2.2.1 h.symm⟩
  · simp only [qpEnc, List.mem_cons, List.not_mem_nil, or_false, not_or]
    exact ⟨by decide, fun h => h1.2.2.2 h.symm, fun h => h2.2.2.2 h.symm⟩
  · simp only [NB, qpEnc, List.getLast?_cons_cons, List.getLast?_singleton, ne_eq, Option.some.injEq]
    exact ⟨h2.1, h2.2.1⟩

theorem wsEnc_facts (c : Byte) : CR ∉ wsEnc c ∧ LF ∉ wsEnc c ∧ NB (wsEnc c) ∧ (wsEnc c).length = 3 ∧ (wsEnc c).head? ≠ some DOT := by
  unfold wsEnc; split <;> decide


theorem mem_append_not {a b : List Byte} {c : Byte} (ha : c ∉ a) (hb : c ∉ b) : c ∉ a ++ b := by
  intro h; rcases List.mem_append.mp h with h | h
  · exact ha h
  · exact hb h

theorem NB_single (c : Byte) (h : ¬ isBlank c) : NB [c] := by
  unfold NB isBlank at *
  simp only [List.getLast?_singleton, ne_eq, Option.some.injEq]
  exact ⟨fun e => h (Or.inr e), fun e => h (Or.inl e)⟩

theorem not_NB_snoc_blank (a : List Byte) (ws : Byte) (h : isBlank ws) : ¬ NB (a ++ [ws]) := by
  unfold NB
  intro hh
  simp only [List.getLast?_append, List.getLast?_singleton, Option.some_or, ne_eq, Option.some.injEq] at hh
  rcases h with rfl | rfl
  · exact hh.2 rfl
  · exact hh.1 rfl

/-- every line recode_qp() sends obeys the quoted-printable line rules -/
theorem qpRun_lines {rest : List Byte} {llen : Nat} {F w : List Byte} (run : QpRun rest llen F w) :
    Inv rest llen F → Final w := by
  have h72 : Gen.recodeQpSoft = 72 := rfl
  induction run with
  | done llen F =>
    rintro ⟨ls, cur, hF, hls, hcr, hlf, hlen, hz, h75, hnb⟩
    refine ⟨ls, cur, hF, hls, rawOk_mk cur hcr hlf (by omega) ?_⟩
    apply Decidable.byContradiction; intro hn
    obtain ⟨_, d, r, hr, _⟩ := hnb hn
    cases hr
  | crlf rest llen F w _ ih =>
    rintro ⟨ls, cur, hF, hls, hcr, hlf, hlen, hz, h75, hnb⟩
    apply ih
    subst hF
    have hL : RawOk cur := rawOk_mk cur hcr hlf (by omega) (by
      apply Decidable.byContradiction; intro hn; obtain ⟨_, d, r, hr, hd, _⟩ := hnb hn; cases hr; exact hd rfl)
    exact inv_newline rest ls cur hls hL
  | cr rest llen F w hne _ ih =>
    rintro ⟨ls, cur, hF, hls, hcr, hlf, hlen, hz, h75, hnb⟩
    apply ih
    subst hF
    have hL : RawOk cur := rawOk_mk cur hcr hlf (by omega) (by
      apply Decidable.byContradiction; intro hn; obtain ⟨_, d, r, hr, hd, _⟩ := hnb hn; cases hr; exact hd rfl)
    exact inv_newline rest ls cur hls hL
  | lf rest llen F w _ ih =>
    rintro ⟨ls, cur, hF, hls, hcr, hlf, hlen, hz, h75, hnb⟩
    apply ih
    subst hF
    have hL : RawOk cur := rawOk_mk cur hcr hlf (by omega) (by
      apply Decidable.byContradiction; intro hn; obtain ⟨_, d, r, hr, _, hd⟩ := hnb hn; cases hr; exact hd rfl)
    exact inv_newline rest ls cur hls hL
  | soft c rest llen F w h1 h2 _ ih =>
    rintro ⟨ls, cur, hF, hls, hcr, hlf, hlen, hz, h75, hnb⟩
    apply ih
    subst hF
    have hL : RawOk (cur ++ [EQ]) := rawOk_mk _ (mem_append_not hcr (by decide)) (mem_append_not hlf (by decide))
      (by rw [stripDot_append_len cur [EQ] (Or.inr (by decide))]; simp; omega)
      (NB_append _ _ (by simp) (by decide))
    have := inv_newline (c :: rest) ls _ hls hL
    simpa [List.append_assoc] using this
  | softTake c d rest llen F' ws w hb hp _ ih =>
    rintro ⟨ls, cur, hF, hls, hcr, hlf, hlen, hz, h75, hnb⟩
    apply ih
    obtain ⟨cur0, hc0, hF'⟩ := split_last_blank ls cur F' ws hb hF.symm
    subst hc0 hF'
    obtain ⟨h73, _⟩ := hnb (not_NB_snoc_blank cur0 ws hb)
    obtain ⟨_, _, l3, l4⟩ := qpPlain_isLit c hp
    have hL : RawOk (cur0 ++ [ws] ++ [c, EQ]) := rawOk_mk _
      (mem_append_not hcr (by simp; exact ⟨fun e => l3 e.symm, by decide⟩))
      (mem_append_not hlf (by simp; exact ⟨fun e => l4 e.symm, by decide⟩))
      (by rw [stripDot_append_len (cur0 ++ [ws]) [c, EQ] (Or.inl (by simp))]; simp; omega)
      (NB_append _ _ (by simp) (by unfold NB; simp; decide))
    have := inv_newline (d :: rest) ls _ hls hL
    simpa [List.append_assoc] using this
  | softTakeLast c llen F' ws w hb hp run' ih =>
    rintro ⟨ls, cur, hF, hls, hcr, hlf, hlen, hz, h75, hnb⟩
    obtain ⟨cur0, hc0, hF'⟩ := split_last_blank ls cur F' ws hb hF.symm
    subst hc0 hF'
    obtain ⟨h73, _⟩ := hnb (not_NB_snoc_blank cur0 ws hb)
    obtain ⟨_, _, l3, l4⟩ := qpPlain_isLit c hp
    have hnbc : ¬ isBlank c := by
      intro hc
      unfold qpPlain sbyte at hp
      rcases hc with rfl | rfl <;> revert hp <;> decide
    cases run' with
    | done =>
      refine ⟨ls, cur0 ++ [ws] ++ [c], by simp [List.append_assoc], hls, rawOk_mk _
        (mem_append_not hcr (by simp; exact fun e => l3 e.symm))
        (mem_append_not hlf (by simp; exact fun e => l4 e.symm))
        (by rw [stripDot_append_len (cur0 ++ [ws]) [c] (Or.inl (by simp))]; simp; omega)
        (NB_append _ _ (by simp) (NB_single c hnbc))⟩
  | softFix c rest llen F' ws w hb h1 h2 _ ih =>
    rintro ⟨ls, cur, hF, hls, hcr, hlf, hlen, hz, h75, hnb⟩
    apply ih
    obtain ⟨cur0, hc0, hF'⟩ := split_last_blank ls cur F' ws hb hF.symm
    subst hc0 hF'
    obtain ⟨h73, _⟩ := hnb (not_NB_snoc_blank cur0 ws hb)
    obtain ⟨w1, w2, w3, w4, w5⟩ := wsEnc_facts ws
    have hwd : ws ≠ DOT := (blank_facts ws hb).2.1
    rw [stripDot_append_len cur0 [ws] (Or.inr (by simpa using hwd))] at hlen
    have hcr0 : CR ∉ cur0 := fun e => hcr (by simp [e])
    have hlf0 : LF ∉ cur0 := fun e => hlf (by simp [e])
    have hL : RawOk (cur0 ++ (wsEnc ws ++ [EQ])) := rawOk_mk _
      (mem_append_not hcr0 (mem_append_not w1 (by decide)))
      (mem_append_not hlf0 (mem_append_not w2 (by decide)))
      (by
        rw [stripDot_append_len cur0 (wsEnc ws ++ [EQ]) (Or.inr (by
          cases hw : wsEnc ws with
          | nil => rw [hw] at w4; simp at w4
          | cons x xs => rw [hw] at w5; simpa using w5))]
        simp [w4] at hlen ⊢; omega)
      (NB_append _ _ (by simp) (NB_append _ _ (by simp) (by decide)))
    have := inv_newline (c :: rest) ls _ hls hL
    simpa [List.append_assoc] using this
  | dot rest F w _ ih =>
    rintro ⟨ls, cur, hF, hls, hcr, hlf, hlen, hz, h75, hnb⟩
    apply ih
    have := hz rfl
    subst this
    exact ⟨ls, [DOT, DOT], by simp [hF], hls, by decide, by decide, by decide, fun h => by omega, by omega,
      fun h => absurd (by decide : NB [DOT, DOT]) h⟩
  | wsEnd c llen F w hl hb _ ih =>
    rintro ⟨ls, cur, hF, hls, hcr, hlf, hlen, hz, h75, hnb⟩
    apply ih
    obtain ⟨w1, w2, w3, w4, w5⟩ := wsEnc_facts c
    have hne : wsEnc c ≠ [] := by intro h; rw [h] at w4; simp at w4
    exact ⟨ls, cur ++ wsEnc c, by simp [hF, List.append_assoc], hls, mem_append_not hcr w1, mem_append_not hlf w2,
      by rw [stripDot_append_len cur (wsEnc c) (Or.inr w5), hlen, w4], fun h => by omega, by omega,
      fun h => absurd (NB_append _ _ hne w3) h⟩
  | wsCrLf c rest llen F w hl hb _ ih =>
    rintro ⟨ls, cur, hF, hls, hcr, hlf, hlen, hz, h75, hnb⟩
    apply ih
    subst hF
    obtain ⟨w1, w2, w3, w4, w5⟩ := wsEnc_facts c
    have hne : wsEnc c ≠ [] := by intro h; rw [h] at w4; simp at w4
    have hL : RawOk (cur ++ wsEnc c) := rawOk_mk _ (mem_append_not hcr w1) (mem_append_not hlf w2)
      (by rw [stripDot_append_len cur (wsEnc c) (Or.inr w5), hlen, w4]; omega) (NB_append _ _ hne w3)
    have := inv_newline rest ls _ hls hL
    simpa [List.append_assoc] using this
  | wsCr c rest llen F w hl hb hne' _ ih =>
    rintro ⟨ls, cur, hF, hls, hcr, hlf, hlen, hz, h75, hnb⟩
    apply ih
    subst hF
    obtain ⟨w1, w2, w3, w4, w5⟩ := wsEnc_facts c
    have hne : wsEnc c ≠ [] := by intro h; rw [h] at w4; simp at w4
    have hL : RawOk (cur ++ wsEnc c) := rawOk_mk _ (mem_append_not hcr w1) (mem_append_not hlf w2)
      (by rw [stripDot_append_len cur (wsEnc c) (Or.inr w5), hlen, w4]; omega) (NB_append _ _ hne w3)
    have := inv_newline rest ls _ hls hL
    simpa [List.append_assoc] using this
  | wsLf c rest llen F w hl hb _ ih =>
    rintro ⟨ls, cur, hF, hls, hcr, hlf, hlen, hz, h75, hnb⟩
    apply ih
    subst hF
    obtain ⟨w1, w2, w3, w4, w5⟩ := wsEnc_facts c
    have hne : wsEnc c ≠ [] := by intro h; rw [h] at w4; simp at w4
    have hL : RawOk (cur ++ wsEnc c) := rawOk_mk _ (mem_append_not hcr w1) (mem_append_not hlf w2)
      (by rw [stripDot_append_len cur (wsEnc c) (Or.inr w5), hlen, w4]; omega) (NB_append _ _ hne w3)
    have := inv_newline rest ls _ hls hL
    simpa [List.append_assoc] using this
  | ws c d rest llen F w hl hb h1 h2 _ ih =>
    rintro ⟨ls, cur, hF, hls, hcr, hlf, hlen, hz, h75, hnb⟩
    apply ih
    obtain ⟨_, b2, _, b4, b5⟩ := blank_facts c hb
    exact ⟨ls, cur ++ [c], by simp [hF, List.append_assoc], hls,
      mem_append_not hcr (by simp; exact fun e => b4 e.symm), mem_append_not hlf (by simp; exact fun e => b5 e.symm),
      by rw [stripDot_append_len cur [c] (Or.inr (by simpa using b2)), hlen]; simp, fun h => by omega, by omega,
      fun _ => ⟨by omega, d, rest, rfl, h1, h2⟩⟩
  | enc c rest llen F w hl h1 h2 h3 h4 _ ih =>
    rintro ⟨ls, cur, hF, hls, hcr, hlf, hlen, hz, h75, hnb⟩
    apply ih
    obtain ⟨w1, w2, w3, w4, w5⟩ := qpEnc_facts c
    have hne : qpEnc c ≠ [] := by intro h; rw [h] at w4; simp at w4
    exact ⟨ls, cur ++ qpEnc c, by simp [hF, List.append_assoc], hls, mem_append_not hcr w1, mem_append_not hlf w2,
      by rw [stripDot_append_len cur (qpEnc c) (Or.inr w5), hlen, w4], fun h => by omega, by omega,
      fun h => absurd (NB_append _ _ hne w3) h⟩
  | plain c rest llen F w hl h1 h2 h3 h4 h5 _ ih =>
    rintro ⟨ls, cur, hF, hls, hcr, hlf, hlen, hz, h75, hnb⟩
    apply ih
    have hor : cur ≠ [] ∨ [c].head? ≠ some DOT := by
      by_cases hc : cur = []
      · right
        subst hc
        simp only [stripDot, List.head?_nil] at hlen
        simp only [List.head?_cons, ne_eq, Option.some.injEq]
        intro hd; exact h5 ⟨by simpa using hlen.symm, hd⟩
      · left; exact hc
    exact ⟨ls, cur ++ [c], by simp [hF, List.append_assoc], hls,
      mem_append_not hcr (by simp; exact fun e => h1 e.symm), mem_append_not hlf (by simp; exact fun e => h2 e.symm),
      by rw [stripDot_append_len cur [c] hor, hlen]; simp, fun h => by omega, by omega,
      fun h => absurd (NB_append _ _ (by simp) (NB_single c h3)) h⟩


theorem final_lines (w : List Byte) (h : Final w) : ∀ l ∈ splitCrlf [] (unDot w), QpLineOk l := by
  obtain ⟨ls, cur, rfl, hls, hc⟩ := h
  rw [lines_of_join ls cur (fun l hl => ⟨(hls l hl).1, (hls l hl).2.1⟩) hc.1 hc.2.1]
  intro l hl
  rcases List.mem_append.mp hl with h | h
  · obtain ⟨l', hl', rfl⟩ := List.mem_map.mp h
    exact (hls l' hl').2.2
  · simp at h; subst h; exact hc.2.2

/-- **QP line rules**: every line of what recode_qp() sends — as the receiver sees it, the dot added
for transparency removed — has at most 76 characters and does not end in a blank, for every body
and whatever the staging buffer does -/
theorem recodeQp_lines (b : List Byte) (st : St) (h : recodeQp b {} = .ok st) :
    ∀ l ∈ splitCrlf [] (unDot st.out), QpLineOk l := by
  unfold recodeQp at h
  by_cases hb : b.length = 0
  · simp only [hb, if_true] at h
    cases h
    intro l hl
    simp [unDot, unDotAux, splitCrlf] at hl
    subst hl; decide
  · simp only [hb, if_false] at h
    obtain ⟨st', e1, e2⟩ := qpGo_run b 0 0 0 [] {} (by omega) (by simp) (by simp; omega)
    rw [h] at e1; cases e1
    simp only [List.drop_zero, Nat.add_zero, List.take_zero, List.append_nil] at e2
    have e3 : QpRun b 0 [] st.out := by simpa using e2
    apply final_lines
    apply qpRun_lines e3
    exact ⟨[], [], rfl, by simp, by simp, by simp, rfl, fun _ => rfl, by omega, fun h => absurd NB_nil h⟩

end QsmtpModel.QrData
