/-
C07 (qp_line_rules): every line recode_qp() sends has at most 76 characters (as the receiver sees it,
without the dot added for transparency) and does not end in a blank.  Proved on the buffer-free
description `QpRun` (which recode_qp() refines, Lemmas/QrQpRun.lean) with the invariant `Inv`:
what is sent so far is a sequence of complete good lines and a current line of exactly `llen`
characters, `llen ≤ 75`, and a current line that ends in a blank has at most 73 characters and is
followed by a byte that is no line end.
-/
import QsmtpModel.Lemmas.QrQpRun
namespace QsmtpModel.QrData
open QsmtpModel QsmtpModel.Mime QsmtpModel.Spec

/-! ### lines of the wire text -/

/-- a line as the receiver sees it: without the dot added for transparency -/
def stripDot (l : List Byte) : List Byte := if l.head? = some DOT then l.tail else l

/-- complete lines, each followed by CRLF -/
def joinLines : List (List Byte) → List Byte
  | [] => []
  | l :: ls => l ++ CR :: LF :: joinLines ls

/-- a line that begins with a dot begins with two: the dot was added for transparency -/
def DotOk (l : List Byte) : Prop := l.head? = some DOT → l.tail.head? = some DOT

instance (l : List Byte) : Decidable (DotOk l) := by unfold DotOk; exact inferInstance

/-- a line of the wire text: no CR, no LF, the quoted-printable line rules hold for what the
receiver sees, and a leading dot is doubled -/
def RawOk (l : List Byte) : Prop := CR ∉ l ∧ LF ∉ l ∧ QpLineOk (stripDot l) ∧ DotOk l

theorem joinLines_append (a b : List (List Byte)) : joinLines (a ++ b) = joinLines a ++ joinLines b := by
  induction a with
  | nil => rfl
  | cons x xs ih => simp [joinLines, ih]

theorem joinLines_snoc (a : List (List Byte)) (l : List Byte) : joinLines (a ++ [l]) = joinLines a ++ l ++ [CR, LF] := by
  rw [joinLines_append]; simp [joinLines]

theorem joinLines_getLast (ls : List (List Byte)) : joinLines ls = [] ∨ (joinLines ls).getLast? = some LF := by
  induction ls with
  | nil => left; rfl
  | cons l ls ih =>
    right
    simp only [joinLines]
    rcases ih with h | h
    · rw [h]; simp [List.getLast?_append]
    · cases hj : joinLines ls with
      | nil => rw [hj] at h; simp at h
      | cons x xs =>
        rw [hj] at h
        have : (l ++ CR :: LF :: x :: xs).getLast? = (x :: xs).getLast? := by
          rw [show l ++ CR :: LF :: x :: xs = (l ++ [CR, LF]) ++ (x :: xs) by simp]
          rw [List.getLast?_append]; simp [h]
        rw [this, h]

theorem unDotAux_false_noLF : ∀ (l rest : List Byte), LF ∉ l → unDotAux false (l ++ rest) = l ++ unDotAux false rest
  | [], rest, _ => rfl
  | c :: l, rest, h => by
    have hc : c ≠ LF := fun e => h (by simp [e])
    have hl : LF ∉ l := fun e => h (by simp [e])
    simp only [List.cons_append, unDotAux, Bool.false_eq_true, false_and, if_false, hc, decide_false]
    rw [unDotAux_false_noLF l rest hl]

theorem unDotAux_line (l rest : List Byte) (h : LF ∉ l) :
    unDotAux true (l ++ CR :: LF :: rest) = stripDot l ++ CR :: LF :: unDotAux true rest := by
  have hcr : unDotAux false (CR :: LF :: rest) = CR :: LF :: unDotAux true rest := by
    simp [unDotAux, show CR ≠ LF by decide]
  cases l with
  | nil =>
    simp [stripDot, unDotAux, show CR ≠ DOT by decide, show CR ≠ LF by decide]
  | cons c l =>
    have hc : c ≠ LF := fun e => h (by simp [e])
    have hl : LF ∉ l := fun e => h (by simp [e])
    by_cases hd : c = DOT
    · subst hd
      simp only [List.cons_append, unDotAux, true_and, if_true, stripDot, List.head?_cons, List.tail_cons]
      rw [unDotAux_false_noLF l _ hl, hcr]
    · simp only [List.cons_append, unDotAux, true_and, hd, if_false, stripDot, List.head?_cons, Option.some.injEq, hc, decide_false]
      rw [unDotAux_false_noLF l _ hl, hcr]

theorem unDotAux_last (l : List Byte) (h : LF ∉ l) : unDotAux true l = stripDot l := by
  cases l with
  | nil => rfl
  | cons c l =>
    have hc : c ≠ LF := fun e => h (by simp [e])
    have hl : LF ∉ l := fun e => h (by simp [e])
    have := unDotAux_false_noLF l [] hl
    simp only [List.append_nil, unDotAux] at this
    by_cases hd : c = DOT
    · subst hd
      simp only [unDotAux, true_and, if_true, stripDot, List.head?_cons, List.tail_cons]
      exact this
    · simp only [unDotAux, true_and, hd, if_false, stripDot, List.head?_cons, Option.some.injEq, hc, decide_false]
      rw [this]

theorem splitCrlf_noCR : ∀ (x acc : List Byte), CR ∉ x → splitCrlf acc x = [acc.reverse ++ x]
  | [], acc, _ => by simp [splitCrlf]
  | [c], acc, _ => by simp [splitCrlf]
  | c :: d :: r, acc, h => by
    have hc : c ≠ CR := fun e => h (by simp [e])
    rw [splitCrlf]
    simp only [hc, false_and, if_false]
    rw [splitCrlf_noCR (d :: r) (c :: acc) (fun e => h (by simp at e ⊢; right; exact e))]
    simp

theorem splitCrlf_line : ∀ (x acc rest : List Byte), CR ∉ x →
    splitCrlf acc (x ++ CR :: LF :: rest) = (acc.reverse ++ x) :: splitCrlf [] rest
  | [], acc, rest, _ => by simp [splitCrlf]
  | c :: x, acc, rest, h => by
    have hc : c ≠ CR := fun e => h (by simp [e])
    have hx : CR ∉ x := fun e => h (by simp [e])
    cases x with
    | nil =>
      simp only [List.cons_append, List.nil_append]
      rw [splitCrlf]
      simp only [hc, false_and, if_false]
      rw [splitCrlf]; simp
    | cons d x' =>
      simp only [List.cons_append]
      rw [splitCrlf]
      simp only [hc, false_and, if_false]
      have := splitCrlf_line (d :: x') (c :: acc) rest hx
      simp only [List.cons_append] at this
      rw [this]; simp

theorem stripDot_sub (l : List Byte) (c : Byte) (h : c ∈ stripDot l) : c ∈ l := by
  unfold stripDot at h
  split at h
  · exact List.mem_of_mem_tail h
  · exact h

/-- the lines the receiver sees of complete wire lines followed by an unterminated rest -/
theorem lines_of_join : ∀ (ls : List (List Byte)) (cur : List Byte),
    (∀ l ∈ ls, CR ∉ l ∧ LF ∉ l) → CR ∉ cur → LF ∉ cur →
    splitCrlf [] (unDot (joinLines ls ++ cur)) = ls.map stripDot ++ [stripDot cur]
  | [], cur, _, hc, hl => by
    simp only [joinLines, List.nil_append, List.map_nil, unDot]
    rw [unDotAux_last cur hl, splitCrlf_noCR _ _ (fun e => hc (stripDot_sub _ _ e))]
    simp
  | l :: ls, cur, h, hc, hl => by
    have hl1 := h l (by simp)
    have ih := lines_of_join ls cur (fun l' hl' => h l' (by simp [hl'])) hc hl
    simp only [joinLines, List.append_assoc, List.cons_append, unDot] at ih ⊢
    rw [unDotAux_line l _ hl1.2, splitCrlf_line _ _ _ (fun e => hl1.1 (stripDot_sub _ _ e))]
    simp only [List.reverse_nil, List.nil_append, List.map_cons, List.cons_append]
    rw [ih]

/-! ### the line rules along a run of recode_qp() -/

/-- the line does not end in a blank -/
def NB (l : List Byte) : Prop := l.getLast? ≠ some SP ∧ l.getLast? ≠ some TAB

instance (l : List Byte) : Decidable (NB l) := by unfold NB; exact inferInstance

theorem NB_nil : NB [] := by simp [NB]

theorem NB_append (a x : List Byte) (hx : x ≠ []) (h : NB x) : NB (a ++ x) := by
  unfold NB at *
  cases x with
  | nil => exact absurd rfl hx
  | cons y ys =>
    have : (a ++ y :: ys).getLast? = (y :: ys).getLast? := by
      rw [List.getLast?_append]
      cases hg : (y :: ys).getLast? with
      | none => simp at hg
      | some z => simp
    rw [this]; exact h

theorem getLast?_stripDot (l : List Byte) (b : Byte) (h : (stripDot l).getLast? = some b) : l.getLast? = some b := by
  unfold stripDot at h
  split at h
  · cases l with
    | nil => simp at h
    | cons d t =>
      simp only [List.tail_cons] at h
      cases t with
      | nil => simp at h
      | cons e t' => rw [List.getLast?_cons_cons]; exact h
  · exact h

theorem rawOk_mk (L : List Byte) (h1 : CR ∉ L) (h2 : LF ∉ L) (h3 : (stripDot L).length ≤ 76) (h4 : NB L)
    (h5 : DotOk L) : RawOk L := by
  refine ⟨h1, h2, ⟨h3, ?_, ?_⟩, h5⟩
  · intro h; exact h4.1 (getLast?_stripDot _ _ h)
  · intro h; exact h4.2 (getLast?_stripDot _ _ h)

theorem dotOk_append (cur x : List Byte) (h : DotOk cur) (hx : cur = [] → DotOk x) : DotOk (cur ++ x) := by
  match cur, h, hx with
  | [], _, hx => simpa using hx rfl
  | [a], h, _ =>
    intro hh
    simp only [List.cons_append, List.nil_append, List.head?_cons, Option.some.injEq] at hh
    subst hh
    have := h rfl
    simp at this
  | a :: b :: t, h, _ =>
    intro hh
    have := h (by simpa using hh)
    simpa using this

theorem dotOk_replace (cur0 y : List Byte) (ws : Byte) (h : DotOk (cur0 ++ [ws])) (hws : ws ≠ DOT) (hy : DotOk y) :
    DotOk (cur0 ++ y) := by
  match cur0, h with
  | [], _ => simpa using hy
  | [a], h =>
    intro hh
    simp only [List.cons_append, List.nil_append, List.head?_cons, Option.some.injEq] at hh
    subst hh
    have := h rfl
    simp at this
    exact absurd this hws
  | a :: b :: t, h =>
    intro hh
    have := h (by simpa using hh)
    simpa using this

theorem stripDot_append_len (cur x : List Byte) (h : cur ≠ [] ∨ x.head? ≠ some DOT) :
    (stripDot (cur ++ x)).length = (stripDot cur).length + x.length := by
  cases cur with
  | nil =>
    have hx : x.head? ≠ some DOT := by rcases h with h | h; exact absurd rfl h; exact h
    simp [stripDot, hx]
  | cons c t =>
    unfold stripDot
    simp only [List.cons_append, List.head?_cons, List.tail_cons]
    by_cases hcd : some c = some DOT <;> simp [hcd] <;> omega

/-- what is sent so far: complete good lines and a current line of `llen` characters that may still
get a soft line break; a blank at its end is followed by a byte that is no line end -/
def Inv (rest : List Byte) (llen : Nat) (F : List Byte) : Prop :=
  ∃ ls cur, F = joinLines ls ++ cur ∧ (∀ l ∈ ls, RawOk l) ∧ CR ∉ cur ∧ LF ∉ cur
    ∧ (stripDot cur).length = llen ∧ (llen = 0 → cur = []) ∧ llen ≤ 75
    ∧ (¬ NB cur → llen ≤ 73 ∧ ∃ d r, rest = d :: r ∧ d ≠ CR ∧ d ≠ LF) ∧ DotOk cur

/-- complete good lines and a good last line -/
def Final (w : List Byte) : Prop :=
  ∃ ls cur, w = joinLines ls ++ cur ∧ (∀ l ∈ ls, RawOk l) ∧ RawOk cur

theorem inv_newline (rest : List Byte) (ls : List (List Byte)) (L : List Byte) (hls : ∀ l ∈ ls, RawOk l)
    (hL : RawOk L) : Inv rest 0 (joinLines ls ++ L ++ [CR, LF]) := by
  refine ⟨ls ++ [L], [], by rw [joinLines_snoc]; simp, ?_, by simp, by simp, by simp [stripDot], fun _ => rfl,
    by omega, fun h => absurd NB_nil h, by decide⟩
  intro l hl
  rcases List.mem_append.mp hl with h | h
  · exact hls l h
  · simp at h; subst h; exact hL

/-- if the text ends in a blank, the blank belongs to the current line -/
theorem split_last_blank (ls : List (List Byte)) (cur F' : List Byte) (ws : Byte) (hb : isBlank ws)
    (h : joinLines ls ++ cur = F' ++ [ws]) : ∃ cur0, cur = cur0 ++ [ws] ∧ F' = joinLines ls ++ cur0 := by
  rcases List.eq_nil_or_concat cur with hc | ⟨cur0, b, hc⟩
  · exfalso
    subst hc
    simp only [List.append_nil] at h
    rcases joinLines_getLast ls with hj | hj
    · rw [hj] at h; simp at h
    · rw [h] at hj; simp at hj
      rcases hb with rfl | rfl <;> revert hj <;> decide
  · subst hc
    rw [List.concat_eq_append] at h ⊢
    rw [← List.append_assoc] at h
    have := List.append_inj' h (by simp)
    obtain ⟨h1, h2⟩ := this
    simp at h2; subst h2
    exact ⟨cur0, by simp, h1.symm⟩

theorem hexOf_not_blank : ∀ n : Fin 16, hexOf n.val ≠ SP ∧ hexOf n.val ≠ TAB ∧ hexOf n.val ≠ CR ∧ hexOf n.val ≠ LF := by decide

theorem qpEnc_facts (c : Byte) : CR ∉ qpEnc c ∧ LF ∉ qpEnc c ∧ NB (qpEnc c) ∧ (qpEnc c).length = 3 ∧ (qpEnc c).head? ≠ some DOT := by
  have h1 := hexOf_not_blank ⟨c.toNat / 16, by have := c.toNat_lt; omega⟩
  have h2 := hexOf_not_blank ⟨c.toNat % 16, by omega⟩
  simp only at h1 h2
  refine ⟨?_, ?_, ?_, rfl, by simp [qpEnc]; decide⟩
  · simp only [qpEnc, List.mem_cons, List.not_mem_nil, or_false, not_or]
    exact ⟨by decide, fun h => h1.2.2.1 h.symm, fun h => h2.2.2.1 h.symm⟩
  · simp only [qpEnc, List.mem_cons, List.not_mem_nil, or_false, not_or]
    exact ⟨by decide, fun h => h1.2.2.2 h.symm, fun h => h2.2.2.2 h.symm⟩
  · simp only [NB, qpEnc, List.getLast?_cons_cons, List.getLast?_singleton, ne_eq, Option.some.injEq]
    exact ⟨h2.1, h2.2.1⟩

theorem wsEnc_facts (c : Byte) : CR ∉ wsEnc c ∧ LF ∉ wsEnc c ∧ NB (wsEnc c) ∧ (wsEnc c).length = 3 ∧ (wsEnc c).head? ≠ some DOT := by
  unfold wsEnc; split <;> decide


theorem mem_append_not {a b : List Byte} {c : Byte} (ha : c ∉ a) (hb : c ∉ b) : c ∉ a ++ b := by
  intro h; rcases List.mem_append.mp h with h | h
  · exact ha h
  · exact hb h

theorem NB_single (c : Byte) (h : ¬ isBlank c) : NB [c] := by
  unfold NB isBlank at *
  simp only [List.getLast?_singleton, ne_eq, Option.some.injEq]
  exact ⟨fun e => h (Or.inr e), fun e => h (Or.inl e)⟩

theorem not_NB_snoc_blank (a : List Byte) (ws : Byte) (h : isBlank ws) : ¬ NB (a ++ [ws]) := by
  unfold NB
  intro hh
  simp only [List.getLast?_append, List.getLast?_singleton, Option.some_or, ne_eq, Option.some.injEq] at hh
  rcases h with rfl | rfl
  · exact hh.2 rfl
  · exact hh.1 rfl

/-- every line recode_qp() sends obeys the quoted-printable line rules -/
theorem qpRun_lines {rest : List Byte} {llen : Nat} {F w : List Byte} (run : QpRun rest llen F w) :
    Inv rest llen F → Final w := by
  have h72 : Gen.recodeQpSoft = 72 := rfl
  induction run with
  | done llen F =>
    rintro ⟨ls, cur, hF, hls, hcr, hlf, hlen, hz, h75, hnb, hdot⟩
    refine ⟨ls, cur, hF, hls, rawOk_mk cur hcr hlf (by omega) ?_ hdot⟩
    apply Decidable.byContradiction; intro hn
    obtain ⟨_, d, r, hr, _⟩ := hnb hn
    cases hr
  | crlf rest llen F w _ ih =>
    rintro ⟨ls, cur, hF, hls, hcr, hlf, hlen, hz, h75, hnb, hdot⟩
    apply ih
    subst hF
    have hL : RawOk cur := rawOk_mk cur hcr hlf (by omega) (by
      apply Decidable.byContradiction; intro hn; obtain ⟨_, d, r, hr, hd, _⟩ := hnb hn; cases hr; exact hd rfl) hdot
    exact inv_newline rest ls cur hls hL
  | cr rest llen F w hne _ ih =>
    rintro ⟨ls, cur, hF, hls, hcr, hlf, hlen, hz, h75, hnb, hdot⟩
    apply ih
    subst hF
    have hL : RawOk cur := rawOk_mk cur hcr hlf (by omega) (by
      apply Decidable.byContradiction; intro hn; obtain ⟨_, d, r, hr, hd, _⟩ := hnb hn; cases hr; exact hd rfl) hdot
    exact inv_newline rest ls cur hls hL
  | lf rest llen F w _ ih =>
    rintro ⟨ls, cur, hF, hls, hcr, hlf, hlen, hz, h75, hnb, hdot⟩
    apply ih
    subst hF
    have hL : RawOk cur := rawOk_mk cur hcr hlf (by omega) (by
      apply Decidable.byContradiction; intro hn; obtain ⟨_, d, r, hr, _, hd⟩ := hnb hn; cases hr; exact hd rfl) hdot
    exact inv_newline rest ls cur hls hL
  | soft c rest llen F w h1 h2 _ ih =>
    rintro ⟨ls, cur, hF, hls, hcr, hlf, hlen, hz, h75, hnb, hdot⟩
    apply ih
    subst hF
    have hL : RawOk (cur ++ [EQ]) := rawOk_mk _ (mem_append_not hcr (by decide)) (mem_append_not hlf (by decide))
      (by rw [stripDot_append_len cur [EQ] (Or.inr (by decide))]; simp; omega)
      (NB_append _ _ (by simp) (by decide)) (dotOk_append _ _ hdot (fun _ => by decide))
    have := inv_newline (c :: rest) ls _ hls hL
    simpa [List.append_assoc] using this
  | softTake c d rest llen F' ws w hb hp _ ih =>
    rintro ⟨ls, cur, hF, hls, hcr, hlf, hlen, hz, h75, hnb, hdot⟩
    apply ih
    obtain ⟨cur0, hc0, hF'⟩ := split_last_blank ls cur F' ws hb hF.symm
    subst hc0 hF'
    obtain ⟨h73, _⟩ := hnb (not_NB_snoc_blank cur0 ws hb)
    obtain ⟨_, _, l3, l4⟩ := qpPlain_isLit c hp
    have hL : RawOk (cur0 ++ [ws] ++ [c, EQ]) := rawOk_mk _
      (mem_append_not hcr (by simp; exact ⟨fun e => l3 e.symm, by decide⟩))
      (mem_append_not hlf (by simp; exact ⟨fun e => l4 e.symm, by decide⟩))
      (by rw [stripDot_append_len (cur0 ++ [ws]) [c, EQ] (Or.inl (by simp))]; simp; omega)
      (NB_append _ _ (by simp) (by unfold NB; simp; decide)) (dotOk_append _ _ hdot (fun h => absurd h (by simp)))
    have := inv_newline (d :: rest) ls _ hls hL
    simpa [List.append_assoc] using this
  | softTakeLast c llen F' ws w hb hp run' ih =>
    rintro ⟨ls, cur, hF, hls, hcr, hlf, hlen, hz, h75, hnb, hdot⟩
    obtain ⟨cur0, hc0, hF'⟩ := split_last_blank ls cur F' ws hb hF.symm
    subst hc0 hF'
    obtain ⟨h73, _⟩ := hnb (not_NB_snoc_blank cur0 ws hb)
    obtain ⟨_, _, l3, l4⟩ := qpPlain_isLit c hp
    have hnbc : ¬ isBlank c := by
      intro hc
      unfold qpPlain sbyte at hp
      rcases hc with rfl | rfl <;> revert hp <;> decide
    cases run' with
    | done =>
      refine ⟨ls, cur0 ++ [ws] ++ [c], by simp [List.append_assoc], hls, rawOk_mk _
        (mem_append_not hcr (by simp; exact fun e => l3 e.symm))
        (mem_append_not hlf (by simp; exact fun e => l4 e.symm))
        (by rw [stripDot_append_len (cur0 ++ [ws]) [c] (Or.inl (by simp))]; simp; omega)
        (NB_append _ _ (by simp) (NB_single c hnbc)) (dotOk_append _ _ hdot (fun h => absurd h (by simp)))⟩
  | softFix c rest llen F' ws w hb h1 h2 _ ih =>
    rintro ⟨ls, cur, hF, hls, hcr, hlf, hlen, hz, h75, hnb, hdot⟩
    apply ih
    obtain ⟨cur0, hc0, hF'⟩ := split_last_blank ls cur F' ws hb hF.symm
    subst hc0 hF'
    obtain ⟨h73, _⟩ := hnb (not_NB_snoc_blank cur0 ws hb)
    obtain ⟨w1, w2, w3, w4, w5⟩ := wsEnc_facts ws
    have hwd : ws ≠ DOT := (blank_facts ws hb).2.1
    rw [stripDot_append_len cur0 [ws] (Or.inr (by simpa using hwd))] at hlen
    have hcr0 : CR ∉ cur0 := fun e => hcr (by simp [e])
    have hlf0 : LF ∉ cur0 := fun e => hlf (by simp [e])
    have hL : RawOk (cur0 ++ (wsEnc ws ++ [EQ])) := rawOk_mk _
      (mem_append_not hcr0 (mem_append_not w1 (by decide)))
      (mem_append_not hlf0 (mem_append_not w2 (by decide)))
      (by
        rw [stripDot_append_len cur0 (wsEnc ws ++ [EQ]) (Or.inr (by
          cases hw : wsEnc ws with
          | nil => rw [hw] at w4; simp at w4
          | cons x xs => rw [hw] at w5; simpa using w5))]
        simp [w4] at hlen ⊢; omega)
      (NB_append _ _ (by simp) (NB_append _ _ (by simp) (by decide)))
      (dotOk_replace cur0 _ ws hdot hwd (by
        intro hh
        cases hw : wsEnc ws with
        | nil => rw [hw] at w4; simp at w4
        | cons x xs => rw [hw] at w5 hh; simp at w5 hh; exact absurd hh w5))
    have := inv_newline (c :: rest) ls _ hls hL
    simpa [List.append_assoc] using this
  | dot rest F w _ ih =>
    rintro ⟨ls, cur, hF, hls, hcr, hlf, hlen, hz, h75, hnb, hdot⟩
    apply ih
    have := hz rfl
    subst this
    exact ⟨ls, [DOT, DOT], by simp [hF], hls, by decide, by decide, by decide, fun h => by omega, by omega,
      fun h => absurd (by decide : NB [DOT, DOT]) h, by decide⟩
  | wsEnd c llen F w hl hb _ ih =>
    rintro ⟨ls, cur, hF, hls, hcr, hlf, hlen, hz, h75, hnb, hdot⟩
    apply ih
    obtain ⟨w1, w2, w3, w4, w5⟩ := wsEnc_facts c
    have hne : wsEnc c ≠ [] := by intro h; rw [h] at w4; simp at w4
    have hdo : DotOk (wsEnc c) := fun hh => absurd hh w5
    exact ⟨ls, cur ++ wsEnc c, by simp [hF, List.append_assoc], hls, mem_append_not hcr w1, mem_append_not hlf w2,
      by rw [stripDot_append_len cur (wsEnc c) (Or.inr w5), hlen, w4], fun h => by omega, by omega,
      fun h => absurd (NB_append _ _ hne w3) h, dotOk_append _ _ hdot (fun _ => hdo)⟩
  | wsCrLf c rest llen F w hl hb _ ih =>
    rintro ⟨ls, cur, hF, hls, hcr, hlf, hlen, hz, h75, hnb, hdot⟩
    apply ih
    subst hF
    obtain ⟨w1, w2, w3, w4, w5⟩ := wsEnc_facts c
    have hne : wsEnc c ≠ [] := by intro h; rw [h] at w4; simp at w4
    have hdo : DotOk (wsEnc c) := fun hh => absurd hh w5
    have hL : RawOk (cur ++ wsEnc c) := rawOk_mk _ (mem_append_not hcr w1) (mem_append_not hlf w2)
      (by rw [stripDot_append_len cur (wsEnc c) (Or.inr w5), hlen, w4]; omega) (NB_append _ _ hne w3)
      (dotOk_append _ _ hdot (fun _ => hdo))
    have := inv_newline rest ls _ hls hL
    simpa [List.append_assoc] using this
  | wsCr c rest llen F w hl hb hne' _ ih =>
    rintro ⟨ls, cur, hF, hls, hcr, hlf, hlen, hz, h75, hnb, hdot⟩
    apply ih
    subst hF
    obtain ⟨w1, w2, w3, w4, w5⟩ := wsEnc_facts c
    have hne : wsEnc c ≠ [] := by intro h; rw [h] at w4; simp at w4
    have hdo : DotOk (wsEnc c) := fun hh => absurd hh w5
    have hL : RawOk (cur ++ wsEnc c) := rawOk_mk _ (mem_append_not hcr w1) (mem_append_not hlf w2)
      (by rw [stripDot_append_len cur (wsEnc c) (Or.inr w5), hlen, w4]; omega) (NB_append _ _ hne w3)
      (dotOk_append _ _ hdot (fun _ => hdo))
    have := inv_newline rest ls _ hls hL
    simpa [List.append_assoc] using this
  | wsLf c rest llen F w hl hb _ ih =>
    rintro ⟨ls, cur, hF, hls, hcr, hlf, hlen, hz, h75, hnb, hdot⟩
    apply ih
    subst hF
    obtain ⟨w1, w2, w3, w4, w5⟩ := wsEnc_facts c
    have hne : wsEnc c ≠ [] := by intro h; rw [h] at w4; simp at w4
    have hdo : DotOk (wsEnc c) := fun hh => absurd hh w5
    have hL : RawOk (cur ++ wsEnc c) := rawOk_mk _ (mem_append_not hcr w1) (mem_append_not hlf w2)
      (by rw [stripDot_append_len cur (wsEnc c) (Or.inr w5), hlen, w4]; omega) (NB_append _ _ hne w3)
      (dotOk_append _ _ hdot (fun _ => hdo))
    have := inv_newline rest ls _ hls hL
    simpa [List.append_assoc] using this
  | ws c d rest llen F w hl hb h1 h2 _ ih =>
    rintro ⟨ls, cur, hF, hls, hcr, hlf, hlen, hz, h75, hnb, hdot⟩
    apply ih
    obtain ⟨_, b2, _, b4, b5⟩ := blank_facts c hb
    exact ⟨ls, cur ++ [c], by simp [hF, List.append_assoc], hls,
      mem_append_not hcr (by simp; exact fun e => b4 e.symm), mem_append_not hlf (by simp; exact fun e => b5 e.symm),
      by rw [stripDot_append_len cur [c] (Or.inr (by simpa using b2)), hlen]; simp, fun h => by omega, by omega,
      fun _ => ⟨by omega, d, rest, rfl, h1, h2⟩, dotOk_append _ _ hdot (fun _ => by intro hh; simp at hh; exact absurd hh b2)⟩
  | enc c rest llen F w hl h1 h2 h3 h4 _ ih =>
    rintro ⟨ls, cur, hF, hls, hcr, hlf, hlen, hz, h75, hnb, hdot⟩
    apply ih
    obtain ⟨w1, w2, w3, w4, w5⟩ := qpEnc_facts c
    have hne : qpEnc c ≠ [] := by intro h; rw [h] at w4; simp at w4
    have hdo : DotOk (qpEnc c) := fun hh => absurd hh w5
    exact ⟨ls, cur ++ qpEnc c, by simp [hF, List.append_assoc], hls, mem_append_not hcr w1, mem_append_not hlf w2,
      by rw [stripDot_append_len cur (qpEnc c) (Or.inr w5), hlen, w4], fun h => by omega, by omega,
      fun h => absurd (NB_append _ _ hne w3) h, dotOk_append _ _ hdot (fun _ => hdo)⟩
  | plain c rest llen F w hl h1 h2 h3 h4 h5 _ ih =>
    rintro ⟨ls, cur, hF, hls, hcr, hlf, hlen, hz, h75, hnb, hdot⟩
    apply ih
    have hor : cur ≠ [] ∨ [c].head? ≠ some DOT := by
      by_cases hc : cur = []
      · right
        subst hc
        simp only [stripDot, List.head?_nil] at hlen
        simp only [List.head?_cons, ne_eq, Option.some.injEq]
        intro hd; exact h5 ⟨by simpa using hlen.symm, hd⟩
      · left; exact hc
    exact ⟨ls, cur ++ [c], by simp [hF, List.append_assoc], hls,
      mem_append_not hcr (by simp; exact fun e => h1 e.symm), mem_append_not hlf (by simp; exact fun e => h2 e.symm),
      by rw [stripDot_append_len cur [c] hor, hlen]; simp, fun h => by omega, by omega,
      fun h => absurd (NB_append _ _ (by simp) (NB_single c h3)) h,
      dotOk_append _ _ hdot (fun hc => by
        intro hh
        rcases hor with h' | h'
        · exact absurd hc h'
        · exact absurd hh h')⟩


theorem final_lines (w : List Byte) (h : Final w) : ∀ l ∈ splitCrlf [] (unDot w), QpLineOk l := by
  obtain ⟨ls, cur, rfl, hls, hc⟩ := h
  rw [lines_of_join ls cur (fun l hl => ⟨(hls l hl).1, (hls l hl).2.1⟩) hc.1 hc.2.1]
  intro l hl
  rcases List.mem_append.mp hl with h | h
  · obtain ⟨l', hl', rfl⟩ := List.mem_map.mp h
    exact (hls l' hl').2.2.1
  · simp at h; subst h; exact hc.2.2.1

/-- **QP line rules**: every line of what recode_qp() sends — as the receiver sees it, the dot added
for transparency removed — has at most 76 characters and does not end in a blank, for every body
and whatever the staging buffer does -/
theorem recodeQp_lines (b : List Byte) (st : St) (h : recodeQp b {} = .ok st) :
    ∀ l ∈ splitCrlf [] (unDot st.out), QpLineOk l := by
  unfold recodeQp at h
  by_cases hb : b.length = 0
  · simp only [hb, if_true] at h
    cases h
    intro l hl
    simp [unDot, unDotAux, splitCrlf] at hl
    subst hl; decide
  · simp only [hb, if_false] at h
    obtain ⟨st', e1, e2⟩ := qpGo_run b 0 0 0 [] {} (by omega) (by simp) (by simp; omega)
    rw [h] at e1; cases e1
    simp only [List.drop_zero, Nat.add_zero, List.take_zero, List.append_nil] at e2
    have e3 : QpRun b 0 [] st.out := by simpa using e2
    apply final_lines
    apply qpRun_lines e3
    exact ⟨[], [], rfl, by simp, by simp, by simp, rfl, fun _ => rfl, by omega, fun h => absurd NB_nil h, by decide⟩

/-! ### what recode_qp() sends is legal SMTP data, line by line -/

def All7 (l : List Byte) : Prop := ∀ b ∈ l, b.toNat < 128

instance (l : List Byte) : Decidable (All7 l) := by unfold All7; exact inferInstance

theorem all7_append {a b : List Byte} (ha : All7 a) (hb : All7 b) : All7 (a ++ b) := by
  intro x hx; rcases List.mem_append.mp hx with h | h
  · exact ha x h
  · exact hb x h

theorem all7_left {a b : List Byte} (h : All7 (a ++ b)) : All7 a := fun x hx => h x (by simp [hx])

theorem hexOf_7 : ∀ n : Fin 16, (hexOf n.val).toNat < 128 := by decide

theorem qpEnc_7 (c : Byte) : All7 (qpEnc c) := by
  have h1 := hexOf_7 ⟨c.toNat / 16, by have := c.toNat_lt; omega⟩
  have h2 := hexOf_7 ⟨c.toNat % 16, by omega⟩
  intro b hb
  simp only [qpEnc, List.mem_cons, List.not_mem_nil, or_false] at hb
  rcases hb with rfl | rfl | rfl
  · decide
  · exact h1
  · exact h2

theorem wsEnc_7 (c : Byte) : All7 (wsEnc c) := by unfold wsEnc; split <;> decide

theorem blank_7 (c : Byte) (h : isBlank c) : c.toNat < 128 := by rcases h with rfl | rfl <;> decide

theorem plain7_table : ∀ n : Fin 256, ¬ needsEnc (UInt8.ofNat n.val) → (UInt8.ofNat n.val).toNat < 128 := by
  unfold needsEnc; decide +kernel

theorem plain_7 (c : Byte) (h : ¬ needsEnc c) : c.toNat < 128 := by
  have := plain7_table ⟨c.toNat, c.toNat_lt⟩
  simp only [UInt8.ofNat_toNat] at this
  exact this h

theorem qpPlain7_table : ∀ n : Fin 256, qpPlain (UInt8.ofNat n.val) = true → (UInt8.ofNat n.val).toNat < 128 := by
  decide +kernel

theorem qpPlain_7 (c : Byte) (h : qpPlain c = true) : c.toNat < 128 := by
  have := qpPlain7_table ⟨c.toNat, c.toNat_lt⟩
  simp only [UInt8.ofNat_toNat] at this
  exact this h

/-- everything recode_qp() sends is 7 bit -/
theorem qpRun_7bit {rest : List Byte} {llen : Nat} {F w : List Byte} (run : QpRun rest llen F w) :
    All7 F → All7 w := by
  induction run with
  | done llen F => exact id
  | crlf rest llen F w _ ih => exact fun h => ih (all7_append h (by decide))
  | cr rest llen F w _ _ ih => exact fun h => ih (all7_append h (by decide))
  | lf rest llen F w _ ih => exact fun h => ih (all7_append h (by decide))
  | soft c rest llen F w _ _ _ ih => exact fun h => ih (all7_append h (by decide))
  | softTake c d rest llen F' ws w hb hp _ ih =>
    intro h
    apply ih
    have h1 := all7_left h
    have hws := h ws (by simp)
    have hc := qpPlain_7 c hp
    refine all7_append (all7_append h1 ?_) (by decide)
    intro b hb'; simp at hb'; rcases hb' with rfl | rfl <;> assumption
  | softTakeLast c llen F' ws w hb hp _ ih =>
    intro h
    apply ih
    have h1 := all7_left h
    have hws := h ws (by simp)
    have hc := qpPlain_7 c hp
    refine all7_append h1 ?_
    intro b hb'; simp at hb'; rcases hb' with rfl | rfl <;> assumption
  | softFix c rest llen F' ws w hb _ _ _ ih =>
    intro h
    apply ih
    exact all7_append (all7_append (all7_left h) (wsEnc_7 ws)) (by decide)
  | dot rest F w _ ih => exact fun h => ih (all7_append h (by decide))
  | wsEnd c llen F w _ hb _ ih => exact fun h => ih (all7_append h (wsEnc_7 c))
  | wsCrLf c rest llen F w _ hb _ ih => exact fun h => ih (all7_append (all7_append h (wsEnc_7 c)) (by decide))
  | wsCr c rest llen F w _ hb _ _ ih => exact fun h => ih (all7_append (all7_append h (wsEnc_7 c)) (by decide))
  | wsLf c rest llen F w _ hb _ ih => exact fun h => ih (all7_append (all7_append h (wsEnc_7 c)) (by decide))
  | ws c d rest llen F w _ hb _ _ _ ih =>
    exact fun h => ih (all7_append h (by intro b hb'; simp at hb'; subst hb'; exact blank_7 _ hb))
  | enc c rest llen F w _ _ _ _ _ _ ih => exact fun h => ih (all7_append h (qpEnc_7 c))
  | plain c rest llen F w _ _ _ _ h4 _ _ ih =>
    exact fun h => ih (all7_append h (by intro b hb'; simp at hb'; subst hb'; exact plain_7 _ h4))

/-- the wire lines of complete lines followed by an unterminated rest -/
theorem rawlines_of_join : ∀ (ls : List (List Byte)) (cur : List Byte),
    (∀ l ∈ ls, CR ∉ l) → CR ∉ cur → splitCrlf [] (joinLines ls ++ cur) = ls ++ [cur]
  | [], cur, _, hc => by simp [joinLines, splitCrlf_noCR _ _ hc]
  | l :: ls, cur, h, hc => by
    have ih := rawlines_of_join ls cur (fun l' hl' => h l' (by simp [hl'])) hc
    simp only [joinLines, List.append_assoc, List.cons_append]
    rw [splitCrlf_line _ _ _ (h l (by simp))]
    simp [ih]

theorem mem_join_of_mem_line (ls : List (List Byte)) (cur l : List Byte) (hl : l ∈ ls ++ [cur]) (b : Byte) (hb : b ∈ l) :
    b ∈ joinLines ls ++ cur := by
  induction ls with
  | nil => simp at hl; subst hl; simpa [joinLines] using hb
  | cons x xs ih =>
    simp only [List.cons_append, List.mem_cons] at hl
    simp only [joinLines, List.append_assoc, List.cons_append, List.mem_append, List.mem_cons]
    rcases hl with rfl | hl
    · left; exact hb
    · right; right; right
      have := ih hl
      simpa [List.mem_append] using this

theorem stripDot_len_ge (l : List Byte) : l.length ≤ (stripDot l).length + 1 := by
  unfold stripDot; split
  · cases l <;> simp
  · omega

/-- **legal body**: every wire line of what recode_qp() sends is a legal line of SMTP data whether
or not 8BITMIME was announced: no CR or LF inside, not a single dot, at most 77 octets, 7 bit -/
theorem recodeQp_legal (b : List Byte) (st : St) (h : recodeQp b {} = .ok st) (ext8 : Bool) :
    ∀ l ∈ splitCrlf [] st.out, LegalLine ext8 l := by
  unfold recodeQp at h
  by_cases hb : b.length = 0
  · simp only [hb, if_true] at h
    cases h
    intro l hl
    simp [splitCrlf] at hl
    subst hl
    refine ⟨by simp, by simp, by simp, by simp [wireLen], fun _ b hb => by simp at hb⟩
  · simp only [hb, if_false] at h
    obtain ⟨st', e1, e2⟩ := qpGo_run b 0 0 0 [] {} (by omega) (by simp) (by simp; omega)
    rw [h] at e1; cases e1
    simp only [List.drop_zero, Nat.add_zero, List.take_zero, List.append_nil] at e2
    have e3 : QpRun b 0 [] st.out := by simpa using e2
    have h7 := qpRun_7bit e3 (by intro x hx; simp at hx)
    obtain ⟨ls, cur, hw, hls, hc⟩ := qpRun_lines e3
      ⟨[], [], rfl, by simp, by simp, by simp, rfl, fun _ => rfl, by omega, fun h => absurd NB_nil h, by decide⟩
    rw [hw] at h7 ⊢
    rw [rawlines_of_join ls cur (fun l hl => (hls l hl).1) hc.1]
    intro l hl
    have hr : RawOk l := by
      rcases List.mem_append.mp hl with h' | h'
      · exact hls l h'
      · simp at h'; subst h'; exact hc
    obtain ⟨r1, r2, ⟨r3, _, _⟩, r4⟩ := hr
    refine ⟨r1, r2, ?_, ?_, fun _ x hx => h7 x (mem_join_of_mem_line ls cur l hl x hx)⟩
    · intro hd; subst hd
      have := r4 rfl
      simp at this
    · have := stripDot_len_ge l
      unfold wireLen; split <;> omega

end QsmtpModel.QrData
