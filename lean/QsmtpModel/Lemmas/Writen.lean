import QsmtpModel.Writen

namespace QsmtpModel.Writen
open QsmtpModel

/-- The proofs below depend on the extracted constants only through these three facts;
when `Gen` changes they are re-checked (and break if a constant moved). -/
theorem msgSize_eq : msgSize = 512 := rfl
theorem window_eq : window = 506 := rfl
theorem brute_eq : brute = 504 := rfl
theorem flushSlack_eq : Gen.netWritenFlushSlack = 2 := rfl
theorem foldSlack_eq : Gen.netWritenFoldSlack = 6 := rfl

theorem memchr_lt (c : Byte) (l : List Byte) (n : Nat) (h : memchr c l = some n) : n < l.length := by
  induction l generalizing n with
  | nil => simp [memchr] at h
  | cons x xs ih =>
    unfold memchr at h
    split at h
    · simp at h; subst h; simp
    · cases hm : memchr c xs with
      | none => simp [hm] at h
      | some k => simp [hm] at h; subst h; have := ih k hm; simp; omega

theorem findFrom_ge (c : Byte) (s : List Byte) (start n : Nat) (h : findFrom c s start = some n) :
    start ≤ n := by
  unfold findFrom at h
  cases hm : memchr c (s.drop start) with
  | none => simp [hm] at h
  | some k => simp [hm] at h; omega

theorem spLoop_range (s : List Byte) (off sp : Nat) (nsp : Option Nat) (fuel : Nat)
    (h1 : off ≤ sp) (h2 : sp - off < window) (h3 : ∀ n, nsp = some n → off ≤ n) :
    off ≤ spLoop s off sp nsp fuel ∧ spLoop s off sp nsp fuel - off < window := by
  induction fuel generalizing sp nsp with
  | zero => unfold spLoop; exact ⟨h1, h2⟩
  | succ f ih =>
    cases nsp with
    | none => unfold spLoop; exact ⟨h1, h2⟩
    | some n =>
      unfold spLoop
      split
      · rename_i hw
        apply ih
        · exact h3 n rfl
        · exact hw
        · intro k hk
          have := findFrom_ge _ _ _ _ hk
          have := h3 n rfl
          omega
      · exact ⟨h1, h2⟩

theorem lastSp_range (s : List Byte) (off : Nat) :
    off ≤ lastSp s off ∧ lastSp s off - off < window := by
  unfold lastSp
  apply spLoop_range
  · exact Nat.le_refl _
  · rw [window_eq]; omega
  · intro n hn; exact findFrom_ge _ _ _ _ hn

theorem pieceLen_range (s : List Byte) (off : Nat) :
    1 ≤ pieceLen s off ∧ pieceLen s off < window := by
  have := lastSp_range s off
  unfold pieceLen
  simp only
  split
  · rw [window_eq, brute_eq]; omega
  · rw [window_eq] at *; omega

end QsmtpModel.Writen

namespace QsmtpModel.Writen
open QsmtpModel

/-- a folded line: header (code + '-'), piece, CRLF -/
def wrapPiece (hdr p : List Byte) : List Byte := hdr ++ p ++ [CR, LF]

theorem foldLong_ok (hdr s : List Byte) (off : Nat) (acc : List (List Byte)) (fuel : Nat)
    (hoff : off ≤ s.length) (hfuel : s.length - off < fuel) :
    ∃ (pieces : List (List Byte)) (off' : Nat), foldLong hdr s off acc fuel = .ok (acc ++ pieces.map (wrapPiece hdr), off')
      ∧ off ≤ off' ∧ off' ≤ s.length ∧ s.length ≤ off' + window
      ∧ pieces.flatten = (s.drop off).take (off' - off)
      ∧ ∀ p ∈ pieces, p.length < window := by
  induction fuel generalizing off acc with
  | zero => omega
  | succ f ih =>
    unfold foldLong
    split
    · rename_i hlong
      have hp := pieceLen_range s off
      rw [window_eq] at hp hlong
      simp only
      have h1 : ¬ (off + pieceLen s off > s.length) := by omega
      have h2 : ¬ (4 + pieceLen s off + 2 > msgSize) := by rw [msgSize_eq]; omega
      rw [if_neg h1, if_neg h2]
      obtain ⟨pieces, off', hres, hle, hle2, hw, hflat, hlen⟩ :=
        ih (off + pieceLen s off) (acc ++ [hdr ++ (s.drop off).take (pieceLen s off) ++ [CR, LF]])
          (by omega) (by omega)
      refine ⟨(s.drop off).take (pieceLen s off) :: pieces, off', ?_, by omega, hle2, hw, ?_, ?_⟩
      · rw [hres]; simp [wrapPiece]
      · simp only [List.flatten_cons, hflat]
        have : off' - off = pieceLen s off + (off' - (off + pieceLen s off)) := by omega
        rw [this, List.take_add, List.drop_drop]
      · intro p hp'
        simp only [List.mem_cons] at hp'
        rcases hp' with rfl | hp'
        · simp only [List.length_take, List.length_drop]; rw [window_eq]; omega
        · exact hlen p hp'
    · rename_i hshort
      exact ⟨[], off, by simp, Nat.le_refl _, hoff, by omega, by simp, by simp⟩

end QsmtpModel.Writen

namespace QsmtpModel.Writen
open QsmtpModel

/-- one reply line: three code bytes, separator, text, CRLF -/
def frame (code : List Byte) (sep : Byte) (c : List Byte) : List Byte := code ++ [sep] ++ c ++ [CR, LF]

theorem parts_ok (code : List Byte) (hcode : code.length = 3) (c : Byte) (body : List Byte)
    (cs : List (List Byte)) (rest : List (List Byte)) (hlen : 4 + body.length ≤ 510) :
    ∃ (cs' : List (List Byte)) (clast : List Byte),
      parts (code ++ [c] ++ body) (cs.map (frame code DASH)) rest
        = .ok ((cs ++ cs').map (frame code DASH) ++ [frame code c clast])
      ∧ cs'.flatten ++ clast = body ++ rest.flatten
      ∧ (∀ x ∈ cs', x.length ≤ 506) ∧ clast.length ≤ 506 := by
  induction rest generalizing body cs with
  | nil =>
    refine ⟨[], body, ?_, by simp, by simp, by omega⟩
    simp only [parts, emit]
    have : (code ++ [c] ++ body).length + 2 ≤ msgSize := by
      rw [msgSize_eq]; simp [hcode]; omega
    rw [if_pos this]
    simp [frame, bind, Except.bind, pure, Except.pure]
  | cons s rest ih =>
    unfold parts
    have hml : (code ++ [c] ++ body).length = 4 + body.length := by simp [hcode]; omega
    split
    · rename_i hflush
      have h3 : (code ++ [c] ++ body)[3]? = some c := by
        match code, hcode with
        | [a, b, d], _ => simp
      rw [h3]
      have hset : setIdx (code ++ [c] ++ body) 3 DASH = code ++ [DASH] ++ body := by
        match code, hcode with
        | [a, b, d], _ => simp [setIdx]
      rw [hset]
      have hemit : emit (code ++ [DASH] ++ body) = .ok (frame code DASH body) := by
        simp only [emit]
        have : (code ++ [DASH] ++ body).length + 2 ≤ msgSize := by
          rw [msgSize_eq]; simp [hcode]; omega
        rw [if_pos this]; rfl
      have hhdr : (code ++ [DASH] ++ body).take 4 = code ++ [DASH] := by
        match code, hcode with
        | [a, b, d], _ => simp
      have hsetc : setIdx (code ++ [DASH]) 3 c = code ++ [c] := by
        match code, hcode with
        | [a, b, d], _ => simp [setIdx]
      simp only [hemit, hhdr, hsetc, bind, Except.bind]
      by_cases hbig : s.length + Gen.netWritenFoldSlack > msgSize
      · rw [if_pos hbig]
        obtain ⟨pieces, off', hres, _, hle2, hw, hflat, hpl⟩ :=
          foldLong_ok (code ++ [DASH]) s 0 [] (s.length + 1) (by omega) (by omega)
        rw [hres]
        rw [window_eq] at hw hpl
        simp only [List.nil_append, List.length_drop]
        have hfit : ¬ (4 + (s.length - off') > msgSize) := by rw [msgSize_eq]; omega
        rw [if_neg hfit]
        have hwrap : pieces.map (wrapPiece (code ++ [DASH])) = pieces.map (frame code DASH) := by
          apply List.map_congr_left; intro p _; simp [wrapPiece, frame]
        rw [hwrap]
        have hout : cs.map (frame code DASH) ++ [frame code DASH body] ++ pieces.map (frame code DASH)
            = (cs ++ [body] ++ pieces).map (frame code DASH) := by simp
        rw [hout]
        obtain ⟨cs', clast, hr, hfl, hx, hcl⟩ := ih (s.drop off') (cs ++ [body] ++ pieces)
          (by simp only [List.length_drop]; omega)
        refine ⟨[body] ++ pieces ++ cs', clast, ?_, ?_, ?_, hcl⟩
        · rw [hr]; simp [List.append_assoc]
        · simp only [List.flatten_append, List.flatten_cons, List.flatten_nil, List.append_nil,
            List.append_assoc, hfl, hflat]
          simp only [List.drop_zero, Nat.sub_zero]
          rw [← List.append_assoc (List.take off' s), List.take_append_drop]
        · intro x hx'
          simp only [List.mem_append, List.mem_singleton] at hx'
          rcases hx' with (rfl | hx') | hx'
          · omega
          · have := hpl x hx'; omega
          · exact hx x hx'
      · rw [if_neg hbig]
        simp only [pure, Except.pure, List.drop_zero, List.append_nil]
        rw [msgSize_eq, foldSlack_eq] at hbig
        have hfit : ¬ (4 + s.length > msgSize) := by rw [msgSize_eq]; omega
        rw [if_neg hfit]
        have hout : cs.map (frame code DASH) ++ [frame code DASH body]
            = (cs ++ [body]).map (frame code DASH) := by simp
        rw [hout]
        obtain ⟨cs', clast, hr, hfl, hx, hcl⟩ := ih s (cs ++ [body]) (by omega)
        refine ⟨[body] ++ cs', clast, ?_, ?_, ?_, hcl⟩
        · rw [hr]; simp [List.append_assoc]
        · simp [hfl]
        · intro x hx'
          simp only [List.mem_append, List.mem_singleton] at hx'
          rcases hx' with rfl | hx'
          · omega
          · exact hx x hx'
    · rename_i hnoflush
      rw [hml, msgSize_eq, flushSlack_eq] at hnoflush
      have : code ++ [c] ++ body ++ s = code ++ [c] ++ (body ++ s) := by simp
      rw [this]
      obtain ⟨cs', clast, hr, hfl, hx, hcl⟩ := ih (body ++ s) cs (by simp; omega)
      exact ⟨cs', clast, hr, by simp [hfl], hx, hcl⟩

end QsmtpModel.Writen
