/- Lemmas about QsmtpModel.TlsClient (relaying by client certificate); property theorems are in Props/C01.lean -/
import QsmtpModel.TlsClient
namespace QsmtpModel.TlsClient
open QsmtpModel

theorem takeWhile_full {α} (p : α → Bool) : ∀ (l : List α), (l.takeWhile p).length = l.length → l.takeWhile p = l
  | [], _ => rfl
  | a :: l, h => by
    by_cases hp : p a = true
    · simp only [List.takeWhile_cons, hp, if_true, List.length_cons, Nat.add_right_cancel_iff] at h ⊢
      rw [takeWhile_full p l h]
    · simp [hp] at h

theorem mem_takeWhile_p {α} (p : α → Bool) (x : α) : ∀ (l : List α), x ∈ l.takeWhile p → p x = true
  | [], h => by simp at h
  | a :: l, h => by
    by_cases hp : p a = true
    · simp only [List.takeWhile_cons, hp, if_true, List.mem_cons] at h
      rcases h with rfl | h
      · exact hp
      · exact mem_takeWhile_p p x l h
    · simp [hp] at h

theorem entryMatches_eq (f e : List Byte) (h : entryMatches f e = true) : f = e ∧ (0 : Byte) ∉ f := by
  unfold entryMatches at h
  simp only [Bool.and_eq_true, beq_iff_eq] at h
  obtain ⟨hl, hc⟩ := h
  have hfull : (f.takeWhile (· ≠ 0)).length = f.length := by
    have : Control.cstr f = f.takeWhile (· ≠ 0) := rfl
    rw [← this, hc, hl]
  have hf := takeWhile_full _ f hfull
  have hce : Control.cstr f = f := hf
  refine ⟨by rw [← hce]; exact hc, ?_⟩
  intro hm
  have := mem_takeWhile_p (fun x : Byte => decide (x ≠ 0)) 0 f (by rw [hf]; exact hm)
  simp at this

/-- what a positive answer of `tls_check_cert()` means -/
theorem checkCert_pos (clients : List (List Byte)) (peer : Peer) (r : Int) (tc : Option (List Byte)) (w : Bool)
    (h : checkCert clients peer = .ret r tc w) (hr : 0 < r) :
    ∃ c, peer = .cert c ∧ c.verifyOk = true ∧ nameField c ≠ [] ∧ nameField c ∈ clients ∧ (0 : Byte) ∉ nameField c
      ∧ tc = some (nameField c) ∧ r = 1 ∧ w = false := by
  cases peer with
  | sessIdFailed => simp [checkCert, EPROTO] at h; omega
  | timedOut => simp [checkCert] at h
  | failed e => simp [checkCert] at h; omega
  | noCert => simp [checkCert] at h; omega
  | cert c =>
    simp only [checkCert] at h
    split at h
    · simp at h; omega
    · rename_i hv
      split at h
      · simp at h; omega
      · rename_i hne
        split at h
        · rename_i hany
          simp only [Out.ret.injEq] at h
          obtain ⟨e, he, hm⟩ := List.any_eq_true.mp hany
          obtain ⟨hfe, hnul⟩ := entryMatches_eq _ _ hm
          have hcs : Control.cstr (nameField c) = nameField c := by
            have := hm; unfold entryMatches at this
            simp only [Bool.and_eq_true, beq_iff_eq] at this
            rw [this.2, hfe]
          refine ⟨c, rfl, by simpa using hv, by simpa using hne, hfe ▸ he, hnul, ?_, h.1.symm, h.2.2.symm⟩
          rw [← h.2.1, hcs]
        · simp at h; omega

end QsmtpModel.TlsClient
