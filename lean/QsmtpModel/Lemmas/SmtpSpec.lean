/-
Lemmas about the reference specifications of Spec/SmtpData.lean (no model involved).
-/
import QsmtpModel.Spec.SmtpData

set_option linter.unusedSimpArgs false

namespace QsmtpModel.Spec
open QsmtpModel

theorem dot_ne_lf' : DOT ≠ LF := by decide
theorem cr_ne_dot' : CR ≠ DOT := by decide
theorem cr_ne_lf' : CR ≠ LF := by decide

/-- un-dotting undoes dot-stuffing -/
theorem unDotAux_dotStuffAux (x : List Byte) : ∀ bol : Bool, unDotAux bol (dotStuffAux bol x) = x := by
  induction x with
  | nil => intro bol; simp [dotStuffAux, unDotAux]
  | cons c rest ih =>
    intro bol
    by_cases h : bol = true ∧ c = DOT
    · obtain ⟨rfl, rfl⟩ := h
      simp [dotStuffAux, unDotAux, dot_ne_lf', ih false]
    · rw [dotStuffAux, if_neg h, unDotAux, if_neg h, ih]

theorem unDot_dotStuff (x : List Byte) : unDot (dotStuff x) = x := unDotAux_dotStuffAux x true

/-- is the position after `a` the beginning of a line, if it was `bol` before `a` -/
def bolAfter (bol : Bool) (a : List Byte) : Bool :=
  match a.getLast? with
  | none => bol
  | some c => c = LF

theorem bolAfter_cons (bol : Bool) (c : Byte) (rest : List Byte) :
    bolAfter bol (c :: rest) = bolAfter (c = LF) rest := by
  cases rest with
  | nil => simp [bolAfter]
  | cons d r =>
    simp only [bolAfter, List.getLast?_cons_cons]
    cases h : (d :: r).getLast? with
    | none => simp at h
    | some x => rfl

theorem dotStuffAux_append (a b : List Byte) : ∀ bol : Bool,
    dotStuffAux bol (a ++ b) = dotStuffAux bol a ++ dotStuffAux (bolAfter bol a) b := by
  induction a with
  | nil => intro bol; simp [dotStuffAux, bolAfter]
  | cons c rest ih =>
    intro bol
    rw [bolAfter_cons]
    by_cases h : bol = true ∧ c = DOT
    · obtain ⟨rfl, rfl⟩ := h
      simp only [List.cons_append, dotStuffAux, and_self, if_true, ih]
      simp [dot_ne_lf']
    · simp only [List.cons_append, dotStuffAux, if_neg h, ih]

theorem dotStuffAux_crlf (bol : Bool) : dotStuffAux bol [CR, LF] = [CR, LF] := by
  simp [dotStuffAux, cr_ne_dot', cr_ne_lf']

theorem getLast?_cons_of_ne_nil {c : Byte} {l : List Byte} (h : l ≠ []) : (c :: l).getLast? = l.getLast? := by
  cases l with
  | nil => contradiction
  | cons d r => simp [List.getLast?_cons_cons]

theorem dotStuffAux_ne_nil (bol : Bool) (x : List Byte) (h : x ≠ []) : dotStuffAux bol x ≠ [] := by
  cases x with
  | nil => contradiction
  | cons c rest => simp only [dotStuffAux]; split <;> simp

/-- dot-stuffing does not change the last byte -/
theorem getLast?_dotStuffAux (x : List Byte) : ∀ bol : Bool, (dotStuffAux bol x).getLast? = x.getLast? := by
  induction x with
  | nil => intro bol; simp [dotStuffAux]
  | cons c rest ih =>
    intro bol
    cases rest with
    | nil => simp only [dotStuffAux]; split <;> simp_all
    | cons d r =>
      have hne : ∀ b, dotStuffAux b (d :: r) ≠ [] := fun b => dotStuffAux_ne_nil b _ (by simp)
      rw [dotStuffAux]
      split
      · rw [getLast?_cons_of_ne_nil (by simp), getLast?_cons_of_ne_nil (hne _), ih, List.getLast?_cons_cons]
      · rw [getLast?_cons_of_ne_nil (hne _), ih, List.getLast?_cons_cons]

theorem endsLf_dotStuff (x : List Byte) : endsLf (dotStuff x) = endsLf x := by
  simp [endsLf, dotStuff, getLast?_dotStuffAux]

theorem normalizeEol_eq_nil (m : List Byte) : normalizeEol m = [] ↔ m = [] := by
  constructor
  · intro h
    match m with
    | [] => rfl
    | [c] => simp [normalizeEol] at h; split at h <;> simp at h
    | c :: d :: rest => simp [normalizeEol] at h; split at h <;> (try split at h) <;> simp at h
  · rintro rfl; simp [normalizeEol]

/-- the dot-stuffed final form: what follows when the terminator is chosen by the last byte -/
theorem dotStuff_normalizeFinal (m : List Byte) :
    dotStuff (normalizeFinal m) =
      dotStuff (normalizeEol m) ++ (if m = [] ∨ endsLf (normalizeEol m) then [] else [CR, LF]) := by
  unfold normalizeFinal
  by_cases h : m = []
  · subst h; simp [normalizeEol, dotStuff, dotStuffAux]
  · have hn : normalizeEol m ≠ [] := fun h' => h ((normalizeEol_eq_nil m).mp h')
    by_cases he : endsLf (normalizeEol m) = true
    · simp [he, h]
    · simp only [he, h, Bool.or_false, false_or, if_false, List.isEmpty_iff, hn, decide_false, Bool.false_eq_true]
      rw [dotStuff, dotStuffAux_append, dotStuffAux_crlf]

end QsmtpModel.Spec
