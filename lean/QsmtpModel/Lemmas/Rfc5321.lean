/-
Facts about the reference specification itself (no model involved): what a well-formed local
part can contain.
-/
import QsmtpModel.Lemmas.Addr

namespace QsmtpModel.Spec
open QsmtpModel

/-- "no NUL, CR, LF or 8-bit character" for one byte -/
def cleanByte (c : Byte) : Bool := c != 0 && c != 13 && c != 10 && decide (c.toNat < 128)

theorem cleanB_eq (l : List Byte) : cleanB l = l.all cleanByte := rfl

set_option maxRecDepth 100000 in
theorem atext_clean : ∀ c : Byte, isAtext c = true → cleanByte c = true ∧ c ≠ 34 := by
  apply Addr.byte_forall; decide

set_option maxRecDepth 100000 in
theorem qtext_clean : ∀ c : Byte, isQtext c = true → cleanByte c = true ∧ c ≠ 34 := by
  apply Addr.byte_forall; decide

set_option maxRecDepth 100000 in
theorem qp_clean : ∀ c : Byte, isQpChar c = true → cleanByte c = true := by
  apply Addr.byte_forall; decide

theorem mem_splitOn (sep : Byte) (l : List Byte) : ∀ c ∈ l, c = sep ∨ ∃ piece ∈ splitOn sep l, c ∈ piece := by
  induction l with
  | nil => intro c h; simp at h
  | cons x xs ih =>
    intro c hc
    by_cases hx : x = sep
    · subst hx
      rw [Addr.splitOn_sep]
      rcases List.mem_cons.mp hc with e | e
      · exact Or.inl e
      · rcases ih c e with h | ⟨p, hp, hcp⟩
        · exact Or.inl h
        · exact Or.inr ⟨p, by simp [hp], hcp⟩
    · obtain ⟨l0, ls, hs⟩ := Addr.splitOn_exists sep xs
      rw [Addr.splitOn_ne _ _ _ _ _ hx hs]
      rcases List.mem_cons.mp hc with e | e
      · exact Or.inr ⟨x :: l0, by simp, by simp [e]⟩
      · rcases ih c e with h | ⟨p, hp, hcp⟩
        · exact Or.inl h
        · rw [hs] at hp
          rcases List.mem_cons.mp hp with e2 | e2
          · exact Or.inr ⟨x :: l0, by simp, by simp [← e2, hcp]⟩
          · exact Or.inr ⟨p, by simp [e2], hcp⟩

/-- a dot-string holds only atom characters and dots: in particular no NUL, CR, LF, 8-bit
character and no double quote -/
theorem dotString_clean (l : List Byte) (h : dotStringB l = true) : cleanB l = true ∧ (34 : Byte) ∉ l := by
  unfold dotStringB at h
  rw [List.all_eq_true] at h
  have key : ∀ c ∈ l, cleanByte c = true ∧ c ≠ 34 := by
    intro c hc
    rcases mem_splitOn 46 l c hc with e | ⟨p, hp, hcp⟩
    · subst e; decide
    · have := h p hp
      simp only [Bool.and_eq_true, List.all_eq_true] at this
      exact atext_clean c (this.2 c hcp)
  refine ⟨?_, fun hm => (key 34 hm).2 rfl⟩
  rw [cleanB_eq, List.all_eq_true]
  exact fun c hc => (key c hc).1

theorem qcontent_clean (m : Nat) : ∀ (l : List Byte), l.length ≤ m → qcontent l = true →
    cleanB l = true ∧ noUnescapedQuote l = true := by
  induction m with
  | zero =>
    intro l hl _
    have : l = [] := List.eq_nil_of_length_eq_zero (by omega)
    subst this; exact ⟨rfl, rfl⟩
  | succ m ih =>
    intro l hl h
    cases l with
    | nil => exact ⟨rfl, rfl⟩
    | cons c rest =>
      unfold qcontent at h
      by_cases hc : c = 92
      · subst hc
        simp only [↓reduceIte] at h
        cases rest with
        | nil => simp at h
        | cons e rest' =>
          simp only [Bool.and_eq_true] at h
          obtain ⟨h1, h2⟩ := ih rest' (by simp at hl; omega) h.2
          have he := qp_clean e h.1
          refine ⟨?_, ?_⟩
          · rw [cleanB_eq] at h1 ⊢
            simp only [List.all_cons, h1, he, Bool.and_true]
            decide
          · unfold noUnescapedQuote
            simpa using h2
      · simp only [hc, ↓reduceIte, Bool.and_eq_true] at h
        obtain ⟨h1, h2⟩ := ih rest (by simp at hl; omega) h.2
        have hq := qtext_clean c h.1
        refine ⟨?_, ?_⟩
        · rw [cleanB_eq] at h1 ⊢
          simp [List.all_cons, h1, hq.1]
        · unfold noUnescapedQuote
          simp [hc, hq.2, h2]

/-- a quoted string is `"` content `"`, its content holds no NUL, CR, LF, 8-bit character and no
quote that is not escaped by a backslash -/
theorem quotedString_clean (l : List Byte) (h : quotedStringB l = true) :
    cleanB l = true ∧ ∃ content, l = 34 :: content ++ [34] ∧ noUnescapedQuote content = true := by
  unfold quotedStringB at h
  cases l with
  | nil => simp at h
  | cons c rest =>
    simp only [Bool.and_eq_true, beq_iff_eq] at h
    obtain ⟨⟨hc, hlast⟩, hq⟩ := h
    subst hc
    obtain ⟨ys, hys⟩ := List.getLast?_eq_some_iff.mp hlast
    subst hys
    rw [List.dropLast_concat] at hq
    obtain ⟨h1, h2⟩ := qcontent_clean _ _ (Nat.le_refl _) hq
    refine ⟨?_, ys, rfl, h2⟩
    rw [cleanB_eq] at *
    simp only [List.all_cons, List.all_append, h1, List.all_nil, Bool.and_true, Bool.true_and]
    decide

theorem localPart_clean (l : List Byte) (h : localPartB l = true) : cleanB l = true := by
  unfold localPartB at h
  rcases Bool.or_eq_true _ _ |>.mp h with e | e
  · exact (dotString_clean l e).1
  · exact (quotedString_clean l e).1

end QsmtpModel.Spec
