/-
Lemmas about Spf.Received: where line breaks can be in the Received-SPF header.
-/
import QsmtpModel.Lemmas.SpfCore

namespace QsmtpModel.Spf
open QsmtpModel

/-- no CR and no LF -/
def Clean (l : List Byte) : Prop := ∀ b ∈ l, b ≠ 13 ∧ b ≠ 10

theorem clean_nil : Clean [] := by intro b hb; cases hb
theorem clean_append {a b : List Byte} (ha : Clean a) (hb : Clean b) : Clean (a ++ b) := by
  intro x hx
  rcases List.mem_append.mp hx with h | h
  · exact ha x h
  · exact hb x h

/-- header text whose only line breaks are `LF TAB` (folding) or one final `LF`; no CR at all -/
def breaksOk : List Byte → Bool
  | [] => true
  | c :: rest =>
    if c == 13 then false
    else if c == 10 then (match rest with | [] => true | d :: _ => d == 9) && breaksOk rest
    else breaksOk rest

def headOk : List Byte → Bool
  | [] => true
  | d :: _ => d == 9

def endsLF (l : List Byte) : Bool := l.getLast? == some 10

theorem breaksOk_clean_append {a : List Byte} (b : List Byte) (h : Clean a) : breaksOk (a ++ b) = breaksOk b := by
  induction a with
  | nil => rfl
  | cons c rest ih =>
    have hc := h c (by simp)
    have h13 : (c == 13) = false := by simpa using hc.1
    have h10 : (c == 10) = false := by simpa using hc.2
    simp only [List.cons_append, breaksOk, h13, h10, Bool.false_eq_true, if_false]
    exact ih (fun x hx => h x (List.mem_cons_of_mem _ hx))

theorem breaksOk_clean {a : List Byte} (h : Clean a) : breaksOk a = true := by
  have := breaksOk_clean_append [] h
  simpa [breaksOk] using this

/-- a literal that does not end in LF -/
theorem breaksOk_lit_append (l b : List Byte) (h1 : breaksOk l = true) (h2 : endsLF l = false) :
    breaksOk (l ++ b) = breaksOk b := by
  induction l with
  | nil => rfl
  | cons c rest ih =>
    simp only [List.cons_append, breaksOk] at h1 ⊢
    by_cases h13 : (c == 13) = true
    · simp [h13] at h1
    · simp only [h13, Bool.false_eq_true, if_false] at h1 ⊢
      have hrest : endsLF rest = false ∨ rest = [] := by
        cases rest with
        | nil => exact Or.inr rfl
        | cons d r => left; simpa [endsLF, List.getLast?_cons_cons] using h2
      by_cases h10 : (c == 10) = true
      · simp only [h10, if_true, Bool.and_eq_true] at h1 ⊢
        cases rest with
        | nil =>
          have : c = 10 := by simpa using h10
          subst this
          simp [endsLF] at h2
        | cons d r =>
          have hr : endsLF (d :: r) = false := by
            rcases hrest with h | h
            · exact h
            · cases h
          simp only [List.cons_append]
          rw [← List.cons_append, ih h1.2 hr]
          simp [h1.1]
      · simp only [h10, Bool.false_eq_true, if_false] at h1 ⊢
        rcases hrest with h | h
        · exact ih h1 h
        · subst h; rfl

/-- a literal that ends in LF: what follows must start with TAB (or be empty) -/
theorem breaksOk_litLF_append (l b : List Byte) (h1 : breaksOk l = true) (hb : headOk b = true)
    (hb2 : breaksOk b = true) : breaksOk (l ++ b) = true := by
  induction l with
  | nil => exact hb2
  | cons c rest ih =>
    simp only [List.cons_append, breaksOk] at h1 ⊢
    by_cases h13 : (c == 13) = true
    · simp [h13] at h1
    · simp only [h13, Bool.false_eq_true, if_false] at h1 ⊢
      by_cases h10 : (c == 10) = true
      · simp only [h10, if_true, Bool.and_eq_true] at h1 ⊢
        refine ⟨?_, ih h1.2⟩
        cases rest with
        | nil =>
          cases b with
          | nil => rfl
          | cons d r => simpa [headOk] using hb
        | cons d r => simpa using h1.1
      · simp only [h10, Bool.false_eq_true, if_false] at h1 ⊢
        exact ih h1

/-! ### the printed client address has neither CR nor LF -/

def IpChar (b : Byte) : Prop := (48 ≤ b.toNat ∧ b.toNat ≤ 58) ∨ b.toNat = 46 ∨ (97 ≤ b.toNat ∧ b.toNat ≤ 102)

instance (b : Byte) : Decidable (IpChar b) := by unfold IpChar; infer_instance

theorem mem_intersperse' {α : Type} (sep : α) (l : List α) : ∀ x ∈ l.intersperse sep, x = sep ∨ x ∈ l := by
  induction l with
  | nil => intro x hx; simp at hx
  | cons a t ih =>
    cases t with
    | nil => intro x hx; simp at hx; exact Or.inr (by simp [hx])
    | cons b t' =>
      intro x hx
      rw [List.intersperse_cons_cons] at hx
      rcases List.mem_cons.mp hx with e | e
      · exact Or.inr (by simp [e])
      · rcases List.mem_cons.mp e with e | e
        · exact Or.inl e
        · rcases ih x e with h | h
          · exact Or.inl h
          · exact Or.inr (List.mem_cons_of_mem _ h)

theorem ipChar_clean {l : List Byte} (h : ∀ b ∈ l, IpChar b) : Clean l := by
  intro b hb
  have := h b hb
  constructor
  · intro e; subst e; revert this; decide
  · intro e; subst e; revert this; decide

theorem decDigitsAux_ip (fuel n : Nat) (acc : List Byte) (h : ∀ b ∈ acc, IpChar b) :
    ∀ b ∈ decDigitsAux fuel n acc, IpChar b := by
  induction fuel generalizing n acc with
  | zero => simpa [decDigitsAux] using h
  | succ f ih =>
    unfold decDigitsAux
    simp only []
    have hd : IpChar (UInt8.ofNat (48 + n % 10)) := by
      left
      have : (UInt8.ofNat (48 + n % 10)).toNat = 48 + n % 10 := by
        simp [UInt8.toNat_ofNat']; omega
      omega
    have hacc : ∀ b ∈ UInt8.ofNat (48 + n % 10) :: acc, IpChar b := by
      intro b hb
      rcases List.mem_cons.mp hb with e | e
      · subst e; exact hd
      · exact h b e
    split
    · exact hacc
    · exact ih _ _ hacc

theorem decDigits_ip (n : Nat) : ∀ b ∈ decDigits n, IpChar b :=
  decDigitsAux_ip _ _ _ (by intro b hb; cases hb)

theorem hexLower_ip (n : Nat) (h : n < 16) : IpChar (hexLower n) := by
  unfold hexLower
  split
  · left
    have : (UInt8.ofNat (48 + n)).toNat = 48 + n := by simp [UInt8.toNat_ofNat']; omega
    omega
  · right; right
    have : (UInt8.ofNat (87 + n)).toNat = 87 + n := by simp [UInt8.toNat_ofNat']; omega
    omega

theorem hexDigitsAux_ip (fuel n : Nat) (acc : List Byte) (h : ∀ b ∈ acc, IpChar b) :
    ∀ b ∈ hexDigitsAux fuel n acc, IpChar b := by
  induction fuel generalizing n acc with
  | zero => simpa [hexDigitsAux] using h
  | succ f ih =>
    unfold hexDigitsAux
    simp only []
    have hacc : ∀ b ∈ hexLower (n % 16) :: acc, IpChar b := by
      intro b hb
      rcases List.mem_cons.mp hb with e | e
      · subst e; exact hexLower_ip _ (Nat.mod_lt _ (by decide))
      · exact h b e
    split
    · exact hacc
    · exact ih _ _ hacc

theorem hexDigits_ip (n : Nat) : ∀ b ∈ hexDigits n, IpChar b :=
  hexDigitsAux_ip _ _ _ (by intro b hb; cases hb)

theorem ntop4_ip (a : List Byte) : ∀ b ∈ ntop4 a, IpChar b := by
  intro b hb
  unfold ntop4 at hb
  simp only [List.mem_flatten] at hb
  obtain ⟨l, hl, hbl⟩ := hb
  rcases mem_intersperse' _ _ l hl with h | h
  · subst h
    have : b = DOT := by simpa using hbl
    subst this; decide
  · obtain ⟨x, _, rfl⟩ := List.mem_map.mp h
    exact decDigits_ip _ b hbl

theorem ntop6Loop_ip (ip : Ip) (ws : List Nat) (best : Option (Nat × Nat)) (fuel i : Nat) (acc : List Byte)
    (h : ∀ b ∈ acc, IpChar b) : ∀ b ∈ ntop6Loop ip ws best fuel i acc, IpChar b := by
  have h58 : IpChar 58 := by decide
  have happ : ∀ (x y : List Byte), (∀ b ∈ x, IpChar b) → (∀ b ∈ y, IpChar b) → ∀ b ∈ x ++ y, IpChar b := by
    intro x y hx hy b hb
    rcases List.mem_append.mp hb with e | e
    · exact hx b e
    · exact hy b e
  have hsing : ∀ b ∈ ([58] : List Byte), IpChar b := by
    intro b hb; have : b = 58 := by simpa using hb
    subst this; exact h58
  induction fuel generalizing i acc with
  | zero => simpa [ntop6Loop] using h
  | succ f ih =>
    unfold ntop6Loop
    have hacc : ∀ b ∈ (if i ≠ 0 then acc ++ [58] else acc), IpChar b := by
      split
      · exact happ _ _ h hsing
      · exact h
    split
    · exact h
    · split
      · apply ih
        split
        · exact happ _ _ h hsing
        · exact h
      · split
        · exact happ _ _ hacc (ntop4_ip _)
        · exact ih _ _ (happ _ _ hacc (hexDigits_ip _))

theorem ntop6_ip (ip : Ip) : ∀ b ∈ ntop6 ip, IpChar b := by
  unfold ntop6
  simp only []
  have hb := ntop6Loop_ip ip (words6 ip) (zeroRun (words6 ip)) 9 0 [] (by intro b hb; cases hb)
  split
  · split
    · intro b hb'
      rcases List.mem_append.mp hb' with e | e
      · exact hb b e
      · have : b = 58 := by simpa using e
        subst this; decide
    · exact hb
  · exact hb

theorem clientIpText_clean (ip : Ip) : Clean (clientIpText ip) := by
  unfold clientIpText
  split
  · exact ipChar_clean (ntop4_ip _)
  · exact ipChar_clean (ntop6_ip _)

end QsmtpModel.Spf

namespace QsmtpModel.Spf
open QsmtpModel

/-- check of a template: every literal is fine by itself, and a literal that ends in LF is the last
piece or is followed by a literal that starts with TAB -/
def segsOk : List Seg → Bool
  | [] => true
  | .S _ :: rest => segsOk rest
  | .L i :: rest =>
    breaksOk (lit i) && segsOk rest &&
      (!endsLF (lit i) || match rest with
        | [] => true
        | .L j :: _ => !(lit j).isEmpty && headOk (lit j)
        | .S _ :: _ => false)

def strsClean (segs : List Seg) : Prop := ∀ l, Seg.S l ∈ segs → Clean l

theorem flat_cons (s : Seg) (rest : List Seg) : flat (s :: rest) = s.bytes ++ flat rest := by
  simp [flat]

theorem breaksOk_flat (segs : List Seg) (h : segsOk segs = true) (hc : strsClean segs) :
    breaksOk (flat segs) = true := by
  induction segs with
  | nil => rfl
  | cons s rest ih =>
    have hc' : strsClean rest := fun l hl => hc l (List.mem_cons_of_mem _ hl)
    rw [flat_cons]
    cases s with
    | S l =>
      simp only [Seg.bytes]
      rw [breaksOk_clean_append _ (hc l (by simp))]
      exact ih (by simpa [segsOk] using h) hc'
    | L i =>
      simp only [Seg.bytes]
      simp only [segsOk, Bool.and_eq_true, Bool.or_eq_true, Bool.not_eq_true'] at h
      obtain ⟨⟨h1, h2⟩, h3⟩ := h
      have hr := ih h2 hc'
      rcases h3 with h3 | h3
      · rw [breaksOk_lit_append _ _ h1 h3]; exact hr
      · refine breaksOk_litLF_append _ _ h1 ?_ hr
        cases rest with
        | nil => rfl
        | cons s2 r2 =>
          cases s2 with
          | S l => simp at h3
          | L j =>
            simp only [Bool.and_eq_true, Bool.not_eq_true'] at h3
            rw [flat_cons]
            simp only [Seg.bytes]
            cases hj : lit j with
            | nil => rw [hj] at h3; simp at h3
            | cons d r => rw [hj] at h3; simpa [headOk] using h3.2

theorem resultName_clean (spf : Nat) : Clean (Gen.spfResultNames.getD spf []) := by
  have : ∀ n ∈ Gen.spfResultNames, ∀ b ∈ n, b ≠ 13 ∧ b ≠ 10 := by decide
  intro b hb
  by_cases h : spf < Gen.spfResultNames.length
  · have e : Gen.spfResultNames.getD spf [] = Gen.spfResultNames[spf] := by
      simp [List.getD, List.getElem?_eq_getElem h]
    rw [e] at hb
    exact this _ (List.getElem_mem h) b hb
  · have e : Gen.spfResultNames.getD spf [] = [] := by
      simp [List.getD, List.getElem?_eq_none (by omega : Gen.spfResultNames.length ≤ spf)]
    rw [e] at hb; cases hb

/-! facts about the literals of spfreceived(), re-checked against the regenerated table -/
theorem lit0_breaks : breaksOk (lit 0) = true := by decide
theorem lit0_ends : endsLF (lit 0) = false := by decide
theorem lit1_breaks : breaksOk (lit 1) = true := by decide
theorem lit1_ends : endsLF (lit 1) = false := by decide
theorem lit2_breaks : breaksOk (lit 2) = true := by decide
theorem lit2_ends : endsLF (lit 2) = false := by decide
theorem lit3_breaks : breaksOk (lit 3) = true := by decide
theorem lit3_ends : endsLF (lit 3) = false := by decide
theorem lit4_breaks : breaksOk (lit 4) = true := by decide
theorem lit4_ends : endsLF (lit 4) = false := by decide
theorem lit5_breaks : breaksOk (lit 5) = true := by decide
theorem lit5_ends : endsLF (lit 5) = false := by decide
theorem lit6_breaks : breaksOk (lit 6) = true := by decide
theorem lit6_ends : endsLF (lit 6) = false := by decide
theorem lit7_breaks : breaksOk (lit 7) = true := by decide
theorem lit7_ends : endsLF (lit 7) = true := by decide
theorem lit8_breaks : breaksOk (lit 8) = true := by decide
theorem lit8_ends : endsLF (lit 8) = false := by decide
theorem lit9_breaks : breaksOk (lit 9) = true := by decide
theorem lit9_ends : endsLF (lit 9) = true := by decide
theorem lit10_breaks : breaksOk (lit 10) = true := by decide
theorem lit10_ends : endsLF (lit 10) = false := by decide
theorem lit11_breaks : breaksOk (lit 11) = true := by decide
theorem lit11_ends : endsLF (lit 11) = true := by decide
theorem lit12_breaks : breaksOk (lit 12) = true := by decide
theorem lit12_ends : endsLF (lit 12) = false := by decide
theorem lit13_breaks : breaksOk (lit 13) = true := by decide
theorem lit13_ends : endsLF (lit 13) = false := by decide
theorem lit14_breaks : breaksOk (lit 14) = true := by decide
theorem lit14_ends : endsLF (lit 14) = true := by decide
theorem lit15_breaks : breaksOk (lit 15) = true := by decide
theorem lit15_ends : endsLF (lit 15) = false := by decide
theorem lit16_breaks : breaksOk (lit 16) = true := by decide
theorem lit16_ends : endsLF (lit 16) = true := by decide
theorem lit17_breaks : breaksOk (lit 17) = true := by decide
theorem lit17_ends : endsLF (lit 17) = false := by decide
theorem lit18_breaks : breaksOk (lit 18) = true := by decide
theorem lit18_ends : endsLF (lit 18) = false := by decide
theorem lit19_breaks : breaksOk (lit 19) = true := by decide
theorem lit19_ends : endsLF (lit 19) = true := by decide
theorem lit20_breaks : breaksOk (lit 20) = true := by decide
theorem lit20_ends : endsLF (lit 20) = false := by decide
theorem lit21_breaks : breaksOk (lit 21) = true := by decide
theorem lit21_ends : endsLF (lit 21) = false := by decide
theorem lit22_breaks : breaksOk (lit 22) = true := by decide
theorem lit22_ends : endsLF (lit 22) = false := by decide
theorem lit23_breaks : breaksOk (lit 23) = true := by decide
theorem lit23_ends : endsLF (lit 23) = false := by decide
theorem lit24_breaks : breaksOk (lit 24) = true := by decide
theorem lit24_ends : endsLF (lit 24) = false := by decide
theorem lit25_breaks : breaksOk (lit 25) = true := by decide
theorem lit25_ends : endsLF (lit 25) = true := by decide
theorem lit20_head : (!(lit 20).isEmpty && headOk (lit 20)) = true := by decide

set_option linter.unusedSimpArgs false

/-- every template spfreceived() can produce passes the check -/
theorem receivedSegs_ok (ss : Sess) (spf : Nat) (exp mech : Option (List Byte)) (segs : List Seg)
    (h : receivedSegs ss spf exp mech = .ok segs) : segsOk segs = true := by
  unfold receivedSegs at h
  split at h
  · cases h; rfl
  split at h
  · cases h
  split at h
  · cases h
  · rename_i body wt hb
    cases h
    unfold bodySegs at hb
    repeat' (split at hb)
    all_goals first
      | (cases hb; done)
      | (cases hb
         cases mech <;> cases exp <;>
           simp only [headSegs, tailSegs, mechSegs, expSegs, domSeg, cipSeg, if_true, Bool.false_eq_true, if_false,
             List.cons_append, List.nil_append, List.append_nil, segsOk, lit0_breaks, lit0_ends, lit1_breaks, lit1_ends, lit2_breaks, lit2_ends, lit3_breaks, lit3_ends, lit4_breaks, lit4_ends, lit5_breaks, lit5_ends, lit6_breaks, lit6_ends, lit7_breaks, lit7_ends, lit8_breaks, lit8_ends, lit9_breaks, lit9_ends, lit10_breaks, lit10_ends, lit11_breaks, lit11_ends, lit12_breaks, lit12_ends, lit13_breaks, lit13_ends, lit14_breaks, lit14_ends, lit15_breaks, lit15_ends, lit16_breaks, lit16_ends, lit17_breaks, lit17_ends, lit18_breaks, lit18_ends, lit19_breaks, lit19_ends, lit20_breaks, lit20_ends, lit21_breaks, lit21_ends, lit22_breaks, lit22_ends, lit23_breaks, lit23_ends, lit24_breaks, lit24_ends, lit25_breaks, lit25_ends, lit20_head,
             Bool.not_true, Bool.not_false, Bool.true_and, Bool.and_true, Bool.or_true, Bool.true_or, Bool.false_or, Bool.and_self] <;>
           (try (split <;> simp only [segsOk, lit0_breaks, lit0_ends, lit1_breaks, lit1_ends, lit2_breaks, lit2_ends, lit3_breaks, lit3_ends, lit4_breaks, lit4_ends, lit5_breaks, lit5_ends, lit6_breaks, lit6_ends, lit7_breaks, lit7_ends, lit8_breaks, lit8_ends, lit9_breaks, lit9_ends, lit10_breaks, lit10_ends, lit11_breaks, lit11_ends, lit12_breaks, lit12_ends, lit13_breaks, lit13_ends, lit14_breaks, lit14_ends, lit15_breaks, lit15_ends, lit16_breaks, lit16_ends, lit17_breaks, lit17_ends, lit18_breaks, lit18_ends, lit19_breaks, lit19_ends, lit20_breaks, lit20_ends, lit21_breaks, lit21_ends, lit22_breaks, lit22_ends, lit23_breaks, lit23_ends, lit24_breaks, lit24_ends, lit25_breaks, lit25_ends, lit20_head, Bool.not_true, Bool.not_false, Bool.true_and, Bool.and_true, Bool.or_true, Bool.true_or, Bool.false_or, Bool.and_self])))

theorem strsClean_nil : strsClean [] := by intro l hl; cases hl
theorem strsClean_L (i : Nat) {rest : List Seg} (h : strsClean rest) : strsClean (.L i :: rest) := by
  intro l hl
  rcases List.mem_cons.mp hl with e | e
  · cases e
  · exact h l e
theorem strsClean_S {x : List Byte} {rest : List Seg} (hx : Clean x) (h : strsClean rest) :
    strsClean (.S x :: rest) := by
  intro l hl
  rcases List.mem_cons.mp hl with e | e
  · cases e; exact hx
  · exact h l e
theorem strsClean_append {a b : List Seg} (ha : strsClean a) (hb : strsClean b) : strsClean (a ++ b) := by
  intro l hl
  rcases List.mem_append.mp hl with e | e
  · exact ha l e
  · exact hb l e

/-- the strings of the template are clean when the session strings are -/
theorem receivedSegs_clean (ss : Sess) (spf : Nat) (exp mech : Option (List Byte)) (segs : List Seg)
    (hh : Clean ss.heloname) (hm : Clean ss.mailfrom) (hs : Clean ss.helostr) (hr : Clean ss.remotehost)
    (he : ∀ x, exp = some x → Clean x) (hmech : ∀ m, mech = some m → Clean m)
    (h : receivedSegs ss spf exp mech = .ok segs) : strsClean segs := by
  have hhelo : Clean ss.helo := by unfold Sess.helo; split; exact hr; exact hs
  have hdom : Clean (if ss.mailfrom.isEmpty = true then ss.helo else ss.mailfrom) := by
    split; exact hhelo; exact hm
  have hcip := clientIpText_clean ss.ip
  have hname := resultName_clean spf
  have hms : strsClean (mechSegs mech) := by
    unfold mechSegs
    split
    · rename_i m; exact strsClean_L _ (strsClean_S (hmech m rfl) strsClean_nil)
    · exact strsClean_nil
  have hes : strsClean (expSegs exp) := by
    unfold expSegs
    split
    · rename_i x; exact strsClean_L _ (strsClean_S (he x rfl) strsClean_nil)
    · exact strsClean_nil
  have hhead : strsClean (headSegs ss spf) :=
    strsClean_L _ (strsClean_S hname (strsClean_L _ (strsClean_S hh (strsClean_L _ strsClean_nil))))
  have htail : strsClean (tailSegs ss mech) :=
    strsClean_append (strsClean_append
      (strsClean_L _ (strsClean_S hh (strsClean_L _ (strsClean_S hcip strsClean_nil)))) hms)
      (strsClean_L _ (strsClean_S hhelo (strsClean_L _ (strsClean_S hm (strsClean_L _ strsClean_nil)))))
  have hdomS : ∀ rest, strsClean rest → strsClean (domSeg ss :: rest) := fun rest hr' => strsClean_S hdom hr'
  have hcipS : ∀ rest, strsClean rest → strsClean (cipSeg ss :: rest) := fun rest hr' => strsClean_S hcip hr'
  unfold receivedSegs at h
  split at h
  · cases h; exact strsClean_nil
  split at h
  · cases h
  split at h
  · cases h
  · rename_i body wt hb
    cases h
    have hbody : strsClean body := by
      unfold bodySegs at hb
      split at hb
      · cases hb
        exact strsClean_append (strsClean_append (strsClean_L _ (hdomS _ (strsClean_L _ strsClean_nil))) hes)
          (strsClean_L _ strsClean_nil)
      split at hb
      · cases hb; exact strsClean_L _ (hdomS _ (strsClean_L _ strsClean_nil))
      split at hb
      · cases hb; exact strsClean_L _ (hdomS _ (strsClean_L _ strsClean_nil))
      split at hb
      · cases hb; exact strsClean_L _ (hdomS _ (strsClean_L _ (hcipS _ (strsClean_L _ strsClean_nil))))
      split at hb
      · cases hb; exact hcipS _ (strsClean_L _ (hdomS _ (strsClean_L _ strsClean_nil)))
      split at hb
      · cases hb; exact strsClean_L _ (hdomS _ (strsClean_L _ (hcipS _ (strsClean_L _ strsClean_nil))))
      · cases hb
    refine strsClean_append (strsClean_append hhead hbody) ?_
    split
    · exact htail
    · exact strsClean_nil

/-- **Received-SPF has line breaks only where the template has them**: no CR at all, every LF is
followed by a TAB or is the last byte. -/
theorem spfreceived_breaksOk (ss : Sess) (spf : Nat) (exp mech : Option (List Byte)) (out : List Byte)
    (hh : Clean ss.heloname) (hm : Clean ss.mailfrom) (hs : Clean ss.helostr) (hr : Clean ss.remotehost)
    (he : ∀ x, exp = some x → Clean x) (hmech : ∀ m, mech = some m → Clean m)
    (h : spfreceived ss spf exp mech = .ok out) : breaksOk out = true := by
  unfold spfreceived at h
  split at h
  · rename_i segs hsegs
    cases h
    exact breaksOk_flat segs (receivedSegs_ok ss spf exp mech segs hsegs)
      (receivedSegs_clean ss spf exp mech segs hh hm hs hr he hmech hsegs)
  · cases h

end QsmtpModel.Spf
