import QsmtpModel.Data

/-
Size and hop limits of smtp_data() (model `QsmtpModel.Data.smtpData`, qsmtpd/data.c).

MUST (every configuration, reader stream and syscall oracle):
  `accepted_run`, `size_limit_no_handoff`, `hop_limit_no_handoff`, `oversize_not_accepted`,
  `overhops_not_accepted`, `emsgsize_replies`, `size_refusal_code`.
SHOULD (under the hypotheses bundled in `Plain`):
  `plain_outcome`, `size_over_refused_552`, `size_over_refused`, `size_within_not_refused_for_size`,
  `hops_over_refused_554`, `within_limits_queued`, `hops_within_not_looping`,
  and the concrete runs `check2822_oversize_gets_550`, `nocheck_oversize_gets_552`,
  `hundred_and_first_received_554`, `hundred_received_accepted`, `plain_example`.

Everything lives in `QsmtpModel.Data.Limits` (the auxiliary names `hdrChk`, `afterRead_done`,
`sysClose_cases`, ... are also used by other lemma files on `QsmtpModel.Data`).  Mathlib-free.
-/

namespace QsmtpModel.Data
open QsmtpModel QsmtpModel.Queue
open QsmtpModel.Netio (Rd)

namespace Limits

/-- the check part of one pass of the header loop (copy of the `chk` term of `hdrLoop`) -/
def hdrChk (c : Cfg) (l : List Byte) (rds : List Rd) (a : Acc) : Option Exit × Acc :=
        if l.head? = some DOT then (none, a)
        else
          let (stop, flagr, a1) :=
            if c.check2822 % 2 = 1 ∨ c.submission then
              match checkHeaders a.hflags l with
              | (.nothing, f) => (none, true, { a with hflags := f })
              | (.known, f) => (none, false, { a with hflags := f })
              | (.dup, _) => (some 550, true, a)
              | (.eightbit, _) => (some 550, true, a)
            else (none, true, a)
          match stop with
          | some code => (some (.loopData (some code) .edone (some l) rds a1), a1)
          | none =>
            if flagr then
              if Session.prefixNoCase receivedName l then
                let a2 := { a1 with hops := a1.hops + 1 }
                if a2.hops > Gen.maxHops then (some (.loopData (some Gen.Data.loopNetmsgCode) .edone (some l) rds a2), a2)
                else (none, a2)
              else if deliveredToRcpt c l then (some (.loopData (some 554) .edone (some l) rds a1), a1)
              else (none, a1)
            else (none, a1)

theorem hdrLoop_unfold (c : Cfg) (l : List Byte) (rds : List Rd) (a : Acc) :
    hdrLoop c l rds a =
      if l == [DOT] ∨ a.msgsize > c.maxbytes ∨ l.isEmpty then .done l rds a
      else
        match hdrChk c l rds a with
        | (some e, _) => e
        | (none, a1) =>
          match wrData a1.q (unDotLine l ++ [LF]) with
          | (false, q1) => .errWrite (some l) rds { a1 with q := q1 }
          | (true, q1) =>
            afterRead rds { a1 with q := q1, msgsize := a1.msgsize + (unDotLine l).length + 2 } (hdrLoop c) := by
  cases rds with
  | nil => rw [hdrLoop]; rfl
  | cons r rs => cases r <;> (rw [hdrLoop]; rfl)


theorem bodyLoop_unfold (c : Cfg) (l : List Byte) (rds : List Rd) (a : Acc) :
    bodyLoop c l rds a =
      if l == [DOT] ∨ a.msgsize > c.maxbytes then .done l rds a
      else if c.check2822 % 2 = 1 ∧ !c.datatype ∧ has8bit l then .loopData (some 550) .edone (some l) rds a
      else
        match wrData a.q (unDotLine l ++ [LF]) with
        | (false, q1) => .errWrite (some l) rds { a with q := q1 }
        | (true, q1) =>
          afterRead rds { a with q := q1, msgsize := a.msgsize + (unDotLine l).length + 2 } (bodyLoop c) := by
  cases rds with
  | nil => rw [bodyLoop]; rfl
  | cons r rs => cases r <;> (rw [bodyLoop]; rfl)

/-! ### the quantities the limits are about -/

/-- the line is looked at by the loop detection: it does not start with a dot and starts
(case-insensitively) with `Received:` -/
def countsAsHop (l : List Byte) : Bool := l.head? != some DOT && Session.prefixNoCase receivedName l

/-- size of the message as smtp_data counts it: every line without its transparency dot plus CRLF -/
def txSize (ls : List (List Byte)) : Nat := (ls.map fun l => (unDotLine l).length + 2).sum

/-- the header block: the lines in front of the first empty line -/
def hdrBlock (ls : List (List Byte)) : List (List Byte) := ls.takeWhile fun l => !l.isEmpty

/-- `Received:` fields the loop detection counts -/
def receivedCount (ls : List (List Byte)) : Nat := (ls.filter countsAsHop).length

@[simp] theorem txSize_nil : txSize [] = 0 := rfl
@[simp] theorem txSize_cons (l : List Byte) (ls : List (List Byte)) :
    txSize (l :: ls) = (unDotLine l).length + 2 + txSize ls := by simp [txSize]
theorem txSize_append (xs ys : List (List Byte)) : txSize (xs ++ ys) = txSize xs + txSize ys := by
  induction xs with
  | nil => simp
  | cons x xs ih => simp [ih]; omega

@[simp] theorem receivedCount_nil : receivedCount [] = 0 := rfl
theorem receivedCount_cons (l : List Byte) (ls : List (List Byte)) :
    receivedCount (l :: ls) = (if countsAsHop l then 1 else 0) + receivedCount ls := by
  simp only [receivedCount, List.filter_cons]; split <;> simp <;> omega
theorem receivedCount_append (xs ys : List (List Byte)) :
    receivedCount (xs ++ ys) = receivedCount xs + receivedCount ys := by
  simp [receivedCount]

@[simp] theorem hdrBlock_nil : hdrBlock [] = [] := rfl
@[simp] theorem hdrBlock_cons_nil (ls : List (List Byte)) : hdrBlock ([] :: ls) = [] := rfl
theorem hdrBlock_cons_ne (l : List Byte) (ls : List (List Byte)) (h : l ≠ []) :
    hdrBlock (l :: ls) = l :: hdrBlock ls := by
  cases l with
  | nil => exact absurd rfl h
  | cons b t => rfl

/-- the header block of `ws ++ bs` is `ws` when no line of `ws` is empty and `bs` is empty or starts
with the empty line -/
theorem hdrBlock_append (ws bs : List (List Byte)) (hws : ∀ w ∈ ws, w ≠ [])
    (hbs : bs = [] ∨ bs.head? = some []) : hdrBlock (ws ++ bs) = ws := by
  induction ws with
  | nil =>
    rcases hbs with h | h
    · subst h; rfl
    · cases bs with
      | nil => rfl
      | cons b t => simp at h; subst h; rfl
  | cons w ws ih =>
    have hw : w ≠ [] := hws w (by simp)
    rw [List.cons_append, hdrBlock_cons_ne _ _ hw, ih (fun x hx => hws x (by simp [hx]))]

/-- lines behind the first empty line are not counted: the body cannot trigger the hop limit -/
theorem receivedCount_hdrBlock_body (body : List (List Byte)) : receivedCount (hdrBlock ([] :: body)) = 0 := rfl

theorem receivedCount_hdrBlock_append_body (hdr body : List (List Byte)) (h : ∀ w ∈ hdr, w ≠ []) :
    receivedCount (hdrBlock (hdr ++ [] :: body)) = receivedCount hdr := by
  rw [hdrBlock_append hdr ([] :: body) h (Or.inr rfl)]

/-! ### the check part of the header loop -/

theorem lower_of_received (l : List Byte) (h : Session.prefixNoCase receivedName l = true) :
    ∃ b t, l = b :: t ∧ lower b = 114 := by
  cases l with
  | nil => simp [Session.prefixNoCase, receivedName] at h
  | cons b t =>
    refine ⟨b, t, rfl, ?_⟩
    simp [Session.prefixNoCase, receivedName] at h
    exact h.2.1.trans (by decide)

theorem matchPatterns_nothing (f : Nat) (l : List Byte) (ps : List (List Byte)) (j : Nat)
    (h : ∀ p ∈ ps, Session.prefixNoCase p l = false) : matchPatterns f l ps j = (.nothing, f) := by
  induction ps generalizing j with
  | nil => rfl
  | cons p ps ih =>
    rw [matchPatterns, if_neg (by simp [h p (by simp)])]
    exact ih _ (fun q hq => h q (by simp [hq]))

/-- a `Received:` line is none of the fields `check_rfc822_headers()` knows (`Date:`, `From:`,
`Message-Id:`), so the header check never hides it from the hop counter -/
theorem checkHeaders_received (f : Nat) (l : List Byte) (h : Session.prefixNoCase receivedName l = true) :
    (checkHeaders f l).1 ≠ .known := by
  obtain ⟨b, t, rfl, hb⟩ := lower_of_received l h
  unfold checkHeaders
  split
  · simp
  · rw [matchPatterns_nothing]
    · simp
    · intro p hp
      simp [Gen.Data.hdrPatterns] at hp
      rcases hp with rfl | rfl | rfl <;> simp [Session.prefixNoCase, hb] <;> (intro _ hx; exact absurd hx (by decide))

theorem hdrChk_some (c : Cfg) (l : List Byte) (rds : List Rd) (a a1 : Acc) (e : Exit)
    (h : hdrChk c l rds a = (some e, a1)) :
    ∃ code a', e = .loopData (some code) .edone (some l) rds a' := by
  unfold hdrChk at h
  by_cases hd : l.head? = some DOT
  · simp [hd] at h
  · by_cases hr : Session.prefixNoCase receivedName l = true <;>
    by_cases hdt : deliveredToRcpt c l = true <;>
    by_cases hc : (c.check2822 % 2 = 1 ∨ c.submission = true)
    all_goals
      rcases hck : checkHeaders a.hflags l with ⟨k, f⟩
      cases k <;> simp [hd, hc, hck, hr, hdt] at h <;> (try split at h) <;> (try simp at h) <;>
        exact ⟨_, _, h.1.symm⟩

theorem hdrChk_none (c : Cfg) (l : List Byte) (rds : List Rd) (a a1 : Acc)
    (h : hdrChk c l rds a = (none, a1)) :
    a1.q = a.q ∧ a1.msgsize = a.msgsize ∧ a1.hops = a.hops + (if countsAsHop l then 1 else 0) ∧
      (a.hops ≤ Gen.maxHops → a1.hops ≤ Gen.maxHops) := by
  unfold hdrChk at h
  by_cases hd : l.head? = some DOT
  · simp [hd] at h; subst h; simp [countsAsHop, hd]
  · by_cases hr : Session.prefixNoCase receivedName l = true <;>
    by_cases hdt : deliveredToRcpt c l = true <;>
    by_cases hc : (c.check2822 % 2 = 1 ∨ c.submission = true)
    all_goals
      have hkn := checkHeaders_received a.hflags l
      rcases hck : checkHeaders a.hflags l with ⟨k, f⟩
      rw [hck] at hkn
      cases k <;> simp [hd, hc, hck, hr, hdt] at h hkn <;> (try split at h) <;> (try simp at h) <;>
        (subst h; simp [countsAsHop, hd, hr]; try omega)

/-! ### inversion: what a loop that ends regularly has done -/

theorem readErrExit_ne_done (e : Netio.Errno) (rs : List Rd) (a : Acc) (l' : List Byte) (rds' : List Rd) (a' : Acc) :
    readErrExit e rs a ≠ .done l' rds' a' := by
  cases e <;> simp [readErrExit]

theorem afterRead_done {rds : List Rd} {a : Acc} {k : List Byte → List Rd → Acc → Exit}
    {l' : List Byte} {rds' : List Rd} {a' : Acc} (h : afterRead rds a k = .done l' rds' a') :
    ∃ l2 rs, rds = .line l2 :: rs ∧ k l2 rs a = .done l' rds' a' := by
  unfold afterRead at h
  split at h
  · cases h
  · exact ⟨_, _, rfl, h⟩
  · exact absurd h (readErrExit_ne_done _ _ _ _ _ _)
  · cases h

theorem hdrLoop_done_step {c : Cfg} {l : List Byte} {rds : List Rd} {a : Acc}
    {l' : List Byte} {rds' : List Rd} {a' : Acc} (h : hdrLoop c l rds a = .done l' rds' a') :
    (l' = l ∧ rds' = rds ∧ a' = a ∧ (l = [DOT] ∨ l = [] ∨ a.msgsize > c.maxbytes)) ∨
    (∃ l2 rs a2, rds = .line l2 :: rs ∧ l ≠ [DOT] ∧ l ≠ [] ∧ a.msgsize ≤ c.maxbytes ∧
      a2.msgsize = a.msgsize + ((unDotLine l).length + 2) ∧
      a2.hops = a.hops + (if countsAsHop l then 1 else 0) ∧
      (a.hops ≤ Gen.maxHops → a2.hops ≤ Gen.maxHops) ∧
      hdrLoop c l2 rs a2 = .done l' rds' a') := by
  rw [hdrLoop_unfold] at h
  split at h
  · rename_i hc
    left
    injection h with h1 h2 h3
    refine ⟨h1.symm, h2.symm, h3.symm, ?_⟩
    simp only [List.isEmpty_iff, beq_iff_eq] at hc
    rcases hc with h | h | h
    · exact Or.inl h
    · exact Or.inr (Or.inr h)
    · exact Or.inr (Or.inl h)
  · rename_i hc
    right
    simp only [not_or, List.isEmpty_iff, beq_iff_eq] at hc
    split at h
    · rename_i e a1 hchk
      obtain ⟨code, a'', rfl⟩ := hdrChk_some _ _ _ _ _ _ hchk
      cases h
    · rename_i a1 hchk
      obtain ⟨hq, hm, hh, hle⟩ := hdrChk_none _ _ _ _ _ hchk
      split at h
      · cases h
      · obtain ⟨l2, rs, rfl, hk⟩ := afterRead_done h
        refine ⟨l2, rs, _, rfl, hc.1, hc.2.2, by omega, ?_, ?_, ?_, hk⟩
        · simp [hm]; omega
        · exact hh
        · exact hle

/-- a header loop that ends regularly with current line `l'` has consumed lines `ws` (none of them
empty or the end marker), has counted exactly their size and their `Received:` fields, has never
let the hop counter pass the limit, and stopped for one of the three reasons of the loop condition -/
theorem hdrLoop_done (c : Cfg) : ∀ (rds : List Rd) (l : List Byte) (a : Acc) (l' : List Byte) (rds' : List Rd) (a' : Acc),
    hdrLoop c l rds a = .done l' rds' a' →
    ∃ ws : List (List Byte), Rd.line l :: rds = ws.map Rd.line ++ Rd.line l' :: rds' ∧
      (∀ w ∈ ws, w ≠ [DOT] ∧ w ≠ []) ∧
      a'.msgsize = a.msgsize + txSize ws ∧
      a'.hops = a.hops + receivedCount ws ∧
      (a.hops ≤ Gen.maxHops → a'.hops ≤ Gen.maxHops) ∧
      (l' = [DOT] ∨ l' = [] ∨ a'.msgsize > c.maxbytes) := by
  intro rds
  induction rds with
  | nil =>
    intro l a l' rds' a' h
    rcases hdrLoop_done_step h with ⟨rfl, rfl, rfl, hx⟩ | ⟨l2, rs, a2, hr, _⟩
    · exact ⟨[], rfl, by simp, by simp, by simp, id, hx⟩
    · cases hr
  | cons r rs ih =>
    intro l a l' rds' a' h
    rcases hdrLoop_done_step h with ⟨rfl, rfl, rfl, hx⟩ | ⟨l2, rs2, a2, hr, h1, h2, _, hm, hh, hle, hk⟩
    · exact ⟨[], rfl, by simp, by simp, by simp, id, hx⟩
    · cases hr
      obtain ⟨ws, hs, hws, hm', hh', hle', hx⟩ := ih l2 a2 l' rds' a' hk
      refine ⟨l :: ws, by simp [hs], ?_, ?_, ?_, fun h0 => hle' (hle h0), hx⟩
      · intro w hw
        simp at hw
        rcases hw with rfl | hw
        · exact ⟨h1, h2⟩
        · exact hws w hw
      · simp [hm', hm]; omega
      · rw [receivedCount_cons, hh', hh]; omega

theorem bodyLoop_done_step {c : Cfg} {l : List Byte} {rds : List Rd} {a : Acc}
    {l' : List Byte} {rds' : List Rd} {a' : Acc} (h : bodyLoop c l rds a = .done l' rds' a') :
    (l' = l ∧ rds' = rds ∧ a' = a ∧ (l = [DOT] ∨ a.msgsize > c.maxbytes)) ∨
    (∃ l2 rs a2, rds = .line l2 :: rs ∧ l ≠ [DOT] ∧ a.msgsize ≤ c.maxbytes ∧
      a2.msgsize = a.msgsize + ((unDotLine l).length + 2) ∧ a2.hops = a.hops ∧
      bodyLoop c l2 rs a2 = .done l' rds' a') := by
  rw [bodyLoop_unfold] at h
  split at h
  · rename_i hc
    left
    injection h with h1 h2 h3
    refine ⟨h1.symm, h2.symm, h3.symm, ?_⟩
    simpa using hc
  · rename_i hc
    right
    simp only [not_or, beq_iff_eq] at hc
    split at h
    · cases h
    · split at h
      · cases h
      · obtain ⟨l2, rs, rfl, hk⟩ := afterRead_done h
        refine ⟨l2, rs, _, rfl, hc.1, by omega, ?_, ?_, hk⟩
        · simp only []; omega
        · rfl

/-- the same for the body loop (no hop counting, the empty line is an ordinary line) -/
theorem bodyLoop_done (c : Cfg) : ∀ (rds : List Rd) (l : List Byte) (a : Acc) (l' : List Byte) (rds' : List Rd) (a' : Acc),
    bodyLoop c l rds a = .done l' rds' a' →
    ∃ ws : List (List Byte), Rd.line l :: rds = ws.map Rd.line ++ Rd.line l' :: rds' ∧
      (∀ w ∈ ws, w ≠ [DOT]) ∧
      a'.msgsize = a.msgsize + txSize ws ∧ a'.hops = a.hops ∧
      (l' = [DOT] ∨ a'.msgsize > c.maxbytes) := by
  intro rds
  induction rds with
  | nil =>
    intro l a l' rds' a' h
    rcases bodyLoop_done_step h with ⟨rfl, rfl, rfl, hx⟩ | ⟨l2, rs, a2, hr, _⟩
    · exact ⟨[], rfl, by simp, by simp, rfl, hx⟩
    · cases hr
  | cons r rs ih =>
    intro l a l' rds' a' h
    rcases bodyLoop_done_step h with ⟨rfl, rfl, rfl, hx⟩ | ⟨l2, rs2, a2, hr, h1, _, hm, hh, hk⟩
    · exact ⟨[], rfl, by simp, by simp, rfl, hx⟩
    · cases hr
      obtain ⟨ws, hs, hws, hm', hh', hx⟩ := ih l2 a2 l' rds' a' hk
      refine ⟨l :: ws, by simp [hs], ?_, ?_, by omega, hx⟩
      · intro w hw
        simp at hw
        rcases hw with rfl | hw
        · exact h1
        · exact hws w hw
      · simp [hm', hm]; omega

/-! ### the parts of `afterHeader` and `smtpData` by name -/

/-- first part of `afterHeader`: submission mode additions / RfC 2822 check (copy of `step1`) -/
def hdrStep1 (c : Cfg) (l : List Byte) (rds : List Rd) (a : Acc) : Sum Res Acc :=
    if c.submission then
      match wrData a.q (submissionFields c a.hflags) with
      | (false, q1) => .inl (errWrite (some l) rds { a with q := q1 })
      | (true, q1) => .inr { a with q := q1 }
    else if c.check2822 % 2 = 1 then
      if !a.hflags.testBit 0 then .inl (loopData (some 550) .edone (some l) rds a)
      else if !a.hflags.testBit 1 then .inl (loopData (some 550) .edone (some l) rds a)
      else .inr a
    else .inr a

/-- second part of `afterHeader`: the empty line and the body (copy of `step2`) -/
def hdrStep2 (c : Cfg) (l : List Byte) (rds : List Rd) (a1 : Acc) : Exit :=
      if l.isEmpty then
        match wrData a1.q [LF] with
        | (false, q1) => .errWrite (some l) rds { a1 with q := q1 }
        | (true, q1) => afterRead rds { a1 with q := q1, msgsize := a1.msgsize + 2 } (bodyLoop c)
      else .done l rds a1

/-- last part of `afterHeader`: what becomes of the way the body loop was left -/
def bodyFinish (c : Cfg) : Exit → Res
    | .died a2 => { q := a2.q, died := true, logsize := a2.msgsize }
    | .loopData code rc cur rds2 a2 => loopData code rc cur rds2 a2
    | .errWrite cur rds2 a2 => errWrite cur rds2 a2
    | .done l2 rds2 a2 =>
      if a2.msgsize > c.maxbytes then loopData none .emsgsize (some l2) rds2 a2
      else
        match queueEnvelope c.liphost c.mailfrom c.rcpts a2.q with
        | (true, q3, _) =>
          let (code, q4) := queueResult q3
          { replies := [code], rc := if code = 250 then .ok else .edone, q := q4, rest := rds2, freed := true,
            accepted := code = 250, logsize := a2.msgsize }
        | (false, q3, _) => errWrite (some l2) rds2 { a2 with q := q3 }

theorem afterHeader_unfold (c : Cfg) (l : List Byte) (rds : List Rd) (a : Acc) :
    afterHeader c l rds a =
      match hdrStep1 c l rds a with
      | .inl r => r
      | .inr a1 => bodyFinish c (hdrStep2 c l rds a1) := by
  unfold afterHeader hdrStep1 hdrStep2 bodyFinish
  rfl

/-- what becomes of the way the header loop was left (the `match` in `smtpData`) -/
def hdrFinish (c : Cfg) : Exit → Res
    | .died a => { q := a.q, died := true, logsize := a.msgsize }
    | .loopData code rc cur rds2 a => loopData code rc cur rds2 a
    | .errWrite cur rds2 a => errWrite cur rds2 a
    | .done l rds2 a => afterHeader c l rds2 a

/-- `smtpData` behind a successful queue_init -/
def dataBody (c : Cfg) (rds : List Rd) (q1 : QSt) : Res :=
  match writeReceived c q1 with
  | (false, q2) => errWrite (some [68, 65, 84, 65]) rds { q := q2 }
  | (true, q2) => hdrFinish c (afterRead rds { q := q2 } (hdrLoop c))

theorem smtpData_unfold (c : Cfg) (rds : List Rd) (tr : List Sys) :
    smtpData c rds tr =
      if c.goodrcpt = 0 then { replies := [554], rc := .edone, q := { trace := tr }, rest := rds }
      else
        match queueInit { trace := tr } with
        | (false, q1) => { replies := [Gen.Data.noqueueCode], rc := .edone, q := q1, rest := rds, freed := true }
        | (true, q1) => { dataBody c rds q1 with replies := 354 :: (dataBody c rds q1).replies } := by
  unfold smtpData dataBody hdrFinish
  rfl

/-! ### the two error labels -/

theorem loopData_accepted (code : Option Nat) (rc : Session.Rc) (cur : Option (List Byte)) (rds : List Rd) (a : Acc) :
    (loopData code rc cur rds a).accepted = false := by
  unfold loopData; split
  · rfl
  · split <;> rfl

theorem errWrite_accepted (cur : Option (List Byte)) (rds : List Rd) (a : Acc) :
    (errWrite cur rds a).accepted = false := by
  unfold errWrite; split <;> rfl

theorem loopData_emsgsize (code : Option Nat) (rc : Session.Rc) (cur : Option (List Byte)) (rds : List Rd) (a : Acc)
    (h : (loopData code rc cur rds a).rc = .emsgsize) :
    (loopData code rc cur rds a).replies = [] ∧ (loopData code rc cur rds a).died = false := by
  unfold loopData at h ⊢; split
  · rename_i hd; simp [hd] at h
  · rename_i hd; simp only [hd] at h
    split
    · simp at h
    · exact ⟨rfl, rfl⟩

theorem errWrite_emsgsize (cur : Option (List Byte)) (rds : List Rd) (a : Acc)
    (h : (errWrite cur rds a).rc = .emsgsize) :
    (errWrite cur rds a).replies = [] ∧ (errWrite cur rds a).died = false := by
  unfold errWrite at h ⊢; split
  · rename_i hd; simp [hd] at h
  · rename_i hd; simp only [hd] at h
    refine ⟨?_, rfl⟩
    show (errWriteReply a.q.errno).1 = []
    cases he : a.q.errno <;> simp [he, errWriteReply] at h ⊢

/-! ### MUST 3: the size refusal is answered with 552 -/

theorem bodyFinish_done_big (c : Cfg) (l2 : List Byte) (rds2 : List Rd) (a2 : Acc) (h : a2.msgsize > c.maxbytes) :
    bodyFinish c (.done l2 rds2 a2) = loopData none .emsgsize (some l2) rds2 a2 := by
  simp [bodyFinish, h]

theorem bodyFinish_done_fail (c : Cfg) (l2 : List Byte) (rds2 : List Rd) (a2 : Acc) (h : ¬ a2.msgsize > c.maxbytes)
    {q3 : QSt} {fr : Bool} (hq : queueEnvelope c.liphost c.mailfrom c.rcpts a2.q = (false, q3, fr)) :
    bodyFinish c (.done l2 rds2 a2) = errWrite (some l2) rds2 { a2 with q := q3 } := by
  simp [bodyFinish, h, hq]

theorem bodyFinish_done_ok (c : Cfg) (l2 : List Byte) (rds2 : List Rd) (a2 : Acc) (h : ¬ a2.msgsize > c.maxbytes)
    {q3 : QSt} {fr : Bool} (hq : queueEnvelope c.liphost c.mailfrom c.rcpts a2.q = (true, q3, fr)) :
    bodyFinish c (.done l2 rds2 a2) =
      { replies := [(queueResult q3).1], rc := if (queueResult q3).1 = 250 then .ok else .edone,
        q := (queueResult q3).2, rest := rds2, freed := true,
        accepted := decide ((queueResult q3).1 = 250), logsize := a2.msgsize } := by
  simp [bodyFinish, h, hq]

theorem bodyFinish_emsgsize (c : Cfg) (e : Exit) (h : (bodyFinish c e).rc = .emsgsize) :
    (bodyFinish c e).replies = [] ∧ (bodyFinish c e).died = false ∧ (bodyFinish c e).accepted = false := by
  cases e with
  | died a => simp [bodyFinish] at h
  | loopData code rc cur rds2 a2 =>
    exact ⟨(loopData_emsgsize _ _ _ _ _ h).1, (loopData_emsgsize _ _ _ _ _ h).2, loopData_accepted _ _ _ _ _⟩
  | errWrite cur rds2 a2 =>
    exact ⟨(errWrite_emsgsize _ _ _ h).1, (errWrite_emsgsize _ _ _ h).2, errWrite_accepted _ _ _⟩
  | done l2 rds2 a2 =>
    by_cases hs : a2.msgsize > c.maxbytes
    · rw [bodyFinish_done_big _ _ _ _ hs] at h ⊢
      exact ⟨(loopData_emsgsize _ _ _ _ _ h).1, (loopData_emsgsize _ _ _ _ _ h).2, loopData_accepted _ _ _ _ _⟩
    · rcases hq : queueEnvelope c.liphost c.mailfrom c.rcpts a2.q with ⟨ok, q3, fr⟩
      cases ok
      · rw [bodyFinish_done_fail _ _ _ _ hs hq] at h ⊢
        exact ⟨(errWrite_emsgsize _ _ _ h).1, (errWrite_emsgsize _ _ _ h).2, errWrite_accepted _ _ _⟩
      · rw [bodyFinish_done_ok _ _ _ _ hs hq] at h
        exfalso; revert h; simp only []; split <;> simp

theorem afterHeader_emsgsize (c : Cfg) (l : List Byte) (rds : List Rd) (a : Acc)
    (h : (afterHeader c l rds a).rc = .emsgsize) :
    (afterHeader c l rds a).replies = [] ∧ (afterHeader c l rds a).died = false ∧
      (afterHeader c l rds a).accepted = false := by
  rw [afterHeader_unfold] at h ⊢
  split
  · rename_i r hr; simp only [hr] at h
    unfold hdrStep1 at hr
    split at hr
    · split at hr
      · cases hr
        exact ⟨(errWrite_emsgsize _ _ _ h).1, (errWrite_emsgsize _ _ _ h).2, errWrite_accepted _ _ _⟩
      · cases hr
    · split at hr
      · split at hr
        · cases hr
          exact ⟨(loopData_emsgsize _ _ _ _ _ h).1, (loopData_emsgsize _ _ _ _ _ h).2, loopData_accepted _ _ _ _ _⟩
        · split at hr
          · cases hr
            exact ⟨(loopData_emsgsize _ _ _ _ _ h).1, (loopData_emsgsize _ _ _ _ _ h).2, loopData_accepted _ _ _ _ _⟩
          · cases hr
      · cases hr
  · rename_i a1 hr; simp only [hr] at h
    exact bodyFinish_emsgsize _ _ h

theorem hdrFinish_emsgsize (c : Cfg) (e : Exit) (h : (hdrFinish c e).rc = .emsgsize) :
    (hdrFinish c e).replies = [] ∧ (hdrFinish c e).died = false ∧ (hdrFinish c e).accepted = false := by
  cases e with
  | died a => simp [hdrFinish] at h
  | loopData code rc cur rds2 a2 =>
    exact ⟨(loopData_emsgsize _ _ _ _ _ h).1, (loopData_emsgsize _ _ _ _ _ h).2, loopData_accepted _ _ _ _ _⟩
  | errWrite cur rds2 a2 =>
    exact ⟨(errWrite_emsgsize _ _ _ h).1, (errWrite_emsgsize _ _ _ h).2, errWrite_accepted _ _ _⟩
  | done l2 rds2 a2 => exact afterHeader_emsgsize _ _ _ _ h

theorem dataBody_emsgsize (c : Cfg) (rds : List Rd) (q1 : QSt) (h : (dataBody c rds q1).rc = .emsgsize) :
    (dataBody c rds q1).replies = [] ∧ (dataBody c rds q1).died = false ∧ (dataBody c rds q1).accepted = false := by
  unfold dataBody at h ⊢
  split
  · rename_i hw; simp only [hw] at h
    exact ⟨(errWrite_emsgsize _ _ _ h).1, (errWrite_emsgsize _ _ _ h).2, errWrite_accepted _ _ _⟩
  · rename_i hw; simp only [hw] at h
    exact hdrFinish_emsgsize _ _ h

/-- Whenever `smtp_data()` returns EMSGSIZE (message too big, or ENOSPC/EFBIG/EMSGSIZE from a write
to qmail-queue) it has written nothing but the 354, the process lives, nothing was handed over. -/
theorem emsgsize_replies (c : Cfg) (rds : List Rd) (tr : List Sys)
    (h : (smtpData c rds tr).rc = .emsgsize) :
    (smtpData c rds tr).replies = [354] ∧ (smtpData c rds tr).died = false ∧
      (smtpData c rds tr).accepted = false := by
  rw [smtpData_unfold] at h ⊢
  split
  · rename_i hg; simp [hg] at h
  · rename_i hg; simp only [hg, if_false] at h
    split
    · rename_i hq; simp [hq] at h
    · rename_i q1 hq; simp only [hq] at h
      obtain ⟨h1, h2, h3⟩ := dataBody_emsgsize c rds q1 h
      exact ⟨by simp [h1], h2, h3⟩

/-- MUST 3. The reply the client finally sees for a transaction that `smtp_data()` ended with
EMSGSIZE is 552 (written by smtploop for the return value; `smtp_data()` itself wrote only 354). -/
theorem size_refusal_code (c : Cfg) (rds : List Rd) (tr : List Sys)
    (h : (smtpData c rds tr).rc = .emsgsize) : finalReply (smtpData c rds tr) = some 552 := by
  simp [finalReply, h, Session.errReply]

/-! ### MUST 1 and 2: what an acknowledged message looks like -/

theorem bodyFinish_accepted (c : Cfg) (e : Exit) (h : (bodyFinish c e).accepted = true) :
    ∃ l2 rds2 a2, e = .done l2 rds2 a2 ∧ a2.msgsize ≤ c.maxbytes ∧ (bodyFinish c e).rest = rds2 ∧
      (bodyFinish c e).logsize = a2.msgsize ∧ (bodyFinish c e).replies = [250] := by
  cases e with
  | died a => simp [bodyFinish] at h
  | loopData code rc cur rds2 a2 => simp [bodyFinish, loopData_accepted] at h
  | errWrite cur rds2 a2 => simp [bodyFinish, errWrite_accepted] at h
  | done l2 rds2 a2 =>
    by_cases hs : a2.msgsize > c.maxbytes
    · rw [bodyFinish_done_big _ _ _ _ hs, loopData_accepted] at h; cases h
    · rcases hq : queueEnvelope c.liphost c.mailfrom c.rcpts a2.q with ⟨ok, q3, fr⟩
      cases ok
      · rw [bodyFinish_done_fail _ _ _ _ hs hq, errWrite_accepted] at h; cases h
      · rw [bodyFinish_done_ok _ _ _ _ hs hq] at h ⊢
        simp at h
        exact ⟨l2, rds2, a2, rfl, by omega, rfl, rfl, by simp [h]⟩

theorem hdrStep1_inr {c : Cfg} {l : List Byte} {rds : List Rd} {a a1 : Acc} (h : hdrStep1 c l rds a = .inr a1) :
    a1.msgsize = a.msgsize ∧ a1.hops = a.hops := by
  unfold hdrStep1 at h
  split at h
  · split at h
    · cases h
    · cases h; exact ⟨rfl, rfl⟩
  · split at h
    · split at h
      · cases h
      · split at h
        · cases h
        · cases h; exact ⟨rfl, rfl⟩
    · cases h; exact ⟨rfl, rfl⟩

theorem hdrStep1_inl_accepted {c : Cfg} {l : List Byte} {rds : List Rd} {a : Acc} {r : Res}
    (h : hdrStep1 c l rds a = .inl r) : r.accepted = false := by
  unfold hdrStep1 at h
  split at h
  · split at h
    · cases h; exact errWrite_accepted _ _ _
    · cases h
  · split at h
    · split at h
      · cases h; exact loopData_accepted _ _ _ _ _
      · split at h
        · cases h; exact loopData_accepted _ _ _ _ _
        · cases h
    · cases h

theorem hdrStep2_done {c : Cfg} {l : List Byte} {rds : List Rd} {a1 : Acc}
    {l2 : List Byte} {rds2 : List Rd} {a2 : Acc} (h : hdrStep2 c l rds a1 = .done l2 rds2 a2) :
    (l ≠ [] ∧ l2 = l ∧ rds2 = rds ∧ a2 = a1) ∨
    (l = [] ∧ ∃ bs : List (List Byte), rds = bs.map Rd.line ++ Rd.line l2 :: rds2 ∧ (∀ b ∈ bs, b ≠ [DOT]) ∧
      a2.msgsize = a1.msgsize + 2 + txSize bs ∧ a2.hops = a1.hops ∧
      (l2 = [DOT] ∨ a2.msgsize > c.maxbytes)) := by
  unfold hdrStep2 at h
  split at h
  · rename_i he
    right
    refine ⟨by simpa using he, ?_⟩
    split at h
    · cases h
    · obtain ⟨b0, rb, rfl, hk⟩ := afterRead_done h
      obtain ⟨bs, hs, hbs, hm, hh, hx⟩ := bodyLoop_done c _ _ _ _ _ _ hk
      exact ⟨bs, hs, hbs, hm, hh, hx⟩
  · rename_i he
    left
    injection h with h1 h2 h3
    exact ⟨by simpa using he, h1.symm, h2.symm, h3.symm⟩

/-- an acknowledged message, seen from the exit of the header loop -/
theorem afterHeader_accepted (c : Cfg) (l : List Byte) (rds : List Rd) (a : Acc)
    (hx : l = [DOT] ∨ l = [] ∨ a.msgsize > c.maxbytes)
    (h : (afterHeader c l rds a).accepted = true) :
    ∃ (bs : List (List Byte)) (rest : List Rd), Rd.line l :: rds = bs.map Rd.line ++ Rd.line [DOT] :: rest ∧
      (∀ b ∈ bs, b ≠ [DOT]) ∧ (bs = [] ∨ bs.head? = some []) ∧
      a.msgsize + txSize bs ≤ c.maxbytes ∧
      (afterHeader c l rds a).rest = rest ∧ (afterHeader c l rds a).logsize = a.msgsize + txSize bs ∧
      (afterHeader c l rds a).replies = [250] := by
  rw [afterHeader_unfold] at h ⊢
  split
  · rename_i r hr; simp only [hr] at h
    rw [hdrStep1_inl_accepted hr] at h; cases h
  · rename_i a1 hr; simp only [hr] at h
    obtain ⟨hm1, _⟩ := hdrStep1_inr hr
    obtain ⟨l2, rds2, a2, he, hsz, hrest, hlog, hrep⟩ := bodyFinish_accepted c _ h
    rw [hrest, hlog, hrep]
    rcases hdrStep2_done he with ⟨hne, rfl, rfl, rfl⟩ | ⟨rfl, bs, hs, hbs, hm, _, hx2⟩
    · have : l2 = [DOT] := by
        rcases hx with h | h | h
        · exact h
        · exact absurd h hne
        · omega
      subst this
      exact ⟨[], rds2, rfl, by simp, Or.inl rfl, by simp; omega, rfl, by simp [hm1], rfl⟩
    · have : l2 = [DOT] := by
        rcases hx2 with h | h
        · exact h
        · omega
      subst this
      refine ⟨[] :: bs, rds2, by simp [hs], ?_, Or.inr rfl, ?_, rfl, ?_, rfl⟩
      · intro b hb
        simp at hb
        rcases hb with rfl | hb
        · simp [DOT]
        · exact hbs b hb
      · simp [unDotLine]; omega
      · simp [unDotLine]; omega

theorem dataBody_accepted (c : Cfg) (rds : List Rd) (q1 : QSt) (h : (dataBody c rds q1).accepted = true) :
    ∃ (ls : List (List Byte)) (rest : List Rd), rds = ls.map Rd.line ++ Rd.line [DOT] :: rest ∧
      (∀ l ∈ ls, l ≠ [DOT]) ∧ txSize ls ≤ c.maxbytes ∧ receivedCount (hdrBlock ls) ≤ Gen.maxHops ∧
      (dataBody c rds q1).rest = rest ∧ (dataBody c rds q1).logsize = txSize ls ∧
      (dataBody c rds q1).replies = [250] := by
  unfold dataBody at h ⊢
  split
  · rename_i hw; simp only [hw] at h
    rw [errWrite_accepted] at h; cases h
  · rename_i q2 hw; simp only [hw] at h
    cases he : afterRead rds { q := q2 } (hdrLoop c) with
    | died a => simp [he, hdrFinish] at h
    | loopData code rc cur rds2 a2 => simp [he, hdrFinish, loopData_accepted] at h
    | errWrite cur rds2 a2 => simp [he, hdrFinish, errWrite_accepted] at h
    | done l rds2 a =>
      rw [he] at h
      obtain ⟨l0, rs, rfl, hk⟩ := afterRead_done he
      obtain ⟨ws, hs, hws, hm, hh, hle, hx⟩ := hdrLoop_done c _ _ _ _ _ _ hk
      have hx' : l = [DOT] ∨ l = [] ∨ a.msgsize > c.maxbytes := hx
      obtain ⟨bs, rest, hs2, hbs, hhead, hsz, hrest, hlog, hrep⟩ := afterHeader_accepted c l rds2 a hx' h
      simp only [hdrFinish]
      refine ⟨ws ++ bs, rest, ?_, ?_, ?_, ?_, hrest, ?_, hrep⟩
      · rw [hs, hs2]; simp
      · intro x hx
        rcases List.mem_append.mp hx with hx | hx
        · exact (hws x hx).1
        · exact hbs x hx
      · rw [txSize_append]; simp at hm; omega
      · rw [hdrBlock_append ws bs (fun w hw => (hws w hw).2) hhead]
        have := hle (by simp)
        simp at hh; omega
      · rw [hlog, txSize_append]; simp at hm; omega

/-- The shape of every acknowledged transaction: the reader delivered lines `ls` (none of them the
end marker), then the line `.`; the counted size of `ls` is within `maxbytes`, the header block of
`ls` has at most `Gen.maxHops` counted `Received:` fields; the replies were 354 and 250, the command
loop continues with what follows the end marker, and the logged size is the counted size. -/
theorem accepted_run (c : Cfg) (rds : List Rd) (tr : List Sys) (h : (smtpData c rds tr).accepted = true) :
    ∃ (ls : List (List Byte)) (rest : List Rd), rds = ls.map Rd.line ++ Rd.line [DOT] :: rest ∧
      (∀ l ∈ ls, l ≠ [DOT]) ∧ txSize ls ≤ c.maxbytes ∧ receivedCount (hdrBlock ls) ≤ Gen.maxHops ∧
      (smtpData c rds tr).rest = rest ∧ (smtpData c rds tr).logsize = txSize ls ∧
      (smtpData c rds tr).replies = [354, 250] := by
  rw [smtpData_unfold] at h ⊢
  split
  · rename_i hg; simp [hg] at h
  · rename_i hg; simp only [hg, if_false] at h
    split
    · rename_i hq; simp [hq] at h
    · rename_i q1 hq; simp only [hq] at h
      obtain ⟨ls, rest, h1, h2, h3, h4, h5, h6, h7⟩ := dataBody_accepted c rds q1 h
      exact ⟨ls, rest, h1, h2, h3, h4, h5, h6, by simp [h7]⟩

/-- MUST 1. A message is acknowledged (250 after the hand-off to qmail-queue) only if its counted
size (`txSize`: every line without its transparency dot, plus CRLF) is within `maxbytes`.  For
every configuration, reader stream and syscall oracle. -/
theorem size_limit_no_handoff (c : Cfg) (rds : List Rd) (tr : List Sys)
    (h : (smtpData c rds tr).accepted = true) :
    ∃ (ls : List (List Byte)) (rest : List Rd), rds = ls.map Rd.line ++ Rd.line [DOT] :: rest ∧
      (∀ l ∈ ls, l ≠ [DOT]) ∧ txSize ls ≤ c.maxbytes := by
  obtain ⟨ls, rest, h1, h2, h3, _⟩ := accepted_run c rds tr h
  exact ⟨ls, rest, h1, h2, h3⟩

/-- MUST 2. A message is acknowledged only if the header block (the lines in front of the first
empty line) has at most `Gen.maxHops` (100) lines that start with `Received:` (case-insensitive,
not dot-stuffed).  For every configuration, reader stream and syscall oracle. -/
theorem hop_limit_no_handoff (c : Cfg) (rds : List Rd) (tr : List Sys)
    (h : (smtpData c rds tr).accepted = true) :
    ∃ (ls : List (List Byte)) (rest : List Rd), rds = ls.map Rd.line ++ Rd.line [DOT] :: rest ∧
      (∀ l ∈ ls, l ≠ [DOT]) ∧ receivedCount (hdrBlock ls) ≤ Gen.maxHops := by
  obtain ⟨ls, rest, h1, h2, _, h4, _⟩ := accepted_run c rds tr h
  exact ⟨ls, rest, h1, h2, h4⟩

/-- the split of a reader stream at the first end marker is unique -/
theorem lines_split_unique : ∀ (ls ls' : List (List Byte)) (r r' : List Rd),
    ls.map Rd.line ++ Rd.line [DOT] :: r = ls'.map Rd.line ++ Rd.line [DOT] :: r' →
    (∀ l ∈ ls, l ≠ [DOT]) → (∀ l ∈ ls', l ≠ [DOT]) → ls = ls' ∧ r = r' := by
  intro ls
  induction ls with
  | nil =>
    intro ls' r r' h _ h2
    cases ls' with
    | nil => simpa using h
    | cons x xs =>
      simp at h
      exact absurd h.1.symm (h2 x (by simp))
  | cons y ys ih =>
    intro ls' r r' h h1 h2
    cases ls' with
    | nil =>
      simp at h
      exact absurd h.1 (h1 y (by simp))
    | cons x xs =>
      simp only [List.map_cons, List.cons_append, List.cons.injEq, Rd.line.injEq] at h
      obtain ⟨rfl, h⟩ := h
      obtain ⟨rfl, rfl⟩ := ih xs r r' h (fun l hl => h1 l (by simp [hl])) (fun l hl => h2 l (by simp [hl]))
      exact ⟨rfl, rfl⟩

/-- MUST 1, contrapositive form: a message whose counted size exceeds `maxbytes` is never
acknowledged, whatever the configuration and the queue side do. -/
theorem oversize_not_accepted (c : Cfg) (ls : List (List Byte)) (rest : List Rd) (tr : List Sys)
    (hls : ∀ l ∈ ls, l ≠ [DOT]) (hsz : txSize ls > c.maxbytes) :
    (smtpData c (ls.map Rd.line ++ Rd.line [DOT] :: rest) tr).accepted = false := by
  cases h : (smtpData c (ls.map Rd.line ++ Rd.line [DOT] :: rest) tr).accepted with
  | false => rfl
  | true =>
    obtain ⟨ls', rest', h1, h2, h3, _⟩ := accepted_run c _ tr h
    obtain ⟨rfl, _⟩ := lines_split_unique ls ls' rest rest' h1 hls h2
    omega

/-- MUST 2, contrapositive form: a message with more than `Gen.maxHops` counted `Received:` fields
in its header block is never acknowledged. -/
theorem overhops_not_accepted (c : Cfg) (ls : List (List Byte)) (rest : List Rd) (tr : List Sys)
    (hls : ∀ l ∈ ls, l ≠ [DOT]) (hh : receivedCount (hdrBlock ls) > Gen.maxHops) :
    (smtpData c (ls.map Rd.line ++ Rd.line [DOT] :: rest) tr).accepted = false := by
  cases h : (smtpData c (ls.map Rd.line ++ Rd.line [DOT] :: rest) tr).accepted with
  | false => rfl
  | true =>
    obtain ⟨ls', rest', h1, h2, _, h4, _⟩ := accepted_run c _ tr h
    obtain ⟨rfl, _⟩ := lines_split_unique ls ls' rest rest' h1 hls h2
    omega

/-! ### SHOULD: the refusals and the hand-off under explicit hypotheses on the queue side -/

/-- The kernel refuses nothing, as far as this part of the oracle goes: walking the oracle from its
head, every `close` succeeds and the k-th `write` returns the k-th length of `lens` (the full
length of the k-th write the model issues).  The walk ends at the first entry of another kind
(`wait`, `pipe`, `fork`, `probe`), at the end of the oracle, or when `lens` is used up. -/
def QueueOk : List Sys → List Nat → Prop
  | .write r _ :: t, n :: ns => r = (n : Int) ∧ QueueOk t ns
  | .close ok _ :: t, ns => ok = true ∧ QueueOk t ns
  | _, _ => True

/-- the exit status the first `waitpid(qpid, .., 0)` of the oracle reports -/
def firstWait : List Sys → Option WaitR
  | [] => none
  | .wait w :: _ => some w
  | _ :: t => firstWait t

/-- length of the write `smtp_data()` issues for the line `l` -/
def lineLen (l : List Byte) : Nat := (unDotLine l).length + 1

/-- lengths of the writes of `queue_envelope()` -/
def envLens (c : Cfg) : List Nat := (envWrites c.liphost c.mailfrom c.rcpts).map List.length

theorem wrData_cases (q : QSt) (d : List Byte) (ns : List Nat) (h : QueueOk q.trace (d.length :: ns)) :
    ((wrData q d).1 = true ∧ QueueOk (wrData q d).2.trace ns ∧ firstWait (wrData q d).2.trace = firstWait q.trace) ∨
    ((wrData q d).1 = false ∧ (wrData q d).2.desync = true) := by
  unfold wrData sysWrite
  cases ht : q.trace with
  | nil => right; simp
  | cons s t =>
    cases s with
    | write r e =>
      rw [ht] at h
      simp only [QueueOk] at h
      left
      simp [h.1, h.2, firstWait]
    | _ => right; simp

theorem wrHdr_cases (q : QSt) (d : List Byte) (ns : List Nat) (h : QueueOk q.trace (d.length :: ns)) :
    ((wrHdr q d).1 = true ∧ QueueOk (wrHdr q d).2.trace ns ∧ firstWait (wrHdr q d).2.trace = firstWait q.trace) ∨
    ((wrHdr q d).1 = false ∧ (wrHdr q d).2.desync = true) := by
  unfold wrHdr sysWrite
  cases ht : q.trace with
  | nil => right; simp
  | cons s t =>
    cases s with
    | write r e =>
      rw [ht] at h
      simp only [QueueOk] at h
      left
      simp [h.1, h.2, firstWait]
    | _ => right; simp

theorem sysClose_cases (q : QSt) (ns : List Nat) (h : QueueOk q.trace ns) :
    ((sysClose q).1 = true ∧ QueueOk (sysClose q).2.trace ns ∧ firstWait (sysClose q).2.trace = firstWait q.trace) ∨
    ((sysClose q).1 = false ∧ (sysClose q).2.desync = true) := by
  unfold sysClose
  cases ht : q.trace with
  | nil => right; simp
  | cons s t =>
    cases s with
    | close ok e =>
      rw [ht] at h
      have h' : ok = true ∧ QueueOk t ns := by
        cases ns <;> simpa only [QueueOk] using h
      left
      simp [h'.1, h'.2, firstWait]
    | _ => right; simp

theorem sysClose_desync (q : QSt) (h : q.desync = true) : (sysClose q).2.desync = true := by
  unfold sysClose; split <;> simp [h]

theorem sysWait_desync (q : QSt) (h : q.desync = true) : (sysWait q).2.desync = true := by
  unfold sysWait; split <;> simp [h]

theorem queueReset_desync (q : QSt) (h : q.desync = true) : (queueReset q).desync = true := by
  unfold queueReset
  apply sysWait_desync
  have h1 : (if q.fdData then { (sysClose q).2 with fdData := false } else q).desync = true := by
    split
    · exact sysClose_desync q h
    · exact h
  revert h1
  generalize (if q.fdData then { (sysClose q).2 with fdData := false } else q) = q1
  intro h1
  simp only []
  split
  · exact sysClose_desync q1 h1
  · exact h1

theorem errWrite_desync (cur : Option (List Byte)) (rds : List Rd) (a : Acc) (h : a.q.desync = true) :
    (errWrite cur rds a).q.desync = true := by
  unfold errWrite; split <;> exact queueReset_desync _ h

theorem wrAll_wrHdr_cases : ∀ (ds : List (List Byte)) (q : QSt) (ns : List Nat),
    QueueOk q.trace (ds.map List.length ++ ns) →
    ((wrAll wrHdr q ds).1 = true ∧ QueueOk (wrAll wrHdr q ds).2.trace ns ∧
        firstWait (wrAll wrHdr q ds).2.trace = firstWait q.trace) ∨
    ((wrAll wrHdr q ds).1 = false ∧ (wrAll wrHdr q ds).2.desync = true) := by
  intro ds
  induction ds with
  | nil => intro q ns h; left; exact ⟨rfl, h, rfl⟩
  | cons d ds ih =>
    intro q ns h
    unfold wrAll
    rcases hw : wrHdr q d with ⟨ok, q1⟩
    rcases wrHdr_cases q d _ h with ⟨h1, h2, h3⟩ | ⟨h1, h2⟩
    · rw [hw] at h1 h2 h3; simp only at h1 h2 h3; subst h1
      simp only []
      rcases ih q1 ns h2 with ⟨i1, i2, i3⟩ | ⟨i1, i2⟩
      · left; exact ⟨i1, i2, i3.trans h3⟩
      · right; exact ⟨i1, i2⟩
    · rw [hw] at h1 h2; simp only at h1 h2; subst h1
      right; exact ⟨rfl, h2⟩

theorem queueEnvelope_cases (c : Cfg) (q : QSt) (h : QueueOk q.trace (envLens c)) :
    ((queueEnvelope c.liphost c.mailfrom c.rcpts q).1 = true ∧
      firstWait (queueEnvelope c.liphost c.mailfrom c.rcpts q).2.1.trace = firstWait q.trace) ∨
    ((queueEnvelope c.liphost c.mailfrom c.rcpts q).1 = false ∧
      (queueEnvelope c.liphost c.mailfrom c.rcpts q).2.1.desync = true) := by
  unfold queueEnvelope
  rcases hc : sysClose q with ⟨ok, q1⟩
  rcases sysClose_cases q _ h with ⟨h1, h2, h3⟩ | ⟨h1, h2⟩
  · rw [hc] at h1 h2 h3; simp only at h1 h2 h3; subst h1
    simp only []
    have h2' : QueueOk ({ q1 with fdData := false } : QSt).trace
        ((envWrites c.liphost c.mailfrom c.rcpts).map List.length ++ []) := by
      simpa [envLens] using h2
    rcases hw : wrAll wrHdr { q1 with fdData := false } (envWrites c.liphost c.mailfrom c.rcpts) with ⟨ok, q3⟩
    rcases wrAll_wrHdr_cases _ _ _ h2' with ⟨i1, i2, i3⟩ | ⟨i1, i2⟩
    · rw [hw] at i1 i2 i3; simp only at i1 i2 i3; subst i1
      simp only [if_true]
      have i2' : QueueOk ({ q3 with errno := .none } : QSt).trace [] := i2
      rcases hc2 : sysClose { q3 with errno := .none } with ⟨cok, q5⟩
      rcases sysClose_cases _ _ i2' with ⟨j1, j2, j3⟩ | ⟨j1, j2⟩
      · rw [hc2] at j1 j2 j3; simp only at j1 j2 j3; subst j1
        left
        simp only [Bool.and_self, true_and]
        exact j3.trans (i3.trans h3)
      · rw [hc2] at j1 j2; simp only at j1 j2; subst j1
        right
        simp [j2]
    · rw [hw] at i1 i2; simp only at i1 i2; subst i1
      right
      have := sysClose_desync q3 i2
      simp [this]
  · rw [hc] at h1 h2; simp only at h1 h2; subst h1
    right; exact ⟨rfl, h2⟩

/-- the drain loops stop behind the end marker: `l :: xs` are the lines up to and including it -/
theorem drain_lines : ∀ (all : List (List Byte)) (l : List Byte) (xs : List (List Byte)) (rest : List Rd),
    l :: xs = all ++ [[DOT]] → (∀ x ∈ all, x ≠ [DOT]) →
    drain (some l) (xs.map Rd.line ++ rest) = some rest := by
  intro all
  induction all with
  | nil =>
    intro l xs rest h _
    simp at h
    obtain ⟨rfl, rfl⟩ := h
    simp [drain, DOT]
  | cons y ys ih =>
    intro l xs rest h hall
    simp only [List.cons_append, List.cons.injEq] at h
    obtain ⟨rfl, rfl⟩ := h
    have hl : l ≠ [DOT] := hall l (by simp)
    cases hys : ys ++ [[DOT]] with
    | nil => simp at hys
    | cons l2 xs2 =>
      simp only [List.map_cons, List.cons_append]
      rw [drain]
      · exact ih l2 xs2 rest hys.symm (fun x hx => hall x (by simp [hx]))
      · intro h; injection h with h; exact hl h

/-- the result is the 552 refusal: nothing written by `smtp_data()`, EMSGSIZE returned -/
def Refused552 (r : Res) (rest : List Rd) : Prop :=
  r.replies = [] ∧ r.rc = .emsgsize ∧ r.rest = rest ∧ r.accepted = false ∧ r.died = false ∧ r.freed = true

/-- the result is the loop refusal: 554 written, EDONE returned -/
def Refused554 (r : Res) (rest : List Rd) : Prop :=
  r.replies = [Gen.Data.loopNetmsgCode] ∧ r.rc = .edone ∧ r.rest = rest ∧ r.accepted = false ∧ r.died = false ∧
    r.freed = true

/-- the message went to qmail-queue and the reply is the one for its exit status `W` -/
def Queued (r : Res) (rest : List Rd) (W : Option WaitR) : Prop :=
  ∃ w, W = some w ∧ r.replies = [resultCode w] ∧ r.rc = (if resultCode w = 250 then .ok else .edone) ∧
    r.rest = rest ∧ r.accepted = decide (resultCode w = 250) ∧ r.died = false ∧ r.freed = true

/-- the possible outcomes of a run on a working queue side -/
def Outcome (c : Cfg) (W : Option WaitR) (rest : List Rd) (size hops : Nat) (r : Res) : Prop :=
  r.q.desync = true ∨ (size > c.maxbytes ∧ Refused552 r rest) ∨ (hops > Gen.maxHops ∧ Refused554 r rest) ∨
    (size ≤ c.maxbytes ∧ hops ≤ Gen.maxHops ∧ Queued r rest W)

theorem loopData_552 (cur : Option (List Byte)) (rds : List Rd) (a : Acc) (rest : List Rd)
    (h : drain cur rds = some rest) : Refused552 (loopData none .emsgsize cur rds a) rest := by
  simp [Refused552, loopData, h]

theorem loopData_554 (cur : Option (List Byte)) (rds : List Rd) (a : Acc) (rest : List Rd)
    (h : drain cur rds = some rest) :
    Refused554 (loopData (some Gen.Data.loopNetmsgCode) .edone cur rds a) rest := by
  simp [Refused554, loopData, h]

theorem sysWait_cases (q : QSt) :
    (∃ w, firstWait q.trace = some w ∧ (sysWait q).1 = w) ∨ (sysWait q).2.desync = true := by
  unfold sysWait
  cases ht : q.trace with
  | nil => right; simp
  | cons s t =>
    cases s with
    | wait w => left; exact ⟨w, by simp [firstWait], by simp⟩
    | _ => right; simp

/-- the end of the body loop at the end marker -/
theorem bodyFinish_dot (c : Cfg) (W : Option WaitR) (rest : List Rd) (H : Nat) (hH : H ≤ Gen.maxHops) (a : Acc)
    (hq : QueueOk a.q.trace (envLens c)) (hW : firstWait a.q.trace = W) :
    Outcome c W rest a.msgsize H (bodyFinish c (.done [DOT] rest a)) := by
  by_cases hs : a.msgsize > c.maxbytes
  · rw [bodyFinish_done_big _ _ _ _ hs]
    exact Or.inr (Or.inl ⟨hs, loopData_552 _ _ _ _ (by simp [drain, DOT])⟩)
  · rcases he : queueEnvelope c.liphost c.mailfrom c.rcpts a.q with ⟨ok, q3, fr⟩
    rcases queueEnvelope_cases c a.q hq with ⟨h1, h2⟩ | ⟨h1, h2⟩
    · rw [he] at h1 h2; simp only at h1 h2; subst h1
      rw [bodyFinish_done_ok _ _ _ _ hs he]
      rcases sysWait_cases q3 with ⟨w, hw1, hw2⟩ | hd
      · right; right; right
        refine ⟨by omega, hH, w, ?_, ?_⟩
        · rw [← hW, ← h2, hw1]
        · simp [queueResult, hw2]
      · left
        simpa [queueResult] using hd
    · rw [he] at h1 h2; simp only at h1 h2; subst h1
      rw [bodyFinish_done_fail _ _ _ _ hs he]
      exact Or.inl (errWrite_desync _ _ _ h2)

theorem lineLen_eq (l : List Byte) : (unDotLine l ++ [LF]).length = lineLen l := by simp [lineLen]

/-- the body loop on a working queue side, entered with current line `l`; `l :: xs` are the lines up
to and including the end marker -/
theorem body_run (c : Cfg) (hchk : c.check2822 % 2 = 0) (W : Option WaitR) (rest : List Rd) (H : Nat)
    (hH : H ≤ Gen.maxHops) : ∀ (all : List (List Byte)) (l : List Byte) (xs : List (List Byte)) (a : Acc),
    l :: xs = all ++ [[DOT]] → (∀ x ∈ all, x ≠ [DOT]) →
    QueueOk a.q.trace (all.map lineLen ++ envLens c) → firstWait a.q.trace = W →
    Outcome c W rest (a.msgsize + txSize all) H (bodyFinish c (bodyLoop c l (xs.map Rd.line ++ rest) a)) := by
  intro all
  induction all with
  | nil =>
    intro l xs a h _ hq hW
    simp at h
    obtain ⟨rfl, rfl⟩ := h
    have : bodyLoop c [DOT] ([].map Rd.line ++ rest) a = .done [DOT] rest a := by
      rw [bodyLoop_unfold]; simp
    rw [this]
    simpa using bodyFinish_dot c W rest H hH a (by simpa using hq) hW
  | cons y ys ih =>
    intro l xs a h hall hq hW
    have hdr := drain_lines (y :: ys) l xs rest h hall
    simp only [List.cons_append, List.cons.injEq] at h
    obtain ⟨rfl, rfl⟩ := h
    have hl : l ≠ [DOT] := hall l (by simp)
    rw [bodyLoop_unfold]
    by_cases hs : a.msgsize > c.maxbytes
    · rw [if_pos (Or.inr hs), bodyFinish_done_big _ _ _ _ hs]
      exact Or.inr (Or.inl ⟨by omega, loopData_552 _ _ _ _ hdr⟩)
    · rw [if_neg (by simp [hl, hs]), if_neg (by omega)]
      simp only [List.map_cons, List.cons_append] at hq
      rw [← lineLen_eq] at hq
      rcases hw : wrData a.q (unDotLine l ++ [LF]) with ⟨ok, q1⟩
      rcases wrData_cases a.q _ _ hq with ⟨h1, h2, h3⟩ | ⟨h1, h2⟩
      · rw [hw] at h1 h2 h3; simp only at h1 h2 h3; subst h1
        simp only []
        cases hys : ys ++ [[DOT]] with
        | nil => simp at hys
        | cons l2 xs2 =>
          simp only [List.map_cons, List.cons_append, afterRead]
          have := ih l2 xs2 { a with q := q1, msgsize := a.msgsize + (unDotLine l).length + 2 } hys.symm
            (fun x hx => hall x (by simp [hx])) h2 (h3.trans hW)
          simp only [txSize_cons]
          rw [show a.msgsize + ((unDotLine l).length + 2 + txSize ys) =
            a.msgsize + (unDotLine l).length + 2 + txSize ys by omega]
          exact this
      · rw [hw] at h1 h2; simp only at h1 h2; subst h1
        simp only [bodyFinish]
        exact Or.inl (errWrite_desync _ _ _ h2)

theorem hdrChk_some_plain (c : Cfg) (hsub : c.submission = false) (hchk : c.check2822 % 2 = 0)
    (l : List Byte) (rds : List Rd) (a a1 : Acc) (e : Exit) (hdt : deliveredToRcpt c l = false)
    (h : hdrChk c l rds a = (some e, a1)) :
    countsAsHop l = true ∧ a.hops + 1 > Gen.maxHops ∧
      ∃ a', e = .loopData (some Gen.Data.loopNetmsgCode) .edone (some l) rds a' := by
  unfold hdrChk at h
  by_cases hd : l.head? = some DOT
  · simp [hd] at h
  · have hc : ¬ (c.check2822 % 2 = 1 ∨ c.submission = true) := by simp [hsub]; omega
    by_cases hr : Session.prefixNoCase receivedName l = true
    · simp [hd, hc, hr] at h
      split at h
      · simp at h
        exact ⟨by simp [countsAsHop, hd, hr], by omega, _, h.1.symm⟩
      · simp at h
    · simp [hd, hc, hr, hdt] at h

/-- everything behind the header loop on a working queue side, without submission mode and header
checks; `l :: xs` are the lines up to and including the end marker, `l` the line the header loop
stopped at -/
theorem afterHeader_run (c : Cfg) (hsub : c.submission = false) (hchk : c.check2822 % 2 = 0)
    (W : Option WaitR) (rest : List Rd) (H : Nat) (hH : H ≤ Gen.maxHops)
    (all : List (List Byte)) (l : List Byte) (xs : List (List Byte)) (a : Acc)
    (h : l :: xs = all ++ [[DOT]]) (hall : ∀ x ∈ all, x ≠ [DOT])
    (hx : l = [DOT] ∨ l = [] ∨ a.msgsize > c.maxbytes)
    (hq : QueueOk a.q.trace (all.map lineLen ++ envLens c)) (hW : firstWait a.q.trace = W) :
    Outcome c W rest (a.msgsize + txSize all) H (afterHeader c l (xs.map Rd.line ++ rest) a) := by
  rw [afterHeader_unfold]
  have h1 : hdrStep1 c l (xs.map Rd.line ++ rest) a = .inr a := by
    simp [hdrStep1, hsub]; omega
  rw [h1]
  simp only []
  have hdr := drain_lines all l xs rest h hall
  cases all with
  | nil =>
    simp at h
    obtain ⟨rfl, rfl⟩ := h
    have : hdrStep2 c [DOT] ([].map Rd.line ++ rest) a = .done [DOT] rest a := by
      simp [hdrStep2, DOT]
    rw [this]
    simpa using bodyFinish_dot c W rest H hH a (by simpa using hq) hW
  | cons y ys =>
    simp only [List.cons_append, List.cons.injEq] at h
    obtain ⟨rfl, rfl⟩ := h
    have hl : l ≠ [DOT] := hall l (by simp)
    by_cases he : l = []
    · subst he
      simp only [hdrStep2, List.isEmpty_nil, if_true]
      simp only [List.map_cons, List.cons_append] at hq
      have hq' : QueueOk a.q.trace ([LF].length :: (ys.map lineLen ++ envLens c)) := by
        simpa [lineLen, unDotLine] using hq
      rcases hw : wrData a.q [LF] with ⟨ok, q1⟩
      rcases wrData_cases a.q _ _ hq' with ⟨h1, h2, h3⟩ | ⟨h1, h2⟩
      · rw [hw] at h1 h2 h3; simp only at h1 h2 h3; subst h1
        simp only []
        cases hys : ys ++ [[DOT]] with
        | nil => simp at hys
        | cons l2 xs2 =>
          simp only [List.map_cons, List.cons_append, afterRead]
          have := body_run c hchk W rest H hH ys l2 xs2 { a with q := q1, msgsize := a.msgsize + 2 } hys.symm
            (fun x hx => hall x (by simp [hx])) h2 (h3.trans hW)
          simp only [txSize_cons, unDotLine, List.length_nil]
          rw [show a.msgsize + (0 + 2 + txSize ys) = a.msgsize + 2 + txSize ys by omega]
          exact this
      · rw [hw] at h1 h2; simp only at h1 h2; subst h1
        simp only [bodyFinish]
        exact Or.inl (errWrite_desync _ _ _ h2)
    · have hs : a.msgsize > c.maxbytes := by
        rcases hx with h | h | h
        · exact absurd h hl
        · exact absurd h he
        · exact h
      have : hdrStep2 c l ((ys ++ [[DOT]]).map Rd.line ++ rest) a = .done l ((ys ++ [[DOT]]).map Rd.line ++ rest) a := by
        simp [hdrStep2, he]
      rw [this, bodyFinish_done_big _ _ _ _ hs]
      exact Or.inr (Or.inl ⟨by omega, loopData_552 _ _ _ _ hdr⟩)

/-- the header loop and everything behind it on a working queue side, without submission mode and
header checks; `l :: xs` are the lines up to and including the end marker -/
theorem hdr_run (c : Cfg) (hsub : c.submission = false) (hchk : c.check2822 % 2 = 0)
    (W : Option WaitR) (rest : List Rd) :
    ∀ (all : List (List Byte)) (l : List Byte) (xs : List (List Byte)) (a : Acc),
    l :: xs = all ++ [[DOT]] → (∀ x ∈ all, x ≠ [DOT]) →
    (∀ x ∈ hdrBlock all, deliveredToRcpt c x = false) → a.hops ≤ Gen.maxHops →
    QueueOk a.q.trace (all.map lineLen ++ envLens c) → firstWait a.q.trace = W →
    Outcome c W rest (a.msgsize + txSize all) (a.hops + receivedCount (hdrBlock all))
      (hdrFinish c (hdrLoop c l (xs.map Rd.line ++ rest) a)) := by
  intro all
  induction all with
  | nil =>
    intro l xs a h hall _ hH hq hW
    have h' := h
    simp at h'
    obtain ⟨rfl, rfl⟩ := h'
    have : hdrLoop c [DOT] ([].map Rd.line ++ rest) a = .done [DOT] ([].map Rd.line ++ rest) a := by
      rw [hdrLoop_unfold]; simp
    rw [this]
    simp only [hdrFinish]
    simpa using afterHeader_run c hsub hchk W rest a.hops hH [] [DOT] [] a h hall (Or.inl rfl) hq hW
  | cons y ys ih =>
    intro l xs a h hall hdt hH hq hW
    have h' := h
    simp only [List.cons_append, List.cons.injEq] at h'
    obtain ⟨rfl, rfl⟩ := h'
    have hl : l ≠ [DOT] := hall l (by simp)
    rw [hdrLoop_unfold]
    by_cases hexit : a.msgsize > c.maxbytes ∨ l = []
    · rw [if_pos (by simp only [List.isEmpty_iff]; exact Or.inr hexit)]
      simp only [hdrFinish]
      have := afterHeader_run c hsub hchk W rest a.hops hH (l :: ys) l (ys ++ [[DOT]]) a h hall
        (hexit.elim (fun h => Or.inr (Or.inr h)) (fun h => Or.inr (Or.inl h))) hq hW
      rcases this with hd | ⟨hs, hr⟩ | ⟨hh, _⟩ | ⟨hs, _, hr⟩
      · exact Or.inl hd
      · exact Or.inr (Or.inl ⟨hs, hr⟩)
      · omega
      · refine Or.inr (Or.inr (Or.inr ⟨hs, ?_, hr⟩))
        rcases hexit with hbig | rfl
        · simp only [txSize_cons] at hs; omega
        · simpa using hH
    · have hne : l ≠ [] := fun h => hexit (Or.inr h)
      have hsz : ¬ a.msgsize > c.maxbytes := fun h => hexit (Or.inl h)
      rw [if_neg (by simp [hl, hne, hsz])]
      have hblk : hdrBlock (l :: ys) = l :: hdrBlock ys := hdrBlock_cons_ne _ _ hne
      have hdtl : deliveredToRcpt c l = false := hdt l (by simp [hblk])
      have hdr := drain_lines (l :: ys) l (ys ++ [[DOT]]) rest h hall
      rcases hk : hdrChk c l ((ys ++ [[DOT]]).map Rd.line ++ rest) a with ⟨oe, a1⟩
      cases oe with
      | some e =>
        obtain ⟨hcnt, hover, a', rfl⟩ := hdrChk_some_plain c hsub hchk _ _ _ _ _ hdtl hk
        simp only [hdrFinish]
        refine Or.inr (Or.inr (Or.inl ⟨?_, loopData_554 _ _ _ _ hdr⟩))
        rw [hblk, receivedCount_cons, hcnt]; simp; omega
      | none =>
        obtain ⟨hq1, hm1, hh1, hle1⟩ := hdrChk_none _ _ _ _ _ hk
        simp only []
        simp only [List.map_cons, List.cons_append] at hq
        rw [← lineLen_eq, ← hq1] at hq
        rcases hw : wrData a1.q (unDotLine l ++ [LF]) with ⟨ok, q1⟩
        rcases wrData_cases a1.q _ _ hq with ⟨h1, h2, h3⟩ | ⟨h1, h2⟩
        · rw [hw] at h1 h2 h3; simp only at h1 h2 h3; subst h1
          simp only []
          cases hys : ys ++ [[DOT]] with
          | nil => simp at hys
          | cons l2 xs2 =>
            simp only [List.map_cons, List.cons_append, afterRead]
            have := ih l2 xs2 { a1 with q := q1, msgsize := a1.msgsize + (unDotLine l).length + 2 } hys.symm
              (fun x hx => hall x (by simp [hx])) (fun x hx => hdt x (by simp [hblk, hx])) (hle1 hH) h2
              (by rw [h3, hq1]; exact hW)
            simp only [txSize_cons]
            rw [hblk, receivedCount_cons,
              show a.msgsize + ((unDotLine l).length + 2 + txSize ys) =
                a1.msgsize + (unDotLine l).length + 2 + txSize ys by omega,
              show a.hops + ((if countsAsHop l = true then 1 else 0) + receivedCount (hdrBlock ys)) =
                a1.hops + receivedCount (hdrBlock ys) by omega]
            exact this
        · rw [hw] at h1 h2; simp only at h1 h2; subst h1
          simp only [hdrFinish]
          exact Or.inl (errWrite_desync _ _ _ h2)

/-- The hypotheses of the exactness theorems ("plain" run on a working queue side):
* there is a good recipient, no submission mode, no RfC 2822 header checks (`check2822` even);
* the reader delivers the lines `ls` (none of them the end marker), then the end marker, then `rest`;
* no line of the header block is a `Delivered-To:` line for one of the recipients (the other loop test);
* `queue_init()` and `write_received()` succeed on the oracle `tr` and leave the queue side `q2`;
* from there on the kernel refuses nothing: `QueueOk` for the writes of the lines (each line without
  its transparency dot plus LF) followed by the writes of `queue_envelope()`;
* the oracle is not out of step: it has an entry of the right kind for every call of the run
  (`desync = false` at the end; `desync` is never reset). -/
structure Plain (c : Cfg) (rds : List Rd) (tr : List Sys) (ls : List (List Byte)) (rest : List Rd) (q2 : QSt) : Prop where
  goodrcpt : c.goodrcpt ≠ 0
  nosub : c.submission = false
  nochk : c.check2822 % 2 = 0
  stream : rds = ls.map Rd.line ++ Rd.line [DOT] :: rest
  nodot : ∀ l ∈ ls, l ≠ [DOT]
  nodeliv : ∀ l ∈ hdrBlock ls, deliveredToRcpt c l = false
  init : ∃ q1, queueInit { trace := tr } = (true, q1) ∧ writeReceived c q1 = (true, q2)
  queue : QueueOk q2.trace (ls.map lineLen ++ envLens c)
  sync : (smtpData c rds tr).q.desync = false

/-- the three possible outcomes of a plain run, in terms of the two totals -/
theorem plain_outcome {c : Cfg} {rds : List Rd} {tr : List Sys} {ls : List (List Byte)} {rest : List Rd} {q2 : QSt}
    (P : Plain c rds tr ls rest q2) :
    ∃ r0 : Res, smtpData c rds tr = { r0 with replies := 354 :: r0.replies } ∧
      ((txSize ls > c.maxbytes ∧ Refused552 r0 rest) ∨
       (receivedCount (hdrBlock ls) > Gen.maxHops ∧ Refused554 r0 rest) ∨
       (txSize ls ≤ c.maxbytes ∧ receivedCount (hdrBlock ls) ≤ Gen.maxHops ∧ Queued r0 rest (firstWait q2.trace))) := by
  obtain ⟨q1, hq, hw⟩ := P.init
  have hsync := P.sync
  have hun : smtpData c rds tr = { dataBody c rds q1 with replies := 354 :: (dataBody c rds q1).replies } := by
    rw [smtpData_unfold, if_neg P.goodrcpt, hq]
  refine ⟨dataBody c rds q1, hun, ?_⟩
  rw [hun] at hsync
  have hd : (dataBody c rds q1).q.desync = false := hsync
  have hb : dataBody c rds q1 = hdrFinish c (afterRead rds { q := q2 } (hdrLoop c)) := by
    simp [dataBody, hw]
  rw [hb] at hd ⊢
  have hst : rds = (ls ++ [[DOT]]).map Rd.line ++ rest := by rw [P.stream]; simp
  cases hls : ls ++ [[DOT]] with
  | nil => simp at hls
  | cons l xs =>
    rw [hst, hls] at hd ⊢
    simp only [List.map_cons, List.cons_append, afterRead] at hd ⊢
    have := hdr_run c P.nosub P.nochk (firstWait q2.trace) rest ls l xs { q := q2 } hls.symm P.nodot P.nodeliv
      (by simp) P.queue rfl
    rcases this with h | h | h | h
    · rw [hd] at h; cases h
    · left; simpa using h
    · right; left; simpa using h
    · right; right; simpa using h

/-- SHOULD 4. Plain run, counted size over `maxbytes`, hop count within the limit: the message is
refused for its size: `smtp_data()` writes nothing behind the 354 and returns EMSGSIZE (smtploop
answers 552), nothing is handed over, and the rest of the message up to and including the end
marker is consumed (the command loop continues with `rest`). -/
theorem size_over_refused_552 {c : Cfg} {rds : List Rd} {tr : List Sys} {ls : List (List Byte)} {rest : List Rd}
    {q2 : QSt} (P : Plain c rds tr ls rest q2)
    (hsz : txSize ls > c.maxbytes) (hh : receivedCount (hdrBlock ls) ≤ Gen.maxHops) :
    (smtpData c rds tr).accepted = false ∧ (smtpData c rds tr).rc = .emsgsize ∧
      (smtpData c rds tr).replies = [354] ∧ (smtpData c rds tr).rest = rest ∧
      (smtpData c rds tr).died = false ∧ finalReply (smtpData c rds tr) = some 552 := by
  obtain ⟨r0, hr, h | h | h⟩ := plain_outcome P
  · obtain ⟨_, h1, h2, h3, h4, h5, _⟩ := h
    have hrc : (smtpData c rds tr).rc = .emsgsize := by rw [hr]; exact h2
    refine ⟨by rw [hr]; exact h4, hrc, by rw [hr]; simp [h1], by rw [hr]; exact h3, by rw [hr]; exact h5,
      size_refusal_code c rds tr hrc⟩
  · omega
  · omega

/-- SHOULD 5. Plain run, counted size within `maxbytes`: the message is not refused for its size
(`smtp_data()` does not return EMSGSIZE, so the 552 of smtploop is not sent). -/
theorem size_within_not_refused_for_size {c : Cfg} {rds : List Rd} {tr : List Sys} {ls : List (List Byte)}
    {rest : List Rd} {q2 : QSt} (P : Plain c rds tr ls rest q2) (hsz : txSize ls ≤ c.maxbytes) :
    (smtpData c rds tr).rc ≠ .emsgsize := by
  obtain ⟨r0, hr, h | h | h⟩ := plain_outcome P
  · omega
  · rw [hr]; show r0.rc ≠ _; rw [h.2.2.1]; simp
  · obtain ⟨_, _, w, _, _, h3, _⟩ := h
    rw [hr]; show r0.rc ≠ _; rw [h3]; split <;> simp

/-- SHOULD 6. Plain run, more than `Gen.maxHops` counted `Received:` fields in the header block,
counted size within `maxbytes`: the message is refused as looping: reply 554 behind the 354, EDONE,
nothing handed over, the rest of the message is consumed. -/
theorem hops_over_refused_554 {c : Cfg} {rds : List Rd} {tr : List Sys} {ls : List (List Byte)} {rest : List Rd}
    {q2 : QSt} (P : Plain c rds tr ls rest q2)
    (hh : receivedCount (hdrBlock ls) > Gen.maxHops) (hsz : txSize ls ≤ c.maxbytes) :
    (smtpData c rds tr).replies = [354, Gen.Data.loopNetmsgCode] ∧ (smtpData c rds tr).rc = .edone ∧
      (smtpData c rds tr).accepted = false ∧ (smtpData c rds tr).rest = rest ∧
      (smtpData c rds tr).died = false ∧ finalReply (smtpData c rds tr) = some 554 := by
  obtain ⟨r0, hr, h | h | h⟩ := plain_outcome P
  · omega
  · obtain ⟨_, h1, h2, h3, h4, h5, _⟩ := h
    refine ⟨by rw [hr]; simp [h1], by rw [hr]; exact h2, by rw [hr]; exact h4, by rw [hr]; exact h3,
      by rw [hr]; exact h5, ?_⟩
    rw [hr]; simp [finalReply, h1, h2, Session.errReply, Gen.Data.loopNetmsgCode]
  · omega

/-- A plain run whose counted size is over `maxbytes` is refused whatever the hop count is: with
552, or with the 554 of the loop detection when the 101st `Received:` field comes before the size
limit is passed. -/
theorem size_over_refused {c : Cfg} {rds : List Rd} {tr : List Sys} {ls : List (List Byte)} {rest : List Rd}
    {q2 : QSt} (P : Plain c rds tr ls rest q2) (hsz : txSize ls > c.maxbytes) :
    (smtpData c rds tr).accepted = false ∧ (smtpData c rds tr).rest = rest ∧
      (finalReply (smtpData c rds tr) = some 552 ∨
        (receivedCount (hdrBlock ls) > Gen.maxHops ∧ finalReply (smtpData c rds tr) = some 554)) := by
  obtain ⟨r0, hr, h | h | h⟩ := plain_outcome P
  · obtain ⟨_, h1, h2, h3, h4, _⟩ := h
    refine ⟨by rw [hr]; exact h4, by rw [hr]; exact h3, Or.inl ?_⟩
    rw [hr]; simp [finalReply, h1, h2, Session.errReply]
  · obtain ⟨hc, h1, h2, h3, h4, _⟩ := h
    refine ⟨by rw [hr]; exact h4, by rw [hr]; exact h3, Or.inr ⟨hc, ?_⟩⟩
    rw [hr]; simp [finalReply, h1, h2, Session.errReply, Gen.Data.loopNetmsgCode]
  · omega

/-- SHOULD 7. Plain run within both limits: the message reaches `queue_envelope()`/`queue_result()`
and the reply is the one for the exit status `w` of qmail-queue (the first `wait` entry of the
oracle): 250 and acknowledged iff qmail-queue exited with 0. -/
theorem within_limits_queued {c : Cfg} {rds : List Rd} {tr : List Sys} {ls : List (List Byte)} {rest : List Rd}
    {q2 : QSt} (P : Plain c rds tr ls rest q2)
    (hsz : txSize ls ≤ c.maxbytes) (hh : receivedCount (hdrBlock ls) ≤ Gen.maxHops) :
    ∃ w, firstWait q2.trace = some w ∧ (smtpData c rds tr).replies = [354, resultCode w] ∧
      (smtpData c rds tr).rc = (if resultCode w = 250 then .ok else .edone) ∧
      (smtpData c rds tr).accepted = decide (resultCode w = 250) ∧ (smtpData c rds tr).rest = rest ∧
      (smtpData c rds tr).died = false := by
  obtain ⟨r0, hr, h | h | h⟩ := plain_outcome P
  · omega
  · omega
  · obtain ⟨_, _, w, h0, h1, h2, h3, h4, h5, _⟩ := h
    exact ⟨w, h0, by rw [hr]; simp [h1], by rw [hr]; exact h2, by rw [hr]; exact h4, by rw [hr]; exact h3,
      by rw [hr]; exact h5⟩

/-- SHOULD 7, second form. Plain run within both limits: a 554 is not the loop refusal, it is
qmail-queue's permanent error (exit status `Gen.queuePermLo`..`Gen.queuePermHi`). -/
theorem hops_within_not_looping {c : Cfg} {rds : List Rd} {tr : List Sys} {ls : List (List Byte)} {rest : List Rd}
    {q2 : QSt} (P : Plain c rds tr ls rest q2)
    (hsz : txSize ls ≤ c.maxbytes) (hh : receivedCount (hdrBlock ls) ≤ Gen.maxHops)
    (h554 : (smtpData c rds tr).replies = [354, Gen.Data.loopNetmsgCode]) :
    ∃ n, firstWait q2.trace = some (.exited n) ∧ Gen.queuePermLo ≤ n ∧ n ≤ Gen.queuePermHi := by
  obtain ⟨w, h0, h1, _⟩ := within_limits_queued P hsz hh
  rw [h1] at h554
  simp [Gen.Data.loopNetmsgCode] at h554
  cases w with
  | failed e => simp [resultCode] at h554
  | signaled s => simp [resultCode] at h554
  | exited n =>
    refine ⟨n, h0, ?_⟩
    cases n with
    | zero => simp [resultCode] at h554
    | succ n =>
      simp only [resultCode] at h554
      split at h554
      · assumption
      · simp at h554

/-! ### SHOULD 8: the corner with the RfC 2822 check switched on -/

/-- one good recipient, RfC 2822 checks on, `maxbytes` 5, a relay client (no Received-SPF line) -/
def exCfg : Cfg := { goodrcpt := 1, check2822 := 1, maxbytes := 5, relayclient := 1 }
/-- `Subject: x` -/
def exLine : List Byte := [83, 117, 98, 106, 101, 99, 116, 58, 32, 120]
/-- header `Subject: x`, empty line, body `x`, end marker, then the next command line -/
def exRds : List Rd := [.line exLine, .line [], .line [120], .line [DOT], .line [81]]
/-- an oracle on which nothing fails: queue_init, the trace header (56 bytes), `ws` further full
writes, then the two closes and the waitpid of queue_reset -/
def exTr (ws : List Int) : List Sys :=
  [.pipe true, .pipe true, .fork true, .close true .none, .close true .none, .probe 0, .write 56 .none]
  ++ ws.map (fun n => Sys.write n .none) ++ [.close true .none, .close true .none, .wait (.exited 0)]

/-- With the RfC 2822 check on (and no submission mode), an over-size message (counted size 17,
`maxbytes` 5) whose header loop stops, because of the size, before a `Date:` line was seen is refused
with 550 (`'Date:' missing`), not with 552: the header check comes before the size test. -/
theorem check2822_oversize_gets_550 : txSize [exLine, [], [120]] = 17 ∧
    (smtpData exCfg exRds (exTr [11])).replies = [354, 550] ∧
    (smtpData exCfg exRds (exTr [11])).rc = .edone ∧
    finalReply (smtpData exCfg exRds (exTr [11])) = some 550 ∧
    (smtpData exCfg exRds (exTr [11])).q.desync = false ∧
    (smtpData exCfg exRds (exTr [11])).rest = [.line [81]] := by decide +kernel

/-- The same message with the check off is refused for its size with 552.  (The header loop stops in
front of the empty line, which is still written: three writes.) -/
theorem nocheck_oversize_gets_552 :
    (smtpData { exCfg with check2822 := 0 } exRds (exTr [11, 1])).replies = [354] ∧
    (smtpData { exCfg with check2822 := 0 } exRds (exTr [11, 1])).rc = .emsgsize ∧
    finalReply (smtpData { exCfg with check2822 := 0 } exRds (exTr [11, 1])) = some 552 ∧
    (smtpData { exCfg with check2822 := 0 } exRds (exTr [11, 1])).q.desync = false ∧
    (smtpData { exCfg with check2822 := 0 } exRds (exTr [11, 1])).rest = [.line [81]] := by decide +kernel

/-- `Received: x` -/
def exRcvd : List Byte := [82, 101, 99, 101, 105, 118, 101, 100, 58, 32, 120]
/-- `n` times `Received: x`, the empty line, a body line `Received: x`, the end marker, the next command line -/
def exHopRds (n : Nat) : List Rd :=
  (List.replicate n exRcvd).map Rd.line ++ [.line [], .line exRcvd, .line [DOT], .line [81]]
/-- an oracle on which nothing fails and qmail-queue exits with 0 -/
def exHopTr (ws ws2 : List Int) : List Sys :=
  [.pipe true, .pipe true, .fork true, .close true .none, .close true .none, .probe 0, .write 56 .none]
  ++ ws.map (fun n => Sys.write n .none) ++ [.close true .none] ++ ws2.map (fun n => Sys.write n .none)
  ++ [.close true .none, .wait (.exited 0)]

/-- 101 `Received:` fields in the header: the 101st is answered with 554; the 100 fields before it
were written, then queue_reset (two closes and the waitpid). -/
theorem hundred_and_first_received_554 :
    (smtpData { exCfg with check2822 := 0, maxbytes := 100000 } (exHopRds 101)
      (exHopTr (List.replicate 100 12) [])).replies = [354, 554] ∧
    (smtpData { exCfg with check2822 := 0, maxbytes := 100000 } (exHopRds 101)
      (exHopTr (List.replicate 100 12) [])).q.desync = false ∧
    (smtpData { exCfg with check2822 := 0, maxbytes := 100000 } (exHopRds 101)
      (exHopTr (List.replicate 100 12) [])).rest = [.line [81]] := by decide +kernel

/-- 100 `Received:` fields in the header and one more in the body: acknowledged with 250. -/
theorem hundred_received_accepted :
    (smtpData { exCfg with check2822 := 0, maxbytes := 100000 } (exHopRds 100)
      (exHopTr (List.replicate 100 12 ++ [1, 12]) [1, 1, 1])).replies = [354, 250] ∧
    (smtpData { exCfg with check2822 := 0, maxbytes := 100000 } (exHopRds 100)
      (exHopTr (List.replicate 100 12 ++ [1, 12]) [1, 1, 1])).accepted = true := by decide +kernel

/-! ### helpers to establish `Plain.init` -/

/-- `queue_init()` succeeds on an oracle that starts with two pipes, the fork, the two closes of the
read ends (their results are ignored) and a probe that finds the child running -/
theorem queueInit_ok (b1 b2 : Bool) (e1 e2 : Err) (t : List Sys) :
    (queueInit { trace := [.pipe true, .pipe true, .fork true, .close b1 e1, .close b2 e2, .probe 0] ++ t }).1 = true ∧
    (queueInit { trace := [.pipe true, .pipe true, .fork true, .close b1 e1, .close b2 e2, .probe 0] ++ t }).2.trace = t := by
  simp [queueInit, sysPipe, sysFork, sysClose, sysProbe]

/-- without the Received-SPF line (authenticated or relay client) `write_received()` is one write -/
theorem writeReceived_nospf (c : Cfg) (q : QSt) (h : wantsSpf c = false) :
    writeReceived c q = wrData q (receivedLine c) := by
  simp [writeReceived, h]

/-- The hypotheses of the exactness theorems are satisfiable: the over-size example above is a
plain run (so `size_over_refused_552` applies to it). -/
theorem plain_example :
    Plain { exCfg with check2822 := 0 } exRds (exTr [11, 1]) [exLine, [], [120]] [.line [81]]
      { trace := [.write 11 .none, .write 1 .none, .close true .none, .close true .none, .wait (.exited 0)],
        msgR := (receivedLine exCfg).reverse, fdData := true, fdHdr := true, openFds := 2, wlog := [56] } where
  goodrcpt := by decide
  nosub := rfl
  nochk := by decide
  stream := by decide +kernel
  nodot := by decide +kernel
  nodeliv := by decide +kernel
  init := ⟨(queueInit { trace := exTr [11, 1] }).2, by decide +kernel, by decide +kernel⟩
  queue := by simp [QueueOk, lineLen, exLine, unDotLine]
  sync := by decide +kernel

example : finalReply (smtpData { exCfg with check2822 := 0 } exRds (exTr [11, 1])) = some 552 :=
  (size_over_refused_552 plain_example (by decide +kernel) (by decide +kernel)).2.2.2.2.2

end Limits

end QsmtpModel.Data
