/-
Lemmas about Spf.Macro: the macro expander returns for every input (no negative copy length, no
fuel exhaustion) and its error codes are among −1 / SPF_PERMERROR / SPF_TEMPERROR /
SPF_DNS_HARD_ERROR.  The heart is that the token length computed by the (fixed) scanner of
spf_makro() is in step with the parser: after every escape or macro the read position is still
inside the token.
-/
import QsmtpModel.Lemmas.SpfM

namespace QsmtpModel.Spf
open QsmtpModel

/-- error values of the macro level -/
def ErrOk (e : MacroErr) : Prop :=
  e = .enomem ∨ e = .code SPF_PERMERROR ∨ e = .code SPF_TEMPERROR ∨ e = .code SPF_DNS_HARD_ERROR

/-- a byte that can be inside `%{…}` after the letter: not white space, not `}`, not NUL -/
def paramChar (c : Byte) : Prop := wspace c = false ∧ c ≠ 125 ∧ c ≠ 0

theorem at0_cons_zero (c : Byte) (l : List Byte) : at0 (c :: l) 0 = c := rfl
theorem at0_cons_succ (c : Byte) (l : List Byte) (i : Nat) : at0 (c :: l) (i + 1) = at0 l i := by
  simp [at0, List.getD]
theorem at0_nil (i : Nat) : at0 [] i = 0 := by simp [at0, List.getD]

theorem at0_drop (l : List Byte) (k i : Nat) : at0 (l.drop k) i = at0 l (k + i) := by
  simp [at0, List.getD, List.getElem?_drop]

theorem at0_ne_zero_lt {l : List Byte} {i : Nat} (h : at0 l i ≠ 0) : i < l.length := by
  rcases Nat.lt_or_ge i l.length with hc | hc
  · exact hc
  · have : l[i]? = none := List.getElem?_eq_none (by omega)
    simp [at0, List.getD, this] at h

theorem drop_eq_cons_of_at0 {l : List Byte} {i : Nat} (h : i < l.length) :
    l.drop i = at0 l i :: l.drop (i + 1) := by
  have : at0 l i = l[i] := by simp [at0, List.getD, List.getElem?_eq_getElem h]
  rw [this]
  exact List.drop_eq_getElem_cons h

theorem digit_paramChar {c : Byte} (h : isDigit c = true) : paramChar c := by
  have : 48 ≤ c.toNat ∧ c.toNat ≤ 57 := by simpa [isDigit] using h
  refine ⟨?_, ?_, ?_⟩
  · simp only [wspace, Bool.or_eq_false_iff, beq_eq_false_iff_ne, ne_eq]
    refine ⟨⟨⟨?_, ?_⟩, ?_⟩, ?_⟩ <;> (intro hh; subst hh; revert this; decide)
  · intro hh; subst hh; revert this; decide
  · intro hh; subst hh; revert this; decide

theorem delims_paramChar : ∀ c ∈ Gen.spfDelimiters, paramChar c := by
  unfold paramChar; decide

theorem delimBit_some_mem {c : Byte} {b : Nat} (h : delimBit c = some b) : c ∈ Gen.spfDelimiters := by
  unfold delimBit at h
  split at h
  · rename_i k hk
    have : (Gen.spfDelimiters.idxOf? c).isSome := by rw [hk]; rfl
    exact List.isSome_idxOf?.mp this
  · simp at h

/-- the digit loop consumes digits only -/
theorem makroDigits_spec (l : List Byte) (v n : Nat) :
    (makroDigits l v n).2 - n ≤ l.length ∧ n ≤ (makroDigits l v n).2 ∧
    ∀ i, i < (makroDigits l v n).2 - n → isDigit (at0 l i) = true := by
  induction l generalizing v n with
  | nil => simp [makroDigits]
  | cons c rest ih =>
    unfold makroDigits
    split
    · rename_i hd
      generalize (if v < Gen.spfMakroNumCap then v * 10 + (c.toNat - 48) else v) = v'
      obtain ⟨h1, h2, h3⟩ := ih v' (n + 1)
      refine ⟨by simp; omega, by omega, ?_⟩
      intro i hi
      cases i with
      | zero => simpa [at0_cons_zero] using hd
      | succ j => rw [at0_cons_succ]; exact h3 j (by omega)
    · simp

theorem makroDelims_spec (l : List Byte) (d n : Nat) :
    n ≤ (makroDelims l d n).2 ∧ ∀ i, i < (makroDelims l d n).2 - n → at0 l i ∈ Gen.spfDelimiters := by
  induction l generalizing d n with
  | nil => simp [makroDelims]
  | cons c rest ih =>
    unfold makroDelims
    split
    · rename_i b hb
      obtain ⟨h2, h3⟩ := ih (d ||| b) (n + 1)
      refine ⟨by omega, ?_⟩
      intro i hi
      cases i with
      | zero => rw [at0_cons_zero]; exact delimBit_some_mem hb
      | succ j => rw [at0_cons_succ]; exact h3 j (by omega)
    · simp

/-- everything spf_makroparam consumes is a digit, `r` or a delimiter -/
theorem makroparam_chars {t : List Byte} {offs num r delim : Nat}
    (h : makroparam t = some (offs, num, r, delim)) : ∀ i, i < offs → paramChar (at0 t i) := by
  unfold makroparam at h
  simp only at h
  split at h
  · simp at h
  · -- name the pieces
    obtain ⟨hd1, hd2, hd3⟩ := makroDigits_spec t 0 0
    generalize hnd : (makroDigits t 0 0).2 = nd at h hd1 hd2 hd3
    by_cases hr : at0 (t.drop nd) 0 == 114
    · simp only [hr, if_true] at h
      obtain ⟨he2, he3⟩ := makroDelims_spec ((t.drop nd).drop 1) 1 0
      generalize hndl : (makroDelims ((t.drop nd).drop 1) 1 0).2 = ndl at h he2 he3
      simp only [Option.some.injEq, Prod.mk.injEq] at h
      obtain ⟨ho, -⟩ := h
      intro i hi
      by_cases h1 : i < nd
      · exact digit_paramChar (hd3 i (by omega))
      · by_cases h2 : i = nd
        · subst h2
          have : at0 t i = 114 := by
            have := hr; rw [at0_drop] at this; simpa using this
          rw [this]; unfold paramChar; decide
        · have := he3 (i - nd - 1) (by omega)
          rw [at0_drop, at0_drop] at this
          have hidx : nd + (1 + (i - nd - 1)) = i := by omega
          rw [hidx] at this
          exact delims_paramChar _ this
    · simp only [hr, Bool.false_eq_true, if_false] at h
      obtain ⟨he2, he3⟩ := makroDelims_spec ((t.drop nd).drop 0) 1 0
      generalize hndl : (makroDelims ((t.drop nd).drop 0) 1 0).2 = ndl at h he2 he3
      simp only [Option.some.injEq, Prod.mk.injEq] at h
      obtain ⟨ho, -⟩ := h
      intro i hi
      by_cases h1 : i < nd
      · exact digit_paramChar (hd3 i (by omega))
      · have := he3 (i - nd) (by omega)
        rw [at0_drop, at0_drop] at this
        have hidx : nd + (0 + (i - nd)) = i := by omega
        rw [hidx] at this
        exact delims_paramChar _ this

/-- shape of a successfully parsed macro body `p` (the text after `%{`): letter, parameters, `}` -/
def MacroShape (p : List Byte) (n : Nat) : Prop :=
  n ≥ 1 ∧ at0 p n = 125 ∧ ∀ i, i < n → paramChar (at0 p i)

end QsmtpModel.Spf

namespace QsmtpModel.Spf
open QsmtpModel

/-- a lower-case macro letter -/
def IsLetterLc (lc : Byte) : Prop := 97 ≤ lc.toNat ∧ lc.toNat ≤ 122

theorem errOk_perm : ErrOk (.code SPF_PERMERROR) := Or.inr (Or.inl rfl)

theorem wf_memchr {ss : Sess} (hwf : ss.wf = true) (hne : ss.mailfrom.isEmpty = false) :
    ∃ a, memchr 64 ss.mailfrom = some a := by
  unfold Sess.wf at hwf
  simp only [hne, Bool.false_or, Bool.and_eq_true] at hwf
  have hc : ss.mailfrom.contains 64 = true := hwf.1
  have hmem : (64 : Byte) ∈ ss.mailfrom := by simpa using hc
  generalize ss.mailfrom = l at hmem
  induction l with
  | nil => simp at hmem
  | cons x xs ih =>
    unfold memchr
    by_cases hx : x = 64
    · exact ⟨0, by simp [hx]⟩
    · have : (64 : Byte) ∈ xs := by
        rcases List.mem_cons.mp hmem with h | h
        · exact absurd h.symm hx
        · exact h
      obtain ⟨a, ha⟩ := ih this
      exact ⟨a + 1, by simp [hx, ha]⟩

/-- postcondition of the letter level: a text only for a real macro letter, else a known error -/
def LetterPost (lc : Byte) (t : Except MacroErr (List Byte)) : Prop :=
  match t with
  | .ok _ => IsLetterLc lc
  | .error e => ErrOk e

theorem sat_mApp {lc : Byte} (h : IsLetterLc lc) (s : List Byte) (num r delim : Nat) :
    M.Sat (mApp s num r delim) (LetterPost lc) := M.sat_pure h
theorem sat_mRaw {lc : Byte} (h : IsLetterLc lc) (s : List Byte) : M.Sat (mRaw s) (LetterPost lc) := M.sat_pure h
theorem sat_mPerr (lc : Byte) : M.Sat mPerr (LetterPost lc) := M.sat_pure errOk_perm
theorem sat_letterI {lc : Byte} (h : IsLetterLc lc) (ss : Sess) (num r delim : Nat) :
    M.Sat (letterI ss num r delim) (LetterPost lc) := by
  unfold letterI; split <;> exact sat_mApp h _ _ _ _
theorem sat_letterP {lc : Byte} (h : IsLetterLc lc) (dns : Dns) (ss : Sess) (num r delim : Nat) :
    M.Sat (letterP dns ss num r delim) (LetterPost lc) := by
  unfold letterP
  refine M.sat_bind (sat_validateDomain dns ss) ?_
  intro v _
  split
  · exact sat_mRaw h _
  · exact sat_mApp h _ _ _ _
  · exact M.sat_pure (Or.inl rfl)
  · exact M.sat_pure (Or.inr (Or.inr (Or.inl rfl)))
  · exact M.sat_pure (Or.inr (Or.inr (Or.inr rfl)))

theorem sat_letterText (dns : Dns) (ss : Sess) (hwf : ss.wf = true) (domain : List Byte) (ex : Bool)
    (lc : Byte) (num r delim : Nat) :
    M.Sat (letterText dns ss domain ex lc num r delim) (LetterPost lc) := by
  unfold letterText
  have L : ∀ k : Byte, (lc == k) = true → 97 ≤ k.toNat → k.toNat ≤ 122 → IsLetterLc lc := by
    intro k hk h1 h2
    have : lc = k := by simpa using hk
    subst this; exact ⟨h1, h2⟩
  refine M.sat_ite (fun h => ?_) (fun _ => ?_)
  · have hl := L 115 h (by decide) (by decide)
    exact M.sat_ite (fun _ => sat_mApp hl _ _ _ _) (fun _ => sat_mApp hl _ _ _ _)
  refine M.sat_ite (fun h => ?_) (fun _ => ?_)
  · have hl := L 108 h (by decide) (by decide)
    refine M.sat_ite (fun hne => ?_) (fun _ => sat_mRaw hl _)
    obtain ⟨a, ha⟩ := wf_memchr hwf (by simpa using hne)
    rw [ha]
    exact sat_mApp hl _ _ _ _
  refine M.sat_ite (fun h => ?_) (fun _ => ?_)
  · have hl := L 111 h (by decide) (by decide)
    refine M.sat_ite (fun hne => ?_) (fun _ => sat_mApp hl _ _ _ _)
    obtain ⟨a, ha⟩ := wf_memchr hwf (by simpa using hne)
    rw [ha]
    exact sat_mApp hl _ _ _ _
  refine M.sat_ite (fun h => sat_mApp (L 100 h (by decide) (by decide)) _ _ _ _) (fun _ => ?_)
  refine M.sat_ite (fun h => ?_) (fun _ => ?_)
  · have hl := L 99 h (by decide) (by decide)
    refine M.sat_ite (fun _ => sat_mPerr _) (fun _ => ?_)
    exact M.sat_ite (fun _ => sat_mRaw hl _) (fun _ => sat_letterI hl _ _ _ _)
  refine M.sat_ite (fun h => sat_letterI (L 105 h (by decide) (by decide)) _ _ _ _) (fun _ => ?_)
  refine M.sat_ite (fun h => ?_) (fun _ => ?_)
  · have hl := L 116 h (by decide) (by decide)
    exact M.sat_ite (fun _ => sat_mPerr _) (fun _ => sat_mRaw hl _)
  refine M.sat_ite (fun h => sat_letterP (L 112 h (by decide) (by decide)) _ _ _ _ _) (fun _ => ?_)
  refine M.sat_ite (fun h => ?_) (fun _ => ?_)
  · have hl := L 114 h (by decide) (by decide)
    exact M.sat_ite (fun _ => sat_mPerr _) (fun _ => sat_mApp hl _ _ _ _)
  refine M.sat_ite (fun h => ?_) (fun _ => ?_)
  · have hl := L 118 h (by decide) (by decide)
    exact M.sat_ite (fun _ => sat_mApp hl _ _ _ _) (fun _ => sat_mRaw hl _)
  exact M.sat_ite (fun h => sat_mApp (L 104 h (by decide) (by decide)) _ _ _ _) (fun _ => sat_mPerr _)

theorem lower_letter_paramChar {ch : Byte} (h : IsLetterLc (lower ch)) : paramChar ch := by
  obtain ⟨h1, h2⟩ := h
  unfold lower at h1 h2
  have key : (65 ≤ ch.toNat ∧ ch.toNat ≤ 90) ∨ (97 ≤ ch.toNat ∧ ch.toNat ≤ 122) := by
    split at h1
    · rename_i hu; exact Or.inl hu
    · rename_i hu; split at h2
      · rename_i hu'; exact absurd hu' hu
      · exact Or.inr ⟨h1, h2⟩
  refine ⟨?_, ?_, ?_⟩
  · simp only [wspace, Bool.or_eq_false_iff, beq_eq_false_iff_ne, ne_eq]
    refine ⟨⟨⟨?_, ?_⟩, ?_⟩, ?_⟩ <;> (intro hh; subst hh; revert key; decide)
  · intro hh; subst hh; revert key; decide
  · intro hh; subst hh; revert key; decide

theorem sat_makroletter (dns : Dns) (ss : Sess) (hwf : ss.wf = true) (p domain : List Byte) (ex : Bool) :
    M.Sat (makroletter dns ss p domain ex) (fun t => match t with
      | .ok (n, _) => MacroShape p n
      | .error e => ErrOk e) := by
  unfold makroletter
  simp only []
  split
  · exact M.sat_pure errOk_perm
  · rename_i offs num r0 delim hmp
    split
    · exact M.sat_pure errOk_perm
    · rename_i h125
      have h125' : at0 p (1 + offs) = 125 := by simpa using h125
      refine M.sat_bind (sat_letterText dns ss hwf domain ex _ _ _ _) ?_
      intro t ht
      unfold LetterPost at ht
      split
      · rename_i s
        simp only at ht
        refine M.sat_pure ⟨by omega, h125', ?_⟩
        intro i hi
        cases i with
        | zero => exact lower_letter_paramChar ht
        | succ j =>
          have := makroparam_chars hmp j (by omega)
          rw [at0_drop] at this
          have e : 1 + j = j + 1 := by omega
          rw [e] at this; exact this
      · simp only at ht
        exact M.sat_pure ht

/-! ### the token-length scanner -/

theorem makroToklen_nil (st : TlState) (n : Nat) : makroToklen [] st n = n := by
  rw [makroToklen]

theorem makroToklen_cons (c : Byte) (rest : List Byte) (st : TlState) (n : Nat) :
    makroToklen (c :: rest) st n =
      if wspace c then n
      else match st with
        | .inMacro => makroToklen rest (if c == 125 then .normal else .inMacro) (n + 1)
        | .afterPct => makroToklen rest (if c == 123 then .inMacro else .normal) (n + 1)
        | .normal =>
          if c == 47 then n
          else if c == 37 then makroToklen rest .afterPct (n + 1)
          else makroToklen rest .normal (n + 1) := by
  rfl

theorem toklen_acc (l : List Byte) (st : TlState) (n : Nat) :
    makroToklen l st n = n + makroToklen l st 0 := by
  induction l generalizing st n with
  | nil => simp [makroToklen_nil]
  | cons c rest ih =>
    rw [makroToklen_cons c rest st n, makroToklen_cons c rest st 0]
    split
    · simp
    · cases st with
      | inMacro => simp only []; rw [ih _ (n + 1), ih _ (0 + 1)]; omega
      | afterPct => simp only []; rw [ih _ (n + 1), ih _ (0 + 1)]; omega
      | normal =>
        simp only []
        split
        · simp
        · split
          · rw [ih _ (n + 1), ih _ (0 + 1)]; omega
          · rw [ih _ (n + 1), ih _ (0 + 1)]; omega

theorem toklen_le (l : List Byte) (st : TlState) : makroToklen l st 0 ≤ l.length := by
  induction l generalizing st with
  | nil => simp [makroToklen_nil]
  | cons c rest ih =>
    rw [makroToklen_cons]
    simp only [List.length_cons]
    split
    · omega
    · cases st with
      | inMacro =>
        simp only []
        generalize (if c == 125 then TlState.normal else TlState.inMacro) = st'
        rw [toklen_acc]; have := ih st'; omega
      | afterPct =>
        simp only []
        generalize (if c == 123 then TlState.inMacro else TlState.normal) = st'
        rw [toklen_acc]; have := ih st'; omega
      | normal =>
        simp only []
        split
        · omega
        · split
          · rw [toklen_acc]; have := ih .afterPct; omega
          · rw [toklen_acc]; have := ih .normal; omega

/-- the scanner in state `normal` -/
abbrev tl (l : List Byte) : Nat := makroToklen l .normal 0

/-- `%` + escape character -/
theorem tl_escape (c : Byte) (r : List Byte) (hws : wspace c = false) (hc : c ≠ 123) :
    tl (37 :: c :: r) = 2 + tl r := by
  have h37 : wspace 37 = false := by decide
  have h47 : ((37 : Byte) == 47) = false := by decide
  have hc' : (c == 123) = false := by simpa using hc
  show makroToklen (37 :: c :: r) .normal 0 = _
  rw [makroToklen_cons]
  simp only [h37, Bool.false_eq_true, if_false, h47, beq_self_eq_true, if_true]
  rw [makroToklen_cons]
  simp only [hws, Bool.false_eq_true, if_false, hc']
  rw [toklen_acc]

/-- inside a macro: run of parameter characters up to the closing brace -/
theorem toklen_inMacro_run (body : List Byte) (n : Nat) (k : Nat)
    (hrun : ∀ i, i < n → paramChar (at0 body i)) (hclose : at0 body n = 125) :
    makroToklen body .inMacro k = k + n + 1 + tl (body.drop (n + 1)) := by
  induction n generalizing body k with
  | zero =>
    have hlt : 0 < body.length := at0_ne_zero_lt (by rw [hclose]; decide)
    match body, hlt with
    | c :: rest, _ =>
      rw [at0_cons_zero] at hclose
      subst hclose
      rw [makroToklen_cons]
      have : wspace 125 = false := by decide
      simp only [this, Bool.false_eq_true, if_false, beq_self_eq_true, if_true]
      rw [toklen_acc]; simp <;> omega
  | succ m ih =>
    have h0 := hrun 0 (by omega)
    have hlt : 0 < body.length := at0_ne_zero_lt h0.2.2
    match body, hlt with
    | c :: rest, _ =>
      rw [at0_cons_zero] at h0
      rw [makroToklen_cons]
      simp only [h0.1, Bool.false_eq_true, if_false]
      have : (c == 125) = false := by simpa using h0.2.1
      simp only [this, Bool.false_eq_true, if_false]
      have := ih rest (k + 1) (fun i hi => by have := hrun (i + 1) (by omega); rwa [at0_cons_succ] at this)
        (by rwa [at0_cons_succ] at hclose)
      rw [this]; simp <;> omega

/-- `%{` + macro body -/
theorem tl_macro (body : List Byte) (n : Nat) (h : MacroShape body n) :
    tl (37 :: 123 :: body) = 2 + n + 1 + tl (body.drop (n + 1)) := by
  have h37 : wspace 37 = false := by decide
  have h47 : ((37 : Byte) == 47) = false := by decide
  have h123 : wspace 123 = false := by decide
  show makroToklen (37 :: 123 :: body) .normal 0 = _
  rw [makroToklen_cons]
  simp only [h37, Bool.false_eq_true, if_false, h47, beq_self_eq_true, if_true]
  rw [makroToklen_cons]
  simp only [h123, Bool.false_eq_true, if_false, beq_self_eq_true, if_true]
  rw [toklen_inMacro_run body n (0 + 1 + 1) h.2.2 h.2.1]

theorem tl_cons (c : Byte) (rest : List Byte) (hc : c ≠ 37) :
    tl (c :: rest) = if wspace c then 0 else if c == 47 then 0 else 1 + tl rest := by
  show makroToklen (c :: rest) .normal 0 = _
  rw [makroToklen_cons]
  have : (c == 37) = false := by simpa using hc
  simp only [this, Bool.false_eq_true, if_false]
  split
  · rfl
  · split
    · rfl
    · rw [toklen_acc]

/-- a run without `%` that does not end the token -/
theorem tl_literal (l : List Byte) (k : Nat) (hno : ∀ i, i < k → at0 l i ≠ 37) (hgt : tl l > k) :
    tl l = k + tl (l.drop k) := by
  induction k generalizing l with
  | zero => simp
  | succ m ih =>
    match l with
    | [] => simp [tl, makroToklen_nil] at hgt
    | c :: rest =>
      have hc : c ≠ 37 := by have := hno 0 (by omega); rwa [at0_cons_zero] at this
      rw [tl_cons c rest hc] at hgt ⊢
      split at hgt
      · omega
      · split at hgt
        · omega
        · rename_i h1 h2
          simp only [h1, h2]
          have := ih rest (fun i hi => by have := hno (i + 1) (by omega); rwa [at0_cons_succ] at this) (by omega)
          rw [this]; simp <;> omega

end QsmtpModel.Spf

namespace QsmtpModel.Spf
open QsmtpModel

theorem memchr_spec {c : Byte} {l : List Byte} {k : Nat} (h : memchr c l = some k) :
    k < l.length ∧ at0 l k = c ∧ ∀ i, i < k → at0 l i ≠ c := by
  induction l generalizing k with
  | nil => simp [memchr] at h
  | cons x xs ih =>
    unfold memchr at h
    split at h
    · rename_i hx
      simp only [Option.some.injEq] at h
      subst h
      exact ⟨by simp, by simp [at0_cons_zero, hx], by intro i hi; omega⟩
    · rename_i hx
      cases hm : memchr c xs with
      | none => simp [hm] at h
      | some j =>
        simp only [hm, Option.map_some, Option.some.injEq] at h
        subst h
        obtain ⟨h1, h2, h3⟩ := ih hm
        refine ⟨by simp; omega, by rw [at0_cons_succ]; exact h2, ?_⟩
        intro i hi
        cases i with
        | zero => rw [at0_cons_zero]; exact hx
        | succ i' => rw [at0_cons_succ]; exact h3 i' (by omega)

theorem findFrom_spec {c : Byte} {l : List Byte} {s q : Nat} (h : findFrom c l s = some q) :
    s ≤ q ∧ q < l.length ∧ at0 l q = c ∧ ∀ i, s ≤ i → i < q → at0 l i ≠ c := by
  unfold findFrom at h
  cases hm : memchr c (l.drop s) with
  | none => simp [hm] at h
  | some j =>
    simp only [hm, Option.map_some, Option.some.injEq] at h
    subst h
    obtain ⟨h1, h2, h3⟩ := memchr_spec hm
    rw [at0_drop] at h2
    simp only [List.length_drop] at h1
    refine ⟨by omega, by omega, by rw [Nat.add_comm]; exact h2, ?_⟩
    intro i hi1 hi2
    have := h3 (i - s) (by omega)
    rw [at0_drop] at this
    have e : s + (i - s) = i := by omega
    rwa [e] at this

/-- the read position `p` of spf_makro() is in step with its token length -/
def Sync (tok : List Byte) (ex : Bool) (toklen p : Nat) : Prop :=
  p ≤ toklen ∧ toklen ≤ tok.length ∧ (ex = true → toklen = tok.length) ∧
    (ex = false → toklen = p + tl (tok.drop p))

theorem sync_escape {tok : List Byte} {ex : Bool} {toklen p : Nat} {c : Byte}
    (hs : Sync tok ex toklen p) (hp : at0 tok p = 37) (hc : at0 tok (p + 1) = c)
    (hws : wspace c = false) (hc123 : c ≠ 123) (hc0 : c ≠ 0) : Sync tok ex toklen (p + 2) := by
  obtain ⟨h1, h2, h3, h4⟩ := hs
  have hlt1 : p + 1 < tok.length := at0_ne_zero_lt (by rw [hc]; exact hc0)
  have hd : tok.drop p = 37 :: c :: tok.drop (p + 2) := by
    rw [drop_eq_cons_of_at0 (by omega : p < tok.length), hp, drop_eq_cons_of_at0 hlt1, hc]
  cases ex with
  | true =>
    have := h3 rfl
    exact ⟨by omega, h2, h3, by intro h; cases h⟩
  | false =>
    have e := h4 rfl
    rw [hd, tl_escape c _ hws hc123] at e
    exact ⟨by omega, h2, h3, by intro _; omega⟩

theorem sync_macro {tok : List Byte} {ex : Bool} {toklen p n : Nat}
    (hs : Sync tok ex toklen p) (hp : at0 tok p = 37) (hc : at0 tok (p + 1) = 123)
    (hm : MacroShape (tok.drop (p + 2)) n) : Sync tok ex toklen (p + 2 + n + 1) := by
  obtain ⟨h1, h2, h3, h4⟩ := hs
  have hlt1 : p + 1 < tok.length := at0_ne_zero_lt (by rw [hc]; decide)
  have hcl : at0 tok (p + 2 + n) = 125 := by have := hm.2.1; rwa [at0_drop] at this
  have hlt2 : p + 2 + n < tok.length := at0_ne_zero_lt (by rw [hcl]; decide)
  have hd : tok.drop p = 37 :: 123 :: tok.drop (p + 2) := by
    rw [drop_eq_cons_of_at0 (by omega : p < tok.length), hp, drop_eq_cons_of_at0 hlt1, hc]
  cases ex with
  | true =>
    have := h3 rfl
    exact ⟨by omega, h2, h3, by intro h; cases h⟩
  | false =>
    have e := h4 rfl
    rw [hd, tl_macro _ n hm, List.drop_drop] at e
    have e2 : p + 2 + (n + 1) = p + 2 + n + 1 := by omega
    rw [e2] at e
    exact ⟨by omega, h2, h3, by intro _; omega⟩

theorem sync_literal {tok : List Byte} {ex : Bool} {toklen p1 q : Nat}
    (hs : Sync tok ex toklen p1) (hq1 : p1 ≤ q) (hq2 : q < toklen)
    (hno : ∀ i, p1 ≤ i → i < q → at0 tok i ≠ 37) : Sync tok ex toklen q := by
  obtain ⟨h1, h2, h3, h4⟩ := hs
  refine ⟨by omega, h2, h3, ?_⟩
  intro hex
  have e := h4 hex
  have := tl_literal (tok.drop p1) (q - p1)
    (fun i hi => by rw [at0_drop]; exact hno (p1 + i) (by omega) (by omega)) (by omega)
  rw [List.drop_drop] at this
  have e2 : p1 + (q - p1) = q := by omega
  rw [e2] at this
  omega

/-- postcondition of the macro level: a known error value -/
def MakroPost (r : Except MacroErr (List Byte)) : Prop := ∀ e, r = .error e → ErrOk e

theorem sat_makroLoop (dns : Dns) (ss : Sess) (hwf : ss.wf = true) (tok domain : List Byte) (ex : Bool)
    (toklen : Nat) : ∀ (fuel p : Nat) (res : List Byte), Sync tok ex toklen p → p < toklen → at0 tok p = 37 →
      fuel + p > toklen → M.Sat (makroLoop dns ss tok domain ex toklen fuel p res) MakroPost := by
  intro fuel
  induction fuel with
  | zero => intro p res _ h1 _ h2; omega
  | succ fuel ih =>
    intro p res hs hlt hp hfuel
    unfold makroLoop
    simp only []
    -- the step
    refine M.sat_bind (Q := fun s => match s with
        | .error e => ErrOk e
        | .ok (p1, _) => Sync tok ex toklen p1 ∧ p1 ≥ p + 2) ?_ ?_
    · refine M.sat_ite (fun h => ?_) (fun _ => ?_)
      · have hc : at0 tok (p + 1) = 45 := by simpa using h
        exact M.sat_pure ⟨sync_escape hs hp hc (by decide) (by decide) (by decide), by omega⟩
      refine M.sat_ite (fun h => ?_) (fun _ => ?_)
      · have hc : at0 tok (p + 1) = 95 := by simpa using h
        exact M.sat_pure ⟨sync_escape hs hp hc (by decide) (by decide) (by decide), by omega⟩
      refine M.sat_ite (fun h => ?_) (fun _ => ?_)
      · have hc : at0 tok (p + 1) = 37 := by simpa using h
        exact M.sat_pure ⟨sync_escape hs hp hc (by decide) (by decide) (by decide), by omega⟩
      refine M.sat_ite (fun h => ?_) (fun _ => M.sat_pure errOk_perm)
      have hc : at0 tok (p + 1) = 123 := by simpa using h
      refine M.sat_bind (sat_makroletter dns ss hwf (tok.drop (p + 2)) domain ex) ?_
      intro z hz
      split
      · rename_i e
        exact M.sat_pure hz
      · rename_i n add
        exact M.sat_pure ⟨sync_macro hs hp hc hz, by omega⟩
    · intro s hsp
      split
      · rename_i e
        exact M.sat_pure (by intro e' he'; cases he'; exact hsp)
      · rename_i p1 res1
        obtain ⟨hs1, hge⟩ := hsp
        refine M.sat_ite (fun hne => ?_) (fun heq => ?_)
        · -- literal run
          try simp only []
          cases hf : nextPercent tok p1 with
          | none =>
            try simp only []
            have : ¬ toklen < p1 := by have := hs1.1; omega
            rw [if_neg this]
            refine M.sat_ite (fun hh => ?_) (fun _ => M.sat_pure (by intro e he; cases he))
            simp at hh
          | some q =>
            obtain ⟨hq1, hq2, hq3, hq4⟩ := findFrom_spec hf
            try simp only []
            by_cases hqt : q > toklen
            · simp only [hqt, if_true]
              have : ¬ toklen < p1 := by have := hs1.1; omega
              rw [if_neg this]
              refine M.sat_ite (fun hh => ?_) (fun _ => M.sat_pure (by intro e he; cases he))
              simp at hh
            · simp only [hqt, if_false]
              have : ¬ q < p1 := by omega
              rw [if_neg this]
              refine M.sat_ite (fun hh => ?_) (fun _ => M.sat_pure (by intro e he; cases he))
              have hq5 : q < toklen := by simp at hh; exact hh.1
              exact ih q _ (sync_literal hs1 hq1 hq5 hq4) hq5 hq3 (by omega)
        · have h37 : at0 tok p1 = 37 := by simpa using heq
          refine M.sat_ite (fun hh => ?_) (fun _ => M.sat_pure (by intro e he; cases he))
          exact ih p1 _ hs1 hh h37 (by omega)

theorem sat_makro (dns : Dns) (ss : Sess) (hwf : ss.wf = true) (tok domain : List Byte) (ex : Bool) :
    M.Sat (makro dns ss tok domain ex) MakroPost := by
  unfold makro
  simp only []
  generalize htl : (if ex = true then tok.length else makroToklen tok .normal 0) = toklen
  have hle : toklen ≤ tok.length := by
    rw [← htl]; split
    · exact Nat.le_refl _
    · exact toklen_le _ _
  cases hm : memchr 37 (tok.take toklen) with
  | none => exact M.sat_pure (by intro e he; cases he)
  | some p =>
    simp only []
    obtain ⟨h1, h2, h3⟩ := memchr_spec hm
    have hlen : (tok.take toklen).length = toklen := by simp; omega
    rw [hlen] at h1
    have at_take : ∀ i, i < toklen → at0 (tok.take toklen) i = at0 tok i := by
      intro i hi; simp [at0, List.getD, hi]
    rw [at_take p h1] at h2
    have hno : ∀ i, i < p → at0 tok i ≠ 37 := by
      intro i hi; rw [← at_take i (by omega)]; exact h3 i hi
    refine sat_makroLoop dns ss hwf tok domain ex toklen _ p _ ?_ h1 h2 (by omega)
    refine ⟨by omega, hle, ?_, ?_⟩
    · intro hex; rw [← htl]; simp [hex]
    · intro hex
      have e : toklen = tl tok := by rw [← htl]; simp [hex]
      have := tl_literal tok p hno (by omega)
      omega

end QsmtpModel.Spf
