/-
Helper lemmas for C19, receiver part 2: one `smtp_bdat` command on a working queue.
-/
import QsmtpModel.Lemmas.Bdat
import QsmtpModel.Props.C10

namespace QsmtpModel.Bdat
open QsmtpModel QsmtpModel.Spec.Bdat

/-- the queue side works and nothing is limited -/
structure GoodEnv (e : Env) : Prop where
  buf : 2 ≤ e.bufsz
  qi : e.qi = 0
  tr : e.tr = 0
  wlim : e.wlim = none
  env : e.env = 0
  res : e.res = 0

/-- the hand-offs to qmail-queue recorded in a log: (size, message) -/
def handoffs (log : List Ev) : List (Nat × List Byte) :=
  log.filterMap fun
    | .qenv sz d => some (sz, d)
    | _ => none

theorem handoffs_append (a b : List Ev) : handoffs (a ++ b) = handoffs a ++ handoffs b := by
  unfold handoffs; rw [List.filterMap_append]

theorem handoffs_replies (outs : List (List Byte)) : handoffs (outs.map Ev.reply) = [] := by
  unfold handoffs
  induction outs with
  | nil => rfl
  | cons o t ih => simpa using ih

/-- a BDAT transfer is open, nothing has failed, and exactly `D` has been received so far -/
structure Open (st : Rx) (D : List Byte) : Prop where
  inv : RInv st D
  state : st.comstate = Gen.bdatState
  noerr : st.bdaterr = 0
  size : st.msgsize = D.length
  rcpt : st.goodrcpt ≠ 0

/-- before the command: either a transfer is open on `D`, or none is and `D` is empty -/
def Ready (st : Rx) (D : List Byte) : Prop :=
  Open st D ∨ (st.comstate ≠ Gen.bdatState ∧ st.goodrcpt ≠ 0 ∧ D = [])

theorem init_spec (e : Env) (he : GoodEnv e) (st : Rx) (D : List Byte) (h : Ready st D) :
    Open (bdatInit e st) D ∧ handoffs (bdatInit e st).log = handoffs st.log ∧ (bdatInit e st).rd = st.rd := by
  unfold bdatInit
  rcases h with h | ⟨h1, h2, rfl⟩
  · rw [if_neg (by simp [h.state])]
    exact ⟨h, rfl, rfl⟩
  · rw [if_pos h1]
    simp only [he.qi, he.tr, ne_eq, not_true_eq_false, if_false, Rx.ev]
    refine ⟨⟨⟨?_, ?_, ?_⟩, ?_, ?_, ?_, ?_⟩, ?_, ?_⟩
    all_goals first | rfl | exact h2 | simp [pend, crlfToLf, handoffs_append, handoffs]

theorem okPre_contract : 3 < Gen.bdatReplyOkPre.length ∧ Gen.bdatReplyOkPre.length < 510 := by decide

theorem afterLoop_more (e : Env) (line : List Byte) (st : Rx) (h1 : st.msgsize ≤ e.maxbytes)
    (h2 : st.bdaterr = 0) :
    ∃ outs : List (List Byte), afterLoop e line false st = (.ret 0, { st with log := st.log ++ outs.map Ev.reply }) := by
  have hsz : (st.msgsize > e.maxbytes) = False := by simp; omega
  obtain ⟨outs, hw, _⟩ := Props.C10.writen_valid Gen.bdatReplyOkPre
    [(cstr line).drop Gen.bdatArgOff, Gen.bdatReplyOkPost] okPre_contract.1 okPre_contract.2
  unfold afterLoop
  simp only [Bool.false_eq_true, false_and, if_false, sizeCheck, notLast, hsz, h2, ne_eq, not_true_eq_false, hw]
  exact ⟨outs, rfl⟩

theorem afterLoop_last (e : Env) (he : GoodEnv e) (line : List Byte) (st : Rx) (h1 : st.msgsize ≤ e.maxbytes)
    (h2 : st.bdaterr = 0) (h3 : st.qfd = true) :
    ∃ st', afterLoop e line true st = (.ret 0, st') ∧
      handoffs st'.log = handoffs st.log ++ [(st.msgsize, st.qbuf ++ pend st.lastcr)] ∧ st'.goodrcpt = 0 := by
  unfold afterLoop
  have hpre : (if true = true ∧ st.lastcr = true ∧ st.bdaterr = 0 then qwrite e [CR] { st with lastcr := false }
      else Except.ok st) = .ok { st with lastcr := false, qbuf := st.qbuf ++ pend st.lastcr } := by
    cases hl : st.lastcr with
    | true =>
      rw [if_pos ⟨rfl, rfl, h2⟩, qwrite_ok e he.wlim [CR] { st with lastcr := false } h3]
      simp [pend]
    | false =>
      rw [if_neg (by simp)]
      simp only [pend, Bool.false_eq_true, if_false, List.append_nil]
      congr
      cases st; simp_all
  have hsz : (st.msgsize > e.maxbytes) = False := by simp; omega
  rw [hpre]
  simp only [sizeCheck, handOff, hsz, false_and, if_false, h2, and_self, if_true, he.env, he.res, ne_eq, not_true_eq_false, freedata, Rx.ev]
  refine ⟨_, rfl, ?_, rfl⟩
  simp [handoffs_append, handoffs]

/-- a BDAT command that is not the last one, on a working queue -/
theorem smtpBdat_more (e : Env) (he : GoodEnv e) (line X D : List Byte) (st : Rx)
    (hargs : parseArgs line = .ok X.length false) (hready : Ready st D) (hrcpt : st.goodrcpt ≠ 0)
    (hr : st.rd.rerr = none) (hX : X.length ≤ (st.rd.inn ++ st.rd.rest).length)
    (hpre : (st.rd.inn ++ st.rd.rest).take X.length = X) (hsize : D.length + X.length ≤ e.maxbytes) :
    ∃ st', smtpBdat e line st = (.ret 0, st') ∧ Open st' (D ++ X) ∧ handoffs st'.log = handoffs st.log ∧
      st'.rd.inn ++ st'.rd.rest = (st.rd.inn ++ st.rd.rest).drop X.length ∧ st'.rd.rerr = none := by
  obtain ⟨ho, hlog, hrd⟩ := init_spec e he st D hready
  unfold smtpBdat
  rw [if_neg hrcpt, hargs]
  simp only
  obtain ⟨Q, L, rd', hcl, hrd', hrr', hq, hL1, hL2, _⟩ := chunkLoop_spec e he.wlim he.buf false (X.length + 1) X D
    (bdatInit e st) (by omega) ho.inv (by rw [hrd]; exact hr) (by rw [hrd]; exact hX) (by rw [hrd]; exact hpre)
  rw [hcl]
  simp only
  obtain ⟨outs, hal⟩ := afterLoop_more e line
    { bdatInit e st with rd := rd', msgsize := (bdatInit e st).msgsize + X.length, qbuf := Q, lastcr := L }
    (by show (bdatInit e st).msgsize + X.length ≤ e.maxbytes; rw [ho.size]; exact hsize) ho.noerr
  rw [hal]
  refine ⟨_, rfl, ⟨⟨hq, ⟨hL1, hL2 rfl⟩, ho.inv.qopen⟩, ho.state, ho.noerr, ?_, ho.rcpt⟩, ?_, ?_, hrr'⟩
  · show (bdatInit e st).msgsize + X.length = (D ++ X).length
    rw [ho.size, List.length_append]
  · show handoffs ((bdatInit e st).log ++ outs.map Ev.reply) = handoffs st.log
    rw [handoffs_append, handoffs_replies, List.append_nil, hlog]
  · show rd'.inn ++ rd'.rest = _
    rw [hrd', hrd]

/-- the last BDAT command of a transfer, on a working queue: exactly one hand-off, of `crlfToLf` of
everything received, with the number of octets received as its size -/
theorem smtpBdat_last (e : Env) (he : GoodEnv e) (line X D : List Byte) (st : Rx)
    (hargs : parseArgs line = .ok X.length true) (hready : Ready st D) (hrcpt : st.goodrcpt ≠ 0)
    (hr : st.rd.rerr = none) (hX : X.length ≤ (st.rd.inn ++ st.rd.rest).length)
    (hpre : (st.rd.inn ++ st.rd.rest).take X.length = X) (hsize : D.length + X.length ≤ e.maxbytes) :
    ∃ st', smtpBdat e line st = (.ret 0, st') ∧
      handoffs st'.log = handoffs st.log ++ [((D ++ X).length, crlfToLf (D ++ X))] ∧ st'.goodrcpt = 0 := by
  obtain ⟨ho, hlog, hrd⟩ := init_spec e he st D hready
  unfold smtpBdat
  rw [if_neg hrcpt, hargs]
  simp only
  obtain ⟨Q, L, rd', hcl, _, _, hq, _, _, _⟩ := chunkLoop_spec e he.wlim he.buf true (X.length + 1) X D
    (bdatInit e st) (by omega) ho.inv (by rw [hrd]; exact hr) (by rw [hrd]; exact hX) (by rw [hrd]; exact hpre)
  rw [hcl]
  simp only
  obtain ⟨st', hal, hh, hg⟩ := afterLoop_last e he line
    { bdatInit e st with rd := rd', msgsize := (bdatInit e st).msgsize + X.length, qbuf := Q, lastcr := L }
    (by show (bdatInit e st).msgsize + X.length ≤ e.maxbytes; rw [ho.size]; exact hsize) ho.noerr ho.inv.qopen
  rw [hal]
  refine ⟨st', rfl, ?_, hg⟩
  rw [hh]
  show handoffs (bdatInit e st).log ++ [((bdatInit e st).msgsize + X.length, Q ++ pend L)] = _
  rw [hlog, hq, ho.size, List.length_append]

/-! ## a transfer as a sequence of commands -/

/-- one BDAT command as the dispatcher sees it: the command line, the state of the reader (look-ahead
buffer, network, segmentation) at that moment, and the chunk the client sends with it -/
structure Cmd where
  line : List Byte
  rd : Rd
  data : List Byte
  last : Bool

/-- the line announces exactly the chunk, and the chunk is what the reader will deliver next
(partly from the look-ahead buffer, partly from the network, cut in any way) -/
def Cmd.ok (c : Cmd) : Prop :=
  parseArgs c.line = .ok c.data.length c.last ∧ c.rd.rerr = none ∧
    c.data.length ≤ (c.rd.inn ++ c.rd.rest).length ∧ (c.rd.inn ++ c.rd.rest).take c.data.length = c.data

def runCmds (e : Env) (st : Rx) : List Cmd → Rx
  | [] => st
  | c :: cs => runCmds e (smtpBdat e c.line { st with rd := c.rd }).2 cs

def dataOf (cs : List Cmd) : List Byte := (cs.map (·.data)).flatten

theorem ready_rd (st : Rx) (D : List Byte) (r : Rd) (h : Ready st D) : Ready { st with rd := r } D := by
  rcases h with h | h
  · exact Or.inl ⟨⟨h.inv.data, h.inv.flag, h.inv.qopen⟩, h.state, h.noerr, h.size, h.rcpt⟩
  · exact Or.inr h

theorem run_more (e : Env) (he : GoodEnv e) (cmds : List Cmd) (D : List Byte) (st : Rx)
    (hready : Ready st D) (hrcpt : st.goodrcpt ≠ 0) (hok : ∀ c ∈ cmds, c.ok ∧ c.last = false)
    (hsize : D.length + (dataOf cmds).length ≤ e.maxbytes) :
    Ready (runCmds e st cmds) (D ++ dataOf cmds) ∧ (runCmds e st cmds).goodrcpt ≠ 0 ∧
      handoffs (runCmds e st cmds).log = handoffs st.log := by
  induction cmds generalizing D st with
  | nil => simpa [runCmds, dataOf] using ⟨hready, hrcpt⟩
  | cons c cs ih =>
    obtain ⟨⟨h1, h2, h3, h4⟩, hl⟩ := hok c (by simp)
    rw [hl] at h1
    have hd : dataOf (c :: cs) = c.data ++ dataOf cs := by simp [dataOf]
    rw [hd, List.length_append] at hsize
    obtain ⟨st', hs, ho, hh, _, _⟩ := smtpBdat_more e he c.line c.data D { st with rd := c.rd } h1
      (ready_rd st D c.rd hready) hrcpt h2 h3 h4 (by omega)
    rw [runCmds, hs, hd, ← List.append_assoc]
    obtain ⟨i1, i2, i3⟩ := ih (D ++ c.data) st' (Or.inl ho) ho.rcpt (fun x hx => hok x (List.mem_cons_of_mem _ hx))
      (by rw [List.length_append]; omega)
    exact ⟨i1, i2, by rw [i3, hh]⟩


/-! ## failures -/

theorem errWrite_rcpt (rc : Nat) (st : Rx) : (errWrite rc st).2.goodrcpt = 0 := by
  unfold errWrite
  simp only [freedata, queueReset, Rx.ev]
  split
  · rfl
  · split <;> rfl

theorem handOff_rcpt (e : Env) (st : Rx) : (handOff e st).2.goodrcpt = 0 := by
  unfold handOff
  simp only
  split
  · exact errWrite_rcpt _ _
  · split <;> rfl

theorem afterLoop_fail (e : Env) (line : List Byte) (isLast : Bool) (st : Rx) (r : Int) (st' : Rx)
    (h : afterLoop e line isLast st = (.ret r, st')) (hr : r ≠ 0) : st'.goodrcpt = 0 := by
  unfold afterLoop at h
  split at h
  · have := errWrite_rcpt ‹Nat› { st with lastcr := false }
    rw [h] at this; exact this
  · rename_i st1 _
    simp only at h
    split at h
    · have := handOff_rcpt e (sizeCheck e st1)
      rw [h] at this; exact this
    · unfold notLast at h
      split at h
      · simp only [Prod.mk.injEq] at h
        rw [← h.2]; rfl
      · split at h
        · simp at h
        · simp only [Prod.mk.injEq, Res.ret.injEq] at h
          exact absurd h.1.symm hr


/-! ## between transactions: RSET, MAIL FROM:, RCPT TO: -/

theorem rsetBdatState_eq : Gen.rsetBdatState = Gen.bdatState := rfl
theorem rsetHeloState_eq : Gen.rsetHeloState = 8 := rfl
theorem rsetState_eq : Gen.rsetState = 1 := rfl
theorem mailRow_consts : (Gen.rsetHeloState <<< 1) &&& Gen.mailMask ≠ 0 ∧ Gen.mailState &&& Gen.rcptMask ≠ 0 ∧
    Gen.rcptState ≠ Gen.bdatState ∧ Gen.rcptState &&& Gen.bdatMask ≠ 0 := by decide

theorem handoffs_snoc_other (log : List Ev) (ev : Ev) (h : ∀ sz d, ev ≠ .qenv sz d) :
    handoffs (log ++ [ev]) = handoffs log := by
  rw [handoffs_append]
  cases ev <;> simp [handoffs] at h ⊢

theorem queueReset_comstate (s : Rx) : (queueReset s).comstate = s.comstate := rfl
theorem queueReset_handoffs (s : Rx) : handoffs (queueReset s).log = handoffs s.log := by
  simp [queueReset, Rx.ev, handoffs_append, handoffs]
theorem freedata_handoffs (s : Rx) : handoffs (freedata s).log = handoffs s.log := by
  simp [freedata, Rx.ev, handoffs_append, handoffs]

/-- RSET in any state: whatever transfer was open is over, nothing is handed off -/
theorem smtpRset_spec (st : Rx) :
    (smtpRset st).comstate ≠ Gen.bdatState ∧ handoffs (smtpRset st).log = handoffs st.log ∧
      (Gen.rsetHeloState ≤ st.comstate → (smtpRset st).comstate = Gen.rsetHeloState <<< 1 ∧ (smtpRset st).goodrcpt = 0) := by
  have hrep : ∀ s : Rx, handoffs (s.log ++ [Ev.reply Gen.rsetReply] ++ [Ev.rset]) = handoffs s.log := fun s => by
    simp [handoffs_append, handoffs]
  have hle : Gen.rsetHeloState ≤ Gen.rsetBdatState := by decide
  by_cases h1 : st.comstate = Gen.rsetBdatState
  · unfold smtpRset
    simp only [h1, hle, if_true, queueReset_comstate, ge_iff_le, Rx.ev]
    refine ⟨by decide, ?_, fun _ => ⟨trivial, rfl⟩⟩
    rw [hrep, freedata_handoffs, queueReset_handoffs]
  · by_cases h2 : Gen.rsetHeloState ≤ st.comstate
    · unfold smtpRset
      simp only [h1, h2, if_true, if_false, ge_iff_le, Rx.ev]
      refine ⟨by decide, ?_, fun _ => ⟨trivial, rfl⟩⟩
      rw [hrep, freedata_handoffs]
    · unfold smtpRset
      simp only [h1, h2, if_false, ge_iff_le, Rx.ev]
      refine ⟨by decide, ?_, fun h => absurd h (by simp)⟩
      rw [hrep]

/-- MAIL FROM: and RCPT TO: from the state behind EHLO / RSET / a completed transfer: a transaction
with one recipient is open, no BDAT transfer is, nothing was handed off -/
theorem mail_rcpt_spec (s : Rx) (hc : s.comstate = Gen.rsetHeloState <<< 1) :
    (rcptRow (mailRow s)).comstate ≠ Gen.bdatState ∧ (rcptRow (mailRow s)).goodrcpt ≠ 0 ∧
      handoffs (rcptRow (mailRow s)).log = handoffs s.log := by
  have hm : mailRow s = { s.ev .mail with comstate := Gen.mailState } := by
    unfold mailRow; rw [hc, if_neg mailRow_consts.1]
  rw [hm]
  unfold rcptRow
  simp only [Rx.ev]
  rw [if_neg mailRow_consts.2.1]
  refine ⟨mailRow_consts.2.2.1, by simp, ?_⟩
  simp [handoffs_append, handoffs]

end QsmtpModel.Bdat
