/-
C01 — no open relay: non-local recipients need relay authorisation.
Property theorems only (lemmas: Lemmas/Relay.lean, Lemmas/Session.lean; file semantics: Props/C16).
-/
import QsmtpModel.Lemmas.Relay
import QsmtpModel.Relay
import QsmtpModel.Props.C16
import QsmtpModel.Props.C08
import QsmtpModel.Lemmas.TlsClient

namespace QsmtpModel.Props.C01
open QsmtpModel QsmtpModel.Session QsmtpModel.Relay

/-- **Main theorem.** On every connection (any inputs, any verdicts), whenever a RCPT TO whose
address is not local is answered 250, the client is entitled to relay at that moment: its IP is
listed in relayclients[6], or the connection carries an authenticated name, or it is inside TLS with
a client certificate that verified and is listed. -/
theorem relay_only_if_entitled (env : Env) (pre : List Input) (l : List Byte) (v : Verdicts)
    (i : Nat) (row : Gen.Row) (hrow : findRow l Gen.commands 0 = some (i, row)) (hf : row.func = .rcpt)
    (a : List Byte) (mx : MxV) (m : Bool) (f : FilterV) (hv : v.rcpt = .remote a mx m f)
    (h250 : (step env (finalState env {} pre) (.line l v)).1.replies = [250]) :
    Entitled env (finalState env {} pre) :=
  remote_accept_entitled env _ l v i row (run_relayInv env pre {} (relayInv_init env)) hrow hf a mx m f hv h250

/-- ... and an authenticated name on a connection always stems from an AUTH command earlier on the
same connection whose credentials the backend accepted (the name is the one it accepted). -/
theorem auth_name_only_from_accepted_auth (env : Env) (pre : List Input)
    (h : (finalState env {} pre).authname ≠ []) :
    ∃ i ∈ pre, AuthAccepted i (finalState env {} pre).authname := by
  have := run_authInv env pre {} [] (by simp) h
  simpa using this

/-- **Fail closed (session level).** If the relayclients lookup fails, the decision is cached as
"denied", this RCPT is answered 421 (not 2xx) and nothing is put on the recipient list. -/
theorem relay_fail_closed (env : Env) (s : Sess) (a : List Byte) (mx : MxV) (m : Bool) (f : FilterV)
    (herr : env.relayIp = .error) (hnew : s.relayclient = 0) (hna : isAuthClient s = false)
    (hcnt : s.rcptcount < Gen.maxRcpt) :
    (smtpRcpt env (.remote a mx m f) s).replies = [421] ∧ (smtpRcpt env (.remote a mx m f) s).rc = .edone
      ∧ (smtpRcpt env (.remote a mx m f) s).s.relayclient = 2
      ∧ (smtpRcpt env (.remote a mx m f) s).s.rcpts = s.rcpts := by
  have hc : ¬ s.rcptcount ≥ Gen.maxRcpt := by omega
  simp [smtpRcpt, rcptEarly, isAuthenticated, hna, hnew, herr, hc]

/-- ... and with a failing lookup no later step of the connection ever treats the client as
allowed by IP: the cached flag can only be 1 through a verified, listed client certificate. -/
theorem relay_error_never_widens (env : Env) (ins : List Input) (herr : env.relayIp = .error)
    (h1 : (finalState env {} ins).relayclient = 1) :
    env.tlsVerify = .verified ∧ (finalState env {} ins).ssl = true := by
  have hJ := run_relayInv env ins {} (relayInv_init env)
  rcases hJ.1 h1 with h | h
  · rw [herr] at h; cases h
  · exact h

/-- **Fail closed (file level).** Only a readable list whose records up to the first matching one
are well formed, and which contains the client's address, makes the client "listed"; an unreadable
file, a held lock, a size that is not a multiple of the record size or a bad prefix length before a
match never do. -/
theorem listed_only_by_valid_match (v4 : Bool) (ip : List Byte) (fs : Control.FileState) (hip : ip.length = 16)
    (h : relayVerdict v4 ip fs = .listed) :
    ∃ c, fs = .content c ∧ c ≠ [] ∧ Spec.ipblMeaning v4 ip c = .matched := by
  unfold relayVerdict at h
  cases fs with
  | absent => simp at h
  | unreadable => simp at h
  | locked => simp [Match.lookupipblFile] at h
  | content c =>
    refine ⟨c, rfl, ?_, ?_⟩
    · intro hc; subst hc
      simp [Match.lookupipblFile, Match.lookupipbl, Except.map] at h
    · simp only [Match.lookupipblFile] at h
      rw [Props.C16.lookupipbl_spec v4 ip c hip] at h
      cases hm : Spec.ipblMeaning v4 ip c <;> simp [hm, Lemmas.verdictOf, Except.map] at h ⊢

/-- a domain is treated as local exactly when rcpthosts lists it (C16's reading of the list) -/
theorem local_iff_listed (rcpthosts d : List Byte) (hne : d ≠ []) (hdot : d.head? ≠ some DOT) (hnul : (0 : Byte) ∉ d) :
    domainIsLocal rcpthosts d = Spec.domainListed rcpthosts d := by
  unfold domainIsLocal
  rw [Props.C16.finddomain_spec rcpthosts d hne hdot hnul]

/-- a recipient that was refused never appears in an envelope (from C08): the hand-off of the model
is exactly the recipients answered 250 since the last MAIL FROM. -/
theorem refused_not_in_envelope (env : Env) (ins : List Input) (hw : ∀ i ∈ ins, i.Wf) :
    Spec.txAllowed (eventsTrace env {} ins) = true :=
  Props.C08.handoff_reflects_transaction env ins hw

/-- Non-vacuity: an unlisted, unauthenticated client is refused (551), a listed one accepted. -/
example : (smtpRcpt {} (.remote [120] .found false .accept) { comstate := 0x20, mailfrom := [97] }).replies = [551] := by
  decide
example : (smtpRcpt { relayIp := .listed } (.remote [120] .found false .accept)
    { comstate := 0x20, mailfrom := [97] }).replies = [250] := by decide

/-! ### The certificate branch: `tls_verify()` / `tls_check_cert()` (model `TlsClient`)

In the session theorems above the answer of `tls_verify()` is a verdict (`env.tlsVerify`); these
theorems say when the function itself can give the verdict "entitled". -/

/-- **Relaying by certificate only for a listed name.**  `tls_verify()` answers "entitled" (a positive
value) only if there is a TLS session, the client is not authenticated yet, control/clientca.pem could
be loaded, the (re)handshake gave a certificate whose chain verified, and the certificate's name — the
subject's emailAddress if it has one, else its commonName — is, byte for byte and without any NUL
inside, one of the entries that the control file loader keeps of control/tlsclients.  That name is
what is recorded as `xmitstat.tlsclient`.  For every file content, certificate and handshake outcome. -/
theorem cert_relay_only_if_listed (hasSsl done authed : Bool) (fs : Control.FileState) (ca : Bool)
    (peer : TlsClient.Peer) (r : Int) (tc : Option (List Byte)) (w d' : Bool)
    (h : TlsClient.tlsVerify hasSsl done authed fs ca peer = (.ret r tc w, d')) (hr : 0 < r) :
    hasSsl = true ∧ done = false ∧ authed = false ∧ ca = true ∧
    ∃ c clients, peer = .cert c ∧ c.verifyOk = true ∧
      Control.loadlistFile (some TlsClient.rejectEntry) fs = .ok (.ok clients) ∧
      TlsClient.nameField c ∈ clients ∧ (0 : Byte) ∉ TlsClient.nameField c ∧ tc = some (TlsClient.nameField c) := by
  unfold TlsClient.tlsVerify at h
  split at h
  · simp only [Prod.mk.injEq, TlsClient.Out.ret.injEq] at h; omega
  · rename_i hg
    simp only [Bool.or_eq_true, Bool.not_eq_true', not_or, Bool.not_eq_false, Bool.not_eq_true] at hg
    split at h
    · simp at h
    · simp only [Prod.mk.injEq, TlsClient.Out.ret.injEq] at h; omega
    · simp only [Prod.mk.injEq, TlsClient.Out.ret.injEq] at h; omega
    · rename_i clients hl
      split at h
      · simp only [Prod.mk.injEq, TlsClient.Out.ret.injEq] at h; omega
      · rename_i hca
        simp only [Prod.mk.injEq] at h
        obtain ⟨c, hp, hv, _, hm, hn, htc, _⟩ := TlsClient.checkCert_pos clients peer r tc w h.1 hr
        exact ⟨hg.1.1, hg.1.2, hg.2, by simpa using hca, c, clients, hp, hv, hl, hm, hn, htc⟩

/-- a name that is only a prefix of an entry, or that continues behind an entry after a NUL, does not
entitle; the exact name does (evaluations: control/tlsclients = "a@b.de\n") -/
example : (TlsClient.tlsVerify true false false (.content [97, 64, 98, 46, 100, 101, 10]) true
    (.cert { verifyOk := true, email := none, cn := some [97, 64, 98, 46, 100] })).1 = .ret 0 none false := by decide
example : (TlsClient.tlsVerify true false false (.content [97, 64, 98, 46, 100, 101, 10]) true
    (.cert { verifyOk := true, email := some [97, 64, 98, 46, 100, 101, 0, 64, 120], cn := none })).1 = .ret 0 none false := by decide
example : (TlsClient.tlsVerify true false false (.content [97, 64, 98, 46, 100, 101, 10]) true
    (.cert { verifyOk := false, email := some [97, 64, 98, 46, 100, 101], cn := none })).1 = .ret 0 none false := by decide
example : (TlsClient.tlsVerify true false false (.content [97, 64, 98, 46, 100, 101, 10]) true
    (.cert { verifyOk := true, email := some [97, 64, 98, 46, 100, 101], cn := some [120] })).1
      = .ret 1 (some [97, 64, 98, 46, 100, 101]) false := by decide

end QsmtpModel.Props.C01
