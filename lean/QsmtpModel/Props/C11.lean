/-
C11 — SPF evaluation follows RFC 7208, is bounded, and cannot inject header text.
Property theorems only; the helper lemmas are in Lemmas/Spf*.lean.

The model (`QsmtpModel.Spf.*`) mirrors qsmtpd/spf.c + lib/qdns.c with the proposed fixes
C11-makro-* and C11-dns-term-limit; the DNS is an arbitrary oracle `dns : Dns` (every theorem is
for all zones, all include/redirect graphs, all injected errors), the session an arbitrary `Sess`
meeting the caller contract `Sess.wf`.
-/
import QsmtpModel.Lemmas.SpfRfc
import QsmtpModel.Spf.Txt

namespace QsmtpModel.Props.C11
open QsmtpModel QsmtpModel.Spf

/-- The numbers and tables of the source the theorems below are about (re-checked whenever the
extracted `Gen.Spf` changes): the DNS term limit and every place that tests it, the MX limit, the
result codes, the order in which the mechanisms are tried. -/
theorem spf_gen_constants :
    Gen.spfMaxDnsTerms = 10 ∧ Gen.spfLoopLimit = 10 ∧ Gen.spfMxLimit = 10 ∧ Gen.spfMxCountStart = 0 ∧
    Gen.spfValidateDomainMax = 10 ∧ Gen.spfTxtlookupMax = 253 ∧
    [Gen.spfNone, Gen.spfPass, Gen.spfNeutral, Gen.spfSoftfail, Gen.spfFail, Gen.spfPermerror,
      Gen.spfTemperror, Gen.spfDnsHardError, Gen.spfIgnore] = [0, 1, 2, 3, 4, 5, 7, 8, 15] ∧
    -- mx ptr exists all a ip4 ip6 include
    Gen.spfMechTable.map (·.1) = [[109, 120], [112, 116, 114], [101, 120, 105, 115, 116, 115], [97, 108, 108], [97],
      [105, 112, 52], [105, 112, 54], [105, 110, 99, 108, 117, 100, 101]] ∧
    -- . - + , / _ =
    Gen.spfDelimiters = [46, 45, 43, 44, 47, 95, 61] := by
  refine ⟨rfl, rfl, rfl, rfl, rfl, rfl, rfl, ?_, ?_⟩ <;> decide

/-- **Termination and the DNS term limit.**  For every DNS content (any include/redirect graph,
cycles, chains of any length, any injected error), every well-formed session and every domain,
check_host() returns — the recursion never needs more than `limit + 2` levels, no copy length is
negative, no caller contract is violated on the way — and the number of DNS-querying terms
(`a`, `mx`, `ptr`, `exists`, `include`, `redirect`) that were *evaluated* is at most the limit of
RFC 7208 §4.6.4; precisely it is the number of such terms met, capped at the limit: once the
counter passes the limit nothing more is evaluated. -/
theorem spf_terminates_bounded (dns : Dns) (ss : Sess) (domain : List Byte) (hwf : ss.wf = true) :
    ∃ r st log, checkHost dns ss domain = .ok ((r, st), log) ∧
      st.evaluated ≤ Gen.spfMaxDnsTerms ∧ st.evaluated = min st.queries Gen.spfMaxDnsTerms := by
  obtain ⟨⟨r, st⟩, log, h, _, hinv⟩ := sat_checkHost dns ss hwf domain
  have h1 : st.evaluated = min st.queries Gen.spfMaxDnsTerms := hinv.1
  exact ⟨r, st, log, h, by omega, h1⟩

/-- the same with the number -/
theorem spf_at_most_ten_dns_terms (dns : Dns) (ss : Sess) (domain : List Byte) (hwf : ss.wf = true)
    (r : Int) (st : St) (log : List Query) (h : checkHost dns ss domain = .ok ((r, st), log)) :
    st.evaluated ≤ 10 := by
  obtain ⟨r', st', log', h', hle, _⟩ := spf_terminates_bounded dns ss domain hwf
  rw [h] at h'
  cases h'
  exact hle

/-- The recursion of spflookup() is bounded for *every* starting point, not only for the top
level call: `limit + 2 − queries` levels are enough. -/
theorem spflookup_fuel_enough (dns : Dns) (ss : Sess) (hwf : ss.wf = true) (fuel : Nat) (domain : List Byte) (st : St)
    (hfuel : fuel + st.queries ≥ Gen.spfMaxDnsTerms + 2) (hq : st.queries ≤ Gen.spfMaxDnsTerms)
    (hinv : StInv st) : ∃ r st' log, spflookup dns ss fuel domain st = .ok ((r, st'), log) ∧ st.queries ≤ st'.queries := by
  obtain ⟨⟨r, st'⟩, log, h, _, _, hmono⟩ := sat_spflookup dns ss hwf fuel domain st hfuel hq hinv
  exact ⟨r, st', log, h, hmono⟩

/-- **The result is one of the defined values**: the seven RFC 7208 results in the code's numbering,
the code's extra SPF_DNS_HARD_ERROR, or −1 (local error, e.g. ENOMEM reported by the resolver). -/
theorem spf_result_in_range (dns : Dns) (ss : Sess) (domain : List Byte) (hwf : ss.wf = true)
    (r : Int) (st : St) (log : List Query) (h : checkHost dns ss domain = .ok ((r, st), log)) :
    r ∈ ([0, 1, 2, 3, 4, 5, 7, 8, -1] : List Int) := by
  obtain ⟨⟨r', st'⟩, log', h', hr, _⟩ := sat_checkHost dns ss hwf domain
  rw [h] at h'
  cases h'
  unfold InRange at hr
  simp only [List.mem_cons, List.not_mem_nil, or_false]
  rcases hr with e | e | e | e | e | e | e | e | e <;> (subst e; decide)

/-- **record_bad_token** writes only TAB and printable ASCII other than `(`, `)` and `\` into
xmitstat.spfexp, whatever bytes the TXT record has. -/
theorem spf_no_injection_bad_token (rec : List Byte) (pos : Nat) :
    ∀ b ∈ recordBadToken rec pos, b = 9 ∨ (32 ≤ b.toNat ∧ b.toNat ≤ 126 ∧ b ≠ 40 ∧ b ≠ 41 ∧ b ≠ 92) :=
  recordBadToken_ok rec pos

/-- **The explanation text** (xmitstat.spfexp after check_host(), which goes into the 550 reply and
into Received-SPF) contains only TAB and bytes 32..127 — no CR, no LF, no NUL, nothing ≥ 128 —
for *every* DNS content, even one that does not sanitise TXT records. -/
theorem spf_no_injection_exp (dns : Dns) (ss : Sess) (domain : List Byte) (hwf : ss.wf = true)
    (r : Int) (st : St) (log : List Query) (h : checkHost dns ss domain = .ok ((r, st), log)) (e : List Byte)
    (he : st.spfexp = some e) : ∀ b ∈ e, b = 9 ∨ (32 ≤ b.toNat ∧ b.toNat ≤ 127) := by
  obtain ⟨⟨r', st'⟩, log', h', _, hinv⟩ := sat_checkHost dns ss hwf domain
  rw [h] at h'
  cases h'
  exact hinv.2 e he

/-- the sanitiser alone: what survives it is within 32..127 -/
theorem spf_exp_sanitizer (s x : List Byte) (h : expSanitize s = some x) : ∀ b ∈ x, 32 ≤ b.toNat ∧ b.toNat ≤ 127 :=
  expSanitize_ok s x h

/-- **Received-SPF**: with session strings free of CR and LF (HELO name, envelope sender, reverse
name, the server's own name) and an explanation / mechanism as check_host() leaves them, the header
has no CR, and every LF in it is followed by a TAB (the template's folding) or is its last byte. -/
theorem spf_no_injection_received (dns : Dns) (ss : Sess) (domain : List Byte) (hwf : ss.wf = true)
    (r : Int) (st : St) (log : List Query) (h : checkHost dns ss domain = .ok ((r, st), log))
    (hh : Clean ss.heloname) (hm : Clean ss.mailfrom) (hs : Clean ss.helostr) (hr : Clean ss.remotehost)
    (hmech : ∀ m, st.mech = some m → Clean m)
    (spf : Nat) (out : List Byte) (hout : spfreceived ss spf st.spfexp st.mech = .ok out) :
    breaksOk out = true := by
  refine spfreceived_breaksOk ss spf st.spfexp st.mech out hh hm hs hr ?_ hmech hout
  intro x hx b hb
  have := spf_no_injection_exp dns ss domain hwf r st log h x hx b hb
  constructor
  · intro e; subst e; revert this; decide
  · intro e; subst e; revert this; decide

/-- `breaksOk` says what it should: no CR, and an LF only before a TAB or at the very end -/
theorem breaksOk_spec (l : List Byte) (h : breaksOk l = true) :
    (13 : Byte) ∉ l ∧ ∀ i, l[i]? = some 10 → (i + 1 = l.length ∨ l[i + 1]? = some 9) := by
  induction l with
  | nil => simp
  | cons c rest ih =>
    simp only [breaksOk] at h
    by_cases h13 : (c == 13) = true
    · simp [h13] at h
    · simp only [h13, Bool.false_eq_true, if_false] at h
      have hc13 : c ≠ 13 := by simpa using h13
      by_cases h10 : (c == 10) = true
      · simp only [h10, if_true, Bool.and_eq_true] at h
        obtain ⟨ih1, ih2⟩ := ih h.2
        refine ⟨by simp [Ne.symm hc13, ih1], ?_⟩
        intro i hi
        cases i with
        | zero =>
          cases rest with
          | nil => left; rfl
          | cons d r => right; simpa using h.1
        | succ j =>
          have := ih2 j (by simpa using hi)
          simpa using this
      · simp only [h10, Bool.false_eq_true, if_false] at h
        obtain ⟨ih1, ih2⟩ := ih h
        refine ⟨by simp [Ne.symm hc13, ih1], ?_⟩
        intro i hi
        cases i with
        | zero =>
          have : c = 10 := by simpa using hi
          simp [this] at h10
        | succ j =>
          have := ih2 j (by simpa using hi)
          simpa using this

/-- The macro expander returns for every token (the token length it computes is in step with its
parser — the defect C11-makro-slash made the copy length negative here), with a value or one of
the four error codes. -/
theorem spf_makro_total (dns : Dns) (ss : Sess) (hwf : ss.wf = true) (tok domain : List Byte) (ex : Bool) :
    ∃ v log, makro dns ss tok domain ex = .ok (v, log) ∧
      ∀ e, v = .error e → e.toInt ∈ ([-1, 5, 7, 8] : List Int) := by
  obtain ⟨v, log, h, hp⟩ := sat_makro dns ss hwf tok domain ex
  refine ⟨v, log, h, ?_⟩
  intro e he
  rcases errOk_toInt (hp e he) with x | x | x | x <;> simp [x]

/-! ### Agreement with RFC 7208 (`Spec.Spf.checkHost Dev.rfc`, written from §4–§7 and the ABNF) -/

/-- **The refinement at full strength**: for every DNS content, session and domain the value
check_host() returns stands for the result of the RFC 7208 algorithm (`agrees` maps the code's
SPF_DNS_HARD_ERROR / −1 to temperror and accepts SPF_FAIL where the RFC says permerror for an
exceeded limit or a redirect to nothing). -/
def spf_refines_rfc_full : Prop :=
  ∀ (dns : Dns) (ss : Sess) (domain : List Byte), ss.wf = true →
    ∀ r st log, checkHost dns ss domain = .ok ((r, st), log) →
      Spec.Spf.agrees r (Spec.Spf.checkHost Spec.Spf.Dev.rfc dns ss domain) = true

/-- a zone: `d.ab` publishes `v=spf1 +all !` (a syntax error *behind* the matching term) -/
def ceDns : Dns where
  txt n := if n = [100,46,97,98] then .ok [[118,61,115,112,102,49,32,43,97,108,108,32,33]] else .ok []
  a _ := .ok []
  aaaa _ := .ok []
  mx _ := .ok []
  ptr _ := .ok []
def ceSess : Sess := ⟨[0,0,0,0,0,0,0,0,0,0,255,255,192,0,2,1], true, [117,64,100,46,97,98], [104,46,97,98], [], [109,120], 0⟩

/-- **It does not hold**: the code evaluates terms as it meets them, so a syntax error behind the
deciding term goes unnoticed — `v=spf1 +all !` is *pass* for the code and *permerror* for RFC 7208
§4.6 (known finding c11-rfc-lazy-syntax; the other documented deviations are listed in
`Spec.Spf.devList`, one witness each in corpus/C11/100-rfc-deviations.txt). -/
theorem spf_refines_rfc_counterexample : ¬ spf_refines_rfc_full := by
  intro h
  have e1 : (match checkHost ceDns ceSess [100,46,97,98] with
      | .ok ((r, _), _) => r == 1
      | .error _ => false) = true := by decide
  have e2 : Spec.Spf.checkHost Spec.Spf.Dev.rfc ceDns ceSess [100,46,97,98] = .permerror := by decide
  cases hc : checkHost ceDns ceSess [100,46,97,98] with
  | error e => rw [hc] at e1; simp at e1
  | ok x =>
    obtain ⟨⟨r, st⟩, log⟩ := x
    rw [hc] at e1
    have hr : r = 1 := by simpa using e1
    have := h ceDns ceSess [100,46,97,98] (by decide) r st log hc
    rw [e2, hr] at this
    revert this; decide

/-- "v=spf1" in lower case is its own lower case -/
theorem lowerAll_vspf1 : Spec.Spf.lowerAll strVspf1 = strVspf1 := by decide

/-- **Proved part 1 — none without a record**: when no TXT record of a (valid) domain starts with
`v=spf1` (in any case), check_host() returns SPF_NONE after exactly one query, and so does the RFC. -/
theorem spf_refines_rfc_partial_none (dns : Dns) (ss : Sess) (domain : List Byte) (hwf : ss.wf = true)
    (hdv : domainvalid domain = true) (hv : Spec.Spf.isValidDomain domain = true)
    (recs : List (List Byte)) (ht : dns.txt domain = .ok recs)
    (hno : ∀ r ∈ txtView dns recs, Spec.Spf.lowerAll (r.take 6) ≠ strVspf1) :
    checkHost dns ss domain = .ok ((SPF_NONE, st0), [Query.txt domain]) ∧
      Spec.Spf.checkHost Spec.Spf.Dev.rfc dns ss domain = .none := by
  constructor
  · rw [checkHost_top dns ss domain hwf hdv, ht]
    simp only []
    rw [selectRecord_no_spf _ none (fun r hr h => hno r hr (by rw [h]; exact lowerAll_vspf1))]
  · rw [Spec.Spf.checkHost_rfc_top dns ss domain hv, ht]
    simp only []
    have : (txtView dns recs).filter (fun r => Spec.Spf.lowerAll (r.take 6) == [118, 61, 115, 112, 102, 49] && (r.length == 6 || r.getD 6 0 == 32)) = [] := by
      rw [List.filter_eq_nil_iff]
      intro r hr
      have := hno r hr
      have e : (Spec.Spf.lowerAll (r.take 6) == [118, 61, 115, 112, 102, 49]) = false := by
        simpa [strVspf1] using this
      simp [e]
    simp only [Spec.Spf.selectRfc, Spec.Spf.Dev.rfc, Bool.false_eq_true, if_false, this]

/-- **Proved part 2 — temperror on DNS failure**: when the TXT lookup for the domain times out or is
refused, check_host() returns SPF_TEMPERROR, and so does the RFC. -/
theorem spf_refines_rfc_partial_dns_failure (dns : Dns) (ss : Sess) (domain : List Byte) (hwf : ss.wf = true)
    (hdv : domainvalid domain = true) (hv : Spec.Spf.isValidDomain domain = true)
    (e : Errno) (he : e = .ETIMEDOUT ∨ e = .EAGAIN ∨ e = .EIO ∨ e = .ECONNREFUSED) (ht : dns.txt domain = .error e) :
    checkHost dns ss domain = .ok ((SPF_TEMPERROR, st0), [Query.txt domain]) ∧
      Spec.Spf.checkHost Spec.Spf.Dev.rfc dns ss domain = .temperror := by
  constructor
  · rw [checkHost_top dns ss domain hwf hdv, ht]
    rcases he with h | h | h | h <;> subst h <;> rfl
  · rw [Spec.Spf.checkHost_rfc_top dns ss domain hv, ht]
    rcases he with h | h | h | h <;> subst h <;> rfl

/-- **Proved part 3 — permerror for duplicate records**: two records that both are `v=spf1` followed
by a blank or the end → SPF_PERMERROR, and permerror for the RFC. -/
theorem spf_refines_rfc_partial_duplicate (dns : Dns) (ss : Sess) (domain : List Byte) (hwf : ss.wf = true)
    (hdv : domainvalid domain = true) (hv : Spec.Spf.isValidDomain domain = true)
    (recs : List (List Byte)) (ht : dns.txt domain = .ok recs) (r1 r2 : List Byte)
    (hr : txtView dns recs = [r1, r2])
    (h1 : r1.take 6 = strVspf1) (h1' : r1.length = 6 ∨ at0 r1 6 = 32)
    (h2 : r2.take 6 = strVspf1) (h2' : r2.length = 6 ∨ at0 r2 6 = 32) :
    checkHost dns ss domain = .ok ((SPF_PERMERROR, st0), [Query.txt domain]) ∧
      Spec.Spf.checkHost Spec.Spf.Dev.rfc dns ss domain = .permerror := by
  have c1 : (at0 r1 6 == 32 || at0 r1 6 == 0) = true := by
    rcases h1' with h | h
    · have : at0 r1 6 = 0 := by simp [at0, List.getD, List.getElem?_eq_none (by omega : r1.length ≤ 6)]
      simp [this]
    · simp [h]
  constructor
  · rw [checkHost_top dns ss domain hwf hdv, ht]
    simp only [hr]
    have : selectRecord [r1, r2] none = none := by
      simp only [selectRecord, h1, h2, beq_self_eq_true, if_true, c1]
    rw [this]
  · rw [Spec.Spf.checkHost_rfc_top dns ss domain hv, ht]
    simp only [hr]
    have isSpf : ∀ r : List Byte, r.take 6 = strVspf1 → (r.length = 6 ∨ at0 r 6 = 32) →
        (Spec.Spf.lowerAll (r.take 6) == [118, 61, 115, 112, 102, 49] && (r.length == 6 || r.getD 6 0 == 32)) = true := by
      intro r ha hb
      rw [ha, lowerAll_vspf1]
      have a : (strVspf1 == [118, 61, 115, 112, 102, 49]) = true := by decide
      rw [a, Bool.true_and, Bool.or_eq_true]
      rcases hb with h | h
      · left; exact beq_iff_eq.mpr h
      · right; exact beq_iff_eq.mpr h
    simp only [Spec.Spf.selectRfc, Spec.Spf.Dev.rfc, Bool.false_eq_true, if_false, List.filter, isSpf r1 h1 h1', isSpf r2 h2 h2']

/-- records `v=spf1 <q>all` -/
def recAll (q : List Byte) : List Byte := [118, 61, 115, 112, 102, 49, 32] ++ q ++ [97, 108, 108]

/-- **Proved part 4 — the qualifier of the matching mechanism dictates the result**, shown for the
records `v=spf1 -all`, `~all`, `?all`, `+all`, `all` (any domain, any session, any other DNS
content): fail, softfail, neutral, pass, pass — for the code and for the RFC alike. -/
theorem spf_refines_rfc_partial_all (dns : Dns) (ss : Sess) (domain : List Byte) (hwf : ss.wf = true)
    (hdv : domainvalid domain = true) (hv : Spec.Spf.isValidDomain domain = true) :
    (dns.txt domain = .ok [recAll [45]] →
      checkHost dns ss domain = .ok ((SPF_FAIL, { st0 with mech := some strAll }), [Query.txt domain]) ∧
      Spec.Spf.checkHost Spec.Spf.Dev.rfc dns ss domain = .fail) ∧
    (dns.txt domain = .ok [recAll [126]] →
      checkHost dns ss domain = .ok ((SPF_SOFTFAIL, { st0 with mech := some strAll }), [Query.txt domain]) ∧
      Spec.Spf.checkHost Spec.Spf.Dev.rfc dns ss domain = .softfail) ∧
    (dns.txt domain = .ok [recAll [63]] →
      checkHost dns ss domain = .ok ((SPF_NEUTRAL, { st0 with mech := some strAll }), [Query.txt domain]) ∧
      Spec.Spf.checkHost Spec.Spf.Dev.rfc dns ss domain = .neutral) ∧
    (dns.txt domain = .ok [recAll [43]] →
      checkHost dns ss domain = .ok ((SPF_PASS, { st0 with mech := some strAll }), [Query.txt domain]) ∧
      Spec.Spf.checkHost Spec.Spf.Dev.rfc dns ss domain = .pass) ∧
    (dns.txt domain = .ok [recAll []] →
      checkHost dns ss domain = .ok ((SPF_PASS, { st0 with mech := some strAll }), [Query.txt domain]) ∧
      Spec.Spf.checkHost Spec.Spf.Dev.rfc dns ss domain = .pass) := by
  have key : ∀ (q : List Byte) (code : Int) (res : Spec.Spf.Res),
      txtView dns [recAll q] = [recAll q] →
      Spec.Spf.selectRfc Spec.Spf.Dev.rfc [recAll q] = some (some (recAll q)) →
      (∀ (recurse : List Byte → St → M (Int × St)),
        evalRecord dns ss recurse domain (recAll q) st0 = .ok ((code, { st0 with mech := some strAll }), [])) →
      selectRecord [recAll q] none = some (some (recAll q)) →
      (dns.txt domain = .ok [recAll q] →
        (Spec.Spf.checkDomain ⟨Spec.Spf.Dev.rfc, dns, ss⟩ 24 domain 0 true).1 = res) →
      dns.txt domain = .ok [recAll q] →
      checkHost dns ss domain = .ok ((code, { st0 with mech := some strAll }), [Query.txt domain]) ∧
        Spec.Spf.checkHost Spec.Spf.Dev.rfc dns ss domain = res := by
    intro q code res hview hsel hev hsel2 hspec ht
    constructor
    · rw [checkHost_top dns ss domain hwf hdv, ht]
      simp only [hview, hsel2, hev]
      try rfl
    · rw [Spec.Spf.checkHost_rfc_top dns ss domain hv, ht]
      simp only [hview, hsel]
      exact hspec ht
  -- the records are printable: both views of the connector leave them alone
  have view : ∀ q : List Byte, (recAll q).map (fun b => if b == 0 then 63 else b) = recAll q →
      sanitizeTxt (recAll q) = recAll q → txtView dns [recAll q] = [recAll q] := by
    intro q h1 h2
    unfold txtView
    split
    · simp only [List.map_cons, List.map_nil, h1]
    · simp only [List.map_cons, List.map_nil, h2]
  have v1 := view [45] (by decide) (by decide)
  have v2 := view [126] (by decide) (by decide)
  have v3 := view [63] (by decide) (by decide)
  have v4 := view [43] (by decide) (by decide)
  have v5 := view [] (by decide) (by decide)
  refine ⟨?_, ?_, ?_, ?_, ?_⟩
  · exact key [45] SPF_FAIL .fail v1 (by decide) (fun _ => rfl) (by decide)
      (fun ht => by unfold Spec.Spf.checkDomain; simp only [ht, if_true, v1]; rfl)
  · exact key [126] SPF_SOFTFAIL .softfail v2 (by decide) (fun _ => rfl) (by decide)
      (fun ht => by unfold Spec.Spf.checkDomain; simp only [ht, if_true, v2]; rfl)
  · exact key [63] SPF_NEUTRAL .neutral v3 (by decide) (fun _ => rfl) (by decide)
      (fun ht => by unfold Spec.Spf.checkDomain; simp only [ht, if_true, v3]; rfl)
  · exact key [43] SPF_PASS .pass v4 (by decide) (fun _ => rfl) (by decide)
      (fun ht => by unfold Spec.Spf.checkDomain; simp only [ht, if_true, v4]; rfl)
  · exact key [] SPF_PASS .pass v5 (by decide) (fun _ => rfl) (by decide)
      (fun ht => by unfold Spec.Spf.checkDomain; simp only [ht, if_true, v5]; rfl)

/-! Non-vacuity: a session meeting `Sess.wf`, and a zone on which the model really evaluates
(`d.ab` publishes `v=spf1 -all`): the result is `fail` by the mechanism `all`, one query. -/
def exSess : Sess := ⟨[0,0,0,0,0,0,0,0,0,0,255,255,192,0,2,1], true, [117,64,100,46,97,98], [104,46,97,98], [], [109,120], 0⟩
def exDns : Dns where
  txt n := if n = [100,46,97,98] then .ok [[118,61,115,112,102,49,32,45,97,108,108]] else .ok []
  a _ := .ok []
  aaaa _ := .ok []
  mx _ := .ok []
  ptr _ := .ok []

example : exSess.wf = true := by decide
example : (match checkHost exDns exSess [100,46,97,98] with
    | .ok ((r, st), log) => r == 4 && st.mech == some [97,108,108] && log == [Query.txt [100,46,97,98]] && st.evaluated == 0
    | .error _ => false) = true := by decide

/-- **TXT records as the SPF code gets them** (lib/libowfatconn.c, `dns_txt_packet2`): for every list
of character-strings of at most 255 octets each — any octets, any lengths, empty strings included —
the record is their concatenation with the octets outside 32..126 replaced by `?`; a string of
128..255 octets is read with its full length and no length octet becomes part of the text. -/
theorem txt_strings_concat (ss : List (List Byte)) (h : ∀ s ∈ ss, s.length ≤ 255) :
    Spf.Txt.txtRecord (Spf.Txt.encodeStrings ss) = (ss.flatten).map Spf.Txt.sanitize :=
  Spf.Txt.txt_strings_concat ss h

end QsmtpModel.Props.C11
