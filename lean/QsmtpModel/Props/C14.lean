/-
C14 — only well-formed mailbox addresses are accepted; parsing a command line never reads or
writes outside that line.

Property theorems only.  Model: QsmtpModel/Addr.lean (domainvalid, parselocalpart, parseaddr,
addrsyntax, xtextlen, addrparse as they are in the tree WITH the three proposed fixes
C14-first-label-64, C14-strict-localpart, C14-xtext-nul); reference: QsmtpModel/Spec/Rfc5321.lean;
helper lemmas: QsmtpModel/Lemmas/Addr*.lean, Rfc5321.lean.

A `char *` argument is the list of bytes from the pointer to the end of its allocation; "the
line holds a NUL" (`0 ∈ p`) is the C-string contract that `net_read` provides for `linein.s`.
-/
import QsmtpModel.Lemmas.AddrSyntax
import QsmtpModel.Lemmas.Rfc5321
import QsmtpModel.Lemmas.AddrPton

namespace QsmtpModel.Props.C14
open QsmtpModel QsmtpModel.Addr

/-! ### domain -/

/-- **Domain clause.** Whatever `domainvalid()` accepts is a fully-qualified host name: at least
two labels of 1..63 letters, digits or hyphens, at most 255 octets, final label of at least two
characters that is not all-numeric.  For every buffer, of any length. -/
theorem domainvalid_spec (p : List Byte) (h : domainvalid p = .ok 0) : Spec.fqdn (cstr p) :=
  domainvalid_fqdn p h

/-- `domainvalid()` stays inside its string. -/
theorem domainvalid_no_fault (p : List Byte) (h : (0 : Byte) ∈ p) : ∀ f, domainvalid p ≠ .error f := by
  obtain ⟨r, hr⟩ := domainvalid_ok p h
  intro f; rw [hr]; simp

-- non-vacuity: "a.de" is accepted; a first label of 64 bytes (the defect found) is refused, 63 is fine
example : (match domainvalid [97, 46, 100, 101, 0] with | .ok r => r == 0 | .error _ => false) = true := by decide
example : (match domainvalid (List.replicate 64 97 ++ [46, 100, 101, 0]) with | .ok r => r == 1 | .error _ => false) = true := by decide
example : (match domainvalid (List.replicate 63 97 ++ [46, 100, 101, 0]) with | .ok r => r == 0 | .error _ => false) = true := by decide

/-! ### local part -/

/-- **Local-part clause (strict RFC 5321 reading).** If `parselocalpart()` does not return -1 it
returns the offset of the first '@' (or of the end), and the text before it is empty, a
dot-string of atoms, or one quoted string. -/
theorem localpart_spec (p : List Byte) (r : Int) (h : parselocalpart p = .ok r) (hr : 0 ≤ r) :
    r = (lpOf p).length ∧ (lpOf p = [] ∨ Spec.dotString (lpOf p) ∨ Spec.quotedString (lpOf p)) :=
  parselocalpart_ref p r h hr

/-- ... and in any case it contains no NUL, CR, LF or 8-bit character, and no double quote that
is not escaped (none at all in a dot-string; only behind a backslash inside a quoted string). -/
theorem localpart_clean (p : List Byte) (r : Int) (h : parselocalpart p = .ok r) (hr : 0 ≤ r) :
    Spec.cleanB (lpOf p) = true ∧
    ((34 : Byte) ∉ lpOf p ∨ ∃ content, lpOf p = 34 :: content ++ [34] ∧ Spec.noUnescapedQuote content = true) := by
  rcases (parselocalpart_ref p r h hr).2 with e | e | e
  · rw [e]; exact ⟨rfl, Or.inl (by simp)⟩
  · exact ⟨(Spec.dotString_clean _ e).1, Or.inl (Spec.dotString_clean _ e).2⟩
  · exact ⟨(Spec.quotedString_clean _ e).1, Or.inr (Spec.quotedString_clean _ e).2⟩

theorem localpart_no_fault (p : List Byte) (h : (0 : Byte) ∈ p) : ∀ f, parselocalpart p ≠ .error f := by
  obtain ⟨r, hr⟩ := parselocalpart_ok p h
  intro f; rw [hr]; simp

-- non-vacuity: `a.b@` and `"a\"b"@` are accepted with lengths 3 and 6
example : (match parselocalpart [97, 46, 98, 64, 0] with | .ok r => r == 3 | .error _ => false) = true := by decide
example : (match parselocalpart [34, 97, 92, 34, 98, 34, 64, 0] with | .ok r => r == 6 | .error _ => false) = true := by decide

/-- The proposed fix `C14-strict-localpart` is safe in this sense: it never accepts anything the
old code refused and never changes a returned length — it only turns accepts into rejects. -/
theorem strict_fix_only_rejects (p : List Byte) (r : Int) (h : parselocalpart p = .ok r) (hr : 0 ≤ r) :
    parselocalpartLax p = .ok r :=
  lpLoop_lax p.length p (Nat.le_refl _) 0 false 0 r h hr

/-- The statement `localpart_spec` for the code as it was before the fix. -/
def lax_localpart_strict : Prop :=
  ∀ (p : List Byte) (r : Int), parselocalpartLax p = .ok r → 0 ≤ r →
    lpOf p = [] ∨ Spec.dotString (lpOf p) ∨ Spec.quotedString (lpOf p)

/-- It does not hold: `a..b@` was accepted (so were `.a`, `a.` and `a"b"c`); this is the defect
the fix repairs.  Witness replayed on the implementation: corpus/C14/002-lax-localpart.txt. -/
theorem lax_localpart_counterexample : ¬ lax_localpart_strict := by
  intro h
  have h1 : parselocalpartLax [97, 46, 46, 98, 64, 0] = .ok 4 := rfl
  have := h [97, 46, 46, 98, 64, 0] 4 h1 (by decide)
  simp only [Spec.dotString, Spec.quotedString] at this
  revert this
  decide

/-! ### mailbox -/

/-- **IPv4 literal clause.** What (the model of) `inet_pton(AF_INET, …)` accepts is an
IPv4-address-literal: four decimal numbers 0..255 of one to three digits separated by dots. -/
theorem pton4_spec (s : List Byte) (h : pton4 s = true) : Spec.ipv4B s = true := pton4_ipv4 s h

/-- the text between the brackets of an accepted address literal: an IPv4 address, or the tag
`IPv6:` followed by what libc's `inet_pton(AF_INET6, …)` (model `pton6`) accepts.  (`inet_pton` is
libc, outside the verified code; its IPv6 side is compared with the reference `Spec.ipv6B` on every
run of the check, not proved.) -/
def LiteralOk (lit : List Byte) : Prop :=
  Spec.ipv4B lit = true ∨ ∃ ip6, lit = ipv6Tag ++ ip6 ∧ pton6 ip6 = true

private theorem literalOk_of (lit : List Byte) (h : litOk lit) : LiteralOk lit := by
  rcases h with ⟨ip6, e, hp⟩ | h4
  · exact Or.inr ⟨ip6, e, hp⟩
  · exact Or.inl (pton4_ipv4 lit h4)

/-- what `parseaddr()` accepts as a mailbox: a non-empty local part that is a dot-string or a
quoted string (without NUL, CR, LF, 8-bit characters), an '@' that is the first one, and either a
fully-qualified host name or a bracketed address literal -/
def AcceptedMailbox (m : List Byte) (literal : Bool) : Prop :=
  ∃ lp d, m = lp ++ AT :: d ∧ lp ≠ [] ∧ AT ∉ lp ∧
    (Spec.dotString lp ∨ Spec.quotedString lp) ∧ Spec.cleanB lp = true ∧
    (if literal then ∃ lit, d = LBRACK :: lit ++ [RBRACK] ∧ LiteralOk lit else Spec.fqdn d)

private theorem accepted_of_parts (lp d : List Byte) (lit : Bool) (m : List Byte) (hm : m = lp ++ AT :: d)
    (h1 : lp ≠ []) (h2 : AT ∉ lp) (h3 : Spec.localPartB lp = true)
    (h4 : if lit then ∃ l, d = LBRACK :: l ++ [RBRACK] ∧ LiteralOk l else Spec.fqdn d) : AcceptedMailbox m lit := by
  refine ⟨lp, d, hm, h1, h2, ?_, Spec.localPart_clean lp h3, h4⟩
  unfold Spec.localPartB at h3
  rcases Bool.or_eq_true _ _ |>.mp h3 with e | e
  · exact Or.inl e
  · exact Or.inr e

/-- **Mailbox clause.** The meaning of every return value of `parseaddr()`: 1 = a bare host name,
2 = `@` host name, 3 = mailbox with host name, 4 = mailbox with address literal; nothing else
is positive. -/
theorem parseaddr_spec (p : List Byte) (r : Nat) (h : parseaddr p = .ok r) :
    r ≤ 4 ∧
    (r = 1 → Spec.fqdn (cstr p)) ∧
    (r = 2 → ∃ d, cstr p = AT :: d ∧ Spec.fqdn d) ∧
    (r = 3 → AcceptedMailbox (cstr p) false) ∧
    (r = 4 → AcceptedMailbox (cstr p) true) := by
  obtain ⟨h0, h1, h2, h3, h4⟩ := parseaddr_ref p r h
  refine ⟨h0, h1, h2, ?_, ?_⟩
  · intro e
    obtain ⟨lp, d, hm, a, b, c, dd⟩ := h3 e
    exact accepted_of_parts lp d false _ hm a b c dd
  · intro e
    obtain ⟨lp, lit, hm, a, b, c, dd⟩ := h4 e
    exact accepted_of_parts lp (LBRACK :: lit ++ [RBRACK]) true _ (by simpa using hm) a b c ⟨lit, rfl, literalOk_of lit dd⟩

/-- A mailbox accepted with a host name is a `Spec.rfc5321Mailbox` in the reference's own terms. -/
theorem accepted_is_rfc5321 (m : List Byte) (h : AcceptedMailbox m false) : Spec.rfc5321Mailbox m := by
  obtain ⟨lp, d, hm, _, _, hl, _, hd⟩ := h
  simp only [Bool.false_eq_true, ↓reduceIte] at hd
  unfold Spec.rfc5321Mailbox Spec.rfc5321MailboxB
  rw [List.any_eq_true]
  refine ⟨lp.length, by rw [List.mem_range, hm]; simp, ?_⟩
  unfold Spec.mailboxAtB
  have e1 : m[lp.length]? = some 64 := by rw [hm]; simp [AT]
  have e2 : m.take lp.length = lp := by rw [hm]; exact List.take_left
  have e3 : m.drop (lp.length + 1) = d := by
    rw [hm]
    have : lp ++ AT :: d = (lp ++ [AT]) ++ d := by simp
    rw [this]; exact drop_len _ _ _ (by simp)
  have hlp : Spec.localPartB lp = true := by
    unfold Spec.localPartB
    rcases hl with e | e
    · rw [show Spec.dotStringB lp = true from e]; rfl
    · rw [show Spec.quotedStringB lp = true from e]; simp
  rw [e1, e2, e3, hlp, show Spec.fqdnB d = true from hd]
  rfl

/-- ... and so is one accepted with an IPv4 address literal. -/
theorem accepted_ipv4_is_rfc5321 (lp lit : List Byte) (hl : Spec.dotString lp ∨ Spec.quotedString lp)
    (h4 : Spec.ipv4B lit = true) : Spec.rfc5321Mailbox (lp ++ AT :: (LBRACK :: lit ++ [RBRACK])) := by
  unfold Spec.rfc5321Mailbox Spec.rfc5321MailboxB
  rw [List.any_eq_true]
  refine ⟨lp.length, by rw [List.mem_range]; simp, ?_⟩
  unfold Spec.mailboxAtB
  have e1 : (lp ++ AT :: (LBRACK :: lit ++ [RBRACK]))[lp.length]? = some 64 := by simp [AT]
  have e2 : (lp ++ AT :: (LBRACK :: lit ++ [RBRACK])).take lp.length = lp := List.take_left
  have e3 : (lp ++ AT :: (LBRACK :: lit ++ [RBRACK])).drop (lp.length + 1) = LBRACK :: lit ++ [RBRACK] := by
    have : lp ++ AT :: (LBRACK :: lit ++ [RBRACK]) = (lp ++ [AT]) ++ (LBRACK :: lit ++ [RBRACK]) := by simp
    rw [this]; exact drop_len _ _ _ (by simp)
  have hlp : Spec.localPartB lp = true := by
    unfold Spec.localPartB
    rcases hl with e | e
    · rw [show Spec.dotStringB lp = true from e]; rfl
    · rw [show Spec.quotedStringB lp = true from e]; simp
  have hlit : Spec.addressLiteralB (LBRACK :: lit ++ [RBRACK]) = true := by
    unfold Spec.addressLiteralB
    have a1 : (LBRACK :: lit ++ [RBRACK]).getLast? = some 93 := by
      rw [show LBRACK :: lit ++ [RBRACK] = (LBRACK :: lit) ++ [RBRACK] from rfl, List.getLast?_append]; rfl
    have a2 : ((LBRACK :: lit ++ [RBRACK]).drop 1).dropLast = lit := by simp
    have a3 : (LBRACK :: lit ++ [RBRACK]).take 1 = Spec.lit4 := rfl
    rw [a1, a2, a3, h4]
    simp
  rw [e1, e2, e3, hlp, hlit]
  simp

theorem parseaddr_no_fault (p : List Byte) (h : (0 : Byte) ∈ p) : ∀ f, parseaddr p ≠ .error f := by
  obtain ⟨r, hr⟩ := parseaddr_ok p h
  intro f; rw [hr]; simp

-- non-vacuity: `a@b.de` is a mailbox (3), `a@[1.2.3.4]` one with a literal (4)
example : (match parseaddr [97, 64, 98, 46, 100, 101, 0] with | .ok r => r == 3 | .error _ => false) = true := by decide
example : (match parseaddr [97, 64, 91, 49, 46, 50, 46, 51, 46, 52, 93, 0] with | .ok r => r == 4 | .error _ => false) = true := by decide

/-! ### addrsyntax: MAIL FROM / RCPT TO argument -/

/-- **Command-argument clause.** When `addrsyntax(in, flags, &addr, &more)` succeeds, the C
string at `in` was `route ++ mbox ++ ">" ++ tail` where
* `route` is empty, or (only for RCPT TO, `flags = 1`) a well-formed source route
  `@fqdn,…,@fqdn:` of at most 256 octets — and a line that starts with '@' in RCPT TO *has* such a
  route, which is **not** part of the returned address;
* `mbox` holds no '>' and is: empty (MAIL FROM only, result 1), `postmaster` in any case
  (RCPT TO only, result 1), a mailbox with host name (3) or with an address literal (4);
* the returned address is `mbox` lower-cased; `more` points just behind the '>' iff something
  follows it. -/
theorem addrsyntax_spec (b : List Byte) (flags : Nat) (o : SyntaxOut) (h : addrsyntax b flags = .ok o) (hpos : 0 < o.ret) :
    ∃ route mbox tail, cstr b = route ++ mbox ++ GT :: tail ∧ GT ∉ mbox ∧
      (route = [] ∨ (flags = 1 ∧ RouteOk route ∧ route.length ≤ 256)) ∧
      (flags = 1 → b.head? = some AT → route ≠ []) ∧
      o.addr = some (mbox.map lower) ∧
      o.more = (if tail = [] then none else some (route.length + mbox.length + 1)) ∧
      ((flags = 0 ∧ mbox = [] ∧ o.ret = 1) ∨
       (flags = 1 ∧ mbox.map lower = postmaster ∧ o.ret = 1) ∨
       (o.ret = 3 ∧ AcceptedMailbox mbox false) ∨
       (o.ret = 4 ∧ AcceptedMailbox mbox true)) := by
  obtain ⟨route, mbox, tail, h1, h2, h3, h4, h5, h6, h7⟩ := addrsyntax_ref b flags o h hpos
  refine ⟨route, mbox, tail, h1, h2, h3, h4, h5, h6, ?_⟩
  rcases h7 with e | e | ⟨e, lp, d, hm, a, b', c, dd⟩ | ⟨e, lp, lit, hm, a, b', c, dd⟩
  · exact Or.inl e
  · exact Or.inr (Or.inl e)
  · exact Or.inr (Or.inr (Or.inl ⟨e, accepted_of_parts lp d false _ hm a b' c dd⟩))
  · exact Or.inr (Or.inr (Or.inr ⟨e, accepted_of_parts lp (LBRACK :: lit ++ [RBRACK]) true _ (by simpa using hm) a b' c ⟨lit, rfl, literalOk_of lit dd⟩⟩))

/-- **Memory-safety clause.** Parsing any line, however malformed, never reads or writes outside
it: for every buffer that holds a NUL (every command line: `linein.s[linein.len] = 0`), every
offset and every `flags`, `addrsyntax` — with its in-place NUL writes — does not fault. -/
theorem parse_no_fault (b : List Byte) (flags : Nat) (h : (0 : Byte) ∈ b) : ∀ f, addrsyntax b flags ≠ .error f := by
  obtain ⟨o, ho⟩ := addrsyntax_ok b flags h
  intro f; rw [ho]; simp

/-- the form used for a command line: any bytes (NULs included), then the terminator -/
theorem parse_no_fault_line (line : List Byte) (flags : Nat) : ∀ f, addrsyntax (line ++ [0]) flags ≠ .error f :=
  parse_no_fault _ _ (by simp)

-- non-vacuity: RCPT TO:<@a.de:U@B.de> x  →  3, "u@b.de", more at 12
example : (match addrsyntax [64, 97, 46, 100, 101, 58, 85, 64, 66, 46, 100, 101, 62, 32, 120, 0] 1 with
    | .ok o => o.ret == 3 && o.addr == some [117, 64, 98, 46, 100, 101] && o.more == some 13
    | .error _ => false) = true := by decide

/-! ### AUTH= (xtext) -/

/-- **AUTH= clause.** If `xtextlen(str) = n ≥ 0` then the first `n` bytes of `str` are well-formed
xtext (RFC 3461: printable characters except '+' and '=', or '+' and two upper-case hex digits),
they are followed by a blank or the end of the string, and they decode to nothing, to `<>`, or to
a mailbox `parseaddr` accepts — in particular the decoded value holds no NUL (fix `C14-xtext-nul`). -/
theorem xtext_spec (p : List Byte) (r : Int) (h : xtextlen p = .ok r) (hr : 0 ≤ r) :
    ∃ x t rest d, p = x ++ t :: rest ∧ (t = 0 ∨ t = SP) ∧ r = x.length ∧
      Spec.xtextDecode x = some d ∧ (0 : Byte) ∉ d ∧
      (d = [] ∨ d = [60, 62] ∨ AcceptedMailbox d false ∨ AcceptedMailbox d true) := by
  unfold xtextlen at h
  obtain ⟨x, t, rest, d, h1, h2, _, _, h5, h6, h7⟩ := xtLoop_ref p.length p (Nat.le_refl _) 0 [] 0 r h hr
  simp only [List.nil_append, Nat.zero_add] at h7
  obtain ⟨hrn, hcase⟩ := xtEnd_ref d x.length r h6 h7 hr
  refine ⟨x, t, rest, d, h1, h2, hrn, h5, h6, ?_⟩
  rcases hcase with e | e | ⟨k, hk, hp⟩
  · exact Or.inl e
  · exact Or.inr (Or.inl e)
  · have hs := parseaddr_spec _ k hp
    rw [cstr_append_zero d [] h6] at hs
    have : k = 3 ∨ k = 4 := by omega
    rcases this with e | e
    · exact Or.inr (Or.inr (Or.inl (hs.2.2.2.1 e)))
    · exact Or.inr (Or.inr (Or.inr (hs.2.2.2.2 e)))

theorem xtext_no_fault (p : List Byte) (h : (0 : Byte) ∈ p) : ∀ f, xtextlen p ≠ .error f := by
  obtain ⟨r, hr⟩ := xtextlen_ok p h
  intro f; rw [hr]; simp

-- non-vacuity: "+3C+3E" (= <>) is accepted with length 6; an encoded NUL is refused
example : (match xtextlen [43, 51, 67, 43, 51, 69, 0] with | .ok r => r == 6 | .error _ => false) = true := by decide
example : (match xtextlen [97, 64, 98, 46, 100, 101, 43, 48, 48, 0] with | .ok r => r == -1 | .error _ => false) = true := by decide

/-! ### addrparse: what reaches the transaction -/

/-- `addrparse()` lets a command go on (0: local and existing / empty / postmaster, -2: not
local) only with an address `addrsyntax()` accepted, and it hands back exactly that address; in
MAIL FROM an address literal is refused. -/
theorem addrparse_accepts_only_wellformed (env : ParseEnv) (b : List Byte) (flags : Nat) (o : ParseOut)
    (h : addrparse env b flags = .ok o) (hacc : o.ret = 0 ∨ o.ret = -2) :
    ∃ s, addrsyntax b flags = .ok s ∧ 0 < s.ret ∧ o.addr = s.addr ∧ o.more = s.more ∧ (flags ≠ 1 → s.ret ≠ 4) := by
  unfold addrparse at h
  cases hs : addrsyntax b flags with
  | error e => simp [hs, bind, Except.bind] at h
  | ok s =>
    simp only [hs, bind, Except.bind] at h
    refine ⟨s, rfl, ?_⟩
    by_cases hrej : s.ret = 0 ∨ (flags ≠ 1 ∧ s.ret = 4)
    · simp only [hrej, ↓reduceIte, pure, Except.pure, Except.ok.injEq] at h
      subst h
      simp [EBOGUS] at hacc
    · simp only [hrej, ↓reduceIte] at h
      have hpos : 0 < s.ret := by
        apply Decidable.byContradiction; intro hn
        exact hrej (Or.inl (by omega))
      have h4 : flags ≠ 1 → s.ret ≠ 4 := fun a b' => hrej (Or.inr ⟨a, b'⟩)
      have key : o.addr = s.addr ∧ o.more = s.more := by
        split at h
        · simp only [pure, Except.pure, Except.ok.injEq] at h; subst h; exact ⟨rfl, rfl⟩
        · split at h
          · split at h
            · simp only [pure, Except.pure, Except.ok.injEq] at h; subst h; exact ⟨rfl, rfl⟩
            · simp at h
          · split at h
            · split at h
              · simp only [pure, Except.pure, Except.ok.injEq] at h; subst h; exact ⟨rfl, rfl⟩
              · simp only [pure, Except.pure, Except.ok.injEq] at h
                subst h; exact apFinish_accept _ _ _ _ hacc
            · split at h <;> split at h <;>
              · simp only [pure, Except.pure, Except.ok.injEq] at h
                subst h; exact apFinish_accept _ _ _ _ hacc
      exact ⟨hpos, key.1, key.2, h4⟩

end QsmtpModel.Props.C14
