/-
C12 — the reply to RCPT TO is the documented function of the recipient's, its domain's and the
global filter configuration.

Model: `QsmtpModel.Rcpt` (filter loop and rejection switch of smtp_rcpt, checkconfig /
getsetting_internal / getfile of the vpopmail back end, every filter of rcpt_cbs[]).
Specification: `QsmtpModel.Spec.Rcpt` (`rcptPolicy`, `says`, `effective`, `firstAnswer`).
Only the property theorems live here; helper lemmas are in `QsmtpModel.Lemmas.Rcpt`.
-/
import QsmtpModel.Lemmas.Rcpt
import QsmtpModel.Lemmas.RcptSafe

namespace QsmtpModel.Props.C12
open QsmtpModel QsmtpModel.Rcpt
open QsmtpModel.Spec.Rcpt

/-- What the theorems below need from the source (regenerated on every run): both settings of the
rejection switch count as set only for a value > 0 and are read while the recipient's configuration
is still loaded; neither is a global key; cb_namebl does not read `blocktype[*t]` before `*t` is
assigned; cb_dnsbl names the white list entry by its own index. -/
theorem gen_constants :
    Gen.Rcpt.keyFailhardPositive = true ∧ Gen.Rcpt.keyNonexistPositive = true ∧
    Gen.Rcpt.settingsReadBeforeFree = true ∧
    Gen.Rcpt.keyFailhardGlobal = false ∧ Gen.Rcpt.keyNonexistGlobal = false ∧
    Gen.Rcpt.nameblTypeEarly = false ∧ Gen.Rcpt.dnsblWhiteLogsBlackIndex = false ∧
    Gen.Rcpt.rcptCbs.length = 16 := by decide

/-- **The documented place of `whitelistauth`** (filterconf(5): "if the user is authenticated … the
mail is accepted and no other filters will be checked"): the filter that implements it (`cb_boolean`)
is the first entry of `rcpt_cbs[]`, so by `first_hard_decision_wins` its whitelisting is the
decision whatever the other fifteen filters would say.  Re-proved against the table extracted from
qsmtpd/filters/rcpt_filters.c on every run. -/
theorem whitelistauth_checked_first : Gen.Rcpt.rcptCbs.head? = some .boolean := rfl

/-! ### the policy -/

/-- **rcpt_outcome_spec.**  For *every* sequence of filter answers (what each filter of the chain
says when it is called, including what it sends itself), every value getsetting() returns for
`fail_hard_on_temp` and `nonexist_on_block` and every recipient: smtp_rcpt() sends what the called
filters sent followed by exactly the reply of the documented policy, and accepts the recipient iff
the policy says so.  (whitelist ⇒ 250; first hard denial wins even after temporaries; only
temporaries ⇒ 450, or a policy rejection with fail_hard_on_temp; nonexist_on_block ⇒ 550 5.1.1;
a filter that sent its own rejection ⇒ nothing further.) -/
theorem rcpt_outcome_spec (rs : List CbRes) (failHard nonexist : Int) (rcpt : List Byte) :
    (decide_ rs failHard nonexist rcpt).replies =
      calledWrote rs ++ finalReply (rcptPolicy (rs.map verdictOf) (decide (failHard > 0)) (decide (nonexist > 0))) rcpt ∧
    (decide_ rs failHard nonexist rcpt).accepted =
      (rcptPolicy (rs.map verdictOf) (decide (failHard > 0)) (decide (nonexist > 0)) == .accept) := by
  have h := loop_spec rs {} ⟨Or.inl rfl, by simp⟩ failHard nonexist rcpt
  simpa [decide_, policyFrom_false] using h

example : (decide_ [{ fr := .error }, { fr := .deniedTemp }, { fr := .deniedUnspecific }, { fr := .whitelisted }] 0 0 [97]).replies
    = [.lit Gen.Rcpt.replyPolicy] := by decide

/-- **first_hard_decision_wins.**  The first filter with a hard decision decides, whatever the
filters in front of it said (passes, temporary failures, errors), whatever `fail_hard_on_temp` is,
and whatever the filters behind it would say (they are not even called: nothing of theirs is sent). -/
theorem first_hard_decision_wins (pre post : List CbRes) (h : CbRes) (failHard nonexist : Int) (rcpt : List Byte)
    (hpre : ∀ r ∈ pre, (verdictOf r).hard = false) (hh : (verdictOf h).hard = true) :
    (decide_ (pre ++ h :: post) failHard nonexist rcpt).replies =
      pre.flatMap (·.wrote) ++ h.wrote ++ finalReply (hardReply (verdictOf h) (decide (nonexist > 0))) rcpt ∧
    (decide_ (pre ++ h :: post) failHard nonexist rcpt).accepted = (verdictOf h == .whitelist) := by
  have hs := rcpt_outcome_spec (pre ++ h :: post) failHard nonexist rcpt
  have hf : ((pre ++ h :: post).map verdictOf).find? Verdict.hard = some (verdictOf h) := by
    rw [List.map_append, List.map_cons]
    exact find_hard_append _ _ _ (by
      intro v hv
      obtain ⟨r, hr, rfl⟩ := List.mem_map.mp hv
      exact hpre r hr) hh
  have hp : rcptPolicy ((pre ++ h :: post).map verdictOf) (decide (failHard > 0)) (decide (nonexist > 0)) =
      hardReply (verdictOf h) (decide (nonexist > 0)) := by
    unfold rcptPolicy hardReply
    rw [hf]
    cases hv : verdictOf h with
    | deny k => cases k <;> rfl
    | whitelist => rfl
    | pass => simp [hv, Verdict.hard] at hh
    | temp => simp [hv, Verdict.hard] at hh
  rw [hp, calledWrote_append pre post h hpre hh] at hs
  refine ⟨hs.1, ?_⟩
  rw [hs.2]
  cases hv : verdictOf h with
  | deny k => cases k <;> cases hne : decide (nonexist > 0) <;> simp [hardReply, policyOr] <;> decide
  | whitelist => simp [hardReply]
  | pass => simp [hv, Verdict.hard] at hh
  | temp => simp [hv, Verdict.hard] at hh

example : ∃ pre h, (∀ r ∈ pre, (verdictOf r).hard = false) ∧ (verdictOf h).hard = true ∧ pre ≠ [] :=
  ⟨[{ fr := .deniedTemp }], { fr := .deniedNouser }, by decide, by decide, by decide⟩

/-- **only temporaries.**  Without any hard decision one temporary failure (or filter error) makes
the answer 450, or the policy rejection when `fail_hard_on_temp` is set; without one the recipient
is accepted. -/
theorem no_hard_decision (rs : List CbRes) (failHard nonexist : Int) (rcpt : List Byte)
    (hno : ∀ r ∈ rs, (verdictOf r).hard = false) :
    (decide_ rs failHard nonexist rcpt).replies = rs.flatMap (·.wrote) ++
      finalReply (if (rs.map verdictOf).contains .temp then
                    (if failHard > 0 then policyOr (decide (nonexist > 0)) else .temp450)
                  else .accept) rcpt := by
  have hs := (rcpt_outcome_spec rs failHard nonexist rcpt).1
  have hf : (rs.map verdictOf).find? Verdict.hard = none := by
    rw [List.find?_eq_none]
    intro v hv
    obtain ⟨r, hr, rfl⟩ := List.mem_map.mp hv
    simp [hno r hr]
  have hw : calledWrote rs = rs.flatMap (·.wrote) := calledWrote_no_hard rs hno
  rw [hs, hw]
  congr 2
  unfold rcptPolicy
  rw [hf]
  by_cases h1 : failHard > 0 <;> simp [h1]

/-! ### settings -/

/-- **checkconfig_spec.**  For a configuration whose `key=value` lines have plain values (no C
white space in front of the number, the number fits a `long`) checkconfig() reads exactly what
filterconf(5) says: `key` is 1, `key=<integer>` is that integer, `key=0` and `key=` are the same as
no line, anything else behind `key=` is malformed; the first line about the key decides; lines
that merely begin with the key are about something else. -/
theorem checkconfig_spec (l : Lines) (key : List Byte) (hp : PlainConf key l) :
    ccSays (checkconfig l key) = saysOf l key := checkconfig_says l key hp

example : PlainConf [107] (some [[107, 120], [107, 61, 45, 49], [107]]) := by
  intro l hl v hv
  simp at hl
  rcases hl with rfl | rfl | rfl
  · simp at hv
  · have : v = [45, 49] := by simpa using hv.symm
    subst this
    exact ⟨by decide, by decide⟩
  · have := congrArg List.length hv
    simp at this

/-- **setting_inheritance.**  getsetting() / getsettingglobal() return the effective setting of the
documentation: the user's filterconf decides before the domain's, that before the global one (only
consulted for a global key); a level that says nothing (or 0) passes the question on; a negative
value switches the setting off *without* inheriting; a malformed value is an error (negative
return) at that level.  `*type` names the level that decided. -/
theorem setting_inheritance (c : Conf) (key : List Byte) (glob : Bool)
    (hu : PlainConf key c.user) (hd : PlainConf key c.domain) (hg : PlainConf key c.global) :
    match effective (docLevels c key glob) with
    | .off => (getsettingInternal c key glob).1 = 0
    | .on v i => getsettingInternal c key glob = (v, levelConst i)
    | .malformed i => (getsettingInternal c key glob).1 < 0 ∧ (getsettingInternal c key glob).2 = levelConst i := by
  have h := getsetting_levels c key glob
  simp only [settingLevels, checkconfig_says _ _ hu, checkconfig_says _ _ hd, checkconfig_says _ _ hg] at h
  exact h

/-- the same without any assumption on the values, in terms of what checkconfig() returns per level -/
theorem setting_inheritance_raw (c : Conf) (key : List Byte) (glob : Bool) :
    match effective (settingLevels c key glob) with
    | .off => (getsettingInternal c key glob).1 = 0
    | .on v i => getsettingInternal c key glob = (v, levelConst i)
    | .malformed i => (getsettingInternal c key glob).1 < 0 ∧ (getsettingInternal c key glob).2 = levelConst i :=
  getsetting_levels c key glob

/-- `-1` at the user level: off, whatever domain and global say -/
theorem minus_one_disables (c : Conf) (key : List Byte) (glob : Bool)
    (hu : PlainConf key c.user) (hd : PlainConf key c.domain) (hg : PlainConf key c.global)
    (h : saysOf c.user key = .value (-1)) : (getsettingInternal c key glob).1 = 0 := by
  have := setting_inheritance c key glob hu hd hg
  simpa [docLevels, h, effective, effectiveFrom] using this

/-- a positive user value wins over domain and global -/
theorem user_overrides (c : Conf) (key : List Byte) (glob : Bool) (v : Int) (hv : v > 0)
    (hu : PlainConf key c.user) (hd : PlainConf key c.domain) (hg : PlainConf key c.global)
    (h : saysOf c.user key = .value v) : getsettingInternal c key glob = (v, Gen.Rcpt.cfgUser) := by
  have := setting_inheritance c key glob hu hd hg
  simpa [docLevels, h, effective, effectiveFrom, hv, levelConst] using this

/-- the global file counts only for a global key -/
theorem global_only_for_global_keys (c : Conf) (key : List Byte)
    (hu : PlainConf key c.user) (hd : PlainConf key c.domain) (hg : PlainConf key c.global)
    (h1 : saysOf c.user key = .nothing) (h2 : saysOf c.domain key = .nothing) :
    (getsettingInternal c key false).1 = 0 := by
  have := setting_inheritance c key false hu hd hg
  simpa [docLevels, h1, h2, effective, effectiveFrom] using this

example : getsettingInternal { user := some [[107, 61, 45, 49]], domain := some [[107, 61, 53]], global := some [[107]] } [107] true
    = (0, Gen.Rcpt.cfgUser) := by decide
example : getsettingInternal { user := some [[107, 61, 48]], domain := none, global := some [[107, 61, 55]] } [107] true
    = (7, Gen.Rcpt.cfgGlobal) := by decide
example : (getsettingInternal { user := none, domain := some [[107, 61, 120]], global := some [[107]] } [107] true).1 = -1 := by decide

/-! ### level order of the filter files -/

/-- **getfile_level_order.**  getfile() answers with the first of user directory, domain directory
and (for a global lookup) control directory in which the name exists at all — be it a readable
file, a directory or something open() refuses — and names that level in `*type`; levels whose
directory does not exist for this recipient are skipped; if no level has the name: ENOENT. -/
theorem getfile_level_order (cfg : Cfg) (fn : List Byte) (glob : Bool) :
    match firstAnswer (probeLevel fn) 0 (fileLevels cfg glob) with
    | some (i, g) => getfileB cfg fn glob = (some (levelConst i), g)
    | none => (getfileB cfg fn glob).2 = .enoent := getfile_levels cfg fn glob

example : getfileB { user := some [([97], .absent)], domain := some [([97], .dir)], global := [([97], .content [1])], globalconf := none } [97] true
    = (some Gen.Rcpt.cfgDomain, .fd .dir) := by decide

/-! ### the whole of smtp_rcpt behind addrparse() -/

/-- **settings_read_from_loaded_config.**  The two settings of the rejection switch are looked up in
the very configuration the filters ran against (user and domain filterconf of this recipient), not
in one that has already been released. -/
theorem settings_read_from_loaded_config (cfg : Cfg) (f : Facts) (uc dc : Lines) (h : loadConfigs cfg = some (uc, dc)) :
    outcome cfg f =
      decide_ (Gen.Rcpt.rcptCbs.map (runCb { user := uc, domain := dc, global := cfg.globalconf } cfg f))
        (getsettingInternal { user := uc, domain := dc, global := cfg.globalconf } Gen.Rcpt.keyFailhard false).1
        (getsettingInternal { user := uc, domain := dc, global := cfg.globalconf } Gen.Rcpt.keyNonexist false).1 f.rcpt := by
  simp [outcome, h, switchSetting, switchConf]

/-- **outcome_documented.**  End to end: for a recipient whose filterconf files load, the reply is the
documented policy applied to the filters' verdicts, with `fail_hard_on_temp` and `nonexist_on_block`
taken from user over domain configuration as documented (plain values). -/
theorem outcome_documented (cfg : Cfg) (f : Facts) (uc dc : Lines) (h : loadConfigs cfg = some (uc, dc))
    (p1 : PlainConf Gen.Rcpt.keyFailhard uc) (p2 : PlainConf Gen.Rcpt.keyFailhard dc)
    (p3 : PlainConf Gen.Rcpt.keyNonexist uc) (p4 : PlainConf Gen.Rcpt.keyNonexist dc) :
    let rs := Gen.Rcpt.rcptCbs.map (runCb { user := uc, domain := dc, global := cfg.globalconf } cfg f)
    let fh := (effective [saysOf uc Gen.Rcpt.keyFailhard, saysOf dc Gen.Rcpt.keyFailhard]).isOn
    let ne := (effective [saysOf uc Gen.Rcpt.keyNonexist, saysOf dc Gen.Rcpt.keyNonexist]).isOn
    (outcome cfg f).replies = calledWrote rs ++ finalReply (rcptPolicy (rs.map verdictOf) fh ne) f.rcpt ∧
    (outcome cfg f).accepted = (rcptPolicy (rs.map verdictOf) fh ne == .accept) := by
  intro rs fh ne
  rw [settings_read_from_loaded_config cfg f uc dc h]
  have key : ∀ (k : List Byte) (q1 : PlainConf k uc) (q2 : PlainConf k dc),
      decide ((getsettingInternal { user := uc, domain := dc, global := cfg.globalconf } k false).1 > 0) =
        (effective [saysOf uc k, saysOf dc k]).isOn := by
    intro k q1 q2
    have hi := getsetting_levels { user := uc, domain := dc, global := cfg.globalconf } k false
    simp only [settingLevels, checkconfig_says _ _ q1, checkconfig_says _ _ q2, Bool.false_eq_true, if_false,
      List.append_nil] at hi
    cases he : effective [saysOf uc k, saysOf dc k] with
    | off => rw [he] at hi; simp [Setting.isOn, hi]
    | on v i =>
      rw [he] at hi
      have := effective_on_pos _ 0 v i he
      simp [Setting.isOn, hi, this]
    | malformed i =>
      rw [he] at hi
      have : ¬ (getsettingInternal { user := uc, domain := dc, global := cfg.globalconf } k false).1 > 0 := by omega
      simp [Setting.isOn, this]
  have hs := rcpt_outcome_spec rs
    (getsettingInternal { user := uc, domain := dc, global := cfg.globalconf } Gen.Rcpt.keyFailhard false).1
    (getsettingInternal { user := uc, domain := dc, global := cfg.globalconf } Gen.Rcpt.keyNonexist false).1 f.rcpt
  rw [key _ p1 p2, key _ p3 p4] at hs
  exact hs

/-- a filterconf that cannot be loaded: 421, nothing else -/
theorem unreadable_filterconf (cfg : Cfg) (f : Facts) (h : loadConfigs cfg = none) :
    (outcome cfg f).replies = [.lit Gen.Rcpt.replyControl] ∧ (outcome cfg f).accepted = false := by
  simp [outcome, h]

/-! ### memory safety of the chain -/

/-- **no_crash.**  Whatever the configuration files contain or are (absent, unreadable,
directories), whatever errors the filters run into and whatever the earlier filters left in `*t`:
no filter of the chain dereferences a NULL pointer or reads outside `blocktype[]`, for every sender
that has a dot in it (every sender smtp_from() accepts has one) or is the empty bounce sender. -/
theorem no_crash (cfg : Cfg) (f : Facts) (h : f.mailfrom = [] ∨ (46 : Byte) ∈ f.mailfrom) :
    (outcome cfg f).fault = false := by
  unfold outcome
  split
  · rfl
  · simp only [decide_, finish_fault]
    rw [loop_fault _ (by
      intro r hr
      obtain ⟨cb, _, rfl⟩ := List.mem_map.mp hr
      exact runCb_safe _ _ _ h cb)]

example : ∃ f : Facts, (f.mailfrom = [] ∨ (46 : Byte) ∈ f.mailfrom) ∧ f.mailfrom ≠ [] :=
  ⟨{ mailfrom := [120, 64, 97, 46, 98] }, Or.inr (by decide), by decide⟩

end QsmtpModel.Props.C12
