/-
C10 — every server reply is a valid SMTP reply whatever text is embedded in it.
Property theorems only; helper lemmas live in Lemmas/Writen.lean.
-/
import QsmtpModel.Lemmas.Writen
import QsmtpModel.Gen.Templates

namespace QsmtpModel.Props.C10
open QsmtpModel QsmtpModel.Writen

/-- A valid (possibly folded) SMTP reply for code+separator `s0[0..4)` carrying `text`:
every line is `code sep content CRLF` with `sep = '-'` on all but the last line and the caller's
separator on the last, is at most 512 octets long, and the contents concatenate to `text`. -/
def ValidReply (s0 text : List Byte) (out : List (List Byte)) : Prop :=
  ∃ (cs : List (List Byte)) (clast : List Byte) (c : Byte),
    s0[3]? = some c
    ∧ out = cs.map (frame (s0.take 3) DASH) ++ [frame (s0.take 3) c clast]
    ∧ cs.flatten ++ clast = text
    ∧ ∀ line ∈ out, line.length ≤ 512

/-- **C10 main theorem.** For every first part within the documented contract (`3 < |s0| < 510`)
and arbitrary further parts (any length, blanks anywhere or nowhere), `net_writen` neither reads
nor writes outside its buffers and emits a valid reply that carries the whole text in order. -/
theorem writen_valid (s0 : List Byte) (ss : List (List Byte))
    (h0 : 3 < s0.length) (h1 : s0.length < 510) :
    ∃ out, netWriten s0 ss = .ok out ∧ ValidReply s0 (s0.drop 4 ++ ss.flatten) out := by
  unfold netWriten
  have hA : ¬ (s0.length > msgSize) := by rw [msgSize_eq]; omega
  have hB : ¬ ¬ (3 < s0.length ∧ s0.length < msgSize - 2) := by rw [msgSize_eq]; omega
  rw [if_neg hA, if_neg hB]
  obtain ⟨a, b, d, c, body, rfl⟩ : ∃ a b d c body, s0 = a :: b :: d :: c :: body := by
    match s0, h0 with
    | a :: b :: d :: c :: body, _ => exact ⟨a, b, d, c, body, rfl⟩
  have hlen : 4 + body.length ≤ 510 := by simp at h1; omega
  obtain ⟨cs', clast, hr, hfl, hx, hcl⟩ := parts_ok [a, b, d] rfl c body [] ss hlen
  simp only [List.map_nil, List.nil_append] at hr
  refine ⟨_, hr, cs', clast, c, by simp, by simp, by simpa using hfl, ?_⟩
  intro line hline
  simp only [List.mem_append, List.mem_map, List.mem_singleton] at hline
  rcases hline with ⟨x, hx', rfl⟩ | rfl
  · have := hx x hx'; simp [frame]; omega
  · simp [frame]; omega

/-- No fault, as a corollary in the form the property states it. -/
theorem writen_no_fault (s0 : List Byte) (ss : List (List Byte))
    (h0 : 3 < s0.length) (h1 : s0.length < 510) : ∀ f, netWriten s0 ss ≠ .error f := by
  obtain ⟨out, h, _⟩ := writen_valid s0 ss h0 h1
  intro f; rw [h]; simp

/-- If the embedded text has no CR/LF, then no content of any line has one: no bare CR or LF can
appear in the reply (the only CR/LF are the line terminators added by `frame`). -/
theorem valid_reply_no_bare_crlf (s0 text : List Byte) (out : List (List Byte))
    (hv : ValidReply s0 text out) (hclean : CR ∉ text ∧ LF ∉ text) (hcode : CR ∉ s0 ∧ LF ∉ s0) :
    ∀ line ∈ out, ∃ pre, line = pre ++ [CR, LF] ∧ CR ∉ pre ∧ LF ∉ pre := by
  obtain ⟨cs, clast, c, h3, hout, hfl, _⟩ := hv
  have hc : c ∈ s0 := List.mem_of_getElem? h3
  have htake : ∀ b, b ∈ s0.take 3 → b ∈ s0 := fun b hb => List.mem_of_mem_take hb
  have hsub : ∀ x, (x ∈ cs ∨ x = clast) → ∀ b ∈ x, b ∈ text := by
    intro x hx b hb
    rw [← hfl]
    rcases hx with hx | rfl
    · exact List.mem_append_left _ (List.mem_flatten.mpr ⟨x, hx, hb⟩)
    · exact List.mem_append_right _ hb
  intro line hline
  rw [hout] at hline
  simp only [List.mem_append, List.mem_map, List.mem_singleton] at hline
  have key : ∀ (sep : Byte) (x : List Byte), sep ∈ [DASH, c] → (x ∈ cs ∨ x = clast) →
      CR ∉ (s0.take 3 ++ [sep] ++ x) ∧ LF ∉ (s0.take 3 ++ [sep] ++ x) := by
    intro sep x hsep hx
    have hsepne : sep ≠ CR ∧ sep ≠ LF := by
      simp only [List.mem_cons, List.not_mem_nil, or_false] at hsep
      rcases hsep with rfl | rfl
      · exact ⟨by decide, by decide⟩
      · exact ⟨fun h => hcode.1 (h ▸ hc), fun h => hcode.2 (h ▸ hc)⟩
    constructor
    · intro hm
      simp only [List.mem_append, List.mem_singleton] at hm
      rcases hm with (hm | hm) | hm
      · exact hcode.1 (htake _ hm)
      · exact hsepne.1 hm.symm
      · exact hclean.1 (hsub x hx _ hm)
    · intro hm
      simp only [List.mem_append, List.mem_singleton] at hm
      rcases hm with (hm | hm) | hm
      · exact hcode.2 (htake _ hm)
      · exact hsepne.2 hm.symm
      · exact hclean.2 (hsub x hx _ hm)
  rcases hline with ⟨x, hx, rfl⟩ | rfl
  · exact ⟨_, rfl, key DASH x (by simp) (Or.inl hx)⟩
  · exact ⟨_, rfl, key c clast (by simp) (Or.inr rfl)⟩

/-- `net_write_multiline` sends exactly the concatenation of its parts (when its asserted
precondition — non-empty, ends in CRLF — holds). -/
theorem multiline_is_concat (ss : List (List Byte)) (b : List Byte)
    (h : netWriteMultiline ss = .ok b) : b = ss.flatten := by
  unfold netWriteMultiline at h
  simp only at h
  split at h
  · simp at h
  · split at h
    · simp at h
    · simp at h; exact h.symm

/-- Non-vacuity: a concrete call meeting the hypotheses ("250 " then "ok"), and what the model
returns for it ("250 ok\r\n"). -/
example : 3 < ([50, 53, 48, 32] : List Byte).length ∧ ([50, 53, 48, 32] : List Byte).length < 510 := by
  decide
example : (match netWriten [50, 53, 48, 32] [[111, 107]] with
    | .ok o => o == [[50, 53, 48, 32, 111, 107, 13, 10]]
    | .error _ => false) = true := by decide

end QsmtpModel.Props.C10

namespace QsmtpModel.Props.C10
open QsmtpModel

/-- Provider of the contract `3 < |s0| < 510`: every first part of a reply array found in the
source tree (regenerated list `Gen.writenTemplates`) is inside it. -/
theorem templates_in_contract : ∀ t ∈ Gen.writenTemplates, 3 < t.length ∧ t.length < 510 := by
  decide

/-- **Text that supplies its own code** (filters/nomail.c since the repair ee720fa): the first 10
octets of the text (`XYZ X.Y.Z `) are passed as the first part and the rest as an embedded part.
For every such text — any length, any content — the reply is valid, carries the text's own code on
every line and the whole text behind the code in order.  (Before the repair the whole text was the
first part, which is outside the contract of `writen_valid` from 510 octets on: that was the
overrun.) -/
theorem own_code_text_valid (m : List Byte) (h : 10 < m.length) :
    ∃ out, Writen.netWriten (m.take 10) [m.drop 10] = .ok out ∧ ValidReply (m.take 10) (m.drop 4) out := by
  have hl : (m.take 10).length = 10 := by simp; omega
  obtain ⟨out, h1, h2⟩ := writen_valid (m.take 10) [m.drop 10] (by omega) (by omega)
  refine ⟨out, h1, ?_⟩
  have : (m.take 10).drop 4 ++ [m.drop 10].flatten = m.drop 4 := by
    simp only [List.flatten_cons, List.flatten_nil, List.append_nil]
    have h4 : (m.take 10).drop 4 = (m.drop 4).take 6 := by
      rw [List.drop_take]
    rw [h4]
    have : m.drop 10 = (m.drop 4).drop 6 := by rw [List.drop_drop]
    rw [this, List.take_append_drop]
  rw [this] at h2
  exact h2

example : ∃ out, Writen.netWriten [53, 53, 48, 32, 53, 46, 55, 46, 49, 32] [[120]] = .ok out := ⟨_, rfl⟩

end QsmtpModel.Props.C10
