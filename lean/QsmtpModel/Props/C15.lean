/-
C15 — size, hop-count, recipient-count and bad-command limits are enforced.
Session-level clauses (recipient count, bad commands, SIZE= parameter) are proved here over the
command-loop model; the constants come from the source on every run (`Gen.maxRcpt`,
`Gen.maxBadCmds`).  The data-phase clauses (stored size, Received: count) are theorems about the `Data`
model of `smtp_data()` (Lemmas/DataLimits.lean), restated at the end of this file.
-/
import QsmtpModel.Lemmas.Session
import QsmtpModel.Lemmas.DataLimits

namespace QsmtpModel.Props.C15
open QsmtpModel QsmtpModel.Session

/-- **Recipient limit.** Once `MAXRCPT` recipients are recorded every further RCPT TO (with the
syntax of a RCPT TO) is answered 452 and nothing is recorded for it, whatever the address. -/
theorem rcpt_limit (env : Env) (v : RcptV) (s : Sess) (hv : v ≠ .noBracket) (hfull : s.rcptcount ≥ Gen.maxRcpt) :
    (smtpRcpt env v s).replies = [452] ∧ (smtpRcpt env v s).s = s ∧ (smtpRcpt env v s).handoff = none := by
  unfold smtpRcpt
  cases v with
  | noBracket => exact absurd rfl hv
  | badAddr => simp [hfull]
  | localUser a e m f => simp [hfull]
  | remote a mx m f => simp [hfull]

/-- ... and below the limit the count is never the reason for a refusal: an existing local user
accepted by the filters is answered 250 (for a non-bounce or a first recipient). -/
theorem rcpt_below_limit_accepted (env : Env) (a : List Byte) (s : Sess) (hbelow : s.rcptcount < Gen.maxRcpt)
    (hnb : ¬ (s.rcptcount > 0 ∧ s.mailfrom.isEmpty)) :
    (smtpRcpt env (.localUser a true false .accept) s).replies = [250]
      ∧ (smtpRcpt env (.localUser a true false .accept) s).s.rcptcount = s.rcptcount + 1 := by
  have : ¬ s.rcptcount ≥ Gen.maxRcpt := by omega
  have hnb' : ¬ (0 < s.rcptcount ∧ s.mailfrom = []) := by
    intro ⟨h1, h2⟩; exact hnb ⟨h1, by simp [h2]⟩
  simp [smtpRcpt, this, rcptEarly, rcptAdd, hnb', withRcpt]

/-- the number that is compared is the number of recipients on the list (reachable states) -/
theorem rcptcount_is_list_length (env : Env) (ins : List Input) (hw : ∀ i ∈ ins, i.Wf) :
    (finalState env {} ins).closed = true ∨
      (finalState env {} ins).rcptcount = (finalState env {} ins).rcpts.length := by
  rcases (run_refines env ins hw {} {} (Or.inr inv_init)
      (Or.inr ⟨by simp, by simp [inTx], by simp [okAddrs]⟩)).1 with h | h
  · exact Or.inl h
  · exact Or.inr h.cnt

/-- one invalid command: the counter goes up by one, or — when it already exceeds the tolerated
number — the connection is closed with 550 -/
theorem bad_command_counts (rc : Rc) (s : Sess) (hrc : rc = .einval ∨ rc = .e2big ∨ rc = .badseq ∨ rc = .enoexec ∨ rc = .ebogus) :
    (s.badcmds > Gen.maxBadCmds → (handleError rc s).2.closed = true ∧ (handleError rc s).1 = [550])
    ∧ (¬ s.badcmds > Gen.maxBadCmds → (handleError rc s).2.badcmds = s.badcmds + 1 ∧ (handleError rc s).2.closed = s.closed) := by
  unfold handleError
  constructor
  · intro h; rw [if_pos h]; exact ⟨rfl, rfl⟩
  · intro h; rw [if_neg h]
    rcases hrc with rfl | rfl | rfl | rfl | rfl <;> exact ⟨rfl, rfl⟩

/-- state after `n` lines that are no SMTP command at all (unknown verb or bad line ending) -/
def afterGarbage (env : Env) (s : Sess) : Nat → Sess
  | 0 => s
  | n + 1 => afterGarbage env (step env s (.readErr .einval)).2 n

theorem garbage_step (env : Env) (s : Sess) (hc : s.closed = false) :
    (s.badcmds > Gen.maxBadCmds → (step env s (.readErr .einval)).2.closed = true)
    ∧ (¬ s.badcmds > Gen.maxBadCmds → (step env s (.readErr .einval)).2.badcmds = s.badcmds + 1
        ∧ (step env s (.readErr .einval)).2.closed = false) := by
  have h := bad_command_counts .einval s (Or.inl rfl)
  unfold step errOut
  simp only [hc, Bool.false_eq_true, if_false]
  exact ⟨fun hb => (h.1 hb).1, fun hb => ⟨(h.2 hb).1, by rw [(h.2 hb).2, hc]⟩⟩

/-- **Bad command limit.** `MAXBADCMDS + 2` consecutive invalid commands close the connection, from
any state (in particular from a fresh counter); fewer do not when the counter was fresh. -/
theorem bad_commands_disconnect (env : Env) (s : Sess) (hc : s.closed = false) :
    (afterGarbage env s (Gen.maxBadCmds + 2 - s.badcmds)).closed = true ∨ s.badcmds > Gen.maxBadCmds + 1 := by
  have hmax : Gen.maxBadCmds = 5 := rfl
  have key : ∀ (k : Nat) (s : Sess), s.closed = false → s.badcmds + (k + 1) = Gen.maxBadCmds + 2 →
      (afterGarbage env s (k + 1)).closed = true := by
    intro k
    induction k with
    | zero =>
      intro s hc hk
      have hg := garbage_step env s hc
      simp only [afterGarbage]
      exact hg.1 (by omega)
    | succ n ih =>
      intro s hc hk
      have hg := garbage_step env s hc
      obtain ⟨h1, h2⟩ := hg.2 (by omega)
      show (afterGarbage env (step env s (.readErr .einval)).2 (n + 1)).closed = true
      exact ih _ h2 (by rw [h1]; omega)
  by_cases hbig : s.badcmds > Gen.maxBadCmds + 1
  · exact Or.inr hbig
  · left
    have : Gen.maxBadCmds + 2 - s.badcmds = (Gen.maxBadCmds + 1 - s.badcmds) + 1 := by omega
    rw [this]
    exact key _ s hc (by omega)

/-- a good command resets the counter -/
theorem good_command_resets (st : Int) (i : Nat) (r : FuncRes) (h : r.rc = .ok) :
    (finishStep st i r).2.badcmds = 0 := by
  unfold finishStep; rw [if_pos h]

/-- **SIZE parameter.** With a size limit configured, a MAIL FROM whose SIZE exceeds it is refused
(452) before any data is sent and opens no transaction. -/
theorem size_param (env : Env) (a : List Byte) (size ll vl : Nat) (p : Bool) (s : Sess)
    (hdb : env.databytes ≠ 0) (hbig : env.databytes < size) (hp : ¬ (p = true ∧ s.esmtp = false)) (hl : ¬ ll > vl) :
    (smtpFromInner env (.ok a size p ll vl) s).replies = [452] ∧ (smtpFromInner env (.ok a size p ll vl) s).rc = .edone
      ∧ (smtpFromInner env (.ok a size p ll vl) s).s = s := by
  have hp' : (p && !s.esmtp) = false := by
    cases p <;> cases hs : s.esmtp <;> simp_all
  simp [smtpFromInner, hp', hl, hdb, hbig]

/-- ... and a SIZE within the limit is not refused for size. -/
theorem size_param_ok (env : Env) (a : List Byte) (size ll vl : Nat) (s : Sess)
    (hok : env.databytes = 0 ∨ size ≤ env.databytes) (hl : ¬ ll > vl) :
    (smtpFromInner env (.ok a size false ll vl) s).replies = [250] := by
  have : ¬ (env.databytes ≠ 0 ∧ env.databytes < size) := by omega
  simp [smtpFromInner, hl, this]

/-- the constants the theorems above speak about, as found in the source on this run -/
theorem limits_as_in_source : Gen.maxRcpt = 500 ∧ Gen.maxBadCmds = 5 ∧ Gen.maxHops = 100 := ⟨rfl, rfl, rfl⟩

example : (afterGarbage {} {} 7).closed = true := by decide
example : (afterGarbage {} {} 6).closed = false := by decide

/-! ### Data phase: stored size and `Received:` count (model `Data.smtpData` of qsmtpd/data.c)

`txSize ls` is the stored size of the message lines `ls` (every line without its transparency dot,
plus CRLF); `receivedCount (hdrBlock ls)` the number of `Received:` fields in front of the first
empty line.  The first four theorems hold for **every** configuration (submission mode, RfC 2822
header checks on or off), every reader stream and every behaviour of the queue side. -/
section data
open QsmtpModel.Data QsmtpModel.Data.Limits QsmtpModel.Queue
open QsmtpModel.Netio (Rd)

/-- **Size limit, as given (first half).**  A message is acknowledged only if its stored size is
within `control/databytes`. -/
theorem size_limit_no_handoff (c : Cfg) (rds : List Rd) (tr : List Sys)
    (h : (smtpData c rds tr).accepted = true) :
    ∃ (ls : List (List Byte)) (rest : List Rd), rds = ls.map Rd.line ++ Rd.line [DOT] :: rest ∧
      (∀ l ∈ ls, l ≠ [DOT]) ∧ txSize ls ≤ c.maxbytes :=
  Limits.size_limit_no_handoff c rds tr h

/-- the same as a refusal: a message over the limit is never acknowledged -/
theorem oversize_not_accepted (c : Cfg) (ls : List (List Byte)) (rest : List Rd) (tr : List Sys)
    (hls : ∀ l ∈ ls, l ≠ [DOT]) (hsz : txSize ls > c.maxbytes) :
    (smtpData c (ls.map Rd.line ++ Rd.line [DOT] :: rest) tr).accepted = false :=
  Limits.oversize_not_accepted c ls rest tr hls hsz

/-- **Hop limit, as given (first half).**  A message is acknowledged only if its header block has at
most `Gen.maxHops` (100) `Received:` fields — whatever else the header contains and in whatever
order, in every mode. -/
theorem hop_limit_no_handoff (c : Cfg) (rds : List Rd) (tr : List Sys)
    (h : (smtpData c rds tr).accepted = true) :
    ∃ (ls : List (List Byte)) (rest : List Rd), rds = ls.map Rd.line ++ Rd.line [DOT] :: rest ∧
      (∀ l ∈ ls, l ≠ [DOT]) ∧ receivedCount (hdrBlock ls) ≤ Gen.maxHops :=
  Limits.hop_limit_no_handoff c rds tr h

theorem overhops_not_accepted (c : Cfg) (ls : List (List Byte)) (rest : List Rd) (tr : List Sys)
    (hls : ∀ l ∈ ls, l ≠ [DOT]) (hh : receivedCount (hdrBlock ls) > Gen.maxHops) :
    (smtpData c (ls.map Rd.line ++ Rd.line [DOT] :: rest) tr).accepted = false :=
  Limits.overhops_not_accepted c ls rest tr hls hh

/-- `Received:` lines behind the first empty line do not count -/
theorem received_in_body_not_counted (hdr body : List (List Byte)) (h : ∀ w ∈ hdr, w ≠ []) :
    receivedCount (hdrBlock (hdr ++ [] :: body)) = receivedCount hdr :=
  Limits.receivedCount_hdrBlock_append_body hdr body h

/-- **The replies** on a plain run (`Plain`: no submission mode, no RfC 2822 checks, the queue side
works): over the size limit → 552, nothing handed over, the rest of the message consumed. -/
theorem size_over_refused_552 {c : Cfg} {rds : List Rd} {tr : List Sys} {ls : List (List Byte)} {rest : List Rd}
    {q2 : QSt} (P : Plain c rds tr ls rest q2)
    (hsz : txSize ls > c.maxbytes) (hh : receivedCount (hdrBlock ls) ≤ Gen.maxHops) :
    (smtpData c rds tr).accepted = false ∧ (smtpData c rds tr).rc = .emsgsize ∧
      (smtpData c rds tr).replies = [354] ∧ (smtpData c rds tr).rest = rest ∧
      (smtpData c rds tr).died = false ∧ finalReply (smtpData c rds tr) = some 552 :=
  Limits.size_over_refused_552 P hsz hh

/-- within the limit → never refused for size -/
theorem size_within_not_refused_for_size {c : Cfg} {rds : List Rd} {tr : List Sys} {ls : List (List Byte)}
    {rest : List Rd} {q2 : QSt} (P : Plain c rds tr ls rest q2) (hsz : txSize ls ≤ c.maxbytes) :
    (smtpData c rds tr).rc ≠ .emsgsize :=
  Limits.size_within_not_refused_for_size P hsz

/-- more than 100 `Received:` fields → 554 as looping -/
theorem hops_over_refused_554 {c : Cfg} {rds : List Rd} {tr : List Sys} {ls : List (List Byte)} {rest : List Rd}
    {q2 : QSt} (P : Plain c rds tr ls rest q2)
    (hh : receivedCount (hdrBlock ls) > Gen.maxHops) (hsz : txSize ls ≤ c.maxbytes) :
    (smtpData c rds tr).replies = [354, Gen.Data.loopNetmsgCode] ∧ (smtpData c rds tr).rc = .edone ∧
      (smtpData c rds tr).accepted = false ∧ (smtpData c rds tr).rest = rest ∧
      (smtpData c rds tr).died = false ∧ finalReply (smtpData c rds tr) = some 554 :=
  Limits.hops_over_refused_554 P hh hsz

/-- within both limits → the message is handed to qmail-queue and the reply is qmail-queue's -/
theorem within_limits_queued {c : Cfg} {rds : List Rd} {tr : List Sys} {ls : List (List Byte)} {rest : List Rd}
    {q2 : QSt} (P : Plain c rds tr ls rest q2)
    (hsz : txSize ls ≤ c.maxbytes) (hh : receivedCount (hdrBlock ls) ≤ Gen.maxHops) :
    ∃ w, firstWait q2.trace = some w ∧ (smtpData c rds tr).replies = [354, resultCode w] ∧
      (smtpData c rds tr).rc = (if resultCode w = 250 then .ok else .edone) ∧
      (smtpData c rds tr).accepted = decide (resultCode w = 250) ∧ (smtpData c rds tr).rest = rest ∧
      (smtpData c rds tr).died = false :=
  Limits.within_limits_queued P hsz hh

/-- ... so a 554 within the limits is qmail-queue's own permanent error, not the loop refusal -/
theorem hops_within_not_looping {c : Cfg} {rds : List Rd} {tr : List Sys} {ls : List (List Byte)} {rest : List Rd}
    {q2 : QSt} (P : Plain c rds tr ls rest q2)
    (hsz : txSize ls ≤ c.maxbytes) (hh : receivedCount (hdrBlock ls) ≤ Gen.maxHops)
    (h554 : (smtpData c rds tr).replies = [354, Gen.Data.loopNetmsgCode]) :
    ∃ n, firstWait q2.trace = some (.exited n) ∧ Gen.queuePermLo ≤ n ∧ n ≤ Gen.queuePermHi :=
  Limits.hops_within_not_looping P hsz hh h554

/-- non-vacuity: the hypotheses `Plain` are satisfiable, and the boundary cases evaluate as stated
(the 101st `Received:` is refused, the 100th is not) -/
example := @Limits.plain_example
example := @Limits.hundred_and_first_received_554
example := @Limits.hundred_received_accepted

end data

/-- **Known finding `c15-dot-stuffed-received`, machine-checked on the model.**  The loop detection
does not see a line that carries a transparency dot: for every `n` there is a header of `n` lines
each of which is *stored* as a `Received:` field (the dot removed) and none of which counts as a hop.
Together with `within_limits_queued` (a run within the counted limits is queued) this is why the
clause "a message with more than 100 Received fields is refused" holds for the fields the server
counts, not for the fields the stored message has. -/
theorem hop_limit_blind_to_stuffed_dot (n : Nat) :
    let ls := List.replicate n (DOT :: (QsmtpModel.Data.receivedName ++ [32, 120]))
    QsmtpModel.Data.Limits.receivedCount (QsmtpModel.Data.Limits.hdrBlock ls) = 0 ∧
      (((QsmtpModel.Data.Limits.hdrBlock ls).map QsmtpModel.Data.unDotLine).filter (Session.prefixNoCase QsmtpModel.Data.receivedName)).length = n := by
  intro ls
  have hl : (DOT :: (QsmtpModel.Data.receivedName ++ [32, 120]) : List Byte).isEmpty = false := rfl
  have hb : QsmtpModel.Data.Limits.hdrBlock ls = ls := by
    unfold QsmtpModel.Data.Limits.hdrBlock
    simp only [ls]
    induction n with
    | zero => rfl
    | succ n ih => simp [List.replicate_succ, ih]
  have h1 : QsmtpModel.Data.Limits.countsAsHop (DOT :: (QsmtpModel.Data.receivedName ++ [32, 120])) = false := by decide
  have h2 : Session.prefixNoCase QsmtpModel.Data.receivedName (QsmtpModel.Data.unDotLine (DOT :: (QsmtpModel.Data.receivedName ++ [32, 120]))) = true := by decide
  rw [hb]
  constructor
  · unfold QsmtpModel.Data.Limits.receivedCount
    simp only [ls, List.filter_replicate, h1]; simp
  · simp only [ls, List.map_replicate, List.filter_replicate, h2]; simp

end QsmtpModel.Props.C15
