/-
C07 — Qremote delivers the queued message content unchanged.
Property theorems only; helper lemmas live in Lemmas/QrPlain.lean, Lemmas/SmtpSpec.lean.
-/
import QsmtpModel.Lemmas.QrPlain
import QsmtpModel.Lemmas.SmtpSpec
import QsmtpModel.Lemmas.QrQpRun
import QsmtpModel.Lemmas.QrQpLines

namespace QsmtpModel.Props.C07
open QsmtpModel QsmtpModel.Mime QsmtpModel.QrData QsmtpModel.Spec

/-- send_data() takes the plain path: nothing has to be recoded -/
def PlainChosen (cfg : Cfg) (m : List Byte) : Prop :=
  ((!cfg.ext8 && (needRecode m).e8) || (needRecode m).ll || (needRecode m).lh) = false

/-! ### the property at full strength (stated; proved in part, see below) -/

/-- **qp_line_rules** (as given, proved in full — Lemmas/QrQpLines.lean): the two quoted-printable
line rules a decoder cannot undo hold for everything recode_qp() sends, for every body and whatever
the 1280 byte staging buffer does: each line, as the receiver sees it, has at most 76 characters and
does not end in a blank (a soft line break is made as soon as a line has more than 72 characters, a
blank in front of a line end is always written `=20`/`=09`, and a blank in front of a soft line break
is followed by `=` or by the next literal byte). -/
theorem qp_line_rules_full :
    ∀ (b : List Byte) (st : St), recodeQp b {} = .ok st → ∀ l ∈ splitCrlf [] (unDot st.out), QpLineOk l :=
  QrData.recodeQp_lines

/-- **roundtrip_single** (stage B): for a non-multipart message whatever send_data() sends decodes
(Spec.checkRoundtrip: un-dot, remove the inserted Content-Transfer-Encoding / X-MIME-Autoconverted
fields, put back the original Content-Transfer-Encoding field, quoted-printable decode the body,
remove the inserted header folds) to the normalised message. -/
def roundtrip_single_full : Prop :=
  ∀ (cfg : Cfg) (m : List Byte) (st : St), sendData cfg m = .ok st →
    (checkRoundtrip (Gen.recodedPre ++ cfg.ver ++ Gen.recodedPost ++ cfg.helo ++ [CR, LF]) m st.out).startsWith "holds"

/-- **roundtrip_multipart** (stage B): the same per part for well-formed multipart messages. Not yet
formalised beyond the model itself (the reference decoder does not descend into parts). -/
def roundtrip_multipart_full : Prop := roundtrip_single_full

theorem termAfterLf_eq : Gen.termAfterLf = [DOT, CR, LF] := rfl
theorem termNoLf_eq : Gen.termNoLf = [CR, LF, DOT, CR, LF] := rfl

/-- **Plain identity, function level.** For every input — any bytes, any mixture of line endings,
any length — send_plain() neither faults nor hangs, and what it hands to the network is exactly
the dot-stuffed, CRLF-normalised input: the 1205 byte staging buffer and its flush points leave no
trace. Un-dotting gives the normalised input byte for byte. -/
theorem plain_identity (m : List Byte) (st0 : St) :
    ∃ st, sendPlain m st0 = .ok st ∧ st.out = st0.out ++ dotStuff (normalizeEol m)
      ∧ unDot (dotStuff (normalizeEol m)) = normalizeEol m := by
  obtain ⟨st, e1, e2, _, _⟩ := sendPlain_eq_dotStuff m st0
  exact ⟨st, e1, e2, unDot_dotStuff _⟩

/-- **Plain identity, send_data() level.** When no recoding is necessary the data sent after the
354 reply is the dot-stuffed normalisation of the message (final CRLF added if missing) followed
by the terminator line, byte for byte. -/
theorem plain_identity_data (cfg : Cfg) (m : List Byte) (h : PlainChosen cfg m) :
    ∃ st, sendData cfg m = .ok st ∧ st.out = dotStuff (normalizeFinal m) ++ [DOT, CR, LF]
      ∧ unDot (dotStuff (normalizeFinal m)) = normalizeFinal m := by
  unfold PlainChosen at h
  unfold sendData
  simp only [h, Bool.false_eq_true, if_false]
  obtain ⟨st, e1, e2, e3, e4⟩ := sendPlain_eq_dotStuff m {}
  rw [e1]
  refine ⟨_, rfl, ?_, unDot_dotStuff _⟩
  rw [dotStuff_normalizeFinal]
  by_cases hm : m = []
  · have := e3 hm
    subst this
    subst hm
    simp [St.write, termAfterLf_eq, normalizeEol, dotStuff, dotStuffAux]
  · have hl := e4 hm
    simp only [St.write, e2, hl, hm, false_or]
    have : endsLf (([] : List Byte) ++ dotStuff (normalizeEol m)) = endsLf (normalizeEol m) := by
      simp [endsLf_dotStuff]
    simp only [show ({} : St).out = [] from rfl] at *
    rw [this]
    by_cases he : endsLf (normalizeEol m) = true
    · simp [he, termAfterLf_eq]
    · simp [he, termNoLf_eq]

/-- **QP body law** (stage A). For every body `b` — any bytes, any line endings, lines of any
length, trailing blanks, dots, `=` — recode_qp() completes, and what it sends, un-dotted and
quoted-printable decoded by the reference decoder, is `b` with CR, LF and CRLF normalised to CRLF,
byte for byte; the 1280 byte staging buffer and its flush points leave no trace in the decoded
text (they may only decide whether a blank before a soft line break is written `=20` or ` `). -/
theorem qp_body_roundtrip (b : List Byte) :
    ∃ st, recodeQp b {} = .ok st ∧ qpDecode (unDot st.out) = some (normalizeEol b) :=
  recodeQp_roundtrip b

/-- **Proved part of the round trip**: on the plain path un-dotting what was sent before the
terminator line gives the normalised message (final CRLF added if missing), byte for byte.
Missing: the composition of the quoted-printable body law with header rewriting and folding
(`roundtrip_single_full`), multipart — modelled, compared with the implementation and checked by the
reference decoder on the implementation's output on every run, not yet proved. -/
theorem roundtrip_partial (cfg : Cfg) (m : List Byte) (h : PlainChosen cfg m) :
    ∃ st data, sendData cfg m = .ok st ∧ st.out = data ++ [DOT, CR, LF] ∧ unDot data = normalizeFinal m := by
  obtain ⟨st, e1, e2, e3⟩ := plain_identity_data cfg m h
  exact ⟨st, _, e1, e2, e3⟩

/-- Non-vacuity of `PlainChosen`: the one byte message "a" takes the plain path whatever the server
announced (and `plain_identity` has no hypothesis at all). -/
example (cfg : Cfg) : PlainChosen cfg [97] := by
  have nr : needRecode [97] = {} := by
    unfold needRecode
    rw [needRecodeGo]
    simp
    split
    · simp_all
    · rename_i c h
      simp at h; subst h
      simp [sbyte, CR, LF]
      rw [needRecodeGo]; simp
  unfold PlainChosen; rw [nr]; simp

end QsmtpModel.Props.C07
