/-
C08 — transactions are isolated and commands are accepted only in order.
Property theorems only; the case analysis lives in Lemmas/Session.lean.
All statements are about `Session.step`, whose dispatch runs over the table `Gen.commands`
extracted from qsmtpd/qsmtpd.c on every run (lemma `commands_get` re-checks every row).
-/
import QsmtpModel.Lemmas.Session

namespace QsmtpModel.Props.C08
open QsmtpModel QsmtpModel.Session QsmtpModel.Spec

/-- **Main theorem (observable level).** For every environment and every finite sequence of inputs
(lines with arbitrary verdicts of parsing / files / DNS / back ends / queue, read errors), the
sequence of things an observer sees — which verbs were accepted, which refused, every queue
hand-off — is allowed by the transaction specification `Spec.txStep`:
MAIL is accepted only after an accepted HELO/EHLO and with no transaction open, RCPT only inside a
transaction, DATA is started only with at least one accepted recipient, every hand-off carries
exactly the sender of the most recent accepted MAIL and exactly the recipients accepted after it,
in order; RSET, HELO, EHLO, STARTTLS, a completed DATA and a failed DATA all end the transaction;
a hand-off with empty sender has at most one recipient. -/
theorem handoff_reflects_transaction (env : Env) (ins : List Input) (hw : ∀ i ∈ ins, i.Wf) :
    txAllowed (eventsTrace env {} ins) = true := by
  obtain ⟨_, t', ht', _⟩ := run_refines env ins hw {} {} (Or.inr inv_init)
    (Or.inr ⟨by simp, by simp [inTx], by simp [okAddrs]⟩)
  simp only [txAllowed, Bool.not_eq_true', List.isEmpty_eq_false_iff]
  exact List.ne_nil_of_mem ht'

/-- Every reachable state satisfies the invariant (or the connection is closed): the state is one
of greeting/HELO/EHLO/MAIL/RCPT, outside a transaction there is no sender and no recipient, the
counters agree with the list, and with an empty sender only the first recipient can be marked ok. -/
theorem reachable_inv (env : Env) (ins : List Input) (hw : ∀ i ∈ ins, i.Wf) :
    (finalState env {} ins).closed = true ∨ Inv (finalState env {} ins) :=
  (run_refines env ins hw {} {} (Or.inr inv_init) (Or.inr ⟨by simp, by simp [inTx], by simp [okAddrs]⟩)).1

/-- **Order enforced, nothing changed.** A command whose table row is not enabled in the current
state is answered 503 (or, after too many bad commands, the connection is closed with 550) and
changes nothing of the transaction: state, sender, recipients and counters stay as they were. -/
theorem order_enforced (env : Env) (s : Sess) (l : List Byte) (v : Verdicts) (i : Nat) (row : Gen.Row)
    (hcl : s.closed = false) (hrow : findRow l Gen.commands 0 = some (i, row))
    (hmask : s.comstate &&& row.mask = 0) :
    ((step env s (.line l v)).2.closed = true ∧ (step env s (.line l v)).1.replies = [550])
    ∨ ((step env s (.line l v)).1.replies = [503] ∧ (step env s (.line l v)).1.handoff = none
       ∧ SameTx s (step env s (.line l v)).2) := by
  have hstep : step env s (.line l v) = errOut .badseq s := by
    unfold step
    simp [hcl, hrow, hmask]
  rw [hstep]
  unfold errOut handleError
  split
  · left; exact ⟨rfl, rfl⟩
  · right; exact ⟨by simp [errReply], rfl, rfl, rfl, rfl, rfl, rfl⟩

/-- The masks of the extracted table say what "in order" means: MAIL needs the state right after
HELO/EHLO, RCPT needs an accepted MAIL (or RCPT), DATA an accepted RCPT command. -/
theorem table_order :
    (∀ r ∈ Gen.commands, r.func = .mail → r.mask = 0x18)
    ∧ (∀ r ∈ Gen.commands, r.func = .rcpt → r.mask = 0x60)
    ∧ (∀ r ∈ Gen.commands, r.func = .data → r.mask = 0x40)
    ∧ (∀ r ∈ Gen.commands, r.func = .starttls ∨ r.func = .auth → r.mask = 0x10) := by
  decide

/-- DATA without a valid recipient is refused with 554 and changes nothing. -/
theorem data_needs_recipient (v : DataV) (s : Sess) (h : s.goodrcpt = 0) :
    (smtpData v s).replies = [554] ∧ (smtpData v s).rc = .edone ∧ (smtpData v s).s = s
      ∧ (smtpData v s).handoff = none := by
  simp [smtpData, h]

/-- A bounce is never handed to the queue for more than one recipient. -/
theorem bounce_single_rcpt (env : Env) (ins : List Input) (hw : ∀ i ∈ ins, i.Wf) :
    (finalState env {} ins).closed = true ∨
      ((finalState env {} ins).mailfrom = [] → (okAddrs (finalState env {} ins)).length ≤ 1) := by
  rcases reachable_inv env ins hw with h | h
  · exact Or.inl h
  · exact Or.inr (bounce_le_one _ h)

/-- Non-vacuity: a concrete history (EHLO, MAIL, RCPT, EHLO, MAIL, RCPT, DATA) in which the first
transaction is abandoned; the hand-off of the model carries only the second one. -/
example :
    let ehlo : Input := .line [69, 72, 76, 79, 32, 120] { helo := .ok }
    let mail (a : Byte) : Input := .line [77, 65, 73, 76, 32, 70, 82, 79, 77, 58, 60, a, 62]
      { mail := .ok [a] 0 false 13 510 }
    let rcpt (a : Byte) : Input := .line [82, 67, 80, 84, 32, 84, 79, 58, 60, a, 62]
      { rcpt := .localUser [a] true false .accept }
    let data : Input := .line [68, 65, 84, 65] { data := .accepted }
    ((run {} {} [ehlo, mail 97, rcpt 98, ehlo, mail 99, rcpt 100, data]).1.map (·.handoff)).getLast?
      = some (some { sender := [99], rcpts := [[100]] }) := by decide

end QsmtpModel.Props.C08
