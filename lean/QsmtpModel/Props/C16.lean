/-
C16 — control files and IP/domain lists mean what the administrator wrote.
Property theorems only; helper lemmas live in Lemmas/Control.lean, Lemmas/Finddomain.lean and
Lemmas/Match.lean.  (`finddomain_spec`, `ipbl_spec`, `matchnet*_spec` are also what C01 imports.)
-/
import QsmtpModel.Lemmas.Control
import QsmtpModel.Lemmas.Finddomain
import QsmtpModel.Lemmas.Match

namespace QsmtpModel.Props.C16
open QsmtpModel QsmtpModel.Control QsmtpModel.Match

/-- The numbers the models take from the source tree are the ones the proofs below were written
for (re-checked against the regenerated `Gen/Control.lean` on every run). -/
theorem gen_constants :
    Gen.loadintStriptab = 3 ∧ Gen.loadintBase = 10 ∧ Gen.onelinerStriptab = 1 ∧ Gen.loadlistStriptab = 3
    ∧ Gen.lloadBlankBit = 2 ∧ Gen.lloadCompactBit = 1 ∧ Gen.matchWordBits = 32 ∧ Gen.matchWordBits6 = 32
    ∧ Gen.ip4WordIndex = 3 ∧ Gen.ipblMinMask = 8 ∧ Gen.ipblBitsPerByte = 8 ∧ Gen.ipblRecordExtra = 1
    ∧ Gen.ipblIplen4 = 4 ∧ Gen.ipblIplen6 = 16 := by
  decide

/-! ### text lists -/

/-- what loadlistfd must answer for a file meaning `m` when `keep` selects the valid entries
(defined in Lemmas/Control.lean):
`listAnswer keep none = .err .einval`,
`listAnswer keep (some es) = if es.filter keep = [] then .null else .ok (es.filter keep)` -/
abbrev listAnswer := @Lemmas.listAnswer

/-- **List files.** For every file content and every validity callback, loadlistfd yields exactly
the valid ones among the non-empty, non-comment lines with trailing blanks removed, in file order
(`NULL` if there are none), reports `EINVAL` exactly when a blank is followed by something other
than blanks up to the end of its line, and never reads or writes outside its buffers. -/
theorem loadlist_cf_spec (cf : List Byte → Bool) (c : List Byte) :
    loadlist (some cf) c = .ok (listAnswer (fun e => !cf e) (Spec.listLines c)) := by
  simpa using Lemmas.loadlist_eq (some cf) c

/-- the same without a callback -/
theorem loadlist_spec (c : List Byte) :
    loadlist none c = .ok (listAnswer (fun _ => true) (Spec.listLines c)) := by
  simpa using Lemmas.loadlist_eq none c

/-- On plain files (no NUL, `#` only in column 0, blanks only at line ends) the loader's reading
`Spec.listLines` is literally the statement's: the non-empty, non-comment lines with trailing
blanks removed (`Spec.entries`, the same function `finddomain_spec` uses). -/
theorem listLines_plain (c : List Byte) (h : Spec.plainFile c = true) :
    Spec.listLines c = some (Spec.entries c) :=
  Lemmas.listLines_plain c h

/-! ### numeric files -/

/-- `intAnswer d .invalid = .err .einval`, `intAnswer d .absent = .ok d`, `intAnswer d (.value n) = .ok n`
(defined in Lemmas/Control.lean) -/
abbrev intAnswer := @Lemmas.intAnswer

/-- **Numeric files.** loadintfd returns `n` exactly when the file, comments and empty lines
aside, is one line of decimal digits denoting `n < 2^64`; the default exactly when there is no
entry at all; and `EINVAL` for everything else (second line, sign, white space inside, overflow,
text). -/
theorem loadint_spec (dflt : Nat) (c : List Byte) :
    loadint dflt c = .ok (intAnswer dflt (Spec.intMeaning c)) :=
  Lemmas.loadint_eq dflt c

/-! ### rcpthosts-style lists -/

/-- **Domain lists.** For every buffer and every host name (non-empty C string without leading
dot — what `domainvalid()` guarantees), finddomain answers 1 exactly when the name equals an entry
ignoring ASCII case or ends with an entry that starts with a dot; it never reads outside `buf`. -/
theorem finddomain_spec (buf d : List Byte) (hne : d ≠ []) (hdot : d.head? ≠ some DOT) (hnul : (0 : Byte) ∉ d) :
    finddomain buf d = .ok (Spec.domainListed buf d) :=
  Lemmas.finddomain_eq buf d hne hdot hnul

/-- in the form of DESIGN §6: `b = true ↔ ∃ e ∈ Spec.entries buf, Spec.matchesEntry e d` -/
theorem finddomain_iff (buf d : List Byte) (hne : d ≠ []) (hdot : d.head? ≠ some DOT) (hnul : (0 : Byte) ∉ d)
    (b : Bool) (h : finddomain buf d = .ok b) :
    b = true ↔ ∃ e ∈ Spec.entries buf, Spec.matchesEntry e d = true := by
  rw [finddomain_spec buf d hne hdot hnul] at h
  injection h with h
  subst h
  simp [Spec.domainListed, List.any_eq_true]

/-- the excluded point: a name with a leading dot is never reported as listed through a dot-entry
of the same length (the code requires `dl > len`), and memory safety does not depend on the guard -/
theorem finddomain_no_fault (buf d : List Byte) : ∃ b, finddomain buf d = .ok b :=
  Lemmas.finddomain_total buf d

/-- the guard `d` without leading dot is needed: for the name ".c" and the entry ".c" the statement
says "equal, hence listed", the code says no (a dot-entry must be strictly shorter than the name).
`domainvalid()` never lets such a name through. -/
theorem finddomain_guard_needed :
    ∃ buf d, finddomain buf d = .ok false ∧ Spec.domainListed buf d = true :=
  ⟨[46, 99, 10], [46, 99], rfl, by decide⟩

/-- **No label confusion.** An entry without leading dot matches only names equal to it ignoring
ASCII case (`evil-example.org` is not `example.org`). -/
theorem no_label_confusion (e d : List Byte) (he : e.head? ≠ some DOT)
    (h : Spec.matchesEntry e d = true) : d.map lower = e.map lower := by
  unfold Spec.matchesEntry at h
  simp only [Bool.or_eq_true, Bool.and_eq_true, beq_iff_eq, Spec.eqNoCase] at h
  rcases h with h | ⟨⟨h1, _⟩, _⟩
  · exact h
  · exact absurd h1 he

/-- **matchdomain** (the matcher used for in-memory lists): for all C strings, a name matches an
expression exactly when it equals it ignoring ASCII case or the expression starts with a dot and
the name ends with it. -/
theorem matchdomain_spec (d e : List Byte) : matchdomain d e = Spec.matchesEntry e d :=
  Lemmas.matchdomain_eq d e

/-! ### networks -/

/-- **ip4_matchnet** compares exactly the top `m` bits (`m ≤ 32`) of the IPv4 part of the
(IPv4-mapped) client address with the network. -/
theorem matchnet4_spec (ip net : List Byte) (m : Nat) (hip : ip.length = 16) (hnet : net.length = 4) (hm : m ≤ 32) :
    ip4Matchnet ip net m = .ok (Spec.inNet (ip.drop 12) net m) :=
  Lemmas.ip4Matchnet_eq ip net m hip hnet hm

/-- **ip6_matchnet** compares exactly the top `m` bits (`m ≤ 128`). -/
theorem matchnet6_spec (ip net : List Byte) (m : Nat) (hip : ip.length = 16) (hnet : net.length = 16) (hm : m ≤ 128) :
    ip6Matchnet ip net m = .ok (Spec.inNet ip net m) :=
  Lemmas.ip6Matchnet_eq ip net m hip hnet hm

/-- the obvious bijection `Spec.Verdict → Match.Lookup` (defined in Lemmas/Match.lean) -/
abbrev verdictOf := @Lemmas.verdictOf

/-- **Binary IP lists.** check_ip4/check_ip6 answer *malformed* when the size is not a multiple of
the record size; otherwise they go through the records in order: a prefix length outside
8 .. 8·iplen met before any match is *malformed*, the first well-formed record whose network
contains the client address is *match*, the end of the list is *no match*.  No read outside the
buffer, and the matchers are only ever called inside their contract. -/
theorem ipbl_spec (v4 : Bool) (ip buf : List Byte) (hip : ip.length = 16) :
    checkIpblFile v4 ip buf = .ok (verdictOf (Spec.ipblMeaning v4 ip buf)) :=
  Lemmas.checkIpblFile_eq v4 ip buf hip

/-- lookupipbl(): an empty file is *no match*, everything else is the verdict above -/
theorem lookupipbl_spec (v4 : Bool) (ip buf : List Byte) (hip : ip.length = 16) :
    lookupipbl v4 ip buf = .ok (verdictOf (Spec.ipblMeaning v4 ip buf)) :=
  Lemmas.lookupipbl_eq v4 ip buf hip

theorem ipbl_no_fault (v4 : Bool) (ip buf : List Byte) (hip : ip.length = 16) :
    ∀ f, checkIpblFile v4 ip buf ≠ .error f := by
  intro f; rw [ipbl_spec v4 ip buf hip]; simp

/-- On a list that is valid throughout (size a multiple of the record size, every prefix length in
range) the answer is *match* exactly when the address lies in one of the listed networks, and never
*malformed*. -/
theorem ipbl_valid_list (v4 : Bool) (ip buf : List Byte) (rs : List (List Byte))
    (hrec : Spec.records ((if v4 then 4 else 16) + 1) buf buf.length = some rs)
    (hok : ∀ r ∈ rs, Spec.recordOk (if v4 then 4 else 16) r = true) :
    Spec.ipblMeaning v4 ip buf ≠ .malformed ∧
    (Spec.ipblMeaning v4 ip buf = .matched ↔
      ∃ r ∈ rs, Spec.inNet (Spec.clientAddr v4 ip) (r.take (if v4 then 4 else 16)) (r.getD (if v4 then 4 else 16) 0).toNat = true) :=
  Lemmas.ipbl_valid v4 ip buf rs hrec hok

/-- Strict reading of "a list whose size or prefix lengths are invalid is reported as an error":
the answer is the one of `Spec.ipblStrict` (any invalid record anywhere makes the whole list an
error).  The code validates lazily, so this does **not** hold: -/
def ipbl_strict_full : Prop :=
  ∀ (v4 : Bool) (ip buf : List Byte), ip.length = 16 →
    checkIpblFile v4 ip buf = .ok (verdictOf (Spec.ipblStrict v4 ip buf))

/-- witness: client 10.0.0.1, list `10.0.0.0/8` followed by a record with prefix length 200 -/
theorem ipbl_strict_counterexample : ¬ ipbl_strict_full := by
  intro h
  have h1 := h true [0,0,0,0,0,0,0,0,0,0,255,255,10,0,0,1] [10,0,0,0,8, 1,2,3,4,200] (by decide)
  rw [ipbl_spec true _ _ (by decide)] at h1
  injection h1 with h1
  revert h1
  decide

/-- what does hold of the strict reading: an invalid list is never read as *no match* — the answer
is *malformed* unless a well-formed record in front of the first invalid one contains the address;
and on valid lists the two readings coincide. -/
theorem ipbl_strict_partial (v4 : Bool) (ip buf : List Byte) :
    (Spec.ipblStrict v4 ip buf = .malformed → Spec.ipblMeaning v4 ip buf ≠ .nomatch) ∧
    (Spec.ipblStrict v4 ip buf ≠ .malformed → Spec.ipblMeaning v4 ip buf = Spec.ipblStrict v4 ip buf) :=
  Lemmas.ipbl_strict_rel v4 ip buf

/-! ### memory safety of the loaders -/

/-- **No crash, no access outside the file buffer**, for every content and every mode. -/
theorem loader_no_fault (c : List Byte) :
    (∀ st f, lload st c ≠ .error f) ∧ (∀ f, loadoneliner c ≠ .error f)
    ∧ (∀ d f, loadint d c ≠ .error f) ∧ (∀ cf f, loadlist cf c ≠ .error f) := by
  refine ⟨Lemmas.lload_no_fault c, Lemmas.loadoneliner_no_fault c, ?_, ?_⟩
  · intro d f; rw [loadint_spec]; simp
  · intro cf f; rw [Lemmas.loadlist_eq]; simp

/-! ### configurations: missing, unreadable and locked files -/

/-- A **missing** file is the default / the empty list / "not listed" — never an error (the
one-line loader reports `ENOENT`, its callers decide). -/
theorem missing_file_is_default (dflt : Nat) (cf : Option (List Byte → Bool)) (d : List Byte) (st : Nat) :
    lloadFile st .absent = .ok .empty ∧ loadintFile dflt .absent = .ok (.ok dflt)
    ∧ loadlistFile cf .absent = .ok .null ∧ loadonelinerFile .absent = .ok (.err .enoent)
    ∧ finddomainfdFile .absent d = .ok (.found false) :=
  ⟨rfl, rfl, rfl, rfl, rfl⟩

/-- **Fail closed.** An unreadable file (any `open()` error but `ENOENT`) and a file whose lock is
held by a writer are reported as errors by every loader: never the default, never an empty list,
never "not listed", never "match". (What C01's `relay_fail_closed` builds on.) -/
theorem unreadable_or_locked_is_error (fs : FileState) (h : fs = .unreadable ∨ fs = .locked)
    (dflt st : Nat) (cf : Option (List Byte → Bool)) (d ip : List Byte) (v4 : Bool) :
    (∃ e, lloadFile st fs = .ok (.err e)) ∧ (∃ e, loadintFile dflt fs = .ok (.err e))
    ∧ (∃ e, loadlistFile cf fs = .ok (.err e)) ∧ (∃ e, loadonelinerFile fs = .ok (.err e))
    ∧ (∃ e, finddomainfdFile fs d = .ok (.err e)) ∧ lookupipblFile v4 ip fs = .ok .lockError := by
  rcases h with rfl | rfl
  · exact ⟨⟨_, rfl⟩, ⟨_, rfl⟩, ⟨_, rfl⟩, ⟨_, rfl⟩, ⟨_, rfl⟩, rfl⟩
  · exact ⟨⟨_, rfl⟩, ⟨_, rfl⟩, ⟨_, rfl⟩, ⟨_, rfl⟩, ⟨_, rfl⟩, rfl⟩

/-- on a readable file the file-state functions are the content functions of the theorems above -/
theorem content_is_content (c d ip : List Byte) (dflt st : Nat) (cf : Option (List Byte → Bool)) (v4 : Bool) :
    lloadFile st (.content c) = lload st c ∧ loadintFile dflt (.content c) = loadint dflt c
    ∧ loadlistFile cf (.content c) = loadlist cf c ∧ loadonelinerFile (.content c) = loadoneliner c
    ∧ finddomainfdFile (.content c) d = finddomainfd c d
    ∧ lookupipblFile v4 ip (.content c) = (lookupipbl v4 ip c).map .verdict :=
  ⟨rfl, rfl, rfl, rfl, rfl, rfl⟩

/-! ### non-vacuity -/

-- "a.b\n#c\nx y\n": the third line has a blank followed by text
example : Spec.listLines [97, 46, 98, 10, 35, 99, 10, 120, 32, 121, 10] = none := by decide
-- "a.b \n#c\n\n.d" : two entries
example : Spec.listLines [97, 46, 98, 32, 10, 35, 99, 10, 10, 46, 100] = some [[97, 46, 98], [46, 100]] := by decide
example : Spec.plainFile [97, 46, 98, 32, 10, 35, 99, 10, 10, 46, 100] = true := by decide
-- "12\n34" is not a number, "12 \n#c\n" is 12
example : Spec.intMeaning [49, 50, 10, 51, 52] = .invalid := by decide
example : Spec.intMeaning [49, 50, 32, 10, 35, 99, 10] = .value 12 := by decide
-- finddomain: ".B\n" lists "a.b"
example : (match finddomain [46, 66, 10] [97, 46, 98] with | .ok b => b | .error _ => false) = true := by decide
example : ([97, 46, 98] : List Byte) ≠ [] ∧ ([97, 46, 98] : List Byte).head? ≠ some DOT ∧ (0 : Byte) ∉ ([97, 46, 98] : List Byte) := by decide
-- a valid two-record IPv4 list containing the client
example : Spec.ipblMeaning true [0,0,0,0,0,0,0,0,0,0,255,255,10,0,0,1] [192,168,0,0,16, 10,0,0,0,8] = .matched := by decide

end QsmtpModel.Props.C16
