/-
C02 — queue hand-off fidelity: message and envelope reach qmail-queue unaltered.
Property theorems only; helper lemmas are in Lemmas/DataFidelity.lean and Lemmas/Trace.lean.

All theorems are about `Data.smtpData c rds tr`: the model of qsmtpd/data.c:smtp_data (with
write_received, spfreceived, queue.c) for *every* session configuration `c`, *every* result stream
`rds` of the line reader (`Netio.Rd`, one entry per net_read() call, so any byte stream under any
segmentation) and *every* syscall oracle trace `tr`.  `accepted` = queue_result() wrote 250.
`q.msg` / `q.env` = the bytes the two pipes accepted = what qmail-queue reads on fd 0 / fd 1.
-/
import QsmtpModel.Lemmas.DataFidelity
import QsmtpModel.Lemmas.Trace

namespace QsmtpModel.Props.C02
open QsmtpModel QsmtpModel.Data QsmtpModel.Queue
open QsmtpModel.Netio (Rd)

/-- **The acknowledged message is consumed exactly.** The reader results taken by an acknowledged
DATA are successfully read lines up to and including the first line that is a single dot; whatever
follows is left to the command loop. -/
theorem accepted_consumes_exactly_the_message (c : Cfg) (rds : List Rd) (tr : List Sys)
    (h : (smtpData c rds tr).accepted = true) :
    ∃ (ls : List (List Byte)) (rest : List Rd),
      rds = ls.map Rd.line ++ Rd.line [DOT] :: rest ∧ (∀ l ∈ ls, l ≠ [DOT])
      ∧ (smtpData c rds tr).rest = rest :=
  Data.accepted_consumes c rds tr h

/-- **data_fidelity** (port 25). If the reply is 250 then qmail-queue received as message exactly
the trace header followed by the client's lines in order, each with its leading dot (if any)
removed and LF appended — for header-only, body-only and empty messages alike. -/
theorem data_fidelity (c : Cfg) (rds : List Rd) (tr : List Sys)
    (hsub : c.submission = false) (h : (smtpData c rds tr).accepted = true) :
    ∃ ls rest, rds = ls.map Rd.line ++ Rd.line [DOT] :: rest ∧ (∀ l ∈ ls, l ≠ [DOT])
      ∧ (smtpData c rds tr).q.msg = traceHeader c ++ Spec.queuedLines ls :=
  Data.fidelity_plain c rds tr hsub h

/-- **data_fidelity** (port 587). In submission mode the only further bytes are the fields
`submissionFields` (Date / From / Message-Id, each only when its flag is not set), placed at the end
of the header block `hdr` (the lines in front of the first empty line). -/
theorem data_fidelity_submission (c : Cfg) (rds : List Rd) (tr : List Sys)
    (hsub : c.submission = true) (h : (smtpData c rds tr).accepted = true) :
    ∃ hdr body rest, rds = (hdr ++ body).map Rd.line ++ Rd.line [DOT] :: rest
      ∧ (∀ l ∈ hdr ++ body, l ≠ [DOT]) ∧ (∀ l ∈ hdr, l ≠ []) ∧ (body = [] ∨ body.head? = some [])
      ∧ (smtpData c rds tr).q.msg
          = traceHeader c ++ Spec.queuedLines hdr ++ submissionFields c (hdrFlags hdr) ++ Spec.queuedLines body :=
  Data.fidelity_submission c rds tr hsub h

/-- a field is added only when no header line (that does not start with a dot) begins with its name -/
theorem submission_adds_only_absent (hdr : List (List Byte)) (j : Nat) (p : List Byte)
    (hp : Gen.Data.hdrPatterns[j]? = some p) (hclean : ∀ l ∈ hdr, has8bit l = false) :
    (hdrFlags hdr).testBit j = true ↔ ∃ l ∈ hdr, l.head? ≠ some DOT ∧ Session.prefixNoCase p l = true :=
  Data.hdrFlags_testBit hdr j p hp hclean

/-! ### the submission clause as given, and where the code departs from it -/

/-- **As given:** on port 587 the only additions are Date / From / Message-Id fields appended to the
header block *when the client omitted them* — "omitted" judged on the message the client means,
i.e. on the lines with their transparency dot removed (`Spec.submissionAdds` / `Spec.fieldPresent`). -/
def submission_only_absent_full : Prop :=
  ∀ (c : Cfg) (rds : List Rd) (tr : List Sys), c.submission = true → (smtpData c rds tr).accepted = true →
    ∃ (ls : List (List Byte)) (rest : List Rd),
      rds = ls.map Rd.line ++ Rd.line [DOT] :: rest ∧ (∀ l ∈ ls, l ≠ [DOT])
      ∧ (smtpData c rds tr).q.msg = traceHeader c ++
          Spec.expectedPayload true (Spec.submissionAdds c.date c.mailfrom c.msgidTime c.msgidhost ls) ls

/-- witness: the header line `.Date:x` (a dot-stuffed `Date:x`, which RFC 5321 4.5.2 allows a client
to send) followed by the end of data -/
def dotStuffedCfg : Cfg :=
  { heloname := [109], version := [81], remoteip := [49], relayclient := 1, maxbytes := 1000, submission := true,
    rcpts := [{ addr := [120], ok := true }], goodrcpt := 1, date := [100], msgidhost := [109], msgidTime := [49] }
def dotStuffedRds : List Rd := [.line [46, 68, 97, 116, 101, 58, 120], .line [46]]
def dotStuffedTrace : List Sys :=
  [.pipe true, .pipe true, .fork true, .close true .none, .close true .none, .probe 0,
   .write 61 .none, .write 7 .none, .write 35 .none, .close true .none,
   .write 1 .none, .write 1 .none, .write 1 .none, .write 2 .none, .write 1 .none, .close true .none, .wait (.exited 0)]

/-- **The code violates the clause as given** (known finding `c02-dot-stuffed-header-name`, confirmed
on the real server): smtp_data() does not look at header lines that start with a dot, so a
dot-stuffed `Date:` / `From:` / `Message-Id:` line is not seen and a second field is added. What
*is* proved is `data_fidelity_submission` + `submission_adds_only_absent`: the additions depend on
the header lines that do not start with a dot. -/
theorem submission_only_absent_counterexample : ¬ submission_only_absent_full := by
  intro h
  obtain ⟨ls, rest, h1, _, h2⟩ := h dotStuffedCfg dotStuffedRds dotStuffedTrace rfl (by decide +kernel)
  match ls, h1 with
  | [], h1 => simp [dotStuffedRds, DOT] at h1
  | [a], h1 =>
    simp only [dotStuffedRds, List.map_cons, List.map_nil, List.cons_append, List.nil_append, List.cons.injEq,
      Rd.line.injEq] at h1
    obtain ⟨rfl, _, _⟩ := h1
    revert h2
    decide +kernel
  | a :: b :: t, h1 => simp [dotStuffedRds] at h1

/-- **Proved part of the clause:** for messages none of whose header lines starts with a dot the
two notions of "present" coincide line by line. -/
theorem submission_only_absent_partial (l p : List Byte) (h : l.head? ≠ some DOT) :
    Session.prefixNoCase p l = Spec.hasPrefixNoCase p (Spec.dataLineContent l) := by
  have : Spec.dataLineContent l = l := by
    unfold Spec.dataLineContent
    split
    · rename_i rest; exact absurd rfl h
    · rfl
  rw [this]; rfl

/-- **envelope_exact.** `F sender NUL`, one `T recipient NUL` per recipient with `ok` set in list
order (an address literal rewritten to `localiphost`), and a final NUL; nothing else. -/
theorem envelope_exact (c : Cfg) (rds : List Rd) (tr : List Sys)
    (h : (smtpData c rds tr).accepted = true) :
    (smtpData c rds tr).q.env
      = Spec.expectedEnvelope c.liphost c.mailfrom ((c.rcpts.filter (·.ok)).map (·.addr)) :=
  Data.envelope_exact c rds tr h

/-- **trace_valid_header_block.** When no session string contains CR, LF or NUL the trace header is
exactly one `Received: ` field, preceded by at most one `Received-SPF: ` field, and every other
line is a continuation line (starts with TAB) — `Spec.validTrace`, the predicate the check
evaluates on the implementation's hand-offs. -/
theorem trace_valid_header_block (c : Cfg) (hc : Data.CleanCfg c) :
    Spec.validTrace (traceHeader c) = true :=
  Data.traceHeader_valid c hc

/-- **trace_no_client_linebreak.** Under the same hypothesis the only line breaks of the trace
header are the template's: every LF is the last byte, or is followed by TAB (a fold of the
template), or is followed by the `Received: ` field name. -/
theorem trace_no_client_linebreak (c : Cfg) (hc : Data.CleanCfg c) :
    CR ∉ traceHeader c ∧ ∀ pre post, traceHeader c = pre ++ LF :: post →
      post = [] ∨ post.head? = some TAB ∨ post.take Spec.traceRcvd.length = Spec.traceRcvd :=
  Data.traceHeader_breaks c hc

/-- The hypothesis on the AUTH user name is necessary: data.c copies `authname` raw. -/
theorem authname_is_copied_raw :
    Spec.validTrace (traceHeader { heloname := [109], version := [81], remoteip := [49], authname := [97, 13, 10, 88, 58, 32, 121],
                                   rcpts := [{ addr := [120], ok := true }], goodrcpt := 1 }) = false := by
  decide

/-- **templates_shape.** The tie to the source text: in every literal of write_received() and
spfreceived() (regenerated from the working tree) an LF is followed by TAB or ends the literal,
and there is no CR or NUL. -/
theorem templates_shape : Data.TemplatesOk := Data.templates_ok

/-- Non-vacuity of `CleanCfg`. -/
example : Data.CleanCfg { heloname := [109], version := [81], remoteip := [49], rcpts := [{ addr := [120], ok := true }], goodrcpt := 1 } :=
  Data.cleanCfg_example

end QsmtpModel.Props.C02
