/-
C19 — BDAT chunks are framed exactly and chunk boundaries never alter the message.
Property theorems only; helper lemmas live in Lemmas/Bdat.lean and Lemmas/BdatRx.lean.

Sender  (`Bdat.sendBdat`  = qremote/qrbdat.c:send_bdat):   bdat_sender_framing, bdat_sender_no_fault,
  bdat_terminates, bdat_no_progress_below_minimum, bdat_minimum_is_16.
Receiver (`Bdat.smtpBdat` = qsmtpd/data.c:smtp_bdat, `Bdat.netReadbin` = lib/netio.c:net_readbin):
  bdat_readbin_exact, bdat_buffer_fidelity, bdat_receiver_fidelity, bdat_failure_sticky,
  bdat_failed_no_handoff.

The model is that of the code *with the two proposed fixes* (proposed_fixes/C19-*.diff): the sender
bound comes from the source (`Gen.bdatLfPeekSlack`, proofs need 0), the receiver's flush of a
pending CR behind an empty LAST chunk is part of `Bdat.afterLoop`.
-/
import QsmtpModel.Lemmas.BdatRx

namespace QsmtpModel.Props.C19
open QsmtpModel QsmtpModel.Bdat QsmtpModel.Spec.Bdat

/-! ## Sender -/

/-- **Framing.** For every non-empty message, every chunk size that fits a header
(`chunksize > lenlen + 1`) and a server that answers every chunk with 250: `send_bdat` does not
touch memory outside its buffers, ends regularly, and what it handed to the network layer is — one
`netnwrite` per chunk — the frame sequence `BDAT n CRLF payload` of some payloads `pays` with
* the announced `n` exactly the payload length (by construction of `framesOf`/`hdrBytes`),
* LAST on the final frame and only there (`framesOf`),
* every payload within `chunksize − reserved`, every frame within `chunksize`,
* one reply awaited after every frame but the last,
* the concatenated payloads equal to the message with every bare LF completed to CRLF, where a bare
  CR may in addition have been completed to CRLF (`normOk`). -/
theorem bdat_sender_framing (cs : Nat) (m : List Byte) (oracle : List Nat)
    (hfit : fitsHeader cs) (hm : m ≠ []) (hor : ∀ c ∈ oracle, c = Gen.bdatOkCode) :
    ∃ pays out, sendBdat cs m oracle = .ok out ∧ out.fin = .done ∧ out.frames = framesOf pays ∧
      pays ≠ [] ∧ out.nreply + 1 = pays.length ∧
      (∀ p ∈ pays, p.length + lenlenOf cs ≤ cs) ∧ (∀ f ∈ out.frames, f.length ≤ cs) ∧
      normOk false m pays.flatten = true := by
  have hlen : 0 < m.length := List.length_pos_iff.mpr hm
  obtain ⟨pays, out, h1, h2, h3, h4, h5, h6, h7⟩ := sendLoop_spec m cs hfit 0 hlen
    (List.replicate (lenlenOf cs) 0) (by simp) oracle hor {}
  refine ⟨pays, out, h1, h2, by simpa using h3, h5, by simpa using h4, ?_, ?_, by simpa using h7⟩
  · intro p hp; have := h6 p hp; omega
  · intro f hf
    rw [h3] at hf
    simp only [List.nil_append] at hf
    obtain ⟨p, hp, last, rfl⟩ := framesOf_mem pays f hf
    have := h6 p hp
    have := hdrBytes_len_le cs p.length last this
    simp only [List.length_append]; omega

/-- The frames of `bdat_sender_framing` are exactly what the independent frame parser of the executable
predicate (`Spec.Bdat.parseFrame`: literal `BDAT `, canonical decimal, optional ` LAST`, CRLF) reads
back: announced length = payload length, LAST on the final frame only, payloads as stated. -/
theorem bdat_sender_frames_parse (pays : List (List Byte)) (h : pays ≠ []) :
    ∃ fs, (framesOf pays).mapM parseFrame = some fs ∧ fs.map (·.pay) = pays ∧
      (∀ f ∈ fs, f.n = f.pay.length) ∧ lastFlagsOk fs = true :=
  parseFrames_framesOf pays h

/-- For a message in which every CR is followed by LF (every valid message) the payload is *the*
normalisation: each LF that does not follow a CR gets one, nothing else changes. -/
theorem bdat_sender_payload_exact (cs : Nat) (m : List Byte) (oracle : List Nat)
    (hfit : fitsHeader cs) (hm : m ≠ []) (hor : ∀ c ∈ oracle, c = Gen.bdatOkCode) (hcr : NoBareCR m) :
    ∃ pays out, sendBdat cs m oracle = .ok out ∧ out.frames = framesOf pays ∧
      pays.flatten = normalizeLf false m := by
  obtain ⟨pays, out, h1, _, h3, _, _, _, _, h8⟩ := bdat_sender_framing cs m oracle hfit hm hor
  exact ⟨pays, out, h1, h3, normOk_unique false m _ hcr h8⟩

/-- The executable predicate that the check evaluates on the *implementation's* output accepts the
model's output: the predicate is no weaker a notion than the theorem. -/
theorem bdat_predicate_accepts_model (cs : Nat) (m : List Byte) (oracle : List Nat)
    (hfit : fitsHeader cs) (hm : m ≠ []) (hor : ∀ c ∈ oracle, c = Gen.bdatOkCode) :
    ∃ out, sendBdat cs m oracle = .ok out ∧ checkTx cs m "done" out.nreply out.frames = "holds" := by
  obtain ⟨pays, out, h1, _, h3, h4, h5, h6, h7, h8⟩ := bdat_sender_framing cs m oracle hfit hm hor
  obtain ⟨fs, p1, p2, p3, p4⟩ := parseFrames_framesOf pays h4
  refine ⟨out, h1, ?_⟩
  have hlen : fs.length = pays.length := by rw [← p2]; simp
  have a1 : fs.all (fun f => decide (f.n = f.pay.length)) = true := by
    rw [List.all_eq_true]; intro f hf; simpa using p3 f hf
  have a2 : fs.all (fun f => decide (f.pay.length + lenlenOf cs ≤ cs)) = true := by
    rw [List.all_eq_true]; intro f hf
    have : f.pay ∈ pays := by rw [← p2]; exact List.mem_map_of_mem hf
    simpa using h6 _ this
  have a3 : out.frames.all (fun f => decide (f.length ≤ cs)) = true := by
    rw [List.all_eq_true]; intro f hf; simpa using h7 f hf
  unfold checkTx
  rw [if_neg (by simp [hfit, hm]), if_neg (by simp), h3, p1]
  simp only [a1, not_true_eq_false, if_false]
  rw [← h3, if_neg (by simp [a2, a3])]
  simp only [if_true, p4, not_true_eq_false, if_false]
  rw [if_neg (by omega), p2, if_neg (by simp [h8])]

/-- **No fault**, for every message (also the empty one) and every behaviour of the server. -/
theorem bdat_terminates (cs : Nat) (m : List Byte) (oracle : List Nat) (hfit : fitsHeader cs) :
    ∃ out, sendBdat cs m oracle = .ok out ∧ out.fin ≠ .loops :=
  sendLoop_terminates m cs hfit 0 (List.replicate (lenlenOf cs) 0) (by simp) oracle {}

theorem bdat_sender_no_fault (cs : Nat) (m : List Byte) (oracle : List Nat) (hfit : fitsHeader cs) :
    ∀ f, sendBdat cs m oracle ≠ .error f := by
  obtain ⟨out, h, _⟩ := bdat_terminates cs m oracle hfit
  intro f; rw [h]; simp

/-- The precondition "chunk size fits a header" is exactly `chunksize ≥ 16` … -/
theorem bdat_minimum_is_16 (cs : Nat) : fitsHeader cs ↔ 16 ≤ cs := fitsHeader_iff_16 cs

/-- … and it is needed: a chunk size that holds the reserved header but not two bytes more (14 and 15;
`control/chunksizeremote` accepts them) makes the outer loop send the same empty `BDAT 0` for ever
as long as the server answers 250. (Sizes below 14 overflow the heap buffer while writing the header;
0 wraps `chunksize - 1`. Both are shown on the implementation by the check, not here.) -/
theorem bdat_no_progress_below_minimum (cs : Nat) (h1 : lenlenOf cs ≤ cs) (h2 : ¬ fitsHeader cs)
    (m : List Byte) (hm : m ≠ []) (oracle : List Nat) (hor : ∀ c ∈ oracle, c = Gen.bdatOkCode) :
    ∃ out, sendBdat cs m oracle = .ok out ∧ out.fin = .loops ∧ out.frames = [hdrBytes 0 false] :=
  no_progress cs h1 h2 m hm oracle hor

/-! ## Receiver -/

/-- **The binary reader honours already-buffered bytes**: whatever part of the data already sits in
the look-ahead buffer and however `read()` cuts the rest, `net_readbin(num)` returns exactly the
next `num` bytes and leaves exactly the rest. -/
theorem bdat_readbin_exact (num : Nat) (r : Rd) (hr : r.rerr = none) (hnum : num ≤ (r.inn ++ r.rest).length) :
    ∃ r', netReadbin num r = (.got ((r.inn ++ r.rest).take num), r') ∧
      r'.inn ++ r'.rest = (r.inn ++ r.rest).drop num ∧ r'.rerr = none :=
  netReadbin_spec num r hr hnum

/-- **The in-buffer rewrite** (memchr walk with the sentinel byte) writes, for every buffer content,
blocks whose concatenation plus the unwritten tail is `crlfToLf` of the buffer — and never reads
behind the sentinel. -/
theorem bdat_buffer_fidelity (d : List Byte) :
    ∃ ws p r, rewrite d (d.length + 1) 0 d.length (some 0) [] = .ok (ws, p, r) ∧
      ws.flatten ++ d.drop p = crlfToLf d :=
  rewrite_buffer d

/-- **Receiver fidelity.** On a working queue, for every sequence of BDAT commands of one transfer
(any number of chunks of any sizes, empty ones included, the last one — and only it — with LAST),
for every state of the look-ahead buffer and every segmentation of the network at each command, for
every receive buffer size ≥ 2: exactly one message is handed to qmail-queue, it is `crlfToLf` of the
concatenated chunk data (a CR at a buffer or chunk end and its LF in the next buffer or chunk are one
CRLF; a CR at the very end is kept), and the size passed on is the number of octets received. -/
theorem bdat_receiver_fidelity (e : Env) (he : GoodEnv e) (st : Rx) (cmds : List Cmd) (fin : Cmd)
    (hst : st.comstate ≠ Gen.bdatState) (hrcpt : st.goodrcpt ≠ 0)
    (hok : ∀ c ∈ cmds, c.ok ∧ c.last = false) (hfin : fin.ok ∧ fin.last = true)
    (hsize : (dataOf (cmds ++ [fin])).length ≤ e.maxbytes) :
    handoffs (runCmds e st (cmds ++ [fin])).log =
      handoffs st.log ++ [((dataOf (cmds ++ [fin])).length, crlfToLf (dataOf (cmds ++ [fin])))] := by
  have hd : dataOf (cmds ++ [fin]) = dataOf cmds ++ fin.data := by simp [dataOf]
  rw [hd] at hsize ⊢
  rw [List.length_append] at hsize
  obtain ⟨r1, r2, r3⟩ := run_more e he cmds [] st (Or.inr ⟨hst, hrcpt, rfl⟩) hrcpt hok (by simp; omega)
  have hrun : ∀ (l : List Cmd) (s : Rx), runCmds e s (l ++ [fin]) =
      (smtpBdat e fin.line { runCmds e s l with rd := fin.rd }).2 := by
    intro l
    induction l with
    | nil => intro s; rfl
    | cons c cs ih => intro s; simp only [List.cons_append, runCmds]; exact ih _
  obtain ⟨⟨h1, h2, h3, h4⟩, hl⟩ := hfin
  rw [hl] at h1
  simp only [List.nil_append] at r1
  obtain ⟨st', hs, hh, _⟩ := smtpBdat_last e he fin.line fin.data (dataOf cmds) { runCmds e st cmds with rd := fin.rd } h1
    (ready_rd _ _ fin.rd r1) r2 h2 h3 h4 (by omega)
  rw [hrun, hs, hh]
  show handoffs (runCmds e st cmds).log ++ _ = _
  rw [r3]

/-! ### several transactions on one connection -/

/-- **A new transaction starts clean.** Take *any* state of the receiver behind EHLO — in the middle of a
BDAT transfer with a CR held back (`lastcr`), with an error recorded (`bdaterr`), with any `msgsize`,
any bytes in the queue buffer, the queue pipe open or closed. After RSET (which ends whatever transfer
was open), MAIL FROM: and RCPT TO:, the next BDAT transfer hands off `crlfToLf` of *its own* chunks
with *its own* octet count, and nothing else is handed off: `lastcr`, `bdaterr`, `msgsize` and
`comstate = 0x0800` do not carry over. -/
theorem bdat_new_transaction_clean (e : Env) (he : GoodEnv e) (st : Rx) (hst : Gen.rsetHeloState ≤ st.comstate)
    (cmds : List Cmd) (fin : Cmd)
    (hok : ∀ c ∈ cmds, c.ok ∧ c.last = false) (hfin : fin.ok ∧ fin.last = true)
    (hsize : (dataOf (cmds ++ [fin])).length ≤ e.maxbytes) :
    handoffs (runCmds e (rcptRow (mailRow (smtpRset st))) (cmds ++ [fin])).log =
      handoffs st.log ++ [((dataOf (cmds ++ [fin])).length, crlfToLf (dataOf (cmds ++ [fin])))] := by
  obtain ⟨_, h2, h3⟩ := smtpRset_spec st
  obtain ⟨m1, m2, m3⟩ := mail_rcpt_spec (smtpRset st) (h3 hst).1
  rw [bdat_receiver_fidelity e he _ cmds fin m1 m2 hok hfin hsize, m3, h2]

/-- The same behind a transfer that was completed (the command loop then moves to the state behind
EHLO) or in any other state with that `comstate`: again whatever the other fields hold. -/
theorem bdat_next_transaction_clean (e : Env) (he : GoodEnv e) (s : Rx) (hc : s.comstate = Gen.rsetHeloState <<< 1)
    (cmds : List Cmd) (fin : Cmd)
    (hok : ∀ c ∈ cmds, c.ok ∧ c.last = false) (hfin : fin.ok ∧ fin.last = true)
    (hsize : (dataOf (cmds ++ [fin])).length ≤ e.maxbytes) :
    handoffs (runCmds e (rcptRow (mailRow s)) (cmds ++ [fin])).log =
      handoffs s.log ++ [((dataOf (cmds ++ [fin])).length, crlfToLf (dataOf (cmds ++ [fin])))] := by
  obtain ⟨m1, m2, m3⟩ := mail_rcpt_spec s hc
  rw [bdat_receiver_fidelity e he _ cmds fin m1 m2 hok hfin hsize, m3]

/-- RSET ends an open transfer in every state and hands nothing off. -/
theorem bdat_rset_ends_transfer (st : Rx) :
    (smtpRset st).comstate ≠ Gen.bdatState ∧ handoffs (smtpRset st).log = handoffs st.log :=
  ⟨(smtpRset_spec st).1, (smtpRset_spec st).2.1⟩

/-- non-vacuity: a state in the middle of a transfer, CR pending, error recorded -/
example : Gen.rsetHeloState ≤ ({ comstate := Gen.bdatState, lastcr := true, bdaterr := 5, msgsize := 77, qfd := true, qbuf := [97] } : Rx).comstate := by decide

/-! ### a failure in one chunk fails the whole transaction -/

/-- **Stickiness, part 1.** Whenever `smtp_bdat` gets past the argument check and returns an error
(queue could not be opened, Received: line or chunk data could not be written, read error, message
too big, envelope or qmail-queue failed — for every environment, reader state and line), the
recipients of the transaction are gone … -/
theorem bdat_failure_sticky (e : Env) (line : List Byte) (st : Rx) (r : Int) (st' : Rx)
    (h : smtpBdat e line st = (.ret r, st')) (hr : r ≠ 0) (hargs : parseArgs line ≠ .bad) :
    st'.goodrcpt = 0 := by
  unfold smtpBdat at h
  split at h
  · rename_i h0
    simp only [Prod.mk.injEq] at h
    rw [← h.2]; exact h0
  · split at h
    · rename_i hb; exact absurd hb hargs
    · split at h
      · simp at h
      · simp at h
      · have := errWrite_rcpt ‹Nat› ‹Rx›
        rw [h] at this; exact this
      · exact afterLoop_fail e line _ _ r st' h hr

/-- **Stickiness, part 2.** … and without recipients every further BDAT command, LAST or not,
whatever it announces, is answered 554 and hands nothing to the queue (it does not even read the
chunk). Only a new transaction (RSET / MAIL FROM, outside `smtp_bdat`) sets `goodrcpt` again. -/
theorem bdat_failed_no_handoff (e : Env) (line : List Byte) (st : Rx) (h : st.goodrcpt = 0) :
    smtpBdat e line st = (.ret EDONE, st.ev (.reply Gen.bdatReplyNoRcpt)) ∧
      (smtpBdat e line st).2.goodrcpt = 0 ∧ handoffs (smtpBdat e line st).2.log = handoffs st.log := by
  have : smtpBdat e line st = (.ret EDONE, st.ev (.reply Gen.bdatReplyNoRcpt)) := by
    unfold smtpBdat; rw [if_pos h]
  rw [this]
  exact ⟨rfl, h, by simp [Rx.ev, handoffs_append, handoffs]⟩

/-- A BDAT command with a syntax error in its arguments is refused (EINVAL → 500) without any effect
on the transaction: it is not a chunk. -/
theorem bdat_syntax_error_inert (e : Env) (line : List Byte) (st : Rx) (h : parseArgs line = .bad)
    (hr : st.goodrcpt ≠ 0) : smtpBdat e line st = (.ret EINVAL, st) := by
  unfold smtpBdat; rw [if_neg hr, h]

/-- The stronger reading "*every* BDAT command answered with an error fails the transaction"
(RFC 3030 section 3: a sender must stop after any 4xx/5xx to BDAT) does not hold: a syntax error is
answered 500 and the transfer stays open, so a later well-formed `BDAT … LAST` still queues what was
received before. Kept as a statement with its machine-checked counterexample; the check does not
count it as a violation (the property speaks of a failure *in a chunk*). -/
def bdat_any_error_sticky_full : Prop :=
  ∀ (e : Env) (line : List Byte) (st : Rx) (r : Int) (st' : Rx),
    smtpBdat e line st = (.ret r, st') → r ≠ 0 → st'.goodrcpt = 0

theorem bdat_any_error_sticky_counterexample : ¬ bdat_any_error_sticky_full := by
  intro h
  have hp : parseArgs [66, 68, 65, 84, 32, 120] = .bad := by decide
  have := h { bufsz := 1024, maxbytes := 1000 } [66, 68, 65, 84, 32, 120] {} EINVAL {}
    (bdat_syntax_error_inert _ _ _ hp (by decide)) (by decide)
  exact absurd this (by decide)

/-! ## Non-vacuity -/

/-- the hypotheses of the sender theorems are satisfiable: chunk size 20, message `aaaa\r\n` -/
example : ∃ pays out, sendBdat 20 [97, 97, 97, 97, 13, 10] [] = .ok out ∧ out.fin = .done ∧
    out.frames = framesOf pays ∧ pays ≠ [] ∧ out.nreply + 1 = pays.length ∧
    (∀ p ∈ pays, p.length + lenlenOf 20 ≤ 20) ∧ (∀ f ∈ out.frames, f.length ≤ 20) ∧
    normOk false [97, 97, 97, 97, 13, 10] pays.flatten = true :=
  bdat_sender_framing 20 _ [] ((bdat_minimum_is_16 20).mpr (by omega)) (by simp) (by simp)

example : lenlenOf 14 ≤ 14 ∧ ¬ fitsHeader 14 :=
  ⟨by rw [lenlenOf_eq, digits_two 14 (by omega) (by omega)]; omega, fun h => by have := (bdat_minimum_is_16 14).mp h; omega⟩

/-- a command satisfying `Cmd.ok`: `BDAT 2` with `a CR` half in the look-ahead buffer, half on the network -/
example : Cmd.ok { line := [66, 68, 65, 84, 32, 50], rd := { inn := [97], rest := [13, 66] }, data := [97, 13], last := false } := by
  refine ⟨by decide, rfl, by decide, by decide⟩

example : Cmd.ok { line := [66, 68, 65, 84, 32, 48, 32, 76, 65, 83, 84], rd := {}, data := [], last := true } := by
  refine ⟨by decide, rfl, by decide, by decide⟩

example : GoodEnv { bufsz := 1024, maxbytes := 1000000 } := ⟨by decide, rfl, rfl, rfl, rfl, rfl⟩

end QsmtpModel.Props.C19
