/-
C04 — Qremote's delivery reports are well-formed and never claim false success.
Property theorems only; the model is `QsmtpModel.QrProto`, helper lemmas live in
`Lemmas/QrProto.lean`.

All theorems quantify over every server script (any sequence of lines, malformed or over-long
lines, `read()` errors, time-outs, disconnects), every number of mail exchangers that accept a
connection, every outcome of the `tls_init()` oracle and every argument vector.

Reading the statements: `run a script conns tls` is `main()`; `.exit s` is `exit(0)` (the model has
no other exit, every one goes through `net_conn_shutdown()`); `s.status` are the bytes on fd 1,
`s.sent` the payloads written to the socket.  `s.log` is a ghost: for every `checkreply()` call the
value `netget()` returned for the *first line* of the reply it consumed, tagged with the command
the reply belongs to.  `rcptLog s` are the entries of the RCPT TO replies in order, so "the letter
of the i-th report is the class of the reply to the i-th RCPT TO" reads
`letters = (rcptLog s).map (letterOf ∘ classOf)`.
-/
import QsmtpModel.Lemmas.QrProto
import QsmtpModel.Lemmas.QrEnvelope

namespace QsmtpModel.Props.C04
open QsmtpModel QsmtpModel.QrProto QsmtpModel.Spec.Reports

/-- **Tie to the source tree.** The model mirrors the code *with* the four repairs proposed for
this property; the extractor reports whether the tree has them.  On a tree without them this
theorem (and with it the property) no longer checks. -/
theorem tree_is_as_modelled :
    Gen.Qr.checkreplyDrainNonFatal = 1 ∧ Gen.Qr.envelopeDrainStops = 1   -- drain after a rejected MAIL FROM is not fatal
    ∧ Gen.Qr.netgetFatalReset = 1                                        -- errno ECONNRESET/ETIMEDOUT is not taken for a 5xx reply
    ∧ Gen.Qr.netgetNulCheck = 1                                          -- a NUL inside a reply is a syntax error
    ∧ (Gen.Qr.greetOtherNextMx = 1 ∨ Gen.Qr.stGreetFail ≠ []) :=         -- an unexpected greeting error: next MX, or a report before giving up
  ⟨rfl, rfl, rfl, rfl, by decide⟩

/-- the one remaining way to a second message report: `read()` failing with ENOMEM (not a
behaviour of the server; `netget()` ends the program on ENOMEM by design) -/
def NoEnomem (script : List Rd) : Prop := Rd.err ENOMEM ∉ script

/-- letters of the message report -/
def IsMsgLetter (b : Byte) : Prop := b = 75 ∨ b = 90 ∨ b = 68

/-- Every run ends in `exit(0)`: no loop runs out of fuel, `netmsg[]` is never overrun,
`net_writen()`/`net_write_multiline()` are always called within their contracts. -/
theorem no_fault (a : Args) (script : List Rd) (conns : Nat) (tls : List Int) :
    ∃ s, run a script conns tls = .exit s := by
  have h := run_spec a script conns tls
  cases hr : run a script conns tls with
  | ret u s => rw [hr] at h; exact absurd h (by simp)
  | exit s => exact ⟨s, rfl⟩
  | fault f s => rw [hr] at h; exact absurd h (by simp)

/-- **exit_zero_nonempty.** Whatever the server does, Qremote exits with status 0 and has written
at least one report. -/
theorem exit_zero_nonempty (a : Args) (script : List Rd) (conns : Nat) (tls : List Int) :
    ∃ s, run a script conns tls = .exit s ∧ s.status ≠ [] := by
  have h := run_spec a script conns tls
  cases hr : run a script conns tls with
  | ret u s => rw [hr] at h; exact absurd h (by simp)
  | exit s =>
    rw [hr] at h
    refine ⟨s, rfl, ?_⟩
    rcases h with h | h
    · exact h.nonempty
    · exact h.2
  | fault f s => rw [hr] at h; exact absurd h (by simp)

/-- the structured reading of the final state that the following theorems share -/
theorem final_state (a : Args) (script : List Rd) (conns : Nat) (tls : List Int) (hno : NoEnomem script) :
    ∃ s, run a script conns tls = .exit s ∧ RunOk a s := by
  have h := run_spec a script conns tls
  cases hr : run a script conns tls with
  | ret u s => rw [hr] at h; exact absurd h (by simp)
  | exit s =>
    rw [hr] at h
    rcases h with h | h
    · exact ⟨s, rfl, h⟩
    · exact absurd h.1 hno
  | fault f s => rw [hr] at h; exact absurd h (by simp)

theorem letterOf_ne_zero (m : Nat) : letterOf m ≠ 0 := by
  unfold letterOf; split
  · decide
  · split <;> decide

/-- the status stream of a final state as parsed reports -/
theorem parse_final {a : Args} {s : St} (h : RunOk a s) :
    ∃ (rc : List (Byte × List Byte)) (msg : Option (Byte × List Byte)),
      parse s.status = some (rc ++ msg.toList)
      ∧ rc.map (·.1) = (rcptLog s).map (fun c => letterOf (classOf c))
      ∧ rc.length ≤ a.rcpts.length
      ∧ (∀ m ∈ msg, IsMsgLetter m.1 ∧ (m.1 = 75 → ∃ c, (tagDot, c) ∈ s.log ∧ classOf c = 0)) := by
  have hrcne : ∀ rc : List (Byte × List Byte), rc.map (·.1) = (rcptLog s).map (fun c => letterOf (classOf c)) →
      ∀ r ∈ rc, r.1 ≠ 0 := by
    intro rc hl r hr
    have : r.1 ∈ rc.map (·.1) := List.mem_map_of_mem hr
    rw [hl] at this
    obtain ⟨c, _, hc⟩ := List.mem_map.mp this
    rw [← hc]; exact letterOf_ne_zero _
  have hlen : ∀ rc : List (Byte × List Byte), rc.map (·.1) = (rcptLog s).map (fun c => letterOf (classOf c)) →
      rc.length ≤ a.rcpts.length := by
    intro rc hl
    have := congrArg List.length hl
    simp at this
    rw [this]; exact h.rcpts
  rcases h.shape with ⟨ds, hst, hseq⟩ | ⟨m, ⟨ds, hst, hseq⟩, hm⟩
  · obtain ⟨rc, hfl, hl, hnn⟩ := rcptSeq_render hseq
    refine ⟨rc, none, ?_, hl, hlen rc hl, by simp⟩
    rw [hst, List.append_nil, hfl, Option.toList_none, List.append_nil]
    exact parse_render rc (fun r hr => ⟨hrcne rc hl r hr, hnn r hr⟩)
  · obtain ⟨rc, hfl, hl, hnn⟩ := rcptSeq_render hseq
    have hrep : ∃ c t, m = c :: t ++ [NUL] ∧ NUL ∉ t ∧ IsMsgLetter c
        ∧ (c = 75 → ∃ x, (tagDot, x) ∈ s.log ∧ classOf x = 0) := by
      rcases hm with ⟨c, t, rfl, hc, ht⟩ | ⟨x, hx, c, t, rfl, hc, ht⟩
      · refine ⟨c, t, rfl, ht, ?_, ?_⟩
        · simp [letterZ, letterD] at hc; rcases hc with rfl | rfl <;> simp [IsMsgLetter]
        · intro h75; simp [letterZ, letterD] at hc; rcases hc with rfl | rfl <;> simp at h75
      · simp only [List.mem_singleton] at hc
        refine ⟨c, t, rfl, ht, ?_, ?_⟩
        · rw [hc]; unfold dotLetter IsMsgLetter; split
          · simp
          · split <;> simp
        · intro h75
          refine ⟨x, hx, ?_⟩
          rw [hc] at h75
          unfold dotLetter at h75
          split at h75
          · assumption
          · split at h75 <;> simp at h75
    obtain ⟨c, t, rfl, ht, hc, hk⟩ := hrep
    refine ⟨rc, some (c, t), ?_, hl, hlen rc hl, ?_⟩
    · have : s.status = render (rc ++ [(c, t)]) := by
        rw [hst, hfl]; simp [render, NUL]
      rw [this, Option.toList_some]
      apply parse_render
      intro r hr
      rcases List.mem_append.mp hr with hr | hr
      · exact ⟨hrcne rc hl r hr, hnn r hr⟩
      · simp only [List.mem_singleton] at hr
        subst hr
        exact ⟨by rcases hc with h | h | h <;> simp [h], ht⟩
    · intro m hm
      simp at hm; subst hm
      exact ⟨hc, hk⟩

/-- **reports_wellformed (proved part).** The status stream parses as recipient reports followed
by at most one message report, each NUL-terminated and non-empty; there are at most as many
recipient reports as recipients; the i-th report's letter is `r`, `s` or `h` by the class of the
reply to the i-th RCPT TO (2xx / 4xx / everything else, which for the codes `netget()` accepts is
3xx and 5xx); the message report's letter is K, Z or D.  "At most one message report" is part of the
shape `rc ++ msg.toList`.
Not part of this theorem: "a message report is present whenever a recipient was accepted", see
`reports_wellformed_full` and its counterexample. -/
theorem reports_wellformed_partial (a : Args) (script : List Rd) (conns : Nat) (tls : List Int)
    (hno : NoEnomem script) :
    ∃ s, run a script conns tls = .exit s ∧
      ∃ (rc : List (Byte × List Byte)) (msg : Option (Byte × List Byte)),
        parse s.status = some (rc ++ msg.toList)
        ∧ rc.map (·.1) = (rcptLog s).map (fun c => letterOf (classOf c))
        ∧ rc.length ≤ a.rcpts.length
        ∧ (∀ m ∈ msg, IsMsgLetter m.1)
        ∧ (rc = [] → msg.isSome) := by
  obtain ⟨s, hrun, hok⟩ := final_state a script conns tls hno
  obtain ⟨rc, msg, hp, hl, hn, hm⟩ := parse_final hok
  refine ⟨s, hrun, rc, msg, hp, hl, hn, fun m hmm => (hm m hmm).1, ?_⟩
  intro hrc
  cases msg with
  | some m => rfl
  | none =>
    exfalso
    subst hrc
    have hne := hok.nonempty
    simp only [Option.toList_none, List.append_nil] at hp
    cases hs : s.status with
    | nil => exact hne hs
    | cons b t =>
      rw [hs] at hp
      simp only [parse] at hp
      cases hsp : splitGo (b :: t) [] with
      | none => rw [hsp] at hp; simp at hp
      | some l =>
        rw [hsp] at hp
        simp only [Option.bind_some] at hp
        cases l with
        | nil =>
          -- a non-empty stream never splits into no report
          have : ∀ (st cur : List Byte), st ≠ [] ∨ cur ≠ [] → splitGo st cur ≠ some [] := by
            intro st
            induction st with
            | nil => intro cur h; rcases h with h | h; exact absurd rfl h; simp [splitGo, h]
            | cons x st ih =>
              intro cur _
              simp only [splitGo]
              split
              · cases splitGo st [] <;> simp
              · exact ih _ (Or.inr (by simp))
          exact this (b :: t) [] (Or.inl (by simp)) hsp
        | cons r rest =>
          cases r with
          | nil => simp [toPairs] at hp
          | cons c tl => simp only [toPairs] at hp; cases toPairs rest <;> simp at hp

/-- **reports_wellformed at full strength**: as above, and a message report is present whenever a
recipient was accepted (some letter is `r`) or no recipient report was written. -/
def reports_wellformed_full : Prop :=
  ∀ (a : Args) (script : List Rd) (conns : Nat) (tls : List Int), NoEnomem script →
    ∃ s, run a script conns tls = .exit s ∧
      ∃ (rc : List (Byte × List Byte)) (msg : Option (Byte × List Byte)),
        parse s.status = some (rc ++ msg.toList)
        ∧ rc.map (·.1) = (rcptLog s).map (fun c => letterOf (classOf c))
        ∧ rc.length ≤ a.rcpts.length
        ∧ (∀ m ∈ msg, IsMsgLetter m.1)
        ∧ ((114 ∈ rc.map (·.1) ∨ rc = []) → msg.isSome)

/-- witness: two recipients, no PIPELINING; the first is accepted, the reply to the second
starts `450-wait` and then the server closes the connection -/
def cxArgs : Args :=
  { helo := [109, 101], rhost := [109, 120], sender := [115, 64, 97], rcpts := [[114, 49, 64, 98], [114, 50, 64, 98]],
    msgsize := 18, recodeflag := 0, lastlf := true }

def cxScript : List Rd :=
  [.line [50, 50, 48, 32, 104, 105],          -- 220 hi
   .line [50, 53, 48, 32, 109, 101],          -- 250 me
   .line [50, 53, 48, 32, 111, 107],          -- 250 ok   (MAIL FROM)
   .line [50, 53, 48, 32, 111, 107],          -- 250 ok   (first RCPT TO)
   .line [52, 53, 48, 45, 119, 97, 105, 116], -- 450-wait (second RCPT TO, first line)
   .eof]

/-- `r\0s450-wait\nZ4.4.1 connection to remote server died\n\0`: the abort report is swallowed by
the open recipient report, the accepted recipient gets no message report -/
def cxStatus : List Byte :=
  [114, 0, 115, 52, 53, 48, 45, 119, 97, 105, 116, 10] ++ Gen.Qr.stDied ++ [10, 0]

theorem cx_run : (match run cxArgs cxScript 1 [] with
    | .exit s => s.status == cxStatus
    | _ => false) = true := by decide

/-- **The code (even with the proposed repairs) violates the full statement**: when a multi-line
4xx/5xx reply to RCPT TO breaks off, the abort report lands inside the open recipient report and an
accepted recipient is left without message report (known finding `c04-abort-inside-open-report`;
replayed against the implementation by the check). -/
theorem reports_wellformed_counterexample : ¬ reports_wellformed_full := by
  intro hfull
  obtain ⟨s, hrun, rc, msg, hp, _, _, hm, hpres⟩ := hfull cxArgs cxScript 1 [] (by unfold NoEnomem; decide)
  have hcx := cx_run
  rw [hrun] at hcx
  simp only [beq_iff_eq] at hcx
  rw [hcx] at hp
  have hparse : parse cxStatus = some [(114, []), (115, [52, 53, 48, 45, 119, 97, 105, 116, 10] ++ Gen.Qr.stDied ++ [10])] := by
    decide
  rw [hparse] at hp
  simp only [Option.some.injEq] at hp
  cases msg with
  | none =>
    simp only [Option.toList_none, List.append_nil] at hp
    subst hp
    have := hpres (Or.inl (by simp))
    simp at this
  | some m =>
    simp only [Option.toList_some] at hp
    have h2 : rc ++ [m] = [(114, [])] ++ [(115, [52, 53, 48, 45, 119, 97, 105, 116, 10] ++ Gen.Qr.stDied ++ [10])] := by
      rw [← hp]; rfl
    have := List.append_inj' h2 rfl
    have hm' := hm m rfl
    rw [List.singleton_inj.mp this.2] at hm'
    simp [IsMsgLetter] at hm'

/-- **K_only_after_2xx_to_dot.** If the stream contains a report with letter K then the end of the
message data was sent (after `DATA`), and the reply to it, as `netget()` read it, is in the
success class 2xx. -/
theorem K_only_after_2xx_to_dot (a : Args) (script : List Rd) (conns : Nat) (tls : List Int)
    (hno : NoEnomem script) :
    ∃ s, run a script conns tls = .exit s ∧
      ∀ rs, parse s.status = some rs → ∀ r ∈ rs, r.1 = 75 →
        ∃ c, (tagDot, c) ∈ s.log ∧ (Gen.Qr.successMin : Int) ≤ c ∧ c ≤ (Gen.Qr.successMax : Int)
          ∧ Gen.Qr.cmdData ∈ s.sent ∧ (Gen.Qr.cmdDot ∈ s.sent ∨ Gen.Qr.cmdCrlfDot ∈ s.sent) := by
  obtain ⟨s, hrun, hok⟩ := final_state a script conns tls hno
  obtain ⟨rc, msg, hp, hl, _, hm⟩ := parse_final hok
  refine ⟨s, hrun, ?_⟩
  intro rs hrs r hr h75
  rw [hp] at hrs
  simp only [Option.some.injEq] at hrs
  subst hrs
  rcases List.mem_append.mp hr with hr | hr
  · exfalso
    have : r.1 ∈ rc.map (·.1) := List.mem_map_of_mem hr
    rw [hl] at this
    obtain ⟨c, _, hc⟩ := List.mem_map.mp this
    rw [h75] at hc
    unfold letterOf at hc
    split at hc
    · simp at hc
    · split at hc <;> simp at hc
  · cases msg with
    | none => simp at hr
    | some m =>
      simp at hr; subst hr
      obtain ⟨c, hc, hcl⟩ := (hm r rfl).2 h75
      refine ⟨c, hc, ?_, ?_, hok.dot ⟨c, hc⟩⟩
      · unfold classOf at hcl
        split at hcl
        · rename_i h; exact h.1
        · split at hcl <;> simp at hcl
      · unfold classOf at hcl
        split at hcl
        · rename_i h; exact h.2
        · split at hcl <;> simp at hcl

/-- **data_only_if_accepted.** `DATA` is sent only after some RCPT TO got a 2xx reply (and then the
stream has a recipient report `r`). -/
theorem data_only_if_accepted (a : Args) (script : List Rd) (conns : Nat) (tls : List Int)
    (hno : NoEnomem script) :
    ∃ s, run a script conns tls = .exit s ∧
      (Gen.Qr.cmdData ∈ s.sent → ∃ c ∈ rcptLog s, 200 ≤ c ∧ c < 300 ∧ letterOf (classOf c) = 114) := by
  obtain ⟨s, hrun, hok⟩ := final_state a script conns tls hno
  refine ⟨s, hrun, fun h => ?_⟩
  obtain ⟨c, hc, hge, hlt⟩ := hok.data h
  refine ⟨c, ?_, hge, hlt, ?_⟩
  · unfold rcptLog
    exact List.mem_map.mpr ⟨(tagRcpt, c), List.mem_filter.mpr ⟨hc, by simp⟩, rfl⟩
  · rw [(classOf_zero_iff hge).mpr hlt]; rfl

/-! ### the envelope -/

/-- `MAIL FROM:<sender>[ SIZE=n][ BODY=…]\r\n` then `RCPT TO:<r>\r\n` for every recipient, in order:
the envelope the arguments call for; `size`, `eight`: whether the server announced SIZE / 8BITMIME -/
def plainEnvelope (a : Args) (size eight : Bool) : List Byte :=
  Gen.Qr.cmdMail ++ a.sender
    ++ (if size then Gen.Qr.cmdSize ++ decimal a.msgsize else Gen.Qr.cmdMailEnd)
    ++ (if eight then (if a.recodeflag % 2 = 1 then Gen.Qr.cmdBody8 else Gen.Qr.cmdBody7) else [])
    ++ [CR, LF]
    ++ (a.rcpts.map fun r => Gen.Qr.cmdRcpt ++ r ++ [62, CR, LF]).flatten

/-- every command fits into one line of 512 octets (otherwise `net_writen()` folds it like a reply,
which no SMTP server understands; addresses that long are outside RFC 5321's limits) -/
def Fits (a : Args) : Prop :=
  Gen.Qr.cmdMail.length + a.sender.length + Gen.Qr.cmdSize.length + (decimal a.msgsize).length + Gen.Qr.cmdBody8.length ≤ 510
  ∧ ∀ r ∈ a.rcpts, Gen.Qr.cmdRcpt.length + r.length + Gen.Qr.cmdRcptEnd.length ≤ 510

theorem mailParts_flatten (a : Args) (se : St) :
    Gen.Qr.cmdMail ++ (mailParts a se).flatten = Gen.Qr.cmdMail ++ a.sender
      ++ (if hasExt se Gen.Qr.extSize then Gen.Qr.cmdSize ++ decimal a.msgsize else Gen.Qr.cmdMailEnd)
      ++ (if hasExt se Gen.Qr.ext8bitmime then (if a.recodeflag % 2 = 1 then Gen.Qr.cmdBody8 else Gen.Qr.cmdBody7) else []) := by
  unfold mailParts
  split <;> split <;> simp [List.append_assoc]

theorem expectedEnv_plain (a : Args) (se : St) (hfit : Fits a) (hne : a.rcpts ≠ []) :
    expectedEnv a se = plainEnvelope a (hasExt se Gen.Qr.extSize) (hasExt se Gen.Qr.ext8bitmime) := by
  have hmp := mailParts_flatten a se
  unfold expectedEnv plainEnvelope
  split
  · cases hr : a.rcpts with
    | nil => exact absurd hr hne
    | cons r0 rs =>
      simp only [List.map_cons, List.flatten_cons]
      have e1 : Gen.Qr.cmdRcptAfterMail = [CR, LF] ++ Gen.Qr.cmdRcpt := by decide
      have e2 : Gen.Qr.cmdRcptEndCrlf = [62, CR, LF] := by decide
      rw [← hmp]
      simp [rcptBytes, e1, e2, List.append_assoc]
  · have hlen : Gen.Qr.cmdMail.length + (mailParts a se).flatten.length ≤ 510 := by
      have h1 := hfit.1
      have := congrArg List.length hmp
      simp only [List.length_append] at this
      have hb7 : Gen.Qr.cmdBody7.length ≤ Gen.Qr.cmdBody8.length := by decide
      have hme : Gen.Qr.cmdMailEnd.length ≤ Gen.Qr.cmdSize.length := by decide
      split at this <;> split at this <;> (try split at this) <;> (try simp only [List.length_append, List.length_nil] at this) <;> omega
    rw [writen_single Gen.Qr.cmdMail (mailParts a se) (by decide) (by decide) hlen, hmp]
    have hr : rcptsOneByOneBytes a.rcpts = (a.rcpts.map fun r => Gen.Qr.cmdRcpt ++ r ++ [62, CR, LF]).flatten := by
      unfold rcptsOneByOneBytes
      congr 1
      apply List.map_congr_left
      intro r hr
      rw [writen_single Gen.Qr.cmdRcpt [r, Gen.Qr.cmdRcptEnd] (by decide) (by decide) (by have := hfit.2 r hr; simp at this ⊢; omega)]
      simp [Gen.Qr.cmdRcptEnd]
    rw [hr]

/-- **envelope_commands_exact.** Among everything written to the socket, the payloads that belong to
the envelope (they start with `M` or `R`; everything else is EHLO/HELO, QUIT, DATA, the body and
the final dot) spell, in order, a prefix of `MAIL FROM:<sender>…` and one `RCPT TO:<r>` per
recipient — the given sender and recipients, once each, in argument order, with or without
PIPELINING and whatever the batching — and the whole of it whenever `DATA` was sent.
Needs no hypothesis on the script (not even `NoEnomem`). -/
theorem envelope_commands_exact (a : Args) (script : List Rd) (conns : Nat) (tls : List Int) (hfit : Fits a) :
    ∃ s, run a script conns tls = .exit s ∧ ∃ size eight : Bool,
      envOf s.sent <+: plainEnvelope a size eight
      ∧ (Gen.Qr.cmdData ∈ s.sent → envOf s.sent = plainEnvelope a size eight) := by
  have h := run_sent a script conns tls
  cases hr : run a script conns tls with
  | ret u s => rw [hr] at h; exact absurd h (by simp)
  | fault f s => rw [hr] at h; exact absurd h (by simp)
  | exit s =>
    rw [hr] at h
    refine ⟨s, rfl, ?_⟩
    simp only [sat_exit] at h
    rcases h with ⟨h1, h2⟩ | ⟨se, h1, h2⟩
    · exact ⟨false, false, by rw [h1]; exact List.nil_prefix, fun hm => absurd hm h2⟩
    · by_cases hne : a.rcpts = []
      · -- without recipients nothing of an envelope is ever sent
        unfold run qrMain at hr
        rw [if_pos hne] at hr
        simp only [shutdownAbort, Out.exit.injEq] at hr
        subst hr
        exact ⟨false, false, by simp [writeStatus, wr, initSt, envOf], by simp [writeStatus, wr, initSt]⟩
      · rw [expectedEnv_plain a se hfit hne] at h1 h2
        exact ⟨_, _, h1, h2⟩

example : Fits cxArgs := by
  refine ⟨by decide, ?_⟩
  intro r hr
  simp [cxArgs] at hr
  rcases hr with rfl | rfl <;> decide

/-! ### non-vacuity: a complete session, with and without PIPELINING -/

/-- 220 / 250-me 250 PIPELINING / 250 / 250 / 550 / 354 / 250 / 221: the stream is
`r\0h550 no\n\0K<rhost> accepted message./Remote host said: 250 ok\n\0` -/
def okScript (pipe : Bool) : List Rd :=
  [.line [50, 50, 48, 32, 104, 105]] ++
  (if pipe then [.line [50, 53, 48, 45, 109, 101], .line [50, 53, 48, 32, 80, 73, 80, 69, 76, 73, 78, 73, 78, 71]]
   else [.line [50, 53, 48, 32, 109, 101]]) ++
  [.line [50, 53, 48, 32, 111, 107], .line [50, 53, 48, 32, 111, 107], .line [53, 53, 48, 32, 110, 111],
   .line [51, 53, 52, 32, 103, 111], .line [50, 53, 48, 32, 111, 107], .line [50, 50, 49, 32, 98, 121, 101]]

example : NoEnomem (okScript true) ∧ NoEnomem (okScript false) := by unfold NoEnomem; decide

example : (match run cxArgs (okScript true) 1 [] with
    | .exit s => (parse s.status).map (fun rs => rs.map (·.1)) == some [114, 104, 75]
        && s.sent.contains Gen.Qr.cmdData && rcptLog s == [250, 550]
    | _ => false) = true := by decide

example : (match run cxArgs (okScript false) 1 [] with
    | .exit s => (parse s.status).map (fun rs => rs.map (·.1)) == some [114, 104, 75]
        && s.sent.contains Gen.Qr.cmdData && rcptLog s == [250, 550]
    | _ => false) = true := by decide

/-- the envelope of that session, pipelined (`MAIL FROM:<s@a>\r\nRCPT TO:<r1@b>\r\n` in one write) and not -/
example : (match run cxArgs (okScript true) 1 [] with
    | .exit s => envOf s.sent == plainEnvelope cxArgs false false && s.sent.length == 7
    | _ => false) = true := by decide
example : (match run cxArgs (okScript false) 1 [] with
    | .exit s => envOf s.sent == plainEnvelope cxArgs false false && s.sent.length == 8
    | _ => false) = true := by decide

end QsmtpModel.Props.C04
