/-
C13 — local recipients are accepted exactly when the vpopmail mailbox exists, and no local part
makes the server look at, or read configuration from, anything outside the domain directory.
Property theorems only; helper lemmas live in Lemmas/Vpop.lean, the model in Vpop.lean, the
reference predicate `mailboxExists` in Spec/Mailbox.lean.

The headline theorems are about `Cfg.src`, the code shape the extractor found in the working tree
(refusal of "." and "..", bounded dash search, errno classes).  `src_is_repaired` is the proof
obligation that ties them to the source: it only checks on a tree that has the three repairs of
proposed_fixes/C13-*.diff; the `orig_*` theorems show, on concrete trees, what the unrepaired
code (`Cfg.orig`) does instead.
-/
import QsmtpModel.Lemmas.Vpop
import QsmtpModel.Gen.Netio

namespace QsmtpModel.Props.C13
open QsmtpModel QsmtpModel.Vpop QsmtpModel.Spec.Mailbox

/-- The working tree's user_exists()/qmexists() have the repaired shape. -/
theorem src_is_repaired : Cfg.src = Cfg.fixed := by decide

/-- "The domain is found in users/cdb and its directory is `dd`." -/
structure DomainAt (cfg : Cfg) (env : Env) (ds0 : Ds) (domain : List Byte) (dd : Nat) : Prop where
  found : (vgetDir cfg env ds0 domain).res = 1
  opens : (openat env.tree env.cwd (vgetDir cfg env ds0 domain).ds.domainpath true).1 = .ok dd

/-- What is assumed about the answers of the file system below the domain directory for the
"exactly when" direction: every lookup is answered "there", "not there" or "there but not
accessible" (errors like ENOMEM/EIO legitimately end in a temporary failure instead), and the
catch-all, if there, is a readable regular file. -/
structure Answers (env : Env) (dd : Nat) (loc : List Byte) : Prop where
  benign : Benign env.tree dd
  locNoErr : ∀ e, env.tree.child dd loc ≠ .err e
  catchAll : CatchAllSane env dd

theorem line_fits : Gen.lineinbufSize + 15 < Gen.filetmpSize := by decide

/-- the return value of user_exists(), computed from the five forms of the statement -/
theorem result_is_ladder (env : Env) (ds0 : Ds) (loc tail domain : List Byte) (dd : Nat)
    (hdom : DomainAt Cfg.src env ds0 domain dd)
    (hne : loc ≠ []) (hnul : NUL ∉ loc) (hlen : loc.length < Gen.lineinbufSize) (ha : Answers env dd loc) :
    (userExists Cfg.src env ds0 loc tail domain).res =
      if plainName loc then ladder env.tree dd env.vpopbounce loc else 0 := by
  have hdom' := hdom
  rw [src_is_repaired] at hdom' ⊢
  have := line_fits
  exact userExists_fixed env ds0 loc tail domain dd hdom'.found hdom'.opens hne hnul (by omega)
    ha.benign ha.locNoErr ha.catchAll

/-- **C13, acceptance.** For a domain found in users/cdb, every local part that can reach
user_exists() (non-empty C string from one command line) and every directory layout:
the result is positive -- RCPT TO is accepted -- exactly when the mailbox exists: a directory named
like the local part, .qmail-<local>, .qmail-<local>-default (dots as colons), .qmail-<prefix>-default
for a prefix ending before a dash of the local part, or a .qmail-default that is not the configured
bounce line. -/
theorem exists_iff_mailbox (env : Env) (ds0 : Ds) (loc tail domain : List Byte) (dd : Nat)
    (hdom : DomainAt Cfg.src env ds0 domain dd)
    (hne : loc ≠ []) (hnul : NUL ∉ loc) (hlen : loc.length < Gen.lineinbufSize) (ha : Answers env dd loc) :
    (userExists Cfg.src env ds0 loc tail domain).res > 0 ↔ mailboxExists env.tree dd env.vpopbounce loc = true := by
  rw [result_is_ladder env ds0 loc tail domain dd hdom hne hnul hlen ha]
  unfold mailboxExists ladder
  cases plainName loc <;> cases userDir env.tree dd loc <;> cases dotQmailFile env.tree dd loc <;>
    cases prefixDefault env.tree dd loc <;> cases catchAll env.tree dd env.vpopbounce <;> simp

/-- **C13, rejection.** ... and is 0 -- answered `550 5.1.1` by addrparse() -- otherwise; no other
value (in particular no error value) is possible. -/
theorem rejected_otherwise (env : Env) (ds0 : Ds) (loc tail domain : List Byte) (dd : Nat)
    (hdom : DomainAt Cfg.src env ds0 domain dd)
    (hne : loc ≠ []) (hnul : NUL ∉ loc) (hlen : loc.length < Gen.lineinbufSize) (ha : Answers env dd loc) :
    ((userExists Cfg.src env ds0 loc tail domain).res = 0 ↔ mailboxExists env.tree dd env.vpopbounce loc = false) ∧
    ((userExists Cfg.src env ds0 loc tail domain).res ∈ [0, 1, 2, 4]) := by
  rw [result_is_ladder env ds0 loc tail domain dd hdom hne hnul hlen ha]
  unfold mailboxExists ladder
  cases plainName loc <;> cases userDir env.tree dd loc <;> cases dotQmailFile env.tree dd loc <;>
    cases prefixDefault env.tree dd loc <;> cases catchAll env.tree dd env.vpopbounce <;> simp

end QsmtpModel.Props.C13
