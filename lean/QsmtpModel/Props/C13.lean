/-
C13 — local recipients are accepted exactly when the vpopmail mailbox exists, and no local part
makes the server look at, or read configuration from, anything outside the domain directory.
Property theorems only; helper lemmas live in Lemmas/Vpop.lean, the model in Vpop.lean, the
reference predicate `mailboxExists` in Spec/Mailbox.lean.

The headline theorems are about `Cfg.src`, the code shape the extractor found in the working tree
(refusal of "." and "..", bounded dash search, errno classes).  `src_is_repaired` is the proof
obligation that ties them to the source: it only checks on a tree that has the three repairs of
proposed_fixes/C13-*.diff; the `orig_*` theorems show, on concrete trees, what the unrepaired
code (`Cfg.orig`) does instead.
-/
import QsmtpModel.Lemmas.Vpop
import QsmtpModel.Gen.Netio

namespace QsmtpModel.Props.C13
open QsmtpModel QsmtpModel.Vpop QsmtpModel.Spec.Mailbox

/-- The working tree's user_exists()/qmexists() have the repaired shape. -/
theorem src_is_repaired : Cfg.src = Cfg.fixed := by decide

/-- "The domain is found in users/cdb and its directory is `dd`." -/
structure DomainAt (cfg : Cfg) (env : Env) (ds0 : Ds) (domain : List Byte) (dd : Nat) : Prop where
  found : (vgetDir cfg env ds0 domain).res = 1
  opens : (openat env.tree env.cwd (vgetDir cfg env ds0 domain).ds.domainpath true).1 = .ok dd

/-- What is assumed about the answers of the file system below the domain directory for the
"exactly when" direction: every lookup is answered "there", "not there" or "there but not
accessible" (errors like ENOMEM/EIO legitimately end in a temporary failure instead), and the
catch-all, if there, is a readable regular file. -/
structure Answers (env : Env) (dd : Nat) (loc : List Byte) : Prop where
  benign : Benign env.tree dd
  locNoErr : ∀ e, env.tree.child dd loc ≠ .err e
  catchAll : CatchAllSane env dd

theorem line_fits : Gen.lineinbufSize + 15 < Gen.filetmpSize := by decide

/-- the return value of user_exists(), computed from the five forms of the statement -/
theorem result_is_ladder (env : Env) (ds0 : Ds) (loc tail domain : List Byte) (dd : Nat)
    (hdom : DomainAt Cfg.src env ds0 domain dd)
    (hne : loc ≠ []) (hnul : NUL ∉ loc) (hlen : loc.length < Gen.lineinbufSize) (ha : Answers env dd loc) :
    (userExists Cfg.src env ds0 loc tail domain).res =
      if plainName loc then ladder env.tree dd env.vpopbounce loc else 0 := by
  have hdom' := hdom
  rw [src_is_repaired] at hdom' ⊢
  have := line_fits
  exact userExists_fixed env ds0 loc tail domain dd hdom'.found hdom'.opens hne hnul (by omega)
    ha.benign ha.locNoErr ha.catchAll

/-- **C13, acceptance.** For a domain found in users/cdb, every local part that can reach
user_exists() (non-empty C string from one command line) and every directory layout:
the result is positive -- RCPT TO is accepted -- exactly when the mailbox exists: a directory named
like the local part, .qmail-<local>, .qmail-<local>-default (dots as colons), .qmail-<prefix>-default
for a prefix ending before a dash of the local part, or a .qmail-default that is not the configured
bounce line. -/
theorem exists_iff_mailbox (env : Env) (ds0 : Ds) (loc tail domain : List Byte) (dd : Nat)
    (hdom : DomainAt Cfg.src env ds0 domain dd)
    (hne : loc ≠ []) (hnul : NUL ∉ loc) (hlen : loc.length < Gen.lineinbufSize) (ha : Answers env dd loc) :
    (userExists Cfg.src env ds0 loc tail domain).res > 0 ↔ mailboxExists env.tree dd env.vpopbounce loc = true := by
  rw [result_is_ladder env ds0 loc tail domain dd hdom hne hnul hlen ha]
  unfold mailboxExists ladder
  cases plainName loc <;> cases userDir env.tree dd loc <;> cases dotQmailFile env.tree dd loc <;>
    cases prefixDefault env.tree dd loc <;> cases catchAll env.tree dd env.vpopbounce <;> simp

/-- **C13, rejection.** ... and is 0 -- answered `550 5.1.1` by addrparse() -- otherwise; no other
value (in particular no error value) is possible. -/
theorem rejected_otherwise (env : Env) (ds0 : Ds) (loc tail domain : List Byte) (dd : Nat)
    (hdom : DomainAt Cfg.src env ds0 domain dd)
    (hne : loc ≠ []) (hnul : NUL ∉ loc) (hlen : loc.length < Gen.lineinbufSize) (ha : Answers env dd loc) :
    ((userExists Cfg.src env ds0 loc tail domain).res = 0 ↔ mailboxExists env.tree dd env.vpopbounce loc = false) ∧
    ((userExists Cfg.src env ds0 loc tail domain).res ∈ [0, 1, 2, 4]) := by
  rw [result_is_ladder env ds0 loc tail domain dd hdom hne hnul hlen ha]
  unfold mailboxExists ladder
  cases plainName loc <;> cases userDir env.tree dd loc <;> cases dotQmailFile env.tree dd loc <;>
    cases prefixDefault env.tree dd loc <;> cases catchAll env.tree dd env.vpopbounce <;> simp

/-- **The five forms**, spelled out: `mailboxExists` holds exactly when the local part is a plain
entry name and (1) it names a directory of the domain directory, or (2) `.qmail-<local>` or
(3) `.qmail-<local>-default` is there (dots written as colons), or (4) for some position `p` of a
dash in the local part `.qmail-<local[0..p)>-default` is there, or (5) `.qmail-default` is there and
is not the configured bounce line. -/
theorem mailboxExists_forms (t : DirTree) (dd : Nat) (vpb : Option (List Byte)) (loc : List Byte) :
    mailboxExists t dd vpb loc = true ↔
      plainName loc = true ∧
      (userDir t dd loc = true
       ∨ present (t.child dd (dotQmail ++ colons loc)) = true
       ∨ present (t.child dd (dotQmail ++ colons loc ++ dashDefault)) = true
       ∨ (∃ p, loc[p]? = some DASH ∧ present (t.child dd (dotQmail ++ colons (loc.take p) ++ dashDefault)) = true)
       ∨ catchAll t dd vpb = true) := by
  have hpre : prefixDefault t dd loc = true ↔
      ∃ p, loc[p]? = some DASH ∧ present (t.child dd (dotQmail ++ colons (loc.take p) ++ dashDefault)) = true := by
    unfold prefixDefault
    rw [List.any_eq_true]
    constructor
    · rintro ⟨p, hp, h⟩
      have := dashIdx_spec loc 0 p hp
      exact ⟨p, by simpa using this.2.2, h⟩
    · rintro ⟨p, hp, h⟩
      have := dashIdx_complete loc 0 p hp
      exact ⟨p, by simpa using this, h⟩
  unfold mailboxExists dotQmailFile
  simp only [Bool.and_eq_true, Bool.or_eq_true, hpre]
  constructor
  · rintro ⟨h0, ((h | h | h) | h) | h⟩
    · exact ⟨h0, Or.inl h⟩
    · exact ⟨h0, Or.inr (Or.inl h)⟩
    · exact ⟨h0, Or.inr (Or.inr (Or.inl h))⟩
    · exact ⟨h0, Or.inr (Or.inr (Or.inr (Or.inl h)))⟩
    · exact ⟨h0, Or.inr (Or.inr (Or.inr (Or.inr h)))⟩
  · rintro ⟨h0, h | h | h | h | h⟩
    · exact ⟨h0, Or.inl (Or.inl (Or.inl h))⟩
    · exact ⟨h0, Or.inl (Or.inl (Or.inr (Or.inl h)))⟩
    · exact ⟨h0, Or.inl (Or.inl (Or.inr (Or.inr h)))⟩
    · exact ⟨h0, Or.inl (Or.inr h)⟩
    · exact ⟨h0, Or.inr h⟩

/-! ### confinement -/

theorem src_refuses_dot_names : Cfg.src.refuseDotNames = true := by rw [src_is_repaired]; rfl
theorem src_dash_scan_bounded : Cfg.src.dashScanBounded = true := by rw [src_is_repaired]; rfl

/-- **C13, confinement, the code property that is needed** (any errno classification): if "." and
".." are refused like names with '/', and the dash search cannot leave the local part (or what
follows the local part in memory has no '/' and no NUL), then every single path component that
user_exists() resolves after opening the domain directory is a plain entry name (not empty, no
'/', not "." or "..") looked up in the domain directory itself. -/
theorem confined_of_shape (cfg : Cfg) (env : Env) (ds0 : Ds) (loc tail domain : List Byte)
    (hdots : cfg.refuseDotNames = true) (hdash : cfg.dashScanBounded = true ∨ (SLASH ∉ tail ∧ NUL ∉ tail))
    (hnul : NUL ∉ loc) :
    ∀ ev ∈ (userExists cfg env ds0 loc tail domain).evs,
      ∃ dd, (openat env.tree env.cwd (vgetDir cfg env ds0 domain).ds.domainpath true).1 = .ok dd ∧
        ev.1 = dd ∧ plainName ev.2 = true :=
  userExists_evs cfg env ds0 loc tail domain hdots hdash hnul

/-- **C13, confinement.** Whatever the local part (any bytes of a C string: dots, dashes, '/',
".", "..", quotes, any length), whatever follows it in memory, whatever the directory tree and
users/cdb contain: every component resolved is a plain name inside the domain directory. -/
theorem confined (env : Env) (ds0 : Ds) (loc tail domain : List Byte) (hnul : NUL ∉ loc) :
    ∀ ev ∈ (userExists Cfg.src env ds0 loc tail domain).evs,
      ∃ dd, (openat env.tree env.cwd (vgetDir Cfg.src env ds0 domain).ds.domainpath true).1 = .ok dd ∧
        ev.1 = dd ∧ plainName ev.2 = true :=
  confined_of_shape Cfg.src env ds0 loc tail domain src_refuses_dot_names (Or.inl src_dash_scan_bounded) hnul

/-- **C13, confinement of what is kept.** Starting from a fresh `struct userconf` (as smtp_rcpt()
does), the domain directory descriptor left in `ds` is the directory users/cdb names, and the user
directory descriptor -- the one getfile() later reads the user's `filterconf` through -- is the
entry `loc` of that directory, `loc` being a plain name: it lies inside the domain directory. -/
theorem consulted_inside (env : Env) (ds0 : Ds) (loc tail domain : List Byte) (hnul : NUL ∉ loc)
    (h0u : ds0.userdir = none) (h0d : ds0.domaindir = none) :
    (∀ d, (userExists Cfg.src env ds0 loc tail domain).ds.domaindir = some d →
      (openat env.tree env.cwd (vgetDir Cfg.src env ds0 domain).ds.domainpath true).1 = .ok d) ∧
    (∀ u, (userExists Cfg.src env ds0 loc tail domain).ds.userdir = some u → ∃ dd,
      (openat env.tree env.cwd (vgetDir Cfg.src env ds0 domain).ds.domainpath true).1 = .ok dd ∧
      (userExists Cfg.src env ds0 loc tail domain).ds.domaindir = some dd ∧
      plainName loc = true ∧ env.tree.child dd loc = .node u ∧ env.tree.isDir u = true) :=
  userExists_fds Cfg.src env ds0 loc tail domain src_refuses_dot_names hnul h0u h0d

/-- **C13, configuration is read from inside.** The getfile("filterconf") that follows
user_exists() resolves exactly the name "filterconf", and only in the domain directory, in the
user directory (an entry of the domain directory with the plain name `loc`), or -- only when a
global lookup is asked for -- in the control directory. -/
theorem config_inside (env : Env) (ds0 : Ds) (loc tail domain : List Byte) (hnul : NUL ∉ loc)
    (h0u : ds0.userdir = none) (h0d : ds0.domaindir = none) (global : Bool) (t0 : Nat) :
    ∀ ev ∈ (getfile env (userExists Cfg.src env ds0 loc tail domain).ds filterconf global t0).evs,
      ev.2 = filterconf ∧
      ((∃ dd, (openat env.tree env.cwd (vgetDir Cfg.src env ds0 domain).ds.domainpath true).1 = .ok dd ∧
          (ev.1 = dd ∨ (plainName loc = true ∧ env.tree.child dd loc = .node ev.1))) ∨
       (global = true ∧ ev.1 = env.controlDir)) := by
  intro ev hev
  have hfc : Clean filterconf := by unfold Clean; decide
  obtain ⟨h1, h2⟩ := getfile_evs env _ filterconf global t0 hfc ev hev
  obtain ⟨hD, hU⟩ := consulted_inside env ds0 loc tail domain hnul h0u h0d
  refine ⟨h1, ?_⟩
  rcases h2 with hu | hd | hg
  · obtain ⟨dd, hop, _, hpl, hch, _⟩ := hU ev.1 hu
    exact Or.inl ⟨dd, hop, Or.inr ⟨hpl, hch⟩⟩
  · exact Or.inl ⟨ev.1, hD ev.1 hd, Or.inl rfl⟩
  · exact Or.inr hg

/-! ### concrete trees: non-vacuity, and what the unrepaired code does

Nodes: 1 = working directory, 4 = doms, 5 = doms/dom (the domain directory), 6 = doms/dom/user
(a user directory), 7 = doms/dom/.qmail-a-b@my-default, 9 = doms/filterconf (a marker OUTSIDE the
domain directory). users/cdb maps "!example.org-" to "doms/dom". -/

def exDoms : List Byte := [100, 111, 109, 115]
def exDom : List Byte := [100, 111, 109]
def exUser : List Byte := [117, 115, 101, 114]
def exForeign : List Byte := [46, 113, 109, 97, 105, 108, 45, 97, 45, 98, 64, 109, 121, 45, 100, 101, 102, 97, 117, 108, 116]
def exDomain : List Byte := [101, 120, 97, 109, 112, 108, 101, 46, 111, 114, 103]
def exTail : List Byte := [64, 109, 121, 45, 100, 111, 109, 46, 111, 114, 103]

def exTree : DirTree :=
  { root := 0
    parent := fun n => if n = 5 then 4 else if n = 6 then 5 else if n = 4 then 1 else 0
    isDir := fun n => n = 0 || n = 1 || n = 4 || n = 5 || n = 6
    content := fun n => if n = 9 then [77, 65, 82, 75, 69, 82, 10] else []
    readErr := fun _ => none
    child := fun d name =>
      if d = 1 ∧ name = exDoms then .node 4
      else if d = 4 ∧ name = exDom then .node 5
      else if d = 4 ∧ name = filterconf then .node 9
      else if d = 5 ∧ name = exUser then .node 6
      else if d = 5 ∧ name = exForeign then .node 7
      else .absent }

def exEnv : Env :=
  { tree := exTree, cwd := 1, controlDir := 3, cdb := .table [([33, 101, 120, 97, 109, 112, 108, 101, 46, 111, 114, 103, 45], [101, 120, 97, 109, 112, 108, 101, 46, 111, 114, 103, 0, 56, 57, 0, 56, 57, 0, 100, 111, 109, 115, 47, 100, 111, 109, 0, 45, 0])], vpopbounce := none, netFail := false }

/-- non-vacuity of `DomainAt` and `Answers`: the example tree satisfies the hypotheses of
`exists_iff_mailbox`, and the model accepts the user directory there -/
example : DomainAt Cfg.fixed exEnv Ds.init exDomain 5 := ⟨by decide, by decide⟩
example : Answers exEnv 5 exUser :=
  ⟨by intro name e h; simp only [exEnv, exTree] at h; repeat' split at h
      all_goals simp at h,
   by intro e h; simp only [exEnv, exTree] at h; repeat' split at h
      all_goals simp at h,
   ⟨by intro n h; simp only [exEnv, exTree] at h; repeat' split at h
       all_goals simp_all [qmailDefault, exDoms, exDom, exUser, exForeign, filterconf],
    by intro v h; simp [exEnv] at h⟩⟩
example : (userExists Cfg.fixed exEnv Ds.init exUser exTail exDomain).res = 1 := by decide
example : mailboxExists exTree 5 none exUser = true := by decide

/-- **Unrepaired code, "..".** `RCPT TO:<..@example.org>`: the result is 1 (accepted), the
component ".." is resolved in the domain directory, the "user directory" kept in `ds` is node 4 --
the PARENT of the domain directory -- and the filterconf read next is node 9, the marker outside
the domain directory.  No such mailbox exists.  The repaired code answers 0 without any lookup. -/
theorem orig_not_confined :
    (userExists Cfg.orig exEnv Ds.init [DOT, DOT] exTail exDomain).res = 1 ∧
    (userExists Cfg.orig exEnv Ds.init [DOT, DOT] exTail exDomain).evs = [(5, [DOT, DOT])] ∧
    (userExists Cfg.orig exEnv Ds.init [DOT, DOT] exTail exDomain).ds.userdir = some 4 ∧
    (match (getfile exEnv (userExists Cfg.orig exEnv Ds.init [DOT, DOT] exTail exDomain).ds filterconf false 0).res with
      | .ok n => n == 9 | .error _ => false) = true ∧
    mailboxExists exTree 5 none [DOT, DOT] = false ∧
    (userExists Cfg.fixed exEnv Ds.init [DOT, DOT] exTail exDomain).res = 0 ∧
    (userExists Cfg.fixed exEnv Ds.init [DOT, DOT] exTail exDomain).evs = [] := by
  decide

/-- **Unrepaired code, dash search running into the domain.** `RCPT TO:<a-b@my-dom.org>` with a
file `.qmail-a-b@my-default` in the domain directory: strchr() finds the dash of "my-dom" behind
the local part, the "prefix" `a-b@my` is probed and the address is accepted with 4, although none
of the five forms exists for the local part `a-b`.  The repaired code answers 0. -/
theorem orig_accepts_foreign_prefix :
    (userExists Cfg.orig exEnv Ds.init [97, 45, 98] exTail exDomain).res = 4 ∧
    mailboxExists exTree 5 none [97, 45, 98] = false ∧
    (userExists Cfg.fixed exEnv Ds.init [97, 45, 98] exTail exDomain).res = 0 := by
  decide

/-- **Unrepaired code, long local part.** 241 bytes: `.qmail-<local>-default` is longer than
NAME_MAX, openat() fails with ENAMETOOLONG, which qmexists() reports as a control file error:
the result is -EDONE (`421 4.3.5 unable to read controls`) instead of 0 (`550 5.1.1`), with one
call of err_control().  The repaired code answers 0. -/
theorem orig_long_name_is_error :
    (userExists Cfg.orig exEnv Ds.init (List.replicate 241 97) exTail exDomain).res = -1003 ∧
    (userExists Cfg.orig exEnv Ds.init (List.replicate 241 97) exTail exDomain).ec = 1 ∧
    (userExists Cfg.fixed exEnv Ds.init (List.replicate 241 97) exTail exDomain).res = 0 := by
  decide +kernel

/-! ### users/cdb -/

/-- **The cdb lookup.** With users/cdb as a finite map (first record wins), a domain that fits
the key buffer and a fresh `struct userconf`: vget_dir() reports the domain as found exactly when
the map has the key `'!' domain '-'`, and the path it leaves in `ds` is the fourth NUL terminated
field of that record's value with trailing slashes replaced by exactly one. -/
theorem domain_lookup (cfg : Cfg) (env : Env) (ds : Ds) (domain : List Byte) (recs : List (List Byte × List Byte))
    (hcdb : env.cdb = .table recs) (hlen : domain.length + 3 < Gen.cdbKeySize) (hfresh : ds.domainpath = []) :
    ((vgetDir cfg env ds domain).res = 1 ↔ (recs.find? (fun r => r.1 == BANG :: domain ++ [DASH])).isSome) ∧
    (∀ r, recs.find? (fun r => r.1 == BANG :: domain ++ [DASH]) = some r →
      (vgetDir cfg env ds domain).ds.domainpath =
        stripSlashes (cstr (skipField (skipField (skipField r.2)))) ++ [SLASH]) ∧
    ((vgetDir cfg env ds domain).res = 1 ∨ (vgetDir cfg env ds domain).res = 0) := by
  unfold vgetDir
  simp only [hcdb]
  rw [if_neg (by omega)]
  simp only [Cdb.find]
  cases hf : recs.find? (fun r => r.1 == BANG :: domain ++ [DASH]) with
  | none => simp
  | some r =>
    simp only [Option.isSome_some, iff_true, Option.some.injEq, forall_eq']
    rw [if_pos (by rw [hfresh]; simp)]
    simp

/-- non-vacuity: the example environment's users/cdb -/
example : (vgetDir Cfg.fixed exEnv Ds.init exDomain).res = 1 ∧
    (vgetDir Cfg.fixed exEnv Ds.init exDomain).ds.domainpath = [100, 111, 109, 115, 47, 100, 111, 109, 47] := by decide

end QsmtpModel.Props.C13
