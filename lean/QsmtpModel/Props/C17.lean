/-
C17 — STARTTLS (server): no clear-text input survives into the TLS session.
Property theorems only; the case analysis lives in Lemmas/StartTlsSrv.lean.

The model (`QsmtpModel.StartTlsSrv`) runs the command loop of qsmtpd/qsmtpd.c (through `Session.step`,
dispatching over the extracted table `Gen.commands`) on top of the line reader of lib/netio.c
(`Netio.netRead`) over two peer scripts, the clear-text one and the one inside TLS, with the single
look-ahead buffer `lineinn` (`Core.inn`) that both modes of `readinput()` share.  `connStep` is one
iteration of smtploop (or of wait_for_quit); which wire it reads is decided by `sess.ssl` alone, as
in `readinput()`.  All theorems are for every configuration, every peer script (= every clear-text
suffix, every cut into segments, every placement of the pauses that decide what poll() sees), every
handshake oracle and every verdict of the command bodies.
-/
import QsmtpModel.Lemmas.StartTlsSrv
import QsmtpModel.Lemmas.StartTlsSrvTls
import QsmtpModel.Lemmas.StartTlsCert

namespace QsmtpModel.Props.C17
open QsmtpModel QsmtpModel.Netio QsmtpModel.Session QsmtpModel.StartTlsSrv

/-- The extractor found `sync_pipelining()` in tls_init() in front of the "220 ready for tls", the
handshake behind it and `ssl = myssl` last (anything else is a broken anchor or makes this fail). -/
theorem sync_is_first_step : Gen.tlsSyncBeforeReady = 1 := rfl

/-- The STARTTLS row of the extracted command table: enabled only in the state right after EHLO
(`mask = 0x10`: no transaction can be open) and `state = 0x1` on success — back to the greeting state. -/
theorem starttls_row : ∀ r ∈ Gen.commands, r.func = .starttls → r.mask = 0x10 ∧ r.state = 1 ∧ r.flags = 0 := by
  decide

/-- **Where `ssl` becomes set.** For every step that starts without TLS: either `ssl` is still unset
afterwards, or the step is exactly this — the line read was dispatched to STARTTLS in ESMTP mode with a
usable certificate, outside wait_for_quit; the only reply is the 220 and it went out in clear; the
handshake oracle said `ok`; **the look-ahead buffer is empty**; the session state is the one of
`upgraded` (table row's state, nothing else touched). -/
theorem ssl_only_by_handshake (cfg : Cfg) (c : Conn) (h0 : c.core.sess.ssl = false) :
    (connStep cfg c).2.core.sess.ssl = false
    ∨ Upgrade cfg c.core c.clear (connStep cfg c).1 (connStep cfg c).2.core (connStep cfg c).2.clear := by
  have := stepOn_cases cfg c.core c.clear h0 sync_is_first_step
  unfold connStep
  simp only [h0, Bool.false_eq_true, if_false]
  exact this

/-- **At the moment of success the look-ahead buffer is empty** (and the 220 was the only reply). -/
theorem lookahead_empty_at_success (cfg : Cfg) (c : Conn) (h0 : c.core.sess.ssl = false)
    (h1 : (connStep cfg c).2.core.sess.ssl = true) :
    (connStep cfg c).2.core.inn = [] ∧ (connStep cfg c).1.replies = [220] ∧ (connStep cfg c).1.tls = false
      ∧ (connStep cfg c).2.core.wq = false ∧ (connStep cfg c).2.tls = c.tls := by
  rcases ssl_only_by_handshake cfg c h0 with h | h
  · rw [h] at h1; exact absurd h1 (by simp)
  · obtain ⟨l, i, row, _, _, _, _, _, _, hinn, hrep, htls, _, _, _, hwq, _, _⟩ := h
    refine ⟨hinn, hrep, htls, hwq, ?_⟩
    unfold connStep
    simp only [h0, Bool.false_eq_true, if_false]

/-- Once `ssl` is set it stays set. -/
theorem ssl_stays (cfg : Cfg) (c : Conn) (h : c.core.sess.ssl = true) : (connStep cfg c).2.core.sess.ssl = true := by
  rw [connStep_tls cfg c h]
  exact stepOn_ssl_mono cfg c.core c.tls h

/-- **After the handshake the clear-text wire does not exist for the server**: the events of the rest
of the connection are those of the one-wire loop `runOn` — a function that does not even take the
clear-text script as an argument — run on the state and the TLS script; the clear-text script is
handed through untouched. -/
theorem clear_wire_irrelevant_after_success (cfg : Cfg) (c : Conn) (h : c.core.sess.ssl = true) (x : Wire) (fuel : Nat) :
    (runFrom cfg { c with clear := x } fuel).1 = (runOn cfg c.core c.tls fuel).1
    ∧ (runFrom cfg { c with clear := x } fuel).2.clear = x :=
  ⟨(runFrom_tls cfg fuel { c with clear := x } h).1, (runFrom_tls cfg fuel { c with clear := x } h).2.1⟩

/-- **No clear-text input survives.** If a step establishes TLS then afterwards (1) the look-ahead
buffer — the only place where bytes read in clear text could wait — is empty, and (2) whatever the
client sent or will send in clear text (`x` arbitrary), every later event is produced by the reader
from the TLS script alone. -/
theorem no_cleartext_survives (cfg : Cfg) (c : Conn) (h0 : c.core.sess.ssl = false)
    (h1 : (connStep cfg c).2.core.sess.ssl = true) (x : Wire) (fuel : Nat) :
    (connStep cfg c).2.core.inn = []
    ∧ (runFrom cfg { (connStep cfg c).2 with clear := x } fuel).1
        = (runOn cfg (connStep cfg c).2.core c.tls fuel).1 := by
  obtain ⟨hinn, _, _, _, htls⟩ := lookahead_empty_at_success cfg c h0 h1
  refine ⟨hinn, ?_⟩
  rw [← htls]
  exact (clear_wire_irrelevant_after_success cfg (connStep cfg c).2 h1 x fuel).1

/-- **Every command executed after the handshake was produced by the reader from the TLS stream.**
Let a step establish TLS and let the plaintext the client sends inside TLS be the well-formed lines
`ls` (CRLF-terminated, no stray CR/LF, at most 999 octets), cut into records and interleaved with
pauses in any way.  Then, whatever the clear-text wire holds (`x` arbitrary: every suffix the client
pipelined or sends later), the lines the server acts on from then on are, in order, lines of `ls`
(message lines consumed by DATA and a line eaten by hasinput() do not show up as commands; nothing
that is not in `ls` ever does). -/
theorem tls_commands_exact (cfg : Cfg) (c : Conn) (h0 : c.core.sess.ssl = false)
    (h1 : (connStep cfg c).2.core.sess.ssl = true) (ls : List (List Byte)) (hwf : ∀ l ∈ ls, WfLine l)
    (htls : itemsBytes c.tls.items = wire ls) (x : Wire) (fuel : Nat) :
    (inputsOf (runFrom cfg { (connStep cfg c).2 with clear := x } fuel).1).Sublist ls := by
  obtain ⟨hinn, hrun⟩ := no_cleartext_survives cfg c h0 h1 x fuel
  rw [hrun]
  exact tls_lines_sublist cfg fuel _ c.tls ls h1 hwf (by rw [hinn]; simpa using htls)

/-- **State reset.** In every reachable state (any configuration whose filter verdicts are well formed,
any scripts, any number `n` of iterations) a step that establishes TLS leaves `comstate = 1`
(greeting state), no sender, no recipients, counters 0 — it could only be taken in the state right
after EHLO, where no transaction is open.  (`authname` is *not* cleared: an AUTH given before
STARTTLS survives the upgrade; the property does not list it.) -/
theorem state_reset (cfg : Cfg) (hv : ∀ l, (cfg.verd l).rcpt.Wf) (clear tls : Wire) (hs : List HsV) (n : Nat)
    (hrun : (run cfg clear tls hs n).2.core.stopped = false)
    (h0 : (run cfg clear tls hs n).2.core.sess.ssl = false)
    (h1 : (connStep cfg (run cfg clear tls hs n).2).2.core.sess.ssl = true) :
    (run cfg clear tls hs n).2.core.sess.comstate = 0x10
    ∧ (connStep cfg (run cfg clear tls hs n).2).2.core.sess.comstate = 1
    ∧ (connStep cfg (run cfg clear tls hs n).2).2.core.sess.mailfrom = []
    ∧ (connStep cfg (run cfg clear tls hs n).2).2.core.sess.rcpts = []
    ∧ (connStep cfg (run cfg clear tls hs n).2).2.core.sess.goodrcpt = 0
    ∧ (connStep cfg (run cfg clear tls hs n).2).2.core.sess.rcptcount = 0
    ∧ (connStep cfg (run cfg clear tls hs n).2).2.core.sess.authname = (run cfg clear tls hs n).2.core.sess.authname := by
  have hci := run_inv cfg hv clear tls hs n
  obtain ⟨hd, hc⟩ := not_stopped _ hrun
  have hI : Inv (run cfg clear tls hs n).2.core.sess := by
    rcases hci with h | h | h
    · rw [hd] at h; simp at h
    · rw [hc] at h; simp at h
    · exact h
  rcases ssl_only_by_handshake cfg _ h0 with h | h
  · rw [h] at h1; exact absurd h1 (by simp)
  · obtain ⟨a, b, c, d, e, f, _, _, g⟩ := upgrade_state cfg _ _ _ _ _ h hI
    exact ⟨a, b, c, d, e, f, g⟩

/-- **STARTTLS is accepted only** in ESMTP mode, without TLS already active, with a usable
certificate, in the state right after EHLO, and only when the handshake itself completes. -/
theorem starttls_when (cfg : Cfg) (c : Conn) (h0 : c.core.sess.ssl = false)
    (h1 : (connStep cfg c).2.core.sess.ssl = true) :
    c.core.sess.esmtp = true ∧ cfg.cert = .usable ∧ c.core.sess.comstate &&& 0x10 ≠ 0
      ∧ ∃ t, c.core.hs = .ok :: t := by
  rcases ssl_only_by_handshake cfg c h0 with h | h
  · rw [h] at h1; exact absurd h1 (by simp)
  · obtain ⟨l, i, row, _, hd, hf, hes, hcert, _, _, _, _, _, _, ⟨t, ht, _⟩, _⟩ := h
    obtain ⟨hrow, hmask⟩ := dispatch_call _ _ _ _ hd
    obtain ⟨hm, _, _⟩ := starttls_row_facts i row (row_mem l i row hrow) hf
    rw [hm] at hmask
    exact ⟨hes, hcert, hmask, t, ht⟩

/-- ... and never inside TLS: with `ssl` set the STARTTLS function answers "bad sequence" (503). -/
theorem starttls_refused_inside_tls (v : TlsHsV) (s : Sess) (h : s.ssl = true) :
    smtpStarttls v s = { replies := [], rc := .badseq, s := s } :=
  smtpStarttls_guarded v s (by simp [h])

/-- ... nor after HELO. -/
theorem starttls_refused_without_esmtp (v : TlsHsV) (s : Sess) (h : s.esmtp = false) :
    smtpStarttls v s = { replies := [], rc := .badseq, s := s } :=
  smtpStarttls_guarded v s (by simp [h])

/-- EHLO announces STARTTLS iff a certificate file was found, TLS is not active and the port is not 465. -/
theorem offer_iff_certificate (cfg : Cfg) (s : Sess) :
    offers cfg s = true ↔ (s.ssl = false ∧ cfg.port465 = false ∧ cfg.certFound = true) := by
  unfold offers
  cases s.ssl <;> cases cfg.port465 <;> cases cfg.certFound <;> simp

/-- **Clear text behind STARTTLS is refused, for every suffix and every cut.** Take any state without
TLS in ESMTP mode with a usable certificate in which the reader hands out a STARTTLS line that the
table admits.  If *anything* is left behind that line — bytes already in the look-ahead buffer (the
suffix came in the same segment, however that segment was cut) or a segment that poll() reports (the
suffix came in a following segment) — the answer is the 503 of sync_pipelining(), the session goes
to wait_for_quit(), no handshake is attempted (the oracle is not consumed) and the session state is
untouched. -/
theorem pipelined_suffix_refused (cfg : Cfg) (k : Core) (w : Wire) (l inn' : List Byte) (w' : Wire) (i : Nat) (row : Gen.Row)
    (hr : readLine k.inn w = (.line l, inn', w'))
    (hvalid : (l.any fun b => b == 0 || b.toNat ≥ 128) = false)
    (hd : dispatch k.sess l = .call i row) (hf : row.func = .starttls)
    (hssl : k.sess.ssl = false) (hes : k.sess.esmtp = true) (hcert : cfg.cert = .usable)
    (hpend : inn' ≠ [] ∨ ∃ b bs is, skipEmpty w'.items = .seg (b :: bs) :: is) :
    (loopStep cfg k w).1.replies = [Gen.pipeErrCode] ∧ (loopStep cfg k w).1.tls = false
    ∧ (loopStep cfg k w).2.1.sess = k.sess ∧ (loopStep cfg k w).2.1.wq = true
    ∧ (loopStep cfg k w).2.1.hs = k.hs ∧ (loopStep cfg k w).2.1.dead = k.dead := by
  rw [loopStep_starttls cfg k w l inn' w' i row hr hvalid hd hf hssl hes hcert]
  obtain ⟨a, b, c, d, e⟩ := tlsInit_pending { k with inn := inn', lastbuf := bufAfter k.inn w.toSrc k.lastbuf } w' i row
    hssl hes sync_is_first_step hpend
  exact ⟨a, rfl, b, c, e, d⟩

/-- The code of that refusal, from the extracted literal. -/
theorem pipeErrCode_eq : Gen.pipeErrCode = 503 := rfl

/-- **Inside wait_for_quit() nothing is executed**: whatever is read (clear text or TLS plaintext), the
iteration hands nothing to the queue, announces nothing, answers 503 (or 221 to QUIT, or the 550 of
too many bad commands, or nothing because the connection ended) and leaves state, sender, recipients,
counters, ESMTP flag and authentication as they were (unless the session is closed). -/
theorem wait_for_quit_inert (cfg : Cfg) (k : Core) (w : Wire) (h : k.wq = true) :
    (stepOn cfg k w).1.handoff = none ∧ (stepOn cfg k w).1.offer = false
    ∧ ((stepOn cfg k w).1.replies = [] ∨ (stepOn cfg k w).1.replies = [221] ∨ (stepOn cfg k w).1.replies = [Gen.waitQuitCode]
        ∨ (stepOn cfg k w).1.replies = [Gen.tooManyCode])
    ∧ (stepOn cfg k w).2.1.wq = true ∧ (stepOn cfg k w).2.1.sess.ssl = k.sess.ssl
    ∧ ((stepOn cfg k w).2.1.dead.isSome = true ∨ (stepOn cfg k w).2.1.sess.closed = true
        ∨ (SameTx k.sess (stepOn cfg k w).2.1.sess ∧ (stepOn cfg k w).2.1.sess.authname = k.sess.authname
            ∧ (stepOn cfg k w).2.1.sess.esmtp = k.sess.esmtp)) := by
  unfold stepOn
  rw [if_pos h]
  obtain ⟨a, b, c, d⟩ := wqStep_inert k w
  obtain ⟨e, f, _⟩ := wqStep_keeps k w
  exact ⟨a, b, c, by rw [f]; exact h, e, d⟩

/-- **A handshake that does not complete is inert.** When tls_init() is reached without TLS in ESMTP
mode and the handshake oracle does not say `ok` (failure, time-out, or no handshake because input was
pending): `ssl` stays unset — so every later line is read from the clear-text wire and every reply goes
out in clear — and either the program has ended (time-out, connection gone, too many bad commands) or
state, sender, recipients, counters, ESMTP flag and authentication are exactly what they were. -/
theorem failed_handshake_inert (k : Core) (w : Wire) (i : Nat) (row : Gen.Row) (hssl : k.sess.ssl = false)
    (hes : k.sess.esmtp = true) (hh : ∀ t, k.hs ≠ .ok :: t) :
    (tlsInit k w i row).2.1.sess.ssl = false
    ∧ ((tlsInit k w i row).2.1.dead.isSome = true ∨ (tlsInit k w i row).2.1.sess.closed = true
        ∨ (SameTx k.sess (tlsInit k w i row).2.1.sess ∧ (tlsInit k w i row).2.1.sess.esmtp = k.sess.esmtp
            ∧ (tlsInit k w i row).2.1.sess.authname = k.sess.authname)) :=
  tlsInit_failed k w i row hssl hes sync_is_first_step hh

/-- ... and at the level of the connection: a step from a state without TLS whose oracle does not
promise a completed handshake leaves `ssl` unset, so the next iteration reads the clear-text wire. -/
theorem no_tls_without_handshake (cfg : Cfg) (c : Conn) (h0 : c.core.sess.ssl = false) (hh : ∀ t, c.core.hs ≠ .ok :: t) :
    (connStep cfg c).2.core.sess.ssl = false ∧ (connStep cfg c).2.tls = c.tls := by
  refine ⟨?_, ?_⟩
  · rcases ssl_only_by_handshake cfg c h0 with h | h
    · exact h
    · obtain ⟨_, _, _, _, _, _, _, _, _, _, _, _, _, _, ⟨t, ht, _⟩, _⟩ := h
      exact absurd ht (hh t)
  · unfold connStep
    simp only [h0, Bool.false_eq_true, if_false]

/-- **MAIL requires a new EHLO/HELO.** In the greeting state (`comstate = 1`, where a completed
handshake puts the session) MAIL, RCPT, DATA, AUTH and STARTTLS are answered 503 (or the connection is
dropped for too many bad commands), nothing is handed over and nothing changes. -/
theorem mail_requires_new_greeting (env : Env) (s : Sess) (l : List Byte) (v : Verdicts) (i : Nat) (row : Gen.Row)
    (hc : s.closed = false) (h1 : s.comstate = 1) (hrow : findRow l Gen.commands 0 = some (i, row))
    (hf : row.func = .mail ∨ row.func = .rcpt ∨ row.func = .data ∨ row.func = .auth ∨ row.func = .starttls) :
    (step env s (.line l v)).1.handoff = none
    ∧ (((step env s (.line l v)).2.closed = true ∧ (step env s (.line l v)).1.replies = [550])
       ∨ ((step env s (.line l v)).1.replies = [503] ∧ SameTx s (step env s (.line l v)).2
            ∧ (step env s (.line l v)).2.closed = false)) :=
  greeting_state_blocks env s l v i row hc h1 hrow hf

/-! ### which certificate: find_servercert() on its raw buffers (`QsmtpModel.StartTlsCert`) -/

/-- The working tree contains the repaired find_servercert() (`oldlen` = length of the plain name, buffers
cut back first).  On a tree with the function as found this is false and nothing below is shown. -/
theorem servercert_variant_is_repaired : Gen.certOldlenFixed = 1 := rfl

/-- **The certificate lookup never leaves its buffers**, for any number of EHLOs, any file system, any
local address of at most INET6_ADDRSTRLEN-1 characters and port of at most 5 (what tcpserver provides):
every call returns, and the names tls_init() will open are C strings inside the buffers. -/
theorem find_servercert_no_fault (fs : List Byte → Bool) (ip : List Byte) (port : Option (List Byte))
    (he : StartTlsCert.EnvOk ip port) (n : Nat) :
    ∀ r ∈ StartTlsCert.calls (Gen.certOldlenFixed == 1) fs ip port n StartTlsCert.init, ∃ x, r = .ok x :=
  StartTlsCert.calls_fixed_no_fault fs ip port he n StartTlsCert.init StartTlsCert.init_sized

/-- **STARTTLS is offered iff a certificate is found, and every EHLO gives the same answer**: the n-th
call finds a certificate iff `servercert.pem.<ip>:<port>`, `servercert.pem.<ip>` or `servercert.pem` is
readable, leaves the first readable of these (in that order) as the certificate tls_init() loads and the
key file with the same suffix if that is readable (else the certificate file) — whatever earlier calls
left in the buffers. -/
theorem find_servercert_spec (fs : List Byte → Bool) (ip : List Byte) (port : Option (List Byte))
    (he : StartTlsCert.EnvOk ip port) (n : Nat) :
    StartTlsCert.calls (Gen.certOldlenFixed == 1) fs ip port n StartTlsCert.init
      = List.replicate n (.ok ((StartTlsCert.expected fs ip port).1, (StartTlsCert.expected fs ip port).2,
                               StartTlsCert.expectedKey fs ip port))
    ∧ ((StartTlsCert.expected fs ip port).1 = true ↔
        ((∃ p, port = some p ∧ fs ((StartTlsCert.nameIpPort ip p).drop 8) = true)
          ∨ fs ((StartTlsCert.nameIp ip).drop 8) = true ∨ fs (Gen.certBaseName.drop 8) = true)) :=
  ⟨StartTlsCert.calls_fixed_spec fs ip port he n StartTlsCert.init StartTlsCert.init_sized StartTlsCert.init_based,
   StartTlsCert.expected_found fs ip port⟩

/-- **The function as found violates this** (kept as a machine-checked counterexample; replayed on the
real code: corpus/C17/servercert-second-ehlo.txt): local address `2001:db8:85a3:8d3:1319:8a2e:370:7348`,
port 25, the certificate in `control/servercert.pem.<ip>` — the second EHLO writes at index 96 of the
76 byte buffer `certfilename`. -/
theorem second_ehlo_overflows :
    let ip : List Byte := [50, 48, 48, 49, 58, 100, 98, 56, 58, 56, 53, 97, 51, 58, 56, 100, 51, 58,
      49, 51, 49, 57, 58, 56, 97, 50, 101, 58, 51, 55, 48, 58, 55, 51, 52, 56]
    let fs := fun name : List Byte => name == [115, 101, 114, 118, 101, 114, 99, 101, 114, 116, 46,
      112, 101, 109, 46, 50, 48, 48, 49, 58, 100, 98, 56, 58, 56, 53, 97, 51, 58, 56, 100, 51, 58,
      49, 51, 49, 57, 58, 56, 97, 50, 101, 58, 51, 55, 48, 58, 55, 51, 52, 56]
    ∃ x, StartTlsCert.calls false fs ip (some [50, 53]) 2 StartTlsCert.init = [.ok x, .error (.oobWrite 96)] :=
  StartTlsCert.second_ehlo_writes_96

/-- non-vacuity of `EnvOk`: the IPv4 form "192.0.2.1" with port "25" -/
example : StartTlsCert.EnvOk [49, 57, 50, 46, 48, 46, 50, 46, 49] (some [50, 53]) := by
  refine ⟨by decide, by decide, ?_⟩
  intro p hp
  simp only [Option.some.injEq] at hp
  subst hp
  exact ⟨by decide, by decide⟩

/-- Non-vacuity and a worked instance of the whole thing: `EHLO x`, `STARTTLS` in lock step, a completed
handshake, then inside TLS `NOOP`.  The 220 is the last clear-text reply, the NOOP is answered inside
TLS, the state is the greeting state. -/
example :
    let clear : Wire := { items := [.pause, .seg [69, 72, 76, 79, 32, 120, 13, 10], .pause, .seg [83, 84, 65, 82, 84, 84, 76, 83, 13, 10], .pause] }
    let tls : Wire := { items := [.seg [78, 79, 79, 80, 13, 10], .pause] }
    ((run {} clear tls [.ok] 3).1.map fun e => (e.tls, e.replies)) = [(false, [220]), (false, [250]), (false, [220]), (true, [250])]
    ∧ (run {} clear tls [.ok] 3).2.core.sess.comstate = 1 ∧ (run {} clear tls [.ok] 3).2.core.sess.ssl = true := by
  decide

/-- The same with `NOOP` pipelined behind STARTTLS in the same segment: 503, wait_for_quit, no TLS. -/
example :
    let clear : Wire := { items := [.pause, .seg [69, 72, 76, 79, 32, 120, 13, 10], .pause,
      .seg [83, 84, 65, 82, 84, 84, 76, 83, 13, 10, 78, 79, 79, 80, 13, 10], .pause] }
    ((run {} clear {} [.ok] 3).1.map fun e => (e.tls, e.replies)) = [(false, [220]), (false, [250]), (false, [503]), (false, [503])]
    ∧ (run {} clear {} [.ok] 3).2.core.sess.ssl = false ∧ (run {} clear {} [.ok] 3).2.core.wq = true := by
  decide

end QsmtpModel.Props.C17
